import RTA.Lemmas.FifoSound
import Mathlib.Data.Finset.Max
/-! C18: tightness of the FIFO bound — for task sets whose arrival curves are realised by
one release sequence (periodic, sporadic with jitter, …) there is a legal FIFO schedule in
which some job has a response time equal to the bound. -/

open Finset

namespace RTA.Sched
open RTA RTA.Spec

/-- a job set: task, release, cost of each of `n` jobs -/
structure JobSet where
  n : ℕ
  task : ℕ → ℕ
  arr : ℕ → ℕ
  cost : ℕ → ℕ

/-- the system consisting of a job set and a schedule (no non-preemptive states) -/
def JobSet.withSched (js : JobSet) (sched : ℕ → Option ℕ) : Sys :=
  { n := js.n, task := js.task, arr := js.arr, cost := js.cost, np := fun _ _ => False, sched := sched }

namespace TightLemmas
open FifoSoundLemmas

/-! ### the greedy FIFO scheduler -/

/-- keep the candidate with the smaller release time (ties: the earlier candidate) -/
def better (arr : ℕ → ℕ) (best : Option ℕ) (k : ℕ) : Option ℕ :=
  match best with
  | none => some k
  | some b => if arr k < arr b then some k else some b

/-- among the `k < m` with `p k`, one with the least `arr k` -/
def pickUpTo (arr : ℕ → ℕ) (p : ℕ → Bool) : ℕ → Option ℕ
  | 0 => none
  | m + 1 => if p m then better arr (pickUpTo arr p m) m else pickUpTo arr p m

theorem pick_spec (arr : ℕ → ℕ) (p : ℕ → Bool) : ∀ m,
    (pickUpTo arr p m = none ∧ ∀ k, k < m → p k = false) ∨
    (∃ j, pickUpTo arr p m = some j ∧ j < m ∧ p j = true ∧
      ∀ k, k < m → p k = true → arr j ≤ arr k) := by
  intro m
  induction m with
  | zero => left; exact ⟨rfl, fun k hk => absurd hk (Nat.not_lt_zero _)⟩
  | succ m ih =>
    simp only [pickUpTo]
    by_cases hp : p m = true
    · rw [if_pos hp]
      right
      rcases ih with ⟨hn, hall⟩ | ⟨j, hj, hjm, hpj, hmin⟩
      · rw [hn]
        refine ⟨m, rfl, by omega, hp, ?_⟩
        intro k hk hpk
        rcases Nat.lt_succ_iff_lt_or_eq.1 hk with h | h
        · rw [hall k h] at hpk; cases hpk
        · subst h; exact le_refl _
      · rw [hj]
        simp only [better]
        by_cases hlt : arr m < arr j
        · rw [if_pos hlt]
          refine ⟨m, rfl, by omega, hp, ?_⟩
          intro k hk hpk
          rcases Nat.lt_succ_iff_lt_or_eq.1 hk with h | h
          · have := hmin k h hpk; omega
          · subst h; exact le_refl _
        · rw [if_neg hlt]
          refine ⟨j, rfl, by omega, hpj, ?_⟩
          intro k hk hpk
          rcases Nat.lt_succ_iff_lt_or_eq.1 hk with h | h
          · exact hmin k h hpk
          · subst h; omega
    · rw [if_neg hp]
      have hp' : p m = false := by simpa using hp
      rcases ih with ⟨hn, hall⟩ | ⟨j, hj, hjm, hpj, hmin⟩
      · left
        refine ⟨hn, ?_⟩
        intro k hk
        rcases Nat.lt_succ_iff_lt_or_eq.1 hk with h | h
        · exact hall k h
        · subst h; exact hp'
      · right
        refine ⟨j, hj, by omega, hpj, ?_⟩
        intro k hk hpk
        rcases Nat.lt_succ_iff_lt_or_eq.1 hk with h | h
        · exact hmin k h hpk
        · subst h; rw [hp'] at hpk; cases hpk

/-- pending w.r.t. a service vector `σ` at time `t` -/
def pend (js : JobSet) (σ : ℕ → ℕ) (t : ℕ) : ℕ → Bool :=
  fun k => decide (js.arr k ≤ t ∧ σ k < js.cost k)

/-- service vector of the greedy FIFO scheduler -/
def sig (js : JobSet) : ℕ → ℕ → ℕ
  | 0 => fun _ => 0
  | t + 1 => fun k =>
    sig js t k + if pickUpTo js.arr (pend js (sig js t) t) js.n = some k then 1 else 0

/-- the greedy FIFO scheduler -/
def gsched (js : JobSet) (t : ℕ) : Option ℕ := pickUpTo js.arr (pend js (sig js t) t) js.n

theorem svc_gsched (js : JobSet) (k : ℕ) : ∀ t, svc (js.withSched (gsched js)) k t = sig js t k := by
  intro t
  induction t with
  | zero => rfl
  | succ t ih =>
    show svc (js.withSched (gsched js)) k t + (if gsched js t = some k then 1 else 0)
      = sig js t k + (if gsched js t = some k then 1 else 0)
    rw [ih]

theorem pending_gsched (js : JobSet) (k t : ℕ) :
    Pending (js.withSched (gsched js)) k t ↔ pend js (sig js t) t k = true := by
  unfold Pending
  rw [svc_gsched]
  simp [pend, JobSet.withSched]

/-! ### the lower bound -/

theorem sum_sched_le_one (s : Sys) (t : ℕ) :
    (∑ k ∈ range s.n, if s.sched t = some k then 1 else 0) ≤ 1 := by
  cases s.sched t with
  | none => simp
  | some j =>
    simp only [Option.some.injEq]
    rw [sum_ite_eq]
    split <;> omega

theorem served_step_le (s : Sys) (lo hi t : ℕ) : served s lo hi (t + 1) ≤ served s lo hi t + 1 := by
  have h1 : served s lo hi (t + 1)
      ≤ served s lo hi t + ∑ k ∈ range s.n, if s.sched t = some k then 1 else 0 := by
    unfold served
    rw [← sum_add_distrib]
    apply sum_le_sum
    intro k _
    simp only [svc]
    split <;> omega
  have h2 := sum_sched_le_one s t
  omega

theorem served_le (s : Sys) (lo hi a : ℕ) : ∀ len, served s lo hi (a + len) ≤ served s lo hi a + len := by
  intro len
  induction len with
  | zero => simp
  | succ len ih =>
    have := served_step_le s lo hi (a + len)
    have e : a + (len + 1) = a + len + 1 := by omega
    rw [e]
    omega

open Classical in
/-- completion time of job `k` (0 if it never completes) -/
noncomputable def complTime (s : Sys) (k : ℕ) : ℕ :=
  if h : ∃ t, svc s k t = s.cost k then Nat.find h else 0

theorem complTime_spec (s : Sys) (k : ℕ) (h : ∃ t, svc s k t = s.cost k) :
    svc s k (complTime s k) = s.cost k := by
  classical
  unfold complTime
  rw [dif_pos h]
  exact Nat.find_spec h

theorem complTime_le (s : Sys) (k t : ℕ) (ht : svc s k t = s.cost k) : complTime s k ≤ t := by
  classical
  have h : ∃ t, svc s k t = s.cost k := ⟨t, ht⟩
  unfold complTime
  rw [dif_pos h]
  exact Nat.find_min' h ht

/-- lower bound for a window starting at an arbitrary `t₀`: among the jobs released at
`t₀ + A` the one completing last completes no earlier than `t₀ + W`, `W` the total cost of
the jobs released in `[t₀, t₀ + A]` (whatever was released before `t₀`) -/
theorem lower_from (s : Sys) (hl : FifoLegal s) (t₀ A : ℕ)
    (hex : ∃ j, j < s.n ∧ s.arr j = t₀ + A) (hpos : ∀ k, k < s.n → 1 ≤ s.cost k) :
    ∃ j, j < s.n ∧ s.arr j = t₀ + A ∧
      ∀ R, MeetsBound s j R → work s t₀ (t₀ + A + 1) ≤ A + R := by
  classical
  by_cases hall : ∀ j, j < s.n → s.arr j = t₀ + A → ∃ t, svc s j t = s.cost j
  swap
  · push Not at hall
    obtain ⟨j, hj, hja, hnc⟩ := hall
    exact ⟨j, hj, hja, fun R hR => absurd hR (hnc (s.arr j + R))⟩
  have hne : ((range s.n).filter (fun k => s.arr k = t₀ + A)).Nonempty := by
    obtain ⟨j, hj, hja⟩ := hex
    exact ⟨j, by simp [hj, hja]⟩
  obtain ⟨j, hjS, hmax⟩ := Finset.exists_max_image _ (complTime s) hne
  have hj : j < s.n ∧ s.arr j = t₀ + A := by simpa using hjS
  have hjF : svc s j (complTime s j) = s.cost j := complTime_spec s j (hall j hj.1 hj.2)
  have hmin : ∀ t, svc s j t = s.cost j → complTime s j ≤ t := fun t ht => complTime_le s j t ht
  generalize complTime s j = F at hmax hjF hmin
  have hcj := hpos j hj.1
  have hF1 : 1 ≤ F := by
    rcases Nat.eq_zero_or_pos F with h | h
    · subst h
      have : svc s j 0 = 0 := rfl
      omega
    · exact h
  obtain ⟨F', rfl⟩ : ∃ F', F = F' + 1 := ⟨F - 1, by omega⟩
  have hlt : svc s j F' < s.cost j := by
    have h1 := svc_le_cost' hl j F'
    have h2 : svc s j F' ≠ s.cost j := fun h => by have := hmin F' h; omega
    omega
  have hsch : s.sched F' = some j := by
    by_contra hns
    simp only [svc, if_neg hns] at hjF
    omega
  have hpj := (hl.valid F' j hsch).2
  have hpj1 : s.arr j ≤ F' := hpj.1
  have hdone : ∀ k, k < s.n → t₀ ≤ s.arr k → s.arr k < t₀ + A + 1 →
      svc s k (F' + 1) = s.cost k := by
    intro k hk h1 h2
    by_cases hka : s.arr k = t₀ + A
    · have hkS : k ∈ (range s.n).filter (fun k => s.arr k = t₀ + A) := by simp [hk, hka]
      exact done_mono hl k (hmax k hkS) (complTime_spec s k (hall k hk hka))
    · have hnp : ¬ Pending s k F' := fun hp => by
        have := hl.fifo F' j hsch k hk hp
        omega
      have hd : svc s k F' = s.cost k := by
        unfold Pending at hnp
        have := svc_le_cost' hl k F'
        omega
      exact done_mono hl k (by omega) hd
  have heq : served s t₀ (t₀ + A + 1) (F' + 1) = work s t₀ (t₀ + A + 1) := by
    unfold served work
    apply sum_congr rfl
    intro k hk
    split
    next h => exact hdone k (mem_range.1 hk) h.1 h.2
    next => rfl
  have hle : served s t₀ (t₀ + A + 1) (F' + 1) ≤ F' + 1 - t₀ := by
    have := served_le s t₀ (t₀ + A + 1) t₀ (F' + 1 - t₀)
    rw [served_zero_at_lo hl] at this
    have e : t₀ + (F' + 1 - t₀) = F' + 1 := by omega
    rw [e] at this
    omega
  refine ⟨j, hj.1, hj.2, ?_⟩
  intro R hR
  have := hmin (s.arr j + R) hR
  omega

/-! ### workload of a task whose jobs all cost the same -/

theorem maxList_mem_of_pos : ∀ l : List ℕ, 0 < maxList l → maxList l ∈ l
  | [], h => by simp [maxList] at h
  | x :: xs, h => by
    simp only [maxList] at h ⊢
    rcases Nat.le_total x (maxList xs) with hle | hle
    · rw [Nat.max_eq_right hle] at h ⊢
      exact List.mem_cons_of_mem _ (maxList_mem_of_pos xs h)
    · rw [Nat.max_eq_left hle]
      exact List.mem_cons_self

theorem getD_eq_getElem' {α : Type} (l : List α) (i : ℕ) (d : α) (h : i < l.length) :
    l.getD i d = l[i] := (List.getElem_eq_getD d).symm

theorem cnt_append (a b : List ℕ) (t d : ℕ) : cnt (a ++ b) t d = cnt a t d + cnt b t d := by
  unfold cnt
  rw [List.filter_append, List.length_append]

theorem workOf_const_aux (s : Sys) (i C t d : ℕ)
    (hC : ∀ k, k < s.n → s.task k = i → s.cost k = C) :
    ∀ m, m ≤ s.n →
      (∑ k ∈ range m, if s.task k = i ∧ t ≤ s.arr k ∧ s.arr k < t + d then s.cost k else 0)
        = C * cnt (((List.range m).filter (fun k => s.task k = i)).map s.arr) t d := by
  intro m
  induction m with
  | zero => intro _; simp [cnt_nil]
  | succ m ih =>
    intro hm
    rw [Finset.sum_range_succ, ih (by omega), List.range_succ, List.filter_append,
      List.map_append, cnt_append, Nat.mul_add]
    congr 1
    by_cases h : s.task m = i
    · have e : List.filter (fun k => decide (s.task k = i)) [m] = [m] := by simp [h]
      rw [e, List.map_cons, List.map_nil, cnt_cons, cnt_nil, hC m (by omega) h]
      by_cases hw : t ≤ s.arr m ∧ s.arr m < t + d
      · simp [h, hw]
      · simp [h, hw]
    · have e : List.filter (fun k => decide (s.task k = i)) [m] = [] := by simp [h]
      rw [e, List.map_nil, cnt_nil]
      simp [h]

/-- if every job of task `i` costs `C`, the task's workload in a window is `C` times the
number of its releases in the window -/
theorem workOf_const (s : Sys) (i C t d : ℕ)
    (hC : ∀ k, k < s.n → s.task k = i → s.cost k = C) :
    workOf s (fun x => x = i) t (t + d) = C * cnt (relsOf s i) t d := by
  unfold workOf relsOf
  exact workOf_const_aux s i C t d hC s.n (le_refl _)

/-- with scalar WCETs attained by every job and release counts equal to the arrival bounds
the workload of the window `[t₀, t₀ + d)` IS the aggregate request bound -/
theorem work_eq_need (s : Sys) (ts : List (Arr × ℕ))
    (hc : Compliant s (ts.map fun p => (p.1, Cost.scalar p.2)))
    (hcost : ∀ k, k < s.n → s.cost k = (ts.getD (s.task k) default).2)
    (t₀ d : ℕ)
    (hreal : ∀ i, i < ts.length → cnt (relsOf s i) t₀ d = (ts.getD i default).1.N d) :
    work s t₀ (t₀ + d) = (taskSetRB (ts.map fun p => (p.1, Cost.scalar p.2))).need d := by
  rw [work_eq_sum_workOf s _ hc.task_lt, need_taskSetRB,
    ← sum_range_getElem? (ts.map fun p => (p.1, Cost.scalar p.2)) (fun p => p.2.ofJobs (p.1.N d))]
  apply Finset.sum_congr rfl
  intro i hi
  have hi' := mem_range.1 hi
  have hi2 : i < ts.length := by simpa using hi'
  rw [List.getElem?_eq_getElem hi', List.getElem_map]
  simp only [Cost.ofJobs]
  rw [workOf_const s i (ts.getD i default).2 t₀ d ?_, hreal i hi2, getD_eq_getElem' _ _ _ hi2]
  intro k hk hki
  rw [hcost k hk, hki]

/-- core of the attainment theorem, for a window starting at an arbitrary `t₀` -/
theorem attained_core (s : Sys) (hl : FifoLegal s) (ts : List (Arr × ℕ))
    (hwf : ∀ p ∈ ts, p.1.WF ∧ p.1.Exact ∧ 1 ≤ p.2)
    (hc : Compliant s (ts.map fun p => (p.1, Cost.scalar p.2)))
    (hcost : ∀ k, k < s.n → s.cost k = (ts.getD (s.task k) default).2)
    (limit R L t₀ : ℕ)
    (hR : fifoRta (taskSetRB (ts.map fun p => (p.1, Cost.scalar p.2))) limit = .ok R)
    (hL : naiveSolve (fun x => (taskSetRB (ts.map fun p => (p.1, Cost.scalar p.2))).need x) limit = .ok L)
    (hreal : ∀ i, i < ts.length → ∀ Δ, Δ ≤ L →
      cnt (relsOf s i) t₀ Δ = (ts.getD i default).1.N Δ) (hRpos : 0 < R) :
    ∃ j, j < s.n ∧ MeetsBound s j R ∧ ∀ R', R' < R → ¬ MeetsBound s j R' := by
  have hwf' : ∀ p ∈ ts.map (fun p => (p.1, Cost.scalar p.2)), p.1.WF ∧ p.2.WF := by
    intro p hp
    obtain ⟨q, hq, rfl⟩ := List.mem_map.1 hp
    exact ⟨(hwf q hq).1, trivial⟩
  have hex' : ∀ p ∈ ts.map (fun p => (p.1, Cost.scalar p.2)), p.1.Exact ∧ p.2.StrictPos := by
    intro p hp
    obtain ⟨q, hq, rfl⟩ := List.mem_map.1 hp
    exact ⟨(hwf q hq).2.1, Cost.scalar_strictPos _ (hwf q hq).2.2⟩
  have h1 : (taskSetRB (ts.map fun p => (p.1, Cost.scalar p.2))).ArrWF := by
    unfold taskSetRB; unfold RB.ArrWF
    exact arrWFList_map _ (fun p hp => (hwf' p hp).1)
  have h2 : (taskSetRB (ts.map fun p => (p.1, Cost.scalar p.2))).Exact := by
    unfold taskSetRB; unfold RB.Exact
    exact exactList_map _ hex'
  have hmeets := fifo_sound_taskset s hl _ hwf' hex' hc limit R hR
  have hlim : 1 ≤ limit := by
    rcases Nat.eq_zero_or_pos limit with h0 | h
    · subst h0
      unfold fifoRta at hR
      rw [PruneFPLemmas.search_limit_zero] at hR
      simp at hR
    · exact h
  rw [fifo_eq_naive _ h1 h2 limit hlim] at hR
  unfold naiveFifo at hR
  rw [hL] at hR
  simp only [Res.ok.injEq] at hR
  generalize hneed : (taskSetRB (ts.map fun p => (p.1, Cost.scalar p.2))).need = need at hR
  have hmono : ∀ a b, a ≤ b → need a ≤ need b := by
    intro a b hab; rw [← hneed]; exact RB.need_mono _ h1 h2 a b hab
  have hzero : need 0 = 0 := by rw [← hneed]; exact RB.need_zero _
  have hwork : ∀ d, d ≤ L → work s t₀ (t₀ + d) = need d := by
    intro d hd
    rw [← hneed]
    exact work_eq_need s ts hc hcost t₀ d (fun i hi => hreal i hi d hd)
  -- the maximum is attained
  have hmem : R ∈ (List.range L).map fun A => need (A + 1) - A := by
    rw [← hR]
    exact maxList_mem_of_pos _ (by rw [hR]; exact hRpos)
  obtain ⟨A, hA, hgA⟩ := List.mem_map.1 hmem
  have hAL : A < L := List.mem_range.1 hA
  have hgA : need (A + 1) - A = R := hgA
  -- at an increase point
  have hinc : need A < need (A + 1) := by
    rcases Nat.eq_zero_or_pos A with h0 | hpos
    · subst h0; omega
    · have hle : need (A - 1 + 1) - (A - 1) ≤ R := by
        rw [← hR]
        apply le_maxList_of_mem
        exact List.mem_map.2 ⟨A - 1, List.mem_range.2 (by omega), rfl⟩
      rw [Nat.sub_add_cancel hpos] at hle
      have := hmono A (A + 1) (by omega)
      omega
  have hw1 := hwork (A + 1) (by omega)
  have hw0 := hwork A (by omega)
  -- some job is released exactly at `t₀ + A`
  have hex : ∃ j, j < s.n ∧ s.arr j = t₀ + A := by
    by_contra hno
    push Not at hno
    have : work s t₀ (t₀ + (A + 1)) = work s t₀ (t₀ + A) := by
      unfold work
      apply sum_congr rfl
      intro k hk
      have := hno k (mem_range.1 hk)
      by_cases hw : t₀ ≤ s.arr k ∧ s.arr k < t₀ + A
      · rw [if_pos hw, if_pos (by omega)]
      · rw [if_neg hw, if_neg (by omega)]
    omega
  have hposc : ∀ k, k < s.n → 1 ≤ s.cost k := by
    intro k hk
    have hlt := hc.task_lt k hk
    rw [List.length_map] at hlt
    rw [hcost k hk, getD_eq_getElem' _ _ _ hlt]
    exact (hwf _ (List.getElem_mem hlt)).2.2
  obtain ⟨j, hj, hja, hlow⟩ := lower_from s hl t₀ A hex hposc
  refine ⟨j, hj, hmeets j hj, ?_⟩
  intro R' hR' hm
  have := hlow R' hm
  have e : t₀ + A + 1 = t₀ + (A + 1) := by omega
  rw [e, hw1] at this
  omega

/-! ### shifting release sequences -/

theorem GapsGe_map_add (T c : ℕ) : ∀ l, GapsGe T l → GapsGe T (l.map (· + c)) := by
  intro l
  induction l with
  | nil => intro _; simp [GapsGe]
  | cons x l ih =>
    cases l with
    | nil => intro _; simp [GapsGe]
    | cons y l =>
      intro h
      rw [GapsGe] at h
      rw [List.map_cons, List.map_cons, GapsGe]
      exact ⟨by omega, ih h.2⟩

theorem DelayedBy_map_add (J c : ℕ) : ∀ a r, DelayedBy J a r →
    DelayedBy J (a.map (· + c)) (r.map (· + c)) := by
  intro a
  induction a with
  | nil =>
    intro r h
    cases r with
    | nil => simp [DelayedBy]
    | cons y r => simp [DelayedBy] at h
  | cons x a ih =>
    intro r h
    cases r with
    | nil => simp [DelayedBy] at h
    | cons y r =>
      rw [DelayedBy] at h
      rw [List.map_cons, List.map_cons, DelayedBy]
      exact ⟨by omega, by omega, ih r h.2.2⟩

theorem cnt_map_add (l : List ℕ) (c t Δ : ℕ) : cnt (l.map (· + c)) (t + c) Δ = cnt l t Δ := by
  induction l with
  | nil => rfl
  | cons x l ih =>
    rw [List.map_cons, cnt_cons, cnt_cons, ih]
    congr 1
    by_cases h : t ≤ x ∧ x < t + Δ
    · rw [if_pos h, if_pos (by omega)]
    · rw [if_neg h, if_neg (by omega)]

end TightLemmas
open TightLemmas

/-- every job set (with positive costs) has a legal FIFO schedule -/
theorem exists_fifo_schedule (js : JobSet) (hpos : ∀ k, k < js.n → 1 ≤ js.cost k) :
    ∃ sched, FifoLegal (js.withSched sched) := by
  have _ := hpos
  refine ⟨gsched js, ⟨⟨?_, ?_⟩, ?_⟩⟩
  · intro t j h
    have h' : pickUpTo js.arr (pend js (sig js t) t) js.n = some j := h
    rcases pick_spec js.arr (pend js (sig js t) t) js.n with ⟨hn, _⟩ | ⟨j', hj', hlt, hp, _⟩
    · rw [hn] at h'; cases h'
    · rw [hj'] at h'
      cases h'
      exact ⟨hlt, (pending_gsched js _ t).2 hp⟩
  · rintro t ⟨k, hk, hpk⟩
    have hk' : k < js.n := hk
    rcases pick_spec js.arr (pend js (sig js t) t) js.n with ⟨_, hall⟩ | ⟨j', hj', _, _, _⟩
    · have := (pending_gsched js k t).1 hpk
      rw [hall k hk'] at this
      cases this
    · exact ⟨j', hj'⟩
  · intro t j h k hk hpk
    have h' : pickUpTo js.arr (pend js (sig js t) t) js.n = some j := h
    have hk' : k < js.n := hk
    rcases pick_spec js.arr (pend js (sig js t) t) js.n with ⟨hn, _⟩ | ⟨j', hj', _, _, hmin⟩
    · rw [hn] at h'; cases h'
    · rw [hj'] at h'
      cases h'
      exact hmin k hk' ((pending_gsched js k t).1 hpk)

/-- lower bound valid in EVERY legal FIFO schedule: if the jobs released in `[0, A]` have
total cost `W`, nothing is released before time 0 … (trivially) and the processor serves one
unit per slot, then among the jobs released exactly at `A` the one completing last completes
no earlier than `W`; hence some job released at `A` has response time at least `W - A` -/
theorem fifo_response_lower_bound (s : Sys) (hl : FifoLegal s) (A : ℕ)
    (hex : ∃ j, j < s.n ∧ s.arr j = A) (hpos : ∀ k, k < s.n → 1 ≤ s.cost k) :
    ∃ j, j < s.n ∧ s.arr j = A ∧ ∀ R, MeetsBound s j R → work s 0 (A + 1) ≤ A + R := by
  have := lower_from s hl 0 A (by simpa using hex) hpos
  simpa using this

/-- the same for a window starting at an arbitrary time `t₀` (whatever was released before
`t₀`): some job released at `t₀ + A` has response time at least `W - A`, `W` the total cost
of the jobs released in `[t₀, t₀ + A]` -/
theorem fifo_response_lower_bound_from (s : Sys) (hl : FifoLegal s) (t₀ A : ℕ)
    (hex : ∃ j, j < s.n ∧ s.arr j = t₀ + A) (hpos : ∀ k, k < s.n → 1 ≤ s.cost k) :
    ∃ j, j < s.n ∧ s.arr j = t₀ + A ∧
      ∀ R, MeetsBound s j R → work s t₀ (t₀ + A + 1) ≤ A + R :=
  lower_from s hl t₀ A hex hpos

/-- the release sequence `rels` realises the arrival model from time 0: the number of
releases in `[0, Δ)` is exactly `number_arrivals(Δ)`, for every `Δ` up to `H` -/
def RealisesUpTo (a : Arr) (rels : List ℕ) (H : ℕ) : Prop := ∀ Δ, Δ ≤ H → cnt rels 0 Δ = a.N Δ

/-- the critical-instant sequence of a sporadic task with jitter, shifted to start at 0 -/
def criticalFromZero (T J n : ℕ) : List ℕ := (List.range n).map fun k => k * T - J



theorem criticalFromZero_realises (T J n H : ℕ) (hT : 1 ≤ T) (hn : (Arr.sporadic T J).N H ≤ n) :
    RealisesUpTo (.sporadic T J) (criticalFromZero T J n) H := by
  intro Δ hΔ
  have hn' : (Arr.sporadic T J).N Δ ≤ n := le_trans (sporadic_N_mono T J hT Δ H hΔ) hn
  rw [sporadic_N_eq] at hn' ⊢
  split
  next h => subst h; exact cnt_zero _ _
  next h =>
    rw [if_neg h] at hn'
    unfold cnt criticalFromZero
    rw [List.filter_map, List.length_map]
    have : (List.range n).filter ((fun r => decide (0 ≤ r) && decide (r < 0 + Δ)) ∘
        fun k => k * T - J) = (List.range n).filter (fun k => decide (k * T < Δ + J)) := by
      apply List.filter_congr
      intro k _
      simp only [Function.comp]
      rw [Bool.eq_iff_iff]
      simp only [Bool.and_eq_true, decide_eq_true_eq]
      omega
    rw [this, length_filter_range_lt T _ hT]
    omega

/-- `criticalFromZero_admissible` is FALSE as stated: with `T = J = 1` the first two
releases both fall on time 0, but admissible arrivals are at least `T = 1` apart and not
later than the releases -/
theorem criticalFromZero_not_admissible :
    ¬ Admissible (.sporadic 1 1) (criticalFromZero 1 1 2) := by
  rw [Admissible]
  rintro ⟨arrivals, hg, hd⟩
  have e : criticalFromZero 1 1 2 = [0, 0] := by decide
  rw [e] at hd
  rcases arrivals with _ | ⟨a, _ | ⟨b, _ | ⟨c, rest⟩⟩⟩
  · simp [DelayedBy] at hd
  · simp [DelayedBy] at hd
  · simp only [DelayedBy, GapsGe] at hd hg
    omega
  · simp [DelayedBy] at hd

/-! ### replacement: realisation from a start time `t₀` -/

/-- the release sequence `rels` realises the arrival model from time `t₀`: nothing is
released before `t₀` and the number of releases in `[t₀, t₀ + Δ)` is exactly
`number_arrivals(Δ)`, for every `Δ` up to `H` -/
def RealisesFrom (a : Arr) (rels : List ℕ) (t₀ H : ℕ) : Prop :=
  (∀ r ∈ rels, t₀ ≤ r) ∧ ∀ Δ, Δ ≤ H → cnt rels t₀ Δ = a.N Δ

theorem RealisesUpTo_iff_RealisesFrom (a : Arr) (rels : List ℕ) (H : ℕ) :
    RealisesUpTo a rels H ↔ RealisesFrom a rels 0 H :=
  ⟨fun h => ⟨fun _ _ => Nat.zero_le _, h⟩, fun h => h.2⟩

/-- the (admissible, `criticalInstant_admissible`) critical-instant sequence of a sporadic
task with jitter attains the arrival bound for every window starting at `J` -/
theorem criticalInstant_realises_from (T J n H : ℕ) (hT : 1 ≤ T)
    (hn : (Arr.sporadic T J).N H ≤ n) :
    ∀ Δ, Δ ≤ H → cnt (criticalInstant T J n) J Δ = (Arr.sporadic T J).N Δ := by
  intro Δ hΔ
  exact sporadic_attained T J Δ n hT (le_trans (sporadic_N_mono T J hT Δ H hΔ) hn)

theorem criticalInstant_realisesFrom (T J n H : ℕ) (hT : 1 ≤ T)
    (hn : (Arr.sporadic T J).N H ≤ n) :
    RealisesFrom (.sporadic T J) (criticalInstant T J n) J H := by
  refine ⟨?_, criticalInstant_realises_from T J n H hT hn⟩
  intro r hr
  unfold criticalInstant at hr
  obtain ⟨k, _, rfl⟩ := List.mem_map.1 hr
  exact Nat.le_max_right _ _

/-- the critical-instant sequence delayed so that its critical window starts at a common
time `t₀ ≥ J` (to align tasks with different jitters) -/
def criticalInstantAt (T J n t₀ : ℕ) : List ℕ := (criticalInstant T J n).map (· + (t₀ - J))

theorem criticalInstantAt_admissible (T J n t₀ : ℕ) (hT : 1 ≤ T) :
    Admissible (.sporadic T J) (criticalInstantAt T J n t₀) := by
  have h := criticalInstant_admissible T J n hT
  rw [Admissible] at h ⊢
  obtain ⟨arrivals, hg, hd⟩ := h
  exact ⟨arrivals.map (· + (t₀ - J)), GapsGe_map_add T _ _ hg, DelayedBy_map_add J _ _ _ hd⟩

theorem criticalInstantAt_realisesFrom (T J n H t₀ : ℕ) (hT : 1 ≤ T) (hJ : J ≤ t₀)
    (hn : (Arr.sporadic T J).N H ≤ n) :
    RealisesFrom (.sporadic T J) (criticalInstantAt T J n t₀) t₀ H := by
  obtain ⟨h1, h2⟩ := criticalInstant_realisesFrom T J n H hT hn
  constructor
  · intro r hr
    unfold criticalInstantAt at hr
    obtain ⟨r', hr', rfl⟩ := List.mem_map.1 hr
    have := h1 r' hr'
    omega
  · intro Δ hΔ
    obtain ⟨c, rfl⟩ : ∃ c, t₀ = J + c := ⟨t₀ - J, by omega⟩
    unfold criticalInstantAt
    rw [← h2 Δ hΔ, Nat.add_sub_cancel_left]
    exact cnt_map_add _ _ _ _

/-- C18 for FIFO, windows starting at a common time `t₀`: if every task's releases realise
its arrival curve from `t₀` up to the busy-window length, all jobs execute for their scalar
WCET, and the analysis returns `Ok(R)` with `R > 0`, then in EVERY legal FIFO schedule of
that job set some job has response time exactly `R` -/
theorem fifo_bound_attained_from (s : Sys) (hl : FifoLegal s) (ts : List (Arr × ℕ))
    (hwf : ∀ p ∈ ts, p.1.WF ∧ p.1.Exact ∧ 1 ≤ p.2)
    (hc : Compliant s (ts.map fun p => (p.1, Cost.scalar p.2)))
    (hcost : ∀ k, k < s.n → s.cost k = (ts.getD (s.task k) default).2)
    (limit R L t₀ : ℕ)
    (hR : fifoRta (taskSetRB (ts.map fun p => (p.1, Cost.scalar p.2))) limit = .ok R)
    (hL : naiveSolve (fun x => (taskSetRB (ts.map fun p => (p.1, Cost.scalar p.2))).need x) limit = .ok L)
    (hreal : ∀ i, i < ts.length → RealisesFrom (ts.getD i default).1 (relsOf s i) t₀ L)
    (hRpos : 0 < R) :
    ∃ j, j < s.n ∧ MeetsBound s j R ∧ ∀ R', R' < R → ¬ MeetsBound s j R' :=
  attained_core s hl ts hwf hc hcost limit R L t₀ hR hL (fun i hi => (hreal i hi).2) hRpos

/-- C18 for FIFO: if every task's releases realise its arrival curve up to the busy-window
length, all jobs execute for their scalar WCET, and the analysis returns `Ok(R)` with
`R > 0`, then in EVERY legal FIFO schedule of that job set some job has response time
exactly `R` (and by `exists_fifo_schedule` such a schedule exists) -/
theorem fifo_bound_attained (s : Sys) (hl : FifoLegal s) (ts : List (Arr × ℕ))
    (hwf : ∀ p ∈ ts, p.1.WF ∧ p.1.Exact ∧ 1 ≤ p.2)
    (hc : Compliant s (ts.map fun p => (p.1, Cost.scalar p.2)))
    (hcost : ∀ k, k < s.n → s.cost k = (ts.getD (s.task k) default).2)
    (limit R L : ℕ) (hR : fifoRta (taskSetRB (ts.map fun p => (p.1, Cost.scalar p.2))) limit = .ok R)
    (hL : naiveSolve (fun x => (taskSetRB (ts.map fun p => (p.1, Cost.scalar p.2))).need x) limit = .ok L)
    (hreal : ∀ i, i < ts.length → RealisesUpTo (ts.getD i default).1 (relsOf s i) L) (hRpos : 0 < R) :
    ∃ j, j < s.n ∧ MeetsBound s j R ∧ ∀ R', R' < R → ¬ MeetsBound s j R' :=
  attained_core s hl ts hwf hc hcost limit R L 0 hR hL (fun i hi => hreal i hi) hRpos

end RTA.Sched
