import RTA.Spec.Ros2ExecX
import RTA.Lemmas.ExecEndToEnd
import RTA.Lemmas.ExecRefineX
import RTA.Lemmas.ExecRunMeetsX
/-! End-to-end soundness of the ROS 2 analyses over the executor transition system with
ARBITRARY execution times (`RTA/Spec/Ros2ExecX.lean`): `ex i t` is the execution time of the
instance of callback `i` that starts in slot `t`, anywhere between 1 and the callback's WCET.
Every hypothesis is on the inputs of the run, the conclusion on the completions reported by the
executable `ExecX.run`. -/

namespace RTA.ExecX.EndToEndXLemmas
open RTA RTA.Sched RTA.Spec RTA.Exec

theorem pick_wcet (cbs : List Cb) (t : ℕ) (s : State) :
    ExecX.pick cbs (fun i _ => (cbs.getD i default).cost) t s = Exec.pick cbs s := rfl

theorem step_wcet (cbs : List Cb) (chain : ℕ → Option ℕ) (t : ℕ) (b : Bool) (rel : List ℕ) (s : State) :
    ExecX.step cbs (fun i _ => (cbs.getD i default).cost) chain t b rel s = Exec.step cbs chain t b rel s := rfl

theorem go_wcet (cbs : List Cb) (chain : ℕ → Option ℕ) (rels : ℕ → List ℕ) : ∀ (l : List Bool) (t : ℕ) (s : State),
    ExecX.run.go cbs (fun i _ => (cbs.getD i default).cost) chain rels l t s = Exec.run.go cbs chain rels l t s := by
  intro l
  induction l with
  | nil => intro t s; rfl
  | cons b bs ih =>
    intro t s
    simp only [ExecX.run.go, Exec.run.go, step_wcet, ih]
    rfl

/-- the jobs of callback `k` of the run's job system released in a window are the releases of `k`
in that window (the job set of `toSysX` is that of `Exec.toSys`) -/
theorem countOf_toSysX_le (cbs : List Cb) (ex : ℕ → ℕ → ℕ) (sigma : ℕ → Bool) (rels : ℕ → List ℕ)
    (H k t d : ℕ) :
    countOf (toSysX cbs ex sigma rels H) k t (t + d) ≤ relCount rels k t d :=
  countOf_toSys_le cbs sigma rels H k t d

/-- the work of the callbacks in `ts` released in a window is bounded by the releases in that window
times the callbacks' WCETs -/
theorem workOf_toSysX_le (cbs : List Cb) (ex : ℕ → ℕ → ℕ) (sigma : ℕ → Bool) (rels : ℕ → List ℕ) (H : ℕ)
    (hidx : ∀ t, ∀ i ∈ rels t, i < cbs.length)
    (hex : ∀ k, k < cbs.length → ∀ t, 1 ≤ ex k t ∧ ex k t ≤ (cbs.getD k default).cost)
    (ts : ℕ → Prop) [DecidablePred ts] (t d : ℕ) :
    workOf (toSysX cbs ex sigma rels H) ts t (t + d) ≤
      (((List.range cbs.length).filter fun k => decide (ts k)).map fun k =>
        relCount rels k t d * (cbs.getD k default).cost).sum := by
  refine Nat.le_trans ?_ (workOf_toSys_le cbs sigma rels H hidx ts t d)
  unfold workOf
  apply Finset.sum_le_sum
  intro k hk
  have hk' : k < (toSysX cbs ex sigma rels H).n := Finset.mem_range.1 hk
  show (if ts ((toSysX cbs ex sigma rels H).task k) ∧ t ≤ (toSysX cbs ex sigma rels H).arr k ∧
        (toSysX cbs ex sigma rels H).arr k < t + d then (toSysX cbs ex sigma rels H).cost k else 0) ≤
      (if ts ((toSysX cbs ex sigma rels H).task k) ∧ t ≤ (toSysX cbs ex sigma rels H).arr k ∧
        (toSysX cbs ex sigma rels H).arr k < t + d
        then (cbs.getD ((toSysX cbs ex sigma rels H).task k) default).cost else 0)
  split
  · exact toSysX_cost_le cbs ex sigma rels H hidx hex k hk'
  · exact Nat.le_refl 0

end RTA.ExecX.EndToEndXLemmas

namespace RTA.ExecX
open RTA RTA.Sched RTA.Spec RTA.Exec

/-- `Exec.run` is the special case where every instance runs for its WCET -/
theorem run_wcet (cbs : List Cb) (chain : ℕ → Option ℕ) (sigma : List Bool) (rels : ℕ → List ℕ) :
    ExecX.run cbs (fun i _ => (cbs.getD i default).cost) chain sigma rels = Exec.run cbs chain sigma rels :=
  EndToEndXLemmas.go_wcet cbs chain rels sigma 0 (State.init cbs.length)

/-- **timer, end to end, all execution times** -/
theorem timer_exec_sound_x (cbs : List Cb) (ex : ℕ → ℕ → ℕ) (sigma : ℕ → Bool) (rels : ℕ → List ℕ) (H i : ℕ)
    (hi : i < cbs.length) (hti : (cbs.getD i default).isTimer = true)
    (hidx : ∀ t, ∀ i ∈ rels t, i < cbs.length) (hfin : ∀ t, H ≤ t → rels t = [])
    (hex : ∀ k, k < cbs.length → ∀ t, 1 ≤ ex k t ∧ ex k t ≤ (cbs.getD k default).cost)
    (hdist : ∀ k, k < cbs.length → k ≠ i → (cbs.getD k default).isTimer = true →
      (cbs.getD k default).prio ≠ (cbs.getD i default).prio)
    (sup : Supply) (hs : sup.WF) (hsbf : ∀ t d, sup.sbf d ≤ service sigma t d)
    (arrs : List Arr) (hlen : arrs.length = cbs.length) (hwf : ∀ a ∈ arrs, a.WF ∧ a.Exact)
    (hrel : ∀ k, k < cbs.length → ∀ t d, relCount rels k t d ≤ (arrs.getD k default).N d)
    (B : ℕ)
    (hB : ∀ k, k < cbs.length → k ≠ i →
      ¬ ((cbs.getD k default).isTimer = true ∧ (cbs.getD k default).prio < (cbs.getD i default).prio) →
      (cbs.getD k default).cost ≤ B + 1)
    (limit R : ℕ)
    (hR : rosTimer sup (.rbf (arrs.getD i default) (.scalar (cbs.getD i default).cost))
      (.agg (((List.range cbs.length).filter fun k =>
          (cbs.getD k default).isTimer && decide ((cbs.getD k default).prio < (cbs.getD i default).prio)).map
        fun k => .rbf (arrs.getD k default) (.scalar (cbs.getD k default).cost))) B limit = .ok R)
    (n : ℕ) :
    ∀ o ∈ ExecX.run cbs ex (fun _ => none) ((List.range n).map sigma) rels, o.1 = i → o.2.2 ≤ o.2.1 + R := by
  have hkslt := EndToEndLemmas.mem_filter_range_lt cbs.length (fun k =>
    (cbs.getD k default).isTimer && decide ((cbs.getD k default).prio < (cbs.getD i default).prio))
  have hcpos : ∀ k, k < cbs.length → 1 ≤ (cbs.getD k default).cost :=
    fun k hk => by have := hex k hk 0; omega
  have hagg := EndToEndLemmas.agg_wf arrs cbs.length hlen hwf (fun k => (cbs.getD k default).cost)
    hcpos _ hkslt
  have hai := hwf _ (EndToEndLemmas.getD_mem' arrs i (by omega))
  refine run_meets_of_sys_x cbs ex sigma rels H hidx hfin hex i R ?_ n
  refine timer_sound _ sigma i _ (run_timer_legal_x cbs ex sigma rels H i hi hti hidx hfin hex hdist)
    (fun h => Nat.lt_irrefl _ h.2) sup hs hsbf (arrs.getD i default) (cbs.getD i default).cost
    hai.1 hai.2 (hcpos i hi) _ (by simp only [RB.ArrWF]; exact hagg.1)
    (by simp only [RB.Exact]; exact hagg.2) B ?_ ?_ ?_ ?_ limit R hR
  · exact fun t d => Nat.le_trans (EndToEndXLemmas.countOf_toSysX_le cbs ex sigma rels H i t d) (hrel i hi t d)
  · intro k hkn hk
    have := toSysX_cost_le cbs ex sigma rels H hidx hex k hkn
    rw [hk] at this
    exact this
  · intro t d
    refine Nat.le_trans (EndToEndXLemmas.workOf_toSysX_le cbs ex sigma rels H hidx hex _ t d) ?_
    simp only [RB.need]
    have e : (fun k => decide ((cbs.getD k default).isTimer = true ∧
        (cbs.getD k default).prio < (cbs.getD i default).prio)) =
        (fun k => (cbs.getD k default).isTimer &&
          decide ((cbs.getD k default).prio < (cbs.getD i default).prio)) := by
      funext k; simp [Bool.decide_and]
    rw [e]
    exact EndToEndLemmas.need_le arrs cbs.length rels _ t d (fun k hk => hrel k hk t d) _ hkslt
  · intro k hk hnr
    have hlt := RefineXLemmas.task_lt (ex := ex) (sigma := sigma) (H := H) hidx hk
    exact Nat.le_trans (toSysX_cost_le cbs ex sigma rels H hidx hex k hk)
      (hB _ hlt (fun e => hnr (Or.inl e)) (fun e => hnr (Or.inr e)))

/-- **polling-point callback, end to end, all execution times** -/
theorem pollingPoint_exec_sound_x (cbs : List Cb) (ex : ℕ → ℕ → ℕ) (sigma : ℕ → Bool) (rels : ℕ → List ℕ) (H i : ℕ)
    (hi : i < cbs.length)
    (hidx : ∀ t, ∀ i ∈ rels t, i < cbs.length) (hfin : ∀ t, H ≤ t → rels t = [])
    (hex : ∀ k, k < cbs.length → ∀ t, 1 ≤ ex k t ∧ ex k t ≤ (cbs.getD k default).cost)
    (sup : Supply) (hs : sup.WF) (hsbf : ∀ t d, sup.sbf d ≤ service sigma t d)
    (arrs : List Arr) (hlen : arrs.length = cbs.length) (hwf : ∀ a ∈ arrs, a.WF ∧ a.Exact)
    (hrel : ∀ k, k < cbs.length → ∀ t d, relCount rels k t d ≤ (arrs.getD k default).N d)
    (limit R : ℕ)
    (hR : rosPollingPoint sup (.rbf (arrs.getD i default) (.scalar (cbs.getD i default).cost))
      (.agg (((List.range cbs.length).filter fun k => decide (k ≠ i)).map
        fun k => .rbf (arrs.getD k default) (.scalar (cbs.getD k default).cost))) limit = .ok R)
    (n : ℕ) :
    ∀ o ∈ ExecX.run cbs ex (fun _ => none) ((List.range n).map sigma) rels, o.1 = i → o.2.2 ≤ o.2.1 + R := by
  have hkslt := EndToEndLemmas.mem_filter_range_lt cbs.length (fun k => decide (k ≠ i))
  have hcpos : ∀ k, k < cbs.length → 1 ≤ (cbs.getD k default).cost :=
    fun k hk => by have := hex k hk 0; omega
  have hagg := EndToEndLemmas.agg_wf arrs cbs.length hlen hwf (fun k => (cbs.getD k default).cost)
    hcpos _ hkslt
  have hai := hwf _ (EndToEndLemmas.getD_mem' arrs i (by omega))
  refine run_meets_of_sys_x cbs ex sigma rels H hidx hfin hex i R ?_ n
  refine pollingPoint_sound _ sigma i
    (RrSoundLemmas.toTimer (run_polling_legal_x cbs ex sigma rels H hidx hfin hex) i)
    sup hs hsbf (arrs.getD i default) (cbs.getD i default).cost
    hai.1 hai.2 (hcpos i hi) _ (by simp only [RB.ArrWF]; exact hagg.1)
    (by simp only [RB.Exact]; exact hagg.2) ?_ ?_ ?_ limit R hR
  · exact fun t d => Nat.le_trans (EndToEndXLemmas.countOf_toSysX_le cbs ex sigma rels H i t d) (hrel i hi t d)
  · intro k hkn hk
    have := toSysX_cost_le cbs ex sigma rels H hidx hex k hkn
    rw [hk] at this
    exact this
  · intro t d
    refine Nat.le_trans (EndToEndXLemmas.workOf_toSysX_le cbs ex sigma rels H hidx hex _ t d) ?_
    simp only [RB.need]
    exact EndToEndLemmas.need_le arrs cbs.length rels _ t d (fun k hk => hrel k hk t d) _ hkslt

/-- **rr, end to end, all execution times** (singleton subchains) -/
theorem rr_exec_sound_x (cbs : List Cb) (ex : ℕ → ℕ → ℕ) (sigma : ℕ → Bool) (rels : ℕ → List ℕ) (H : ℕ)
    (hidx : ∀ t, ∀ i ∈ rels t, i < cbs.length) (hfin : ∀ t, H ≤ t → rels t = [])
    (hex : ∀ k, k < cbs.length → ∀ t, 1 ≤ ex k t ∧ ex k t ≤ (cbs.getD k default).cost)
    (sup : Supply) (hs : sup.WF) (hsbf : ∀ t d, sup.sbf d ≤ service sigma t d)
    (wl : List Callback) (hlen : wl.length = cbs.length)
    (hscalar : ∀ i, i < wl.length → (wl.getD i default).cost = .scalar (cbs.getD i default).cost)
    (hwf : ∀ cb ∈ wl, cb.arr.WF)
    (hkinds : KindsAgree wl
      ⟨fun i => (cbs.getD i default).isTimer, fun i => (cbs.getD i default).prio, fun _ => false⟩)
    (hprio : ∀ i j, i < cbs.length → j < cbs.length → (cbs.getD i default).isTimer = false →
      (cbs.getD j default).isTimer = false → (cbs.getD i default).prio = (cbs.getD j default).prio → i = j)
    (hrel : ∀ k, k < cbs.length → ∀ t d, relCount rels k t d ≤ (wl.getD k default).arr.N d)
    (limit : ℕ)
    (hself : ∀ i, i < wl.length → ∃ R, rrSubchain sup wl [i] limit = .ok R ∧ R ≤ (wl.getD i default).rtb)
    (n i : ℕ) :
    ∀ o ∈ ExecX.run cbs ex (fun _ => none) ((List.range n).map sigma) rels, o.1 = i →
      o.2.2 ≤ o.2.1 + (wl.getD i default).rtb := by
  have hN : ∀ k t d, countOf (toSysX cbs ex sigma rels H) k t (t + d) ≤ (wl.getD k default).arr.N d := by
    intro k t d
    have h := EndToEndXLemmas.countOf_toSysX_le cbs ex sigma rels H k t d
    rcases Nat.lt_or_ge k cbs.length with hk | hk
    · exact Nat.le_trans h (hrel k hk t d)
    · rw [EndToEndLemmas.relCount_zero rels cbs.length hidx k hk t d] at h; omega
  have hkinds' : KindsAgree wl (toInfoX cbs ex sigma rels) := hkinds
  refine run_meets_of_sys_x cbs ex sigma rels H hidx hfin hex i _ ?_ n
  intro j hj hji
  have := rr_singleton_sound _ sigma _ (run_polling_legal_x cbs ex sigma rels H hidx hfin hex) sup hs hsbf wl
    (fun k => (cbs.getD k default).cost) hscalar hwf
    (fun k hk => by rw [hlen]; exact RefineXLemmas.task_lt (ex := ex) (sigma := sigma) (H := H) hidx hk)
    hkinds' (fun a b ha hb => hprio a b (by omega) (by omega)) hN
    (fun k hk => ⟨toSysX_cost_pos cbs ex sigma rels H hidx hex k hk,
      toSysX_cost_le cbs ex sigma rels H hidx hex k hk⟩)
    limit hself j hj
  rwa [hji] at this

/-- **bw, end to end, all execution times** (singleton subchains) -/
theorem bw_exec_sound_x (cbs : List Cb) (ex : ℕ → ℕ → ℕ) (sigma : ℕ → Bool) (rels : ℕ → List ℕ) (H : ℕ)
    (hidx : ∀ t, ∀ i ∈ rels t, i < cbs.length) (hfin : ∀ t, H ≤ t → rels t = [])
    (hex : ∀ k, k < cbs.length → ∀ t, 1 ≤ ex k t ∧ ex k t ≤ (cbs.getD k default).cost)
    (sup : Supply) (hs : sup.WF) (hsbf : ∀ t d, sup.sbf d ≤ service sigma t d)
    (wl : List Callback) (hlen : wl.length = cbs.length)
    (hscalar : ∀ i, i < wl.length → (wl.getD i default).cost = .scalar (cbs.getD i default).cost)
    (hwf : ∀ cb ∈ wl, cb.arr.WF ∧ cb.arr.Exact)
    (hkinds : KindsAgree wl
      ⟨fun i => (cbs.getD i default).isTimer, fun i => (cbs.getD i default).prio, fun _ => false⟩)
    (hprio : ∀ i j, i < cbs.length → j < cbs.length → (cbs.getD i default).isTimer = false →
      (cbs.getD j default).isTimer = false → (cbs.getD i default).prio = (cbs.getD j default).prio → i = j)
    (hrel : ∀ k, k < cbs.length → ∀ t d, relCount rels k t d ≤ (wl.getD k default).arr.N d)
    (limit : ℕ) (dbg : Bool)
    (hself : ∀ i, i < wl.length → ∃ R, bwSubchain sup wl [i] limit dbg = .ok R ∧ R ≤ (wl.getD i default).rtb)
    (n i : ℕ) :
    ∀ o ∈ ExecX.run cbs ex (fun _ => none) ((List.range n).map sigma) rels, o.1 = i →
      o.2.2 ≤ o.2.1 + (wl.getD i default).rtb := by
  have hN : ∀ k t d, countOf (toSysX cbs ex sigma rels H) k t (t + d) ≤ (wl.getD k default).arr.N d := by
    intro k t d
    have h := EndToEndXLemmas.countOf_toSysX_le cbs ex sigma rels H k t d
    rcases Nat.lt_or_ge k cbs.length with hk | hk
    · exact Nat.le_trans h (hrel k hk t d)
    · rw [EndToEndLemmas.relCount_zero rels cbs.length hidx k hk t d] at h; omega
  have hkinds' : KindsAgree wl (toInfoX cbs ex sigma rels) := hkinds
  refine run_meets_of_sys_x cbs ex sigma rels H hidx hfin hex i _ ?_ n
  intro j hj hji
  have := bw_singleton_sound _ sigma _ (run_polling_legal_x cbs ex sigma rels H hidx hfin hex) sup hs hsbf wl
    (fun k => (cbs.getD k default).cost) hscalar hwf
    (fun k hk => by rw [hlen]; exact RefineXLemmas.task_lt (ex := ex) (sigma := sigma) (H := H) hidx hk)
    hkinds' (fun a b ha hb => hprio a b (by omega) (by omega)) hN
    (fun k hk => ⟨toSysX_cost_pos cbs ex sigma rels H hidx hex k hk,
      toSysX_cost_le cbs ex sigma rels H hidx hex k hk⟩)
    limit dbg hself j hj
  rwa [hji] at this

end RTA.ExecX
