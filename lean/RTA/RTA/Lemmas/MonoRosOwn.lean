import RTA.Lemmas.MonoChain
/-! C17, ROS 2 timer / polling-point / chain analyses: hardening the analysed callback's OWN
model (more arrivals in every window — more jitter, shorter period — and / or a larger scalar
WCET) never decreases the bound.  (The search space of these analyses is pruned to the step
offsets of the own demand, so this does not follow from the naive all-offset evaluation.) -/

namespace RTA
open RTA.Spec RTA.Sched

/-- `Res.leD` is transitive -/
theorem Res.leD_trans {a b c : Res} (h1 : Res.leD a b) (h2 : Res.leD b c) : Res.leD a c := by
  cases a <;> cases b <;> cases c <;> simp only [Res.leD] at h1 h2 ⊢
  omega

namespace MonoRosOwnLemmas
open PruneCoreLemmas RosNaiveLemmas MonoLemmas MonoRosLemmas

/-- comparison of least solutions: every solution of the primed inequality yields a solution
of the unprimed one that is not larger -/
theorem nss_leD_ex (sbf sbf' : Nat → Nat) (off off' : Nat) (w w' : Nat → Nat) (limit : Nat)
    (h : ∀ r', w' (max r' 1) ≤ sbf' (off' + r') → ∃ r, r ≤ r' ∧ w (max r 1) ≤ sbf (off + r)) :
    Res.leD (naiveSolveSup sbf off w limit) (naiveSolveSup sbf' off' w' limit) := by
  rcases nss_cases sbf' off' w' limit with ⟨b, hb⟩ | hb
  · rw [hb]
    rw [nss_ok_iff] at hb
    obtain ⟨r, hrb, hr⟩ := h b hb.2.1
    rcases nss_cases sbf off w limit with ⟨a, ha⟩ | ha
    · rw [ha]
      rw [nss_ok_iff] at ha
      show a ≤ b
      rcases Nat.lt_or_ge r a with hlt | hge
      · exact absurd hr (ha.2.2 r hlt)
      · omega
    · rw [nss_div_iff] at ha
      exact absurd hr (ha r (by omega))
  · rw [hb]
    exact leD_div_of_ne_panic _ _ _ (nss_ne_panic _ _ _ _)

/-- the interference interval of a scalar-WCET callback, closed form -/
theorem iv_eq (a : Arr) (C : Nat) (hwf : a.WF) (hpos : 0 < a.N 1) (A r : Nat) :
    interferenceInterval (.rbf a (.scalar C)) A (max r 1) = A + 1 + (max r 1 - C) := by
  rw [iv_scalar a C hwf hpos A (max r 1) (by omega)]
  split <;> omega

/-- the heart: a solution of the hard per-offset inequality at `A' ≤ A` (with at least as
many own jobs) yields a solution of the easy inequality at `A` that is not larger, provided
`A` lies inside the easy busy window -/
theorem sol_transfer (sbf : Nat → Nat) (hlip : Lipschitz1 sbf) (N N' I : Nat → Nat)
    (hmN : MonoN N) (hmI : MonoN I) (C C' B A A' : Nat) (hC : 1 ≤ C) (hCC : C ≤ C')
    (hA' : A' ≤ A) (hstep : N A < N (A + 1)) (hn : N (A + 1) ≤ N' (A' + 1))
    (hbw : ∀ L, L < A → ¬ (C * N (max L 1) + B + I (max L 1) ≤ sbf L))
    (r' : Nat) (hsol : C' * N' (A' + 1) + I (A' + 1 + (max r' 1 - C')) + B ≤ sbf (A' + r')) :
    ∃ r, r ≤ r' ∧ C * N (A + 1) + I (A + 1 + (max r 1 - C)) + B ≤ sbf (A + r) := by
  have hmono := lipschitz_mono hlip
  obtain ⟨k, hk⟩ : ∃ k, N' (A' + 1) = k + 1 := ⟨N' (A' + 1) - 1, by omega⟩
  rw [hk, Nat.mul_succ] at hsol
  have hp2 : C * N (A + 1) ≤ C * k + C := by
    have := Nat.mul_le_mul_left C (show N (A + 1) ≤ k + 1 by omega)
    rw [Nat.mul_succ] at this
    exact this
  have hp3 : C * k ≤ C' * k := Nat.mul_le_mul_right k hCC
  have key : ∀ S', A' + r' ≤ S' + C' → I (A' + 1 + (max r' 1 - C')) = I (S' + 1) → A ≤ S' := by
    intro S' h2 h3
    rcases Nat.lt_or_ge S' A with hlt | hge
    · exfalso
      apply hbw S' hlt
      have hm1 : N (max S' 1) ≤ N A := hmN _ _ (by omega)
      have hm2 : I (max S' 1) ≤ I (S' + 1) := hmI _ _ (by omega)
      have hm3 : C * N (max S' 1) ≤ C * k := Nat.mul_le_mul_left C (by omega)
      have h4 := hmono _ _ h2
      have h5 := lipschitz_add hlip S' C'
      omega
    · exact hge
  rcases Nat.lt_or_ge C' r' with hgt | hle
  · have e1 : max r' 1 = r' := by omega
    have e0 : A' + 1 + (max r' 1 - C') = A' + r' - C' + 1 := by omega
    have hS := key (A' + r' - C') (by omega) (by rw [e0])
    refine ⟨A' + r' - C' + C - A, by omega, ?_⟩
    have e2 : A + 1 + (max (A' + r' - C' + C - A) 1 - C) = A' + 1 + (r' - C') := by omega
    have e4 : A + (A' + r' - C' + C - A) = A' + r' - C' + C := by omega
    rw [e2, e4]
    rw [e1] at hsol
    have h5 := lipschitz_add hlip (A' + r' - C' + C) (C' - C)
    have e5 : A' + r' - C' + C + (C' - C) = A' + r' := by omega
    rw [e5] at h5
    omega
  · have e1 : A' + 1 + (max r' 1 - C') = A' + 1 := by omega
    have hS := key A' (by omega) (by rw [e1])
    have eA : A' = A := by omega
    subst eA
    refine ⟨r' - (C' - C), by omega, ?_⟩
    have e2 : A' + 1 + (max (r' - (C' - C)) 1 - C) = A' + 1 := by omega
    rw [e2]
    rw [e1] at hsol
    have h5 := lipschitz_add hlip (A' + (r' - (C' - C))) (C' - C)
    have h6 := hmono (A' + r') (A' + (r' - (C' - C)) + (C' - C)) (by omega)
    omega

end MonoRosOwnLemmas
open MonoRosOwnLemmas MonoRosLemmas RosNaiveLemmas PruneCoreLemmas

/-- timer: harder own model -/
theorem timer_mono_own (s : Supply) (hs : s.WF)
    (a a' : Arr) (C C' : Nat) (hwf : a.WF) (hex : a.Exact) (hwf' : a'.WF) (hex' : a'.Exact)
    (hC : 1 ≤ C) (hCC : C ≤ C') (hpos : 0 < a.N 1) (hN : ∀ d, a.N d ≤ a'.N d)
    (interf : RB) (hwfi : interf.ArrWF) (hexi : interf.Exact) (B limit : Nat) (hl : 1 ≤ limit) :
    Res.leD (rosTimer s (.rbf a (.scalar C)) interf B limit)
      (rosTimer s (.rbf a' (.scalar C')) interf B limit) := by
  have hC' : 1 ≤ C' := by omega
  have hpos' : 0 < a'.N 1 := Nat.lt_of_lt_of_le hpos (hN 1)
  obtain ⟨h1, h2⟩ := scalar_rb_side a C hwf hex hC
  obtain ⟨h1', h2'⟩ := scalar_rb_side a' C' hwf' hex' hC'
  have hmN := Arr.N_mono a hwf
  have hmN' := Arr.N_mono a' hwf'
  have hmI := RB.need_mono interf hwfi hexi
  have hlip := Supply.sbf_lipschitz s hs
  have need_eq : ∀ d, (RB.rbf a (.scalar C)).need d = C * a.N d := fun _ => rfl
  have need_eq' : ∀ d, (RB.rbf a' (.scalar C')).need d = C' * a'.N d := fun _ => rfl
  rw [timer_eq_naive_on_steps s hs a C interf hwf hex hC hpos hwfi hexi B limit hl,
    timer_eq_naive_on_steps s hs a' C' interf hwf' hex' hC' hpos' hwfi hexi B limit hl]
  have h0 : Res.leD
      (naiveSolveSup s.sbf 0 (fun d => (RB.rbf a (.scalar C)).need d + B + interf.need d) limit)
      (naiveSolveSup s.sbf 0 (fun d => (RB.rbf a' (.scalar C')).need d + B + interf.need d) limit) := by
    apply nss_leD
    intro r hr
    refine Nat.le_trans ?_ hr
    have : C * a.N (max r 1) ≤ C' * a'.N (max r 1) := Nat.mul_le_mul hCC (hN _)
    show (RB.rbf a (.scalar C)).need (max r 1) + B + _ ≤ (RB.rbf a' (.scalar C')).need (max r 1) + B + _
    rw [need_eq, need_eq']
    omega
  unfold naiveRosBoundOn
  rcases nss_cases s.sbf 0 (fun d => (RB.rbf a' (.scalar C')).need d + B + interf.need d) limit
    with ⟨m', hm'⟩ | hm'
  · rw [hm'] at h0 ⊢
    obtain ⟨m, hm, hle⟩ := leD_ok_right _ _ h0
    rw [hm]
    simp only []
    apply naiveMax_leD
    · intro A _; exact nss_ne_panic _ _ _ _
    · intro A _; exact nss_ne_panic _ _ _ _
    · intro A hA
      rw [mem_rosOffsets _ h1 h2] at hA
      obtain ⟨hAm, hAstep⟩ := hA
      rw [need_eq, need_eq] at hAstep
      have hstep : a.N A < a.N (A + 1) := Nat.lt_of_mul_lt_mul_left hAstep
      have hpos1 : 0 < a'.N (A + 1) := by have := hN (A + 1); omega
      obtain ⟨A', hA'le, hA'step, hA'eq⟩ :=
        exists_greatest_inc a'.N hmN' (Arr.N_zero a') A hpos1
      refine ⟨A', ?_, ?_⟩
      · rw [mem_rosOffsets _ h1' h2']
        refine ⟨by omega, ?_⟩
        rw [need_eq', need_eq']
        exact (Nat.mul_lt_mul_left (by omega : 0 < C')).2 hA'step
      · apply nss_leD_ex
        intro r' hr'
        have hbw : ∀ L, L < A →
            ¬ (C * a.N (max L 1) + B + interf.need (max L 1) ≤ s.sbf L) := by
          intro L hL
          have := ((nss_ok_iff _ _ _ _ _).1 hm).2.2 L (by omega)
          rw [Nat.zero_add] at this
          exact this
        have hsol : C' * a'.N (A' + 1) + interf.need (A' + 1 + (max r' 1 - C')) + B ≤
            s.sbf (A' + r') := by
          have : (RB.rbf a' (.scalar C')).need (A' + 1) +
            interf.need (interferenceInterval (.rbf a' (.scalar C')) A' (max r' 1)) + B ≤
              s.sbf (A' + r') := hr'
          rw [iv_eq a' C' hwf' hpos' A' r', need_eq'] at this
          exact this
        obtain ⟨r, hrr, hr⟩ := sol_transfer s.sbf hlip a.N a'.N interf.need hmN hmI C C' B A A' hC hCC
          hA'le hstep (by have := hN (A + 1); omega) hbw r' hsol
        refine ⟨r, hrr, ?_⟩
        show (RB.rbf a (.scalar C)).need (A + 1) +
          interf.need (interferenceInterval (.rbf a (.scalar C)) A (max r 1)) + B ≤ s.sbf (A + r)
        rw [iv_eq a C hwf hpos A r, need_eq]
        exact hr
  · rw [hm']
    simp only []
    apply leD_div_of_ne_panic
    rcases nss_cases s.sbf 0 (fun d => (RB.rbf a (.scalar C)).need d + B + interf.need d) limit
      with ⟨m, hm⟩ | hm
    · rw [hm]
      simp only []
      apply naiveMax_ne_panic
      intro x hx
      rcases List.mem_map.1 hx with ⟨A, _, rfl⟩
      exact nss_ne_panic _ _ _ _
    · rw [hm]; intro hc; cases hc

/-- polling-point callback: harder own model -/
theorem pollingPoint_mono_own (s : Supply) (hs : s.WF)
    (a a' : Arr) (C C' : Nat) (hwf : a.WF) (hex : a.Exact) (hwf' : a'.WF) (hex' : a'.Exact)
    (hC : 1 ≤ C) (hCC : C ≤ C') (hpos : 0 < a.N 1) (hN : ∀ d, a.N d ≤ a'.N d)
    (interf : RB) (hwfi : interf.ArrWF) (hexi : interf.Exact) (limit : Nat) (hl : 1 ≤ limit) :
    Res.leD (rosPollingPoint s (.rbf a (.scalar C)) interf limit)
      (rosPollingPoint s (.rbf a' (.scalar C')) interf limit) :=
  timer_mono_own s hs a a' C C' hwf hex hwf' hex' hC hCC hpos hN interf hwfi hexi 0 limit hl

/-- timer: every single-parameter hardening at once (own model, interference, blocking, supply) -/
theorem timer_mono_all (s s' : Supply) (hs : s.WF) (hs' : s'.WF) (hsup : s'.Weaker s)
    (a a' : Arr) (C C' : Nat) (hwf : a.WF) (hex : a.Exact) (hwf' : a'.WF) (hex' : a'.Exact)
    (hC : 1 ≤ C) (hCC : C ≤ C') (hpos : 0 < a.N 1) (hN : ∀ d, a.N d ≤ a'.N d)
    (interf interf' : RB) (hwfi : interf.ArrWF) (hexi : interf.Exact)
    (hwfi' : interf'.ArrWF) (hexi' : interf'.Exact)
    (h : ∀ d, interf.need d ≤ interf'.need d) (B B' : Nat) (hB : B ≤ B') (limit : Nat) (hl : 1 ≤ limit) :
    Res.leD (rosTimer s (.rbf a (.scalar C)) interf B limit)
      (rosTimer s' (.rbf a' (.scalar C')) interf' B' limit) :=
  Res.leD_trans
    (timer_mono_own s hs a a' C C' hwf hex hwf' hex' hC hCC hpos hN interf hwfi hexi B limit hl)
    (timer_mono s s' hs hs' hsup a' C' hwf' hex' (by omega) (Nat.lt_of_lt_of_le hpos (hN 1))
      interf interf' hwfi hexi hwfi' hexi' h B B' hB limit hl)

end RTA
