import RTA.Lemmas.EdfSound
import RTA.Lemmas.FpSoundCompliant
/-! C02 with hypotheses on the task set only: the structural and workload hypotheses of
`EdfSetting` follow from compliance of the job set with the task set (`Compliant`), with the
interference set being all other tasks of the task set. -/

open Finset Classical

namespace RTA.Sched
open RTA RTA.Spec RTA.Sched.J

/-- indices of all other tasks, in index order -/
def otherIds (n i : ℕ) : List ℕ := (List.range n).filter (fun x => decide (x ≠ i))

/-- the `EdfTask` records the crate's EDF analyses are given for the other tasks -/
def edfOthersOf (ts : List (Arr × Cost)) (Dl sg : ℕ → ℕ) (i : ℕ) : List EdfTask :=
  (otherIds ts.length i).map (fun x => { rb := taskRB ts x, D := Dl x, seg := sg x })

open FifoSoundLemmas FpSoundCompliantLemmas

namespace EdfSoundCompliantLemmas

/-- jobs of one task are numbered in release order (per task) -/
theorem ordered_of_sorted (s : Sys) (k : ℕ) (hs : (relsOf s k).Pairwise (· ≤ ·)) :
    ∀ a b, a < s.n → b < s.n → s.task a = k → s.task b = k → a ≤ b → s.arr a ≤ s.arr b := by
  intro a b ha hb hak hbk hle
  rcases Nat.eq_or_lt_of_le hle with rfl | hlt
  · exact le_refl _
  have h := hs
  unfold relsOf at h
  rw [List.pairwise_map] at h
  have h2 : ((List.range s.n).filter (fun j => decide (s.task j = k))).Pairwise (· < ·) :=
    List.Pairwise.filter _ List.pairwise_lt_range
  have h3 := List.Pairwise.and h2 h
  apply TightExistsFPLemmas.pairwise_lt_rel (fun x y => s.arr x ≤ s.arr y) _ h3 a _ b _ hlt
  · simp [ha, hak]
  · simp [hb, hbk]

theorem mem_otherIds (n i x : ℕ) : x ∈ otherIds n i ↔ x < n ∧ x ≠ i := by
  unfold otherIds
  simp only [List.mem_filter, List.mem_range, decide_eq_true_eq]

theorem otherIds_nodup (n i : ℕ) : (otherIds n i).Nodup := by
  unfold otherIds
  exact List.nodup_range.filter _

theorem getD_eq_getElem_of_lt {α : Type} (l : List α) (m : ℕ) (d : α) (hm : m < l.length) :
    l.getD m d = l[m] := by
  simp [List.getD_eq_getElem?_getD, List.getElem?_eq_getElem hm]

theorem otherIds_getD (n i m : ℕ) (hm : m < (otherIds n i).length) :
    (otherIds n i).getD m 0 = (otherIds n i)[m] := by
  exact getD_eq_getElem_of_lt _ m 0 hm

theorem otherIds_getD_mem (n i m : ℕ) (hm : m < (otherIds n i).length) :
    (otherIds n i).getD m 0 < n ∧ (otherIds n i).getD m 0 ≠ i := by
  rw [otherIds_getD n i m hm]
  exact (mem_otherIds n i _).1 (List.getElem_mem hm)

theorem edfOthersOf_length (ts : List (Arr × Cost)) (Dl sg : ℕ → ℕ) (i : ℕ) :
    (edfOthersOf ts Dl sg i).length = (otherIds ts.length i).length := by
  unfold edfOthersOf
  rw [List.length_map]

theorem edfOthersOf_getD (ts : List (Arr × Cost)) (Dl sg : ℕ → ℕ) (i m : ℕ)
    (hm : m < (otherIds ts.length i).length) :
    (edfOthersOf ts Dl sg i).getD m default
      = { rb := taskRB ts ((otherIds ts.length i).getD m 0),
          D := Dl ((otherIds ts.length i).getD m 0),
          seg := sg ((otherIds ts.length i).getD m 0) } := by
  have hm' : m < (edfOthersOf ts Dl sg i).length := by rw [edfOthersOf_length]; exact hm
  rw [getD_eq_getElem_of_lt _ m default hm', otherIds_getD _ _ _ hm]
  simp only [edfOthersOf, List.getElem_map]

theorem edfOthersOK_edfOthersOf (ts : List (Arr × Cost)) (Dl sg : ℕ → ℕ) (i : ℕ)
    (hwf : ∀ p ∈ ts, p.1.WF ∧ p.2.WF)
    (hex : ∀ x, x < ts.length → x ≠ i → (taskRB ts x).Exact) :
    EdfOthersOK (edfOthersOf ts Dl sg i) := by
  intro o ho
  unfold edfOthersOf at ho
  obtain ⟨x, hx, rfl⟩ := List.mem_map.1 ho
  obtain ⟨hx1, hx2⟩ := (mem_otherIds ts.length i x).1 hx
  exact ⟨taskRB_arrWF ts hwf x hx1, hex x hx1 hx2⟩

end EdfSoundCompliantLemmas
open EdfSoundCompliantLemmas

/-- the setting of the EDF analyses from hypotheses on the task set: the job set complies with
the task set, the schedule is legal, non-preemptive runs of a job of another task `x` are at
most `sg x - 1` long -/
theorem EdfSetting.of_compliant (s : Sys) (ts : List (Arr × Cost)) (Dl sg : ℕ → ℕ) (i : ℕ)
    (hi : i < ts.length)
    (hwf : ∀ p ∈ ts, p.1.WF ∧ p.2.WF) (hc : Compliant s ts)
    (hl : JlfpLegal s (hepEDF s Dl))
    (hseg : ∀ l, l < s.n → s.task l ≠ i → ∀ x len,
      (∀ k, k < len → s.np l (x + k)) → len ≤ sg (s.task l) - 1)
    (hpos : ∀ k, k < s.n → 1 ≤ s.cost k) :
    EdfSetting s Dl i (Dl i) (taskRB ts i) (edfOthersOf ts Dl sg i) (otherIds ts.length i) where
  legal := hl
  ordered := by
    intro a b ha hb hab hle
    exact ordered_of_sorted s (s.task b) (hc.comp (s.task b) (hc.task_lt b hb)).sorted
      a b ha hb hab rfl hle
  ids_len := (edfOthersOf_length ts Dl sg i).symm
  ids_ne := fun m hm => (otherIds_getD_mem ts.length i m hm).2
  ids_inj := by
    intro m m' hm hm' h
    rw [otherIds_getD _ _ _ hm, otherIds_getD _ _ _ hm'] at h
    exact (List.Nodup.getElem_inj_iff (otherIds_nodup ts.length i)).1 h
  task_mem := by
    intro k hk
    by_cases h : s.task k = i
    · exact Or.inl h
    · right
      have hmem : s.task k ∈ otherIds ts.length i :=
        (mem_otherIds ts.length i _).2 ⟨hc.task_lt k hk, h⟩
      obtain ⟨m, hm, hget⟩ := List.mem_iff_getElem.1 hmem
      exact ⟨m, hm, by rw [otherIds_getD _ _ _ hm, hget]⟩
  dl_tua := rfl
  dl_other := by
    intro m hm
    rw [edfOthersOf_getD ts Dl sg i m hm]
  w_tua := fun t d => task_work_le_taskRB s ts hwf hc i hi t d
  w_other := by
    intro m hm t d
    rw [edfOthersOf_getD ts Dl sg i m hm]
    exact task_work_le_taskRB s ts hwf hc _ (otherIds_getD_mem ts.length i m hm).1 t d
  seg := by
    intro m hm l hl' hlt x len h
    rw [edfOthersOf_getD ts Dl sg i m hm]
    have hne : s.task l ≠ i := by rw [hlt]; exact (otherIds_getD_mem ts.length i m hm).2
    have := hseg l hl' hne x len h
    rw [hlt] at this
    exact this
  cost_pos := hpos

/-- C02, fully preemptive, hypotheses on the task set only -/
theorem edf_preemptive_sound_of_compliant (s : Sys) (ts : List (Arr × Cost)) (Dl sg : ℕ → ℕ)
    (i : ℕ) (hi : i < ts.length)
    (hwf : ∀ p ∈ ts, p.1.WF ∧ p.2.WF) (hex : ∀ x, x < ts.length → (taskRB ts x).Exact)
    (hc : Compliant s ts) (hl : JlfpLegal s (hepEDF s Dl))
    (hnp : ∀ l x, ¬ s.np l x)
    (hpos : ∀ k, k < s.n → 1 ≤ s.cost k)
    (limit R : ℕ)
    (hR : edfPreemptive (taskRB ts i) (Dl i) (edfOthersOf ts Dl sg i) limit = .ok R) :
    ∀ j, j < s.n → s.task j = i → MeetsBound s j R := by
  have hS : EdfSetting s Dl i (Dl i) (taskRB ts i) (edfOthersOf ts Dl sg i)
      (otherIds ts.length i) := by
    refine EdfSetting.of_compliant s ts Dl sg i hi hwf hc hl ?_ hpos
    intro l _ _ x len h
    rcases Nat.eq_zero_or_pos len with h0 | h0
    · omega
    · exact absurd (h 0 h0) (hnp l (x + 0))
  exact edf_preemptive_sound s Dl i (Dl i) _ _ _ hS (taskRB_arrWF ts hwf i hi) (hex i hi)
    (edfOthersOK_edfOthersOf ts Dl sg i hwf (fun x hx _ => hex x hx)) hnp limit R hR

/-- C02, floating non-preemptive regions, hypotheses on the task set only -/
theorem edf_floating_sound_of_compliant (s : Sys) (ts : List (Arr × Cost)) (Dl sg : ℕ → ℕ)
    (i : ℕ) (hi : i < ts.length)
    (hwf : ∀ p ∈ ts, p.1.WF ∧ p.2.WF) (hex : ∀ x, x < ts.length → (taskRB ts x).Exact)
    (hc : Compliant s ts) (hl : JlfpLegal s (hepEDF s Dl))
    (hseg : ∀ l, l < s.n → s.task l ≠ i → ∀ x len,
      (∀ k, k < len → s.np l (x + k)) → len ≤ sg (s.task l) - 1)
    (hpos : ∀ k, k < s.n → 1 ≤ s.cost k)
    (limit R : ℕ)
    (hR : edfFloating (taskRB ts i) (Dl i) (edfOthersOf ts Dl sg i) limit = .ok R) :
    ∀ j, j < s.n → s.task j = i → MeetsBound s j R :=
  edf_floating_sound s Dl i (Dl i) _ _ _
    (EdfSetting.of_compliant s ts Dl sg i hi hwf hc hl hseg hpos)
    (taskRB_arrWF ts hwf i hi) (hex i hi)
    (edfOthersOK_edfOthersOf ts Dl sg i hwf (fun x hx _ => hex x hx)) limit R hR

/-- C02, fully non-preemptive task under analysis with scalar WCET `C`, hypotheses on the
task set and on the placement of non-preemptive regions only -/
theorem edf_nonpreemptive_sound_of_compliant (s : Sys) (ts : List (Arr × Cost)) (Dl sg : ℕ → ℕ)
    (i : ℕ) (hi : i < ts.length) (a : Arr) (C : ℕ) (hts : ts[i] = (a, .scalar C))
    (hwf : ∀ p ∈ ts, p.1.WF ∧ p.2.WF) (hexa : a.Exact)
    (hex : ∀ x, x < ts.length → x ≠ i → (taskRB ts x).Exact)
    (hc : Compliant s ts) (hl : JlfpLegal s (hepEDF s Dl))
    (hseg : ∀ l, l < s.n → s.task l ≠ i → ∀ x len,
      (∀ k, k < len → s.np l (x + k)) → len ≤ sg (s.task l) - 1)
    (hpos : ∀ k, k < s.n → 1 ≤ s.cost k)
    (hown : ∀ j, j < s.n → s.task j = i → ∀ x, 1 ≤ x → x < s.cost j → s.np j x)
    (limit R : ℕ)
    (hR : edfNonpreemptive a C (Dl i) (edfOthersOf ts Dl sg i) limit = .ok R) :
    ∀ j, j < s.n → s.task j = i → MeetsBound s j R := by
  have hS := EdfSetting.of_compliant s ts Dl sg i hi hwf hc hl hseg hpos
  have hrb : taskRB ts i = .rbf a (.scalar C) := by rw [taskRB_eq ts i hi, hts]
  rw [hrb] at hS
  have hcomp : TaskCompliant s i a (.scalar C) := by
    have := hc.comp i hi
    rw [hts] at this
    exact this
  have hawf : a.WF := by
    have := (hwf _ (List.getElem_mem hi)).1
    rw [hts] at this
    exact this
  exact edf_nonpreemptive_sound s Dl i (Dl i) a C _ _ hS hawf hexa
    (edfOthersOK_edfOthersOf ts Dl sg i hwf hex)
    (task_cnt_le s i a _ hawf hcomp)
    (fun j hj hji => ⟨job_cost_le s i a C hcomp j hj hji, hown j hj hji⟩) limit R hR

/-- C02, limited-preemptive task under analysis with scalar WCET `C` and last segment
`last`, hypotheses on the task set and on the placement of non-preemptive regions only -/
theorem edf_limited_sound_of_compliant (s : Sys) (ts : List (Arr × Cost)) (Dl sg : ℕ → ℕ)
    (i : ℕ) (hi : i < ts.length) (a : Arr) (C last : ℕ) (hts : ts[i] = (a, .scalar C))
    (hwf : ∀ p ∈ ts, p.1.WF ∧ p.2.WF) (hexa : a.Exact)
    (hex : ∀ x, x < ts.length → x ≠ i → (taskRB ts x).Exact)
    (hc : Compliant s ts) (hl : JlfpLegal s (hepEDF s Dl))
    (hseg : ∀ l, l < s.n → s.task l ≠ i → ∀ x len,
      (∀ k, k < len → s.np l (x + k)) → len ≤ sg (s.task l) - 1)
    (hpos : ∀ k, k < s.n → 1 ≤ s.cost k)
    (hlast1 : 1 ≤ last) (hlastC : last ≤ C)
    (hown : ∀ j, j < s.n → s.task j = i →
      ∀ x, max 1 (s.cost j - (last - 1)) ≤ x → x < s.cost j → s.np j x)
    (limit R : ℕ)
    (hR : edfLimited a C (Dl i) last (edfOthersOf ts Dl sg i) limit = .ok R) :
    ∀ j, j < s.n → s.task j = i → MeetsBound s j R := by
  have hS := EdfSetting.of_compliant s ts Dl sg i hi hwf hc hl hseg hpos
  have hrb : taskRB ts i = .rbf a (.scalar C) := by rw [taskRB_eq ts i hi, hts]
  rw [hrb] at hS
  have hcomp : TaskCompliant s i a (.scalar C) := by
    have := hc.comp i hi
    rw [hts] at this
    exact this
  have hawf : a.WF := by
    have := (hwf _ (List.getElem_mem hi)).1
    rw [hts] at this
    exact this
  exact edf_limited_sound s Dl i (Dl i) a C last _ _ hS hawf hexa
    (edfOthersOK_edfOthersOf ts Dl sg i hwf hex) hlast1 hlastC
    (task_cnt_le s i a _ hawf hcomp)
    (fun j hj hji => ⟨job_cost_le s i a C hcomp j hj hji, hown j hj hji⟩) limit R hR

end RTA.Sched
