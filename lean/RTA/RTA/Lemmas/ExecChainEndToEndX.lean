import RTA.Lemmas.ExecChainEndToEnd
import RTA.Lemmas.ExecEndToEndX
import RTA.Lemmas.ExecRefineChainX
import RTA.Lemmas.ExecChainRunMeetsX
/-! End-to-end soundness of the processing-chain analysis over the executor transition system
with a linear chain AND arbitrary execution times (`RTA/Spec/Ros2ExecX.lean`: the instance of
callback `k` that starts in slot `t` runs for `ex k t` slots, between 1 and the WCET). -/

namespace RTA.ExecX.ChainEndToEndXLemmas
open RTA RTA.Sched RTA.Spec RTA.Exec

/-- (i) the jobs of the last callback released in a window (the job set of `toSysCX` is that of
`Exec.toSysC`; the count does not depend on the costs) -/
theorem countOf_toSysCX_le {cbs : List Cb} {ex : ℕ → ℕ → ℕ} {ch : List ℕ} {sigma : ℕ → Bool}
    {rels : ℕ → List ℕ} {H : ℕ} (hch : ch.Nodup) (hext : ∀ t, ∀ i ∈ rels t, i ∉ ch.tail)
    (hfin : ∀ t, H ≤ t → rels t = []) {l K : ℕ} (hK : ch.length = K + 2)
    (hlast : ch.getLast? = some l) (t d : ℕ) :
    countOf (toSysCX cbs ex ch sigma rels H) l t (t + d) ≤ relCount rels (ch.headD 0) t d :=
  ChainEndToEndLemmas.countOf_toSysC_le (cbs := cbs) (sigma := sigma) hch hext hfin hK hlast t d

/-- (ii) the work of the other callbacks released in a window: every cost is at most the WCET -/
theorem workOf_toSysCX_le {cbs : List Cb} {ex : ℕ → ℕ → ℕ} {ch : List ℕ} {sigma : ℕ → Bool}
    {rels : ℕ → List ℕ} {H : ℕ} (hch : ch.Nodup) (hmem : ∀ i ∈ ch, i < cbs.length)
    (hidx : ∀ t, ∀ i ∈ rels t, i < cbs.length)
    (hext : ∀ t, ∀ i ∈ rels t, i ∉ ch.tail)
    (hfin : ∀ t, H ≤ t → rels t = [])
    (hexec : ∀ k, k < cbs.length → ∀ t, 1 ≤ ex k t ∧ ex k t ≤ (cbs.getD k default).cost)
    {l K : ℕ} (hK : ch.length = K + 2)
    (hlast : ch.getLast? = some l) (t d : ℕ) :
    workOf (toSysCX cbs ex ch sigma rels H) (fun k => k ≠ l) t (t + d) ≤
      relCount rels (ch.headD 0) t d * (ch.dropLast.map fun i => (cbs.getD i default).cost).sum +
      (((List.range cbs.length).filter fun k => decide (k ∉ ch)).map fun k =>
        relCount rels k t d * (cbs.getD k default).cost).sum := by
  refine Nat.le_trans ?_
    (ChainEndToEndLemmas.workOf_toSysC_le (cbs := cbs) (sigma := sigma) hch hidx hext hfin hK hlast t d)
  unfold workOf
  apply Finset.sum_le_sum
  intro k hk
  have hk' : k < (toSysCX cbs ex ch sigma rels H).n := Finset.mem_range.1 hk
  show (if (toSysCX cbs ex ch sigma rels H).task k ≠ l ∧ t ≤ (toSysCX cbs ex ch sigma rels H).arr k ∧
        (toSysCX cbs ex ch sigma rels H).arr k < t + d then (toSysCX cbs ex ch sigma rels H).cost k else 0) ≤
      (if (toSysCX cbs ex ch sigma rels H).task k ≠ l ∧ t ≤ (toSysCX cbs ex ch sigma rels H).arr k ∧
        (toSysCX cbs ex ch sigma rels H).arr k < t + d
        then (cbs.getD ((toSysCX cbs ex ch sigma rels H).task k) default).cost else 0)
  split
  · exact toSysCX_cost_le cbs ex ch sigma rels H hch hmem hidx hext hfin hexec k hk'
  · exact Nat.le_refl 0

end RTA.ExecX.ChainEndToEndXLemmas

namespace RTA.ExecX
open RTA RTA.Sched RTA.Spec RTA.Exec

/-- **processing chain, end to end, all execution times** -/
theorem chain_exec_sound_x (cbs : List Cb) (ex : ℕ → ℕ → ℕ) (ch : List ℕ) (sigma : ℕ → Bool) (rels : ℕ → List ℕ)
    (H l : ℕ)
    (hch : ch.Nodup) (hne : 2 ≤ ch.length) (hlast : ch.getLast? = some l)
    (hmem : ∀ i ∈ ch, i < cbs.length ∧ (cbs.getD i default).isTimer = false)
    (hidx : ∀ t, ∀ i ∈ rels t, i < cbs.length)
    (hext : ∀ t, ∀ i ∈ rels t, i ∉ ch.tail)
    (hfin : ∀ t, H ≤ t → rels t = [])
    (hexec : ∀ k, k < cbs.length → ∀ t, 1 ≤ ex k t ∧ ex k t ≤ (cbs.getD k default).cost)
    (sup : Supply) (hs : sup.WF) (hsbf : ∀ t d, sup.sbf d ≤ service sigma t d)
    (a : Arr) (hwf : a.WF) (hex : a.Exact)
    (hsrc : ∀ t d, relCount rels (ch.headD 0) t d ≤ a.N d)
    (arrs : List Arr) (hlen : arrs.length = cbs.length) (hwfo : ∀ b ∈ arrs, b.WF ∧ b.Exact)
    (hrel : ∀ k, k < cbs.length → k ∉ ch → ∀ t d, relCount rels k t d ≤ (arrs.getD k default).N d)
    (limit R : ℕ)
    (hR : rosChain sup
      (.rbf a (.scalar (cbs.getD l default).cost))
      (.rbf a (.scalar ((ch.dropLast.map fun i => (cbs.getD i default).cost).sum)))
      (.rbf a (.scalar ((cbs.getD l default).cost + (ch.dropLast.map fun i => (cbs.getD i default).cost).sum)))
      (.agg (((List.range cbs.length).filter fun k => decide (k ∉ ch)).map
        fun k => .rbf (arrs.getD k default) (.scalar (cbs.getD k default).cost))) limit = .ok R)
    (n m : ℕ)
    (hm : m < (completionsOf (ExecX.run cbs ex (chainFn ch) ((List.range n).map sigma) rels) l).length) :
    (completionsOf (ExecX.run cbs ex (chainFn ch) ((List.range n).map sigma) rels) l).getD m 0 ≤
      (relTimes rels H (ch.headD 0)).getD m 0 + R := by
  obtain ⟨K, hK⟩ : ∃ K, ch.length = K + 2 := ⟨ch.length - 2, by omega⟩
  have hl : l ∈ ch := List.mem_of_getLast? hlast
  have h0 : ch.headD 0 ∈ ch := by
    rw [ChainRefineLemmas.headD_eq]; exact ChainRefineLemmas.cAt_mem (by omega)
  have hmem' : ∀ i ∈ ch, i < cbs.length := fun i hi => (hmem i hi).1
  have hkslt := EndToEndLemmas.mem_filter_range_lt cbs.length (fun k => decide (k ∉ ch))
  have hcpos : ∀ k, k < cbs.length → 1 ≤ (cbs.getD k default).cost :=
    fun k hk => by have := hexec k hk 0; omega
  have hagg := EndToEndLemmas.agg_wf arrs cbs.length hlen hwfo (fun k => (cbs.getD k default).cost)
    hcpos _ hkslt
  have hPsum := ChainEndToEndLemmas.dropLast_cost_pos (cbs := cbs) hK (hcpos _ (hmem _ h0).1)
  refine (run_chain_meets_of_sysCX cbs ex ch sigma rels H l hch hne hlast hmem hidx hext hfin hexec R ?_
    n m hm).2
  refine chain_sound _ sigma l
    (run_chain_legal_x cbs ex ch sigma rels H l hch hne hlast hmem hidx hext hfin hexec)
    sup hs hsbf a (cbs.getD l default).cost
    ((ch.dropLast.map fun i => (cbs.getD i default).cost).sum) hwf hex (hcpos l (hmem l hl).1) hPsum
    _ (by simp only [RB.ArrWF]; exact hagg.1) (by simp only [RB.Exact]; exact hagg.2)
    ?_ ?_ ?_ limit R hR
  · exact fun t d => Nat.le_trans
      (ChainEndToEndXLemmas.countOf_toSysCX_le (cbs := cbs) (ex := ex) (sigma := sigma)
        hch hext hfin hK hlast t d) (hsrc t d)
  · intro k hkn hk
    have := toSysCX_cost_le cbs ex ch sigma rels H hch hmem' hidx hext hfin hexec k hkn
    rw [hk] at this
    exact this
  · intro t d
    refine Nat.le_trans
      (ChainEndToEndXLemmas.workOf_toSysCX_le (cbs := cbs) (ex := ex) (sigma := sigma)
        hch hmem' hidx hext hfin hexec hK hlast t d) ?_
    rw [ChainSoundLemmas.need_scalar]
    apply Nat.add_le_add
    · rw [Nat.mul_comm]; exact Nat.mul_le_mul_left _ (hsrc t d)
    · simp only [RB.need]
      refine ChainEndToEndLemmas.need_le' arrs rels _ t d _ ?_
      intro k hk
      have hk' := List.mem_filter.1 hk
      exact hrel k (List.mem_range.1 hk'.1) (by simpa using hk'.2) t d

end RTA.ExecX
