import RTA.Lemmas.ArrAll
import RTA.Lemmas.Demand
import RTA.Model.Analyses
/-! C11 for request bounds: `RequestBound::steps_iter` and `demand::step_offsets`. -/

namespace RTA

/-- every job has a positive cost: the cumulative cost strictly increases -/
def Cost.StrictPos (c : Cost) : Prop := ∀ n, c.ofJobs n < c.ofJobs (n + 1)

mutual
/-- request bounds whose `steps_iter` is exact: exact arrival models, positive job costs -/
def RB.Exact : RB → Prop
  | .rbf a c => a.Exact ∧ c.StrictPos
  | .agg rs => RB.ExactList rs
def RB.ExactList : List RB → Prop
  | [] => True
  | r :: rs => r.Exact ∧ RB.ExactList rs
end

mutual
/-- all arrival models inside are well-formed -/
def RB.ArrWF : RB → Prop
  | .rbf a _ => a.WF
  | .agg rs => RB.ArrWFList rs
def RB.ArrWFList : List RB → Prop
  | [] => True
  | r :: rs => r.ArrWF ∧ RB.ArrWFList rs
end

namespace RBStepsLemmas

theorem strictPos_lt (c : Cost) (h : c.StrictPos) (n m : Nat) (hnm : n < m) :
    c.ofJobs n < c.ofJobs m := by
  induction hnm with
  | refl => exact h n
  | step _ ih => exact Nat.lt_trans ih (h _)

theorem strictPos_lt_iff (c : Cost) (h : c.StrictPos) (n m : Nat) :
    c.ofJobs n < c.ofJobs m ↔ n < m := by
  constructor
  · intro hlt
    by_cases hnm : n < m
    · exact hnm
    · exfalso
      rcases Nat.eq_or_lt_of_le (Nat.le_of_not_lt hnm) with e | e
      · subst e; omega
      · have := strictPos_lt c h m n e; omega
  · exact strictPos_lt c h n m

theorem strictPos_mono (c : Cost) (h : c.StrictPos) : MonoN c.ofJobs := by
  intro a b hab
  rcases Nat.eq_or_lt_of_le hab with e | e
  · subst e; exact Nat.le_refl _
  · exact Nat.le_of_lt (strictPos_lt c h a b e)

theorem need_rbf_fun (a : Arr) (c : Cost) : (RB.rbf a c).need = fun d => c.ofJobs (a.N d) := by
  funext d; simp only [RB.need]
theorem need_agg_fun (rs : List RB) : (RB.agg rs).need = RB.needList rs := by
  funext d; simp only [RB.need]
theorem needList_nil_fun : RB.needList [] = fun _ => 0 := by
  funext d; simp only [RB.needList]
theorem needList_cons_fun (r : RB) (rs : List RB) :
    RB.needList (r :: rs) = fun d => r.need d + RB.needList rs d := by
  funext d; simp only [RB.needList]

/-- composing with a strictly increasing cost function keeps the step list -/
theorem stepsSpec_comp (c : Cost) (h : c.StrictPos) (N : Nat → Nat) (H : Nat) (l : List Nat)
    (hl : StepsSpec N H l) : StepsSpec (fun d => c.ofJobs (N d)) H l := by
  refine ⟨hl.1, fun δ => ?_⟩
  rw [hl.2 δ]
  show _ ↔ (1 ≤ δ ∧ δ ≤ H ∧ c.ofJobs (N (δ - 1)) < c.ofJobs (N δ))
  rw [strictPos_lt_iff c h]

mutual
theorem need_zero' : (r : RB) → r.need 0 = 0
  | .rbf a c => by simp only [RB.need]; rw [Arr.N_zero a, Cost.ofJobs_zero]
  | .agg rs => by simp only [RB.need]; exact needList_zero' rs
theorem needList_zero' : (rs : List RB) → RB.needList rs 0 = 0
  | [] => by simp only [RB.needList]
  | r :: rs => by simp only [RB.needList]; rw [need_zero' r, needList_zero' rs]
end

mutual
theorem need_mono' : (r : RB) → r.ArrWF → r.Exact → MonoN r.need
  | .rbf a c, hwf, hex => by
    simp only [RB.ArrWF] at hwf
    simp only [RB.Exact] at hex
    rw [need_rbf_fun]
    intro x y hxy
    exact strictPos_mono c hex.2 _ _ (Arr.N_mono a hwf x y hxy)
  | .agg rs, hwf, hex => by
    simp only [RB.ArrWF] at hwf
    simp only [RB.Exact] at hex
    rw [need_agg_fun]; exact needList_mono' rs hwf hex
theorem needList_mono' : (rs : List RB) → RB.ArrWFList rs → RB.ExactList rs →
    MonoN (RB.needList rs)
  | [], _, _ => by intro x y _; simp only [RB.needList]; exact Nat.le_refl _
  | r :: rs, hwf, hex => by
    simp only [RB.ArrWFList] at hwf
    simp only [RB.ExactList] at hex
    have iha := need_mono' r hwf.1 hex.1
    have ihb := needList_mono' rs hwf.2 hex.2
    intro x y h
    simp only [RB.needList]
    exact Nat.add_le_add (iha x y h) (ihb x y h)
end

mutual
theorem steps_spec0' : (r : RB) → r.ArrWF → r.Exact → ∀ H,
    StepsSpec0 r.need H (r.stepsUpTo H)
  | .rbf a c, hwf, hex, H => by
    simp only [RB.ArrWF] at hwf
    simp only [RB.Exact] at hex
    rw [need_rbf_fun]; simp only [RB.stepsUpTo]
    exact (stepsSpec_comp c hex.2 a.N H _ (Arr.steps_spec a hwf hex.1 H)).toSpec0
  | .agg rs, hwf, hex, H => by
    simp only [RB.ArrWF] at hwf
    simp only [RB.Exact] at hex
    rw [need_agg_fun]; simp only [RB.stepsUpTo]
    exact (stepsList_spec0' rs hwf hex H).dedup
theorem stepsList_spec0' : (rs : List RB) → RB.ArrWFList rs → RB.ExactList rs → ∀ H,
    WSpec0 (RB.needList rs) H (RB.stepsList rs H)
  | [], _, _, H => by
    rw [needList_nil_fun]; simp only [RB.stepsList]
    exact WSpec0.nil H
  | r :: rs, hwf, hex, H => by
    simp only [RB.ArrWFList] at hwf
    simp only [RB.ExactList] at hex
    rw [needList_cons_fun]; simp only [RB.stepsList]
    exact WSpec0.merge r.need (RB.needList rs) H _ _ (need_mono' r hwf.1 hex.1)
      (needList_mono' rs hwf.2 hex.2)
      (steps_spec0' r hwf.1 hex.1 H).toW (stepsList_spec0' rs hwf.2 hex.2 H)
end

mutual
theorem zero_not_mem_steps' : (r : RB) → r.ArrWF → r.Exact → ∀ H, 0 ∉ r.stepsUpTo H
  | .rbf a c, hwf, hex, H => by
    simp only [RB.ArrWF] at hwf
    simp only [RB.Exact] at hex
    simp only [RB.stepsUpTo]
    exact (Arr.steps_spec a hwf hex.1 H).zero_not_mem
  | .agg rs, hwf, hex, H => by
    simp only [RB.ArrWF] at hwf
    simp only [RB.Exact] at hex
    simp only [RB.stepsUpTo]
    rw [mem_dedup]
    exact zero_not_mem_stepsList' rs hwf hex H
theorem zero_not_mem_stepsList' : (rs : List RB) → RB.ArrWFList rs → RB.ExactList rs → ∀ H,
    0 ∉ RB.stepsList rs H
  | [], _, _, H => by simp [RB.stepsList]
  | r :: rs, hwf, hex, H => by
    simp only [RB.ArrWFList] at hwf
    simp only [RB.ExactList] at hex
    simp only [RB.stepsList]
    rw [mem_merge]
    intro h
    rcases h with h | h
    · exact zero_not_mem_steps' r hwf.1 hex.1 H h
    · exact zero_not_mem_stepsList' rs hwf.2 hex.2 H h
end

/-- `step_offsets` on an exact step list -/
theorem stepOffsetsBelow_spec (N : Nat → Nat) (L : Nat) (steps : List Nat)
    (hs : StepsSpec N L steps) :
    ∃ as, stepOffsetsBelow steps L = some as ∧ as.Pairwise (· < ·) ∧
      ∀ A, A ∈ as ↔ (A < L ∧ N A < N (A + 1)) := by
  have h0 : steps.any (fun x => decide (x = 0)) = false := by
    rw [List.any_eq_false]
    intro x hx
    have := (hs.2 x).1 hx
    simp only [decide_eq_true_eq]
    omega
  refine ⟨(steps.map (· - 1)).filter (· < L), ?_, ?_, ?_⟩
  · unfold stepOffsetsBelow
    rw [h0]; rfl
  · apply List.Pairwise.filter
    rw [List.pairwise_map]
    refine List.Pairwise.imp_of_mem ?_ hs.1
    intro a b ha hb hab
    have := (hs.2 a).1 ha
    have := (hs.2 b).1 hb
    omega
  · intro A
    rw [List.mem_filter, List.mem_map]
    constructor
    · rintro ⟨⟨δ, hδ, rfl⟩, hlt⟩
      have h := (hs.2 δ).1 hδ
      have e : δ - 1 + 1 = δ := by omega
      rw [e]
      exact ⟨by omega, h.2.2⟩
    · rintro ⟨hlt, hinc⟩
      refine ⟨⟨A + 1, ?_, by omega⟩, decide_eq_true hlt⟩
      rw [hs.2 (A + 1)]
      exact ⟨by omega, by omega, by rw [Nat.add_sub_cancel]; exact hinc⟩

theorem head_zero_of_strict (as : List Nat) (hp : as.Pairwise (· < ·)) (h0 : 0 ∈ as) :
    ∃ rest, as = 0 :: rest := by
  cases as with
  | nil => cases h0
  | cons x rest =>
    rw [List.mem_cons] at h0
    rcases h0 with h0 | h0
    · exact ⟨rest, by rw [← h0]⟩
    · have := (List.pairwise_cons.1 hp).1 0 h0
      omega

end RBStepsLemmas

open RBStepsLemmas

theorem Cost.scalar_strictPos (c : Nat) (hc : 1 ≤ c) : (Cost.scalar c).StrictPos := by
  intro n
  simp only [Cost.ofJobs]
  rw [Nat.mul_succ]
  omega

/-- `service_needed(0) = 0` -/
theorem RB.need_zero (r : RB) : r.need 0 = 0 := need_zero' r

/-- `service_needed` is non-decreasing when the cost models are -/
theorem RB.need_mono (r : RB) (hwf : r.ArrWF) (hex : r.Exact) : MonoN r.need :=
  need_mono' r hwf hex

/-- C11 for request bounds: `steps_iter` (cut at any horizon) is strictly increasing,
every yielded `δ ≥ 1`, and `δ` is yielded iff `service_needed` increases at `δ` -/
theorem RB.steps_spec (r : RB) (hwf : r.ArrWF) (hex : r.Exact) (H : Nat) :
    StepsSpec r.need H (r.stepsUpTo H) :=
  StepsSpec.of_spec0 (steps_spec0' r hwf hex H) (zero_not_mem_steps' r hwf hex H)

/-- `demand::step_offsets` never underflows on exact request bounds and yields exactly
the offsets `A < L` with `service_needed(A) < service_needed(A + 1)` -/
theorem RB.offsetsBelow_spec (r : RB) (hwf : r.ArrWF) (hex : r.Exact) (L : Nat) :
    ∃ as, r.offsetsBelow L = some as ∧ as.Pairwise (· < ·) ∧
      ∀ A, A ∈ as ↔ (A < L ∧ r.need A < r.need (A + 1)) :=
  stepOffsetsBelow_spec r.need L _ (RB.steps_spec r hwf hex L)

/-- it yields `A = 0` first whenever there is any demand in a unit interval -/
theorem RB.offsetsBelow_head (r : RB) (hwf : r.ArrWF) (hex : r.Exact) (L : Nat) (hL : 1 ≤ L)
    (h1 : 0 < r.need 1) : ∃ rest, r.offsetsBelow L = some (0 :: rest) := by
  obtain ⟨as, he, hp, hm⟩ := RB.offsetsBelow_spec r hwf hex L
  have h0 : 0 ∈ as := (hm 0).2 ⟨by omega, by rw [RB.need_zero]; exact h1⟩
  obtain ⟨rest, e⟩ := head_zero_of_strict as hp h0
  exact ⟨rest, by rw [he, e]⟩

end RTA
