import RTA.Spec.NaiveRos
import RTA.Lemmas.PruneCore
import RTA.Lemmas.Supply
/-! C07: the ROS 2 analyses equal naive evaluation of their defining inequalities. -/

namespace RTA
open RTA.Spec
namespace RosNaiveLemmas
open PruneCoreLemmas

theorem nss_cases (sbf : Nat → Nat) (off : Nat) (w : Nat → Nat) (limit : Nat) :
    (∃ r, naiveSolveSup sbf off w limit = .ok r) ∨ naiveSolveSup sbf off w limit = .div off limit := by
  unfold naiveSolveSup
  cases h : scanLeast (fun r => decide (w (max r 1) ≤ sbf (off + r))) limit with
  | none => right; rfl
  | some r0 => left; exact ⟨r0, rfl⟩

theorem nss_ok_iff (sbf : Nat → Nat) (off : Nat) (w : Nat → Nat) (limit r : Nat) :
    naiveSolveSup sbf off w limit = .ok r ↔
      (r ≤ limit ∧ w (max r 1) ≤ sbf (off + r) ∧ ∀ r', r' < r → ¬ w (max r' 1) ≤ sbf (off + r')) := by
  have hs := scanLeast_spec (fun r => decide (w (max r 1) ≤ sbf (off + r))) limit
  have hr := hs.1 r
  simp only [decide_eq_true_eq, decide_eq_false_iff_not] at hr
  rw [← hr]
  unfold naiveSolveSup
  cases h : scanLeast (fun r => decide (w (max r 1) ≤ sbf (off + r))) limit with
  | none => simp
  | some r0 => simp

theorem nss_div_iff (sbf : Nat → Nat) (off : Nat) (w : Nat → Nat) (limit : Nat) :
    naiveSolveSup sbf off w limit = .div off limit ↔
      ∀ r, r ≤ limit → ¬ w (max r 1) ≤ sbf (off + r) := by
  have hs := scanLeast_spec (fun r => decide (w (max r 1) ≤ sbf (off + r))) limit
  unfold naiveSolveSup
  cases h : scanLeast (fun r => decide (w (max r 1) ≤ sbf (off + r))) limit with
  | none =>
    simp only [true_iff]
    intro r hr
    have := hs.2.1 h r hr
    simpa using this
  | some r0 =>
    have := (hs.1 r0).1 h
    simp only [reduceCtorEq, false_iff]
    intro hall
    have h2 := this.2.1
    simp only [decide_eq_true_eq] at h2
    exact hall r0 this.1 h2

theorem nss_ne_panic (sbf : Nat → Nat) (off : Nat) (w : Nat → Nat) (limit : Nat) :
    naiveSolveSup sbf off w limit ≠ .panic := by
  rcases nss_cases sbf off w limit with ⟨r, h⟩ | h <;> rw [h] <;> intro h' <;> cases h'

end RosNaiveLemmas
open RosNaiveLemmas

/-- the supply-aware iterative search is the linear-scan least solution -/
theorem searchWithOffset_eq_naive (s : Supply) (hs : s.WF) (w : Nat → Nat) (hw : Mono w) (off limit : Nat)
    (hl : 1 ≤ limit) (hoff : InBusyWindow s.stClosed w off) :
    searchWithOffset s off limit w = naiveSolveSup s.sbf off w limit := by
  rcases nss_cases s.sbf off w limit with ⟨r, h⟩ | h
  · rw [h]
    rw [nss_ok_iff] at h
    rw [RTA.C08.search_ok_iff s hs w hw off limit hoff]
    refine ⟨⟨h.1, h.2.1, ?_⟩, hl⟩
    intro r' hr'
    rcases Nat.lt_or_ge r' r with hlt | hge
    · exact absurd hr' (h.2.2 r' hlt)
    · exact hge
  · rw [h]
    rw [nss_div_iff] at h
    rw [RTA.C08.search_div_iff s hs w hw off limit hoff hl]
    intro r hr hs'
    exact h r hr hs'

namespace RosNaiveLemmas
open PruneCoreLemmas

theorem cSt_le_horizon (Q D P : Nat) (hQ : 1 ≤ Q) (hQD : Q ≤ D) (hDP : D ≤ P) (d : Nat) :
    cSt Q D P d ≤ (d + 2) * P := by
  by_cases hd : d = 0
  · subst hd; rw [cSt_zero]; exact Nat.zero_le _
  obtain ⟨q, r, hr, rfl⟩ := exists_qr Q d hQ
  rw [cSt_nf Q D P q r hr (by omega)]
  have h1 : q ≤ Q * q := Nat.le_mul_of_pos_left q hQ
  have h2 : P * q ≤ P * (Q * q + r) := Nat.mul_le_mul_left P (by omega)
  rw [Nat.add_mul, Nat.mul_comm (Q * q + r) P]
  generalize P * (Q * q + r) = X at *
  generalize P * q = Y at *
  split <;> omega

theorem stClosed_le_horizon (s : Supply) (hs : s.WF) (d : Nat) :
    s.stClosed d ≤ supplyHorizon s d := by
  induction s with
  | dedicated => exact Nat.le_refl _
  | periodic Q P =>
    obtain ⟨h1, h2⟩ := hs
    show pSt Q P d ≤ (d + 2) * P
    rw [pSt_eq_cSt Q P h1 h2]
    exact cSt_le_horizon Q P P h1 h2 (Nat.le_refl _) d
  | constrained Q D P =>
    obtain ⟨h1, h2, h3⟩ := hs
    exact cSt_le_horizon Q D P h1 h2 h3 d
  | viaDefault s ih => exact ih hs

theorem naiveSt_eq (s : Supply) (hs : s.WF) (d : Nat) : naiveSt s d = s.stClosed d := by
  have hg := Supply.galois s hs
  have hsp := (scanLeast_spec (fun t => decide (d ≤ s.sbf t)) (supplyHorizon s d)).1 (s.stClosed d)
  have : scanLeast (fun t => decide (d ≤ s.sbf t)) (supplyHorizon s d) = some (s.stClosed d) := by
    rw [hsp]
    refine ⟨stClosed_le_horizon s hs d, ?_, ?_⟩
    · exact decide_eq_true ((hg _ _).1 (Nat.le_refl _))
    · intro r' hr'
      apply decide_eq_false
      intro hc
      have := (hg _ _).2 hc
      omega
  unfold naiveSt
  rw [this]
  rfl

end RosNaiveLemmas

/-- `service_time` (closed forms and the default loop) is the linear-scan inverse -/
theorem st_eq_naive (s : Supply) (hs : s.WF) (d : Nat) : s.st? d = some (naiveSt s d) := by
  rw [naiveSt_eq s hs d]
  exact Supply.st?_eq s hs d
namespace RosNaiveLemmas
open PruneCoreLemmas


theorem find_eq_firstErr (p : Res → Bool) (hp_ok : ∀ v, p (.ok v) = false)
    (hp_div : ∀ o l, p (.div o l) = true) (rs : List Res) (hnp : ∀ x ∈ rs, x ≠ .panic) :
    rs.find? p = firstErr rs := by
  induction rs with
  | nil => rfl
  | cons x xs ih =>
    have hxs : ∀ y ∈ xs, y ≠ .panic := fun y hy => hnp y (by simp [hy])
    cases x with
    | panic => exact absurd rfl (hnp .panic (by simp))
    | div o l => simp only [List.find?_cons, hp_div, firstErr]
    | ok v => simp only [List.find?_cons, hp_ok, firstErr]; exact ih hxs

theorem maxList_eq_maxOk (g : Res → Nat) (hg : ∀ v, g (.ok v) = v) (rs : List Res)
    (hnp : ∀ x ∈ rs, x ≠ .panic) (hne : firstErr rs = none) :
    maxList (rs.map g) = maxOk rs := by
  induction rs with
  | nil => rfl
  | cons x xs ih =>
    have hxs : ∀ y ∈ xs, y ≠ .panic := fun y hy => hnp y (by simp [hy])
    cases x with
    | panic => exact absurd rfl (hnp .panic (by simp))
    | div o l => simp [firstErr] at hne
    | ok v =>
      simp only [firstErr] at hne
      simp only [List.map_cons, maxList, maxOk, hg, ih hxs hne]

theorem pick_eq_spec (p : Res → Bool) (hp_ok : ∀ v, p (.ok v) = false)
    (hp_div : ∀ o l, p (.div o l) = true) (g : Res → Nat) (hg : ∀ v, g (.ok v) = v)
    (rs : List Res) (hnp : ∀ x ∈ rs, x ≠ .panic) :
    (if rs.any p then (rs.find? p).getD .panic else .ok (maxList (rs.map g))) =
      match firstErr rs with
      | some e => e
      | none => .ok (maxOk rs) := by
  have hf := find_eq_firstErr p hp_ok hp_div rs hnp
  cases h : firstErr rs with
  | none =>
    rw [h] at hf
    have hany : rs.any p = false := by
      rw [List.any_eq_false]
      rw [List.find?_eq_none] at hf
      exact hf
    rw [hany, maxList_eq_maxOk g hg rs hnp h]
    rfl
  | some e =>
    rw [h] at hf
    have hany : rs.any p = true := by
      rw [List.any_eq_true]
      exact ⟨e, List.mem_of_find?_eq_some hf, List.find?_some hf⟩
    rw [hany, hf]
    rfl

/-- on panic-free lists `max_response_time` is the naive maximum (first error, else maximum) -/
theorem maxResponseTime_eq_naiveMax (rs : List Res) (hnp : ∀ x ∈ rs, x ≠ .panic) :
    maxResponseTime rs = naiveMax rs := by
  rw [RTA.C08.maxResponseTime_spec rs hnp]
  unfold naiveMax
  exact (pick_eq_spec _ (fun _ => rfl) (fun _ _ => rfl) _ (fun _ => rfl) rs hnp).symm

end RosNaiveLemmas

/-- the offsets examined by `bound_response_time`: step offsets `A ≤ max_bw` of the demand -/
def rosOffsets (demand : RB) (maxBw : Nat) : List Nat :=
  ((demand.stepsUpTo (maxBw + 1)).map (· - 1))

namespace RosNaiveLemmas
open PruneCoreLemmas

theorem stepOffsets_eq (demand : RB) (hwf : demand.ArrWF) (hex : demand.Exact) (maxBw : Nat) :
    stepOffsetsBelow (demand.stepsUpTo (maxBw + 1)) (maxBw + 1) = some (rosOffsets demand maxBw) := by
  have hs := RB.steps_spec demand hwf hex (maxBw + 1)
  have h0 : (demand.stepsUpTo (maxBw + 1)).any (fun x => decide (x = 0)) = false := by
    rw [List.any_eq_false]
    intro x hx
    have := (hs.2 x).1 hx
    simp only [decide_eq_true_eq]
    omega
  unfold stepOffsetsBelow rosOffsets
  rw [h0]
  simp only [Bool.false_eq_true, if_false]
  congr 1
  rw [List.filter_eq_self]
  intro A hA
  rw [List.mem_map] at hA
  obtain ⟨δ, hδ, rfl⟩ := hA
  have := (hs.2 δ).1 hδ
  exact decide_eq_true (by omega)

theorem mem_rosOffsets (demand : RB) (hwf : demand.ArrWF) (hex : demand.Exact) (maxBw A : Nat) :
    A ∈ rosOffsets demand maxBw ↔ (A ≤ maxBw ∧ demand.need A < demand.need (A + 1)) := by
  have hs := RB.steps_spec demand hwf hex (maxBw + 1)
  unfold rosOffsets
  rw [List.mem_map]
  constructor
  · rintro ⟨δ, hδ, rfl⟩
    have h := (hs.2 δ).1 hδ
    have e : δ - 1 + 1 = δ := by omega
    rw [e]
    exact ⟨by omega, h.2.2⟩
  · rintro ⟨hle, hinc⟩
    refine ⟨A + 1, ?_, by omega⟩
    rw [hs.2 (A + 1)]
    exact ⟨by omega, by omega, by rw [Nat.add_sub_cancel]; exact hinc⟩

theorem rosOffsets_sorted (demand : RB) (hwf : demand.ArrWF) (hex : demand.Exact) (maxBw : Nat) :
    (rosOffsets demand maxBw).Pairwise (· < ·) := by
  have hs := RB.steps_spec demand hwf hex (maxBw + 1)
  unfold rosOffsets
  rw [List.pairwise_map]
  refine List.Pairwise.imp_of_mem ?_ hs.1
  intro a b ha hb hab
  have := (hs.2 a).1 ha
  have := (hs.2 b).1 hb
  omega

theorem search_eq_nss (s : Supply) (hs : s.WF) (w : Nat → Nat) (hw : Mono w) (limit : Nat)
    (hl : 1 ≤ limit) : search s limit w = naiveSolveSup s.sbf 0 w limit :=
  searchWithOffset_eq_naive s hs w hw 0 limit hl (fun _ _ => Nat.zero_le _)

end RosNaiveLemmas

/-- generic: `bound_response_time` = linear-scan evaluation over the step offsets, when
the right-hand sides are monotone and every examined offset lies inside the busy window -/
theorem rosBound_eq_on_steps (s : Supply) (hs : s.WF) (demand : RB) (hwf : demand.ArrWF) (hex : demand.Exact)
    (bwRhs : Nat → Nat) (offRhs : Nat → Nat → Nat) (limit : Nat) (hl : 1 ≤ limit)
    (hbw : Mono bwRhs) (hoff : ∀ A, Mono (offRhs A))
    (hguard : ∀ maxBw, naiveSolveSup s.sbf 0 bwRhs limit = .ok maxBw →
      ∀ A ∈ rosOffsets demand maxBw, InBusyWindow s.stClosed (offRhs A) A) :
    rosBound s demand bwRhs offRhs limit =
      naiveRosBoundOn s bwRhs offRhs limit (rosOffsets demand) := by
  unfold rosBound naiveRosBoundOn
  rw [search_eq_nss s hs bwRhs hbw limit hl]
  rcases nss_cases s.sbf 0 bwRhs limit with ⟨maxBw, h⟩ | h
  · rw [h]
    simp only []
    rw [stepOffsets_eq demand hwf hex maxBw]
    simp only [overOffsets]
    have e : (rosOffsets demand maxBw).map (fun A => searchWithOffset s A limit (offRhs A)) =
        (rosOffsets demand maxBw).map (fun A => naiveSolveSup s.sbf A (offRhs A) limit) := by
      apply List.map_congr_left
      intro A hA
      exact searchWithOffset_eq_naive s hs (offRhs A) (hoff A) A limit hl (hguard maxBw h A hA)
    rw [e]
    apply maxResponseTime_eq_naiveMax
    intro x hx
    rw [List.mem_map] at hx
    obtain ⟨A, _, rfl⟩ := hx
    exact nss_ne_panic _ _ _ _
  · rw [h]


namespace RosNaiveLemmas
open PruneCoreLemmas

/-- order on results that ignores which divergence error is carried -/
def RLe : Res → Res → Prop
  | .ok a, .ok b => a ≤ b
  | .ok _, .div _ _ => True
  | .div _ _, .div _ _ => True
  | _, _ => False

theorem nss_le (sbf : Nat → Nat) (off off' : Nat) (w w' : Nat → Nat) (limit : Nat)
    (h : ∀ r, w' (max r 1) ≤ sbf (off' + r) → w (max r 1) ≤ sbf (off + r)) :
    RLe (naiveSolveSup sbf off w limit) (naiveSolveSup sbf off' w' limit) := by
  rcases nss_cases sbf off' w' limit with ⟨b, hb⟩ | hb
  · rw [hb]
    rw [nss_ok_iff] at hb
    rcases nss_cases sbf off w limit with ⟨a, ha⟩ | ha
    · rw [ha]
      rw [nss_ok_iff] at ha
      show a ≤ b
      rcases Nat.lt_or_ge b a with hlt | hge
      · exact absurd (h b hb.2.1) (ha.2.2 b hlt)
      · exact hge
    · rw [nss_div_iff] at ha
      exact absurd (h b hb.2.1) (ha b hb.1)
  · rw [hb]
    rcases nss_cases sbf off w limit with ⟨a, ha⟩ | ha
    · rw [ha]; exact trivial
    · rw [ha]; exact trivial

theorem exists_least (P : Nat → Prop) (n : Nat) (h : P n) : ∃ m, P m ∧ ∀ k, k < m → ¬ P k := by
  induction n using Nat.strongRecOn with
  | _ n ih =>
    by_cases hex : ∃ k, k < n ∧ P k
    · obtain ⟨k, hk, hpk⟩ := hex; exact ih k hk hpk
    · exact ⟨n, h, fun k hk hp => hex ⟨k, hk, hp⟩⟩

theorem find_sorted (p : Res → Bool) (f : Nat → Res) (S : List Nat) (hs : S.Pairwise (· < ·))
    (A0 : Nat) (h0 : A0 ∈ S) (hp : p (f A0) = true) (hlt : ∀ A ∈ S, A < A0 → p (f A) = false) :
    (S.map f).find? p = some (f A0) := by
  induction S with
  | nil => cases h0
  | cons a as ih =>
    rw [List.pairwise_cons] at hs
    rw [List.map_cons, List.find?_cons]
    rcases List.mem_cons.1 h0 with e | hmem
    · subst e; rw [hp]
    · have : a < A0 := hs.1 A0 hmem
      rw [hlt a (by simp) this]
      exact ih hs.2 hmem (fun A hA => hlt A (by simp [hA]))

theorem pick_first (p : Res → Bool) (X : Res) (f : Nat → Res) (S : List Nat) (hs : S.Pairwise (· < ·))
    (A0 : Nat) (h0 : A0 ∈ S) (hp : p (f A0) = true) (hlt : ∀ A ∈ S, A < A0 → p (f A) = false) :
    (if (S.map f).any p then ((S.map f).find? p).getD .panic else X) = f A0 := by
  have hany : (S.map f).any p = true := by
    rw [List.any_eq_true]
    exact ⟨f A0, List.mem_map.2 ⟨A0, h0, rfl⟩, hp⟩
  rw [if_pos hany, find_sorted p f S hs A0 h0 hp hlt]
  rfl

/-- the naive maximum over a strictly increasing list of offsets is the result at the first
offset whose result is not `ok` -/
theorem naiveMax_first (f : Nat → Res) (S : List Nat) (hs : S.Pairwise (· < ·))
    (A0 : Nat) (h0 : A0 ∈ S) (hbad : ¬ ∃ v, f A0 = .ok v)
    (hlt : ∀ A ∈ S, A < A0 → ∃ v, f A = .ok v) :
    naiveMax (S.map f) = f A0 := by
  unfold naiveMax
  apply pick_first _ _ f S hs A0 h0
  · cases h : f A0 with
    | ok v => exact absurd ⟨v, h⟩ hbad
    | div o l => rfl
    | panic => rfl
  · intro A hA hlt'
    obtain ⟨v, hv⟩ := hlt A hA hlt'
    rw [hv]

theorem maxList_pruned0 (g : Nat → Nat) (L : Nat) (S : List Nat) (hS : ∀ A ∈ S, A < L)
    (hdom : ∀ A, A < L → g A = 0 ∨ ∃ A' ∈ S, g A ≤ g A') :
    maxList (S.map g) = maxList ((List.range L).map g) := by
  apply Nat.le_antisymm
  · apply maxList_le_of_forall
    intro x hx
    rcases List.mem_map.1 hx with ⟨A, hA, rfl⟩
    apply mem_le_maxList
    exact List.mem_map.2 ⟨A, List.mem_range.2 (hS A hA), rfl⟩
  · apply maxList_le_of_forall
    intro x hx
    rcases List.mem_map.1 hx with ⟨A, hA, rfl⟩
    rcases hdom A (List.mem_range.1 hA) with h0 | ⟨A', hA', hle⟩
    · rw [h0]; exact Nat.zero_le _
    · exact Nat.le_trans hle (mem_le_maxList _ _ (List.mem_map.2 ⟨A', hA', rfl⟩))

/-- pruning lemma for per-offset results whose divergence errors carry the offset: the
pruned space is strictly increasing, and every offset is `ok 0` or dominated by a pruned
offset at or below it -/
theorem naiveMax_pruned_first (f : Nat → Res) (L : Nat) (S : List Nat) (hsorted : S.Pairwise (· < ·))
    (hS : ∀ A ∈ S, A < L)
    (hres : ∀ A, A < L → (∃ v, f A = .ok v) ∨ (∃ o l, f A = .div o l))
    (hdom : ∀ A, A < L → f A = .ok 0 ∨ ∃ A' ∈ S, A' ≤ A ∧ RLe (f A) (f A')) :
    naiveMax (S.map f) = naiveMax ((List.range L).map f) := by
  by_cases hex : ∃ A, A < L ∧ ¬ ∃ v, f A = .ok v
  · obtain ⟨A1, hA1⟩ := hex
    obtain ⟨A0, ⟨hA0L, hA0bad⟩, hleast⟩ := exists_least (fun A => A < L ∧ ¬ ∃ v, f A = .ok v) A1 hA1
    have hmem : A0 ∈ S := by
      rcases hdom A0 hA0L with h0 | ⟨A', hA', hle, hr⟩
      · exact absurd ⟨0, h0⟩ hA0bad
      · have hbad' : ¬ ∃ v, f A' = .ok v := by
          rintro ⟨v, hv⟩
          rcases hres A0 hA0L with ⟨v0, hv0⟩ | ⟨o, l, hd⟩
          · exact hA0bad ⟨v0, hv0⟩
          · rw [hd, hv] at hr; exact hr
        have : ¬ A' < A0 := fun hlt => hleast A' hlt ⟨hS A' hA', hbad'⟩
        have e : A' = A0 := by omega
        rw [← e]; exact hA'
    have hok : ∀ A, A < A0 → ∃ v, f A = .ok v := by
      intro A hA
      apply Classical.byContradiction
      intro hn
      exact hleast A hA ⟨by omega, hn⟩
    rw [naiveMax_first f S hsorted A0 hmem hA0bad (fun A _ hA => hok A hA)]
    rw [naiveMax_first f (List.range L) List.pairwise_lt_range A0 (List.mem_range.2 hA0L) hA0bad
      (fun A _ hA => hok A hA)]
  · have hok : ∀ A, A < L → ∃ v, f A = .ok v := by
      intro A hA
      apply Classical.byContradiction
      intro hn
      exact hex ⟨A, hA, hn⟩
    let g : Nat → Nat := fun A => match f A with | .ok v => v | _ => 0
    have hfg : ∀ A, A < L → f A = .ok (g A) := by
      intro A hA
      obtain ⟨v, hv⟩ := hok A hA
      show f A = .ok (match f A with | .ok v => v | _ => 0)
      rw [hv]
    have e1 : S.map f = S.map fun A => Res.ok (g A) :=
      List.map_congr_left (fun a ha => hfg a (hS a ha))
    have e2 : (List.range L).map f = (List.range L).map fun A => Res.ok (g A) :=
      List.map_congr_left (fun a ha => hfg a (List.mem_range.1 ha))
    rw [e1, e2, naiveMax_ok, naiveMax_ok]
    congr 1
    apply maxList_pruned0 g L S hS
    intro A hA
    rcases hdom A hA with h0 | ⟨A', hA', _, hle⟩
    · left
      have := hfg A hA
      rw [h0] at this
      injection this with this
      exact this.symm
    · right
      rw [hfg A hA, hfg A' (hS A' hA')] at hle
      exact ⟨A', hA', hle⟩

theorem exists_greatest_inc (N : Nat → Nat) (hm : MonoN N) (h0 : N 0 = 0) (A : Nat)
    (hpos : 0 < N (A + 1)) : ∃ A', A' ≤ A ∧ N A' < N (A' + 1) ∧ N (A + 1) = N (A' + 1) := by
  induction A with
  | zero => exact ⟨0, Nat.le_refl _, by omega, rfl⟩
  | succ A ih =>
    by_cases hinc : N (A + 1) < N (A + 1 + 1)
    · exact ⟨A + 1, Nat.le_refl _, hinc, rfl⟩
    · have hle := hm (A + 1) (A + 1 + 1) (by omega)
      have e : N (A + 1 + 1) = N (A + 1) := by omega
      obtain ⟨A', h1, h2, h3⟩ := ih (by omega)
      exact ⟨A', by omega, h2, by rw [e, h3]⟩

theorem sbf_mono (s : Supply) (hs : s.WF) : Mono s.sbf := lipschitz_mono (Supply.sbf_lipschitz s hs)

/-- the `distance_to` guard holds at every offset up to the busy-window bound whose
right-hand side dominates the busy-window right-hand side just below the offset -/
theorem guard_of_bw (s : Supply) (hs : s.WF) (bwRhs w : Nat → Nat) (limit maxBw A : Nat)
    (hres : naiveSolveSup s.sbf 0 bwRhs limit = .ok maxBw) (hA : A ≤ maxBw)
    (hdom : ∀ x, 1 ≤ x → bwRhs (max (A - 1) 1) ≤ w x) : InBusyWindow s.stClosed w A := by
  intro x hx
  rcases Nat.eq_zero_or_pos A with h0 | hpos
  · omega
  · rw [nss_ok_iff] at hres
    have hnot := hres.2.2 (A - 1) (by omega)
    rw [Nat.zero_add] at hnot
    apply Classical.byContradiction
    intro hlt
    have h1 : s.stClosed (w x) ≤ A - 1 := by omega
    have h2 := (Supply.galois s hs _ _).1 h1
    exact hnot (Nat.le_trans (hdom x hx) h2)

end RosNaiveLemmas

/-- C07, event source: equal to naive evaluation over EVERY offset `A ≤ max_bw` -/
theorem eventSource_eq_naive (s : Supply) (hs : s.WF) (demand : RB) (hwf : demand.ArrWF)
    (hex : demand.Exact) (limit : Nat) (hl : 1 ≤ limit) :
    rosEventSource s demand limit = naiveEventSource s demand limit := by
  have hmono := RB.need_mono demand hwf hex
  unfold rosEventSource
  rw [rosBound_eq_on_steps s hs demand hwf hex _ _ limit hl (fun a b h => hmono a b h)
    (fun A a b _ => Nat.le_refl _)]
  · unfold naiveRosBoundOn naiveEventSource naiveRosBound
    rcases nss_cases s.sbf 0 (fun d => demand.need d) limit with ⟨maxBw, h⟩ | h
    · rw [h]
      simp only []
      apply naiveMax_pruned_first _ (maxBw + 1) _ (rosOffsets_sorted demand hwf hex maxBw)
      · intro A hA
        have := (mem_rosOffsets demand hwf hex maxBw A).1 hA
        omega
      · intro A _
        rcases nss_cases s.sbf A (fun _ => demand.need (A + 1)) limit with ⟨r, h⟩ | h
        · exact Or.inl ⟨r, h⟩
        · exact Or.inr ⟨_, _, h⟩
      · intro A hA
        rcases Nat.eq_zero_or_pos (demand.need (A + 1)) with hz | hpos
        · left
          rw [nss_ok_iff]
          refine ⟨Nat.zero_le _, ?_, fun r' hr' => absurd hr' (Nat.not_lt_zero _)⟩
          show demand.need (A + 1) ≤ _
          omega
        · right
          obtain ⟨A', h1, h2, h3⟩ := exists_greatest_inc demand.need hmono (RB.need_zero demand) A hpos
          refine ⟨A', (mem_rosOffsets demand hwf hex maxBw A').2 ⟨by omega, h2⟩, h1, ?_⟩
          apply nss_le
          intro r hr
          show demand.need (A + 1) ≤ _
          have hr' : demand.need (A' + 1) ≤ s.sbf (A' + r) := hr
          rw [h3]
          exact Nat.le_trans hr' (sbf_mono s hs _ _ (by omega))
    · rw [h]
  · intro maxBw hbw A hA
    have hm := (mem_rosOffsets demand hwf hex maxBw A).1 hA
    apply guard_of_bw s hs (fun d => demand.need d) _ limit maxBw A hbw hm.1
    intro x _
    exact hmono _ _ (by omega)

namespace RosNaiveLemmas
open PruneCoreLemmas

theorem scalar_rb_side (a : Arr) (C : Nat) (hwf : a.WF) (hex : a.Exact) (hC : 1 ≤ C) :
    (RB.rbf a (.scalar C)).ArrWF ∧ (RB.rbf a (.scalar C)).Exact := by
  refine ⟨?_, ?_⟩
  · simp only [RB.ArrWF]; exact hwf
  · simp only [RB.Exact]; exact ⟨hex, Cost.scalar_strictPos C hC⟩

theorem scalar_leastWcet (a : Arr) (C : Nat) (hwf : a.WF) (hpos : 0 < a.N 1) (d : Nat)
    (hd : 1 ≤ d) : (RB.rbf a (.scalar C)).leastWcet d = C := by
  have := Arr.N_mono a hwf 1 d hd
  simp only [RB.leastWcet, Cost.least]
  rw [if_pos (by omega)]

theorem iv_ge (own : RB) (A r : Nat) : A + 1 ≤ interferenceInterval own A r := by
  unfold interferenceInterval
  simp only []
  split <;> omega

theorem iv_zero (own : RB) (A : Nat) : interferenceInterval own A 0 = A + 1 := by
  unfold interferenceInterval
  simp

theorem iv_scalar (a : Arr) (C : Nat) (hwf : a.WF) (hpos : 0 < a.N 1) (A r : Nat) (hr : 1 ≤ r) :
    interferenceInterval (.rbf a (.scalar C)) A r = if r > C then A + r - C + 1 else A + 1 := by
  unfold interferenceInterval
  simp only []
  rw [scalar_leastWcet a C hwf hpos (A + r) (by omega)]

/-- for a scalar WCET the interference interval is monotone in the response time -/
theorem iv_mono (a : Arr) (C : Nat) (hwf : a.WF) (hpos : 0 < a.N 1) (A : Nat) :
    Mono (interferenceInterval (.rbf a (.scalar C)) A) := by
  intro r r' h
  rcases Nat.eq_zero_or_pos r with h0 | hp
  · subst h0; rw [iv_zero]; exact iv_ge _ _ _
  · rw [iv_scalar a C hwf hpos A r hp, iv_scalar a C hwf hpos A r' (by omega)]
    split <;> split <;> omega

end RosNaiveLemmas

/-- C07 (partial), timer / polling point: for a callback with scalar WCET, equal to naive
evaluation over the step offsets of the callback's own demand (all supplies, limits ≥ 1) -/
theorem timer_eq_naive_on_steps (s : Supply) (hs : s.WF) (a : Arr) (C : Nat) (interf : RB)
    (hwf : a.WF) (hex : a.Exact) (hC : 1 ≤ C) (hpos : 0 < a.N 1)
    (hwfi : interf.ArrWF) (hexi : interf.Exact) (B limit : Nat) (hl : 1 ≤ limit) :
    rosTimer s (.rbf a (.scalar C)) interf B limit =
      naiveRosBoundOn s (fun d => (RB.rbf a (.scalar C)).need d + B + interf.need d)
        (fun A r => (RB.rbf a (.scalar C)).need (A + 1) +
          interf.need (interferenceInterval (.rbf a (.scalar C)) A r) + B) limit
        (rosOffsets (.rbf a (.scalar C))) := by
  obtain ⟨h1, h2⟩ := scalar_rb_side a C hwf hex hC
  unfold rosTimer
  apply rosBound_eq_on_steps s hs _ h1 h2 _ _ limit hl
  · intro x y hxy
    have := RB.need_mono _ h1 h2 x y hxy
    have := RB.need_mono interf hwfi hexi x y hxy
    show _ + B + _ ≤ _ + B + _
    omega
  · intro A x y hxy
    have := RB.need_mono interf hwfi hexi _ _ (iv_mono a C hwf hpos A x y hxy)
    show _ + _ + B ≤ _ + _ + B
    omega
  · intro maxBw hbw A hA
    have hm := (mem_rosOffsets _ h1 h2 maxBw A).1 hA
    apply guard_of_bw s hs _ _ limit maxBw A hbw hm.1
    intro x _
    have := RB.need_mono _ h1 h2 (max (A - 1) 1) (A + 1) (by omega)
    have := RB.need_mono interf hwfi hexi (max (A - 1) 1)
      (interferenceInterval (RB.rbf a (.scalar C)) A x)
      (by have := iv_ge (RB.rbf a (.scalar C)) A x; omega)
    show _ + B + _ ≤ _ + _ + B
    omega

theorem pollingPoint_eq_naive_on_steps (s : Supply) (hs : s.WF) (a : Arr) (C : Nat) (interf : RB)
    (hwf : a.WF) (hex : a.Exact) (hC : 1 ≤ C) (hpos : 0 < a.N 1)
    (hwfi : interf.ArrWF) (hexi : interf.Exact) (limit : Nat) (hl : 1 ≤ limit) :
    rosPollingPoint s (.rbf a (.scalar C)) interf limit =
      naiveRosBoundOn s (fun d => (RB.rbf a (.scalar C)).need d + interf.need d)
        (fun A r => (RB.rbf a (.scalar C)).need (A + 1) +
          interf.need (interferenceInterval (.rbf a (.scalar C)) A r)) limit
        (rosOffsets (.rbf a (.scalar C))) := by
  obtain ⟨h1, h2⟩ := scalar_rb_side a C hwf hex hC
  unfold rosPollingPoint
  apply rosBound_eq_on_steps s hs _ h1 h2 _ _ limit hl
  · intro x y hxy
    have := RB.need_mono _ h1 h2 x y hxy
    have := RB.need_mono interf hwfi hexi x y hxy
    show _ + _ ≤ _ + _
    omega
  · intro A x y hxy
    have := RB.need_mono interf hwfi hexi _ _ (iv_mono a C hwf hpos A x y hxy)
    show _ + _ ≤ _ + _
    omega
  · intro maxBw hbw A hA
    have hm := (mem_rosOffsets _ h1 h2 maxBw A).1 hA
    apply guard_of_bw s hs _ _ limit maxBw A hbw hm.1
    intro x _
    have := RB.need_mono _ h1 h2 (max (A - 1) 1) (A + 1) (by omega)
    have := RB.need_mono interf hwfi hexi (max (A - 1) 1)
      (interferenceInterval (RB.rbf a (.scalar C)) A x)
      (by have := iv_ge (RB.rbf a (.scalar C)) A x; omega)
    show _ + _ ≤ _ + _
    omega

/-- finding K2: for non-concave interference the pruning of the timer analysis to the
steps of the own demand is lossy against all-offset evaluation -/
theorem timer_pruning_lossy :
    rosTimer .dedicated (.rbf (.sporadic 35 10) (.scalar 3)) (.rbf (.curve [8, 9, 11, 17]) (.scalar 3)) 3 200 = .ok 9 ∧
    naiveTimer .dedicated (.rbf (.sporadic 35 10) (.scalar 3)) (.rbf (.curve [8, 9, 11, 17]) (.scalar 3)) 3 200 = .ok 10 := by
  decide

namespace RosNaiveLemmas
open PruneCoreLemmas

theorem sumList_map_le (l : List Nat) (f g : Nat → Nat) (h : ∀ i ∈ l, f i ≤ g i) :
    sumList (l.map f) ≤ sumList (l.map g) := by
  induction l with
  | nil => exact Nat.le_refl _
  | cons a as ih =>
    have h1 := h a (by simp)
    have h2 := ih (fun i hi => h i (by simp [hi]))
    simp only [List.map_cons, sumList]
    omega

theorem cappedJobs_mono (k k' : CbKind) (cap a b : Nat) (h : a ≤ b) :
    cappedJobs k k' a cap ≤ cappedJobs k k' b cap := by
  cases k with
  | timer => exact h
  | eventSource => exact h
  | polledUnknown => simp only [cappedJobs]; omega
  | polled p =>
    cases k' <;> simp only [cappedJobs] <;> omega

theorem getD_mem (wl : List Callback) (i : Nat) (h : i < wl.length) : wl.getD i default ∈ wl := by
  rw [List.getD_eq_getElem?_getD, List.getElem?_eq_getElem h]
  exact List.getElem_mem h

theorem directRbf_mono (cb : Callback) (hwf : cb.arr.WF) (hm : MonoN cb.cost.ofJobs)
    (k : CbKind) (npp x y : Nat) (h : x ≤ y) : cb.directRbf k x npp ≤ cb.directRbf k y npp := by
  unfold Callback.directRbf
  exact hm _ _ (cappedJobs_mono _ _ _ _ _ (Arr.N_mono cb.arr hwf _ _ (by omega)))

theorem rrRhs_mono (wl : List Callback) (e npp : Nat)
    (hwf : ∀ cb ∈ wl, cb.arr.WF ∧ MonoN cb.cost.ofJobs) (he : e < wl.length) :
    Mono (rrRhs wl e npp) := by
  intro x y hxy
  have heoc := hwf _ (getD_mem wl e he)
  unfold rrRhs
  simp only []
  have h1 : sumList ((List.range wl.length).map fun i =>
        if i = e then 0 else (wl.getD i default).directRbf (wl.getD e default).kind x npp) ≤
      sumList ((List.range wl.length).map fun i =>
        if i = e then 0 else (wl.getD i default).directRbf (wl.getD e default).kind y npp) := by
    apply sumList_map_le
    intro i hi
    have hcb := hwf _ (getD_mem wl i (List.mem_range.1 hi))
    split
    · exact Nat.le_refl _
    · exact directRbf_mono _ hcb.1 hcb.2 _ _ _ _ hxy
  have h2 : (wl.getD e default).cost.ofJobs ((wl.getD e default).rrSelfInstances x) ≤
      (wl.getD e default).cost.ofJobs ((wl.getD e default).rrSelfInstances y) := by
    apply heoc.2
    unfold Callback.rrSelfInstances
    have := Arr.N_mono _ heoc.1 (x + (wl.getD e default).rtb - 1) (y + (wl.getD e default).rtb - 1)
      (by omega)
    omega
  omega

/-- the tail shared by the rr and bw analyses: fixed point, marginal cost, `service_time` -/
theorem tail_eq (s : Supply) (hs : s.WF) (cost : Nat → Nat) (hm : MonoN cost) (rhs : Nat → Nat)
    (hrhs : Mono rhs) (limit : Nat) (hl : 1 ≤ limit) (n : Nat → Nat) (post : Nat → Nat) :
    (match search s limit rhs with
      | .ok sStar =>
        if cost (n sStar + 1) < cost (n sStar) then Res.panic else
        match s.st? ((s.sbf sStar - 1) + (cost (n sStar + 1) - cost (n sStar))) with
        | some r => .ok (post r)
        | none => .panic
      | e => e) =
    (match naiveSolveSup s.sbf 0 rhs limit with
      | .ok sStar =>
        .ok (post (naiveSt s ((s.sbf sStar - 1) + (cost (n sStar + 1) - cost (n sStar)))))
      | e => e) := by
  rw [search_eq_nss s hs rhs hrhs limit hl]
  rcases nss_cases s.sbf 0 rhs limit with ⟨r, h⟩ | h
  · rw [h]
    simp only []
    have := hm (n r) (n r + 1) (by omega)
    rw [if_neg (by omega), st_eq_naive s hs]
  · rw [h]

end RosNaiveLemmas

/-- C07, rr subchain analysis = linear-scan evaluation (all callback kinds, singleton and
multi-callback subchains); `hmono`: the end-of-chain cost model is monotone -/
theorem rr_eq_naive (s : Supply) (hs : s.WF) (wl : List Callback) (sub : List Nat) (limit : Nat)
    (hl : 1 ≤ limit) (hsub : ∀ i ∈ sub, i < wl.length) (hwf : ∀ cb ∈ wl, cb.arr.WF ∧ MonoN cb.cost.ofJobs) :
    rrSubchain s wl sub limit = naiveRr s wl sub limit := by
  unfold rrSubchain naiveRr
  cases hlast : sub.getLast? with
  | none => rfl
  | some e =>
    have he := hsub e (List.mem_of_getLast? hlast)
    have hall : sub.all (fun x => decide (x < wl.length)) = true := by
      rw [List.all_eq_true]
      intro i hi
      exact decide_eq_true (hsub i hi)
    simp only []
    rw [if_neg (not_not_intro hall)]
    exact tail_eq s hs (wl.getD e default).cost.ofJobs (hwf _ (getD_mem wl e he)).2
      (rrRhs wl e (sumPPBound wl sub)) (rrRhs_mono wl e _ hwf he) limit hl
      (fun sStar => (wl.getD e default).rrSelfInstances sStar) (fun r => r)

namespace RosNaiveLemmas
open PruneCoreLemmas

/-- two strictly increasing lists with the same members are equal -/
theorem sorted_ext (l1 l2 : List Nat) (h1 : l1.Pairwise (· < ·)) (h2 : l2.Pairwise (· < ·))
    (h : ∀ x, x ∈ l1 ↔ x ∈ l2) : l1 = l2 := by
  induction l1 generalizing l2 with
  | nil =>
    cases l2 with
    | nil => rfl
    | cons b bs => exact absurd ((h b).2 (by simp)) (by simp)
  | cons a as ih =>
    cases l2 with
    | nil => exact absurd ((h a).1 (by simp)) (by simp)
    | cons b bs =>
      rw [List.pairwise_cons] at h1 h2
      have hab : a = b := by
        have ha := (h a).1 (by simp)
        have hb := (h b).2 (by simp)
        rw [List.mem_cons] at ha hb
        rcases ha with ha | ha
        · exact ha
        · rcases hb with hb | hb
          · exact hb.symm
          · have := h1.1 b hb
            have := h2.1 a ha
            omega
      subst hab
      congr 1
      apply ih _ h1.2 h2.2
      intro x
      constructor
      · intro hx
        have := (h x).1 (by simp [hx])
        rw [List.mem_cons] at this
        rcases this with e | hm
        · have := h1.1 x hx; omega
        · exact hm
      · intro hx
        have := (h x).2 (by simp [hx])
        rw [List.mem_cons] at this
        rcases this with e | hm
        · have := h2.1 x hx; omega
        · exact hm

theorem exists_lt_cons {α : Type} (a : α) (l : List α) (Q : Nat → Prop) :
    (∃ j, j < (a :: l).length ∧ Q j) ↔ (Q 0 ∨ ∃ j, j < l.length ∧ Q (j + 1)) := by
  constructor
  · rintro ⟨j, hj, hq⟩
    cases j with
    | zero => exact Or.inl hq
    | succ j => exact Or.inr ⟨j, by simpa using hj, hq⟩
  · rintro (hq | ⟨j, hj, hq⟩)
    · exact ⟨0, by simp, hq⟩
    · exact ⟨j + 1, by simpa using hj, hq⟩

/-- what callback number `idx` contributes to the relevant steps of the bw analysis -/
def StepP (e H idx : Nat) (cb : Callback) (x : Nat) : Prop :=
  if idx = e then x ∈ (cb.arr.stepsUpTo (H + 1)).map (· - 1)
  else cb.kind.isPP = true ∧ x ∈ cb.arr.stepsUpTo H

theorem mem_go (e H : Nat) (l : List Callback) (i x : Nat) :
    x ∈ bwAllSteps.go e H l i ↔ ∃ j, j < l.length ∧ StepP e H (i + j) (l.getD j default) x := by
  induction l generalizing i with
  | nil => simp [bwAllSteps.go]
  | cons cb rest ih =>
    rw [exists_lt_cons]
    have e1 : ∀ j, i + 1 + j = i + (j + 1) := by intro j; omega
    have ih' : x ∈ bwAllSteps.go e H rest (i + 1) ↔
        ∃ j, j < rest.length ∧ StepP e H (i + (j + 1)) (rest.getD j default) x := by
      rw [ih (i + 1)]
      constructor
      · rintro ⟨j, hj, hp⟩
        exact ⟨j, hj, by rw [e1 j] at hp; exact hp⟩
      · rintro ⟨j, hj, hp⟩
        exact ⟨j, hj, by rw [e1 j]; exact hp⟩
    simp only [List.getD_cons_zero, List.getD_cons_succ, Nat.add_zero]
    rw [← ih']
    have hgo : bwAllSteps.go e H (cb :: rest) i =
        if i = e then merge ((cb.arr.stepsUpTo (H + 1)).map (· - 1)) (bwAllSteps.go e H rest (i + 1))
        else if cb.kind.isPP then merge (cb.arr.stepsUpTo H) (bwAllSteps.go e H rest (i + 1))
        else bwAllSteps.go e H rest (i + 1) := rfl
    rw [hgo]
    unfold StepP
    by_cases hie : i = e
    · rw [if_pos hie, if_pos hie, mem_merge]
    · rw [if_neg hie, if_neg hie]
      by_cases hpp : cb.kind.isPP = true
      · rw [if_pos hpp, mem_merge]
        simp only [hpp, true_and]
      · rw [if_neg hpp]
        simp only [hpp, Bool.false_eq_true, false_and, false_or]

theorem go_sorted (e H : Nat) (l : List Callback) (hwf : ∀ cb ∈ l, cb.arr.WF ∧ cb.arr.Exact)
    (i : Nat) : (bwAllSteps.go e H l i).Pairwise (· ≤ ·) := by
  induction l generalizing i with
  | nil => simp [bwAllSteps.go]
  | cons cb rest ih =>
    have hcb := hwf cb (by simp)
    have hrest := ih (fun c hc => hwf c (by simp [hc])) (i + 1)
    unfold bwAllSteps.go
    split
    · apply merge_sorted _ _ _ hrest
      rw [List.pairwise_map]
      exact (Arr.steps_spec cb.arr hcb.1 hcb.2 (H + 1)).1.imp (fun h => by omega)
    · split
      · exact merge_sorted _ _ (strict_imp_sorted _ (Arr.steps_spec cb.arr hcb.1 hcb.2 H).1) hrest
      · exact hrest

theorem stepP_iff (e H j : Nat) (cb : Callback) (hwf : cb.arr.WF) (hex : cb.arr.Exact) (x : Nat) :
    StepP e H j cb x ↔
      (x < H + 1 ∧ (if j = e then cb.arr.N x != cb.arr.N (x + 1)
        else cb.kind.isPP && decide (x > 0) && (cb.arr.N (x - 1) != cb.arr.N x)) = true) := by
  have hm := Arr.N_mono cb.arr hwf
  unfold StepP
  by_cases hje : j = e
  · rw [if_pos hje, if_pos hje, List.mem_map, bne_iff_ne]
    have hs := Arr.steps_spec cb.arr hwf hex (H + 1)
    constructor
    · rintro ⟨δ, hδ, rfl⟩
      have h := (hs.2 δ).1 hδ
      have e1 : δ - 1 + 1 = δ := by omega
      rw [e1]
      exact ⟨by omega, by omega⟩
    · rintro ⟨hx, hne⟩
      have := hm x (x + 1) (by omega)
      refine ⟨x + 1, (hs.2 (x + 1)).2 ⟨by omega, by omega, ?_⟩, by omega⟩
      rw [Nat.add_sub_cancel]
      omega
  · rw [if_neg hje, if_neg hje]
    have hs := Arr.steps_spec cb.arr hwf hex H
    rw [hs.2 x]
    simp only [Bool.and_eq_true, decide_eq_true_eq, bne_iff_ne]
    have := hm (x - 1) x (by omega)
    constructor
    · rintro ⟨h1, h2, h3, h4⟩
      exact ⟨by omega, ⟨h1, by omega⟩, by omega⟩
    · rintro ⟨h1, ⟨h2, h3⟩, h4⟩
      exact ⟨h2, by omega, by omega, by omega⟩

end RosNaiveLemmas

/-- the relevant steps of the bw analysis are exactly the brute-force ones (so the
debug-only cross-check cannot fire) -/
theorem bwAllSteps_eq_brute (wl : List Callback) (e H : Nat) (he : e < wl.length)
    (hwf : ∀ cb ∈ wl, cb.arr.WF ∧ cb.arr.Exact) :
    bwAllSteps wl e H = bwBruteSteps wl e H := by
  have _ := he
  apply sorted_ext
  · exact dedup_strict _ (go_sorted e H wl (fun cb hcb => hwf cb hcb) 0)
  · exact List.Pairwise.filter _ List.pairwise_lt_range
  · intro x
    unfold bwAllSteps bwBruteSteps
    rw [mem_dedup, mem_go, List.mem_filter, List.mem_range, List.any_eq_true]
    simp only [Nat.zero_add]
    constructor
    · rintro ⟨j, hj, hp⟩
      have hcb := hwf _ (getD_mem wl j hj)
      have := (stepP_iff e H j _ hcb.1 hcb.2 x).1 hp
      exact ⟨this.1, j, List.mem_range.2 hj, this.2⟩
    · rintro ⟨hx, j, hj, hc⟩
      have hj' := List.mem_range.1 hj
      have hcb := hwf _ (getD_mem wl j hj')
      exact ⟨j, hj', (stepP_iff e H j _ hcb.1 hcb.2 x).2 ⟨hx, hc⟩⟩

namespace RosNaiveLemmas
open PruneCoreLemmas

/-! ### bw: monotonicity of the right-hand sides -/

theorem cappedJobs_mono2 (k k' : CbKind) (a b c d : Nat) (h : a ≤ b) (h' : c ≤ d) :
    cappedJobs k k' a c ≤ cappedJobs k k' b d := by
  cases k with
  | timer => exact h
  | eventSource => exact h
  | polledUnknown => simp only [cappedJobs]; omega
  | polled p =>
    cases k' <;> simp only [cappedJobs] <;> omega

theorem bwRbf_mono (cb : Callback) (hwf : cb.arr.WF) (hm : MonoN cb.cost.ofJobs)
    (k : CbKind) (npp x y a b : Nat) (h : x ≤ y) (h' : a ≤ b) :
    cb.bwRbf k x a npp ≤ cb.bwRbf k y b npp := by
  unfold Callback.bwRbf
  have h1 := Arr.N_mono cb.arr hwf x y h
  have h2 := Arr.N_mono cb.arr hwf a b h'
  exact hm _ _ (cappedJobs_mono2 _ _ _ _ _ _ h1 (by omega))

theorem bwInterference_mono (wl : List Callback) (e : Nat) (k : CbKind) (npp : Nat)
    (hwf : ∀ cb ∈ wl, cb.arr.WF ∧ MonoN cb.cost.ofJobs) (x y a b : Nat) (h : x ≤ y) (h' : a ≤ b) :
    bwInterference wl e k npp x a ≤ bwInterference wl e k npp y b := by
  unfold bwInterference
  apply sumList_map_le
  intro i hi
  have hcb := hwf _ (getD_mem wl i (List.mem_range.1 hi))
  split
  · exact Nat.le_refl _
  · exact bwRbf_mono _ hcb.1 hcb.2 _ _ _ _ _ _ h h'

theorem bwRbf_nonpp (cb : Callback) (h : ¬ cb.kind.isPP = true) (k : CbKind) (x a npp : Nat) :
    cb.bwRbf k x a npp = cb.cost.ofJobs (cb.arr.N x) := by
  unfold Callback.bwRbf
  cases hk : cb.kind with
  | timer => rfl
  | eventSource => rfl
  | polledUnknown => rw [hk] at h; exact absurd rfl h
  | polled p => rw [hk] at h; exact absurd rfl h

/-- the interference depends on the activation offset only through the arrivals of the
polled callbacks -/
theorem bwInterference_congr (wl : List Callback) (e : Nat) (k : CbKind) (npp x a a' : Nat)
    (h : ∀ j, j < wl.length → j ≠ e → (wl.getD j default).kind.isPP = true →
      (wl.getD j default).arr.N a = (wl.getD j default).arr.N a') :
    bwInterference wl e k npp x a = bwInterference wl e k npp x a' := by
  unfold bwInterference
  congr 1
  apply List.map_congr_left
  intro j hj
  by_cases hje : j = e
  · rw [if_pos hje, if_pos hje]
  · rw [if_neg hje, if_neg hje]
    by_cases hpp : (wl.getD j default).kind.isPP = true
    · unfold Callback.bwRbf
      rw [h j (List.mem_range.1 hj) hje hpp]
    · rw [bwRbf_nonpp _ hpp, bwRbf_nonpp _ hpp]

/-! ### bw: the relevant steps -/

/-- `x` is a relevant activation offset: the end of the chain releases something right
after `x`, or a polled callback releases something at `x` -/
def Rel (wl : List Callback) (e x : Nat) : Prop :=
  ∃ j, j < wl.length ∧
    (if j = e then (wl.getD j default).arr.N x < (wl.getD j default).arr.N (x + 1)
     else (wl.getD j default).kind.isPP = true ∧ 1 ≤ x ∧
       (wl.getD j default).arr.N (x - 1) < (wl.getD j default).arr.N x)

theorem stepP_iff' (e H j : Nat) (cb : Callback) (hwf : cb.arr.WF) (hex : cb.arr.Exact) (x : Nat) :
    StepP e H j cb x ↔
      (x ≤ H ∧ (if j = e then cb.arr.N x < cb.arr.N (x + 1)
        else cb.kind.isPP = true ∧ 1 ≤ x ∧ cb.arr.N (x - 1) < cb.arr.N x)) := by
  unfold StepP
  by_cases hje : j = e
  · rw [if_pos hje, if_pos hje, List.mem_map]
    have hs := Arr.steps_spec cb.arr hwf hex (H + 1)
    constructor
    · rintro ⟨δ, hδ, rfl⟩
      have h := (hs.2 δ).1 hδ
      have e1 : δ - 1 + 1 = δ := by omega
      rw [e1]
      exact ⟨by omega, h.2.2⟩
    · rintro ⟨hx, hlt⟩
      refine ⟨x + 1, (hs.2 (x + 1)).2 ⟨by omega, by omega, ?_⟩, by omega⟩
      rw [Nat.add_sub_cancel]
      exact hlt
  · rw [if_neg hje, if_neg hje]
    have hs := Arr.steps_spec cb.arr hwf hex H
    rw [hs.2 x]
    constructor
    · rintro ⟨h1, h2, h3, h4⟩
      exact ⟨h3, h1, h2, h4⟩
    · rintro ⟨h1, h2, h3, h4⟩
      exact ⟨h2, h3, h1, h4⟩

theorem mem_bwAllSteps (wl : List Callback) (e H : Nat)
    (hwf : ∀ cb ∈ wl, cb.arr.WF ∧ cb.arr.Exact) (x : Nat) :
    x ∈ bwAllSteps wl e H ↔ (x ≤ H ∧ Rel wl e x) := by
  unfold bwAllSteps Rel
  rw [mem_dedup, mem_go]
  simp only [Nat.zero_add]
  constructor
  · rintro ⟨j, hj, hp⟩
    have hcb := hwf _ (getD_mem wl j hj)
    have := (stepP_iff' e H j _ hcb.1 hcb.2 x).1 hp
    exact ⟨this.1, j, hj, this.2⟩
  · rintro ⟨hx, j, hj, hc⟩
    have hcb := hwf _ (getD_mem wl j hj)
    exact ⟨j, hj, (stepP_iff' e H j _ hcb.1 hcb.2 x).2 ⟨hx, hc⟩⟩

theorem bwAllSteps_sorted (wl : List Callback) (e H : Nat)
    (hwf : ∀ cb ∈ wl, cb.arr.WF ∧ cb.arr.Exact) : (bwAllSteps wl e H).Pairwise (· < ·) :=
  dedup_strict _ (go_sorted e H wl hwf 0)

theorem bwCoverHorizon_ge (wl : List Callback) (e maxOff fuel H : Nat) :
    H ≤ bwCoverHorizon wl e maxOff fuel H := by
  induction fuel generalizing H with
  | zero => exact Nat.le_refl _
  | succ fuel ih =>
    unfold bwCoverHorizon
    split
    · exact Nat.le_refl _
    · exact Nat.le_trans (by omega) (ih (2 * H + 1))

/-! ### bw: what `take_while` pulls from the step iterator -/

theorem span_loop_eq (p : Nat → Bool) (l acc : List Nat) :
    List.span.loop p l acc = (acc.reverse ++ l.takeWhile p, l.dropWhile p) := by
  induction l generalizing acc with
  | nil => simp [List.span.loop]
  | cons a as ih =>
    unfold List.span.loop
    cases h : p a with
    | true =>
      simp only [ih, List.takeWhile_cons, List.dropWhile_cons, h, if_true, List.reverse_cons,
        List.append_assoc, List.singleton_append]
    | false => simp [h]

theorem pulled_cons (a : Nat) (l : List Nat) (b : Nat) :
    pulled (a :: l) b = if a < b then a :: pulled l b else [a] := by
  unfold pulled List.span
  rw [span_loop_eq, span_loop_eq]
  simp only [List.reverse_nil, List.nil_append, List.takeWhile_cons, List.dropWhile_cons,
    decide_eq_true_eq]
  split
  · rfl
  · simp

theorem pulled_sublist (l : List Nat) (b : Nat) : (pulled l b).Sublist l := by
  induction l with
  | nil => exact List.Sublist.slnil
  | cons a as ih =>
    rw [pulled_cons]
    split
    · exact List.Sublist.cons_cons a ih
    · exact List.Sublist.cons_cons a (List.nil_sublist as)

/-- an element of a strictly increasing list is pulled iff everything before it is below
the bound -/
theorem mem_pulled (l : List Nat) (hl : l.Pairwise (· < ·)) (b x : Nat) :
    x ∈ pulled l b ↔ (x ∈ l ∧ ∀ z, z ∈ l → z < x → z < b) := by
  induction l with
  | nil =>
    have : pulled [] b = [] := rfl
    rw [this]
    simp
  | cons a as ih =>
    rw [List.pairwise_cons] at hl
    rw [pulled_cons]
    by_cases hab : a < b
    · rw [if_pos hab, List.mem_cons, ih hl.2]
      constructor
      · rintro (rfl | ⟨h1, h2⟩)
        · refine ⟨by simp, ?_⟩
          intro z hz hzx
          rcases List.mem_cons.1 hz with rfl | hz
          · exact hab
          · have := hl.1 z hz; omega
        · refine ⟨by simp [h1], ?_⟩
          intro z hz hzx
          rcases List.mem_cons.1 hz with rfl | hz
          · exact hab
          · exact h2 z hz hzx
      · rintro ⟨h1, h2⟩
        rcases List.mem_cons.1 h1 with rfl | h1
        · exact Or.inl rfl
        · exact Or.inr ⟨h1, fun z hz hzx => h2 z (by simp [hz]) hzx⟩
    · rw [if_neg hab, List.mem_singleton]
      constructor
      · rintro rfl
        refine ⟨by simp, ?_⟩
        intro z hz hzx
        rcases List.mem_cons.1 hz with rfl | hz
        · omega
        · have := hl.1 z hz; omega
      · rintro ⟨h1, h2⟩
        rcases List.mem_cons.1 h1 with rfl | h1
        · rfl
        · have := hl.1 x h1
          have := h2 a (by simp) this
          omega

theorem le_getLastD (l : List Nat) (hl : l.Pairwise (· < ·)) (d x : Nat) (hx : x ∈ l) :
    x ≤ l.getLastD d := by
  rw [List.getLastD_eq_getLast?]
  cases h : l.getLast? with
  | none =>
    rw [List.getLast?_eq_none_iff] at h
    subst h
    cases hx
  | some y =>
    obtain ⟨ys, rfl⟩ := List.getLast?_eq_some_iff.1 h
    rw [List.pairwise_append] at hl
    show x ≤ y
    rcases List.mem_append.1 hx with hx | hx
    · have := hl.2.2 x hx y (by simp); omega
    · rw [List.mem_singleton] at hx; omega

theorem getLastD_mem_or (l : List Nat) (d : Nat) : l.getLastD d = d ∨ l.getLastD d ∈ l := by
  rw [List.getLastD_eq_getLast?]
  cases h : l.getLast? with
  | none => exact Or.inl rfl
  | some y => exact Or.inr (List.mem_of_getLast? h)

/-- the debug-only cross-check of the pulled steps against the brute-force enumeration
cannot fire -/
theorem debug_check_eq (wl : List Callback) (e H b : Nat) (he : e < wl.length)
    (hwf : ∀ cb ∈ wl, cb.arr.WF ∧ cb.arr.Exact) (hb : b ≤ H) :
    pulled (bwAllSteps wl e H) b =
      (pulled (bwBruteSteps wl e (max ((pulled (bwAllSteps wl e H) b).getLastD b) b)) b).take
        (pulled (bwAllSteps wl e H) b).length := by
  have hsH := bwAllSteps_sorted wl e H hwf
  have hpH : (pulled (bwAllSteps wl e H) b).Pairwise (· < ·) :=
    List.Pairwise.sublist (pulled_sublist _ _) hsH
  generalize hu : (pulled (bwAllSteps wl e H) b).getLastD b = upTo
  rw [← bwAllSteps_eq_brute wl e _ he hwf]
  have hs' := bwAllSteps_sorted wl e (max upTo b) hwf
  have huH : max upTo b ≤ H := by
    rcases getLastD_mem_or (pulled (bwAllSteps wl e H) b) b with h | h
    · rw [hu] at h; omega
    · rw [hu] at h
      have := ((mem_bwAllSteps wl e H hwf upTo).1 ((pulled_sublist _ _).subset h)).1
      omega
  have heq : pulled (bwAllSteps wl e H) b = pulled (bwAllSteps wl e (max upTo b)) b := by
    apply sorted_ext _ _ hpH (List.Pairwise.sublist (pulled_sublist _ _) hs')
    intro x
    rw [mem_pulled _ hsH, mem_pulled _ hs']
    constructor
    · rintro ⟨h1, h2⟩
      have hx : x ∈ pulled (bwAllSteps wl e H) b := (mem_pulled _ hsH b x).2 ⟨h1, h2⟩
      have hxu := le_getLastD _ hpH b x hx
      rw [hu] at hxu
      have h1' := (mem_bwAllSteps wl e H hwf x).1 h1
      refine ⟨(mem_bwAllSteps wl e _ hwf x).2 ⟨by omega, h1'.2⟩, ?_⟩
      intro z hz hzx
      have hz' := (mem_bwAllSteps wl e _ hwf z).1 hz
      exact h2 z ((mem_bwAllSteps wl e H hwf z).2 ⟨by omega, hz'.2⟩) hzx
    · rintro ⟨h1, h2⟩
      have h1' := (mem_bwAllSteps wl e _ hwf x).1 h1
      refine ⟨(mem_bwAllSteps wl e H hwf x).2 ⟨by omega, h1'.2⟩, ?_⟩
      intro z hz hzx
      have hz' := (mem_bwAllSteps wl e H hwf z).1 hz
      exact h2 z ((mem_bwAllSteps wl e _ hwf z).2 ⟨by omega, hz'.2⟩) hzx
  rw [← heq, List.take_length]

end RosNaiveLemmas

namespace RosNaiveLemmas
open PruneCoreLemmas

/-! ### bw: the per-offset computation -/

/-- the per-activation-offset computation of `bw::rta_subchain` -/
def bwPerModel (s : Supply) (wl : List Callback) (e npp : Nat) (singleton : Prop)
    [Decidable singleton] (limit act : Nat) : Res :=
  let eoc := wl.getD e default
  let n := eoc.bwSelfInstances act
  let si := eoc.cost.ofJobs n
  match search s limit (fun sStar => 1 + bwInterference wl e eoc.kind npp sStar act + si) with
  | .ok sStar =>
    if eoc.cost.ofJobs (n + 1) < eoc.cost.ofJobs n then .panic else
    let omega := eoc.cost.ofJobs (n + 1) - eoc.cost.ofJobs n
    match s.st? ((s.sbf sStar - 1) + omega) with
    | some f => .ok (if singleton then f - act else f)
    | none => .panic
  | e => e

theorem bwPer_eq (s : Supply) (hs : s.WF) (wl : List Callback) (e npp : Nat) (singleton : Prop)
    [Decidable singleton] (limit : Nat) (hl : 1 ≤ limit)
    (hwf : ∀ cb ∈ wl, cb.arr.WF ∧ MonoN cb.cost.ofJobs) (he : e < wl.length) (act : Nat) :
    bwPerModel s wl e npp singleton limit act =
      naiveBwPer s wl e npp (decide singleton) limit act := by
  have heoc := hwf _ (getD_mem wl e he)
  have hrhs : Mono (fun sStar => 1 + bwInterference wl e (wl.getD e default).kind npp sStar act +
      (wl.getD e default).cost.ofJobs ((wl.getD e default).bwSelfInstances act)) := by
    intro x y hxy
    have := bwInterference_mono wl e (wl.getD e default).kind npp hwf x y act act hxy (Nat.le_refl _)
    show 1 + _ + _ ≤ 1 + _ + _
    omega
  unfold bwPerModel naiveBwPer
  refine (tail_eq s hs (wl.getD e default).cost.ofJobs heoc.2 _ hrhs limit hl
    (fun _ => (wl.getD e default).bwSelfInstances act)
    (fun f => if singleton then f - act else f)).trans ?_
  rcases nss_cases s.sbf 0 (fun sStar => 1 + bwInterference wl e (wl.getD e default).kind npp sStar act +
      (wl.getD e default).cost.ofJobs ((wl.getD e default).bwSelfInstances act)) limit with ⟨r, h⟩ | h
  · simp only []
    rw [h]
    by_cases hsg : singleton <;> simp [hsg]
  · simp only []
    rw [h]

theorem naiveBwPer_cases (s : Supply) (wl : List Callback) (e npp : Nat) (sg : Bool)
    (limit act : Nat) :
    (∃ v, naiveBwPer s wl e npp sg limit act = .ok v) ∨
      naiveBwPer s wl e npp sg limit act = .div 0 limit := by
  unfold naiveBwPer
  simp only []
  rcases nss_cases s.sbf 0 (fun sStar => 1 + bwInterference wl e (wl.getD e default).kind npp sStar act +
      (wl.getD e default).cost.ofJobs ((wl.getD e default).bwSelfInstances act)) limit with ⟨r, h⟩ | h
  · rw [h]; exact Or.inl ⟨_, rfl⟩
  · rw [h]; exact Or.inr rfl

/-- between two activation offsets with the same arrivals of the end of chain (one step
later) and of the polled callbacks, the smaller offset dominates -/
theorem bwPer_dom (s : Supply) (wl : List Callback) (e npp : Nat) (sg : Bool) (limit A A' : Nat)
    (hle : A' ≤ A)
    (hself : (wl.getD e default).arr.N (A + 1) = (wl.getD e default).arr.N (A' + 1))
    (hpp : ∀ j, j < wl.length → j ≠ e → (wl.getD j default).kind.isPP = true →
      (wl.getD j default).arr.N A = (wl.getD j default).arr.N A') :
    Res.le (naiveBwPer s wl e npp sg limit A) (naiveBwPer s wl e npp sg limit A') := by
  have hn : (wl.getD e default).bwSelfInstances A = (wl.getD e default).bwSelfInstances A' := by
    unfold Callback.bwSelfInstances
    rw [hself]
  have hf : (fun sStar => 1 + bwInterference wl e (wl.getD e default).kind npp sStar A +
        (wl.getD e default).cost.ofJobs ((wl.getD e default).bwSelfInstances A')) =
      (fun sStar => 1 + bwInterference wl e (wl.getD e default).kind npp sStar A' +
        (wl.getD e default).cost.ofJobs ((wl.getD e default).bwSelfInstances A')) := by
    funext x
    rw [bwInterference_congr wl e _ npp x A A' hpp]
  unfold naiveBwPer
  simp only []
  rw [hn, hf]
  rcases nss_cases s.sbf 0 (fun sStar => 1 + bwInterference wl e (wl.getD e default).kind npp sStar A' +
      (wl.getD e default).cost.ofJobs ((wl.getD e default).bwSelfInstances A')) limit with ⟨r, h⟩ | h
  · rw [h]
    simp only []
    show (if sg = true then _ - A else _) ≤ (if sg = true then _ - A' else _)
    split <;> omega
  · rw [h]
    exact ⟨rfl, rfl⟩

theorem bwRhsMax_mono (wl : List Callback) (e npp : Nat)
    (hwf : ∀ cb ∈ wl, cb.arr.WF ∧ MonoN cb.cost.ofJobs) (he : e < wl.length) :
    Mono (fun ta => 1 + bwInterference wl e (wl.getD e default).kind npp ta ta +
      (wl.getD e default).cost.ofJobs ((wl.getD e default).arr.N ta)) := by
  have heoc := hwf _ (getD_mem wl e he)
  intro x y hxy
  have h1 := bwInterference_mono wl e (wl.getD e default).kind npp hwf x y x y hxy hxy
  have h2 := heoc.2 _ _ (Arr.N_mono _ heoc.1 x y hxy)
  show 1 + _ + _ ≤ 1 + _ + _
  omega

/-- the relevant steps below the maximum offset dominate every activation offset below it -/
theorem bw_pruned (s : Supply) (wl : List Callback) (e npp : Nat) (sg : Bool) (limit maxOff H : Nat)
    (he : e < wl.length) (hwf : ∀ cb ∈ wl, cb.arr.WF ∧ cb.arr.Exact) (hH : maxOff ≤ H)
    (hp : 0 < (wl.getD e default).arr.N 1) :
    maxResponseTime (((bwAllSteps wl e H).filter (· < maxOff)).map (naiveBwPer s wl e npp sg limit)) =
      naiveMax ((List.range maxOff).map (naiveBwPer s wl e npp sg limit)) := by
  have hmemS : ∀ x, x ∈ (bwAllSteps wl e H).filter (· < maxOff) ↔ (x < maxOff ∧ Rel wl e x) := by
    intro x
    rw [List.mem_filter, mem_bwAllSteps wl e H hwf x, decide_eq_true_eq]
    constructor
    · rintro ⟨⟨_, h2⟩, h3⟩; exact ⟨h3, h2⟩
    · rintro ⟨h1, h2⟩; exact ⟨⟨by omega, h2⟩, h1⟩
  apply maxResponseTime_pruned (naiveBwPer s wl e npp sg limit) maxOff limit
  · intro A hA; exact ((hmemS A).1 hA).1
  · intro A _; exact naiveBwPer_cases s wl e npp sg limit A
  · intro A hA
    have h0 : 0 ∈ (bwAllSteps wl e H).filter (· < maxOff) := by
      rw [hmemS]
      refine ⟨by omega, e, he, ?_⟩
      rw [if_pos rfl, Arr.N_zero]
      exact hp
    obtain ⟨A', hA'S, hA'le, hg⟩ := exists_greatest_le _ h0 A
    refine ⟨A', hA'S, ?_⟩
    apply bwPer_dom s wl e npp sg limit A A' hA'le
    · apply const_of_no_increase _ (Arr.N_mono _ (hwf _ (getD_mem wl e he)).1) (A' + 1) (A + 1) (by omega)
      intro δ h1 h2 hinc
      have hmem : δ - 1 ∈ (bwAllSteps wl e H).filter (· < maxOff) := by
        rw [hmemS]
        refine ⟨by omega, e, he, ?_⟩
        rw [if_pos rfl]
        have e1 : δ - 1 + 1 = δ := by omega
        rw [e1]
        exact hinc
      have := hg (δ - 1) hmem (by omega)
      omega
    · intro j hj hje hpp
      apply const_of_no_increase _ (Arr.N_mono _ (hwf _ (getD_mem wl j hj)).1) A' A hA'le
      intro δ h1 h2 hinc
      have hmem : δ ∈ (bwAllSteps wl e H).filter (· < maxOff) := by
        rw [hmemS]
        refine ⟨by omega, j, hj, ?_⟩
        rw [if_neg hje]
        exact ⟨hpp, by omega, hinc⟩
      have := hg δ hmem h2
      omega

theorem bw_core (s : Supply) (hs : s.WF) (wl : List Callback) (e npp : Nat) (singleton : Prop)
    [Decidable singleton] (limit : Nat) (hl : 1 ≤ limit) (dbg : Bool) (he : e < wl.length)
    (hwf : ∀ cb ∈ wl, cb.arr.WF ∧ cb.arr.Exact ∧ MonoN cb.cost.ofJobs)
    (hp : 0 < (wl.getD e default).arr.N 1) :
    (match search s limit (fun ta => 1 + bwInterference wl e (wl.getD e default).kind npp ta ta +
        (wl.getD e default).cost.ofJobs ((wl.getD e default).arr.N ta)) with
      | .ok maxOff =>
        if dbg = true ∧ pulled (bwAllSteps wl e (bwCoverHorizon wl e maxOff 24 maxOff)) maxOff ≠
            (pulled (bwBruteSteps wl e
              (max ((pulled (bwAllSteps wl e (bwCoverHorizon wl e maxOff 24 maxOff)) maxOff).getLastD maxOff)
                maxOff)) maxOff).take
              (pulled (bwAllSteps wl e (bwCoverHorizon wl e maxOff 24 maxOff)) maxOff).length
        then Res.panic else
        overOffsets (some ((bwAllSteps wl e (bwCoverHorizon wl e maxOff 24 maxOff)).filter (· < maxOff)))
          (bwPerModel s wl e npp singleton limit)
      | e => e) =
    (match naiveSolveSup s.sbf 0 (fun ta => 1 + bwInterference wl e (wl.getD e default).kind npp ta ta +
        (wl.getD e default).cost.ofJobs ((wl.getD e default).arr.N ta)) limit with
      | .ok maxOff =>
        naiveMax ((List.range maxOff).map (naiveBwPer s wl e npp (decide singleton) limit))
      | e => e) := by
  have hwf1 : ∀ cb ∈ wl, cb.arr.WF ∧ cb.arr.Exact := fun cb h => ⟨(hwf cb h).1, (hwf cb h).2.1⟩
  have hwf2 : ∀ cb ∈ wl, cb.arr.WF ∧ MonoN cb.cost.ofJobs := fun cb h => ⟨(hwf cb h).1, (hwf cb h).2.2⟩
  rw [search_eq_nss s hs _ (bwRhsMax_mono wl e npp hwf2 he) limit hl]
  rcases nss_cases s.sbf 0 (fun ta => 1 + bwInterference wl e (wl.getD e default).kind npp ta ta +
      (wl.getD e default).cost.ofJobs ((wl.getD e default).arr.N ta)) limit with ⟨maxOff, h⟩ | h
  · rw [h]
    simp only []
    have hH := bwCoverHorizon_ge wl e maxOff 24 maxOff
    rw [if_neg (fun hc => hc.2 (debug_check_eq wl e _ maxOff he hwf1 hH))]
    simp only [overOffsets]
    have hfun : bwPerModel s wl e npp singleton limit =
        naiveBwPer s wl e npp (decide singleton) limit :=
      funext (bwPer_eq s hs wl e npp singleton limit hl hwf2 he)
    rw [hfun]
    exact bw_pruned s wl e npp (decide singleton) limit maxOff _ he hwf1 hH hp
  · rw [h]

end RosNaiveLemmas

/-- C07, bw subchain analysis = linear-scan evaluation over EVERY activation offset below
the maximum offset, when the end of the chain releases something -/
theorem bw_eq_naive (s : Supply) (hs : s.WF) (wl : List Callback) (sub : List Nat) (limit : Nat)
    (hl : 1 ≤ limit) (hne : sub ≠ []) (hsub : ∀ i ∈ sub, i < wl.length)
    (hwf : ∀ cb ∈ wl, cb.arr.WF ∧ cb.arr.Exact ∧ MonoN cb.cost.ofJobs)
    (hpos : ∀ e, sub.getLast? = some e → 0 < (wl.getD e default).arr.N 1) (dbg : Bool) :
    bwSubchain s wl sub limit dbg = naiveBw s wl sub limit := by
  have _ := hne
  unfold bwSubchain naiveBw
  cases hlast : sub.getLast? with
  | none => rfl
  | some e =>
    have he := hsub e (List.mem_of_getLast? hlast)
    have hp := hpos e hlast
    have hall : sub.all (fun x => decide (x < wl.length)) = true := by
      rw [List.all_eq_true]
      intro i hi
      exact decide_eq_true (hsub i hi)
    simp only []
    rw [if_neg (not_not_intro hall)]
    exact bw_core s hs wl e (sumPPBound wl sub) (sub.length = 1) limit hl dbg he hwf hp

end RTA
