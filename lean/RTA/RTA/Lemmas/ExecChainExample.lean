import RTA.Lemmas.ExecChainEndToEnd
/-! Non-vacuity of `chain_exec_sound`: a concrete callback table with a chain, a dedicated
processor and periodic releases satisfy EVERY hypothesis; the run reports completions of the
chain's last callback, and the bound is attained (response 6 = `R`). -/

namespace RTA.Exec
open RTA RTA.Sched RTA.Spec

/-- a timer (cost 1, every 20 slots) and a chain of two polled callbacks: the source `c₀`
(index 1, cost 2, every 20 slots) triggers `c₁` (index 2, cost 3) -/
def exCbsC : List Cb :=
  [{ isTimer := true, prio := 0, cost := 1 }, { isTimer := false, prio := 0, cost := 2 },
   { isTimer := false, prio := 1, cost := 3 }]

def exChain : List ℕ := [1, 2]

def exSigmaC : ℕ → Bool := fun _ => true

/-- the timer and the chain's source are released together every 20 slots until slot 40 -/
def exRelsC : ℕ → List ℕ := fun t => if t < 40 then (if t % 20 = 0 then [0, 1] else []) else []

def exArrsC : List Arr := [.periodic 20, .periodic 20, .periodic 20]

end RTA.Exec

namespace RTA.Exec.ChainExampleLemmas
open RTA RTA.Sched RTA.Spec RTA.Exec

theorem service_all (t : ℕ) : ∀ d, service exSigmaC t d = d := by
  intro d
  induction d with
  | zero => rfl
  | succ d ih => simp [service, ih, exSigmaC]

theorem relCount_succ (rels : ℕ → List ℕ) (k t d : ℕ) :
    relCount rels k t (d + 1) = relCount rels k t d + (rels (t + d)).count k := by
  unfold relCount
  rw [List.range_succ, List.map_append, List.sum_append]
  simp

theorem count0 (x : ℕ) : (exRelsC x).count 0 ≤ if x % 20 = 0 then 1 else 0 := by
  unfold exRelsC
  split_ifs <;> simp

theorem count1 (x : ℕ) : (exRelsC x).count 1 ≤ if x % 20 = 0 then 1 else 0 := by
  unfold exRelsC
  split_ifs <;> simp

theorem relCount0 (t : ℕ) : ∀ d, relCount exRelsC 0 t d ≤ (t + d + 19) / 20 - (t + 19) / 20 := by
  intro d
  induction d with
  | zero => simp [relCount]
  | succ d ih =>
    rw [relCount_succ]
    have := count0 (t + d)
    split_ifs at this <;> omega

theorem relCount1 (t : ℕ) : ∀ d, relCount exRelsC 1 t d ≤ (t + d + 19) / 20 - (t + 19) / 20 := by
  intro d
  induction d with
  | zero => simp [relCount]
  | succ d ih =>
    rw [relCount_succ]
    have := count1 (t + d)
    split_ifs at this <;> omega

theorem ceil20 (d : ℕ) : (Arr.periodic 20).N d = (d + 19) / 20 := by
  show ceilDiv d 20 = _
  unfold ceilDiv
  split_ifs <;> omega

theorem hmem : ∀ i ∈ exChain, i < exCbsC.length ∧ (exCbsC.getD i default).isTimer = false := by
  decide

theorem hidx : ∀ t, ∀ i ∈ exRelsC t, i < exCbsC.length := by
  intro t i hi
  show i < 3
  unfold exRelsC at hi
  split_ifs at hi <;> simp at hi
  omega

theorem hext : ∀ t, ∀ i ∈ exRelsC t, i ∉ exChain.tail := by
  intro t i hi
  show i ∉ [2]
  unfold exRelsC at hi
  split_ifs at hi <;> simp at hi
  simp
  omega

theorem hfin : ∀ t, 40 ≤ t → exRelsC t = [] := by
  intro t ht
  unfold exRelsC
  rw [if_neg (by omega)]

theorem hwfo : ∀ b ∈ exArrsC, b.WF ∧ b.Exact := by
  intro b hb
  have : b = .periodic 20 := by simpa [exArrsC] using hb
  subst this
  exact ⟨by decide, trivial⟩

theorem hsrc : ∀ t d, relCount exRelsC (exChain.headD 0) t d ≤ (Arr.periodic 20).N d := by
  intro t d
  show relCount exRelsC 1 t d ≤ _
  rw [ceil20]; have := relCount1 t d; omega

theorem hrel : ∀ k, k < exCbsC.length → k ∉ exChain → ∀ t d,
    relCount exRelsC k t d ≤ (exArrsC.getD k default).N d := by
  intro k hk hn t d
  match k, hk, hn with
  | 0, _, _ =>
    show _ ≤ (Arr.periodic 20).N d
    rw [ceil20]; have := relCount0 t d; omega
  | 1, _, hn => exact absurd (by decide : 1 ∈ exChain) hn
  | 2, _, hn => exact absurd (by decide : 2 ∈ exChain) hn
  | k + 3, h, _ => exact absurd (show k + 3 < 3 from h) (by omega)

end RTA.Exec.ChainExampleLemmas

namespace RTA.Exec
open RTA RTA.Sched RTA.Spec
open ChainExampleLemmas

/-- every hypothesis of `chain_exec_sound` holds for the example (in the order of the theorem),
the analysis returns `Ok(6)`, and the run reports two completions of the last callback -/
theorem chain_exec_sound_nonvacuous :
    exChain.Nodup ∧ 2 ≤ exChain.length ∧ exChain.getLast? = some 2 ∧
    (∀ i ∈ exChain, i < exCbsC.length ∧ (exCbsC.getD i default).isTimer = false) ∧
    (∀ t, ∀ i ∈ exRelsC t, i < exCbsC.length) ∧
    (∀ t, ∀ i ∈ exRelsC t, i ∉ exChain.tail) ∧
    (∀ t, 40 ≤ t → exRelsC t = []) ∧
    (∀ c ∈ exCbsC, 1 ≤ c.cost) ∧
    Supply.dedicated.WF ∧ (∀ t d, Supply.dedicated.sbf d ≤ service exSigmaC t d) ∧
    (Arr.periodic 20).WF ∧ (Arr.periodic 20).Exact ∧
    (∀ t d, relCount exRelsC (exChain.headD 0) t d ≤ (Arr.periodic 20).N d) ∧
    exArrsC.length = exCbsC.length ∧ (∀ b ∈ exArrsC, b.WF ∧ b.Exact) ∧
    (∀ k, k < exCbsC.length → k ∉ exChain → ∀ t d, relCount exRelsC k t d ≤ (exArrsC.getD k default).N d) ∧
    rosChain .dedicated
      (.rbf (.periodic 20) (.scalar (exCbsC.getD 2 default).cost))
      (.rbf (.periodic 20) (.scalar ((exChain.dropLast.map fun i => (exCbsC.getD i default).cost).sum)))
      (.rbf (.periodic 20) (.scalar ((exCbsC.getD 2 default).cost + (exChain.dropLast.map fun i => (exCbsC.getD i default).cost).sum)))
      (.agg (((List.range exCbsC.length).filter fun k => decide (k ∉ exChain)).map
        fun k => .rbf (exArrsC.getD k default) (.scalar (exCbsC.getD k default).cost))) 100 = .ok 6 ∧
    completionsOf (Exec.run exCbsC (chainFn exChain) ((List.range 60).map exSigmaC) exRelsC) 2 = [6, 26] ∧
    relTimes exRelsC 40 (exChain.headD 0) = [0, 20] := by
  refine ⟨by decide, by decide, rfl, hmem, hidx, hext, hfin, by decide, trivial, ?_, by decide,
    trivial, hsrc, rfl, hwfo, hrel, by decide +kernel, by decide +kernel, by decide +kernel⟩
  intro t d
  rw [service_all]
  exact Nat.le_refl _

/-- hence, by `chain_exec_sound`, every reported completion of the chain is within the bound -/
theorem chain_example_bounded (m : ℕ)
    (hm : m < (completionsOf (Exec.run exCbsC (chainFn exChain) ((List.range 60).map exSigmaC) exRelsC) 2).length) :
    (completionsOf (Exec.run exCbsC (chainFn exChain) ((List.range 60).map exSigmaC) exRelsC) 2).getD m 0 ≤
      (relTimes exRelsC 40 (exChain.headD 0)).getD m 0 + 6 := by
  obtain ⟨h1, h2, h3, h4, h5, h6, h7, h8, h9, h10, h11, h12, h13, h14, h15, h16, h17, _, _⟩ :=
    chain_exec_sound_nonvacuous
  exact chain_exec_sound exCbsC exChain exSigmaC exRelsC 40 2 h1 h2 h3 h4 h5 h6 h7 h8 .dedicated h9 h10
    (.periodic 20) h11 h12 h13 exArrsC h14 h15 h16 100 6 h17 60 m hm

end RTA.Exec
