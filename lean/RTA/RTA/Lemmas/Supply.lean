import RTA.Model.Supply
import RTA.Lemmas.FixedPoint
import RTA.Spec.SupplyProc
/-! Lemmas about the supply-bound functions and their inverses (C09).
All statements are for ALL parameters `1 ≤ Q ≤ D ≤ P`, all arguments. -/

namespace RTA
open RTA.Spec

/-- monotone, growing by at most one per time unit -/
def Lipschitz1 (f : Nat → Nat) : Prop := ∀ t, f t ≤ f (t + 1) ∧ f (t + 1) ≤ f t + 1

/-! ### normal forms (helpers)

Every `t ≥ P - Q` is `(P - Q) + P * k + m` with `m < P`, every demand is `Q * q + r` with
`r < Q`; on these shapes the four functions have division-free closed forms, and all laws
below become linear arithmetic over `k m q r` with the products as opaque atoms. -/

theorem cSbf_lo (Q D P t : Nat) (h : t < P - Q) : cSbf Q D P t = 0 := by
  unfold cSbf
  simp only []
  rw [if_pos h]

theorem cSbf_nf (Q D P : Nat) (hQ : 1 ≤ Q) (hQD : Q ≤ D) (_hDP : D ≤ P) (k m : Nat)
    (hm : m < P) :
    cSbf Q D P ((P - Q) + P * k + m) = Q * k + min Q (m - (D - Q)) := by
  have hP : 0 < P := by omega
  unfold cSbf
  simp only []
  have h1 : ¬ (P - Q > (P - Q) + P * k + m) := by omega
  rw [if_neg h1]
  have h2 : ((P - Q) + P * k + m - (P - Q)) / P = k := by
    have : (P - Q) + P * k + m - (P - Q) = P * k + m := by omega
    rw [this, Nat.mul_add_div hP, Nat.div_eq_of_lt hm]; omega
  rw [h2]
  generalize P * k = pk
  split <;> omega

theorem pSbf_eq_cSbf (Q P : Nat) (hQ : 1 ≤ Q) (hQP : Q ≤ P) (t : Nat) :
    pSbf Q P t = cSbf Q P P t := by
  have hP : 0 < P := by omega
  unfold pSbf cSbf
  simp only []
  by_cases h : P - Q > t
  · rw [if_pos h, if_pos h]
  · rw [if_neg h, if_neg h]
    have hd := Nat.div_add_mod (t - (P - Q)) P
    have hm := Nat.mod_lt (t - (P - Q)) hP
    generalize (t - (P - Q)) / P = k at *
    generalize (t - (P - Q)) % P = m at *
    generalize P * k = pk at *
    split <;> split <;> omega

/-- every `t ≥ P - Q` is `(P - Q) + P * k + m` with `m < P` -/
theorem exists_km (Q P t : Nat) (hP : 0 < P) (h : P - Q ≤ t) :
    ∃ k m, m < P ∧ t = (P - Q) + P * k + m := by
  refine ⟨(t - (P - Q)) / P, (t - (P - Q)) % P, Nat.mod_lt _ hP, ?_⟩
  have hd := Nat.div_add_mod (t - (P - Q)) P
  omega

theorem exists_qr (Q d : Nat) (hQ : 0 < Q) : ∃ q r, r < Q ∧ d = Q * q + r :=
  ⟨d / Q, d % Q, Nat.mod_lt _ hQ, (Nat.div_add_mod d Q).symm⟩

theorem cSt_zero (Q D P : Nat) : cSt Q D P 0 = 0 := by
  unfold cSt; simp

theorem cSt_nf (Q D P : Nat) (q r : Nat) (hr : r < Q) (hpos : 0 < Q * q + r) :
    cSt Q D P (Q * q + r) = D - Q + P * q + (if 0 < r then r + P - Q else 0) := by
  have hQ : 0 < Q := by omega
  unfold cSt
  simp only []
  have h1 : ¬ (Q * q + r = 0) := by omega
  rw [if_neg h1]
  have h2 : (Q * q + r) / Q = q := by
    rw [Nat.mul_add_div hQ, Nat.div_eq_of_lt hr]; omega
  rw [h2]
  generalize Q * q = qq
  split <;> split <;> omega

theorem pSt_eq_cSt (Q P : Nat) (hQ : 1 ≤ Q) (hQP : Q ≤ P) (d : Nat) :
    pSt Q P d = cSt Q P P d := by
  unfold pSt cSt
  simp only []
  by_cases h : d = 0
  · rw [if_pos h, if_pos h]
  · rw [if_neg h, if_neg h]
    have hd := Nat.div_add_mod d Q
    have hm := Nat.mod_lt d hQ
    generalize d / Q = q at *
    generalize d % Q = r at *
    generalize Q * q = qq at *
    split <;> omega

theorem cSbf_zero' (Q D P : Nat) (hQ : 1 ≤ Q) (hQD : Q ≤ D) (hDP : D ≤ P) : cSbf Q D P 0 = 0 := by
  by_cases h : 0 < P - Q
  · exact cSbf_lo Q D P 0 h
  · have h := cSbf_nf Q D P hQ hQD hDP 0 0 (by omega)
    have e : (P - Q) + P * 0 + 0 = 0 := by omega
    rw [e] at h
    rw [h]; omega

theorem pSbf_zero (Q P : Nat) (hQ : 1 ≤ Q) (hQP : Q ≤ P) : pSbf Q P 0 = 0 := by
  rw [pSbf_eq_cSbf Q P hQ hQP]; exact cSbf_zero' Q P P hQ hQP (Nat.le_refl _)

theorem cSbf_zero (Q D P : Nat) (hQ : 1 ≤ Q) (hQD : Q ≤ D) (hDP : D ≤ P) : cSbf Q D P 0 = 0 :=
  cSbf_zero' Q D P hQ hQD hDP

theorem cSbf_lipschitz' (Q D P : Nat) (hQ : 1 ≤ Q) (hQD : Q ≤ D) (hDP : D ≤ P) :
    Lipschitz1 (cSbf Q D P) := by
  intro t
  have hP : 0 < P := by omega
  by_cases h0 : t < P - Q
  · rw [cSbf_lo Q D P t h0]
    by_cases h1 : t + 1 < P - Q
    · rw [cSbf_lo Q D P _ h1]; omega
    · have h := cSbf_nf Q D P hQ hQD hDP 0 0 hP
      have e : (P - Q) + P * 0 + 0 = t + 1 := by omega
      rw [e] at h
      rw [h]; omega
  · obtain ⟨k, m, hm, rfl⟩ := exists_km Q P t hP (by omega)
    rw [cSbf_nf Q D P hQ hQD hDP k m hm]
    by_cases hw : m + 1 < P
    · have h := cSbf_nf Q D P hQ hQD hDP k (m + 1) hw
      have e : (P - Q) + P * k + (m + 1) = (P - Q) + P * k + m + 1 := by omega
      rw [e] at h
      rw [h]; omega
    · have h := cSbf_nf Q D P hQ hQD hDP (k + 1) 0 hP
      have e : (P - Q) + P * (k + 1) + 0 = (P - Q) + P * k + m + 1 := by
        rw [Nat.mul_add]; omega
      rw [e] at h
      rw [h, Nat.mul_add]; omega

theorem pSbf_lipschitz (Q P : Nat) (hQ : 1 ≤ Q) (hQP : Q ≤ P) : Lipschitz1 (pSbf Q P) := by
  intro t
  rw [pSbf_eq_cSbf Q P hQ hQP, pSbf_eq_cSbf Q P hQ hQP]
  exact cSbf_lipschitz' Q P P hQ hQP (Nat.le_refl _) t

theorem cSbf_lipschitz (Q D P : Nat) (hQ : 1 ≤ Q) (hQD : Q ≤ D) (hDP : D ≤ P) :
    Lipschitz1 (cSbf Q D P) :=
  cSbf_lipschitz' Q D P hQ hQD hDP

theorem lipschitz_mono {f : Nat → Nat} (h : Lipschitz1 f) : Mono f := by
  intro a b hab
  obtain ⟨e, rfl⟩ := Nat.exists_eq_add_of_le hab
  induction e with
  | zero => exact Nat.le_refl _
  | succ e ih => exact Nat.le_trans (ih (by omega)) (h (a + e)).1

theorem lipschitz_add {f : Nat → Nat} (h : Lipschitz1 f) (t j : Nat) : f (t + j) ≤ f t + j := by
  induction j with
  | zero => exact Nat.le_refl _
  | succ j ih =>
    have := (h (t + j)).2
    rw [← Nat.add_assoc]; omega

/-- a constrained reservation with deadline = period is the periodic one -/
theorem cSbf_eq_pSbf (Q P : Nat) (hQ : 1 ≤ Q) (hQP : Q ≤ P) (t : Nat) :
    cSbf Q P P t = pSbf Q P t :=
  (pSbf_eq_cSbf Q P hQ hQP t).symm

theorem cSt_eq_pSt (Q P : Nat) (hQ : 1 ≤ Q) (hQP : Q ≤ P) (d : Nat) :
    cSt Q P P d = pSt Q P d :=
  (pSt_eq_cSt Q P hQ hQP d).symm

/-- budget = period is a dedicated processor -/
theorem pSbf_full (P : Nat) (hP : 1 ≤ P) (t : Nat) : pSbf P P t = t := by
  rw [pSbf_eq_cSbf P P hP (Nat.le_refl _)]
  obtain ⟨k, m, hm, rfl⟩ := exists_km P P t hP (by omega)
  rw [cSbf_nf P P P hP (Nat.le_refl _) (Nat.le_refl _) k m hm]
  omega

theorem pSt_full (P : Nat) (hP : 1 ≤ P) (d : Nat) : pSt P P d = d := by
  rw [pSt_eq_cSt P P hP (Nat.le_refl _)]
  by_cases hd : d = 0
  · subst hd; exact cSt_zero _ _ _
  obtain ⟨q, r, hr, rfl⟩ := exists_qr P d hP
  rw [cSt_nf P P P q r hr (by omega)]
  split <;> omega

theorem cGalois' (Q D P : Nat) (hQ : 1 ≤ Q) (hQD : Q ≤ D) (hDP : D ≤ P) :
    Galois (cSbf Q D P) (cSt Q D P) := by
  intro d t
  have hP : 0 < P := by omega
  by_cases hd : d = 0
  · subst hd; rw [cSt_zero]; omega
  obtain ⟨q, r, hr, rfl⟩ := exists_qr Q d hQ
  rw [cSt_nf Q D P q r hr (by omega)]
  by_cases h0 : t < P - Q
  · rw [cSbf_lo Q D P t h0]
    rcases Nat.eq_zero_or_pos q with rfl | hq
    · split <;> omega
    · obtain ⟨q, rfl⟩ := Nat.exists_eq_add_of_le hq
      rw [Nat.mul_add, Nat.mul_add]
      generalize P * q = pq
      generalize Q * q = qq
      split <;> omega
  · obtain ⟨k, m, hm, rfl⟩ := exists_km Q P t hP (by omega)
    rw [cSbf_nf Q D P hQ hQD hDP k m hm]
    rcases Nat.lt_trichotomy q k with hlt | rfl | hgt
    · obtain ⟨e, rfl⟩ := Nat.exists_eq_add_of_lt hlt
      simp only [Nat.mul_add, Nat.mul_one]
      generalize P * q = pq
      generalize Q * q = qq
      generalize P * e = pe
      generalize Q * e = qe
      split <;> omega
    · generalize P * q = pq
      generalize Q * q = qq
      split <;> omega
    · obtain ⟨e, rfl⟩ := Nat.exists_eq_add_of_lt hgt
      rcases Nat.eq_zero_or_pos e with rfl | he
      · simp only [Nat.mul_add, Nat.mul_one, Nat.add_zero]
        generalize P * k = pq
        generalize Q * k = qq
        split <;> omega
      · obtain ⟨e, rfl⟩ := Nat.exists_eq_add_of_le he
        simp only [Nat.mul_add, Nat.mul_one]
        generalize P * k = pq
        generalize Q * k = qq
        generalize P * e = pe
        generalize Q * e = qe
        split <;> omega

/-- `service_time` is the exact inverse (Galois connection) of `provided_service` -/
theorem cGalois (Q D P : Nat) (hQ : 1 ≤ Q) (hQD : Q ≤ D) (hDP : D ≤ P) :
    Galois (cSbf Q D P) (cSt Q D P) :=
  cGalois' Q D P hQ hQD hDP

theorem pGalois (Q P : Nat) (hQ : 1 ≤ Q) (hQP : Q ≤ P) : Galois (pSbf Q P) (pSt Q P) := by
  intro d t
  rw [pSbf_eq_cSbf Q P hQ hQP, pSt_eq_cSt Q P hQ hQP]
  exact cGalois' Q P P hQ hQP (Nat.le_refl _) d t

theorem defaultLoop_aux (sbf st : Nat → Nat) (hl : Lipschitz1 sbf)
    (hg : Galois sbf st) (demand : Nat) :
    ∀ n t, st demand - t ≤ n → t ≤ st demand →
      defaultLoop sbf demand (st demand) t = some (st demand) := by
  intro n
  induction n with
  | zero =>
    intro t hn ht
    have e : t = st demand := by omega
    have h1 : demand ≤ sbf t := by rw [e]; exact (hg _ _).1 (Nat.le_refl _)
    unfold defaultLoop
    rw [if_pos h1, e]
  | succ n ih =>
    intro t hn ht
    unfold defaultLoop
    by_cases h1 : sbf t ≥ demand
    · rw [if_pos h1]
      have := (hg demand t).2 h1
      have e : t = st demand := by omega
      rw [e]
    · rw [if_neg h1]
      have hlt : t < st demand := by
        rcases Nat.lt_or_ge t (st demand) with h | h
        · exact h
        · exact absurd ((hg demand t).1 h) h1
      have h2 : ¬ t ≥ st demand := by omega
      rw [if_neg h2]
      have hj : t + (demand - sbf t) ≤ st demand := by
        have hb := lipschitz_add hl t (demand - sbf t - 1)
        have hnot : ¬ st demand ≤ t + (demand - sbf t - 1) := by
          intro hc
          have := (hg demand _).1 hc
          omega
        omega
      exact ih _ (by omega) hj

/-- The default `service_time` loop started at `t ≤ st demand` returns the exact
inverse, for every 1-Lipschitz `sbf` with `sbf 0 = 0` whose inverse is `st`. -/
theorem defaultLoop_spec (sbf st : Nat → Nat) (h0 : sbf 0 = 0) (hl : Lipschitz1 sbf)
    (hg : Galois sbf st) (demand : Nat) :
    defaultLoop sbf demand (st demand) demand = some (st demand) := by
  apply defaultLoop_aux sbf st hl hg demand (st demand - demand) demand (Nat.le_refl _)
  rcases Nat.eq_zero_or_pos demand with h | h
  · omega
  · have hb := lipschitz_add hl 0 (demand - 1)
    rw [h0] at hb
    have hnot : ¬ st demand ≤ 0 + (demand - 1) := by
      intro hc
      have := (hg demand _).1 hc
      omega
    omega

theorem dedicated_lipschitz : Lipschitz1 (fun d : Nat => d) := by
  intro t; show t ≤ t + 1 ∧ t + 1 ≤ t + 1; omega

/-- every well-formed supply: sbf laws -/
theorem Supply.sbf_zero (s : Supply) (h : s.WF) : s.sbf 0 = 0 := by
  induction s with
  | dedicated => rfl
  | periodic Q P =>
    obtain ⟨h1, h2⟩ := h
    show pSbf Q P 0 = 0
    rw [pSbf_eq_cSbf Q P h1 h2]; exact cSbf_zero' Q P P h1 h2 (Nat.le_refl _)
  | constrained Q D P =>
    obtain ⟨h1, h2, h3⟩ := h
    exact cSbf_zero' Q D P h1 h2 h3
  | viaDefault s ih => exact ih h

theorem Supply.sbf_lipschitz (s : Supply) (h : s.WF) : Lipschitz1 s.sbf := by
  induction s with
  | dedicated => exact dedicated_lipschitz
  | periodic Q P =>
    obtain ⟨h1, h2⟩ := h
    exact pSbf_lipschitz Q P h1 h2
  | constrained Q D P =>
    obtain ⟨h1, h2, h3⟩ := h
    exact cSbf_lipschitz' Q D P h1 h2 h3
  | viaDefault s ih => exact ih h

theorem Supply.galois (s : Supply) (h : s.WF) : Galois s.sbf s.stClosed := by
  induction s with
  | dedicated => intro d t; exact Iff.rfl
  | periodic Q P =>
    obtain ⟨h1, h2⟩ := h
    exact pGalois Q P h1 h2
  | constrained Q D P =>
    obtain ⟨h1, h2, h3⟩ := h
    exact cGalois' Q D P h1 h2 h3
  | viaDefault s ih => exact ih h

/-- the modelled `service_time` (specialised or default implementation) never runs away
and equals the exact inverse -/
theorem Supply.st?_eq (s : Supply) (h : s.WF) (d : Nat) : s.st? d = some (s.stClosed d) := by
  cases s with
  | dedicated => rfl
  | periodic Q P => rfl
  | constrained Q D P => rfl
  | viaDefault s =>
    exact defaultLoop_spec s.sbf s.stClosed (Supply.sbf_zero s h) (Supply.sbf_lipschitz s h)
      (Supply.galois s h) d

/-! ### exactness against budget placements -/

theorem service_le_len (σ : Nat → Bool) (s len : Nat) : service σ s len ≤ len := by
  induction len with
  | zero => exact Nat.le_refl _
  | succ n ih =>
    show service σ s n + (if σ (s + n) then 1 else 0) ≤ n + 1
    split <;> omega

theorem service_add (σ : Nat → Bool) (s a b : Nat) :
    service σ s (a + b) = service σ s a + service σ (s + a) b := by
  induction b with
  | zero => rfl
  | succ n ih =>
    show service σ s (a + n) + (if σ (s + (a + n)) then 1 else 0)
      = service σ s a + (service σ (s + a) n + (if σ (s + a + n) then 1 else 0))
    rw [ih, Nat.add_assoc s a n]; omega

theorem service_mono (σ : Nat → Bool) (s a b : Nat) (h : a ≤ b) :
    service σ s a ≤ service σ s b := by
  obtain ⟨e, rfl⟩ := Nat.exists_eq_add_of_le h
  rw [service_add]; omega

/-- inside period `k`, the window `[a, a + w)` misses at most `a` slots at the start and
`D - (a + w)` slots at the end of the region `[0, D)` holding the budget -/
theorem compliant_inner (Q D P : Nat) (σ : Nat → Bool) (hσ : Compliant Q D P σ) (k a w : Nat) :
    Q ≤ a + service σ (k * P + a) w + (D - (a + w)) := by
  have h := hσ k
  have ha := service_le_len σ (k * P) a
  by_cases hb : a + w ≤ D
  · have h2 : service σ (k * P) (a + w + (D - (a + w)))
        = service σ (k * P) a + service σ (k * P + a) w
          + service σ (k * P + (a + w)) (D - (a + w)) := by
      rw [service_add, service_add]
    have e : a + w + (D - (a + w)) = D := by omega
    rw [e] at h2
    have hc := service_le_len σ (k * P + (a + w)) (D - (a + w))
    omega
  · have h2 := service_mono σ (k * P) D (a + w) (by omega)
    rw [service_add] at h2
    omega

theorem compliant_full (Q D P : Nat) (hDP : D ≤ P) (σ : Nat → Bool) (hσ : Compliant Q D P σ)
    (k m : Nat) : Q * m ≤ service σ (k * P) (P * m) := by
  induction m with
  | zero => exact Nat.zero_le _
  | succ m ih =>
    rw [Nat.mul_succ, Nat.mul_succ, service_add]
    have e : k * P + P * m = (k + m) * P := by rw [Nat.add_mul, Nat.mul_comm m P]
    rw [e]
    have h1 := hσ (k + m)
    have h2 := service_mono σ ((k + m) * P) D P hDP
    omega

theorem compliant_window (Q D P : Nat) (hDP : D ≤ P) (σ : Nat → Bool)
    (hσ : Compliant Q D P σ) (k g m l : Nat) (hg : g ≤ P) :
    (Q - (P - g)) + Q * m + (Q - (D - l)) ≤ service σ (k * P + (P - g)) (g + P * m + l) := by
  rw [service_add, service_add]
  have e1 : k * P + (P - g) + g = (k + 1) * P := by rw [Nat.add_mul, Nat.one_mul]; omega
  have e2 : k * P + (P - g) + (g + P * m) = (k + 1 + m) * P := by
    rw [← Nat.add_assoc, e1, Nat.add_mul (k + 1) m P, Nat.mul_comm m P]
  rw [e1, e2]
  have h1 := compliant_inner Q D P σ hσ k (P - g) g
  have h2 := compliant_full Q D P hDP σ hσ (k + 1) m
  have h3 := compliant_inner Q D P σ hσ (k + 1 + m) 0 l
  rw [Nat.add_zero] at h3
  omega

theorem cSt_served (Q D P : Nat) (hQ : 1 ≤ Q) (hQD : Q ≤ D) (hDP : D ≤ P)
    (σ : Nat → Bool) (hσ : Compliant Q D P σ) (s d : Nat) :
    d ≤ service σ s (cSt Q D P d) := by
  have hP : 0 < P := by omega
  by_cases hd : d = 0
  · omega
  obtain ⟨q, r, hr, rfl⟩ := exists_qr Q d hQ
  rw [cSt_nf Q D P q r hr (by omega)]
  have hs := Nat.div_add_mod s P
  have ha := Nat.mod_lt s hP
  generalize s / P = k at hs
  generalize s % P = a at hs ha
  subst hs
  rw [Nat.mul_comm P k]
  have hw : ∀ m l, (Q - a) + Q * m + (Q - (D - l))
      ≤ service σ (k * P + a) (P - a + P * m + l) := by
    intro m l
    have h := compliant_window Q D P hDP σ hσ k (P - a) m l (by omega)
    have ea : P - (P - a) = a := by omega
    rw [ea] at h
    exact h
  by_cases hr0 : r = 0
  · subst hr0
    have hq : 1 ≤ q := by
      rcases Nat.eq_zero_or_pos q with rfl | h
      · omega
      · exact h
    obtain ⟨q, rfl⟩ := Nat.exists_eq_add_of_le hq
    rw [if_neg (Nat.lt_irrefl 0)]
    refine Nat.le_trans ?_ (service_mono σ _ (P - a + P * q + (D - Q + a)) _ ?_)
    · have h := hw q (D - Q + a)
      rw [Nat.mul_add]
      omega
    · rw [Nat.mul_add]; omega
  · rw [if_pos (by omega)]
    by_cases c1 : 2 * Q + P ≤ D + r + a
    · refine Nat.le_trans ?_ (service_mono σ _ (P - a + P * (q + 1) + 0) _ ?_)
      · have h := hw (q + 1) 0
        rw [Nat.mul_add] at h
        omega
      · rw [Nat.mul_add]; omega
    · by_cases c2 : 2 * Q ≤ D + r + a
      · refine Nat.le_trans ?_ (service_mono σ _ (P - a + P * q + (D + r + a - 2 * Q)) _ ?_)
        · have h := hw q (D + r + a - 2 * Q)
          omega
        · omega
      · rcases Nat.eq_zero_or_pos q with rfl | hq
        · have h := compliant_inner Q D P σ hσ k a (D - Q + P * 0 + (r + P - Q))
          omega
        · obtain ⟨q, rfl⟩ := Nat.exists_eq_add_of_le hq
          refine Nat.le_trans ?_
            (service_mono σ _ (P - a + P * q + (P + D + r + a - 2 * Q)) _ ?_)
          · have h := hw q (P + D + r + a - 2 * Q)
            rw [Nat.mul_add]
            omega
          · rw [Nat.mul_add]; omega

/-- soundness: no compliant process delivers less than `provided_service` in any window -/
theorem cSbf_sound (Q D P : Nat) (hQ : 1 ≤ Q) (hQD : Q ≤ D) (hDP : D ≤ P)
    (σ : Nat → Bool) (hσ : Compliant Q D P σ) (s Δ : Nat) :
    cSbf Q D P Δ ≤ service σ s Δ := by
  have h1 := cSt_served Q D P hQ hQD hDP σ hσ s (cSbf Q D P Δ)
  have h2 := (cGalois' Q D P hQ hQD hDP (cSbf Q D P Δ) Δ).2 (Nat.le_refl _)
  exact Nat.le_trans h1 (service_mono σ s _ _ h2)

theorem worst_lo (Q D P t : Nat) (h : t < P) : worst Q D P t = decide (t < Q) := by
  unfold worst; rw [if_pos h]

theorem worst_hi (Q D P k x : Nat) (hk : 1 ≤ k) (hx : x < P) :
    worst Q D P (k * P + x) = decide (D - Q ≤ x ∧ x < D) := by
  unfold worst
  have h1 : ¬ (k * P + x < P) := by
    obtain ⟨k, rfl⟩ := Nat.exists_eq_add_of_le hk
    rw [Nat.add_mul, Nat.one_mul]; omega
  rw [if_neg h1, Nat.mul_add_mod_self_right, Nat.mod_eq_of_lt hx]

theorem service_all_true (σ : Nat → Bool) (s n : Nat) (h : ∀ i, i < n → σ (s + i) = true) :
    service σ s n = n := by
  induction n with
  | zero => rfl
  | succ n ih =>
    show service σ s n + (if σ (s + n) then 1 else 0) = n + 1
    rw [ih (fun i hi => h i (by omega)), h n (by omega), if_pos rfl]

theorem service_ge_of_true (σ : Nat → Bool) (s a n len : Nat)
    (h : ∀ i, i < n → σ (s + a + i) = true) (hlen : a + n ≤ len) : n ≤ service σ s len := by
  have h1 := service_mono σ s (a + n) len hlen
  rw [service_add, service_all_true σ (s + a) n h] at h1
  omega

theorem worst_compliant (Q D P : Nat) (hQ : 1 ≤ Q) (hQD : Q ≤ D) (hDP : D ≤ P) :
    Compliant Q D P (worst Q D P) := by
  have _ := hQ
  intro k
  rcases Nat.eq_zero_or_pos k with rfl | hk
  · apply service_ge_of_true _ _ 0 Q D _ (by omega)
    intro i hi
    rw [worst_lo Q D P _ (by omega)]
    exact decide_eq_true (by omega)
  · apply service_ge_of_true _ _ (D - Q) Q D _ (by omega)
    intro i hi
    rw [Nat.add_assoc, worst_hi Q D P k _ hk (by omega)]
    exact decide_eq_true ⟨by omega, by omega⟩

theorem cSbf_succ (Q D P : Nat) (hQ : 1 ≤ Q) (hQD : Q ≤ D) (hDP : D ≤ P) (t : Nat) :
    cSbf Q D P (t + 1) = cSbf Q D P t + (if worst Q D P (Q + t) then 1 else 0) := by
  have hP : 0 < P := by omega
  by_cases h0 : t < P - Q
  · have hwv : worst Q D P (Q + t) = false := by
      rw [worst_lo Q D P _ (by omega)]
      exact decide_eq_false (by omega)
    rw [hwv, cSbf_lo Q D P t h0, if_neg (by decide)]
    by_cases h1 : t + 1 < P - Q
    · rw [cSbf_lo Q D P _ h1]
    · have h := cSbf_nf Q D P hQ hQD hDP 0 0 hP
      have e : (P - Q) + P * 0 + 0 = t + 1 := by omega
      rw [e] at h
      rw [h]; omega
  · obtain ⟨k, m, hm, rfl⟩ := exists_km Q P t hP (by omega)
    have e : Q + ((P - Q) + P * k + m) = (k + 1) * P + m := by
      rw [Nat.add_mul, Nat.one_mul, Nat.mul_comm k P]; omega
    rw [e, worst_hi Q D P (k + 1) m (by omega) hm, cSbf_nf Q D P hQ hQD hDP k m hm]
    by_cases hw : m + 1 < P
    · have h := cSbf_nf Q D P hQ hQD hDP k (m + 1) hw
      have e : (P - Q) + P * k + (m + 1) = (P - Q) + P * k + m + 1 := by omega
      rw [e] at h
      rw [h]
      by_cases hc : D - Q ≤ m ∧ m < D
      · rw [decide_eq_true hc, if_pos rfl]; omega
      · rw [decide_eq_false hc, if_neg (by decide)]; omega
    · have h := cSbf_nf Q D P hQ hQD hDP (k + 1) 0 hP
      have e : (P - Q) + P * (k + 1) + 0 = (P - Q) + P * k + m + 1 := by
        rw [Nat.mul_add]; omega
      rw [e] at h
      rw [h, Nat.mul_add]
      by_cases hc : D - Q ≤ m ∧ m < D
      · rw [decide_eq_true hc, if_pos rfl]; omega
      · rw [decide_eq_false hc, if_neg (by decide)]; omega

/-- attainment: the adversarial process delivers exactly `provided_service` in the
window starting right after its first budget -/
theorem cSbf_attained (Q D P : Nat) (hQ : 1 ≤ Q) (hQD : Q ≤ D) (hDP : D ≤ P) (Δ : Nat) :
    service (worst Q D P) Q Δ = cSbf Q D P Δ := by
  induction Δ with
  | zero => rw [cSbf_zero' Q D P hQ hQD hDP]; rfl
  | succ n ih =>
    rw [cSbf_succ Q D P hQ hQD hDP n, ← ih]
    rfl

end RTA
