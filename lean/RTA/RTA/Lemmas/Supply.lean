import RTA.Model.Supply
import RTA.Lemmas.FixedPoint
import RTA.Spec.SupplyProc
/-! Lemmas about the supply-bound functions and their inverses (C09).
All statements are for ALL parameters `1 ≤ Q ≤ D ≤ P`, all arguments. -/

namespace RTA
open RTA.Spec

/-- monotone, growing by at most one per time unit -/
def Lipschitz1 (f : Nat → Nat) : Prop := ∀ t, f t ≤ f (t + 1) ∧ f (t + 1) ≤ f t + 1

theorem pSbf_zero (Q P : Nat) (hQ : 1 ≤ Q) (hQP : Q ≤ P) : pSbf Q P 0 = 0 := by
  sorry

theorem cSbf_zero (Q D P : Nat) (hQ : 1 ≤ Q) (hQD : Q ≤ D) (hDP : D ≤ P) : cSbf Q D P 0 = 0 := by
  sorry

theorem pSbf_lipschitz (Q P : Nat) (hQ : 1 ≤ Q) (hQP : Q ≤ P) : Lipschitz1 (pSbf Q P) := by
  sorry

theorem cSbf_lipschitz (Q D P : Nat) (hQ : 1 ≤ Q) (hQD : Q ≤ D) (hDP : D ≤ P) :
    Lipschitz1 (cSbf Q D P) := by
  sorry

theorem lipschitz_mono {f : Nat → Nat} (h : Lipschitz1 f) : Mono f := by
  sorry

/-- a constrained reservation with deadline = period is the periodic one -/
theorem cSbf_eq_pSbf (Q P : Nat) (hQ : 1 ≤ Q) (hQP : Q ≤ P) (t : Nat) :
    cSbf Q P P t = pSbf Q P t := by
  sorry

theorem cSt_eq_pSt (Q P : Nat) (hQ : 1 ≤ Q) (hQP : Q ≤ P) (d : Nat) :
    cSt Q P P d = pSt Q P d := by
  sorry

/-- budget = period is a dedicated processor -/
theorem pSbf_full (P : Nat) (hP : 1 ≤ P) (t : Nat) : pSbf P P t = t := by
  sorry

theorem pSt_full (P : Nat) (hP : 1 ≤ P) (d : Nat) : pSt P P d = d := by
  sorry

/-- `service_time` is the exact inverse (Galois connection) of `provided_service` -/
theorem cGalois (Q D P : Nat) (hQ : 1 ≤ Q) (hQD : Q ≤ D) (hDP : D ≤ P) :
    Galois (cSbf Q D P) (cSt Q D P) := by
  sorry

theorem pGalois (Q P : Nat) (hQ : 1 ≤ Q) (hQP : Q ≤ P) : Galois (pSbf Q P) (pSt Q P) := by
  sorry

/-- The default `service_time` loop started at `t ≤ st demand` returns the exact
inverse, for every 1-Lipschitz `sbf` with `sbf 0 = 0` whose inverse is `st`. -/
theorem defaultLoop_spec (sbf st : Nat → Nat) (h0 : sbf 0 = 0) (hl : Lipschitz1 sbf)
    (hg : Galois sbf st) (demand : Nat) :
    defaultLoop sbf demand (st demand) demand = some (st demand) := by
  sorry

/-- every well-formed supply: sbf laws -/
theorem Supply.sbf_zero (s : Supply) (h : s.WF) : s.sbf 0 = 0 := by
  sorry

theorem Supply.sbf_lipschitz (s : Supply) (h : s.WF) : Lipschitz1 s.sbf := by
  sorry

theorem Supply.galois (s : Supply) (h : s.WF) : Galois s.sbf s.stClosed := by
  sorry

/-- the modelled `service_time` (specialised or default implementation) never runs away
and equals the exact inverse -/
theorem Supply.st?_eq (s : Supply) (h : s.WF) (d : Nat) : s.st? d = some (s.stClosed d) := by
  sorry

/-! ### exactness against budget placements -/

theorem service_le_len (σ : Nat → Bool) (s len : Nat) : service σ s len ≤ len := by
  sorry

theorem service_add (σ : Nat → Bool) (s a b : Nat) :
    service σ s (a + b) = service σ s a + service σ (s + a) b := by
  sorry

/-- soundness: no compliant process delivers less than `provided_service` in any window -/
theorem cSbf_sound (Q D P : Nat) (hQ : 1 ≤ Q) (hQD : Q ≤ D) (hDP : D ≤ P)
    (σ : Nat → Bool) (hσ : Compliant Q D P σ) (s Δ : Nat) :
    cSbf Q D P Δ ≤ service σ s Δ := by
  sorry

theorem worst_compliant (Q D P : Nat) (hQ : 1 ≤ Q) (hQD : Q ≤ D) (hDP : D ≤ P) :
    Compliant Q D P (worst Q D P) := by
  sorry

/-- attainment: the adversarial process delivers exactly `provided_service` in the
window starting right after its first budget -/
theorem cSbf_attained (Q D P : Nat) (hQ : 1 ≤ Q) (hQD : Q ≤ D) (hDP : D ≤ P) (Δ : Nat) :
    service (worst Q D P) Q Δ = cSbf Q D P Δ := by
  sorry

end RTA
