import RTA.Lemmas.FpSoundEq
import RTA.Lemmas.FifoSound
import RTA.Lemmas.TightExistsFP
/-! C01 with hypotheses on the task set only: the workload hypotheses of `FpEqSetting` follow
from compliance of the job set with the task set (`Compliant`), with the interference set
the crate's documentation asks for (all other tasks of higher or equal priority). -/

open Finset Classical

namespace RTA.Sched
open RTA RTA.Spec RTA.Sched.J

/-- request bound of task `x` of the task set -/
def taskRB (ts : List (Arr × Cost)) (x : ℕ) : RB :=
  .rbf (ts.getD x default).1 (ts.getD x default).2

/-- the interference set the crate's documentation asks for: all OTHER tasks of higher or
equal priority, in index order -/
def hepOthers (ts : List (Arr × Cost)) (pr : ℕ → ℕ) (i : ℕ) : List RB :=
  ((List.range ts.length).filter (fun x => decide (pr x ≤ pr i ∧ x ≠ i))).map (taskRB ts)

open FifoSoundLemmas

namespace FpSoundCompliantLemmas

theorem taskRB_eq (ts : List (Arr × Cost)) (x : ℕ) (hx : x < ts.length) :
    taskRB ts x = .rbf (ts[x]).1 (ts[x]).2 := by
  unfold taskRB
  simp [List.getD_eq_getElem?_getD, List.getElem?_eq_getElem hx]

theorem sumList_append (a b : List ℕ) : sumList (a ++ b) = sumList a + sumList b := by
  rw [sumList_eq_sum, sumList_eq_sum, sumList_eq_sum, List.sum_append]

/-- a filtered sum over `range n` as a `sumList` of the mapped filtered list -/
theorem sum_range_ite_eq_sumList (n : ℕ) (p : ℕ → Prop) [DecidablePred p] (f : ℕ → ℕ) :
    (∑ k ∈ range n, if p k then f k else 0)
      = sumList (((List.range n).filter (fun k => decide (p k))).map f) := by
  induction n with
  | zero => simp [sumList]
  | succ n ih =>
    rw [Finset.sum_range_succ, List.range_succ, List.filter_append, List.map_append,
      sumList_append, ih]
    by_cases h : p n <;> simp [h, sumList]

/-- the workload of the tasks satisfying `P`, split by task -/
theorem workOf_eq_sum_ite (s : Sys) (n : ℕ) (hlt : ∀ k, k < s.n → s.task k < n)
    (P : ℕ → Prop) [DecidablePred P] (a b : ℕ) :
    workOf s P a b = ∑ x ∈ range n, if P x then workOf s (fun y => y = x) a b else 0 := by
  have e : ∀ x, (if P x then workOf s (fun y => y = x) a b else 0)
      = ∑ k ∈ range s.n, if P x then
          (if s.task k = x ∧ a ≤ s.arr k ∧ s.arr k < b then s.cost k else 0) else 0 := by
    intro x
    unfold workOf
    by_cases h : P x
    · simp only [h, if_true]
    · simp only [h, if_false, Finset.sum_const_zero]
  rw [Finset.sum_congr rfl (fun x _ => e x), Finset.sum_comm]
  unfold workOf
  apply Finset.sum_congr rfl
  intro k hk
  have hk' := hlt k (mem_range.1 hk)
  rw [Finset.sum_eq_single (s.task k)]
  · by_cases hp : P (s.task k)
    · simp only [hp, true_and, if_true]
    · simp only [hp, false_and, if_false]
  · intro x _ hx
    have : ¬ s.task k = x := fun h => hx h.symm
    simp only [this, false_and, if_false, ite_self]
  · intro h
    exact absurd (mem_range.2 hk') h

theorem sumNeed_hepOthers (ts : List (Arr × Cost)) (pr : ℕ → ℕ) (i d : ℕ) :
    sumNeed (hepOthers ts pr i) d
      = ∑ x ∈ range ts.length, if (pr x ≤ pr i ∧ x ≠ i) then (taskRB ts x).need d else 0 := by
  unfold sumNeed hepOthers
  rw [List.map_map]
  exact (sum_range_ite_eq_sumList ts.length (fun x => pr x ≤ pr i ∧ x ≠ i)
    (fun x => (taskRB ts x).need d)).symm

theorem task_work_le_taskRB (s : Sys) (ts : List (Arr × Cost))
    (hwf : ∀ p ∈ ts, p.1.WF ∧ p.2.WF) (hc : Compliant s ts) (x : ℕ) (hx : x < ts.length)
    (t d : ℕ) : workOf s (fun y => y = x) t (t + d) ≤ (taskRB ts x).need d := by
  rw [taskRB_eq ts x hx]
  have hmem : ts[x] ∈ ts := List.getElem_mem hx
  simp only [RB.need]
  exact task_work_le s x _ _ (hwf _ hmem).1 (hwf _ hmem).2 (hc.comp x hx) t d

theorem taskRB_arrWF (ts : List (Arr × Cost)) (hwf : ∀ p ∈ ts, p.1.WF ∧ p.2.WF)
    (x : ℕ) (hx : x < ts.length) : (taskRB ts x).ArrWF := by
  rw [taskRB_eq ts x hx]
  simp only [RB.ArrWF]
  exact (hwf _ (List.getElem_mem hx)).1

theorem othersOK_hepOthers' (ts : List (Arr × Cost)) (pr : ℕ → ℕ) (i : ℕ)
    (hwf : ∀ p ∈ ts, p.1.WF ∧ p.2.WF)
    (hex : ∀ x, x < ts.length → pr x ≤ pr i → x ≠ i → (taskRB ts x).Exact) :
    OthersOK (hepOthers ts pr i) := by
  intro o ho
  unfold hepOthers at ho
  obtain ⟨x, hx, rfl⟩ := List.mem_map.1 ho
  obtain ⟨hx1, hx2⟩ := List.mem_filter.1 hx
  have hx' : x < ts.length := List.mem_range.1 hx1
  have hp : pr x ≤ pr i ∧ x ≠ i := of_decide_eq_true hx2
  exact ⟨taskRB_arrWF ts hwf x hx', hex x hx' hp.1 hp.2⟩

theorem othersOK_hepOthers (ts : List (Arr × Cost)) (pr : ℕ → ℕ) (i : ℕ)
    (hwf : ∀ p ∈ ts, p.1.WF ∧ p.2.WF) (hex : ∀ x, x < ts.length → (taskRB ts x).Exact) :
    OthersOK (hepOthers ts pr i) := by
  intro o ho
  unfold hepOthers at ho
  obtain ⟨x, hx, rfl⟩ := List.mem_map.1 ho
  have hx' : x < ts.length := List.mem_range.1 (List.mem_filter.1 hx).1
  exact ⟨taskRB_arrWF ts hwf x hx', hex x hx'⟩

/-- number of releases of one task in any window is bounded by its arrival model -/
theorem task_cnt_le (s : Sys) (i : ℕ) (a : Arr) (c : Cost) (hwf : a.WF)
    (h : TaskCompliant s i a c) (t d : ℕ) :
    cntOf s (fun x => x = i) t (t + d) ≤ a.N d := by
  rw [TightExistsFPLemmas.cntOf_eq_cnt]
  exact Arr.bounds a hwf _ h.adm t d

/-- every job of a compliant task with scalar WCET `C` costs at most `C` -/
theorem job_cost_le (s : Sys) (i : ℕ) (a : Arr) (C : ℕ)
    (h : TaskCompliant s i a (.scalar C)) (j : ℕ) (hj : j < s.n) (hji : s.task j = i) :
    s.cost j ≤ C := by
  have hmem : j ∈ (List.range s.n).filter (fun k => decide (s.task k = i)) := by
    rw [List.mem_filter]
    exact ⟨List.mem_range.2 hj, by simp [hji]⟩
  obtain ⟨st, hst, hget⟩ := List.mem_iff_getElem.1 hmem
  have h1 := h.costs st 1
  have hlen : st < (costsOf s i).length := by
    unfold costsOf; rw [List.length_map]; exact hst
  have e : runSum (costsOf s i) st 1 = s.cost j := by
    unfold runSum
    rw [List.drop_eq_getElem_cons hlen]
    simp only [List.take_succ_cons, List.take_zero, List.sum_cons, List.sum_nil, Nat.add_zero]
    simp only [costsOf, List.getElem_map, hget]
  rw [e] at h1
  simpa [Cost.ofJobs] using h1

end FpSoundCompliantLemmas
open FpSoundCompliantLemmas

/-- the setting of the fixed-priority analyses from hypotheses on the task set: the job set
complies with the task set, the schedule is legal, lower-priority non-preemptive runs are at
most `B` long -/
theorem FpEqSetting.of_compliant (s : Sys) (ts : List (Arr × Cost)) (pr : ℕ → ℕ) (i : ℕ)
    (hi : i < ts.length)
    (hwf : ∀ p ∈ ts, p.1.WF ∧ p.2.WF) (hc : Compliant s ts)
    (hl : JlfpLegal s (hepFPe s pr)) (B : ℕ)
    (hblock : ∀ l, l < s.n → pr i < pr (s.task l) → ∀ x len,
      (∀ k, k < len → s.np l (x + k)) → len ≤ B)
    (hpos : ∀ k, k < s.n → 1 ≤ s.cost k) :
    FpEqSetting s pr i (taskRB ts i) (hepOthers ts pr i) B where
  legal := hl
  w_tua := fun t d => task_work_le_taskRB s ts hwf hc i hi t d
  w_hep := by
    intro t d
    rw [workOf_eq_sum_ite s ts.length hc.task_lt, sumNeed_hepOthers]
    apply Finset.sum_le_sum
    intro x hx
    have hx' : x < ts.length := mem_range.1 hx
    by_cases h : pr x ≤ pr i ∧ x ≠ i
    · rw [if_pos h, if_pos h]
      exact task_work_le_taskRB s ts hwf hc x hx' t d
    · rw [if_neg h, if_neg h]
  blocking := hblock
  cost_pos := hpos

/-- C01, fully preemptive, hypotheses on the task set only -/
theorem fp_preemptive_sound_of_compliant (s : Sys) (ts : List (Arr × Cost)) (pr : ℕ → ℕ) (i : ℕ)
    (hi : i < ts.length)
    (hwf : ∀ p ∈ ts, p.1.WF ∧ p.2.WF) (hex : ∀ x, x < ts.length → (taskRB ts x).Exact)
    (hc : Compliant s ts) (hl : JlfpLegal s (hepFPe s pr))
    (hnp : ∀ l x, ¬ s.np l x)
    (hpos : ∀ k, k < s.n → 1 ≤ s.cost k)
    (limit R : ℕ) (hR : fpPreemptive (taskRB ts i) (hepOthers ts pr i) limit = .ok R) :
    ∀ j, j < s.n → s.task j = i → MeetsBound s j R := by
  have hS : FpEqSetting s pr i (taskRB ts i) (hepOthers ts pr i) 0 := by
    refine FpEqSetting.of_compliant s ts pr i hi hwf hc hl 0 ?_ hpos
    intro l _ _ x len h
    rcases Nat.eq_zero_or_pos len with h0 | h0
    · omega
    · exact absurd (h 0 h0) (hnp l (x + 0))
  exact fpe_preemptive_sound s pr i _ _ hS (taskRB_arrWF ts hwf i hi) (hex i hi)
    (othersOK_hepOthers ts pr i hwf hex) limit R hR

/-- C01, floating non-preemptive regions, hypotheses on the task set only -/
theorem fp_floating_sound_of_compliant (s : Sys) (ts : List (Arr × Cost)) (pr : ℕ → ℕ) (i : ℕ)
    (hi : i < ts.length)
    (hwf : ∀ p ∈ ts, p.1.WF ∧ p.2.WF) (hex : ∀ x, x < ts.length → (taskRB ts x).Exact)
    (hc : Compliant s ts) (hl : JlfpLegal s (hepFPe s pr)) (B : ℕ)
    (hblock : ∀ l, l < s.n → pr i < pr (s.task l) → ∀ x len,
      (∀ k, k < len → s.np l (x + k)) → len ≤ B)
    (hpos : ∀ k, k < s.n → 1 ≤ s.cost k)
    (limit R : ℕ) (hR : fpFloating (taskRB ts i) B (hepOthers ts pr i) limit = .ok R) :
    ∀ j, j < s.n → s.task j = i → MeetsBound s j R :=
  fpe_floating_sound s pr i _ _ B
    (FpEqSetting.of_compliant s ts pr i hi hwf hc hl B hblock hpos)
    (taskRB_arrWF ts hwf i hi) (hex i hi) (othersOK_hepOthers ts pr i hwf hex) limit R hR

/-- C01, fully non-preemptive task under analysis with scalar WCET `C`, hypotheses on the
task set and on the placement of non-preemptive regions only -/
theorem fp_nonpreemptive_sound_of_compliant (s : Sys) (ts : List (Arr × Cost)) (pr : ℕ → ℕ)
    (i : ℕ) (hi : i < ts.length) (a : Arr) (C : ℕ) (hts : ts[i] = (a, .scalar C))
    (hwf : ∀ p ∈ ts, p.1.WF ∧ p.2.WF) (hexa : a.Exact)
    (hex : ∀ x, x < ts.length → pr x ≤ pr i → x ≠ i → (taskRB ts x).Exact)
    (hc : Compliant s ts) (hl : JlfpLegal s (hepFPe s pr)) (B : ℕ)
    (hblock : ∀ l, l < s.n → pr i < pr (s.task l) → ∀ x len,
      (∀ k, k < len → s.np l (x + k)) → len ≤ B)
    (hpos : ∀ k, k < s.n → 1 ≤ s.cost k)
    (hown : ∀ j, j < s.n → s.task j = i → ∀ x, 1 ≤ x → x < s.cost j → s.np j x)
    (limit R : ℕ) (hR : fpNonpreemptive a C B (hepOthers ts pr i) limit = .ok R) :
    ∀ j, j < s.n → s.task j = i → MeetsBound s j R := by
  have hS := FpEqSetting.of_compliant s ts pr i hi hwf hc hl B hblock hpos
  have hrb : taskRB ts i = .rbf a (.scalar C) := by rw [taskRB_eq ts i hi, hts]
  rw [hrb] at hS
  have hcomp : TaskCompliant s i a (.scalar C) := by
    have := hc.comp i hi
    rw [hts] at this
    exact this
  have hawf : a.WF := by
    have := (hwf _ (List.getElem_mem hi)).1
    rw [hts] at this
    exact this
  exact fpe_nonpreemptive_sound s pr i a C _ B hS hawf hexa
    (othersOK_hepOthers' ts pr i hwf hex)
    (task_cnt_le s i a _ hawf hcomp)
    (fun j hj hji => ⟨job_cost_le s i a C hcomp j hj hji, hown j hj hji⟩) limit R hR

/-- C01, limited-preemptive task under analysis with scalar WCET `C` and last segment
`last`, hypotheses on the task set and on the placement of non-preemptive regions only -/
theorem fp_limited_sound_of_compliant (s : Sys) (ts : List (Arr × Cost)) (pr : ℕ → ℕ)
    (i : ℕ) (hi : i < ts.length) (a : Arr) (C last : ℕ) (hts : ts[i] = (a, .scalar C))
    (hwf : ∀ p ∈ ts, p.1.WF ∧ p.2.WF) (hexa : a.Exact)
    (hex : ∀ x, x < ts.length → pr x ≤ pr i → x ≠ i → (taskRB ts x).Exact)
    (hc : Compliant s ts) (hl : JlfpLegal s (hepFPe s pr)) (B : ℕ)
    (hblock : ∀ l, l < s.n → pr i < pr (s.task l) → ∀ x len,
      (∀ k, k < len → s.np l (x + k)) → len ≤ B)
    (hpos : ∀ k, k < s.n → 1 ≤ s.cost k)
    (hlast1 : 1 ≤ last) (hlastC : last ≤ C)
    (hown : ∀ j, j < s.n → s.task j = i →
      ∀ x, max 1 (s.cost j - (last - 1)) ≤ x → x < s.cost j → s.np j x)
    (limit R : ℕ) (hR : fpLimited a C last B (hepOthers ts pr i) limit = .ok R) :
    ∀ j, j < s.n → s.task j = i → MeetsBound s j R := by
  have hS := FpEqSetting.of_compliant s ts pr i hi hwf hc hl B hblock hpos
  have hrb : taskRB ts i = .rbf a (.scalar C) := by rw [taskRB_eq ts i hi, hts]
  rw [hrb] at hS
  have hcomp : TaskCompliant s i a (.scalar C) := by
    have := hc.comp i hi
    rw [hts] at this
    exact this
  have hawf : a.WF := by
    have := (hwf _ (List.getElem_mem hi)).1
    rw [hts] at this
    exact this
  exact fpe_limited_sound s pr i a C last _ B hS hawf hexa
    (othersOK_hepOthers' ts pr i hwf hex) hlast1 hlastC
    (task_cnt_le s i a _ hawf hcomp)
    (fun j hj hji => ⟨job_cost_le s i a C hcomp j hj hji, hown j hj hji⟩) limit R hR

end RTA.Sched
