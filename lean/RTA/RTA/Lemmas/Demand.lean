import RTA.Model.Demand
import RTA.Lemmas.Cost
/-! Request-bound functions compose arrival and cost models additively (C16). -/

namespace RTA

namespace DemandLemmas

theorem insertDesc_perm (x : Nat) (l : List Nat) : (insertDesc x l).Perm (x :: l) := by
  induction l with
  | nil => simp [insertDesc]
  | cons y ys ih =>
    simp only [insertDesc]
    split
    · exact List.Perm.refl _
    · exact (List.Perm.cons y ih).trans (List.Perm.swap x y ys)

theorem insertDesc_sorted (x : Nat) (l : List Nat) (h : l.Pairwise (· ≥ ·)) :
    (insertDesc x l).Pairwise (· ≥ ·) := by
  induction l with
  | nil => simp [insertDesc]
  | cons y ys ih =>
    have h' := List.pairwise_cons.1 h
    simp only [insertDesc]
    split
    · rename_i hxy
      refine List.Pairwise.cons ?_ h
      intro z hz
      rcases List.mem_cons.1 hz with rfl | hz
      · exact hxy
      · have := h'.1 z hz
        omega
    · rename_i hxy
      refine List.Pairwise.cons ?_ (ih h'.2)
      intro z hz
      have hz' : z ∈ x :: ys := (insertDesc_perm x ys).mem_iff.1 hz
      rcases List.mem_cons.1 hz' with rfl | hz''
      · omega
      · exact h'.1 z hz''

theorem sumList_take_le (l : List Nat) (n : Nat) : sumList (l.take n) ≤ sumList l := by
  induction l generalizing n with
  | nil => simp [sumList]
  | cons x xs ih =>
    cases n with
    | zero => simp [sumList]
    | succ k =>
      simp only [List.take_succ_cons, sumList]
      have := ih k
      omega

/-- in a descending list the first `n` entries dominate every sublist of at most `n` entries -/
theorem sublist_sum_le_take (L : List Nat) (hL : L.Pairwise (· ≥ ·)) :
    ∀ (s : List Nat) (n : Nat), s.Sublist L → s.length ≤ n → sumList s ≤ sumList (L.take n) := by
  induction L with
  | nil =>
    intro s n hs _
    have : s = [] := List.sublist_nil.1 hs
    subst this
    simp [sumList]
  | cons y ys ih =>
    intro s n hs hn
    have hL' := List.pairwise_cons.1 hL
    cases s with
    | nil => simp [sumList]
    | cons z s' =>
      cases n with
      | zero => simp at hn
      | succ k =>
        have hz : z ∈ y :: ys := hs.subset (List.mem_cons_self)
        have hzy : z ≤ y := by
          rcases List.mem_cons.1 hz with rfl | hz'
          · exact Nat.le_refl _
          · exact hL'.1 z hz'
        have hs' : s'.Sublist ys := by
          have := hs.tail
          simpa using this
        have hlen : s'.length ≤ k := by
          simp only [List.length_cons] at hn
          omega
        have := ih hL'.2 s' k hs' hlen
        simp only [List.take_succ_cons, sumList]
        omega

theorem minList?_le (l : List Nat) (v : Nat) (hv : v ∈ l) : ∃ m, minList? l = some m ∧ m ≤ v := by
  induction l with
  | nil => simp at hv
  | cons x xs ih =>
    rcases List.mem_cons.1 hv with rfl | hv'
    · simp only [minList?]
      cases minList? xs with
      | none => exact ⟨_, rfl, Nat.le_refl _⟩
      | some m => exact ⟨_, rfl, Nat.min_le_left _ _⟩
    · obtain ⟨m, hm, hle⟩ := ih hv'
      simp only [minList?, hm]
      exact ⟨_, rfl, Nat.le_trans (Nat.min_le_right _ _) hle⟩

theorem leastList_eq_map (rs : List RB) (d : Nat) :
    RB.leastList rs d = rs.map (·.leastWcet d) := by
  induction rs with
  | nil => simp [RB.leastList]
  | cons r rs ih => simp [RB.leastList, ih]

theorem needList_eq (rs : List RB) (d : Nat) :
    RB.needList rs d = sumList (rs.map (·.need d)) := by
  induction rs with
  | nil => simp [RB.needList, sumList]
  | cons r rs ih => simp [RB.needList, sumList, ih]

theorem sumList_append' (l1 l2 : List Nat) : sumList (l1 ++ l2) = sumList l1 + sumList l2 := by
  induction l1 with
  | nil => simp [sumList]
  | cons x xs ih =>
    simp only [List.cons_append, sumList, ih]
    omega

mutual
theorem jobCosts_sum' : (r : RB) → r.WF → ∀ d, sumList (r.jobCosts d) = r.need d
  | .rbf a c, hwf, d => by
    simp only [RB.jobCosts, RB.need]
    exact Cost.items_sum c (by simpa [RB.WF] using hwf.2) _
  | .agg rs, hwf, d => by
    simp only [RB.jobCosts, RB.need]
    exact jobCostsList_sum' rs (by simpa [RB.WF] using hwf) d
theorem jobCostsList_sum' : (rs : List RB) → RB.WFlist rs →
    ∀ d, sumList (RB.jobCostsList rs d) = RB.needList rs d
  | [], _, d => by simp [RB.jobCostsList, RB.needList, sumList]
  | r :: rs, hwf, d => by
    have hwf' : r.WF ∧ RB.WFlist rs := by simpa [RB.WFlist] using hwf
    simp only [RB.jobCostsList, RB.needList, sumList_append']
    rw [jobCosts_sum' r hwf'.1 d, jobCostsList_sum' rs hwf'.2 d]
end

theorem leastWcet_agg_le' (rs : List RB) (d : Nat) (r : RB) (hr : r ∈ rs) :
    (RB.agg rs).leastWcet d ≤ r.leastWcet d := by
  simp only [RB.leastWcet]
  have hmem : r.leastWcet d ∈ RB.leastList rs d := by
    rw [leastList_eq_map]
    exact List.mem_map.2 ⟨r, hr, rfl⟩
  obtain ⟨m, hm, hle⟩ := minList?_le _ _ hmem
  rw [hm]
  exact hle

mutual
theorem leastWcet_le_jobCost' : (r : RB) → r.WF → ∀ d x, x ∈ r.jobCosts d → r.leastWcet d ≤ x
  | .rbf a c, hwf, d, x, hx => by
    simp only [RB.jobCosts] at hx
    simp only [RB.leastWcet]
    exact Cost.least_le c (by simpa [RB.WF] using hwf.2) _ x hx
  | .agg rs, hwf, d, x, hx => by
    simp only [RB.jobCosts] at hx
    obtain ⟨r, hr, hle⟩ := leastWcetList_le_jobCost' rs (by simpa [RB.WF] using hwf) d x hx
    exact Nat.le_trans (leastWcet_agg_le' rs d r hr) hle
theorem leastWcetList_le_jobCost' : (rs : List RB) → RB.WFlist rs →
    ∀ d x, x ∈ RB.jobCostsList rs d → ∃ r, r ∈ rs ∧ r.leastWcet d ≤ x
  | [], _, d, x, hx => by simp [RB.jobCostsList] at hx
  | r :: rs, hwf, d, x, hx => by
    have hwf' : r.WF ∧ RB.WFlist rs := by simpa [RB.WFlist] using hwf
    simp only [RB.jobCostsList, List.mem_append] at hx
    rcases hx with hx | hx
    · exact ⟨r, List.mem_cons_self, leastWcet_le_jobCost' r hwf'.1 d x hx⟩
    · obtain ⟨r', hr', hle⟩ := leastWcetList_le_jobCost' rs hwf'.2 d x hx
      exact ⟨r', List.mem_cons_of_mem _ hr', hle⟩
end

mutual
theorem guards_of_wf' : (r : RB) → r.WF → ∀ d,
    r.arrWF = true ∧ r.itemsGuard d = true ∧ r.leastGuard d = true
  | .rbf a c, hwf, d => by
    have hwf' : a.WF ∧ c.WF := by simpa [RB.WF] using hwf
    simp only [RB.arrWF, RB.itemsGuard, RB.leastGuard]
    exact ⟨decide_eq_true hwf'.1, Cost.itemsGuard_of_wf c hwf'.2 _, Cost.leastGuard_of_wf c hwf'.2 _⟩
  | .agg rs, hwf, d => by
    simp only [RB.arrWF, RB.itemsGuard, RB.leastGuard]
    exact guardsList_of_wf' rs (by simpa [RB.WF] using hwf) d
theorem guardsList_of_wf' : (rs : List RB) → RB.WFlist rs → ∀ d,
    RB.arrWFlist rs = true ∧ RB.itemsGuardList rs d = true ∧ RB.leastGuardList rs d = true
  | [], _, d => by simp [RB.arrWFlist, RB.itemsGuardList, RB.leastGuardList]
  | r :: rs, hwf, d => by
    have hwf' : r.WF ∧ RB.WFlist rs := by simpa [RB.WFlist] using hwf
    have h1 := guards_of_wf' r hwf'.1 d
    have h2 := guardsList_of_wf' rs hwf'.2 d
    simp only [RB.arrWFlist, RB.itemsGuardList, RB.leastGuardList, Bool.and_eq_true]
    exact ⟨⟨h1.1, h2.1⟩, ⟨h1.2.1, h2.2.1⟩, ⟨h1.2.2, h2.2.2⟩⟩
end

end DemandLemmas

open DemandLemmas

theorem sortDesc_perm (l : List Nat) : (sortDesc l).Perm l := by
  induction l with
  | nil => simp [sortDesc]
  | cons x xs ih =>
    simp only [sortDesc]
    exact (insertDesc_perm x _).trans (List.Perm.cons x ih)

theorem sortDesc_sorted (l : List Nat) : (sortDesc l).Pairwise (· ≥ ·) := by
  induction l with
  | nil => simp [sortDesc]
  | cons x xs ih =>
    simp only [sortDesc]
    exact insertDesc_sorted x _ ih

theorem sumList_perm (l1 l2 : List Nat) (h : l1.Perm l2) : sumList l1 = sumList l2 := by
  induction h with
  | nil => rfl
  | cons x _ ih => simp only [sumList, ih]
  | swap x y l => simp only [sumList]; omega
  | trans _ _ ih1 ih2 => exact ih1.trans ih2

theorem sumList_append (l1 l2 : List Nat) : sumList (l1 ++ l2) = sumList l1 + sumList l2 :=
  sumList_append' l1 l2

/-- the first `n` entries of a descending list have the largest sum among all sublists of
at most `n` entries -/
theorem take_sortDesc_max (l s : List Nat) (n : Nat) (hs : s.Sublist l) (hn : s.length ≤ n) :
    sumList s ≤ sumList ((sortDesc l).take n) := by
  obtain ⟨s', hp, hsub⟩ := List.exists_perm_sublist hs (sortDesc_perm l).symm
  rw [← sumList_perm s' s hp]
  exact sublist_sum_le_take _ (sortDesc_sorted l) s' n hsub (by rw [hp.length_eq]; exact hn)

/-- an RBF's `service_needed(delta)` is the cost of `number_arrivals(delta)` jobs -/
theorem RB.need_rbf (a : Arr) (c : Cost) (d : Nat) : (RB.rbf a c).need d = c.ofJobs (a.N d) := by
  simp [RB.need]

/-- for aggregates / slices, `service_needed` is the sum over the components -/
theorem RB.need_agg (rs : List RB) (d : Nat) : (RB.agg rs).need d = sumList (rs.map (·.need d)) := by
  simp only [RB.need]
  exact needList_eq rs d

/-- `job_cost_iter(delta)` sums to `service_needed(delta)` (all nestings) -/
theorem RB.jobCosts_sum (r : RB) (hwf : r.WF) (d : Nat) : sumList (r.jobCosts d) = r.need d :=
  jobCosts_sum' r hwf d

/-- `least_wcet_in_interval` of an aggregate is no larger than that of any component -/
theorem RB.leastWcet_agg_le (rs : List RB) (d : Nat) (r : RB) (hr : r ∈ rs) :
    (RB.agg rs).leastWcet d ≤ r.leastWcet d :=
  leastWcet_agg_le' rs d r hr

/-- … and `least_wcet_in_interval` is no larger than any job cost in the interval -/
theorem RB.leastWcet_le_jobCost (r : RB) (hwf : r.WF) (d : Nat) :
    ∀ x ∈ r.jobCosts d, r.leastWcet d ≤ x :=
  fun x hx => leastWcet_le_jobCost' r hwf d x hx

/-- `service_needed_by_n_jobs` is non-decreasing in `n` -/
theorem RB.needByN_mono (r : RB) (d n m : Nat) (h : n ≤ m) : r.needByN d n ≤ r.needByN d m := by
  unfold RB.needByN
  have h1 : (sortDesc (r.jobCosts d)).take n = ((sortDesc (r.jobCosts d)).take m).take n := by
    rw [List.take_take, Nat.min_eq_left h]
  rw [h1]
  exact sumList_take_le _ _

/-- … never exceeds `service_needed` -/
theorem RB.needByN_le_need (r : RB) (hwf : r.WF) (d n : Nat) : r.needByN d n ≤ r.need d := by
  unfold RB.needByN
  rw [← RB.jobCosts_sum r hwf d, ← sumList_perm _ _ (sortDesc_perm (r.jobCosts d))]
  exact sumList_take_le _ _

/-- … equals it once `n` reaches the number of jobs -/
theorem RB.needByN_eq_need (r : RB) (hwf : r.WF) (d n : Nat) (hn : (r.jobCosts d).length ≤ n) :
    r.needByN d n = r.need d := by
  unfold RB.needByN
  rw [List.take_of_length_le (by rw [(sortDesc_perm (r.jobCosts d)).length_eq]; exact hn),
    sumList_perm _ _ (sortDesc_perm (r.jobCosts d)), RB.jobCosts_sum r hwf d]

/-- … and is the sum of the `n` largest job costs: no selection of at most `n` of the job
costs has a larger sum, and it is itself the sum of such a selection -/
theorem RB.needByN_largest (r : RB) (d n : Nat) :
    (∀ s : List Nat, s.Sublist (r.jobCosts d) → s.length ≤ n → sumList s ≤ r.needByN d n) ∧
    (∃ s : List Nat, s.Perm ((sortDesc (r.jobCosts d)).take n) ∧ s.length ≤ n ∧
        sumList s = r.needByN d n) := by
  refine ⟨fun s hs hn => take_sortDesc_max _ s n hs hn, ?_⟩
  refine ⟨(sortDesc (r.jobCosts d)).take n, List.Perm.refl _, ?_, rfl⟩
  rw [List.length_take]
  exact Nat.min_le_left _ _

/-- the per-component variant is the sum of the components' restricted demands -/
theorem RB.needByNPerComponent_agg (rs : List RB) (d n : Nat) :
    (RB.agg rs).needByNPerComponent d n = sumList (rs.map fun r => r.needByN d n) := by
  simp [RB.needByNPerComponent]

/-- the number of job costs of an RBF is the number of arrivals (for a non-empty
multiframe vector) -/
theorem RB.jobCosts_length_rbf (a : Arr) (c : Cost) (d : Nat)
    (hc : ∀ cs, c = .multiframe cs → cs ≠ []) : ((RB.rbf a c).jobCosts d).length = a.N d := by
  simp only [RB.jobCosts]
  cases c with
  | scalar c => simp [Cost.items]
  | multiframe cs =>
    simp only [Cost.items]
    exact cycleTake_length cs (hc cs rfl) _ _
  | curve w => simp [Cost.items]
  | xcurve w => simp [Cost.items]

/-- on well-formed request bounds the model guards hold -/
theorem RB.guards_of_wf (r : RB) (hwf : r.WF) (d : Nat) :
    r.arrWF = true ∧ r.itemsGuard d = true ∧ r.leastGuard d = true :=
  guards_of_wf' r hwf d

end RTA
