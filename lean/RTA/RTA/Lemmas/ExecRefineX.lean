import RTA.Lemmas.ExecRefine
import RTA.Spec.Ros2ExecX
/-! Refinement for the executor transition system with ARBITRARY execution times
(`RTA/Spec/Ros2ExecX.lean`, no chains): every run satisfies the schedule-level Specs
`PollingExecLegal` and `SupplyTimerLegal`.  Adapted copy of `Lemmas/ExecRefine.lean`; the jobs
are the release events exactly as in `Exec.toSys`, the cost of a job is the execution time that
the instance actually gets (`ex i t0`, `t0` its start slot; the WCET if it never starts). -/

open Finset

namespace RTA.ExecX
open RTA RTA.Sched RTA.Exec

variable (cbs : List Cb) (ex : ℕ → ℕ → ℕ) (sigma : ℕ → Bool) (rels : ℕ → List ℕ)

/-- the state at the beginning of slot `t` -/
def stateAt : ℕ → State
  | 0 => State.init cbs.length
  | t + 1 => (step cbs ex (fun _ => none) t (sigma t) (rels t) (stateAt t)).1

/-- the state in slot `t` after the releases of `t` have been recorded and, if the slot is
supplied and nothing is running, the executor has picked -/
def pickedAt (t : ℕ) : State :=
  let s1 := { stateAt cbs ex sigma rels t with queue := addReleases (stateAt cbs ex sigma rels t).queue (rels t) t }
  if !sigma t then s1 else
  match s1.running with
  | some _ => s1
  | none => pick cbs ex t s1

/-- the callback served in slot `t`, if any -/
def servedCb (t : ℕ) : Option ℕ :=
  if !sigma t then none else (pickedAt cbs ex sigma rels t).running.map (·.1)

/-- slot `t` starts a new instance of callback `i` -/
def startsCb (t i : ℕ) : Bool :=
  sigma t && (({ stateAt cbs ex sigma rels t with
      queue := addReleases (stateAt cbs ex sigma rels t).queue (rels t) t } : State).running.isNone) &&
    (servedCb cbs ex sigma rels t == some i)

/-- number of instances of callback `i` started in slots `< t` -/
def startedBefore (i : ℕ) : ℕ → ℕ
  | 0 => 0
  | t + 1 => startedBefore i t + (if startsCb cbs ex sigma rels t i then 1 else 0)

/-- slot `t` is a polling point: supplied, nothing running, no timer pending, ready set empty -/
def isPP (t : ℕ) : Bool :=
  let s1 : State := { stateAt cbs ex sigma rels t with
    queue := addReleases (stateAt cbs ex sigma rels t).queue (rels t) t }
  sigma t && s1.running.isNone && (pendingTimers cbs s1.queue).isEmpty && s1.ready.isEmpty

/-- the schedule of the run's job system: slot `t` serves the job that is the
`startedBefore`-th (if the slot starts an instance) resp. `startedBefore - 1`-th (if it
continues one) release event of the served callback -/
def schedX (H : ℕ) (t : ℕ) : Option ℕ :=
  match servedCb cbs ex sigma rels t with
  | none => none
  | some i =>
    let m := startedBefore cbs ex sigma rels i t
    nthEventOf rels H i (if startsCb cbs ex sigma rels t i then m else m - 1)

open Classical in
/-- the cost of job `k` = the execution time its instance actually gets: `ex i t0` where `t0` is
the first slot in which the job is served (its start slot); the WCET if it is never served -/
noncomputable def costX (H : ℕ) (k : ℕ) : ℕ :=
  if h : ∃ t, schedX cbs ex sigma rels H t = some k ∧ ∀ u, u < t → schedX cbs ex sigma rels H u ≠ some k
  then ex ((events rels H).getD k (0, 0)).2 (Classical.choose h)
  else (cbs.getD ((events rels H).getD k (0, 0)).2 default).cost

/-- the job system of a run: jobs = release events (as in `Exec.toSys`), costs = actual
execution times -/
noncomputable def toSysX (H : ℕ) : Sys where
  n := (events rels H).length
  task := fun k => ((events rels H).getD k (0, 0)).2
  arr := fun k => ((events rels H).getD k (0, 0)).1
  cost := costX cbs ex sigma rels H
  np := fun _ _ => False
  sched := schedX cbs ex sigma rels H

/-- executor facts of the run -/
def toInfoX : ExecInfo where
  isTimer := fun i => (cbs.getD i default).isTimer
  prio := fun i => (cbs.getD i default).prio
  pp := isPP cbs ex sigma rels

namespace RefineXLemmas
open RTA.Exec.RefineLemmas

/-! ### what happens in one slot -/

/-- the state in slot `t` after the releases of `t` have been recorded -/
def relAt (t : ℕ) : State :=
  { stateAt cbs ex sigma rels t with
    queue := addReleases (stateAt cbs ex sigma rels t).queue (rels t) t }

/-- the end of a supplied slot: the running instance progresses by one unit -/
def finish (s2 : State) : State :=
  match s2.running with
  | none => s2
  | some (i, rem, r) =>
    if rem ≤ 1 then { s2 with running := none } else { s2 with running := some (i, rem - 1, r) }

theorem finish_aux (t : ℕ) (s2 : State) :
    (match s2.running with
      | none => ((s2, none) : State × Option (ℕ × ℕ × ℕ))
      | some (i, rem, r) =>
        if rem ≤ 1 then
          let q := match (fun _ => none : ℕ → Option ℕ) i with
            | some j => addReleases s2.queue [j] (t + 1)
            | none => s2.queue
          ({ s2 with queue := q, running := none }, some (i, r, t + 1))
        else ({ s2 with running := some (i, rem - 1, r) }, none)).1 = finish s2 := by
  unfold finish
  rcases s2.running with _ | ⟨i, rem, r⟩
  · rfl
  · simp only
    split <;> rfl

theorem stateAt_succ (t : ℕ) : stateAt cbs ex sigma rels (t + 1) =
    if sigma t = true then finish (pickedAt cbs ex sigma rels t) else relAt cbs ex sigma rels t := by
  cases hs : sigma t with
  | false => simp [stateAt, step, hs, relAt]
  | true =>
    simp only [stateAt, step, pickedAt, hs, relAt]
    simp only [Bool.not_true, Bool.false_eq_true, if_false, if_true]
    exact finish_aux t _

theorem pickedAt_eq (t : ℕ) : pickedAt cbs ex sigma rels t =
    if sigma t = true then
      (match (relAt cbs ex sigma rels t).running with
        | some _ => relAt cbs ex sigma rels t
        | none => pick cbs ex t (relAt cbs ex sigma rels t))
    else relAt cbs ex sigma rels t := by
  cases hs : sigma t <;> simp [pickedAt, hs, relAt]

theorem pick_timer (t : ℕ) (s : State) (i : ℕ) (h : bestOf cbs (pendingTimers cbs s.queue) = some i) :
    pick cbs ex t s =
      { queue := s.queue.set i ((s.queue.getD i []).drop 1), ready := s.ready,
        running := some (i, ex i t, (s.queue.getD i []).headD 0) } := by
  simp [pick, h, popInstance]

theorem pick_polled (t : ℕ) (s : State) (i : ℕ) (h : bestOf cbs (pendingTimers cbs s.queue) = none)
    (h2 : bestOf cbs (if s.ready.isEmpty then pendingPolled cbs s.queue else s.ready) = some i) :
    pick cbs ex t s =
      { queue := s.queue.set i ((s.queue.getD i []).drop 1),
        ready := (if s.ready.isEmpty then pendingPolled cbs s.queue else s.ready).erase i,
        running := some (i, ex i t, (s.queue.getD i []).headD 0) } := by
  simp only [pick, h, h2, popInstance]

theorem pick_none (t : ℕ) (s : State) (h : bestOf cbs (pendingTimers cbs s.queue) = none)
    (h2 : bestOf cbs (if s.ready.isEmpty then pendingPolled cbs s.queue else s.ready) = none) :
    pick cbs ex t s = { s with ready := (if s.ready.isEmpty then pendingPolled cbs s.queue else s.ready) } := by
  simp only [pick, h, h2]

theorem isPP_eq (t : ℕ) : isPP cbs ex sigma rels t =
    (sigma t && (relAt cbs ex sigma rels t).running.isNone &&
      (pendingTimers cbs (relAt cbs ex sigma rels t).queue).isEmpty &&
      (relAt cbs ex sigma rels t).ready.isEmpty) := rfl

theorem startsCb_eq (t c : ℕ) : startsCb cbs ex sigma rels t c =
    (sigma t && (relAt cbs ex sigma rels t).running.isNone &&
      (servedCb cbs ex sigma rels t == some c)) := rfl

theorem servedCb_eq (t : ℕ) : servedCb cbs ex sigma rels t =
    if sigma t = true then (pickedAt cbs ex sigma rels t).running.map (·.1) else none := by
  cases hs : sigma t <;> simp [servedCb, hs]

section cases
variable {cbs ex sigma rels}
variable {t : ℕ}

theorem slotA (hs : sigma t = false) :
    servedCb cbs ex sigma rels t = none ∧ (∀ c, startsCb cbs ex sigma rels t c = false) ∧
    isPP cbs ex sigma rels t = false ∧
    stateAt cbs ex sigma rels (t + 1) = relAt cbs ex sigma rels t := by
  refine ⟨by simp [servedCb_eq, hs], fun c => by simp [startsCb_eq, hs], by simp [isPP_eq, hs],
    by simp [stateAt_succ, hs]⟩

theorem slotB (hs : sigma t = true) {i rem r : ℕ}
    (hr : (relAt cbs ex sigma rels t).running = some (i, rem, r)) :
    servedCb cbs ex sigma rels t = some i ∧ (∀ c, startsCb cbs ex sigma rels t c = false) ∧
    isPP cbs ex sigma rels t = false ∧
    stateAt cbs ex sigma rels (t + 1) = { relAt cbs ex sigma rels t with
      running := if rem ≤ 1 then none else some (i, rem - 1, r) } := by
  have hp : pickedAt cbs ex sigma rels t = relAt cbs ex sigma rels t := by
    rw [pickedAt_eq]; simp [hs, hr]
  refine ⟨by simp [servedCb_eq, hs, hp, hr], fun c => by simp [startsCb_eq, hr],
    by simp [isPP_eq, hr], ?_⟩
  rw [stateAt_succ, if_pos hs, hp, finish]
  simp only [hr]
  split <;> rfl

theorem slotC (hs : sigma t = true) (hr : (relAt cbs ex sigma rels t).running = none) {i : ℕ}
    (hb : bestOf cbs (pendingTimers cbs (relAt cbs ex sigma rels t).queue) = some i) :
    servedCb cbs ex sigma rels t = some i ∧ (∀ c, startsCb cbs ex sigma rels t c = true ↔ c = i) ∧
    isPP cbs ex sigma rels t = false ∧
    stateAt cbs ex sigma rels (t + 1) =
      { queue := (relAt cbs ex sigma rels t).queue.set i
          (((relAt cbs ex sigma rels t).queue.getD i []).drop 1),
        ready := (relAt cbs ex sigma rels t).ready,
        running := if ex i t ≤ 1 then none else
          some (i, ex i t - 1, ((relAt cbs ex sigma rels t).queue.getD i []).headD 0) } := by
  have hp0 : pickedAt cbs ex sigma rels t = pick cbs ex t (relAt cbs ex sigma rels t) := by
    rw [pickedAt_eq, if_pos hs]; simp only [hr]
  have hp := hp0.trans (pick_timer cbs ex t _ i hb)
  have hsv : servedCb cbs ex sigma rels t = some i := by simp [servedCb_eq, hs, hp]
  refine ⟨hsv, fun c => ?_, ?_, ?_⟩
  · rw [startsCb_eq, hs, hr, hsv]
    simp only [Option.isNone_none, Bool.and_self, Bool.true_and, beq_iff_eq, Option.some.injEq]
    exact eq_comm
  · have : pendingTimers cbs (relAt cbs ex sigma rels t).queue ≠ [] := by
      intro h; rw [h] at hb; simp [bestOf] at hb
    simp [isPP_eq, this]
  · rw [stateAt_succ, if_pos hs, hp, finish]
    simp only
    split <;> rfl

theorem slotD (hs : sigma t = true) (hr : (relAt cbs ex sigma rels t).running = none)
    (hb : bestOf cbs (pendingTimers cbs (relAt cbs ex sigma rels t).queue) = none) {i : ℕ}
    (hb2 : bestOf cbs (if (relAt cbs ex sigma rels t).ready.isEmpty
      then pendingPolled cbs (relAt cbs ex sigma rels t).queue else (relAt cbs ex sigma rels t).ready) = some i) :
    servedCb cbs ex sigma rels t = some i ∧ (∀ c, startsCb cbs ex sigma rels t c = true ↔ c = i) ∧
    isPP cbs ex sigma rels t = (relAt cbs ex sigma rels t).ready.isEmpty ∧
    stateAt cbs ex sigma rels (t + 1) =
      { queue := (relAt cbs ex sigma rels t).queue.set i
          (((relAt cbs ex sigma rels t).queue.getD i []).drop 1),
        ready := (if (relAt cbs ex sigma rels t).ready.isEmpty
          then pendingPolled cbs (relAt cbs ex sigma rels t).queue else (relAt cbs ex sigma rels t).ready).erase i,
        running := if ex i t ≤ 1 then none else
          some (i, ex i t - 1, ((relAt cbs ex sigma rels t).queue.getD i []).headD 0) } := by
  have hp0 : pickedAt cbs ex sigma rels t = pick cbs ex t (relAt cbs ex sigma rels t) := by
    rw [pickedAt_eq, if_pos hs]; simp only [hr]
  have hp := hp0.trans (pick_polled cbs ex t _ i hb hb2)
  have hsv : servedCb cbs ex sigma rels t = some i := by simp [servedCb_eq, hs, hp]
  refine ⟨hsv, fun c => ?_, ?_, ?_⟩
  · rw [startsCb_eq, hs, hr, hsv]
    simp only [Option.isNone_none, Bool.and_self, Bool.true_and, beq_iff_eq, Option.some.injEq]
    exact eq_comm
  · rw [bestOf_eq_none] at hb
    simp [isPP_eq, hb, hs, hr]
  · rw [stateAt_succ, if_pos hs, hp, finish]
    simp only
    split <;> rfl

theorem slotE (hs : sigma t = true) (hr : (relAt cbs ex sigma rels t).running = none)
    (hb : bestOf cbs (pendingTimers cbs (relAt cbs ex sigma rels t).queue) = none)
    (hb2 : bestOf cbs (if (relAt cbs ex sigma rels t).ready.isEmpty
      then pendingPolled cbs (relAt cbs ex sigma rels t).queue else (relAt cbs ex sigma rels t).ready) = none) :
    servedCb cbs ex sigma rels t = none ∧ (∀ c, startsCb cbs ex sigma rels t c = false) ∧
    isPP cbs ex sigma rels t = (relAt cbs ex sigma rels t).ready.isEmpty ∧
    stateAt cbs ex sigma rels (t + 1) = { relAt cbs ex sigma rels t with
      ready := (if (relAt cbs ex sigma rels t).ready.isEmpty
          then pendingPolled cbs (relAt cbs ex sigma rels t).queue else (relAt cbs ex sigma rels t).ready) } := by
  have hp0 : pickedAt cbs ex sigma rels t = pick cbs ex t (relAt cbs ex sigma rels t) := by
    rw [pickedAt_eq, if_pos hs]; simp only [hr]
  have hp := hp0.trans (pick_none cbs ex t _ hb hb2)
  have hsv : servedCb cbs ex sigma rels t = none := by simp [servedCb_eq, hs, hp, hr]
  refine ⟨hsv, fun c => ?_, ?_, ?_⟩
  · simp [startsCb_eq, hsv]
  · rw [bestOf_eq_none] at hb
    simp [isPP_eq, hb, hs, hr]
  · rw [stateAt_succ, if_pos hs, hp, finish]
    simp only [hr]

end cases

/-! ### layer 1: queues, running instance, local facts about the ready set -/

local notation "St" => stateAt cbs ex sigma rels
local notation "Rl" => relAt cbs ex sigma rels
local notation "sb" => startedBefore cbs ex sigma rels

structure Inv1 (t : ℕ) : Prop where
  qlen : (St t).queue.length = cbs.length
  q : ∀ i, i < cbs.length → ((St t).queue.getD i []).length + sb i t = cnt rels i t
  runOk : ∀ i rem r, (St t).running = some (i, rem, r) → i < cbs.length ∧ 1 ≤ sb i t ∧ 1 ≤ rem
  rNodup : (St t).ready.Nodup
  rPolled : ∀ c ∈ (St t).ready, c < cbs.length ∧ (cbs.getD c default).isTimer = false
  rPend : ∀ c ∈ (St t).ready, 0 < ((St t).queue.getD c []).length

theorem relAt_qlen (t : ℕ) : (Rl t).queue.length = (St t).queue.length :=
  addReleases_length _ _ _

theorem relAt_getD (t i : ℕ) (hi : i < (St t).queue.length) :
    ((Rl t).queue.getD i []).length = ((St t).queue.getD i []).length + (rels t).count i :=
  addReleases_getD _ _ _ _ hi

variable {cbs ex sigma rels} in
theorem Inv1.rq {t : ℕ} (h : Inv1 cbs ex sigma rels t) (i : ℕ) (hi : i < cbs.length) :
    ((Rl t).queue.getD i []).length + sb i t = cnt rels i (t + 1) := by
  rw [relAt_getD cbs ex sigma rels t i (by rw [h.qlen]; exact hi), cnt]
  have := h.q i hi
  omega

theorem sb_succ (i t : ℕ) : sb i (t + 1) = sb i t + if startsCb cbs ex sigma rels t i = true then 1 else 0 := rfl

theorem inv1_zero : Inv1 cbs ex sigma rels 0 where
  qlen := by simp [stateAt, State.init]
  q := fun i hi => by simp [stateAt, State.init, startedBefore, cnt, List.getD_eq_getElem?_getD, hi]
  runOk := fun i rem r h => by simp [stateAt, State.init] at h
  rNodup := by simp [stateAt, State.init]
  rPolled := fun c hc => by simp [stateAt, State.init] at hc
  rPend := fun c hc => by simp [stateAt, State.init] at hc

/-- the ready set used by `pick` in slot `t` -/
def readyAt (t : ℕ) : List ℕ :=
  if (Rl t).ready.isEmpty then pendingPolled cbs (Rl t).queue else (Rl t).ready

section step1
variable {cbs ex sigma rels}
variable (hidx : ∀ t, ∀ i ∈ rels t, i < cbs.length)

variable {t : ℕ}

theorem readyAt_nodup (h : Inv1 cbs ex sigma rels t) : (readyAt cbs ex sigma rels t).Nodup := by
  unfold readyAt
  split
  · exact nodup_pendingPolled _ _
  · exact h.rNodup

theorem readyAt_mem (h : Inv1 cbs ex sigma rels t) : ∀ c ∈ readyAt cbs ex sigma rels t,
    c < cbs.length ∧ (cbs.getD c default).isTimer = false ∧ 0 < ((Rl t).queue.getD c []).length := by
  intro c hc
  unfold readyAt at hc
  split at hc
  · exact (mem_pendingPolled _ _ _).1 hc
  · have h1 := h.rPolled c hc
    refine ⟨h1.1, h1.2, ?_⟩
    rw [relAt_getD cbs ex sigma rels t c (by rw [h.qlen]; exact h1.1)]
    have := h.rPend c hc
    omega

theorem inv1_keep (h : Inv1 cbs ex sigma rels t) (hst : ∀ c, startsCb cbs ex sigma rels t c = false)
    (run' : Option (ℕ × ℕ × ℕ)) (ready' : List ℕ)
    (hrun : ∀ i rem r, run' = some (i, rem, r) → ∃ rem0, (St t).running = some (i, rem0, r) ∧ 1 ≤ rem)
    (hready : ready' = (St t).ready ∨ ready' = [])
    (hnext : St (t + 1) = { queue := (Rl t).queue, ready := ready', running := run' }) :
    Inv1 cbs ex sigma rels (t + 1) := by
  have hsb : ∀ i, sb i (t + 1) = sb i t := fun i => by rw [sb_succ, hst]; simp
  have hlen : (Rl t).queue.length = cbs.length := by rw [relAt_qlen, h.qlen]
  refine ⟨by rw [hnext]; exact hlen, ?_, ?_, ?_, ?_, ?_⟩
  · intro i hi; rw [hnext, hsb]; exact h.rq i hi
  · intro i rem r hr
    rw [hnext] at hr
    obtain ⟨rem0, h0, h1⟩ := hrun i rem r hr
    have := h.runOk i rem0 r h0
    rw [hsb]; exact ⟨this.1, this.2.1, h1⟩
  · rw [hnext]; rcases hready with e | e <;> simp only [e]
    · exact h.rNodup
    · exact List.nodup_nil
  · rw [hnext]; rcases hready with e | e <;> simp only [e]
    · exact h.rPolled
    · intro c hc; cases hc
  · rw [hnext]; rcases hready with e | e <;> simp only [e]
    · intro c hc
      have h1 := h.rPolled c hc
      rw [relAt_getD cbs ex sigma rels t c (by rw [h.qlen]; exact h1.1)]
      have := h.rPend c hc
      omega
    · intro c hc; cases hc

theorem inv1_pop (h : Inv1 cbs ex sigma rels t) (i0 : ℕ)
    (hst : ∀ c, startsCb cbs ex sigma rels t c = true ↔ c = i0)
    (hi0 : i0 < cbs.length) (hq0 : 0 < ((Rl t).queue.getD i0 []).length)
    (ready' : List ℕ) (r0 : ℕ)
    (hnd : ready'.Nodup)
    (hready : ∀ c ∈ ready', c ≠ i0 ∧ c < cbs.length ∧ (cbs.getD c default).isTimer = false ∧
      0 < ((Rl t).queue.getD c []).length)
    (hnext : St (t + 1) =
      { queue := (Rl t).queue.set i0 (((Rl t).queue.getD i0 []).drop 1),
        ready := ready',
        running := if ex i0 t ≤ 1 then none else
          some (i0, ex i0 t - 1, r0) }) :
    Inv1 cbs ex sigma rels (t + 1) := by
  have hsb : ∀ i, sb i (t + 1) = sb i t + if i = i0 then 1 else 0 := fun i => by
    rw [sb_succ]
    by_cases e : i = i0
    · rw [if_pos ((hst i).2 e), if_pos e]
    · rw [if_neg (fun hh => e ((hst i).1 hh)), if_neg e]
  have hlen : (Rl t).queue.length = cbs.length := by rw [relAt_qlen, h.qlen]
  have hget : ∀ j, j < cbs.length →
      ((St (t + 1)).queue.getD j []).length = ((Rl t).queue.getD j []).length - if j = i0 then 1 else 0 := by
    intro j hj
    rw [hnext]
    simp only
    rw [getD_set_len _ _ _ _ (by rw [hlen]; exact hj)]
    by_cases e : i0 = j
    · subst e; simp
    · rw [if_neg e, if_neg (fun hh => e hh.symm)]; rfl
  refine ⟨by rw [hnext]; simpa using hlen, ?_, ?_, by rw [hnext]; exact hnd, ?_, ?_⟩
  · intro i hi
    rw [hget i hi, hsb]
    have := h.rq i hi
    by_cases e : i = i0
    · subst e; simp only [if_true] at *; omega
    · simp only [if_neg e]; omega
  · intro i rem r hr
    rw [hnext] at hr
    simp only at hr
    split at hr
    · cases hr
    · rename_i hc
      cases hr
      rw [hsb]
      simp only [if_true]
      exact ⟨hi0, by omega, by omega⟩
  · rw [hnext]; intro c hc
    have := hready c hc
    exact ⟨this.2.1, this.2.2.1⟩
  · intro c hc
    have hc' : c ∈ ready' := by rw [hnext] at hc; exact hc
    have := hready c hc'
    rw [hget c this.2.1, if_neg this.1]
    exact this.2.2.2

theorem inv1_succ (h : Inv1 cbs ex sigma rels t) :
    Inv1 cbs ex sigma rels (t + 1) := by
  cases hs : sigma t with
  | false =>
    obtain ⟨_, hst, _, hnext⟩ := slotA (cbs := cbs) (ex := ex) (rels := rels) hs
    exact inv1_keep h hst (St t).running (St t).ready
      (fun i rem r hr => ⟨rem, hr, (h.runOk i rem r hr).2.2⟩) (Or.inl rfl) hnext
  | true =>
    rcases hr : (Rl t).running with _ | ⟨i, rem, r⟩
    · cases hb : bestOf cbs (pendingTimers cbs (Rl t).queue) with
      | some i =>
        obtain ⟨_, hst, _, hnext⟩ := slotC hs hr hb
        have hm := (mem_pendingTimers _ _ _).1 (bestOf_mem _ _ _ hb)
        refine inv1_pop h i hst hm.1 hm.2.2 _ _ h.rNodup ?_ hnext
        intro c hc
        have h1 := h.rPolled c hc
        refine ⟨?_, h1.1, h1.2, ?_⟩
        · intro e; subst e; rw [h1.2] at hm; exact absurd hm.2.1 (by simp)
        · rw [relAt_getD cbs ex sigma rels t c (by rw [h.qlen]; exact h1.1)]
          have := h.rPend c hc
          omega
      | none =>
        cases hb2 : bestOf cbs (readyAt cbs ex sigma rels t) with
        | some i =>
          obtain ⟨_, hst, _, hnext⟩ := slotD hs hr hb hb2
          have hm := readyAt_mem h i (bestOf_mem _ _ _ hb2)
          refine inv1_pop h i hst hm.1 hm.2.2 _ _ ((readyAt_nodup h).erase i) ?_ hnext
          intro c hc
          rw [(readyAt_nodup h).mem_erase_iff] at hc
          exact ⟨hc.1, readyAt_mem h c hc.2⟩
        | none =>
          obtain ⟨_, hst, _, hnext⟩ := slotE hs hr hb hb2
          have he : readyAt cbs ex sigma rels t = [] := (bestOf_eq_none _ _).1 hb2
          refine inv1_keep h hst none _ (fun i rem r hr => by cases hr) (Or.inr he) ?_
          rw [hnext]
          have : (Rl t).running = none := hr
          simp only [this]
          rfl
    · obtain ⟨_, hst, _, hnext⟩ := slotB hs hr
      refine inv1_keep h hst _ (St t).ready ?_ (Or.inl rfl) hnext
      intro i' rem' r' hr'
      split at hr'
      · cases hr'
      · cases hr'
        exact ⟨rem, hr, by omega⟩

theorem inv1 : ∀ t, Inv1 cbs ex sigma rels t
  | 0 => inv1_zero cbs ex sigma rels
  | t + 1 => inv1_succ (inv1 t)

end step1

/-! ### layer 2: service received by the jobs -/

theorem svc_zero_not_sched (s : Sys) (k : ℕ) : ∀ t, svc s k t = 0 → ∀ u, u < t → s.sched u ≠ some k := by
  intro t
  induction t with
  | zero => intro _ u hu; omega
  | succ t ih =>
    intro h u hu hs
    simp only [svc] at h
    rcases Nat.lt_or_ge u t with h' | h'
    · exact ih (by omega) u h' hs
    · have e : u = t := by omega
      subst e
      rw [if_pos hs] at h; omega

variable {cbs ex sigma rels} in
/-- the cost of a job is the execution time drawn in its first slot -/
theorem costX_first {H k t : ℕ} (h1 : schedX cbs ex sigma rels H t = some k)
    (h2 : ∀ u, u < t → schedX cbs ex sigma rels H u ≠ some k) :
    costX cbs ex sigma rels H k = ex ((events rels H).getD k (0, 0)).2 t := by
  unfold costX
  have hE : ∃ t, schedX cbs ex sigma rels H t = some k ∧
      ∀ u, u < t → schedX cbs ex sigma rels H u ≠ some k := ⟨t, h1, h2⟩
  rw [dif_pos hE]
  have hs := Classical.choose_spec hE
  have : Classical.choose hE = t := by
    rcases Nat.lt_trichotomy (Classical.choose hE) t with h | h | h
    · exact absurd hs.1 (h2 _ h)
    · exact h
    · exact absurd h1 (hs.2 _ h)
  rw [this]

variable {cbs ex sigma rels} in
/-- every cost is an admissible execution time -/
theorem costX_bounds (hex : ∀ k, k < cbs.length → ∀ t, 1 ≤ ex k t ∧ ex k t ≤ (cbs.getD k default).cost)
    {H k : ℕ} (hk : ((events rels H).getD k (0, 0)).2 < cbs.length) :
    1 ≤ costX cbs ex sigma rels H k ∧
      costX cbs ex sigma rels H k ≤ (cbs.getD ((events rels H).getD k (0, 0)).2 default).cost := by
  unfold costX
  split
  · exact hex _ hk _
  · have := hex _ hk 0; omega

section layer2
variable (H : ℕ)

local notation "Sy" => toSysX cbs ex sigma rels H
local notation "job" => nthEventOf rels H

theorem svc_succ' (k t : ℕ) : svc (Sy) k (t + 1) = svc (Sy) k t + if (Sy).sched t = some k then 1 else 0 := rfl

variable {cbs ex sigma rels H} in
theorem sched_iff {i m k : ℕ} (hj : job i m = some k) (t : ℕ) :
    (Sy).sched t = some k ↔ (servedCb cbs ex sigma rels t = some i ∧
      m = if startsCb cbs ex sigma rels t i = true then sb i t else sb i t - 1) := by
  simp only [toSysX, schedX]
  cases hsv : servedCb cbs ex sigma rels t with
  | none => simp
  | some i' =>
    simp only
    constructor
    · intro h
      obtain ⟨e1, e2⟩ := job_inj rels h hj
      subst e1
      exact ⟨rfl, e2.symm⟩
    · rintro ⟨e1, e2⟩
      cases e1
      rw [← e2]; exact hj

structure Inv2 (t : ℕ) : Prop where
  done : ∀ i m k, job i m = some k → m + 1 ≤ sb i t →
    (m + 1 = sb i t → ∀ rem r, (St t).running ≠ some (i, rem, r)) → svc (Sy) k t = (Sy).cost k
  unst : ∀ i m k, job i m = some k → sb i t ≤ m → svc (Sy) k t = 0
  run : ∀ i rem r m k, (St t).running = some (i, rem, r) → job i m = some k → m + 1 = sb i t →
    svc (Sy) k t + rem = (Sy).cost k ∧ 1 ≤ svc (Sy) k t

theorem inv2_zero : Inv2 cbs ex sigma rels H 0 where
  done := fun i m k _ h => by simp [startedBefore] at h
  unst := fun i m k _ _ => rfl
  run := fun i rem r m k h => by simp [stateAt, State.init] at h

variable {cbs ex sigma rels H} {t : ℕ}

theorem inv2_keep (hsv : servedCb cbs ex sigma rels t = none)
    (hst : ∀ c, startsCb cbs ex sigma rels t c = false)
    (hrun : (St (t + 1)).running = (St t).running) (h : Inv2 cbs ex sigma rels H t) :
    Inv2 cbs ex sigma rels H (t + 1) := by
  have hsb : ∀ i, sb i (t + 1) = sb i t := fun i => by rw [sb_succ, hst]; simp
  have hsvc : ∀ k, svc (Sy) k (t + 1) = svc (Sy) k t := fun k => by
    rw [svc_succ']; simp [toSysX, schedX, hsv]
  refine ⟨?_, ?_, ?_⟩
  · intro i m k hj; rw [hsb, hsvc, hrun]; exact h.done i m k hj
  · intro i m k hj; rw [hsb, hsvc]; exact h.unst i m k hj
  · intro i rem r m k; rw [hsb, hsvc, hrun]; exact h.run i rem r m k

theorem inv2_cont (h1 : Inv1 cbs ex sigma rels t) {i0 rem0 r0 : ℕ}
    (hsv : servedCb cbs ex sigma rels t = some i0)
    (hst : ∀ c, startsCb cbs ex sigma rels t c = false)
    (hr : (St t).running = some (i0, rem0, r0))
    (hnext : (St (t + 1)).running = if rem0 ≤ 1 then none else some (i0, rem0 - 1, r0))
    (h : Inv2 cbs ex sigma rels H t) : Inv2 cbs ex sigma rels H (t + 1) := by
  have hsb : ∀ i, sb i (t + 1) = sb i t := fun i => by rw [sb_succ, hst]; simp
  obtain ⟨_, hsb0, hrem0⟩ := h1.runOk i0 rem0 r0 hr
  have hsched : ∀ i m k, job i m = some k →
      ((Sy).sched t = some k ↔ (i = i0 ∧ m + 1 = sb i0 t)) := by
    intro i m k hj
    rw [sched_iff hj, hsv]
    constructor
    · rintro ⟨e1, e2⟩
      cases e1
      rw [hst] at e2
      simp at e2
      exact ⟨rfl, by omega⟩
    · rintro ⟨e1, e2⟩
      subst e1
      rw [hst]; simp; omega
  refine ⟨?_, ?_, ?_⟩
  · intro i m k hj hm hnr
    rw [hsb] at hm hnr
    rw [svc_succ']
    by_cases hk : (Sy).sched t = some k
    · obtain ⟨e1, e2⟩ := (hsched i m k hj).1 hk
      subst e1
      have := h.run i rem0 r0 m k hr hj e2
      have hh := hnr e2
      rw [hnext] at hh
      have : rem0 ≤ 1 := by
        rcases Nat.lt_or_ge 1 rem0 with h' | h'
        · rw [if_neg (by omega)] at hh; exact absurd rfl (hh _ _)
        · exact h'
      rw [if_pos hk]; omega
    · rw [if_neg hk, Nat.add_zero]
      apply h.done i m k hj hm
      intro e rem r hrr
      rw [hr] at hrr
      cases hrr
      exact hk ((hsched _ m k hj).2 ⟨rfl, e⟩)
  · intro i m k hj hm
    rw [hsb] at hm
    rw [svc_succ']
    have : ¬ (Sy).sched t = some k := by
      intro hk
      obtain ⟨e1, e2⟩ := (hsched i m k hj).1 hk
      subst e1; omega
    rw [if_neg this]; exact h.unst i m k hj hm
  · intro i rem r m k hrr hj hm
    rw [hsb] at hm
    rw [hnext] at hrr
    split at hrr
    · cases hrr
    · cases hrr
      have hk := (hsched _ m k hj).2 ⟨rfl, hm⟩
      have := h.run _ rem0 _ m k hr hj hm
      rw [svc_succ', if_pos hk]; omega

theorem inv2_start {i0 r0 : ℕ}
    (hsv : servedCb cbs ex sigma rels t = some i0)
    (hst : ∀ c, startsCb cbs ex sigma rels t c = true ↔ c = i0)
    (hr : (St t).running = none) (hc : 1 ≤ ex i0 t)
    (hnext : (St (t + 1)).running = if ex i0 t ≤ 1 then none else some (i0, ex i0 t - 1, r0))
    (h : Inv2 cbs ex sigma rels H t) : Inv2 cbs ex sigma rels H (t + 1) := by
  have hsb : ∀ i, sb i (t + 1) = sb i t + if i = i0 then 1 else 0 := fun i => by
    rw [sb_succ]
    by_cases e : i = i0
    · rw [if_pos ((hst i).2 e), if_pos e]
    · rw [if_neg (fun hh => e ((hst i).1 hh)), if_neg e]
  have hsched : ∀ i m k, job i m = some k →
      ((Sy).sched t = some k ↔ (i = i0 ∧ m = sb i0 t)) := by
    intro i m k hj
    rw [sched_iff hj, hsv]
    constructor
    · rintro ⟨e1, e2⟩
      cases e1
      rw [if_pos ((hst _).2 rfl)] at e2
      exact ⟨rfl, e2⟩
    · rintro ⟨e1, e2⟩
      subst e1
      rw [if_pos ((hst i).2 rfl)]; exact ⟨rfl, e2⟩
  -- the job started in this slot gets the execution time drawn in this slot
  have hcostk : ∀ m k, job i0 m = some k → m = sb i0 t → (Sy).cost k = ex i0 t := by
    intro m k hj hm
    have hk := (hsched i0 m k hj).2 ⟨rfl, hm⟩
    have h0 := h.unst i0 m k hj (by omega)
    have hc := costX_first (cbs := cbs) (ex := ex) (sigma := sigma) (rels := rels) (H := H) hk
      (svc_zero_not_sched (Sy) k t h0)
    have ht : ((events rels H).getD k (0, 0)).2 = i0 := ((job_iff rels H i0 m k).1 hj).2.1
    rw [ht] at hc
    exact hc
  refine ⟨?_, ?_, ?_⟩
  · intro i m k hj hm hnr
    rw [hsb] at hm hnr
    rw [svc_succ']
    by_cases hk : (Sy).sched t = some k
    · obtain ⟨e1, e2⟩ := (hsched i m k hj).1 hk
      subst e1
      have h0 := h.unst i m k hj (by omega)
      have hck := hcostk m k hj e2
      have hh := hnr (by simp [e2])
      rw [hnext] at hh
      have : ex i t ≤ 1 := by
        rcases Nat.lt_or_ge 1 (ex i t) with h' | h'
        · rw [if_neg (by omega)] at hh; exact absurd rfl (hh _ _)
        · exact h'
      rw [if_pos hk]; omega
    · rw [if_neg hk, Nat.add_zero]
      apply h.done i m k hj
      · by_cases e : i = i0
        · subst e
          have : m ≠ sb i t := fun e' => hk ((hsched i m k hj).2 ⟨rfl, e'⟩)
          simp only [if_true] at hm; omega
        · simpa [e] using hm
      · intro _ rem r hrr; rw [hr] at hrr; cases hrr
  · intro i m k hj hm
    rw [hsb] at hm
    rw [svc_succ']
    have : ¬ (Sy).sched t = some k := by
      intro hk
      obtain ⟨e1, e2⟩ := (hsched i m k hj).1 hk
      subst e1; simp at hm; omega
    rw [if_neg this]; exact h.unst i m k hj (by omega)
  · intro i rem r m k hrr hj hm
    rw [hsb] at hm
    rw [hnext] at hrr
    split at hrr
    · cases hrr
    · cases hrr
      simp only [if_true] at hm
      have hk := (hsched _ m k hj).2 ⟨rfl, by omega⟩
      have h0 := h.unst _ m k hj (by omega)
      have hck := hcostk m k hj (by omega)
      rw [svc_succ', if_pos hk]; omega

end layer2

section layer2b
variable {cbs ex sigma rels} {H : ℕ}

theorem inv2_succ (hex : ∀ k, k < cbs.length → ∀ t, 1 ≤ ex k t ∧ ex k t ≤ (cbs.getD k default).cost) {t : ℕ} (h : Inv2 cbs ex sigma rels H t) :
    Inv2 cbs ex sigma rels H (t + 1) := by
  have h1 := inv1 (cbs := cbs) (ex := ex) (sigma := sigma) (rels := rels) t
  cases hs : sigma t with
  | false =>
    obtain ⟨hsv, hst, _, hnext⟩ := slotA (cbs := cbs) (ex := ex) (rels := rels) hs
    exact inv2_keep hsv hst (by rw [hnext]; rfl) h
  | true =>
    rcases hr : (Rl t).running with _ | ⟨i, rem, r⟩
    · have hr' : (St t).running = none := hr
      cases hb : bestOf cbs (pendingTimers cbs (Rl t).queue) with
      | some i =>
        obtain ⟨hsv, hst, _, hnext⟩ := slotC hs hr hb
        have hm := (mem_pendingTimers _ _ _).1 (bestOf_mem _ _ _ hb)
        exact inv2_start hsv hst hr' (hex _ hm.1 t).1 (by rw [hnext]) h
      | none =>
        cases hb2 : bestOf cbs (readyAt cbs ex sigma rels t) with
        | some i =>
          obtain ⟨hsv, hst, _, hnext⟩ := slotD hs hr hb hb2
          have hm := readyAt_mem h1 i (bestOf_mem _ _ _ hb2)
          exact inv2_start hsv hst hr' (hex _ hm.1 t).1 (by rw [hnext]) h
        | none =>
          obtain ⟨hsv, hst, _, hnext⟩ := slotE hs hr hb hb2
          exact inv2_keep hsv hst (by rw [hnext]; rfl) h
    · obtain ⟨hsv, hst, _, hnext⟩ := slotB hs hr
      exact inv2_cont h1 hsv hst hr (by rw [hnext]) h

theorem inv2 (hex : ∀ k, k < cbs.length → ∀ t, 1 ≤ ex k t ∧ ex k t ≤ (cbs.getD k default).cost) : ∀ t, Inv2 cbs ex sigma rels H t
  | 0 => inv2_zero cbs ex sigma rels H
  | t + 1 => inv2_succ hex (inv2 hex t)

end layer2b

/-! ### layer 3: the ready set and the polling windows -/

structure Inv3 (t : ℕ) : Prop where
  rWin : ∀ c ∈ (St t).ready, ∃ p, p < t ∧ isPP cbs ex sigma rels p = true ∧
    (∀ u, p < u → u < t → isPP cbs ex sigma rels u = false) ∧
    (∀ u, p ≤ u → u < t → startsCb cbs ex sigma rels u c = false) ∧ sb c p < cnt rels c (p + 1)
  rAll : ∀ p, p < t → isPP cbs ex sigma rels p = true →
    (∀ u, p < u → u < t → isPP cbs ex sigma rels u = false) →
    ∀ c, c < cbs.length → (cbs.getD c default).isTimer = false → sb c p < cnt rels c (p + 1) →
    (∀ u, p ≤ u → u < t → startsCb cbs ex sigma rels u c = false) → c ∈ (St t).ready

theorem inv3_zero : Inv3 cbs ex sigma rels 0 where
  rWin := fun c hc => by simp [stateAt, State.init] at hc
  rAll := fun p hp => by omega

section layer3
variable {cbs ex sigma rels} {t : ℕ}

theorem inv3_keep (hpp : isPP cbs ex sigma rels t = false)
    (hready : (St (t + 1)).ready = (St t).ready)
    (hst : ∀ c ∈ (St t).ready, startsCb cbs ex sigma rels t c = false)
    (h : Inv3 cbs ex sigma rels t) : Inv3 cbs ex sigma rels (t + 1) := by
  refine ⟨?_, ?_⟩
  · intro c hc
    rw [hready] at hc
    obtain ⟨p, h1, h2, h3, h4, h5⟩ := h.rWin c hc
    refine ⟨p, by omega, h2, ?_, ?_, h5⟩
    · intro u hu1 hu2
      rcases Nat.lt_or_ge u t with h' | h'
      · exact h3 u hu1 h'
      · have e : u = t := by omega
        subst e; exact hpp
    · intro u hu1 hu2
      rcases Nat.lt_or_ge u t with h' | h'
      · exact h4 u hu1 h'
      · have e : u = t := by omega
        subst e; exact hst c hc
  · intro p hp hpp' hno c hc hpol hpend hns
    rw [hready]
    have hpt : p < t := by
      rcases Nat.lt_or_ge p t with h' | h'
      · exact h'
      · have e : p = t := by omega
        subst e; rw [hpp] at hpp'; cases hpp'
    exact h.rAll p hpt hpp' (fun u a b => hno u a (by omega)) c hc hpol hpend
      (fun u a b => hns u a (by omega))

theorem inv3_erase (h1 : Inv1 cbs ex sigma rels t) (hpp : isPP cbs ex sigma rels t = false) {i0 : ℕ}
    (hready : (St (t + 1)).ready = (St t).ready.erase i0)
    (hst : ∀ c, startsCb cbs ex sigma rels t c = true ↔ c = i0)
    (h : Inv3 cbs ex sigma rels t) : Inv3 cbs ex sigma rels (t + 1) := by
  have hns : ∀ c, c ≠ i0 → startsCb cbs ex sigma rels t c = false := by
    intro c hc
    cases hh : startsCb cbs ex sigma rels t c with
    | false => rfl
    | true => exact absurd ((hst c).1 hh) hc
  refine ⟨?_, ?_⟩
  · intro c hc
    rw [hready, h1.rNodup.mem_erase_iff] at hc
    obtain ⟨p, h1', h2, h3, h4, h5⟩ := h.rWin c hc.2
    refine ⟨p, by omega, h2, ?_, ?_, h5⟩
    · intro u hu1 hu2
      rcases Nat.lt_or_ge u t with h' | h'
      · exact h3 u hu1 h'
      · have e : u = t := by omega
        subst e; exact hpp
    · intro u hu1 hu2
      rcases Nat.lt_or_ge u t with h' | h'
      · exact h4 u hu1 h'
      · have e : u = t := by omega
        subst e; exact hns c hc.1
  · intro p hp hpp' hno c hc hpol hpend hns'
    rw [hready]
    have hpt : p < t := by
      rcases Nat.lt_or_ge p t with h' | h'
      · exact h'
      · have e : p = t := by omega
        subst e; rw [hpp] at hpp'; cases hpp'
    have hm := h.rAll p hpt hpp' (fun u a b => hno u a (by omega)) c hc hpol hpend
      (fun u a b => hns' u a (by omega))
    have hne : c ≠ i0 := by
      intro e
      have := hns' t (by omega) (by omega)
      rw [(hst c).2 e] at this; cases this
    exact (List.mem_erase_of_ne hne).2 hm

theorem inv3_pp (h1 : Inv1 cbs ex sigma rels t) (hpp : isPP cbs ex sigma rels t = true)
    (hready : ∀ c, c ∈ (St (t + 1)).ready ↔
      (c ∈ pendingPolled cbs (Rl t).queue ∧ startsCb cbs ex sigma rels t c = false)) :
    Inv3 cbs ex sigma rels (t + 1) := by
  refine ⟨?_, ?_⟩
  · intro c hc
    rw [hready] at hc
    obtain ⟨hc1, hc2⟩ := hc
    rw [mem_pendingPolled] at hc1
    refine ⟨t, by omega, hpp, fun u a b => by omega, ?_, ?_⟩
    · intro u a b
      have e : u = t := by omega
      subst e; exact hc2
    · have := h1.rq c hc1.1
      omega
  · intro p hp hpp' hno c hc hpol hpend hns
    have e : p = t := by
      rcases Nat.lt_or_ge p t with h' | h'
      · have := hno t h' (by omega)
        rw [hpp] at this; cases this
      · omega
    subst e
    rw [hready, mem_pendingPolled]
    refine ⟨⟨hc, hpol, ?_⟩, hns p (by omega) (by omega)⟩
    have := h1.rq c hc
    omega

theorem inv3_succ (h : Inv3 cbs ex sigma rels t) : Inv3 cbs ex sigma rels (t + 1) := by
  have h1 := inv1 (cbs := cbs) (ex := ex) (sigma := sigma) (rels := rels) t
  cases hs : sigma t with
  | false =>
    obtain ⟨_, hst, hpp, hnext⟩ := slotA (cbs := cbs) (ex := ex) (rels := rels) hs
    exact inv3_keep hpp (by rw [hnext]; rfl) (fun c _ => hst c) h
  | true =>
    rcases hr : (Rl t).running with _ | ⟨i, rem, r⟩
    · cases hb : bestOf cbs (pendingTimers cbs (Rl t).queue) with
      | some i =>
        obtain ⟨_, hst, hpp, hnext⟩ := slotC hs hr hb
        have hm := (mem_pendingTimers _ _ _).1 (bestOf_mem _ _ _ hb)
        refine inv3_keep hpp (by rw [hnext]; rfl) ?_ h
        intro c hc
        cases hh : startsCb cbs ex sigma rels t c with
        | false => rfl
        | true =>
          have e := (hst c).1 hh
          subst e
          have := (h1.rPolled c hc).2
          rw [this] at hm; exact absurd hm.2.1 (by simp)
      | none =>
        by_cases hemp : (St t).ready = []
        · have hra : readyAt cbs ex sigma rels t = pendingPolled cbs (Rl t).queue := by
            unfold readyAt
            have : (Rl t).ready = [] := hemp
            rw [this]; rfl
          cases hb2 : bestOf cbs (readyAt cbs ex sigma rels t) with
          | some i =>
            obtain ⟨_, hst, hpp, hnext⟩ := slotD hs hr hb hb2
            have hpp' : isPP cbs ex sigma rels t = true := by
              rw [hpp]; have : (Rl t).ready = [] := hemp
              rw [this]; rfl
            refine inv3_pp h1 hpp' ?_
            intro c
            rw [hnext]
            show c ∈ (readyAt cbs ex sigma rels t).erase i ↔ _
            rw [(readyAt_nodup h1).mem_erase_iff, hra]
            constructor
            · rintro ⟨a, b⟩
              refine ⟨b, ?_⟩
              cases hh : startsCb cbs ex sigma rels t c with
              | false => rfl
              | true => exact absurd ((hst c).1 hh) a
            · rintro ⟨a, b⟩
              refine ⟨?_, a⟩
              intro e
              rw [(hst c).2 e] at b; cases b
          | none =>
            obtain ⟨_, hst, hpp, hnext⟩ := slotE hs hr hb hb2
            have hpp' : isPP cbs ex sigma rels t = true := by
              rw [hpp]; have : (Rl t).ready = [] := hemp
              rw [this]; rfl
            refine inv3_pp h1 hpp' ?_
            intro c
            rw [hnext]
            show c ∈ readyAt cbs ex sigma rels t ↔ _
            rw [hra, hst c]
            simp
        · have hra : readyAt cbs ex sigma rels t = (St t).ready := by
            unfold readyAt
            have : (Rl t).ready.isEmpty = false := by
              show (St t).ready.isEmpty = false
              cases hh : (St t).ready with
              | nil => exact absurd hh hemp
              | cons a l => rfl
            rw [this]; rfl
          have hnpp : (Rl t).ready.isEmpty = false := by
            show (St t).ready.isEmpty = false
            cases hh : (St t).ready with
            | nil => exact absurd hh hemp
            | cons a l => rfl
          cases hb2 : bestOf cbs (readyAt cbs ex sigma rels t) with
          | some i =>
            obtain ⟨_, hst, hpp, hnext⟩ := slotD hs hr hb hb2
            refine inv3_erase h1 (by rw [hpp, hnpp]) (i0 := i) ?_ hst h
            rw [hnext]
            show (readyAt cbs ex sigma rels t).erase i = _
            rw [hra]
          | none =>
            rw [bestOf_eq_none, hra] at hb2
            exact absurd hb2 hemp
    · obtain ⟨_, hst, hpp, hnext⟩ := slotB hs hr
      exact inv3_keep hpp (by rw [hnext]; rfl) (fun c _ => hst c) h

theorem inv3 : ∀ t, Inv3 cbs ex sigma rels t
  | 0 => inv3_zero cbs ex sigma rels
  | t + 1 => inv3_succ (inv3 t)

end layer3

/-! ### the status of a job; the shape of a slot -/

section derive
variable {cbs ex sigma rels} {H : ℕ}

local notation "Sy" => toSysX cbs ex sigma rels H
local notation "job" => nthEventOf rels H

theorem job_task {i m k : ℕ} (hj : job i m = some k) : k < (Sy).n ∧ (Sy).task k = i :=
  ⟨((job_iff rels H i m k).1 hj).1, ((job_iff rels H i m k).1 hj).2.1⟩

theorem task_lt (hidx : ∀ t, ∀ i ∈ rels t, i < cbs.length) {k : ℕ} (hk : k < (Sy).n) :
    (Sy).task k < cbs.length := by
  have hk' : k < (events rels H).length := hk
  have hall : ∀ e ∈ events rels H, e.2 < cbs.length := by
    intro e hm
    simp only [events, List.mem_flatMap, List.mem_range, List.mem_map] at hm
    obtain ⟨t, _, i, hi, e'⟩ := hm
    rw [← e']; exact hidx t i hi
  show ((events rels H).getD k (0, 0)).2 < cbs.length
  rw [List.getD_eq_getElem?_getD, List.getElem?_eq_getElem hk', Option.getD_some]
  exact hall _ (List.getElem_mem _)

theorem job_exists' {k : ℕ} (hk : k < (Sy).n) : ∃ m, job ((Sy).task k) m = some k :=
  job_exists rels H k hk

/-- the cost of a job is an admissible execution time of its callback -/
theorem job_cost_bounds (hidx : ∀ t, ∀ i ∈ rels t, i < cbs.length)
    (hex : ∀ k, k < cbs.length → ∀ t, 1 ≤ ex k t ∧ ex k t ≤ (cbs.getD k default).cost)
    {i m k : ℕ} (hj : job i m = some k) :
    1 ≤ (Sy).cost k ∧ (Sy).cost k ≤ (cbs.getD i default).cost := by
  have hjt := job_task (cbs := cbs) (ex := ex) (sigma := sigma) hj
  have hi : (Sy).task k < cbs.length := task_lt hidx hjt.1
  have := costX_bounds (sigma := sigma) hex (H := H) (k := k) hi
  have e : ((events rels H).getD k (0, 0)).2 = i := hjt.2
  rw [e] at this
  exact this

theorem cnt_le_H (hfin : ∀ t, H ≤ t → rels t = []) (i T : ℕ) : cnt rels i T ≤ cnt rels i H := by
  rcases Nat.le_total T H with h | h
  · exact cnt_mono rels i h
  · rw [cnt_const rels H hfin i h]

theorem job_arr' (hfin : ∀ t, H ≤ t → rels t = []) {i m k : ℕ} (hj : job i m = some k) (t : ℕ) :
    (Sy).arr k ≤ t ↔ m < cnt rels i (t + 1) := by
  rw [← job_arr rels H hfin hj (t + 1)]
  show ((events rels H).getD k (0, 0)).1 ≤ t ↔ _
  omega

theorem sb_le_cnt (i t : ℕ) (hi : i < cbs.length) : sb i t ≤ cnt rels i t := by
  have := (inv1 (cbs := cbs) (ex := ex) (sigma := sigma) (rels := rels) t).q i hi
  omega

/-- unstarted / complete / running -/
theorem status (hidx : ∀ t, ∀ i ∈ rels t, i < cbs.length) (hex : ∀ k, k < cbs.length → ∀ t, 1 ≤ ex k t ∧ ex k t ≤ (cbs.getD k default).cost)
    {i m k : ℕ} (hj : job i m = some k) (t : ℕ) :
    (sb i t ≤ m ∧ svc (Sy) k t = 0) ∨
    (m + 1 ≤ sb i t ∧ svc (Sy) k t = (Sy).cost k ∧ 1 ≤ svc (Sy) k t ∧
      (m + 1 = sb i t → ∀ rem r, (St t).running ≠ some (i, rem, r))) ∨
    (m + 1 = sb i t ∧ ∃ rem r, (St t).running = some (i, rem, r) ∧
      svc (Sy) k t + rem = (Sy).cost k ∧ 1 ≤ svc (Sy) k t ∧ 1 ≤ rem) := by
  have h2 := inv2 (cbs := cbs) (ex := ex) (sigma := sigma) (rels := rels) (H := H) hex t
  have h1 := inv1 (cbs := cbs) (ex := ex) (sigma := sigma) (rels := rels) t
  have hjt := job_task (cbs := cbs) (ex := ex) (sigma := sigma) hj
  have hi : i < cbs.length := by rw [← hjt.2]; exact task_lt hidx hjt.1
  have hc := (job_cost_bounds (sigma := sigma) hidx hex hj).1
  rcases Nat.lt_or_ge m (sb i t) with hm | hm
  · by_cases hrun : m + 1 = sb i t ∧ ∃ rem r, (St t).running = some (i, rem, r)
    · obtain ⟨e, rem, r, hr⟩ := hrun
      have := h2.run i rem r m k hr hj e
      exact Or.inr (Or.inr ⟨e, rem, r, hr, this.1, this.2, (h1.runOk i rem r hr).2.2⟩)
    · have hnr : m + 1 = sb i t → ∀ rem r, (St t).running ≠ some (i, rem, r) := by
        intro e rem r hr
        exact hrun ⟨e, rem, r, hr⟩
      have := h2.done i m k hj hm hnr
      exact Or.inr (Or.inl ⟨hm, this, by omega, hnr⟩)
  · exact Or.inl ⟨hm, h2.unst i m k hj hm⟩

theorem sb_mono (c : ℕ) {a b : ℕ} (h : a ≤ b) : sb c a ≤ sb c b := by
  induction h with
  | refl => exact Nat.le_refl _
  | step _ ih => rw [sb_succ]; omega

theorem sb_const (c : ℕ) {a b : ℕ} (h : a ≤ b)
    (hns : ∀ u, a ≤ u → u < b → startsCb cbs ex sigma rels u c = false) : sb c b = sb c a := by
  induction h with
  | refl => rfl
  | @step m hm ih =>
    rw [sb_succ, hns m hm (by omega), ih (fun u x y => hns u x (by omega))]
    simp

theorem sb_lt_of_start {c u t : ℕ} (h : startsCb cbs ex sigma rels u c = true) (hu : u < t) :
    sb c u < sb c t := by
  have h1 : sb c (u + 1) = sb c u + 1 := by rw [sb_succ, h]; simp
  have := sb_mono (cbs := cbs) (ex := ex) (sigma := sigma) (rels := rels) c (show u + 1 ≤ t by omega)
  omega

end derive

section shape
variable {cbs ex sigma rels} {H : ℕ}

theorem isPP_iff (t : ℕ) : isPP cbs ex sigma rels t = true ↔
    (sigma t = true ∧ (St t).running = none ∧ pendingTimers cbs (Rl t).queue = [] ∧
      (St t).ready = []) := by
  rw [isPP_eq]
  show (sigma t && (St t).running.isNone && (pendingTimers cbs (Rl t).queue).isEmpty &&
      (St t).ready.isEmpty) = true ↔ _
  simp [Option.isNone_iff_eq_none, List.isEmpty_iff, and_assoc]

theorem readyAt_of_pp {t : ℕ} (h : (St t).ready = []) :
    readyAt cbs ex sigma rels t = pendingPolled cbs (Rl t).queue := by
  unfold readyAt
  have : (Rl t).ready = [] := h
  rw [this]; rfl

theorem readyAt_of_not_pp {t : ℕ} (h : (St t).ready ≠ []) :
    readyAt cbs ex sigma rels t = (St t).ready := by
  unfold readyAt
  have : (Rl t).ready.isEmpty = false := by
    show (St t).ready.isEmpty = false
    cases hh : (St t).ready with
    | nil => exact absurd hh h
    | cons a l => rfl
  rw [this]; rfl

theorem slot_cases (t : ℕ) :
    (servedCb cbs ex sigma rels t = none ∧ (∀ c, startsCb cbs ex sigma rels t c = false) ∧
      (sigma t = true → (St t).running = none ∧ pendingTimers cbs (Rl t).queue = [] ∧
        readyAt cbs ex sigma rels t = [])) ∨
    (sigma t = true ∧ ∃ i rem r, (St t).running = some (i, rem, r) ∧
      servedCb cbs ex sigma rels t = some i ∧ ∀ c, startsCb cbs ex sigma rels t c = false) ∨
    (sigma t = true ∧ (St t).running = none ∧ ∃ i, servedCb cbs ex sigma rels t = some i ∧
      (∀ c, startsCb cbs ex sigma rels t c = true ↔ c = i) ∧ i < cbs.length ∧
      0 < ((Rl t).queue.getD i []).length ∧
      ((bestOf cbs (pendingTimers cbs (Rl t).queue) = some i) ∨
       (pendingTimers cbs (Rl t).queue = [] ∧ bestOf cbs (readyAt cbs ex sigma rels t) = some i))) := by
  have h1 := inv1 (cbs := cbs) (ex := ex) (sigma := sigma) (rels := rels) t
  cases hs : sigma t with
  | false =>
    obtain ⟨hsv, hst, _, _⟩ := slotA (cbs := cbs) (ex := ex) (rels := rels) hs
    exact Or.inl ⟨hsv, hst, fun h => by cases h⟩
  | true =>
    rcases hr : (Rl t).running with _ | ⟨i, rem, r⟩
    · cases hb : bestOf cbs (pendingTimers cbs (Rl t).queue) with
      | some i =>
        obtain ⟨hsv, hst, _, _⟩ := slotC hs hr hb
        have hm := (mem_pendingTimers _ _ _).1 (bestOf_mem _ _ _ hb)
        exact Or.inr (Or.inr ⟨rfl, hr, i, hsv, hst, hm.1, hm.2.2, Or.inl rfl⟩)
      | none =>
        have hb' := (bestOf_eq_none _ _).1 hb
        cases hb2 : bestOf cbs (readyAt cbs ex sigma rels t) with
        | some i =>
          obtain ⟨hsv, hst, _, _⟩ := slotD hs hr hb hb2
          have hm := readyAt_mem h1 i (bestOf_mem _ _ _ hb2)
          exact Or.inr (Or.inr ⟨rfl, hr, i, hsv, hst, hm.1, hm.2.2, Or.inr ⟨hb', rfl⟩⟩)
        | none =>
          obtain ⟨hsv, hst, _, _⟩ := slotE hs hr hb hb2
          exact Or.inl ⟨hsv, hst, fun _ => ⟨hr, hb', (bestOf_eq_none _ _).1 hb2⟩⟩
    · obtain ⟨hsv, hst, _, _⟩ := slotB hs hr
      exact Or.inr (Or.inl ⟨rfl, i, rem, r, hr, hsv, hst⟩)

end shape

section shape2
variable {cbs ex sigma rels} {H : ℕ}

local notation "Sy" => toSysX cbs ex sigma rels H
local notation "job" => nthEventOf rels H

theorem sched_eq (t : ℕ) : (Sy).sched t =
    match servedCb cbs ex sigma rels t with
    | none => none
    | some i => job i (if startsCb cbs ex sigma rels t i = true then sb i t else sb i t - 1) := rfl

theorem sched_shape (hfin : ∀ t, H ≤ t → rels t = []) (t : ℕ) :
    ((Sy).sched t = none ∧ (∀ c, startsCb cbs ex sigma rels t c = false) ∧
      (sigma t = true → (St t).running = none ∧ pendingTimers cbs (Rl t).queue = [] ∧
        readyAt cbs ex sigma rels t = [])) ∨
    (sigma t = true ∧ ∃ i rem r j, (St t).running = some (i, rem, r) ∧
      (∀ c, startsCb cbs ex sigma rels t c = false) ∧ i < cbs.length ∧ 1 ≤ sb i t ∧
      job i (sb i t - 1) = some j ∧ (Sy).sched t = some j) ∨
    (sigma t = true ∧ (St t).running = none ∧ ∃ i j,
      (∀ c, startsCb cbs ex sigma rels t c = true ↔ c = i) ∧ i < cbs.length ∧
      0 < ((Rl t).queue.getD i []).length ∧ job i (sb i t) = some j ∧ (Sy).sched t = some j ∧
      ((bestOf cbs (pendingTimers cbs (Rl t).queue) = some i) ∨
       (pendingTimers cbs (Rl t).queue = [] ∧ bestOf cbs (readyAt cbs ex sigma rels t) = some i))) := by
  have h1 := inv1 (cbs := cbs) (ex := ex) (sigma := sigma) (rels := rels) t
  rcases slot_cases (cbs := cbs) (ex := ex) (sigma := sigma) (rels := rels) t with
    ⟨hsv, hst, hx⟩ | ⟨hs, i, rem, r, hr, hsv, hst⟩ | ⟨hs, hr, i, hsv, hst, hi, hq, hb⟩
  · refine Or.inl ⟨?_, hst, hx⟩
    rw [sched_eq, hsv]
  · obtain ⟨hi, hsb, _⟩ := h1.runOk i rem r hr
    have hle := sb_le_cnt (cbs := cbs) (ex := ex) (sigma := sigma) (rels := rels) i t hi
    obtain ⟨j, hj⟩ := job_some rels H i (sb i t - 1)
      (by have := cnt_le_H (rels := rels) hfin i t; omega)
    refine Or.inr (Or.inl ⟨hs, i, rem, r, j, hr, hst, hi, hsb, hj, ?_⟩)
    rw [sched_eq, hsv]
    simp only [hst i, Bool.false_eq_true, if_false]
    exact hj
  · have hrq := h1.rq i hi
    obtain ⟨j, hj⟩ := job_some rels H i (sb i t)
      (by have := cnt_le_H (rels := rels) hfin i (t + 1); omega)
    refine Or.inr (Or.inr ⟨hs, hr, i, j, hst, hi, hq, hj, ?_, hb⟩)
    rw [sched_eq, hsv]
    simp only [(hst i).2 rfl, if_true]
    exact hj

end shape2

/-! ### the clauses of the Specs -/

section clauses
variable {cbs ex sigma rels} {H : ℕ}
variable (hidx : ∀ t, ∀ i ∈ rels t, i < cbs.length) (hfin : ∀ t, H ≤ t → rels t = [])
  (hex : ∀ k, k < cbs.length → ∀ t, 1 ≤ ex k t ∧ ex k t ≤ (cbs.getD k default).cost)

local notation "Sy" => toSysX cbs ex sigma rels H
local notation "job" => nthEventOf rels H

include hidx hfin hex

theorem c_valid (t j : ℕ) (hs : (Sy).sched t = some j) :
    j < (Sy).n ∧ Pending (Sy) j t ∧ sigma t = true := by
  rcases sched_shape (cbs := cbs) (ex := ex) (sigma := sigma) hfin t with
    ⟨h0, _⟩ | ⟨hsg, i, rem, r, j', hr, hst, hi, hsb, hj, hsch⟩ |
    ⟨hsg, hr, i, j', hst, hi, hq, hj, hsch, _⟩
  · rw [h0] at hs; cases hs
  · rw [hsch] at hs; cases hs
    refine ⟨(job_task (cbs := cbs) (ex := ex) (sigma := sigma) hj).1, ⟨?_, ?_⟩, hsg⟩
    · rw [job_arr' (cbs := cbs) (ex := ex) (sigma := sigma) hfin hj]
      have := sb_le_cnt (cbs := cbs) (ex := ex) (sigma := sigma) (rels := rels) i t hi
      have := cnt_mono rels i (show t ≤ t + 1 by omega)
      omega
    · rcases status (ex := ex) (sigma := sigma) hidx hex hj t with h | h | h
      · omega
      · exact absurd hr (h.2.2.2 (by omega) rem r)
      · obtain ⟨_, rem', r', _, h1, h2, h3⟩ := h
        omega
  · rw [hsch] at hs; cases hs
    have hjt := job_task (cbs := cbs) (ex := ex) (sigma := sigma) hj
    refine ⟨hjt.1, ⟨?_, ?_⟩, hsg⟩
    · rw [job_arr' (cbs := cbs) (ex := ex) (sigma := sigma) hfin hj]
      have := (inv1 (cbs := cbs) (ex := ex) (sigma := sigma) (rels := rels) t).rq i hi
      omega
    · rcases status (ex := ex) (sigma := sigma) hidx hex hj t with h | h | h
      · rw [h.2]
        exact (job_cost_bounds (sigma := sigma) hidx hex hj).1
      · omega
      · omega

/-- a slot that starts an instance -/
theorem startsAt_info (t j : ℕ) (hs : StartsAt (Sy) j t) :
    sigma t = true ∧ (St t).running = none ∧ ∃ i,
      (∀ c, startsCb cbs ex sigma rels t c = true ↔ c = i) ∧ i < cbs.length ∧
      0 < ((Rl t).queue.getD i []).length ∧ job i (sb i t) = some j ∧ (Sy).task j = i ∧
      ((bestOf cbs (pendingTimers cbs (Rl t).queue) = some i) ∨
       (pendingTimers cbs (Rl t).queue = [] ∧ bestOf cbs (readyAt cbs ex sigma rels t) = some i)) := by
  obtain ⟨hs, h0⟩ := hs
  rcases sched_shape (cbs := cbs) (ex := ex) (sigma := sigma) hfin t with
    ⟨h0, _⟩ | ⟨hsg, i, rem, r, j', hr, hst, hi, hsb, hj, hsch⟩ |
    ⟨hsg, hr, i, j', hst, hi, hq, hj, hsch, hb⟩
  · rw [h0] at hs; cases hs
  · rw [hsch] at hs; cases hs
    exfalso
    rcases status (ex := ex) (sigma := sigma) hidx hex hj t with h | h | h
    · omega
    · omega
    · obtain ⟨_, rem', r', _, h1, h2, h3⟩ := h
      omega
  · rw [hsch] at hs; cases hs
    exact ⟨hsg, hr, i, hst, hi, hq, hj, (job_task (cbs := cbs) (ex := ex) (sigma := sigma) hj).2, hb⟩

theorem startsAt_of (t i : ℕ) (hst : startsCb cbs ex sigma rels t i = true) :
    ∃ j, job i (sb i t) = some j ∧ StartsAt (Sy) j t := by
  rcases sched_shape (cbs := cbs) (ex := ex) (sigma := sigma) hfin t with
    ⟨_, h0, _⟩ | ⟨hsg, i', rem, r, j', hr, hst', hi, hsb, hj, hsch⟩ |
    ⟨hsg, hr, i', j', hst', hi, hq, hj, hsch, hb⟩
  · rw [h0] at hst; cases hst
  · rw [hst'] at hst; cases hst
  · have e := (hst' i).1 hst
    subst e
    refine ⟨j', hj, hsch, ?_⟩
    rcases status (ex := ex) (sigma := sigma) hidx hex hj t with h | h | h
    · exact h.2
    · omega
    · omega

/-- a pending job while nothing is running is waiting in its queue -/
theorem pending_queue (t k : ℕ) (hk : k < (Sy).n) (hp : Pending (Sy) k t) (hr : (St t).running = none) :
    (Sy).task k < cbs.length ∧ 0 < ((Rl t).queue.getD ((Sy).task k) []).length := by
  have hi := task_lt (ex := ex) (sigma := sigma) (H := H) hidx hk
  obtain ⟨m, hj⟩ := job_exists' (cbs := cbs) (ex := ex) (sigma := sigma) hk
  refine ⟨hi, ?_⟩
  have ha := (job_arr' (cbs := cbs) (ex := ex) (sigma := sigma) hfin hj t).1 hp.1
  have hrq := (inv1 (cbs := cbs) (ex := ex) (sigma := sigma) (rels := rels) t).rq _ hi
  rcases status (ex := ex) (sigma := sigma) hidx hex hj t with h | h | h
  · omega
  · have := hp.2; omega
  · obtain ⟨_, rem', r', h1, _⟩ := h
    rw [hr] at h1; cases h1

omit hidx hex in
theorem arr_mono {i m m' j k : ℕ} (hj : job i m = some j) (hk : job i m' = some k) (h : m ≤ m') :
    (Sy).arr j ≤ (Sy).arr k := by
  rcases Nat.lt_or_ge ((Sy).arr k) ((Sy).arr j) with hlt | hge
  · exfalso
    have h1 := (job_arr rels H hfin hk ((Sy).arr j)).1 hlt
    have h2 := (job_arr rels H hfin hj ((Sy).arr j))
    have : ¬ m < cnt rels i ((Sy).arr j) := fun hh => by
      have := h2.2 hh
      exact Nat.lt_irrefl _ this
    omega
  · exact hge

theorem c_nonpre (t j : ℕ) (hs : (Sy).sched t = some j) (k : ℕ) (hk : k < (Sy).n) (hkj : k ≠ j) :
    svc (Sy) k t = 0 ∨ svc (Sy) k t = (Sy).cost k := by
  obtain ⟨m, hj⟩ := job_exists' (cbs := cbs) (ex := ex) (sigma := sigma) hk
  rcases status (ex := ex) (sigma := sigma) hidx hex hj t with h | h | h
  · exact Or.inl h.2
  · exact Or.inr h.2.1
  · exfalso
    obtain ⟨hm, rem', r', h1, _⟩ := h
    rcases sched_shape (cbs := cbs) (ex := ex) (sigma := sigma) hfin t with
      ⟨h0, _⟩ | ⟨hsg, i, rem, r, j', hr, hst, hi, hsb, hj', hsch⟩ |
      ⟨hsg, hr, i, j', hst, hi, hq, hj', hsch, _⟩
    · rw [h0] at hs; cases hs
    · rw [hsch] at hs; cases hs
      rw [hr] at h1; cases h1
      have e : sb ((Sy).task k) t - 1 = m := by omega
      rw [e, hj] at hj'
      cases hj'; exact hkj rfl
    · rw [hr] at h1; cases h1

theorem c_wc (t : ℕ) (hsg : sigma t = true) (hp : ∃ k < (Sy).n, Pending (Sy) k t) :
    ∃ j, (Sy).sched t = some j := by
  obtain ⟨k, hk, hp⟩ := hp
  rcases sched_shape (cbs := cbs) (ex := ex) (sigma := sigma) hfin t with
    ⟨_, _, hx⟩ | ⟨_, i, rem, r, j', _, _, _, _, _, hsch⟩ | ⟨_, _, i, j', _, _, _, _, hsch, _⟩
  · exfalso
    obtain ⟨hr, hpt, hra⟩ := hx hsg
    obtain ⟨hi, hq⟩ := pending_queue hidx hfin hex t k hk hp hr
    cases htm : (cbs.getD ((Sy).task k) default).isTimer with
    | true =>
      have : (Sy).task k ∈ pendingTimers cbs (Rl t).queue :=
        (mem_pendingTimers _ _ _).2 ⟨hi, htm, hq⟩
      rw [hpt] at this; cases this
    | false =>
      have hm : (Sy).task k ∈ pendingPolled cbs (Rl t).queue :=
        (mem_pendingPolled _ _ _).2 ⟨hi, htm, hq⟩
      by_cases he : (St t).ready = []
      · rw [readyAt_of_pp he] at hra
        rw [hra] at hm; cases hm
      · rw [readyAt_of_not_pp he] at hra
        exact he hra
  · exact ⟨j', hsch⟩
  · exact ⟨j', hsch⟩

theorem c_fifo (t j : ℕ) (hs : StartsAt (Sy) j t) (k : ℕ) (hk : k < (Sy).n)
    (hkt : (Sy).task k = (Sy).task j) (_hp : Pending (Sy) k t) (h0 : svc (Sy) k t = 0) :
    (Sy).arr j ≤ (Sy).arr k := by
  obtain ⟨_, _, i, _, _, _, hj, htj, _⟩ := startsAt_info hidx hfin hex t j hs
  obtain ⟨m, hjk⟩ := job_exists' (cbs := cbs) (ex := ex) (sigma := sigma) hk
  rw [hkt, htj] at hjk
  refine arr_mono (ex := ex) (sigma := sigma) hfin hj hjk ?_
  rcases status (ex := ex) (sigma := sigma) hidx hex hjk t with h | h | h
  · exact h.1
  · omega
  · obtain ⟨_, _, _, _, _, h2, _⟩ := h
    omega

omit hfin in
theorem c_ppIdle (t : ℕ) (hpp : isPP cbs ex sigma rels t = true) (k : ℕ) (hk : k < (Sy).n) :
    svc (Sy) k t = 0 ∨ svc (Sy) k t = (Sy).cost k := by
  obtain ⟨m, hj⟩ := job_exists' (cbs := cbs) (ex := ex) (sigma := sigma) hk
  rcases status (ex := ex) (sigma := sigma) hidx hex hj t with h | h | h
  · exact Or.inl h.2
  · exact Or.inr h.2.1
  · obtain ⟨_, _, _, h1, _⟩ := h
    rw [((isPP_iff t).1 hpp).2.1] at h1; cases h1

theorem c_timersFirst (t j : ℕ) (hs : StartsAt (Sy) j t)
    (hpol : (cbs.getD ((Sy).task j) default).isTimer = false) (k : ℕ) (hk : k < (Sy).n)
    (htm : (cbs.getD ((Sy).task k) default).isTimer = true) : ¬ Pending (Sy) k t := by
  intro hp
  obtain ⟨_, hr, i, _, _, _, hj, htj, hb⟩ := startsAt_info hidx hfin hex t j hs
  obtain ⟨hi, hq⟩ := pending_queue hidx hfin hex t k hk hp hr
  have hmem : (Sy).task k ∈ pendingTimers cbs (Rl t).queue :=
    (mem_pendingTimers _ _ _).2 ⟨hi, htm, hq⟩
  rcases hb with hb | ⟨hb, _⟩
  · have := (mem_pendingTimers _ _ _).1 (bestOf_mem _ _ _ hb)
    rw [htj] at hpol
    rw [hpol] at this
    exact absurd this.2.1 (by simp)
  · rw [hb] at hmem; cases hmem

omit hidx hfin hex in
theorem search (f : ℕ → Bool) (a : ℕ) : ∀ b,
    (∀ u, a ≤ u → u < b → f u = false) ∨ ∃ u, a ≤ u ∧ u < b ∧ f u = true := by
  intro b
  induction b with
  | zero => exact Or.inl (fun u _ h => by omega)
  | succ b ih =>
    rcases ih with h | ⟨u, h1, h2, h3⟩
    · by_cases hb : a ≤ b ∧ f b = true
      · exact Or.inr ⟨b, hb.1, by omega, hb.2⟩
      · refine Or.inl (fun u h1 h2 => ?_)
        rcases Nat.lt_or_ge u b with h' | h'
        · exact h u h1 h'
        · have e : u = b := by omega
          subst e
          cases hf : f u with
          | false => rfl
          | true => exact absurd ⟨h1, hf⟩ hb
    · exact Or.inr ⟨u, h1, by omega, h3⟩

omit hidx hfin hex in
theorem last_pp (p : ℕ) (hp : isPP cbs ex sigma rels p = true) : ∀ t, p < t →
    ∃ q, p ≤ q ∧ q < t ∧ isPP cbs ex sigma rels q = true ∧
      ∀ u, q < u → u < t → isPP cbs ex sigma rels u = false := by
  intro t
  induction t with
  | zero => intro h; omega
  | succ t ih =>
    intro h
    cases hpt : isPP cbs ex sigma rels t with
    | true => exact ⟨t, by omega, by omega, hpt, fun u a b => by omega⟩
    | false =>
      have hlt : p < t := by
        rcases Nat.lt_or_ge p t with h' | h'
        · exact h'
        · have e : p = t := by omega
          subst e; rw [hp] at hpt; cases hpt
      obtain ⟨q, h1, h2, h3, h4⟩ := ih hlt
      refine ⟨q, h1, by omega, h3, fun u a b => ?_⟩
      rcases Nat.lt_or_ge u t with h' | h'
      · exact h4 u a h'
      · have e : u = t := by omega
        subst e; exact hpt

theorem c_inWindow (t j : ℕ) (hs : StartsAt (Sy) j t)
    (hpol : (cbs.getD ((Sy).task j) default).isTimer = false) :
    ∃ p, LastPP (toInfoX cbs ex sigma rels) p t ∧ (Sy).arr j ≤ p := by
  obtain ⟨hsg, hr, i, hst, hi, hq, hj, htj, hb⟩ := startsAt_info hidx hfin hex t j hs
  rw [htj] at hpol
  have hb' : pendingTimers cbs (Rl t).queue = [] ∧ bestOf cbs (readyAt cbs ex sigma rels t) = some i := by
    rcases hb with hb | hb
    · have := (mem_pendingTimers _ _ _).1 (bestOf_mem _ _ _ hb)
      rw [hpol] at this
      exact absurd this.2.1 (by simp)
    · exact hb
  by_cases he : (St t).ready = []
  · refine ⟨t, ⟨(isPP_iff t).2 ⟨hsg, hr, hb'.1, he⟩, Nat.le_refl _, fun u a b => by omega⟩, ?_⟩
    exact (c_valid hidx hfin hex t j hs.1).2.1.1
  · have hmem : i ∈ (St t).ready := by
      have := bestOf_mem _ _ _ hb'.2
      rw [readyAt_of_not_pp he] at this; exact this
    obtain ⟨p, h1, h2, h3, h4, h5⟩ := (inv3 (cbs := cbs) (ex := ex) (sigma := sigma) (rels := rels) t).rWin i hmem
    have hnpp : isPP cbs ex sigma rels t = false := by
      cases hh : isPP cbs ex sigma rels t with
      | false => rfl
      | true => exact absurd ((isPP_iff t).1 hh).2.2.2 he
    refine ⟨p, ⟨h2, by omega, fun u a b => ?_⟩, ?_⟩
    · rcases Nat.lt_or_ge u t with h' | h'
      · exact h3 u a h'
      · have e : u = t := by omega
        subst e; exact hnpp
    · rw [job_arr' (cbs := cbs) (ex := ex) (sigma := sigma) hfin hj]
      rw [sb_const (cbs := cbs) (ex := ex) (sigma := sigma) (rels := rels) i (show p ≤ t by omega) h4]
      exact h5

theorem once_aux (p t t' i : ℕ) (hp : LastPP (toInfoX cbs ex sigma rels) p t)
    (hp' : LastPP (toInfoX cbs ex sigma rels) p t') (hlt : t < t')
    (hst : startsCb cbs ex sigma rels t i = true) (j' : ℕ) (hs' : StartsAt (Sy) j' t')
    (htj : (Sy).task j' = i) (hpol : (cbs.getD i default).isTimer = false) : False := by
  obtain ⟨hsg, hr, i', hst', hi, hq, hj, htj', hb⟩ := startsAt_info hidx hfin hex t' j' hs'
  have e : i' = i := by rw [← htj', htj]
  subst e
  have hb' : pendingTimers cbs (Rl t').queue = [] ∧ bestOf cbs (readyAt cbs ex sigma rels t') = some i' := by
    rcases hb with hb | hb
    · have := (mem_pendingTimers _ _ _).1 (bestOf_mem _ _ _ hb)
      rw [hpol] at this
      exact absurd this.2.1 (by simp)
    · exact hb
  have hnpp : isPP cbs ex sigma rels t' = false := hp'.2.2 t' (by have := hp.2.1; omega) (Nat.le_refl _)
  have he : (St t').ready ≠ [] := by
    intro he
    have := (isPP_iff t').2 ⟨hsg, hr, hb'.1, he⟩
    rw [hnpp] at this; cases this
  have hmem : i' ∈ (St t').ready := by
    have := bestOf_mem _ _ _ hb'.2
    rw [readyAt_of_not_pp he] at this; exact this
  obtain ⟨q, h1, h2, h3, h4, _⟩ := (inv3 (cbs := cbs) (ex := ex) (sigma := sigma) (rels := rels) t').rWin i' hmem
  have hqp : q = p := by
    rcases Nat.lt_trichotomy q p with h | h | h
    · have := h3 p h (by have := hp.2.1; omega)
      have hh : isPP cbs ex sigma rels p = true := hp.1
      rw [hh] at this; cases this
    · exact h
    · have : isPP cbs ex sigma rels q = false := hp'.2.2 q h (by omega)
      rw [h2] at this; cases this
  subst hqp
  have := h4 t hp.2.1 hlt
  rw [hst] at this; cases this

theorem c_once (p t t' j j' : ℕ) (hp : LastPP (toInfoX cbs ex sigma rels) p t)
    (hp' : LastPP (toInfoX cbs ex sigma rels) p t') (hs : StartsAt (Sy) j t) (hs' : StartsAt (Sy) j' t')
    (hpol : (cbs.getD ((Sy).task j) default).isTimer = false) (htt : (Sy).task j = (Sy).task j') :
    j = j' := by
  obtain ⟨_, _, i, hst, _, _, _, htj, _⟩ := startsAt_info hidx hfin hex t j hs
  obtain ⟨_, _, i', hst', _, _, _, htj', _⟩ := startsAt_info hidx hfin hex t' j' hs'
  rcases Nat.lt_trichotomy t t' with h | h | h
  · exact (once_aux hidx hfin hex p t t' i hp hp' h ((hst i).2 rfl) j' hs'
      (by rw [← htt, htj]) (by rw [← htj]; exact hpol)).elim
  · subst h
    have := hs.1.symm.trans hs'.1
    cases this; rfl
  · exact (once_aux hidx hfin hex p t' t i' hp' hp h ((hst' i').2 rfl) j hs
      (by rw [htt, htj']) (by rw [← htj', ← htt]; exact hpol)).elim

theorem c_served (p p' j : ℕ) (hp : isPP cbs ex sigma rels p = true) (hp' : isPP cbs ex sigma rels p' = true)
    (hlt : p < p') (hjn : j < (Sy).n)
    (hpol : (cbs.getD ((Sy).task j) default).isTimer = false) (harr : (Sy).arr j ≤ p)
    (h0 : svc (Sy) j p' = 0) :
    ∃ k u, k < (Sy).n ∧ k ≠ j ∧ (Sy).task k = (Sy).task j ∧ p ≤ u ∧ u < p' ∧ StartsAt (Sy) k u := by
  have hi := task_lt (ex := ex) (sigma := sigma) (H := H) hidx hjn
  obtain ⟨m, hj⟩ := job_exists' (cbs := cbs) (ex := ex) (sigma := sigma) hjn
  have hm1 : sb ((Sy).task j) p' ≤ m := by
    rcases status (ex := ex) (sigma := sigma) hidx hex hj p' with h | h | h
    · exact h.1
    · omega
    · obtain ⟨_, _, _, _, _, h2, _⟩ := h
      omega
  have hm2 := (job_arr' (cbs := cbs) (ex := ex) (sigma := sigma) hfin hj p).1 harr
  obtain ⟨q, hq1, hq2, hq3, hq4⟩ := last_pp (cbs := cbs) (ex := ex) (sigma := sigma) (rels := rels) p hp p' hlt
  rcases search (fun u => startsCb cbs ex sigma rels u ((Sy).task j)) q p' with hno | ⟨u, hu1, hu2, hu3⟩
  · exfalso
    have hsbq := sb_mono (cbs := cbs) (ex := ex) (sigma := sigma) (rels := rels) ((Sy).task j) (show q ≤ p' by omega)
    have hcq := cnt_mono rels ((Sy).task j) (show p + 1 ≤ q + 1 by omega)
    have := (inv3 (cbs := cbs) (ex := ex) (sigma := sigma) (rels := rels) p').rAll q hq2 hq3 hq4
      ((Sy).task j) hi hpol (by omega) hno
    rw [((isPP_iff p').1 hp').2.2.2] at this; cases this
  · obtain ⟨k, hk, hsk⟩ := startsAt_of hidx hfin hex u ((Sy).task j) hu3
    have hkt := job_task (cbs := cbs) (ex := ex) (sigma := sigma) hk
    refine ⟨k, u, hkt.1, ?_, hkt.2, by omega, hu2, hsk⟩
    intro e
    subst e
    have := (job_inj rels hk hj).2
    have := sb_lt_of_start (cbs := cbs) (ex := ex) (sigma := sigma) (rels := rels) hu3 hu2
    omega

theorem c_prioWin (p t j k : ℕ) (hp : LastPP (toInfoX cbs ex sigma rels) p t) (hs : StartsAt (Sy) j t)
    (hpol : (cbs.getD ((Sy).task j) default).isTimer = false) (hkn : k < (Sy).n)
    (hpolk : (cbs.getD ((Sy).task k) default).isTimer = false)
    (hprio : (cbs.getD ((Sy).task k) default).prio < (cbs.getD ((Sy).task j) default).prio)
    (harr : (Sy).arr k ≤ p) (h0 : svc (Sy) k p = 0) :
    ∃ k' u, k' < (Sy).n ∧ (Sy).task k' = (Sy).task k ∧ p ≤ u ∧ u < t ∧ StartsAt (Sy) k' u := by
  have hi := task_lt (ex := ex) (sigma := sigma) (H := H) hidx hkn
  obtain ⟨m, hj⟩ := job_exists' (cbs := cbs) (ex := ex) (sigma := sigma) hkn
  have hm1 : sb ((Sy).task k) p ≤ m := by
    rcases status (ex := ex) (sigma := sigma) hidx hex hj p with h | h | h
    · exact h.1
    · omega
    · obtain ⟨_, _, _, _, _, h2, _⟩ := h
      omega
  have hm2 := (job_arr' (cbs := cbs) (ex := ex) (sigma := sigma) hfin hj p).1 harr
  obtain ⟨hsg, hr, i, hst, _, _, _, htj, hb⟩ := startsAt_info hidx hfin hex t j hs
  rw [htj] at hpol hprio
  have hb' : pendingTimers cbs (Rl t).queue = [] ∧ bestOf cbs (readyAt cbs ex sigma rels t) = some i := by
    rcases hb with hb | hb
    · have := (mem_pendingTimers _ _ _).1 (bestOf_mem _ _ _ hb)
      rw [hpol] at this
      exact absurd this.2.1 (by simp)
    · exact hb
  have hpp : isPP cbs ex sigma rels p = true := hp.1
  rcases search (fun u => startsCb cbs ex sigma rels u ((Sy).task k)) p t with hno | ⟨u, hu1, hu2, hu3⟩
  · exfalso
    have hmem : (Sy).task k ∈ readyAt cbs ex sigma rels t := by
      rcases Nat.lt_or_ge p t with hlt | hge
      · have hnpp : isPP cbs ex sigma rels t = false := hp.2.2 t hlt (Nat.le_refl _)
        have := (inv3 (cbs := cbs) (ex := ex) (sigma := sigma) (rels := rels) t).rAll p hlt hpp
          (fun u a b => hp.2.2 u a (by omega)) ((Sy).task k) hi hpolk (by omega) hno
        have he : (St t).ready ≠ [] := by
          intro he; rw [he] at this; cases this
        rw [readyAt_of_not_pp he]; exact this
      · have e : p = t := by have := hp.2.1; omega
        subst e
        rw [readyAt_of_pp ((isPP_iff p).1 hpp).2.2.2, mem_pendingPolled]
        refine ⟨hi, hpolk, ?_⟩
        have := (inv1 (cbs := cbs) (ex := ex) (sigma := sigma) (rels := rels) p).rq _ hi
        omega
    have := bestOf_min _ _ _ hb'.2 _ hmem
    omega
  · obtain ⟨k', hk, hsk⟩ := startsAt_of hidx hfin hex u ((Sy).task k) hu3
    have hkt := job_task (cbs := cbs) (ex := ex) (sigma := sigma) hk
    exact ⟨k', u, hkt.1, hkt.2, hu1, hu2, hsk⟩

theorem polling_legal : PollingExecLegal (Sy) sigma (toInfoX cbs ex sigma rels) where
  valid := c_valid hidx hfin hex
  nonpre := c_nonpre hidx hfin hex
  wc := c_wc hidx hfin hex
  fifo := c_fifo hidx hfin hex
  ppIdle := c_ppIdle hidx hex
  timersFirst := c_timersFirst hidx hfin hex
  inWindow := c_inWindow hidx hfin hex
  once := c_once hidx hfin hex
  served := c_served hidx hfin hex
  prioWin := c_prioWin hidx hfin hex

theorem timer_legal (i : ℕ) (hti : (cbs.getD i default).isTimer = true)
    (hdist : ∀ k, k < cbs.length → k ≠ i → (cbs.getD k default).isTimer = true →
      (cbs.getD k default).prio ≠ (cbs.getD i default).prio) :
    SupplyTimerLegal (Sy) sigma i
      (fun k => (cbs.getD k default).isTimer = true ∧
        (cbs.getD k default).prio < (cbs.getD i default).prio) where
  valid := c_valid hidx hfin hex
  nonpre := c_nonpre hidx hfin hex
  wc := fun t h ⟨k, hk, _, hp⟩ => c_wc hidx hfin hex t h ⟨k, hk, hp⟩
  prioOther := by
    intro t j hs h0 hnr k hk hrel hp
    obtain ⟨_, hr, c, _, _, _, _, htj, hb⟩ := startsAt_info hidx hfin hex t j ⟨hs, h0⟩
    obtain ⟨hi', hq⟩ := pending_queue hidx hfin hex t k hk hp hr
    have htk : (cbs.getD ((Sy).task k) default).isTimer = true := by
      rcases hrel with e | e
      · rw [e]; exact hti
      · exact e.1
    have hmem : (Sy).task k ∈ pendingTimers cbs (Rl t).queue :=
      (mem_pendingTimers _ _ _).2 ⟨hi', htk, hq⟩
    rcases hb with hb | ⟨hb, _⟩
    · have hc := (mem_pendingTimers _ _ _).1 (bestOf_mem _ _ _ hb)
      have hmin := bestOf_min _ _ _ hb _ hmem
      have hnr' : ¬ ((Sy).task j = i ∨ ((cbs.getD ((Sy).task j) default).isTimer = true ∧
          (cbs.getD ((Sy).task j) default).prio < (cbs.getD i default).prio)) := hnr
      rw [htj] at hnr'
      have h1 : c ≠ i := fun e => hnr' (Or.inl e)
      have h2 : ¬ (cbs.getD c default).prio < (cbs.getD i default).prio :=
        fun e => hnr' (Or.inr ⟨hc.2.1, e⟩)
      have h3 := hdist c hc.1 h1 hc.2.1
      rcases hrel with e | e
      · rw [e] at hmin; omega
      · have := e.2; omega
    · rw [hb] at hmem; cases hmem
  prioOwn := by
    intro t j hs h0 hji k hk hki hp
    by_cases hkj : k = j
    · subst hkj; exact Nat.le_refl _
    · rcases c_nonpre hidx hfin hex t j hs k hk hkj with h | h
      · exact c_fifo hidx hfin hex t j ⟨hs, h0⟩ k hk (by rw [hki, hji]) hp h
      · have := hp.2; omega

end clauses

end RefineXLemmas

/-- the cost of every job of the run's job system is at most the WCET of its callback … -/
theorem toSysX_cost_le (H : ℕ) (hidx : ∀ t, ∀ i ∈ rels t, i < cbs.length)
    (hex : ∀ k, k < cbs.length → ∀ t, 1 ≤ ex k t ∧ ex k t ≤ (cbs.getD k default).cost)
    (k : ℕ) (hk : k < (toSysX cbs ex sigma rels H).n) :
    (toSysX cbs ex sigma rels H).cost k ≤ (cbs.getD ((toSysX cbs ex sigma rels H).task k) default).cost :=
  (RefineXLemmas.costX_bounds (sigma := sigma) hex (H := H) (k := k)
    (RefineXLemmas.task_lt (ex := ex) (sigma := sigma) (H := H) hidx hk)).2

/-- … and at least 1 -/
theorem toSysX_cost_pos (H : ℕ) (hidx : ∀ t, ∀ i ∈ rels t, i < cbs.length)
    (hex : ∀ k, k < cbs.length → ∀ t, 1 ≤ ex k t ∧ ex k t ≤ (cbs.getD k default).cost)
    (k : ℕ) (hk : k < (toSysX cbs ex sigma rels H).n) :
    1 ≤ (toSysX cbs ex sigma rels H).cost k :=
  (RefineXLemmas.costX_bounds (sigma := sigma) hex (H := H) (k := k)
    (RefineXLemmas.task_lt (ex := ex) (sigma := sigma) (H := H) hidx hk)).1

/-- the cost of a job that is served at all is the execution time `ex` drawn in its first slot -/
theorem toSysX_cost_eq (H k t : ℕ) (h1 : (toSysX cbs ex sigma rels H).sched t = some k)
    (h2 : ∀ u, u < t → (toSysX cbs ex sigma rels H).sched u ≠ some k) :
    (toSysX cbs ex sigma rels H).cost k = ex ((toSysX cbs ex sigma rels H).task k) t :=
  RefineXLemmas.costX_first h1 h2

/-- every run of the executor transition system satisfies the polling-point Spec -/
theorem run_polling_legal_x (H : ℕ)
    (hidx : ∀ t, ∀ i ∈ rels t, i < cbs.length)
    (hfin : ∀ t, H ≤ t → rels t = [])
    (hex : ∀ k, k < cbs.length → ∀ t, 1 ≤ ex k t ∧ ex k t ≤ (cbs.getD k default).cost) :
    PollingExecLegal (toSysX cbs ex sigma rels H) sigma (toInfoX cbs ex sigma rels) :=
  RefineXLemmas.polling_legal hidx hfin hex

/-- and, for a timer `i` whose priority value is shared by no other timer, the timer Spec with
the timers of smaller priority value as higher-priority timers -/
theorem run_timer_legal_x (H : ℕ) (i : ℕ) (hi : i < cbs.length) (hti : (cbs.getD i default).isTimer = true)
    (hidx : ∀ t, ∀ i ∈ rels t, i < cbs.length)
    (hfin : ∀ t, H ≤ t → rels t = [])
    (hex : ∀ k, k < cbs.length → ∀ t, 1 ≤ ex k t ∧ ex k t ≤ (cbs.getD k default).cost)
    (hdist : ∀ k, k < cbs.length → k ≠ i → (cbs.getD k default).isTimer = true →
      (cbs.getD k default).prio ≠ (cbs.getD i default).prio) :
    SupplyTimerLegal (toSysX cbs ex sigma rels H) sigma i
      (fun k => (cbs.getD k default).isTimer = true ∧ (cbs.getD k default).prio < (cbs.getD i default).prio) := by
  have _ := hi
  exact RefineXLemmas.timer_legal hidx hfin hex i hti hdist

end RTA.ExecX
