import RTA.Lemmas.CurveN
import RTA.Lemmas.CurveSteps
import RTA.Lemmas.Sporadic
import RTA.Model.XCurve
/-! Extrapolation of delta-min prefixes (C13): append-only, conservative, tightening
within the covered horizon, and the pure semantics of `ExtrapolatingCurve`. -/

namespace RTA
open RTA.Spec

/-- the prefix extended `n` times by `extrapolate_next` -/
def iterExt (d : List Nat) : Nat → List Nat
  | 0 => d
  | n + 1 => iterExt d n ++ [extrapolateNext (iterExt d n)]

/-! ### helpers -/

theorem maxList_le_iff (l : List Nat) (b : Nat) : maxList l ≤ b ↔ ∀ x ∈ l, x ≤ b := by
  induction l with
  | nil => simp [maxList]
  | cons a as ih => simp [maxList, Nat.max_le, ih]

theorem le_maxList_of_mem (l : List Nat) (x : Nat) (h : x ∈ l) : x ≤ maxList l :=
  (maxList_le_iff l _).1 (Nat.le_refl _) x h

theorem ext_getD_append_left (l m : List Nat) (i : Nat) (hi : i < l.length) :
    (l ++ m).getD i 0 = l.getD i 0 := by
  rw [List.getD_eq_getElem?_getD, List.getD_eq_getElem?_getD, List.getElem?_append_left hi]

theorem ext_getD_append_length (l : List Nat) (a : Nat) : (l ++ [a]).getD l.length 0 = a := by
  rw [List.getD_eq_getElem?_getD, List.getElem?_append_right (Nat.le_refl _)]
  simp

theorem getD_zero_eq_headD (d : List Nat) : d.getD 0 0 = d.headD 0 := by
  cases d <;> rfl

theorem ext_getLastD_mem (d : List Nat) (hne : d ≠ []) : d.getLastD 0 ∈ d := by
  rw [← getD_last d hne, List.getD_eq_getElem?_getD]
  have hlen : 0 < d.length := List.length_pos_iff.2 hne
  rw [List.getElem?_eq_getElem (by omega)]
  exact List.getElem_mem _

theorem ext_sorted_le_last (d : List Nat) (hs : d.Pairwise (· ≤ ·)) : ∀ v ∈ d, v ≤ d.getLastD 0 := by
  induction d with
  | nil => intro v hv; simp at hv
  | cons a as ih =>
    intro v hv
    cases as with
    | nil => simp at hv; subst hv; exact Nat.le_refl _
    | cons b bs =>
      rw [getLastD_cons_cons]
      have hs' := (List.pairwise_cons.1 hs)
      rcases List.mem_cons.1 hv with rfl | hv
      · have h1 := hs'.1 _ (ext_getLastD_mem (b :: bs) (by simp))
        exact h1
      · exact ih hs'.2 v hv

/-- every symmetric split is a lower bound of `extrapolateNext` -/
theorem le_extrapolateNext (d : List Nat) (k : Nat) (hk : k < d.length) :
    d.getD k 0 + d.getD (d.length - 1 - k) 0 ≤ extrapolateNext d := by
  unfold extrapolateNext
  by_cases h : k ≤ d.length / 2
  · apply le_maxList_of_mem
    rw [List.mem_map]
    refine ⟨k, List.mem_range.2 (by omega), ?_⟩
    have e : d.length - k - 1 = d.length - 1 - k := by omega
    simp only [e]
  · apply le_maxList_of_mem
    rw [List.mem_map]
    refine ⟨d.length - 1 - k, List.mem_range.2 (by omega), ?_⟩
    have e : d.length - (d.length - 1 - k) - 1 = k := by omega
    simp only [e]
    omega

theorem extrapolateNext_le (d : List Nat) (b : Nat)
    (h : ∀ k, k ≤ d.length / 2 → d.getD k 0 + d.getD (d.length - k - 1) 0 ≤ b) :
    extrapolateNext d ≤ b := by
  unfold extrapolateNext
  rw [maxList_le_iff]
  intro x hx
  rw [List.mem_map] at hx
  obtain ⟨k, hk, rfl⟩ := hx
  exact h k (by have := List.mem_range.1 hk; omega)

theorem iterExt_succ' (d : List Nat) (n : Nat) :
    iterExt d (n + 1) = iterExt (d ++ [extrapolateNext d]) n := by
  induction n with
  | zero => rfl
  | succ n ih =>
    show iterExt d (n + 1) ++ [extrapolateNext (iterExt d (n + 1))] = _
    rw [ih]; rfl

/-- `extrapolate`, `extrapolate_steps` only ever append `extrapolate_next` values -/
theorem extrapolate_is_iterExt (d : List Nat) (h fuel : Nat) :
    ∃ n, extrapolate d h fuel = iterExt d n := by
  induction fuel generalizing d with
  | zero => exact ⟨0, rfl⟩
  | succ f ih =>
    unfold extrapolate
    split
    · obtain ⟨n, hn⟩ := ih (d ++ [extrapolateNext d])
      exact ⟨n + 1, by rw [hn, iterExt_succ']⟩
    · exact ⟨0, rfl⟩

theorem extrapolateSteps_is_iterExt (d : List Nat) (k fuel : Nat) :
    ∃ n, extrapolateSteps d k fuel = iterExt d n := by
  induction fuel generalizing d with
  | zero => exact ⟨0, rfl⟩
  | succ f ih =>
    unfold extrapolateSteps
    split
    · obtain ⟨n, hn⟩ := ih (d ++ [extrapolateNext d])
      exact ⟨n + 1, by rw [hn, iterExt_succ']⟩
    · exact ⟨0, rfl⟩

theorem iterExt_prefix (d : List Nat) (n k : Nat) : ∃ more, iterExt d (n + k) = iterExt d n ++ more := by
  induction k with
  | zero => exact ⟨[], by simp⟩
  | succ k ih =>
    obtain ⟨more, hm⟩ := ih
    refine ⟨more ++ [extrapolateNext (iterExt d (n + k))], ?_⟩
    rw [← List.append_assoc, ← hm]
    rfl

/-- values inside the original prefix are unchanged (append-only) -/
theorem iterExt_take (d : List Nat) (n : Nat) : (iterExt d n).take d.length = d := by
  obtain ⟨more, hm⟩ := iterExt_prefix d 0 n
  rw [Nat.zero_add] at hm
  rw [hm]
  exact List.take_left' rfl

theorem iterExt_length (d : List Nat) (n : Nat) : (iterExt d n).length = d.length + n := by
  induction n with
  | zero => rfl
  | succ n ih =>
    show (iterExt d n ++ _).length = _
    rw [List.length_append, ih]; rfl

/-- the next extrapolated distance is at least `d[0] + last` -/
theorem extrapolateNext_ge (d : List Nat) (hne : d ≠ []) :
    d.headD 0 + d.getLastD 0 ≤ extrapolateNext d := by
  have hlen : 0 < d.length := List.length_pos_iff.2 hne
  have := le_extrapolateNext d 0 hlen
  rw [getD_zero_eq_headD, Nat.sub_zero, getD_last d hne] at this
  exact this

theorem curveWF_snoc (d : List Nat) (hwf : curveWF d) (e : Nat) (he : d.getLastD 0 ≤ e) :
    curveWF (d ++ [e]) := by
  obtain ⟨hne, hs, hl⟩ := hwf
  refine ⟨by simp, ?_, ?_⟩
  · rw [List.pairwise_append]
    refine ⟨hs, by simp, ?_⟩
    intro a ha b hb
    simp at hb; subst hb
    exact Nat.le_trans (ext_sorted_le_last d hs a ha) he
  · rw [List.getLastD_concat]; omega

/-- extrapolation preserves well-formedness (sortedness in particular) -/
theorem iterExt_wf (d : List Nat) (hwf : curveWF d) (n : Nat) : curveWF (iterExt d n) := by
  induction n with
  | zero => exact hwf
  | succ n ih =>
    apply curveWF_snoc _ ih
    have := extrapolateNext_ge (iterExt d n) ih.1
    omega

/-- conservative: a sequence respecting the original prefix respects every extrapolation -/
theorem respects_extrapolateNext (d rels : List Nat) (h2 : 2 ≤ d.length) (h : Respects d rels) :
    Respects (d ++ [extrapolateNext d]) rels := by
  refine ⟨h.1, ?_⟩
  intro i k hk hik
  rw [List.length_append, List.length_singleton] at hk
  by_cases hkn : k < d.length
  · rw [ext_getD_append_left _ _ _ hkn]
    exact h.2 i k hkn hik
  · have hkeq : k = d.length := by omega
    subst hkeq
    rw [ext_getD_append_length]
    have key : extrapolateNext d ≤ rels.getD (i + d.length + 1) 0 - rels.getD i 0 := by
      apply extrapolateNext_le
      intro k hk
      have h1 := h.2 i k (by omega) (by omega)
      have h2' := h.2 (i + k + 1) (d.length - k - 1) (by omega) (by omega)
      have e : i + k + 1 + (d.length - k - 1) + 1 = i + d.length + 1 := by omega
      rw [e] at h2'
      omega
    have h0 := h.2 i 0 (by omega) (by omega)
    have h3 := h.2 (i + 0 + 1) (d.length - 1) (by omega) (by omega)
    have e : i + 0 + 1 + (d.length - 1) + 1 = i + d.length + 1 := by omega
    rw [e] at h3
    omega

theorem respects_iterExt (d rels : List Nat) (h2 : 2 ≤ d.length) (h : Respects d rels) (n : Nat) :
    Respects (iterExt d n) rels := by
  induction n with
  | zero => exact h
  | succ n ih =>
    exact respects_extrapolateNext _ _ (by rw [iterExt_length]; omega) ih

/-! ### entries of the iterated extrapolation -/

theorem iterExt_getD_prefix (d : List Nat) (n k j : Nat) (hj : j < d.length + n) :
    (iterExt d (n + k)).getD j 0 = (iterExt d n).getD j 0 := by
  obtain ⟨more, hm⟩ := iterExt_prefix d n k
  rw [hm, ext_getD_append_left _ _ _ (by rw [iterExt_length]; exact hj)]

theorem iterExt_getD_new (d : List Nat) (n : Nat) :
    (iterExt d (n + 1)).getD (d.length + n) 0 = extrapolateNext (iterExt d n) := by
  show (iterExt d n ++ [extrapolateNext (iterExt d n)]).getD (d.length + n) 0 = _
  rw [← iterExt_length d n, ext_getD_append_length]

theorem iterExt_getD_orig (d : List Nat) (n j : Nat) (hj : j < d.length) :
    (iterExt d n).getD j 0 = d.getD j 0 := by
  have := iterExt_getD_prefix d 0 n j (by omega)
  rw [Nat.zero_add] at this
  exact this

theorem spanLB_small (d : List Nat) (hne : d ≠ []) (m : Nat) (h1 : 1 ≤ m) (hm : m ≤ d.length) :
    spanLB d m = d.getD (m - 1) 0 := by
  unfold spanLB
  rcases Nat.lt_or_eq_of_le hm with h | h
  · rw [Nat.div_eq_of_lt h, Nat.mod_eq_of_lt h, if_neg (by omega)]
    omega
  · subst h
    rw [Nat.div_self (by omega), Nat.mod_self, if_pos rfl, getD_last d hne]
    omega

theorem spanLB_add_len (d : List Nat) (hne : d ≠ []) (m : Nat) :
    spanLB d (m + d.length) = d.getLastD 0 + spanLB d m := by
  have hlen : 0 < d.length := List.length_pos_iff.2 hne
  unfold spanLB
  rw [Nat.add_div_right _ hlen, Nat.add_mod_right, Nat.add_mul, Nat.one_mul]
  omega

/-- the span bound of the extrapolated vector dominates block repetition of the original:
`spanLB d m ≤ spanLB (iterExt d n) m` for `m ≤ len + n` gaps -/
theorem iterExt_entry_ge_spanLB (d : List Nat) (hwf : curveWF d) (h2 : 2 ≤ d.length) (n m : Nat)
    (hm1 : 1 ≤ m) (hm : m ≤ d.length + n) :
    spanLB d m ≤ (iterExt d n).getD (m - 1) 0 := by
  induction m using Nat.strongRecOn generalizing n with
  | ind m ih =>
    by_cases hml : m ≤ d.length
    · rw [spanLB_small d hwf.1 m hm1 hml, iterExt_getD_orig d n (m - 1) (by omega)]
      exact Nat.le_refl _
    · obtain ⟨p, hp⟩ : ∃ p, m = d.length + p + 1 := ⟨m - d.length - 1, by omega⟩
      have e1 : (iterExt d n).getD (m - 1) 0 = extrapolateNext (iterExt d p) := by
        obtain ⟨k, rfl⟩ : ∃ k, n = (p + 1) + k := ⟨n - (p + 1), by omega⟩
        rw [iterExt_getD_prefix d (p + 1) k (m - 1) (by omega)]
        have : m - 1 = d.length + p := by omega
        rw [this, iterExt_getD_new]
      rw [e1]
      have hle := le_extrapolateNext (iterExt d p) (d.length - 1) (by rw [iterExt_length]; omega)
      rw [iterExt_length, iterExt_getD_orig d p (d.length - 1) (by omega), getD_last d hwf.1] at hle
      have e2 : d.length + p - 1 - (d.length - 1) = (p + 1) - 1 := by omega
      rw [e2] at hle
      have ih' := ih (p + 1) (by omega) p (by omega) (by omega)
      have e3 : spanLB d m = d.getLastD 0 + spanLB d (p + 1) := by
        rw [hp, show d.length + p + 1 = (p + 1) + d.length by omega, spanLB_add_len d hwf.1]
      omega

theorem curveN_small (d : List Nat) (hwf : curveWF d) (x : Nat) (hx1 : 1 ≤ x)
    (hx : x < d.getLastD 0) : curveN d x = 1 + countLt d x := by
  rw [curveN_closed0 d hwf x (Nat.le_of_lt hx), if_neg (by omega)]

/-- as `curveN_small`, including the largest distance itself -/
theorem curveN_small_le (d : List Nat) (hwf : curveWF d) (x : Nat) (hx1 : 1 ≤ x)
    (hx : x ≤ d.getLastD 0) : curveN d x = 1 + countLt d x := by
  rw [curveN_closed0 d hwf x hx, if_neg (by omega)]

/-- tightening inside the covered horizon: for window lengths below the largest
extrapolated distance the extrapolated curve never claims more arrivals than the
original one -/
theorem curveN_iterExt_le (d : List Nat) (hwf : curveWF d) (h2 : 2 ≤ d.length) (n x : Nat)
    (hx : x < (iterExt d n).getLastD 0) :
    curveN (iterExt d n) x ≤ curveN d x := by
  by_cases hx0 : x = 0
  · subst hx0; rw [curveN_zero]; exact Nat.zero_le _
  · have hwfD := iterExt_wf d hwf n
    rw [curveN_small _ hwfD x (by omega) hx]
    have hpos := curveN_pos d hwf x (by omega)
    by_cases hm : curveN d x ≤ d.length + n
    · have h1 := curveN_spanLB d hwf x (curveN d x) (by omega) (Nat.le_refl _)
      have h2' := iterExt_entry_ge_spanLB d hwf h2 n (curveN d x) hpos hm
      apply Nat.le_of_not_lt
      intro hlt
      have := getD_lt_of_countLt (iterExt d n) hwfD.2.1 x (curveN d x - 1) (by omega)
      omega
    · have := countLt_lt_length (iterExt d n) hwfD.1 x (Nat.le_of_lt hx)
      rw [iterExt_length] at this
      omega

/-- finding F6: BEYOND the extrapolated horizon a partially extrapolated `Curve` can
claim more arrivals than the original (`Curve [1,10]` extrapolated to horizon 11, Δ = 13) -/
theorem extrapolate_loosens_beyond_horizon :
    curveN (extrapolate [1, 10] 11 (extrapolateFuel [1, 10] 11)) 13 > curveN [1, 10] 13 := by
  decide

theorem countLt_append (a b : List Nat) (x : Nat) :
    countLt (a ++ b) x = countLt a x + countLt b x := by
  simp [countLt]

theorem countLt_append_stable (e more : List Nat) (hs : (e ++ more).Pairwise (· ≤ ·)) (hne : e ≠ [])
    (x : Nat) (hx : x ≤ e.getLastD 0) : countLt (e ++ more) x = countLt e x := by
  rw [countLt_append, countLt_eq_zero more x]
  · rfl
  · intro v hv
    have := (List.pairwise_append.1 hs).2.2 _ (ext_getLastD_mem e hne) v hv
    omega

theorem getLastD_append_ge (e more : List Nat) (hs : (e ++ more).Pairwise (· ≤ ·)) (hne : e ≠ []) :
    e.getLastD 0 ≤ (e ++ more).getLastD 0 :=
  ext_sorted_le_last _ hs _ (List.mem_append_left _ (ext_getLastD_mem e hne))

/-- `number_arrivals` only looks at entries below the query: appending larger entries
does not change it (the cache is invisible) -/
theorem curveN_stable (e more : List Nat) (hwf : curveWF (e ++ more)) (hne : e ≠ []) (x : Nat)
    (hx : x < e.getLastD 0) : curveN (e ++ more) x = curveN e x := by
  by_cases hx0 : x = 0
  · subst hx0; rw [curveN_zero, curveN_zero]
  · have hge := getLastD_append_ge e more hwf.2.1 hne
    have hwfe : curveWF e := ⟨hne, (List.pairwise_append.1 hwf.2.1).1, by omega⟩
    rw [curveN_small _ hwf x (by omega) (by omega), curveN_small _ hwfe x (by omega) hx,
      countLt_append_stable e more hwf.2.1 hne x (Nat.le_of_lt hx)]

/-! ### termination of `extrapolate` -/

theorem extrapolate_result (d : List Nat) (h fuel : Nat) (h2 : 2 ≤ d.length) :
    ∃ n, extrapolate d h fuel = iterExt d n ∧ (h ≤ (iterExt d n).getLastD 0 ∨ n = fuel) := by
  induction fuel generalizing d with
  | zero => exact ⟨0, rfl, Or.inr rfl⟩
  | succ f ih =>
    unfold extrapolate
    split
    · obtain ⟨n, hn, hor⟩ := ih (d ++ [extrapolateNext d]) (by simp; omega)
      refine ⟨n + 1, by rw [hn, iterExt_succ'], ?_⟩
      rw [iterExt_succ']
      rcases hor with h | h
      · exact Or.inl h
      · exact Or.inr (by omega)
    · rename_i hc
      exact ⟨0, rfl, Or.inl (by show h ≤ d.getLastD 0; omega)⟩

theorem iterExt_last_ge (d : List Nat) (hwf : curveWF d) (h2 : 2 ≤ d.length) (n : Nat) :
    (d.length + n) / d.length ≤ (iterExt d n).getLastD 0 := by
  have h := iterExt_entry_ge_spanLB d hwf h2 n (d.length + n) (by omega) (Nat.le_refl _)
  have hl := getD_last (iterExt d n) (iterExt_wf d hwf n).1
  rw [iterExt_length] at hl
  rw [hl] at h
  refine Nat.le_trans ?_ h
  unfold spanLB
  have := Nat.mul_le_mul_left ((d.length + n) / d.length) hwf.2.2
  omega

theorem extrapolate_reaches_aux (d : List Nat) (hwf : curveWF d) (h2 : 2 ≤ d.length) (h : Nat) :
    h ≤ (extrapolate d h (extrapolateFuel d h)).getLastD 0 := by
  obtain ⟨n, hn, hor⟩ := extrapolate_result d h (extrapolateFuel d h) h2
  rw [hn]
  rcases hor with hh | hh
  · exact hh
  · refine Nat.le_trans ?_ (iterExt_last_ge d hwf h2 n)
    rw [Nat.le_div_iff_mul_le (by omega), hh]
    unfold extrapolateFuel
    have := Nat.mul_le_mul_left (h + 1) (show d.length ≤ d.length + 2 by omega)
    rw [Nat.succ_mul] at this
    omega

/-- termination of `extrapolate` (the fuel of the model suffices) when two events cannot
coincide (`d[0] ≥ 1`): every push raises the last entry -/
theorem extrapolate_reaches_of_pos (d : List Nat) (hwf : curveWF d) (h2 : 2 ≤ d.length)
    (hpos : 1 ≤ d.headD 0) (h : Nat) :
    h ≤ (extrapolate d h (extrapolateFuel d h)).getLastD 0 := by
  have _ := hpos
  exact extrapolate_reaches_aux d hwf h2 h

/-- termination in general (bursts allowed): every `len + 1` pushes raise the last entry -/
theorem extrapolate_reaches (d : List Nat) (hwf : curveWF d) (h2 : 2 ≤ d.length) (h : Nat) :
    h ≤ (extrapolate d h (extrapolateFuel d h)).getLastD 0 :=
  extrapolate_reaches_aux d hwf h2 h

/-! ### the pure semantics of `ExtrapolatingCurve` -/

theorem xcurveN_zero (d : List Nat) : xcurveN d 0 = 0 := by
  simp [xcurveN]

theorem extrapolate_short (d : List Nat) (h fuel : Nat) (hs : d.length < 2) :
    extrapolate d h fuel = d := by
  cases fuel with
  | zero => rfl
  | succ f => unfold extrapolate; rw [if_neg (by omega)]

theorem xcurveN_short (d : List Nat) (x : Nat) (hs : d.length < 2) : xcurveN d x = curveN d x := by
  unfold xcurveN
  split
  · rename_i h; subst h; rw [curveN_zero]
  · rw [extrapolate_short _ _ _ hs]

theorem countLt_iterExt_stable (d : List Nat) (hwf : curveWF d) (n k x : Nat)
    (hx : x ≤ (iterExt d n).getLastD 0) :
    countLt (iterExt d (n + k)) x = countLt (iterExt d n) x := by
  obtain ⟨more, hm⟩ := iterExt_prefix d n k
  have hw := iterExt_wf d hwf (n + k)
  rw [hm] at hw ⊢
  exact countLt_append_stable _ _ hw.2.1 (iterExt_wf d hwf n).1 x hx

theorem iterExt_last_mono (d : List Nat) (hwf : curveWF d) (n k : Nat) :
    (iterExt d n).getLastD 0 ≤ (iterExt d (n + k)).getLastD 0 := by
  obtain ⟨more, hm⟩ := iterExt_prefix d n k
  have hw := iterExt_wf d hwf (n + k)
  rw [hm] at hw ⊢
  exact getLastD_append_ge _ _ hw.2.1 (iterExt_wf d hwf n).1

theorem exists_iterExt_last_gt (d : List Nat) (hwf : curveWF d) (h2 : 2 ≤ d.length) (b : Nat) :
    ∃ n, b < (iterExt d n).getLastD 0 := by
  obtain ⟨n, hn⟩ := extrapolate_is_iterExt d (b + 1) (extrapolateFuel d (b + 1))
  have hr := extrapolate_reaches d hwf h2 (b + 1)
  rw [hn] at hr
  exact ⟨n, hr⟩

/-- closed form: `N Δ = 1 + #{i | D[i] < Δ}` over any sufficiently long extrapolation -/
theorem xcurveN_eq (d : List Nat) (hwf : curveWF d) (h2 : 2 ≤ d.length) (x n : Nat) (hx : 1 ≤ x)
    (hn : x < (iterExt d n).getLastD 0) :
    xcurveN d x = 1 + countLt (iterExt d n) x := by
  unfold xcurveN
  rw [if_neg (by omega)]
  obtain ⟨n', hn'⟩ := extrapolate_is_iterExt d (x + 1) (extrapolateFuel d (x + 1))
  have hr := extrapolate_reaches d hwf h2 (x + 1)
  rw [hn'] at hr ⊢
  rw [curveN_small _ (iterExt_wf d hwf n') x hx (by omega)]
  congr 1
  rcases Nat.le_total n n' with hle | hle
  · obtain ⟨k, rfl⟩ : ∃ k, n' = n + k := ⟨n' - n, by omega⟩
    exact countLt_iterExt_stable d hwf n k x (by omega)
  · obtain ⟨k, rfl⟩ : ∃ k, n = n' + k := ⟨n - n', by omega⟩
    exact (countLt_iterExt_stable d hwf n' k x (by omega)).symm

theorem xcurveN_mono (d : List Nat) (hwf : curveWF d) : MonoN (xcurveN d) := by
  intro a b hab
  by_cases h2 : 2 ≤ d.length
  · by_cases ha : a = 0
    · subst ha; rw [xcurveN_zero]; exact Nat.zero_le _
    · obtain ⟨n, hn⟩ := exists_iterExt_last_gt d hwf h2 b
      rw [xcurveN_eq d hwf h2 a n (by omega) (by omega), xcurveN_eq d hwf h2 b n (by omega) hn]
      have := countLt_mono (iterExt d n) a b hab
      omega
  · rw [xcurveN_short d a (by omega), xcurveN_short d b (by omega)]
    exact curveN_mono d hwf a b hab

/-- C13 tightening for the auto-extrapolating curve: never more than the plain curve -/
theorem xcurveN_le_curveN (d : List Nat) (hwf : curveWF d) (x : Nat) : xcurveN d x ≤ curveN d x := by
  by_cases h2 : 2 ≤ d.length
  · by_cases hx : x = 0
    · subst hx; rw [xcurveN_zero]; exact Nat.zero_le _
    · obtain ⟨n, hn⟩ := exists_iterExt_last_gt d hwf h2 x
      rw [xcurveN_eq d hwf h2 x n (by omega) hn,
        ← curveN_small _ (iterExt_wf d hwf n) x (by omega) hn]
      exact curveN_iterExt_le d hwf h2 n x hn
  · rw [xcurveN_short d x (by omega)]
    exact Nat.le_refl _

/-- C10/C13 conservative: still bounds every sequence respecting the original prefix -/
theorem xcurve_bounds (d : List Nat) (hwf : curveWF d) (rels : List Nat) (h : Respects d rels)
    (t x : Nat) : cnt rels t x ≤ xcurveN d x := by
  by_cases h2 : 2 ≤ d.length
  · unfold xcurveN
    split
    · rename_i hx; subst hx; rw [cnt_zero]; exact Nat.le_refl _
    · obtain ⟨n, hn⟩ := extrapolate_is_iterExt d (x + 1) (extrapolateFuel d (x + 1))
      rw [hn]
      exact curve_bounds _ (iterExt_wf d hwf n) rels (respects_iterExt d rels h2 h n) t x
  · rw [xcurveN_short d x (by omega)]
    exact curve_bounds d hwf rels h t x

theorem countLt_step_iff (D : List Nat) (a : Nat) : countLt D a < countLt D (a + 1) ↔ a ∈ D := by
  induction D with
  | nil => simp [countLt]
  | cons v vs ih =>
    rw [countLt_cons, countLt_cons, List.mem_cons]
    have hm := countLt_mono vs a (a + 1) (by omega)
    by_cases hva : a = v
    · subst hva
      rw [if_neg (by omega), if_pos (by omega)]
      constructor
      · intro _; exact Or.inl rfl
      · intro _; omega
    · have e : (if v < a + 1 then 1 else 0) = (if v < a then 1 else 0) := by
        split <;> split <;> omega
      rw [e, ← ih]
      constructor
      · intro h; right; omega
      · rintro (h | h)
        · exact absurd h hva
        · omega

/-- for `δ ≥ 2` the curve steps at `δ` iff `δ - 1` is an extrapolated distance -/
theorem xcurveN_step_iff (d : List Nat) (hwf : curveWF d) (h2 : 2 ≤ d.length) (δ n : Nat)
    (hδ : 2 ≤ δ) (hn : δ ≤ (iterExt d n).getLastD 0) :
    xcurveN d (δ - 1) < xcurveN d δ ↔ (δ - 1) ∈ iterExt d n := by
  obtain ⟨n', hn'⟩ := exists_iterExt_last_gt d hwf h2 δ
  have hmono := iterExt_last_mono d hwf n' n
  rw [xcurveN_eq d hwf h2 (δ - 1) (n' + n) (by omega) (by omega),
    xcurveN_eq d hwf h2 δ (n' + n) (by omega) (by omega)]
  have key := countLt_step_iff (iterExt d (n' + n)) (δ - 1)
  rw [show δ - 1 + 1 = δ by omega] at key
  rw [Nat.add_lt_add_iff_left, key, Nat.add_comm n' n]
  obtain ⟨more, hm⟩ := iterExt_prefix d n n'
  have hw := iterExt_wf d hwf (n + n')
  rw [hm] at hw ⊢
  rw [List.mem_append]
  constructor
  · rintro (h | h)
    · exact h
    · have := (List.pairwise_append.1 hw.2.1).2.2 _ (ext_getLastD_mem _ (iterExt_wf d hwf n).1) _ h
      omega
  · exact Or.inl

theorem curveN_singleton (T x : Nat) (hT : 1 ≤ T) : curveN [T] x = ceilDiv x T := by
  by_cases hx : x = 0
  · subst hx; simp [curveN, ceilDiv]
  · have hwf : curveWF [T] := ⟨by simp, by simp, hT⟩
    obtain ⟨c, t, ht1, ht, hxe, hN⟩ := curveN_decomp [T] hwf x (by omega)
    have hl : [T].getLastD 0 = T := rfl
    rw [hl] at ht hxe
    have hc : countLt [T] t = 0 := countLt_eq_zero _ _ (fun v hv => by
      rw [List.mem_singleton] at hv; omega)
    rw [hN, hc, List.length_singleton, Nat.mul_one]
    unfold ceilDiv
    by_cases htT : t = T
    · have e : x = T * (c + 1) + 0 := by rw [Nat.mul_succ, Nat.mul_comm]; omega
      have := (Nat.div_mod_unique (a := x) (d := c + 1) (c := 0) hT).2 ⟨by omega, hT⟩
      rw [this.1, this.2]; simp
    · have := (Nat.div_mod_unique (a := x) (d := c) (c := t) hT).2
        ⟨by rw [Nat.mul_comm]; omega, by omega⟩
      rw [this.1, this.2, if_pos (by omega)]

/-- C11 for `ExtrapolatingCurve` -/
theorem xcurve_steps_spec (d : List Nat) (hwf : curveWF d) (H : Nat) :
    StepsSpec (xcurveN d) H (xcurveSteps d H) := by
  by_cases h2 : 2 ≤ d.length
  · unfold xcurveSteps
    rw [if_pos h2]
    by_cases hH : 1 ≤ H
    · rw [if_pos hH]
      obtain ⟨n0, hn0⟩ := extrapolate_is_iterExt d H (extrapolateFuel d H)
      have hr := extrapolate_reaches d hwf h2 H
      rw [hn0] at hr ⊢
      have hwfE := iterExt_wf d hwf n0
      constructor
      · rw [List.pairwise_cons]
        constructor
        · intro z hz
          rw [List.mem_map] at hz
          obtain ⟨v, hv, rfl⟩ := hz
          rw [List.mem_filter] at hv
          simp at hv
          omega
        · rw [List.pairwise_map]
          exact ((dedup_strict _ hwfE.2.1).filter _).imp (fun h => by omega)
      · intro δ
        rw [List.mem_cons, List.mem_map]
        constructor
        · rintro (rfl | ⟨v, hv, rfl⟩)
          · refine ⟨Nat.le_refl _, hH, ?_⟩
            show xcurveN d 0 < xcurveN d 1
            obtain ⟨n, hn⟩ := exists_iterExt_last_gt d hwf h2 1
            rw [xcurveN_zero, xcurveN_eq d hwf h2 1 n (Nat.le_refl _) hn]
            omega
          · rw [List.mem_filter, mem_dedup] at hv
            obtain ⟨hvE, hc⟩ := hv
            simp at hc
            refine ⟨by omega, hc.2, ?_⟩
            rw [xcurveN_step_iff d hwf h2 (v + 1) n0 (by omega) (by omega)]
            simpa using hvE
        · rintro ⟨h1, hle, hstep⟩
          by_cases hδ1 : δ = 1
          · left; exact hδ1
          · right
            refine ⟨δ - 1, ?_, by omega⟩
            rw [List.mem_filter, mem_dedup]
            refine ⟨(xcurveN_step_iff d hwf h2 δ n0 (by omega) (by omega)).1 hstep, ?_⟩
            simp
            omega
    · rw [if_neg hH]
      have : H = 0 := by omega
      subst this
      exact stepsSpec_zero _
  · cases d with
    | nil => exact absurd rfl hwf.1
    | cons T tl =>
      cases tl with
      | cons a as => simp at h2
      | nil =>
        have hT : 1 ≤ T := hwf.2.2
        have hp := periodic_steps_spec T H hT
        have e : xcurveN [T] = (Arr.periodic T).N := by
          funext x
          rw [xcurveN_short [T] x (by simp), curveN_singleton T x hT, periodic_N_eq]
        rw [e]
        unfold xcurveSteps
        rw [if_neg (by simp)]
        exact hp

end RTA
