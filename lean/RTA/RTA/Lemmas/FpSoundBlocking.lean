import RTA.Lemmas.FpSoundCompliant
/-! C01 with the blocking bound the crate's documentation prescribes: the longest non-preemptive
segment of any lower-priority task, minus one, computed from per-task maximal segment lengths. -/

open Finset Classical

namespace RTA.Sched
open RTA RTA.Spec RTA.Sched.J

/-- the blocking bound the crate's documentation prescribes: the longest non-preemptive segment of
any LOWER-priority task, minus one (0 if there is no lower-priority task) -/
def lpBlocking (n : ℕ) (pr sg : ℕ → ℕ) (i : ℕ) : ℕ :=
  ((List.range n).filter (fun x => decide (pr i < pr x))).foldr (fun x m => max (sg x - 1) m) 0

namespace FpSoundBlockingLemmas

theorem le_foldr_max (f : ℕ → ℕ) (x : ℕ) :
    ∀ l : List ℕ, x ∈ l → f x ≤ l.foldr (fun y m => max (f y) m) 0 := by
  intro l
  induction l with
  | nil => intro h; exact absurd h List.not_mem_nil
  | cons y l ih =>
    intro h
    rw [List.foldr_cons]
    rcases List.mem_cons.1 h with h | h
    · rw [h]; exact Nat.le_max_left _ _
    · exact Nat.le_trans (ih h) (Nat.le_max_right _ _)

end FpSoundBlockingLemmas
open FpSoundBlockingLemmas

theorem le_lpBlocking (n : ℕ) (pr sg : ℕ → ℕ) (i x : ℕ) (hx : x < n) (hlp : pr i < pr x) :
    sg x - 1 ≤ lpBlocking n pr sg i := by
  unfold lpBlocking
  apply le_foldr_max (fun y => sg y - 1) x
  rw [List.mem_filter]
  exact ⟨List.mem_range.2 hx, decide_eq_true hlp⟩

/-- every run of consecutive non-preemptable service levels of a job of task `x` is at most
`sg x - 1` long -/
def SegmentsBounded (s : Sys) (sg : ℕ → ℕ) : Prop :=
  ∀ l, l < s.n → ∀ x len, (∀ k, k < len → s.np l (x + k)) → len ≤ sg (s.task l) - 1

theorem hblock_of_segments (s : Sys) (ts : List (Arr × Cost)) (pr sg : ℕ → ℕ) (i : ℕ)
    (hc : Compliant s ts) (hseg : SegmentsBounded s sg) :
    ∀ l, l < s.n → pr i < pr (s.task l) → ∀ x len, (∀ k, k < len → s.np l (x + k)) →
      len ≤ lpBlocking ts.length pr sg i := by
  intro l hl hlp x len h
  exact Nat.le_trans (hseg l hl x len h)
    (le_lpBlocking ts.length pr sg i (s.task l) (hc.task_lt l hl) hlp)

/-- C01, floating non-preemptive regions, blocking bound computed from the task set -/
theorem fp_floating_sound_of_segments (s : Sys) (ts : List (Arr × Cost)) (pr : ℕ → ℕ) (i : ℕ)
    (hi : i < ts.length)
    (hwf : ∀ p ∈ ts, p.1.WF ∧ p.2.WF) (hex : ∀ x, x < ts.length → (taskRB ts x).Exact)
    (hc : Compliant s ts) (hl : JlfpLegal s (hepFPe s pr)) (sg : ℕ → ℕ)
    (hseg : SegmentsBounded s sg)
    (hpos : ∀ k, k < s.n → 1 ≤ s.cost k)
    (limit R : ℕ)
    (hR : fpFloating (taskRB ts i) (lpBlocking ts.length pr sg i) (hepOthers ts pr i) limit
      = .ok R) :
    ∀ j, j < s.n → s.task j = i → MeetsBound s j R :=
  fp_floating_sound_of_compliant s ts pr i hi hwf hex hc hl (lpBlocking ts.length pr sg i)
    (hblock_of_segments s ts pr sg i hc hseg) hpos limit R hR

/-- C01, fully non-preemptive task under analysis with scalar WCET `C`, blocking bound computed
from the task set -/
theorem fp_nonpreemptive_sound_of_segments (s : Sys) (ts : List (Arr × Cost)) (pr : ℕ → ℕ)
    (i : ℕ) (hi : i < ts.length) (a : Arr) (C : ℕ) (hts : ts[i] = (a, .scalar C))
    (hwf : ∀ p ∈ ts, p.1.WF ∧ p.2.WF) (hexa : a.Exact)
    (hex : ∀ x, x < ts.length → pr x ≤ pr i → x ≠ i → (taskRB ts x).Exact)
    (hc : Compliant s ts) (hl : JlfpLegal s (hepFPe s pr)) (sg : ℕ → ℕ)
    (hseg : SegmentsBounded s sg)
    (hpos : ∀ k, k < s.n → 1 ≤ s.cost k)
    (hown : ∀ j, j < s.n → s.task j = i → ∀ x, 1 ≤ x → x < s.cost j → s.np j x)
    (limit R : ℕ)
    (hR : fpNonpreemptive a C (lpBlocking ts.length pr sg i) (hepOthers ts pr i) limit = .ok R) :
    ∀ j, j < s.n → s.task j = i → MeetsBound s j R :=
  fp_nonpreemptive_sound_of_compliant s ts pr i hi a C hts hwf hexa hex hc hl
    (lpBlocking ts.length pr sg i) (hblock_of_segments s ts pr sg i hc hseg) hpos hown limit R hR

/-- C01, limited-preemptive task under analysis with scalar WCET `C` and last segment `last`,
blocking bound computed from the task set -/
theorem fp_limited_sound_of_segments (s : Sys) (ts : List (Arr × Cost)) (pr : ℕ → ℕ)
    (i : ℕ) (hi : i < ts.length) (a : Arr) (C last : ℕ) (hts : ts[i] = (a, .scalar C))
    (hwf : ∀ p ∈ ts, p.1.WF ∧ p.2.WF) (hexa : a.Exact)
    (hex : ∀ x, x < ts.length → pr x ≤ pr i → x ≠ i → (taskRB ts x).Exact)
    (hc : Compliant s ts) (hl : JlfpLegal s (hepFPe s pr)) (sg : ℕ → ℕ)
    (hseg : SegmentsBounded s sg)
    (hpos : ∀ k, k < s.n → 1 ≤ s.cost k)
    (hlast1 : 1 ≤ last) (hlastC : last ≤ C)
    (hown : ∀ j, j < s.n → s.task j = i →
      ∀ x, max 1 (s.cost j - (last - 1)) ≤ x → x < s.cost j → s.np j x)
    (limit R : ℕ)
    (hR : fpLimited a C last (lpBlocking ts.length pr sg i) (hepOthers ts pr i) limit = .ok R) :
    ∀ j, j < s.n → s.task j = i → MeetsBound s j R :=
  fp_limited_sound_of_compliant s ts pr i hi a C last hts hwf hexa hex hc hl
    (lpBlocking ts.length pr sg i) (hblock_of_segments s ts pr sg i hc hseg) hpos hlast1 hlastC
    hown limit R hR

end RTA.Sched
