import RTA.Lemmas.Steps
import RTA.Spec.Events
/-! Periodic and sporadic arrival models: closed-form facts (C10, C11). -/

namespace RTA
open RTA.Spec

/-! ### `ceilDiv` -/

theorem ceilDiv_le_iff_aux (a T n : Nat) (hT : 1 ≤ T) : ceilDiv a T ≤ n ↔ a ≤ n * T := by
  have h1 := Nat.div_add_mod a T
  have h2 := Nat.mod_lt a hT
  unfold ceilDiv
  generalize a / T = q at *
  generalize a % T = r at *
  rw [Nat.mul_comm T q] at h1
  rcases Nat.lt_or_ge n q with h | h
  · have h3 : (n + 1) * T ≤ q * T := Nat.mul_le_mul_right T h
    rw [Nat.succ_mul] at h3
    split <;> omega
  · rcases Nat.lt_or_eq_of_le h with h | h
    · have h3 : (q + 1) * T ≤ n * T := Nat.mul_le_mul_right T h
      rw [Nat.succ_mul] at h3
      split <;> omega
    · subst h
      split <;> omega

theorem lt_ceilDiv_iff (a T n : Nat) (hT : 1 ≤ T) : n < ceilDiv a T ↔ n * T < a := by
  have := ceilDiv_le_iff_aux a T n hT
  omega

theorem le_ceilDiv_mul (a T : Nat) (hT : 1 ≤ T) : a ≤ ceilDiv a T * T :=
  (ceilDiv_le_iff_aux a T _ hT).1 (Nat.le_refl _)

theorem ceilDiv_le_of_le (T : Nat) (hT : 1 ≤ T) {a b : Nat} (h : a ≤ b) :
    ceilDiv a T ≤ ceilDiv b T :=
  (ceilDiv_le_iff_aux a T _ hT).2 (Nat.le_trans h (le_ceilDiv_mul b T hT))

theorem ceilDiv_add_le (T : Nat) (hT : 1 ≤ T) (a b : Nat) :
    ceilDiv (a + b) T ≤ ceilDiv a T + ceilDiv b T := by
  rw [ceilDiv_le_iff_aux _ _ _ hT, Nat.add_mul]
  have := le_ceilDiv_mul a T hT
  have := le_ceilDiv_mul b T hT
  omega

/-- the increase points of `ceilDiv · T` are the multiples of `T` -/
theorem ceilDiv_step (a T : Nat) (hT : 1 ≤ T) :
    ceilDiv a T < ceilDiv (a + 1) T ↔ ∃ i, a = T * i := by
  constructor
  · intro h
    refine ⟨ceilDiv a T, ?_⟩
    have h1 := (lt_ceilDiv_iff (a + 1) T (ceilDiv a T) hT).1 h
    have h2 := le_ceilDiv_mul a T hT
    rw [Nat.mul_comm]
    omega
  · rintro ⟨i, rfl⟩
    have h1 : ceilDiv (T * i) T ≤ i :=
      (ceilDiv_le_iff_aux _ _ _ hT).2 (by rw [Nat.mul_comm]; exact Nat.le_refl _)
    have h2 : i < ceilDiv (T * i + 1) T :=
      (lt_ceilDiv_iff _ _ _ hT).2 (by rw [Nat.mul_comm]; omega)
    omega

theorem ceilDiv_zero (T : Nat) : ceilDiv 0 T = 0 := by
  simp [ceilDiv]

theorem ceilDiv_mono (T : Nat) (hT : 1 ≤ T) : MonoN (fun d => ceilDiv d T) := by
  intro a b h
  exact ceilDiv_le_of_le T hT h

/-- `ceilDiv a T ≤ n ↔ a ≤ n * T` -/
theorem ceilDiv_le_iff (a T n : Nat) (hT : 1 ≤ T) : ceilDiv a T ≤ n ↔ a ≤ n * T :=
  ceilDiv_le_iff_aux a T n hT

/-! ### periodic steps -/

theorem mem_periodicSteps_imp (T H : Nat) : ∀ fuel j δ, δ ∈ periodicSteps T H fuel j →
    ∃ i, j ≤ i ∧ δ = T * i + 1 ∧ δ ≤ H := by
  intro fuel
  induction fuel with
  | zero => intro j δ h; simp [periodicSteps] at h
  | succ f ih =>
    intro j δ h
    simp only [periodicSteps] at h
    split at h
    · rcases List.mem_cons.1 h with rfl | h
      · exact ⟨j, Nat.le_refl _, rfl, by assumption⟩
      · obtain ⟨i, hi, h2, h3⟩ := ih _ _ h
        exact ⟨i, by omega, h2, h3⟩
    · simp at h

theorem periodicSteps_pairwise (T H : Nat) (hT : 1 ≤ T) : ∀ fuel j,
    (periodicSteps T H fuel j).Pairwise (· < ·) := by
  intro fuel
  induction fuel with
  | zero => intro j; simp [periodicSteps]
  | succ f ih =>
    intro j
    simp only [periodicSteps]
    split
    · refine List.pairwise_cons.2 ⟨?_, ih _⟩
      intro δ hδ
      obtain ⟨i, hi, rfl, _⟩ := mem_periodicSteps_imp T H _ _ _ hδ
      have := Nat.mul_le_mul_left T hi
      rw [Nat.mul_succ] at this
      omega
    · exact List.Pairwise.nil

theorem mem_periodicSteps_of (T H : Nat) (hT : 1 ≤ T) : ∀ fuel j i, H + 1 ≤ T * j + fuel →
    j ≤ i → T * i + 1 ≤ H → T * i + 1 ∈ periodicSteps T H fuel j := by
  intro fuel
  induction fuel with
  | zero =>
    intro j i hf hi h
    have := Nat.mul_le_mul_left T hi
    omega
  | succ f ih =>
    intro j i hf hi h
    have h1 := Nat.mul_le_mul_left T hi
    simp only [periodicSteps]
    rw [if_pos (by omega)]
    rcases Nat.lt_or_eq_of_le hi with hi | hi
    · refine List.mem_cons_of_mem _ (ih (j + 1) i ?_ hi h)
      rw [Nat.mul_succ]
      omega
    · subst hi
      exact List.mem_cons_self

theorem periodic_steps_spec (T H : Nat) (hT : 1 ≤ T) :
    StepsSpec (Arr.periodic T).N H ((Arr.periodic T).stepsUpTo H) := by
  refine ⟨periodicSteps_pairwise T H hT _ _, ?_⟩
  intro δ
  simp only [Arr.stepsUpTo, Arr.N]
  constructor
  · intro h
    obtain ⟨i, _, rfl, hH⟩ := mem_periodicSteps_imp _ _ _ _ _ h
    refine ⟨by omega, hH, ?_⟩
    rw [Nat.add_sub_cancel]
    exact (ceilDiv_step _ _ hT).2 ⟨i, rfl⟩
  · rintro ⟨h1, h2, h3⟩
    obtain ⟨d, rfl⟩ : ∃ d, δ = d + 1 := ⟨δ - 1, by omega⟩
    rw [Nat.add_sub_cancel] at h3
    obtain ⟨i, rfl⟩ := (ceilDiv_step _ _ hT).1 h3
    exact mem_periodicSteps_of T H hT (H + 1) 0 i (by omega) (Nat.zero_le _) h2

/-! ### sporadic bound -/

theorem sporadic_N_eq (T J d : Nat) :
    (Arr.sporadic T J).N d = if d = 0 then 0 else ceilDiv (d + J) T := by
  simp [Arr.N]

theorem periodic_N_eq (T d : Nat) : (Arr.periodic T).N d = ceilDiv d T := by
  simp [Arr.N]

theorem sporadic_N_mono (T J : Nat) (hT : 1 ≤ T) : MonoN (Arr.sporadic T J).N := by
  intro a b h
  rw [sporadic_N_eq, sporadic_N_eq]
  split
  · exact Nat.zero_le _
  · rw [if_neg (by omega)]
    exact ceilDiv_le_of_le T hT (by omega)

/-- something arrives in every non-empty window -/
theorem sporadic_N_pos (T J d : Nat) (hT : 1 ≤ T) (hd : 1 ≤ d) : 0 < (Arr.sporadic T J).N d := by
  rw [sporadic_N_eq, if_neg (by omega), lt_ceilDiv_iff _ _ _ hT]
  omega

theorem mem_sporadicTail_imp (T J H : Nat) : ∀ fuel j δ, δ ∈ sporadicTail T J H fuel j →
    ∃ i, j ≤ i ∧ J < T * i ∧ δ = T * i + 1 - J ∧ δ ≤ H := by
  intro fuel
  induction fuel with
  | zero => intro j δ h; simp [sporadicTail] at h
  | succ f ih =>
    intro j δ h
    simp only [sporadicTail] at h
    split at h
    · split at h
      · rcases List.mem_cons.1 h with rfl | h
        · exact ⟨j, Nat.le_refl _, by assumption, rfl, by assumption⟩
        · obtain ⟨i, hi, h2⟩ := ih _ _ h
          exact ⟨i, by omega, h2⟩
      · simp at h
    · obtain ⟨i, hi, h2⟩ := ih _ _ h
      exact ⟨i, by omega, h2⟩

theorem sporadicTail_pairwise (T J H : Nat) (hT : 1 ≤ T) : ∀ fuel j,
    (sporadicTail T J H fuel j).Pairwise (· < ·) := by
  intro fuel
  induction fuel with
  | zero => intro j; simp [sporadicTail]
  | succ f ih =>
    intro j
    simp only [sporadicTail]
    split
    · split
      · refine List.pairwise_cons.2 ⟨?_, ih _⟩
        intro δ hδ
        obtain ⟨i, hi, _, rfl, _⟩ := mem_sporadicTail_imp T J H _ _ _ hδ
        have := Nat.mul_le_mul_left T hi
        rw [Nat.mul_succ] at this
        omega
      · exact List.Pairwise.nil
    · exact ih _

theorem mem_sporadicTail_of (T J H : Nat) (hT : 1 ≤ T) : ∀ fuel j i, H + J + 1 ≤ T * j + fuel →
    j ≤ i → J < T * i → T * i + 1 - J ≤ H → T * i + 1 - J ∈ sporadicTail T J H fuel j := by
  intro fuel
  induction fuel with
  | zero =>
    intro j i hf hi hJ h
    have := Nat.mul_le_mul_left T hi
    omega
  | succ f ih =>
    intro j i hf hi hJ h
    have h1 := Nat.mul_le_mul_left T hi
    have hf' : H + J + 1 ≤ T * (j + 1) + f := by rw [Nat.mul_succ]; omega
    simp only [sporadicTail]
    split
    · rw [if_pos (by omega)]
      rcases Nat.lt_or_eq_of_le hi with hi | hi
      · exact List.mem_cons_of_mem _ (ih (j + 1) i hf' hi hJ h)
      · subst hi
        exact List.mem_cons_self
    · have : j ≠ i := by rintro rfl; omega
      exact ih (j + 1) i hf' (by omega) hJ h

theorem sporadic_steps_spec (T J H : Nat) (hT : 1 ≤ T) :
    StepsSpec (Arr.sporadic T J).N H ((Arr.sporadic T J).stepsUpTo H) := by
  simp only [Arr.stepsUpTo]
  split
  next hH =>
    constructor
    · refine List.pairwise_cons.2 ⟨?_, sporadicTail_pairwise T J H hT _ _⟩
      intro δ hδ
      obtain ⟨i, _, _, rfl, _⟩ := mem_sporadicTail_imp _ _ _ _ _ _ hδ
      omega
    · intro δ
      rw [List.mem_cons]
      constructor
      · rintro (rfl | h)
        · refine ⟨Nat.le_refl _, hH, ?_⟩
          show (Arr.sporadic T J).N 0 < _
          rw [sporadic_N_eq T J 0, if_pos rfl]
          exact sporadic_N_pos T J 1 hT (Nat.le_refl _)
        · obtain ⟨i, _, hJ, rfl, hH'⟩ := mem_sporadicTail_imp _ _ _ _ _ _ h
          refine ⟨by omega, hH', ?_⟩
          rw [sporadic_N_eq, sporadic_N_eq, if_neg (by omega), if_neg (by omega)]
          have e1 : T * i + 1 - J - 1 + J = T * i := by omega
          have e2 : T * i + 1 - J + J = T * i + 1 := by omega
          rw [e1, e2]
          exact (ceilDiv_step _ _ hT).2 ⟨i, rfl⟩
      · rintro ⟨h1, h2, h3⟩
        rcases Nat.lt_or_eq_of_le h1 with h1 | h1
        · right
          obtain ⟨d, rfl⟩ : ∃ d, δ = d + 1 := ⟨δ - 1, by omega⟩
          rw [sporadic_N_eq, sporadic_N_eq, if_neg (by omega), if_neg (by omega),
            Nat.add_sub_cancel] at h3
          have e : d + 1 + J = d + J + 1 := by omega
          rw [e] at h3
          obtain ⟨i, hi⟩ := (ceilDiv_step _ _ hT).1 h3
          have hi0 : 1 ≤ i := by
            rcases Nat.eq_zero_or_pos i with rfl | h
            · simp at hi; omega
            · exact h
          have e' : d + 1 = T * i + 1 - J := by omega
          rw [e'] at h2 ⊢
          exact mem_sporadicTail_of T J H hT _ 1 i (by omega) hi0 (by omega) h2
        · left; exact h1.symm
  next hH =>
    refine ⟨List.Pairwise.nil, ?_⟩
    intro δ
    constructor
    · intro h; simp at h
    · rintro ⟨h1, h2, _⟩; omega

/-- the sporadic bound is sub-additive -/
theorem sporadic_subadditive (T J a b : Nat) (hT : 1 ≤ T) :
    (Arr.sporadic T J).N (a + b) ≤ (Arr.sporadic T J).N a + (Arr.sporadic T J).N b := by
  rcases Nat.eq_zero_or_pos a with rfl | ha
  · rw [Nat.zero_add]; omega
  rcases Nat.eq_zero_or_pos b with rfl | hb
  · rw [Nat.add_zero]; omega
  rw [sporadic_N_eq, sporadic_N_eq, sporadic_N_eq, if_neg (by omega), if_neg (by omega),
    if_neg (by omega)]
  have h1 : ceilDiv (a + b + J) T ≤ ceilDiv ((a + J) + (b + J)) T :=
    ceilDiv_le_of_le T hT (by omega)
  have h2 := ceilDiv_add_le T hT (a + J) (b + J)
  omega

theorem periodic_subadditive (T a b : Nat) (hT : 1 ≤ T) :
    (Arr.periodic T).N (a + b) ≤ (Arr.periodic T).N a + (Arr.periodic T).N b := by
  rw [periodic_N_eq, periodic_N_eq, periodic_N_eq]
  exact ceilDiv_add_le T hT a b

/-! ### soundness of the bounds -/

theorem cnt_nil (t Δ : Nat) : cnt [] t Δ = 0 := rfl

theorem cnt_cons (r : Nat) (rs : List Nat) (t Δ : Nat) :
    cnt (r :: rs) t Δ = (if t ≤ r ∧ r < t + Δ then 1 else 0) + cnt rs t Δ := by
  unfold cnt
  rw [List.filter_cons]
  by_cases h : t ≤ r ∧ r < t + Δ
  · simp [h]; omega
  · rw [if_neg h]
    have : (decide (t ≤ r) && decide (r < t + Δ)) = false := by
      simp only [Bool.and_eq_false_iff, decide_eq_false_iff_not]
      omega
    simp [this]

theorem cnt_zero (rels : List Nat) (t : Nat) : cnt rels t 0 = 0 := by
  induction rels with
  | nil => rfl
  | cons r rs ih => rw [cnt_cons, ih, if_neg (by omega)]

theorem GapsGe_tail {T x : Nat} {l : List Nat} (h : GapsGe T (x :: l)) : GapsGe T l := by
  cases l with
  | nil => simp [GapsGe]
  | cons y l => rw [GapsGe] at h; exact h.2

theorem GapsEq_imp_GapsGe (T : Nat) : ∀ l, GapsEq T l → GapsGe T l := by
  intro l
  induction l with
  | nil => intro _; simp [GapsGe]
  | cons x l ih =>
    cases l with
    | nil => intro _; simp [GapsGe]
    | cons y l =>
      intro h
      rw [GapsEq] at h
      rw [GapsGe]
      exact ⟨Nat.le_of_eq h.1, ih h.2⟩

theorem DelayedBy_self (J : Nat) : ∀ l, DelayedBy J l l := by
  intro l
  induction l with
  | nil => simp [DelayedBy]
  | cons x l ih => rw [DelayedBy]; exact ⟨Nat.le_refl _, by omega, ih⟩

/-- if `c + 1` releases fall into `[t, t + Δ)`, the first arrival plus `c` periods is
before `t + Δ` -/
theorem sporadic_span (T J t Δ : Nat) : ∀ (as : List Nat) (a : Nat) (rs : List Nat) (r c : Nat),
    GapsGe T (a :: as) → DelayedBy J (a :: as) (r :: rs) → cnt (r :: rs) t Δ = c + 1 →
    a + c * T < t + Δ := by
  intro as
  induction as with
  | nil =>
    intro a rs r c hg hd hc
    cases rs with
    | nil =>
      rw [cnt_cons, cnt_nil] at hc
      rw [DelayedBy] at hd
      split at hc
      · have : c = 0 := by omega
        subst this
        rw [Nat.zero_mul]
        omega
      · omega
    | cons r' rs' => simp [DelayedBy] at hd
  | cons a' as ih =>
    intro a rs r c hg hd hc
    cases rs with
    | nil => simp [DelayedBy] at hd
    | cons r' rs' =>
      rw [DelayedBy] at hd
      rw [GapsGe] at hg
      obtain ⟨h1, h2, hd'⟩ := hd
      obtain ⟨hg1, hg'⟩ := hg
      rw [cnt_cons] at hc
      cases hc' : cnt (r' :: rs') t Δ with
      | zero =>
        rw [hc'] at hc
        split at hc
        · have : c = 0 := by omega
          subst this
          rw [Nat.zero_mul]
          omega
        · omega
      | succ k =>
        have ihk := ih a' rs' r' k hg' hd' hc'
        rw [hc'] at hc
        have hck : c ≤ k + 1 := by split at hc <;> omega
        have := Nat.mul_le_mul_right T hck
        rw [Nat.succ_mul] at this
        omega

theorem sporadic_cnt_bound (T J t Δ : Nat) : ∀ (as rs : List Nat) (c : Nat),
    GapsGe T as → DelayedBy J as rs → cnt rs t Δ = c + 1 → c * T < Δ + J := by
  intro as
  induction as with
  | nil =>
    intro rs c hg hd hc
    cases rs with
    | nil => rw [cnt_nil] at hc; omega
    | cons r rs => simp [DelayedBy] at hd
  | cons a as ih =>
    intro rs c hg hd hc
    cases rs with
    | nil => simp [DelayedBy] at hd
    | cons r rs =>
      have hs := sporadic_span T J t Δ as a rs r c hg hd
      rw [DelayedBy] at hd
      obtain ⟨h1, h2, hd'⟩ := hd
      by_cases hin : t ≤ r ∧ r < t + Δ
      · have := hs hc
        omega
      · rw [cnt_cons, if_neg hin] at hc
        exact ih rs c (GapsGe_tail hg) hd' (by omega)

theorem sporadic_bounds_aux (T J : Nat) (hT : 1 ≤ T) (arrivals rels : List Nat)
    (hg : GapsGe T arrivals) (hd : DelayedBy J arrivals rels) (t Δ : Nat) :
    cnt rels t Δ ≤ (Arr.sporadic T J).N Δ := by
  rw [sporadic_N_eq]
  split
  next h => subst h; rw [cnt_zero]; exact Nat.le_refl _
  next h =>
    cases hc : cnt rels t Δ with
    | zero => exact Nat.zero_le _
    | succ c =>
      exact (lt_ceilDiv_iff _ _ _ hT).2 (sporadic_cnt_bound T J t Δ arrivals rels c hg hd hc)

/-- no admissible sporadic sequence has more events in a window than the bound -/
theorem sporadic_bounds (T J : Nat) (hT : 1 ≤ T) (rels : List Nat)
    (h : Admissible (.sporadic T J) rels) (t Δ : Nat) :
    cnt rels t Δ ≤ (Arr.sporadic T J).N Δ := by
  rw [Admissible] at h
  obtain ⟨arrivals, hg, hd⟩ := h
  exact sporadic_bounds_aux T J hT arrivals rels hg hd t Δ

theorem periodic_bounds (T : Nat) (hT : 1 ≤ T) (rels : List Nat)
    (h : Admissible (.periodic T) rels) (t Δ : Nat) :
    cnt rels t Δ ≤ (Arr.periodic T).N Δ := by
  rw [Admissible] at h
  have := sporadic_bounds_aux T 0 hT rels rels (GapsEq_imp_GapsGe T rels h) (DelayedBy_self 0 rels) t Δ
  rw [sporadic_N_eq] at this
  rw [periodic_N_eq]
  split at this
  next h0 => subst h0; rw [ceilDiv_zero]; exact this
  next h0 => exact this

/-! ### attainment -/

theorem GapsGe_cons_iff (T x : Nat) (l : List Nat) :
    GapsGe T (x :: l) ↔ (∀ y ∈ l.head?, x + T ≤ y) ∧ GapsGe T l := by
  cases l <;> simp [GapsGe]

theorem GapsGe_range' (T : Nat) : ∀ n s, GapsGe T ((List.range' s n).map (· * T)) := by
  intro n
  induction n with
  | zero => intro s; simp [GapsGe]
  | succ n ih =>
    intro s
    rw [List.range'_succ, List.map_cons, GapsGe_cons_iff]
    refine ⟨?_, ih _⟩
    cases n with
    | zero => simp
    | succ n => simp [List.range'_succ, Nat.succ_mul]

theorem DelayedBy_map (J : Nat) (f g : Nat → Nat) : ∀ l : List Nat,
    (∀ k ∈ l, f k ≤ g k ∧ g k ≤ f k + J) → DelayedBy J (l.map f) (l.map g) := by
  intro l
  induction l with
  | nil => intro _; simp [DelayedBy]
  | cons x l ih =>
    intro h
    rw [List.map_cons, List.map_cons, DelayedBy]
    have hx := h x List.mem_cons_self
    exact ⟨hx.1, hx.2, ih (fun k hk => h k (List.mem_cons_of_mem _ hk))⟩

/-- the critical-instant history is admissible … -/
theorem criticalInstant_admissible (T J n : Nat) (hT : 1 ≤ T) :
    Admissible (.sporadic T J) (criticalInstant T J n) := by
  have _ := hT
  rw [Admissible]
  refine ⟨(List.range n).map (· * T), ?_, ?_⟩
  · rw [List.range_eq_range']
    exact GapsGe_range' T n 0
  · unfold criticalInstant
    apply DelayedBy_map
    intro k _
    omega

theorem length_filter_range_lt (T x : Nat) (hT : 1 ≤ T) : ∀ n,
    ((List.range n).filter (fun k => decide (k * T < x))).length = min n (ceilDiv x T) := by
  intro n
  induction n with
  | zero => simp
  | succ n ih =>
    rw [List.range_succ, List.filter_append, List.length_append, ih]
    have := lt_ceilDiv_iff x T n hT
    by_cases h : n * T < x
    · simp [h]; omega
    · simp [h]; omega

/-- … and attains the bound for every window length at once (window starting at `J`) -/
theorem sporadic_attained (T J Δ n : Nat) (hT : 1 ≤ T) (hn : (Arr.sporadic T J).N Δ ≤ n) :
    cnt (criticalInstant T J n) J Δ = (Arr.sporadic T J).N Δ := by
  rw [sporadic_N_eq] at hn ⊢
  split
  next h => subst h; exact cnt_zero _ _
  next h =>
    rw [if_neg h] at hn
    unfold cnt criticalInstant
    rw [List.filter_map, List.length_map]
    have : (List.range n).filter ((fun r => decide (J ≤ r) && decide (r < J + Δ)) ∘
        fun k => max (k * T) J) = (List.range n).filter (fun k => decide (k * T < Δ + J)) := by
      apply List.filter_congr
      intro k _
      simp only [Function.comp]
      rw [Bool.eq_iff_iff]
      simp only [Bool.and_eq_true, decide_eq_true_eq]
      omega
    rw [this, length_filter_range_lt T _ hT]
    omega

/-- the periodic bound is attained by the synchronous periodic sequence -/
theorem periodic_attained (T Δ n : Nat) (hT : 1 ≤ T) (hn : (Arr.periodic T).N Δ ≤ n) :
    cnt ((List.range n).map (· * T)) 0 Δ = (Arr.periodic T).N Δ := by
  rw [periodic_N_eq] at hn ⊢
  unfold cnt
  rw [List.filter_map, List.length_map]
  have : (List.range n).filter ((fun r => decide (0 ≤ r) && decide (r < 0 + Δ)) ∘
      fun k => k * T) = (List.range n).filter (fun k => decide (k * T < Δ)) := by
    apply List.filter_congr
    intro k _
    simp only [Function.comp]
    rw [Bool.eq_iff_iff]
    simp only [Bool.and_eq_true, decide_eq_true_eq]
    omega
  rw [this, length_filter_range_lt T _ hT]
  omega

end RTA
