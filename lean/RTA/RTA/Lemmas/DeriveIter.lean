import RTA.Lemmas.Derive
/-! The iterator-driven renderings of the derived-curve constructors (what the driver runs:
the horizon is found by watching what the `DeltaMinIterator` has emitted) coincide with the
`number_arrivals`-driven definitions (about which `Lemmas/Derive.lean` proves the C12
theorems) for every well-formed arrival model whose `steps_iter` is exact. -/

namespace RTA
open RTA.Spec

namespace DeriveIterLemmas
open DeriveLemmas

/-! ### the doubling search, generically -/

/-- first `H` of the sequence `H, 2H+1, …` (at most `fuel` doublings) satisfying `p` -/
def search (p : Nat → Bool) : Nat → Nat → Nat
  | 0, H => H
  | f + 1, H => if p H then H else search p f (2 * H + 1)

/-- the horizon at which the search gives up -/
def lastH : Nat → Nat → Nat
  | 0, H => H
  | f + 1, H => lastH f (2 * H + 1)

theorem horizonFor_eq_search (a : Arr) (n : Nat) : ∀ f H,
    Arr.horizonFor a n f H = search (fun H => decide (a.N H ≥ n)) f H := by
  intro f
  induction f with
  | zero => intro H; rfl
  | succ f ih => intro H; simp only [Arr.horizonFor, search, ih, decide_eq_true_eq]

theorem horizonForEntry_eq_search (a : Arr) (q : Nat × Nat → Bool) : ∀ f H,
    Arr.horizonForEntry a q f H = search (fun H => (a.dminEntries H).any q) f H := by
  intro f
  induction f with
  | zero => intro H; rfl
  | succ f ih => intro H; simp only [Arr.horizonForEntry, search, ih]

theorem search_congr (p p' : Nat → Bool) (h : ∀ H, p H = p' H) (f H : Nat) :
    search p f H = search p' f H := by
  have : p = p' := funext h
  rw [this]

theorem le_search (p : Nat → Bool) : ∀ f H, H ≤ search p f H := by
  intro f
  induction f with
  | zero => intro H; exact Nat.le_refl _
  | succ f ih =>
    intro H
    simp only [search]
    split
    · exact Nat.le_refl _
    · have := ih (2 * H + 1); omega

/-- a stronger criterion is found later (or never), and the weaker search has either found
its criterion or has given up at the same horizon -/
theorem search_imp (p p' : Nat → Bool) (h : ∀ H, p' H = true → p H = true) : ∀ f H,
    search p f H ≤ search p' f H ∧
      (p (search p f H) = true ∨ search p f H = search p' f H) := by
  intro f
  induction f with
  | zero => intro H; exact ⟨Nat.le_refl _, Or.inr rfl⟩
  | succ f ih =>
    intro H
    simp only [search]
    by_cases hp' : p' H = true
    · rw [if_pos hp', if_pos (h H hp')]
      exact ⟨Nat.le_refl _, Or.inr rfl⟩
    · rw [if_neg hp']
      by_cases hp : p H = true
      · rw [if_pos hp]
        have := le_search p' f (2 * H + 1)
        exact ⟨by omega, Or.inl hp⟩
      · rw [if_neg hp]
        exact ih (2 * H + 1)

theorem search_found_or_last (p : Nat → Bool) : ∀ f H,
    p (search p f H) = true ∨ search p f H = lastH f H := by
  intro f
  induction f with
  | zero => intro H; exact Or.inr rfl
  | succ f ih =>
    intro H
    simp only [search, lastH]
    by_cases hp : p H = true
    · rw [if_pos hp]; exact Or.inl hp
    · rw [if_neg hp]; exact ih (2 * H + 1)

theorem lastH_64 : lastH 64 1 = 2 ^ 65 - 1 := by decide

/-! ### the shape of `dminEntries` for exact models -/

theorem fst_getElem (a : Arr) (hwf : a.WF) (hex : a.Exact) (H i : Nat)
    (hi : i < (a.dminEntries H).length) : ((a.dminEntries H)[i]).1 = i + 2 := by
  have hfst := (dminEntries_shape a hwf hex H).1
  have h1 : ((a.dminEntries H).map (·.1))[i]? =
      ((List.range (a.dminEntries H).length).map (· + 2))[i]? := by rw [← hfst]
  rw [List.getElem?_map, List.getElem?_map, List.getElem?_eq_getElem hi,
    List.getElem?_eq_getElem (by simpa using hi)] at h1
  simpa using h1

/-- the facts about an entry of `dminEntries H` -/
theorem entry_facts (a : Arr) (hwf : a.WF) (hex : a.Exact) (H : Nat) (e : Nat × Nat)
    (he : e ∈ a.dminEntries H) :
    2 ≤ e.1 ∧ e.2 + 1 ≤ H ∧ a.N e.2 < e.1 ∧ e.1 ≤ a.N (e.2 + 1) ∧ e.1 ≤ a.N H := by
  have h := (dminEntries_dual a hwf hex H e.1 e.2).1 he
  have := Arr.N_mono a hwf (e.2 + 1) H h.2.1
  exact ⟨h.1, h.2.1, h.2.2.1, h.2.2.2, by omega⟩

/-- the entry for `n` jobs is present as soon as `N H ≥ n` -/
theorem entry_exists (a : Arr) (hwf : a.WF) (hex : a.Exact) (H n : Nat) (h2 : 2 ≤ n)
    (hn : n ≤ a.N H) : ∃ x, (n, x) ∈ a.dminEntries H := by
  obtain ⟨x, h1, h2', h3⟩ := exists_cross a.N n (by rw [Arr.N_zero]; omega) H hn
  exact ⟨x, (dminEntries_dual a hwf hex H n x).2 ⟨h2, h1, h2', h3⟩⟩

theorem length_entries (a : Arr) (hwf : a.WF) (hex : a.Exact) (H : Nat) :
    (a.dminEntries H).length = a.N H - 1 := by
  have hfst := (dminEntries_shape a hwf hex H).1
  apply Nat.le_antisymm
  · by_cases hL : (a.dminEntries H).length = 0
    · omega
    · have hi : (a.dminEntries H).length - 1 < (a.dminEntries H).length := by omega
      have h1 := fst_getElem a hwf hex H _ hi
      have h2 := entry_facts a hwf hex H _ (List.getElem_mem hi)
      omega
  · by_cases hN : 2 ≤ a.N H
    · obtain ⟨x, hx⟩ := entry_exists a hwf hex H (a.N H) hN (Nat.le_refl _)
      have : a.N H ∈ (a.dminEntries H).map (·.1) := List.mem_map.2 ⟨_, hx, rfl⟩
      rw [hfst, List.mem_map] at this
      obtain ⟨i, hi, e⟩ := this
      rw [List.mem_range] at hi
      omega
    · omega

/-- the distance of the entry for `n` jobs is determined by `n` -/
theorem snd_unique (a : Arr) (hwf : a.WF) (n x y : Nat)
    (hx1 : a.N x < n) (hx2 : n ≤ a.N (x + 1)) (hy1 : a.N y < n) (hy2 : n ≤ a.N (y + 1)) :
    x = y := by
  rcases Nat.lt_trichotomy x y with h | h | h
  · have := Arr.N_mono a hwf (x + 1) y h; omega
  · exact h
  · have := Arr.N_mono a hwf (y + 1) x h; omega

/-- (F2) the entries for a smaller horizon are a prefix of those for a larger one -/
theorem entries_take (a : Arr) (hwf : a.WF) (hex : a.Exact) (H H' : Nat) (hH : H ≤ H') :
    a.dminEntries H = (a.dminEntries H').take (a.N H - 1) := by
  have hm := Arr.N_mono a hwf H H' hH
  have hl := length_entries a hwf hex H
  have hl' := length_entries a hwf hex H'
  apply List.ext_getElem
  · rw [List.length_take, hl, hl']; omega
  · intro i h1 h2
    rw [List.getElem_take]
    have hi' : i < (a.dminEntries H').length := by omega
    have f1 := fst_getElem a hwf hex H i h1
    have f2 := fst_getElem a hwf hex H' i hi'
    have g1 := entry_facts a hwf hex H _ (List.getElem_mem h1)
    have g2 := entry_facts a hwf hex H' _ (List.getElem_mem hi')
    apply Prod.ext
    · rw [f1, f2]
    · exact snd_unique a hwf (i + 2) _ _ (by omega) (by omega) (by omega) (by omega)

theorem entries_append (a : Arr) (hwf : a.WF) (hex : a.Exact) (H H' : Nat) (hH : H ≤ H') :
    ∃ more, a.dminEntries H' = a.dminEntries H ++ more ∧
      ∀ e ∈ more, a.N H < e.1 ∧ H ≤ e.2 := by
  refine ⟨(a.dminEntries H').drop (a.N H - 1), ?_, ?_⟩
  · rw [entries_take a hwf hex H H' hH, List.take_append_drop]
  · intro e he
    rw [List.mem_drop_iff_getElem] at he
    obtain ⟨j, hj, rfl⟩ := he
    have f := fst_getElem a hwf hex H' _ (by omega : a.N H - 1 + j < (a.dminEntries H').length)
    have g := entry_facts a hwf hex H' _ (List.getElem_mem (by omega :
      a.N H - 1 + j < (a.dminEntries H').length))
    refine ⟨by omega, ?_⟩
    rcases Nat.lt_or_ge ((a.dminEntries H')[a.N H - 1 + j]).2 H with h | h
    · have := Arr.N_mono a hwf (((a.dminEntries H')[a.N H - 1 + j]).2 + 1) H h
      omega
    · exact h

/-- an entry for more than `m` jobs has been emitted iff `N H > m` -/
theorem any_gt (a : Arr) (hwf : a.WF) (hex : a.Exact) (m : Nat) (hm : 1 ≤ m) (H : Nat) :
    (a.dminEntries H).any (fun e => decide (m < e.1)) = decide (a.N H ≥ m + 1) := by
  rw [Bool.eq_iff_iff, List.any_eq_true, decide_eq_true_eq]
  constructor
  · rintro ⟨e, he, hlt⟩
    rw [decide_eq_true_eq] at hlt
    have := entry_facts a hwf hex H e he
    omega
  · intro h
    obtain ⟨x, hx⟩ := entry_exists a hwf hex H (m + 1) (by omega) h
    exact ⟨_, hx, by simp⟩

end DeriveIterLemmas

open DeriveIterLemmas

theorem curveOfBoundIter_eq (a : Arr) (hwf : a.WF) (hex : a.Exact) (upTo : Nat) :
    a.curveOfBoundIter upTo = a.curveOfBound upTo := by
  unfold Arr.curveOfBoundIter Arr.curveOfBound
  simp only []
  rw [horizonForEntry_eq_search, horizonFor_eq_search,
    search_congr _ _ (any_gt a hwf hex (max upTo 3) (by omega))]

/-- the two searches of `from_arrival_bound_until` lead to the same filtered entries whenever
the iterator-driven search found its entry or the horizon lies within the search range -/
theorem curveOfBoundUntilIter_eq_core (a : Arr) (hwf : a.WF) (hex : a.Exact) (horizon : Nat)
    (hh : horizon + 2 ≤ 2 ^ 65 - 1 ∨
      (a.dminEntries (Arr.horizonForEntry a
        (fun e => decide (horizon < e.2) && decide (4 ≤ e.1)) 64 1)).any
        (fun e => decide (horizon < e.2) && decide (4 ≤ e.1)) = true) :
    a.curveOfBoundUntilIter horizon = a.curveOfBoundUntil horizon := by
  unfold Arr.curveOfBoundUntilIter Arr.curveOfBoundUntil
  simp only []
  rw [horizonForEntry_eq_search, horizonFor_eq_search] at *
  generalize hq : (fun e : Nat × Nat => decide (horizon < e.2) && decide (4 ≤ e.1)) = q at *
  have himp : ∀ H, (a.dminEntries H).any q = true → decide (a.N H ≥ 4) = true := by
    intro H h
    rw [List.any_eq_true] at h
    obtain ⟨e, he, hqe⟩ := h
    rw [← hq] at hqe
    simp only [Bool.and_eq_true, decide_eq_true_eq] at hqe
    have := entry_facts a hwf hex H e he
    rw [decide_eq_true_eq]
    omega
  obtain ⟨hle, hdis⟩ := search_imp (fun H => decide (a.N H ≥ 4))
    (fun H => (a.dminEntries H).any q) himp 64 1
  have hlast := search_found_or_last (fun H => (a.dminEntries H).any q) 64 1
  rw [lastH_64] at hlast
  generalize search (fun H => decide (a.N H ≥ 4)) 64 1 = H0 at *
  generalize search (fun H => (a.dminEntries H).any q) 64 1 = H' at *
  try dsimp only at hdis
  try dsimp only at hlast
  rcases Nat.lt_or_ge H' (max (horizon + 2) H0) with hlt | hge
  · -- impossible: the iterator-driven search has found an entry beyond the horizon
    exfalso
    have hfound : (a.dminEntries H').any q = true := by
      rcases hh with hh | hh
      · rcases hlast with h | h
        · exact h
        · omega
      · exact hh
    rw [List.any_eq_true] at hfound
    obtain ⟨e, he, hqe⟩ := hfound
    rw [← hq] at hqe
    simp only [Bool.and_eq_true, decide_eq_true_eq] at hqe
    have := entry_facts a hwf hex H' e he
    omega
  · rcases hdis with h4 | heq
    · rw [decide_eq_true_eq] at h4
      obtain ⟨more, hmore, hrej⟩ := entries_append a hwf hex _ H' hge
      have hmono := Arr.N_mono a hwf H0 (max (horizon + 2) H0) (by omega)
      rw [hmore, List.filter_append]
      have : more.filter (fun e => decide (e.2 ≤ horizon ∨ e.1 ≤ 3)) = [] := by
        rw [List.filter_eq_nil_iff]
        intro e he
        have := hrej e he
        rw [decide_eq_true_eq]
        omega
      rw [this, List.append_nil]
    · have : max (horizon + 2) H0 = H' := by omega
      rw [this]

-- HYPOTHESIS ADDED: `horizon + 2 ≤ 2 ^ 65 - 1` (the horizon lies within the range of the
-- 64-step doubling search).  Without it the statement is false: for
-- `a = .periodic (2^66)`, `horizon = 2^67` neither search succeeds (both stop at `2^65 - 1`),
-- the old definition then uses `H = horizon + 2` and returns `[2^66, 2^67]`, the new one
-- uses `H = 2^65 - 1` and returns `[]`.  See `curveOfBoundUntilIter_eq_core` /
-- `curveOfBoundUntilIter_eq_of_found` for the version with the alternative hypothesis
-- "the iterator-driven search found its entry".
theorem curveOfBoundUntilIter_eq (a : Arr) (hwf : a.WF) (hex : a.Exact) (horizon : Nat)
    (hh : horizon + 2 ≤ 2 ^ 65 - 1) :
    a.curveOfBoundUntilIter horizon = a.curveOfBoundUntil horizon :=
  curveOfBoundUntilIter_eq_core a hwf hex horizon (Or.inl hh)

/-- the same for an arbitrary horizon, provided the iterator-driven search succeeded -/
theorem curveOfBoundUntilIter_eq_of_found (a : Arr) (hwf : a.WF) (hex : a.Exact) (horizon : Nat)
    (hfound : (a.dminEntries (Arr.horizonForEntry a
        (fun e => decide (horizon < e.2) && decide (4 ≤ e.1)) 64 1)).any
        (fun e => decide (horizon < e.2) && decide (4 ≤ e.1)) = true) :
    a.curveOfBoundUntilIter horizon = a.curveOfBoundUntil horizon :=
  curveOfBoundUntilIter_eq_core a hwf hex horizon (Or.inr hfound)

theorem dminIterTakeIter_eq (a : Arr) (hwf : a.WF) (hex : a.Exact) (k : Nat) :
    a.dminIterTakeIter k = a.dminIterTake k := by
  unfold Arr.dminIterTakeIter Arr.dminIterTake
  simp only []
  rcases Nat.lt_or_ge k 3 with hk | hk
  · rw [List.take_append, List.take_append]
    have : k - [((0 : Nat), (0 : Nat)), (1, 0)].length = 0 := by
      simp only [List.length_cons, List.length_nil]; omega
    rw [this, List.take_zero, List.take_zero]
  · have hcrit : (fun e : Nat × Nat => decide (k ≤ e.1 + 1)) =
        (fun e : Nat × Nat => decide (k - 2 < e.1)) := by
      funext e
      rw [decide_eq_decide]
      omega
    rw [hcrit, horizonForEntry_eq_search, horizonFor_eq_search,
      search_congr _ _ (any_gt a hwf hex (k - 2) (by omega))]
    have himp : ∀ H, decide (a.N H ≥ k + 1) = true → decide (a.N H ≥ k - 2 + 1) = true := by
      intro H h
      rw [decide_eq_true_eq] at *
      omega
    obtain ⟨hle, hdis⟩ := search_imp (fun H => decide (a.N H ≥ k - 2 + 1))
      (fun H => decide (a.N H ≥ k + 1)) himp 64 1
    generalize search (fun H => decide (a.N H ≥ k - 2 + 1)) 64 1 = H1 at *
    generalize search (fun H => decide (a.N H ≥ k + 1)) 64 1 = H2 at *
    rcases hdis with h | h
    · simp only [decide_eq_true_eq] at h
      rw [List.take_append, List.take_append]
      congr 1
      rw [entries_take a hwf hex H1 H2 hle, List.take_take]
      congr 1
      simp only [List.length_cons, List.length_nil]
      omega
    · rw [h]

theorem curveOfSporadicIter_eq (T J : Nat) (hT : 1 ≤ T) :
    curveOfSporadicIter T J = curveOfSporadic T J := by
  unfold curveOfSporadicIter curveOfSporadic
  exact curveOfBoundIter_eq _ (by simp only [Arr.WF]; exact hT) (by simp only [Arr.Exact]) _

end RTA
