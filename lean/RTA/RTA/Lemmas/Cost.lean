import RTA.Model.XCost
import RTA.Lemmas.Steps
/-! Job-cost models (C14). -/

namespace RTA

namespace CostLemmas

theorem getD_lt {w : List Nat} {i : Nat} (h : i < w.length) : w.getD i 0 = w[i] := by
  simp [List.getD_eq_getElem?_getD, h]

theorem sorted_getD {w : List Nat} (hs : w.Pairwise (· ≤ ·)) {i j : Nat} (hij : i ≤ j)
    (hj : j < w.length) : w.getD i 0 ≤ w.getD j 0 := by
  rcases Nat.eq_or_lt_of_le hij with rfl | hlt
  · exact Nat.le_refl _
  · have := List.pairwise_iff_getElem.1 hs i j (by omega) hj hlt
    rw [getD_lt hj, getD_lt (by omega : i < w.length)]
    exact this

theorem sorted_of_getD {w : List Nat}
    (h : ∀ i j, i ≤ j → j < w.length → w.getD i 0 ≤ w.getD j 0) : w.Pairwise (· ≤ ·) := by
  rw [List.pairwise_iff_getElem]
  intro i j hi hj hij
  have := h i j (by omega) hj
  rw [getD_lt hj, getD_lt hi] at this
  exact this

theorem monoN_of_step (f : Nat → Nat) (h : ∀ n, f n ≤ f (n + 1)) : MonoN f := by
  intro a b hab
  induction hab with
  | refl => exact Nat.le_refl _
  | step _ ih => exact Nat.le_trans ih (h _)

theorem costCurveOf_eq (w : List Nat) (hne : w ≠ []) (x y : Nat) (hy : y < w.length) :
    costCurveOf w (x * w.length + y) =
      x * w.getD (w.length - 1) 0 + (if y > 0 then w.getD (y - 1) 0 else 0) := by
  have hpos : 0 < w.length := by omega
  unfold costCurveOf
  by_cases hn : x * w.length + y > 0
  · rw [if_pos ⟨hne, hn⟩]
    have hd : (x * w.length + y) / w.length = x := by
      rw [Nat.mul_comm, Nat.mul_add_div hpos, Nat.div_eq_of_lt hy]; simp
    have hm : (x * w.length + y) % w.length = y := by
      rw [Nat.mul_comm, Nat.mul_add_mod, Nat.mod_eq_of_lt hy]
    simp only [hd, hm]
    by_cases hx : x > 0
    · rw [if_pos hx, Nat.mul_comm]
    · have : x = 0 := by omega
      subst this; simp
  · rw [if_neg (by intro h; exact hn h.2)]
    have hx : x = 0 := by
      rcases Nat.eq_zero_or_pos x with h | h
      · exact h
      · exfalso; apply hn
        have : 1 * w.length ≤ x * w.length := Nat.mul_le_mul_right _ h
        omega
    have hy0 : y = 0 := by subst hx; omega
    subst hx; subst hy0; simp

theorem costCurveOf_step (w : List Nat) (hs : w.Pairwise (· ≤ ·)) (n : Nat) :
    costCurveOf w n ≤ costCurveOf w (n + 1) := by
  by_cases hne : w = []
  · subst hne; simp [costCurveOf]
  have hpos : 0 < w.length := List.length_pos_iff.2 hne
  have hy : n % w.length < w.length := Nat.mod_lt _ hpos
  have hn : n = (n / w.length) * w.length + n % w.length := by
    rw [Nat.mul_comm]; exact (Nat.div_add_mod n w.length).symm
  generalize n / w.length = x at hn
  generalize n % w.length = y at hn hy
  subst hn
  rw [costCurveOf_eq w hne x y hy]
  by_cases hlast : y + 1 < w.length
  · rw [Nat.add_assoc, costCurveOf_eq w hne x (y + 1) hlast]
    have e2 : (if y + 1 > 0 then w.getD (y + 1 - 1) 0 else 0) = w.getD y 0 := by simp
    rw [e2]
    have : (if y > 0 then w.getD (y - 1) 0 else 0) ≤ w.getD y 0 := by
      split
      · exact sorted_getD hs (by omega) (by omega)
      · omega
    omega
  · have e : x * w.length + y + 1 = (x + 1) * w.length + 0 := by
      rw [Nat.add_mul]; omega
    rw [e, costCurveOf_eq w hne (x + 1) 0 hpos]
    have : (if y > 0 then w.getD (y - 1) 0 else 0) ≤ w.getD (w.length - 1) 0 := by
      split
      · exact sorted_getD hs (by omega) (by omega)
      · omega
    rw [Nat.add_mul, Nat.one_mul, if_neg (Nat.lt_irrefl 0)]
    clear e
    omega

end CostLemmas

open CostLemmas

theorem Cost.ofJobs_zero (c : Cost) : c.ofJobs 0 = 0 := by
  cases c <;> simp [Cost.ofJobs, cycleTake, sumList, costCurveOf, xcostOf]

/-- closed form of the multiframe prefix sums: item `i` is `cs[i % len]` -/
theorem cycleTake_getD (cs : List Nat) (hne : cs ≠ []) (n i k : Nat) (hk : k < n) :
    (cycleTake cs n i).getD k 0 = cs.getD ((i + k) % cs.length) 0 := by
  induction n generalizing i k with
  | zero => omega
  | succ n ih =>
    rw [cycleTake, if_neg hne]
    cases k with
    | zero => simp
    | succ k =>
      rw [List.getD_cons_succ, ih (i + 1) k (by omega)]
      congr 2; omega

theorem cycleTake_length (cs : List Nat) (hne : cs ≠ []) (n i : Nat) : (cycleTake cs n i).length = n := by
  induction n generalizing i with
  | zero => rfl
  | succ n ih => rw [cycleTake, if_neg hne, List.length_cons, ih]

/-- the cost of a cumulative-cost curve is monotone when the vector is sorted -/
theorem costCurveOf_mono (w : List Nat) (hs : w.Pairwise (· ≤ ·)) : MonoN (costCurveOf w) :=
  monoN_of_step _ (costCurveOf_step w hs)

/-- the cumulative vector extended `k` times by `extrapolate_next` -/
def costIterExt (w : List Nat) : Nat → List Nat
  | 0 => w
  | k + 1 => costIterExt w k ++ [costExtrapolateNext (costIterExt w k)]


namespace CostLemmas

theorem getD_append_left {l l' : List Nat} {i : Nat} (h : i < l.length) :
    (l ++ l').getD i 0 = l.getD i 0 := by
  simp [List.getD_eq_getElem?_getD, List.getElem?_append_left h]

theorem getD_append_last {l : List Nat} {e : Nat} : (l ++ [e]).getD l.length 0 = e := by
  simp [List.getD_eq_getElem?_getD]

theorem costIterExt_length (w : List Nat) (k : Nat) :
    (costIterExt w k).length = w.length + k := by
  induction k with
  | zero => rfl
  | succ k ih => rw [costIterExt, List.length_append, ih]; rfl

theorem costIterExt_shift (w : List Nat) (k : Nat) :
    costIterExt (w ++ [costExtrapolateNext w]) k = costIterExt w (k + 1) := by
  induction k with
  | zero => rfl
  | succ k ih => rw [costIterExt, ih]; rfl

theorem costIterExt_add (w : List Nat) (j k : Nat) :
    costIterExt (costIterExt w j) k = costIterExt w (j + k) := by
  induction k with
  | zero => rfl
  | succ k ih => rw [costIterExt, ih]; rfl

theorem costIterExt_getD_succ (w : List Nat) (k i : Nat) (hi : i < w.length + k) :
    (costIterExt w (k + 1)).getD i 0 = (costIterExt w k).getD i 0 := by
  rw [costIterExt, getD_append_left (by rw [costIterExt_length]; exact hi)]

theorem costIterExt_getD_prefix (w : List Nat) (j k i : Nat) (hjk : j ≤ k)
    (hi : i < w.length + j) : (costIterExt w k).getD i 0 = (costIterExt w j).getD i 0 := by
  induction hjk with
  | refl => rfl
  | step h ih =>
    have h' : j ≤ _ := h
    rw [costIterExt_getD_succ _ _ _ (by omega), ih]

theorem costIterExt_getD_base (w : List Nat) (k i : Nat) (hi : i < w.length) :
    (costIterExt w k).getD i 0 = w.getD i 0 :=
  costIterExt_getD_prefix w 0 k i (Nat.zero_le _) hi

theorem costExtrapolate_eq (fuel : Nat) (w : List Nat) (n : Nat) (h3 : 3 ≤ w.length)
    (hf : n - 1 - w.length ≤ fuel) :
    costExtrapolate w n fuel = costIterExt w (n - 1 - w.length) := by
  induction fuel generalizing w with
  | zero =>
    have : n - 1 - w.length = 0 := by omega
    rw [this]; rfl
  | succ fuel ih =>
    by_cases hlt : w.length < n - 1
    · rw [costExtrapolate, if_pos ⟨h3, hlt⟩,
        ih (w ++ [costExtrapolateNext w]) (by simp; omega) (by simp; omega), costIterExt_shift]
      congr 1; simp; omega
    · rw [costExtrapolate, if_neg (fun h => hlt h.2)]
      have : n - 1 - w.length = 0 := by omega
      rw [this]; rfl

theorem costExtrapolate_short (fuel : Nat) (w : List Nat) (n : Nat) (h3 : w.length < 3) :
    costExtrapolate w n fuel = w := by
  cases fuel with
  | zero => rfl
  | succ fuel => rw [costExtrapolate, if_neg (by omega)]

end CostLemmas

theorem costExtrapolate_is_iterExt (w : List Nat) (n fuel : Nat) :
    ∃ k, costExtrapolate w n fuel = costIterExt w k := by
  induction fuel generalizing w with
  | zero => exact ⟨0, rfl⟩
  | succ fuel ih =>
    rw [costExtrapolate]
    split
    · obtain ⟨k, hk⟩ := ih (w ++ [costExtrapolateNext w])
      exact ⟨k + 1, by rw [hk, costIterExt_shift]⟩
    · exact ⟨0, rfl⟩

theorem costIterExt_take (w : List Nat) (k : Nat) : (costIterExt w k).take w.length = w := by
  induction k with
  | zero => exact List.take_length
  | succ k ih =>
    rw [costIterExt, List.take_append_of_le_length (by rw [costIterExt_length]; omega), ih]


namespace CostLemmas

theorem minList?_spec (l : List Nat) (h : l ≠ []) :
    ∃ m, minList? l = some m ∧ m ∈ l ∧ ∀ x ∈ l, m ≤ x := by
  induction l with
  | nil => exact absurd rfl h
  | cons x xs ih =>
    by_cases hxs : xs = []
    · subst hxs; exact ⟨x, rfl, by simp, by simp⟩
    · obtain ⟨m, hm, hmem, hle⟩ := ih hxs
      refine ⟨min x m, by simp [minList?, hm], ?_, ?_⟩
      · rcases Nat.le_total x m with h1 | h1
        · rw [Nat.min_eq_left h1]; simp
        · rw [Nat.min_eq_right h1]; simp [hmem]
      · intro y hy
        rw [List.mem_cons] at hy
        rcases hy with rfl | hy
        · exact Nat.min_le_left _ _
        · exact Nat.le_trans (Nat.min_le_right _ _) (hle y hy)

theorem costExtrapolateNext_spec (w : List Nat) :
    (∃ k, k ≤ w.length / 2 ∧
      costExtrapolateNext w = w.getD k 0 + w.getD (w.length - k - 1) 0) ∧
    (∀ k, k ≤ w.length / 2 →
      costExtrapolateNext w ≤ w.getD k 0 + w.getD (w.length - k - 1) 0) := by
  obtain ⟨m, hm, hmem, hle⟩ := minList?_spec
    ((List.range (w.length / 2 + 1)).map fun k => w.getD k 0 + w.getD (w.length - k - 1) 0)
    (by simp)
  have he : costExtrapolateNext w = m := by
    simp only [costExtrapolateNext, hm]; rfl
  rw [he]
  constructor
  · rw [List.mem_map] at hmem
    obtain ⟨k, hk, rfl⟩ := hmem
    rw [List.mem_range] at hk
    exact ⟨k, by omega, rfl⟩
  · intro k hk
    exact hle _ (List.mem_map.2 ⟨k, List.mem_range.2 (by omega), rfl⟩)

theorem wf_step (W : List Nat) (hwf : costCurveWF W) :
    costCurveWF (W ++ [costExtrapolateNext W]) := by
  obtain ⟨hne, hs, hsub⟩ := hwf
  obtain ⟨⟨k, hk, he⟩, hle⟩ := costExtrapolateNext_spec W
  have hpos : 0 < W.length := List.length_pos_iff.2 hne
  have hlast : W.getD (W.length - 1) 0 ≤ costExtrapolateNext W := by
    rw [he]
    rcases Nat.eq_zero_or_pos k with rfl | hk0
    · rw [Nat.sub_zero]; omega
    · have h1 := hsub (k - 1) (W.length - k - 1) (by omega)
      have e : k - 1 + (W.length - k - 1) + 1 = W.length - 1 := by omega
      rw [e] at h1
      have h2 := sorted_getD hs (show k - 1 ≤ k by omega) (by omega : k < W.length)
      omega
  refine ⟨by simp, ?_, ?_⟩
  · apply sorted_of_getD
    intro i j hij hj
    rw [List.length_append, List.length_singleton] at hj
    by_cases hjl : j < W.length
    · rw [getD_append_left hjl, getD_append_left (by omega)]
      exact sorted_getD hs hij hjl
    · have hj' : j = W.length := by omega
      subst hj'
      rw [getD_append_last]
      by_cases hil : i < W.length
      · rw [getD_append_left hil]
        exact Nat.le_trans (sorted_getD hs (by omega) (by omega)) hlast
      · have hi' : i = W.length := by omega
        rw [hi', getD_append_last]
        exact Nat.le_refl _
  · intro i j hij
    rw [List.length_append, List.length_singleton] at hij
    by_cases hl : i + j + 1 < W.length
    · rw [getD_append_left hl, getD_append_left (by omega), getD_append_left (by omega)]
      exact hsub i j hl
    · have e : i + j + 1 = W.length := by omega
      rw [e, getD_append_last, getD_append_left (by omega), getD_append_left (by omega)]
      by_cases hi : i ≤ W.length / 2
      · have := hle i hi
        have e2 : W.length - i - 1 = j := by omega
        rw [e2] at this
        exact this
      · have := hle j (by omega)
        have e2 : W.length - j - 1 = i := by omega
        rw [e2] at this
        omega

/-- within the vector's range, `costCurveOf` is a plain lookup -/
theorem costCurveOf_lookup (W : List Nat) (n : Nat) (hn : 1 ≤ n) (hle : n ≤ W.length) :
    costCurveOf W n = W.getD (n - 1) 0 := by
  have hpos : 0 < W.length := by omega
  have hne : W ≠ [] := List.length_pos_iff.1 hpos
  by_cases h : n < W.length
  · have := costCurveOf_eq W hne 0 n h
    rw [Nat.zero_mul, Nat.zero_add, Nat.zero_mul, Nat.zero_add, if_pos (by omega)] at this
    exact this
  · have := costCurveOf_eq W hne 1 0 hpos
    rw [Nat.one_mul, Nat.add_zero, Nat.one_mul, if_neg (Nat.lt_irrefl 0), Nat.add_zero] at this
    have e : n = W.length := by omega
    rw [e]
    exact this

end CostLemmas

/-- extrapolation preserves well-formedness (non-decreasing and sub-additive) -/
theorem costIterExt_wf (w : List Nat) (hwf : costCurveWF w) (h3 : 3 ≤ w.length) (k : Nat) :
    costCurveWF (costIterExt w k) := by
  have _ := h3
  induction k with
  | zero => exact hwf
  | succ k ih => exact wf_step _ ih

/-- `ExtrapolatingCurve::cost_of_jobs(n)` for `n ≥ 1` is the entry `n - 1` of any long enough
extrapolation (for at least three samples) -/
theorem xcostOf_eq (w : List Nat) (h3 : 3 ≤ w.length) (n k : Nat) (hn : 1 ≤ n)
    (hk : n ≤ w.length + k) : xcostOf w n = (costIterExt w k).getD (n - 1) 0 := by
  rw [xcostOf, costExtrapolate_eq n w (n + 1) h3 (by omega)]
  have e : n + 1 - 1 - w.length = n - w.length := by omega
  rw [e, costCurveOf_lookup _ n hn (by rw [costIterExt_length]; omega)]
  exact (costIterExt_getD_prefix w (n - w.length) k (n - 1) (by omega) (by omega)).symm

/-- with fewer than three samples nothing is extrapolated -/
theorem xcostOf_short (w : List Nat) (h3 : w.length < 3) (n : Nat) : xcostOf w n = costCurveOf w n := by
  rw [xcostOf, costExtrapolate_short _ _ _ h3]


namespace CostLemmas

theorem xcostOf_zero (w : List Nat) : xcostOf w 0 = 0 := by
  simp [xcostOf, costCurveOf]

theorem xcostOf_mono (w : List Nat) (hwf : costCurveWF w) : MonoN (xcostOf w) := by
  by_cases h3 : w.length < 3
  · have e : xcostOf w = costCurveOf w := funext (xcostOf_short w h3)
    rw [e]
    exact costCurveOf_mono w hwf.2.1
  · intro a b hab
    rcases Nat.eq_zero_or_pos a with rfl | ha
    · rw [xcostOf_zero]; exact Nat.zero_le _
    · rw [xcostOf_eq w (by omega) a b ha (by omega), xcostOf_eq w (by omega) b b (by omega) (by omega)]
      exact sorted_getD (costIterExt_wf w hwf (by omega) b).2.1 (by omega)
        (by rw [costIterExt_length]; omega)

theorem sumList_append (a b : List Nat) : sumList (a ++ b) = sumList a + sumList b := by
  induction a with
  | nil => simp [sumList]
  | cons x xs ih => simp [sumList, ih, Nat.add_assoc]

theorem sumList_replicate (n c : Nat) : sumList (List.replicate n c) = c * n := by
  induction n with
  | zero => rfl
  | succ n ih => rw [List.replicate_succ, sumList, ih, Nat.mul_succ, Nat.add_comm]

theorem sumList_cycleTake_step (cs : List Nat) (n i : Nat) :
    sumList (cycleTake cs n i) ≤ sumList (cycleTake cs (n + 1) i) := by
  induction n generalizing i with
  | zero => exact Nat.zero_le _
  | succ n ih =>
    by_cases hne : cs = []
    · subst hne; simp [cycleTake]
    · rw [cycleTake, if_neg hne, cycleTake, if_neg hne, sumList, sumList]
      exact Nat.add_le_add_left (ih (i + 1)) _

theorem sum_diffs (f : Nat → Nat) (h0 : f 0 = 0) (hm : MonoN f) (n : Nat) :
    sumList ((List.range n).map fun i => f (i + 1) - f i) = f n := by
  induction n with
  | zero => rw [h0]; rfl
  | succ n ih =>
    rw [List.range_succ, List.map_append, sumList_append, ih]
    have := hm n (n + 1) (Nat.le_succ n)
    simp only [List.map_cons, List.map_nil, sumList]
    omega

theorem costItemsGuard_of_mono (f : Nat → Nat) (hm : MonoN f) (n : Nat) :
    costItemsGuard f n = true := by
  rw [costItemsGuard, List.all_eq_true]
  intro i _
  exact decide_eq_true (hm i (i + 1) (Nat.le_succ i))

theorem costLeastGuard_of_wf (w : List Nat) (hwf : costCurveWF w) (n : Nat) :
    costLeastGuard w n = true := by
  obtain ⟨hne, hs, _⟩ := hwf
  have hall : ((List.range (min w.length n - 1)).all
      fun i => decide (w.getD i 0 ≤ w.getD (i + 1) 0)) = true := by
    rw [List.all_eq_true]
    intro i hi
    rw [List.mem_range] at hi
    exact decide_eq_true (sorted_getD hs (Nat.le_succ i) (by omega))
  rw [costLeastGuard, hall]
  simp [hne]

end CostLemmas

/-- C14: `cost_of_jobs` is non-decreasing -/
theorem Cost.ofJobs_mono (c : Cost) (hwf : c.WF) : MonoN c.ofJobs := by
  cases c with
  | scalar c => intro a b hab; exact Nat.mul_le_mul_left c hab
  | multiframe cs => exact monoN_of_step _ (fun n => sumList_cycleTake_step cs n 0)
  | curve w => exact costCurveOf_mono w hwf.2.1
  | xcurve w => exact xcostOf_mono w hwf

/-- C14: `cost_of_jobs(n)` is the sum of the first `n` items of `job_cost_iter` -/
theorem Cost.items_sum (c : Cost) (hwf : c.WF) (n : Nat) : sumList (c.items n) = c.ofJobs n := by
  cases c with
  | scalar c => exact sumList_replicate n c
  | multiframe cs => rfl
  | curve w => exact sum_diffs _ (by simp [costCurveOf]) (costCurveOf_mono w hwf.2.1) n
  | xcurve w => exact sum_diffs _ (xcostOf_zero w) (xcostOf_mono w hwf) n

/-- on well-formed models the subtraction in `job_cost_iter` never underflows -/
theorem Cost.itemsGuard_of_wf (c : Cost) (hwf : c.WF) (n : Nat) : c.itemsGuard n = true := by
  cases c with
  | scalar c => rfl
  | multiframe cs => rfl
  | curve w => exact costItemsGuard_of_mono _ (costCurveOf_mono w hwf.2.1) n
  | xcurve w => exact costItemsGuard_of_mono _ (xcostOf_mono w hwf) n

theorem Cost.leastGuard_of_wf (c : Cost) (hwf : c.WF) (n : Nat) : c.leastGuard n = true := by
  cases c with
  | scalar c => rfl
  | multiframe cs => rfl
  | curve w => exact costLeastGuard_of_wf w hwf n
  | xcurve w => exact costLeastGuard_of_wf w hwf n


namespace CostLemmas

/-- the `i`-th increment of a cumulative vector -/
def incOf (w : List Nat) (i : Nat) : Nat :=
  if i = 0 then w.getD 0 0 else w.getD i 0 - w.getD (i - 1) 0

theorem incOf_zero (w : List Nat) : incOf w 0 = w.getD 0 0 := rfl

theorem incOf_pos (w : List Nat) (i : Nat) (hi : 0 < i) :
    incOf w i = w.getD i 0 - w.getD (i - 1) 0 := by
  rw [incOf, if_neg (by omega)]

theorem headD_eq (w : List Nat) : w.headD 0 = w.getD 0 0 := by
  cases w <;> rfl

theorem foldl_min_le_init (g : Nat → Nat) (l : List Nat) (a : Nat) :
    l.foldl (fun m i => min m (g i)) a ≤ a := by
  induction l generalizing a with
  | nil => exact Nat.le_refl _
  | cons x xs ih =>
    rw [List.foldl_cons]
    exact Nat.le_trans (ih _) (Nat.min_le_left _ _)

theorem foldl_min_le_mem (g : Nat → Nat) (l : List Nat) (a i : Nat) (hi : i ∈ l) :
    l.foldl (fun m i => min m (g i)) a ≤ g i := by
  induction l generalizing a with
  | nil => cases hi
  | cons x xs ih =>
    rw [List.foldl_cons]
    rw [List.mem_cons] at hi
    rcases hi with rfl | hi
    · exact Nat.le_trans (foldl_min_le_init g xs _) (Nat.min_le_right _ _)
    · exact ih _ hi

theorem le_foldl_min (g : Nat → Nat) (l : List Nat) (a B : Nat) (ha : B ≤ a)
    (h : ∀ i ∈ l, B ≤ g i) : B ≤ l.foldl (fun m i => min m (g i)) a := by
  induction l generalizing a with
  | nil => exact ha
  | cons x xs ih =>
    rw [List.foldl_cons]
    exact ih _ (Nat.le_min.2 ⟨ha, h x (by simp)⟩) (fun i hi => h i (by simp [hi]))

theorem costCurveLeast_le_inc (w : List Nat) (n j : Nat) (hj : j < min w.length n) :
    costCurveLeast w n ≤ incOf w j := by
  have hn : n > 0 := by omega
  rw [costCurveLeast, if_pos hn]
  cases j with
  | zero =>
    rw [incOf, if_pos rfl, ← headD_eq]
    exact foldl_min_le_init _ _ _
  | succ j =>
    rw [incOf, if_neg (by omega), Nat.add_sub_cancel]
    exact foldl_min_le_mem (fun i => w.getD (i + 1) 0 - w.getD i 0) _ _ j
      (List.mem_range.2 (by omega))

theorem le_costCurveLeast (w : List Nat) (hne : w ≠ []) (n B : Nat) (hn : n > 0)
    (h : ∀ j, j < min w.length n → B ≤ incOf w j) : B ≤ costCurveLeast w n := by
  have hpos : 0 < w.length := List.length_pos_iff.2 hne
  rw [costCurveLeast, if_pos hn]
  apply le_foldl_min (fun i => w.getD (i + 1) 0 - w.getD i 0)
  · have := h 0 (by omega)
    rw [incOf, if_pos rfl] at this
    rw [headD_eq]
    exact this
  · intro i hi
    rw [List.mem_range] at hi
    have := h (i + 1) (by omega)
    rw [incOf, if_neg (by omega), Nat.add_sub_cancel] at this
    exact this

/-- the items of a plain curve are the cyclic increments -/
theorem costCurveOf_diff (w : List Nat) (hne : w ≠ []) (n : Nat) :
    costCurveOf w (n + 1) - costCurveOf w n = incOf w (n % w.length) := by
  have hpos : 0 < w.length := List.length_pos_iff.2 hne
  have hy : n % w.length < w.length := Nat.mod_lt _ hpos
  have hn : n = (n / w.length) * w.length + n % w.length := by
    rw [Nat.mul_comm]; exact (Nat.div_add_mod n w.length).symm
  generalize n / w.length = x at hn
  generalize n % w.length = y at hn hy ⊢
  subst hn
  rw [costCurveOf_eq w hne x y hy]
  by_cases hlast : y + 1 < w.length
  · rw [Nat.add_assoc, costCurveOf_eq w hne x (y + 1) hlast]
    have e2 : (if y + 1 > 0 then w.getD (y + 1 - 1) 0 else 0) = w.getD y 0 := by simp
    rw [e2]
    generalize x * w.getD (w.length - 1) 0 = p
    rcases Nat.eq_zero_or_pos y with rfl | hy0
    · rw [incOf_zero, if_neg (Nat.lt_irrefl 0)]; omega
    · rw [incOf_pos w y hy0, if_pos hy0]; omega
  · have e : x * w.length + y + 1 = (x + 1) * w.length + 0 := by
      rw [Nat.add_mul]; omega
    rw [e, costCurveOf_eq w hne (x + 1) 0 hpos]
    rw [Nat.add_mul, Nat.one_mul, if_neg (Nat.lt_irrefl 0)]
    clear e
    have e3 : w.length - 1 = y := by omega
    rw [e3]
    generalize x * w.getD y 0 = p
    rcases Nat.eq_zero_or_pos y with rfl | hy0
    · rw [incOf_zero, if_neg (Nat.lt_irrefl 0)]; omega
    · rw [incOf_pos w y hy0, if_pos hy0]; omega

theorem curve_least_le (w : List Nat) (hne : w ≠ []) (n i : Nat) (hi : i < n) :
    costCurveLeast w n ≤ costCurveOf w (i + 1) - costCurveOf w i := by
  have hpos : 0 < w.length := List.length_pos_iff.2 hne
  rw [costCurveOf_diff w hne i]
  apply costCurveLeast_le_inc
  have h1 : i % w.length < w.length := Nat.mod_lt _ hpos
  have h2 : i % w.length ≤ i := Nat.mod_le _ _
  omega

theorem iterExt_wf (w : List Nat) (hwf : costCurveWF w) (k : Nat) :
    costCurveWF (costIterExt w k) := by
  induction k with
  | zero => exact hwf
  | succ k ih => exact wf_step _ ih

theorem incOf_prefix (w : List Nat) (j k i : Nat) (hjk : j ≤ k) (hi : i < w.length + j) :
    incOf (costIterExt w k) i = incOf (costIterExt w j) i := by
  unfold incOf
  rw [costIterExt_getD_prefix w j k 0 hjk (by omega), costIterExt_getD_prefix w j k i hjk hi,
    costIterExt_getD_prefix w j k (i - 1) hjk (by omega)]

theorem incOf_base (w : List Nat) (k i : Nat) (hi : i < w.length) :
    incOf (costIterExt w k) i = incOf w i :=
  incOf_prefix w 0 k i (Nat.zero_le _) hi

/-- every increment of the extrapolated vector is at least the least initial increment -/
theorem inc_lower (w : List Nat) (hwf : costCurveWF w) (B : Nat)
    (hB : ∀ j, j < w.length → B ≤ incOf w j) (k i : Nat) (hi : i < w.length + k) :
    B ≤ incOf (costIterExt w k) i := by
  induction k generalizing i with
  | zero => exact hB i hi
  | succ k ih =>
    by_cases hlt : i < w.length + k
    · rw [incOf_prefix w k (k + 1) i (Nat.le_succ k) hlt]
      exact ih i hlt
    · have hi' : i = w.length + k := by omega
      have hpos : 0 < w.length := List.length_pos_iff.2 hwf.1
      have hlen := costIterExt_length w k
      obtain ⟨_, hs, hsub⟩ := iterExt_wf w hwf k
      obtain ⟨⟨c, hc, he⟩, _⟩ := costExtrapolateNext_spec (costIterExt w k)
      have hm : i = (costIterExt w k).length := by omega
      rw [incOf, if_neg (by omega), costIterExt, hm, getD_append_last,
        getD_append_left (by omega)]
      rw [he]
      rcases Nat.eq_zero_or_pos c with rfl | hc0
      · have h0 := ih 0 (by omega)
        rw [incOf, if_pos rfl] at h0
        rw [Nat.sub_zero]
        omega
      · have h1 := hsub (c - 1) ((costIterExt w k).length - c - 1) (by omega)
        have e : c - 1 + ((costIterExt w k).length - c - 1) + 1 = (costIterExt w k).length - 1 := by
          omega
        rw [e] at h1
        have h2 := ih c (by omega)
        rw [incOf, if_neg (by omega)] at h2
        omega

theorem xcurve_item (w : List Nat) (h3 : 3 ≤ w.length) (n i : Nat) (hi : i < n) :
    xcostOf w (i + 1) - xcostOf w i = incOf (costIterExt w n) i := by
  rw [xcostOf_eq w h3 (i + 1) n (by omega) (by omega), Nat.add_sub_cancel]
  rcases Nat.eq_zero_or_pos i with rfl | hi0
  · rw [xcostOf_zero, incOf, if_pos rfl]; rfl
  · rw [xcostOf_eq w h3 i n hi0 (by omega), incOf, if_neg (by omega)]

theorem xcurve_least_le (w : List Nat) (hwf : costCurveWF w) (n i : Nat) (hi : i < n) :
    costCurveLeast w n ≤ xcostOf w (i + 1) - xcostOf w i := by
  by_cases h3 : w.length < 3
  · rw [xcostOf_short w h3, xcostOf_short w h3]
    exact curve_least_le w hwf.1 n i hi
  · rw [xcurve_item w (by omega) n i hi]
    by_cases hlt : i < w.length
    · rw [incOf_base w n i hlt]
      exact costCurveLeast_le_inc w n i (by omega)
    · apply inc_lower w hwf _ _ n i (by omega)
      intro j hj
      exact costCurveLeast_le_inc w n j (by omega)

theorem mem_cycleTake (cs : List Nat) (hne : cs ≠ []) (n : Nat) (x : Nat)
    (hx : x ∈ cycleTake cs n 0) : ∃ i, i < n ∧ x = cs.getD (i % cs.length) 0 := by
  obtain ⟨k, hk, hxk⟩ := List.mem_iff_getElem.1 hx
  have hl := cycleTake_length cs hne n 0
  refine ⟨k, by omega, ?_⟩
  have := cycleTake_getD cs hne n 0 k (by omega)
  rw [getD_lt hk, hxk, Nat.zero_add] at this
  exact this

theorem multiframe_least_le (cs : List Nat) (n x : Nat) (hx : x ∈ cycleTake cs n 0) :
    (minList? (cs.take n)).getD 0 ≤ x := by
  by_cases hne : cs = []
  · subst hne
    cases n <;> simp [cycleTake] at hx
  · obtain ⟨i, hi, rfl⟩ := mem_cycleTake cs hne n x hx
    have hpos : 0 < cs.length := List.length_pos_iff.2 hne
    have h1 : i % cs.length < cs.length := Nat.mod_lt _ hpos
    have h2 : i % cs.length ≤ i := Nat.mod_le _ _
    have hmem : cs.getD (i % cs.length) 0 ∈ cs.take n := by
      rw [getD_lt h1, List.mem_take_iff_getElem]
      exact ⟨i % cs.length, by omega, rfl⟩
    obtain ⟨m, hm, _, hle⟩ := minList?_spec (cs.take n) (List.ne_nil_of_mem hmem)
    rw [hm]
    exact hle _ hmem

end CostLemmas

/-- C14: `least_wcet(n)` is no larger than any of the first `n` items -/
theorem Cost.least_le (c : Cost) (hwf : c.WF) (n : Nat) : ∀ x ∈ c.items n, c.least n ≤ x := by
  intro x hx
  cases c with
  | scalar c =>
    obtain ⟨hn, rfl⟩ := List.mem_replicate.1 hx
    show (if n > 0 then x else 0) ≤ x
    rw [if_pos (by omega)]
    exact Nat.le_refl _
  | multiframe cs => exact multiframe_least_le cs n x hx
  | curve w =>
    obtain ⟨i, hi, rfl⟩ := List.mem_map.1 hx
    exact curve_least_le w hwf.1 n i (List.mem_range.1 hi)
  | xcurve w =>
    obtain ⟨i, hi, rfl⟩ := List.mem_map.1 hx
    exact xcurve_least_le w hwf n i (List.mem_range.1 hi)


namespace CostLemmas

/-- sub-additivity along `x` blocks of `L` entries plus `y` more -/
theorem subadd_blocks (W : List Nat)
    (hsub : ∀ i j, i + j + 1 < W.length → W.getD (i + j + 1) 0 ≤ W.getD i 0 + W.getD j 0)
    (L : Nat) (hL : 0 < L) (x y : Nat) (hy : y < L) (h1 : 1 ≤ x * L + y)
    (hle : x * L + y ≤ W.length) :
    W.getD (x * L + y - 1) 0 ≤
      x * W.getD (L - 1) 0 + (if y > 0 then W.getD (y - 1) 0 else 0) := by
  induction x with
  | zero =>
    rw [Nat.zero_mul, Nat.zero_add] at h1 ⊢
    rw [Nat.zero_mul, Nat.zero_add, if_pos (by omega)]
    exact Nat.le_refl _
  | succ x ih =>
    rw [Nat.succ_mul] at h1 hle ⊢
    rw [Nat.succ_mul]
    generalize x * L = p at ih h1 hle ⊢
    generalize x * W.getD (L - 1) 0 = q at ih ⊢
    by_cases h0 : p + y = 0
    · have hp : p = 0 := by omega
      have hy0 : y = 0 := by omega
      subst hp; subst hy0
      rw [Nat.zero_add, Nat.add_zero]
      omega
    · have h2 := hsub (L - 1) (p + y - 1) (by omega)
      have e : L - 1 + (p + y - 1) + 1 = p + L + y - 1 := by omega
      rw [e] at h2
      have h3 := ih (by omega) (by omega)
      omega

end CostLemmas

/-- extrapolation never raises a bound inside the extrapolated range … -/
theorem costIterExt_le (w : List Nat) (hwf : costCurveWF w) (h3 : 3 ≤ w.length) (k n : Nat)
    (hn : n ≤ w.length + k) : costCurveOf (costIterExt w k) n ≤ costCurveOf w n := by
  rcases Nat.eq_zero_or_pos n with rfl | hn1
  · simp [costCurveOf]
  have hW := costIterExt_wf w hwf h3 k
  have hlen := costIterExt_length w k
  rw [costCurveOf_lookup _ n hn1 (by omega)]
  have hpos : 0 < w.length := by omega
  have hy : n % w.length < w.length := Nat.mod_lt _ hpos
  have hn' : n = (n / w.length) * w.length + n % w.length := by
    rw [Nat.mul_comm]; exact (Nat.div_add_mod n w.length).symm
  generalize n / w.length = x at hn'
  generalize n % w.length = y at hn' hy
  subst hn'
  rw [costCurveOf_eq w hwf.1 x y hy]
  have hb := subadd_blocks _ hW.2.2 w.length hpos x y hy hn1 (by omega)
  rw [costIterExt_getD_base w k (w.length - 1) (by omega)] at hb
  by_cases hy0 : y > 0
  · rw [if_pos hy0] at hb ⊢
    rw [costIterExt_getD_base w k (y - 1) (by omega)] at hb
    exact hb
  · rw [if_neg hy0] at hb ⊢
    exact hb

/-- … finding F7: BEYOND the extrapolated range a partially extrapolated `wcet::Curve` can
claim more than the original (`[5,6,7]` extrapolated to four entries, five jobs: 17 > 13) -/
theorem cost_extrapolate_raises_beyond_range :
    costCurveOf (costExtrapolate [5, 6, 7] 5 5) 5 > costCurveOf [5, 6, 7] 5 := by
  decide

/-- the auto-extrapolating model never claims more than the plain curve -/
theorem xcostOf_le (w : List Nat) (hwf : costCurveWF w) (n : Nat) : xcostOf w n ≤ costCurveOf w n := by
  by_cases h3 : w.length < 3
  · rw [xcostOf_short w h3]
    exact Nat.le_refl _
  · rcases Nat.eq_zero_or_pos n with rfl | hn
    · rw [xcostOf_zero]
      exact Nat.zero_le _
    · rw [xcostOf_eq w (by omega) n n hn (by omega),
        ← costCurveOf_lookup _ n hn (by rw [costIterExt_length]; omega)]
      exact costIterExt_le w hwf (by omega) n n (by omega)


namespace CostLemmas

/-- `least_wcet` does not notice extrapolated entries -/
theorem costCurveLeast_ext (w : List Nat) (hwf : costCurveWF w) (k n : Nat) :
    costCurveLeast (costIterExt w k) n = costCurveLeast w n := by
  rcases Nat.eq_zero_or_pos n with rfl | hn
  · simp [costCurveLeast]
  have hlen := costIterExt_length w k
  have hpos : 0 < w.length := List.length_pos_iff.2 hwf.1
  apply Nat.le_antisymm
  · apply le_costCurveLeast w hwf.1 n _ hn
    intro j hj
    rw [← incOf_base w k j (by omega)]
    exact costCurveLeast_le_inc _ n j (by omega)
  · apply le_costCurveLeast _ (iterExt_wf w hwf k).1 n _ hn
    intro j hj
    by_cases hlt : j < w.length
    · rw [incOf_base w k j hlt]
      exact costCurveLeast_le_inc w n j (by omega)
    · apply inc_lower w hwf _ _ k j (by omega)
      intro i hi
      exact costCurveLeast_le_inc w n i (by omega)

theorem xcostRun_short (w : List Nat) (h3 : w.length < 3) (ops : List XCostOp) :
    xcostRun w ops = ops.map (xcostPure w) := by
  induction ops with
  | nil => rfl
  | cons op ops ih =>
    cases op with
    | coj n =>
      simp only [xcostRun, xcostStep, List.map_cons, xcostPure, xcostOf,
        costExtrapolate_short _ _ _ h3, ih]
    | least n =>
      simp only [xcostRun, xcostStep, List.map_cons, xcostPure, ih]

theorem xcostRun_ext (w : List Nat) (hwf : costCurveWF w) (h3 : 3 ≤ w.length)
    (ops : List XCostOp) (k : Nat) :
    xcostRun (costIterExt w k) ops = ops.map (xcostPure w) := by
  induction ops generalizing k with
  | nil => rfl
  | cons op ops ih =>
    cases op with
    | coj n =>
      have hlen := costIterExt_length w k
      have e1 : costExtrapolate (costIterExt w k) (n + 1) n =
          costIterExt w (k + (n + 1 - 1 - (costIterExt w k).length)) := by
        rw [costExtrapolate_eq n _ (n + 1) (by omega) (by omega), costIterExt_add]
      have e2 : costCurveOf (costIterExt w (k + (n + 1 - 1 - (costIterExt w k).length))) n =
          xcostOf w n := by
        rcases Nat.eq_zero_or_pos n with rfl | hn
        · rw [xcostOf_zero]; simp [costCurveOf]
        · rw [costCurveOf_lookup _ n hn (by rw [costIterExt_length]; omega)]
          exact (xcostOf_eq w h3 n _ hn (by omega)).symm
      simp only [xcostRun, xcostStep, List.map_cons, xcostPure, e1, e2, ih]
    | least n =>
      simp only [xcostRun, xcostStep, List.map_cons, xcostPure, ih,
        costCurveLeast_ext w hwf k n]

end CostLemmas

/-- the caching variant answers every query exactly like a fresh one, regardless of the
query history -/
theorem xcost_transparent (w0 : List Nat) (hwf : costCurveWF w0) (ops : List XCostOp) :
    xcostRun w0 ops = ops.map (xcostPure w0) := by
  by_cases h3 : w0.length < 3
  · exact xcostRun_short w0 h3 ops
  · exact xcostRun_ext w0 hwf (by omega) ops 0

end RTA
