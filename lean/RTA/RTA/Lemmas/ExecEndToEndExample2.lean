import RTA.Lemmas.ExecEndToEndExample
/-! Non-vacuity of `bw_exec_sound` and `timer_exec_sound` on the example of
`ExecEndToEndExample.lean` (a timer and two polled callbacks on a dedicated processor, strictly
periodic releases): the analyses return the stated values, every hypothesis of the end-to-end
theorems holds, and every completion that `Exec.run` reports is within the bounds. -/

namespace RTA.Exec
open RTA RTA.Sched RTA.Spec
open EndToEndExampleLemmas

/-- the arrival curves of the three callbacks -/
def exArrs : List Arr := [.periodic 10, .periodic 10, .periodic 20]

end RTA.Exec

namespace RTA.Exec.EndToEndExample2Lemmas
open RTA RTA.Sched RTA.Spec RTA.Exec
open EndToEndExampleLemmas

theorem hwfExact : ∀ cb ∈ exWl, cb.arr.WF ∧ cb.arr.Exact := by
  intro cb hcb
  simp only [exWl, List.mem_cons, List.not_mem_nil, or_false] at hcb
  rcases hcb with rfl | rfl | rfl <;> simp [Arr.WF, Arr.Exact]

theorem hwfArrs : ∀ a ∈ exArrs, a.WF ∧ a.Exact := by
  intro a ha
  simp only [exArrs, List.mem_cons, List.not_mem_nil, or_false] at ha
  rcases ha with rfl | rfl | rfl <;> simp [Arr.WF, Arr.Exact]

theorem hrelArrs : ∀ k, k < exCbs.length → ∀ t d,
    relCount exRels k t d ≤ (exArrs.getD k default).N d := by
  intro k hk t d
  match k, hk with
  | 0, h => exact hrel 0 h t d
  | 1, h => exact hrel 1 h t d
  | 2, h => exact hrel 2 h t d
  | k + 3, h => exact absurd (show k + 3 < 3 from h) (by omega)

end RTA.Exec.EndToEndExample2Lemmas

namespace RTA.Exec
open RTA RTA.Sched RTA.Spec
open EndToEndExampleLemmas

/-- the bw analysis reproduces bounds below the assumed vector (9, 9, 9): every singleton analysis
returns `Ok(6)` -/
theorem bw_example_self_consistent :
    ∀ i, i < exWl.length → ∃ R, bwSubchain .dedicated exWl [i] 100 false = .ok R ∧ R ≤ (exWl.getD i default).rtb := by
  intro i hi
  match i, hi with
  | 0, _ => exact ⟨6, by decide +kernel, by decide⟩
  | 1, _ => exact ⟨6, by decide +kernel, by decide⟩
  | 2, _ => exact ⟨6, by decide +kernel, by decide⟩
  | k + 3, h => exact absurd (show k + 3 < 3 from h) (by omega)

/-- hence, by `bw_exec_sound`: every completion the run reports is within the assumed bound -/
theorem bw_example_bounded :
    ∀ o ∈ Exec.run exCbs (fun _ => none) ((List.range 60).map exSigmaAll) exRels,
      o.2.2 ≤ o.2.1 + (exWl.getD o.1 default).rtb := by
  obtain ⟨h1, h2, h3, h4, h5, h6, h7, _, h9, h10, h11, _, _⟩ := rr_exec_sound_nonvacuous
  intro o ho
  exact bw_exec_sound exCbs exSigmaAll exRels 40 h1 h2 h3 .dedicated h4 h5 exWl h6 h7
    EndToEndExample2Lemmas.hwfExact h9 h10 h11 100 false bw_example_self_consistent 60 o.1 o ho rfl

/-- `rta_timer` for the timer (callback 0): no higher-priority timer, blocking bound 2 (the longest
other callback costs 3) -/
theorem timer_example_bound :
    rosTimer .dedicated (.rbf (exArrs.getD 0 default) (.scalar (exCbs.getD 0 default).cost))
      (.agg (((List.range exCbs.length).filter fun k =>
          (exCbs.getD k default).isTimer && decide ((exCbs.getD k default).prio < (exCbs.getD 0 default).prio)).map
        fun k => .rbf (exArrs.getD k default) (.scalar (exCbs.getD k default).cost))) 2 100 = .ok 3 := by
  decide +kernel

/-- hence, by `timer_exec_sound`: every completion of the timer that the run reports is within 3 of
its release -/
theorem timer_example_bounded :
    ∀ o ∈ Exec.run exCbs (fun _ => none) ((List.range 60).map exSigmaAll) exRels, o.1 = 0 → o.2.2 ≤ o.2.1 + 3 := by
  obtain ⟨h1, h2, h3, h4, h5, _⟩ := rr_exec_sound_nonvacuous
  exact timer_exec_sound exCbs exSigmaAll exRels 40 0 (by decide) (by decide) h1 h2 h3 (by decide)
    .dedicated h4 h5 exArrs rfl EndToEndExample2Lemmas.hwfArrs EndToEndExample2Lemmas.hrelArrs 2
    (by decide) 100 3 timer_example_bound 60

end RTA.Exec
