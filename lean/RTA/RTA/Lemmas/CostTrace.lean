import RTA.Lemmas.Cost
/-! C14: a WCET curve inferred from a trace of job costs (`wcet::Curve::from_trace`,
after the fix of finding F1) bounds every run of consecutive jobs. -/

namespace RTA

/-- total cost of the run of `n` consecutive jobs of the trace starting at position `s` -/
def runCost (tr : List Nat) (s n : Nat) : Nat := sumList ((tr.drop s).take n)

namespace CostTraceLemmas
open CostLemmas

theorem runCost_zero (tr : List Nat) (s : Nat) : runCost tr s 0 = 0 := by
  simp [runCost, sumList]

/-- a run splits into two consecutive runs -/
theorem runCost_add (tr : List Nat) (s a b : Nat) :
    runCost tr s (a + b) = runCost tr s a + runCost tr (s + a) b := by
  unfold runCost
  rw [List.take_add, sumList_append, List.drop_drop]

theorem runCost_cons_succ (c : Nat) (rd : List Nat) (j n : Nat) :
    runCost (c :: rd) (j + 1) n = runCost rd j n := by
  simp [runCost]

theorem runCost_cons_zero (c : Nat) (rd : List Nat) (n : Nat) :
    runCost (c :: rd) 0 n = sumList ((c :: rd).take n) := by
  simp [runCost]

theorem sumList_reverse (l : List Nat) : sumList l.reverse = sumList l := by
  induction l with
  | nil => rfl
  | cons x xs ih =>
    rw [List.reverse_cons, sumList_append, ih]
    simp only [sumList]
    omega

/-- runs of the reversed trace -/
theorem runCost_reverse (tr : List Nat) (s n : Nat) (h : s + n ≤ tr.length) :
    runCost tr.reverse (tr.length - s - n) n = runCost tr s n := by
  unfold runCost
  rw [List.drop_reverse, List.take_reverse, sumList_reverse, List.length_take, List.drop_take]
  have e1 : tr.length - (tr.length - s - n) = s + n := by omega
  have e2 : min (s + n) tr.length - n = s := by omega
  rw [e1, e2]
  have e3 : s + n - s = n := by omega
  rw [e3]

/-! ### closed form of `costTraceUpdate.go` -/

theorem go_length : ∀ (ks cs : List Nat) (tot : Nat),
    (costTraceUpdate.go cs ks tot).length = max cs.length ks.length := by
  intro ks
  induction ks with
  | nil => intro cs tot; cases cs <;> simp [costTraceUpdate.go]
  | cons v vs ih =>
    intro cs tot
    cases cs with
    | nil => simp only [costTraceUpdate.go, List.length_cons, ih]; simp
    | cons x xs => simp only [costTraceUpdate.go, List.length_cons, ih]; omega

theorem go_getD : ∀ (ks cs : List Nat) (tot k : Nat),
    (costTraceUpdate.go cs ks tot).getD k 0 =
      if k < ks.length then
        (if k < cs.length then max (cs.getD k 0) (tot + sumList (ks.take (k + 1)))
         else tot + sumList (ks.take (k + 1)))
      else cs.getD k 0 := by
  intro ks
  induction ks with
  | nil => intro cs tot k; cases cs <;> simp [costTraceUpdate.go]
  | cons v vs ih =>
    intro cs tot k
    cases cs with
    | nil =>
      simp only [costTraceUpdate.go]
      cases k with
      | zero => simp [sumList]
      | succ k =>
        rw [List.getD_cons_succ, ih]
        simp [sumList, Nat.add_assoc]
    | cons x xs =>
      simp only [costTraceUpdate.go]
      cases k with
      | zero => simp [sumList]
      | succ k =>
        rw [List.getD_cons_succ, ih]
        simp [sumList, Nat.add_assoc]

/-! ### the invariant of `from_trace` (processed costs `rd`, most recent first) -/

def RInv (maxN : Nat) (rd costOf : List Nat) : Prop :=
  costOf.length = min maxN rd.length ∧
  ∀ i, i < costOf.length →
    (∀ j, j + (i + 1) ≤ rd.length → runCost rd j (i + 1) ≤ costOf.getD i 0) ∧
    (∃ j, j + (i + 1) ≤ rd.length ∧ runCost rd j (i + 1) = costOf.getD i 0)

theorem rinv_step (maxN : Nat) (rd costOf : List Nat) (c : Nat) (h : RInv maxN rd costOf) :
    RInv maxN (c :: rd) (costTraceUpdate.go costOf ((c :: rd).take maxN) 0) := by
  obtain ⟨hlen, hk⟩ := h
  have hwl : ((c :: rd).take maxN).length = min maxN (rd.length + 1) := by
    rw [List.length_take, List.length_cons]
  have hlen' : (costTraceUpdate.go costOf ((c :: rd).take maxN) 0).length
      = min maxN (rd.length + 1) := by
    rw [go_length, hwl, hlen]; omega
  refine ⟨by rw [hlen', List.length_cons], ?_⟩
  intro i hi
  rw [hlen'] at hi
  have hv : sumList (((c :: rd).take maxN).take (i + 1)) = runCost (c :: rd) 0 (i + 1) := by
    rw [runCost_cons_zero, List.take_take]
    congr 2
    omega
  have hget : (costTraceUpdate.go costOf ((c :: rd).take maxN) 0).getD i 0 =
      if i < costOf.length then max (costOf.getD i 0) (runCost (c :: rd) 0 (i + 1))
      else runCost (c :: rd) 0 (i + 1) := by
    rw [go_getD, hwl, if_pos hi, Nat.zero_add, hv]
  rw [hget]
  by_cases hic : i < costOf.length
  · rw [if_pos hic]
    obtain ⟨hub, j0, hj0, hatt⟩ := hk i hic
    constructor
    · intro j hj
      cases j with
      | zero => exact Nat.le_max_right _ _
      | succ j =>
        rw [runCost_cons_succ]
        have := hub j (by simp only [List.length_cons] at hj; omega)
        exact Nat.le_trans this (Nat.le_max_left _ _)
    · by_cases hmax : runCost (c :: rd) 0 (i + 1) ≤ costOf.getD i 0
      · refine ⟨j0 + 1, by simp only [List.length_cons]; omega, ?_⟩
        rw [runCost_cons_succ, Nat.max_eq_left hmax]
        exact hatt
      · refine ⟨0, by simp only [List.length_cons]; omega, ?_⟩
        rw [Nat.max_eq_right (by omega)]
  · rw [if_neg hic]
    constructor
    · intro j hj
      simp only [List.length_cons] at hj
      have : j = 0 := by omega
      subst this
      exact Nat.le_refl _
    · exact ⟨0, by simp only [List.length_cons]; omega, rfl⟩

theorem take_cons_take (p : Nat) (t : Nat) (rd : List Nat) :
    (t :: rd.take p).take p = (t :: rd).take p := by
  cases p with
  | zero => rfl
  | succ p =>
    rw [List.take_succ_cons, List.take_succ_cons, List.take_take]
    congr 2
    omega

/-- the sliding window, read backwards, is the `maxN` most recent costs -/
theorem window_step (maxN : Nat) (rd window : List Nat) (c : Nat)
    (hw : window.reverse = rd.take maxN) :
    (if (window ++ [c]).length > maxN then (window ++ [c]).drop 1 else window ++ [c]).reverse
      = (c :: rd).take maxN := by
  have hl : window.length = min maxN rd.length := by
    have := congrArg List.length hw
    rw [List.length_reverse, List.length_take] at this
    exact this
  have hr : (window ++ [c]).reverse = c :: rd.take maxN := by
    rw [List.reverse_append, hw]; rfl
  have hl1 : (window ++ [c]).length = window.length + 1 := by simp
  by_cases hgt : (window ++ [c]).length > maxN
  · rw [if_pos hgt, List.reverse_drop, hr, hl1]
    have e : window.length + 1 - 1 = maxN := by omega
    rw [e, take_cons_take]
  · rw [if_neg hgt, hr]
    have hlt : rd.length < maxN := by omega
    obtain ⟨p, hp⟩ : ∃ p, maxN = p + 1 := ⟨maxN - 1, by omega⟩
    rw [hp, List.take_succ_cons, List.take_of_length_le (by omega), List.take_of_length_le (by omega)]

theorem aux_inv (maxN : Nat) : ∀ (rest rd costOf window : List Nat),
    window.reverse = rd.take maxN → RInv maxN rd costOf →
    RInv maxN (rest.reverse ++ rd) (costFromTraceAux maxN rest costOf window) := by
  intro rest
  induction rest with
  | nil => intro rd costOf window _ h; simpa [costFromTraceAux] using h
  | cons c cs ih =>
    intro rd costOf window hw h
    simp only [costFromTraceAux]
    rw [List.reverse_cons, List.append_assoc, List.singleton_append]
    have hw2 := window_step maxN rd window c hw
    apply ih (c :: rd) _ _ hw2
    unfold costTraceUpdate
    rw [hw2]
    exact rinv_step maxN rd costOf c h

/-- `from_trace` in terms of the reversed trace -/
theorem fromTrace_rinv (tr : List Nat) (maxN : Nat) :
    RInv maxN tr.reverse (costFromTrace tr maxN) := by
  have h0 : RInv maxN [] [] := ⟨by simp, fun k hk => by simp at hk⟩
  have h := aux_inv maxN tr [] [] [] (by simp) h0
  rw [List.append_nil] at h
  exact h

theorem sorted_of_adjacent (l : List Nat)
    (h : ∀ k, k + 1 < l.length → l.getD k 0 ≤ l.getD (k + 1) 0) : l.Pairwise (· ≤ ·) := by
  apply sorted_of_getD
  intro i j hij hj
  induction hij with
  | refl => exact Nat.le_refl _
  | step hle ih =>
    have hle' : i ≤ _ := hle
    exact Nat.le_trans (ih (by omega)) (h _ hj)

/-- block decomposition of a run against a vector bounding the runs up to its length -/
theorem blocks_bound (w tr : List Nat)
    (hb : ∀ s n, 1 ≤ n → n ≤ w.length → s + n ≤ tr.length → runCost tr s n ≤ w.getD (n - 1) 0)
    (hpos : 0 < w.length) (y : Nat) (hy : y < w.length) : ∀ (x s : Nat),
    s + (x * w.length + y) ≤ tr.length →
    runCost tr s (x * w.length + y) ≤
      x * w.getD (w.length - 1) 0 + (if y > 0 then w.getD (y - 1) 0 else 0) := by
  intro x
  induction x with
  | zero =>
    intro s hs
    rw [Nat.zero_mul, Nat.zero_add] at hs ⊢
    rw [Nat.zero_mul, Nat.zero_add]
    by_cases hy0 : y > 0
    · rw [if_pos hy0]; exact hb s y hy0 (by omega) hs
    · have : y = 0 := by omega
      subst this
      rw [runCost_zero]; exact Nat.zero_le _
  | succ x ih =>
    intro s hs
    have e : (x + 1) * w.length + y = w.length + (x * w.length + y) := by
      rw [Nat.add_mul]; omega
    rw [e] at hs ⊢
    rw [runCost_add, Nat.add_mul, Nat.one_mul]
    have h1 := hb s w.length hpos (Nat.le_refl _) (by omega)
    have h2 := ih (s + w.length) (by omega)
    generalize x * w.length + y = m at *
    omega

theorem curve_bounds_of (w tr : List Nat) (hne : w ≠ [])
    (hb : ∀ s n, 1 ≤ n → n ≤ w.length → s + n ≤ tr.length → runCost tr s n ≤ w.getD (n - 1) 0)
    (s n : Nat) (hrun : s + n ≤ tr.length) : runCost tr s n ≤ costCurveOf w n := by
  have hpos : 0 < w.length := List.length_pos_iff.2 hne
  have hy : n % w.length < w.length := Nat.mod_lt _ hpos
  have hn : n = (n / w.length) * w.length + n % w.length := by
    rw [Nat.mul_comm]; exact (Nat.div_add_mod n w.length).symm
  generalize n / w.length = x at hn
  generalize n % w.length = y at hn hy
  subst hn
  rw [costCurveOf_eq w hne x y hy]
  exact blocks_bound w tr hb hpos y hy x s hrun

end CostTraceLemmas
open CostTraceLemmas CostLemmas

/-- `from_trace` records, for every `i < min max_n len`, the maximum total cost over all
runs of `i + 1` consecutive jobs of the trace -/
theorem costFromTrace_spec (tr : List Nat) (maxN : Nat) :
    (costFromTrace tr maxN).length = min maxN tr.length ∧
    ∀ i, i < (costFromTrace tr maxN).length →
      (∀ s, s + (i + 1) ≤ tr.length → runCost tr s (i + 1) ≤ (costFromTrace tr maxN).getD i 0) ∧
      (∃ s, s + (i + 1) ≤ tr.length ∧ runCost tr s (i + 1) = (costFromTrace tr maxN).getD i 0) := by
  obtain ⟨hlen, hk⟩ := fromTrace_rinv tr maxN
  rw [List.length_reverse] at hlen hk
  refine ⟨hlen, fun i hi => ?_⟩
  obtain ⟨hub, j0, hj0, hatt⟩ := hk i hi
  constructor
  · intro s hs
    have := hub (tr.length - s - (i + 1)) (by omega)
    rw [runCost_reverse tr s (i + 1) hs] at this
    exact this
  · refine ⟨tr.length - j0 - (i + 1), by omega, ?_⟩
    have e := runCost_reverse tr (tr.length - j0 - (i + 1)) (i + 1) (by omega)
    have e2 : tr.length - (tr.length - j0 - (i + 1)) - (i + 1) = j0 := by omega
    rw [e2] at e
    rw [← e]
    exact hatt

/-- the recorded vector is non-decreasing -/
theorem costFromTrace_sorted (tr : List Nat) (maxN : Nat) :
    (costFromTrace tr maxN).Pairwise (· ≤ ·) := by
  apply sorted_of_adjacent
  intro k hk
  obtain ⟨hlen, hspec⟩ := costFromTrace_spec tr maxN
  obtain ⟨s, hs, hatt⟩ := (hspec k (by omega)).2
  have hub := (hspec (k + 1) hk).1
  rw [← hatt]
  by_cases hr : s + (k + 1 + 1) ≤ tr.length
  · have h1 := hub s hr
    rw [runCost_add tr s (k + 1) 1] at h1
    omega
  · have hs1 : 1 ≤ s := by omega
    have h1 := hub (s - 1) (by omega)
    have e : k + 1 + 1 = 1 + (k + 1) := by omega
    rw [e, runCost_add tr (s - 1) 1 (k + 1)] at h1
    have e2 : s - 1 + 1 = s := by omega
    rw [e2] at h1
    omega

/-- C14: the inferred curve bounds the total cost of EVERY run of `n` consecutive jobs of
the trace, for every `n` (also beyond the recorded prefix `max_n`) -/
theorem costFromTrace_bounds (tr : List Nat) (maxN : Nat) (hm : 1 ≤ maxN) (s n : Nat)
    (hrun : s + n ≤ tr.length) :
    runCost tr s n ≤ costCurveOf (costFromTrace tr maxN) n := by
  obtain ⟨hlen, hspec⟩ := costFromTrace_spec tr maxN
  by_cases htr : tr.length = 0
  · have : n = 0 := by omega
    subst this
    rw [runCost_zero]; exact Nat.zero_le _
  · have hne : costFromTrace tr maxN ≠ [] := by
      intro h
      rw [h] at hlen
      simp only [List.length_nil] at hlen
      omega
    apply curve_bounds_of _ tr hne _ s n hrun
    intro s' n' h1 h2 h3
    have := (hspec (n' - 1) (by omega)).1 s' (by omega)
    have e : n' - 1 + 1 = n' := by omega
    rw [e] at this
    exact this

/-- a cumulative vector bounds the runs of a trace up to its length -/
def BoundsRuns (w tr : List Nat) : Prop :=
  ∀ s n, 1 ≤ n → n ≤ w.length → s + n ≤ tr.length → runCost tr s n ≤ w.getD (n - 1) 0

/-- extrapolation keeps dominating the trace: if `w` bounds all runs up to its length, so
does every extrapolation of `w` (at least three samples) -/
theorem costIterExt_boundsRuns (w tr : List Nat) (h3 : 3 ≤ w.length) (hb : BoundsRuns w tr) (k : Nat) :
    BoundsRuns (costIterExt w k) tr := by
  induction k with
  | zero => exact hb
  | succ k ih =>
    have hlen := costIterExt_length w k
    intro s n hn1 hn hrun
    rw [costIterExt_length] at hn
    rw [costIterExt]
    by_cases hlt : n ≤ w.length + k
    · rw [getD_append_left (by omega)]
      exact ih s n hn1 (by omega) hrun
    · have hn' : n - 1 = (costIterExt w k).length := by omega
      rw [hn', getD_append_last]
      obtain ⟨⟨c, hc, he⟩, _⟩ := costExtrapolateNext_spec (costIterExt w k)
      rw [he, hlen]
      rw [hlen] at hc
      have e : n = (c + 1) + (w.length + k - c) := by omega
      have h1 := ih s (c + 1) (by omega) (by omega) (by omega)
      have h2 := ih (s + (c + 1)) (w.length + k - c) (by omega) (by omega) (by omega)
      rw [Nat.add_sub_cancel] at h1
      rw [e, runCost_add]
      omega

/-- … hence the (partially or fully) extrapolated curve bounds every run of every length -/
theorem costCurveOf_boundsRuns (w tr : List Nat) (hne : w ≠ []) (hb : BoundsRuns w tr) (s n : Nat)
    (hrun : s + n ≤ tr.length) : runCost tr s n ≤ costCurveOf w n :=
  curve_bounds_of w tr hne hb s n hrun

end RTA
