import RTA.Lemmas.TightExistsFP
/-! C18, existential form for fully NON-preemptive fixed priority (priorities = task indices),
sporadic tasks with release jitter and a blocking bound `B`: there IS a job set — the tasks
`0 … i` at their critical instant plus, if `B > 0`, one lower-priority job of cost `B + 1`
released one slot earlier — and a legal non-preemptive FP schedule of it in which some job of
task `i` has a response time exactly equal to the bound. -/

open Finset

namespace RTA.Sched
open RTA RTA.Spec

/-- the system consisting of a job set and a schedule in which every job, once started, is
non-preemptable until it completes -/
def JobSet.withSchedNP (js : JobSet) (sched : ℕ → Option ℕ) : Sys :=
  { n := js.n, task := js.task, arr := js.arr, cost := js.cost,
    np := fun k x => 1 ≤ x ∧ x < js.cost k, sched := sched }

namespace TightExistsNPLemmas
open TightExistsFPLemmas TightExistsLemmas TightFPLemmas TightLemmas FifoSoundLemmas FpSoundLemmas
  RTA.PruneCoreLemmas RTA.PruneFPLemmas

/-! ### the greedy non-preemptive fixed-priority scheduler -/

/-- the decision of the scheduler: continue the job served last if it is started and
incomplete, otherwise pick the pending job with the least key -/
def chooseNP (js : JobSet) (σ : ℕ → ℕ) (last : Option ℕ) (t : ℕ) : Option ℕ :=
  match last with
  | some j => if 1 ≤ σ j ∧ σ j < js.cost j then some j
      else pickUpTo (key js) (pend js σ t) js.n
  | none => pickUpTo (key js) (pend js σ t) js.n

/-- state of the scheduler at time `t`: service vector and job served in slot `t - 1` -/
def stNP (js : JobSet) : ℕ → (ℕ → ℕ) × Option ℕ
  | 0 => (fun _ => 0, none)
  | t + 1 =>
    (fun k => (stNP js t).1 k +
        if chooseNP js (stNP js t).1 (stNP js t).2 t = some k then 1 else 0,
      chooseNP js (stNP js t).1 (stNP js t).2 t)

/-- the greedy non-preemptive FP scheduler -/
def gschedNP (js : JobSet) (t : ℕ) : Option ℕ := chooseNP js (stNP js t).1 (stNP js t).2 t

theorem stNP_last (js : JobSet) (t : ℕ) : (stNP js (t + 1)).2 = gschedNP js t := rfl

theorem svc_gschedNP (js : JobSet) (k : ℕ) :
    ∀ t, svc (js.withSchedNP (gschedNP js)) k t = (stNP js t).1 k := by
  intro t
  induction t with
  | zero => rfl
  | succ t ih =>
    show svc (js.withSchedNP (gschedNP js)) k t + (if gschedNP js t = some k then 1 else 0)
      = (stNP js t).1 k + (if gschedNP js t = some k then 1 else 0)
    rw [ih]

theorem pending_gschedNP (js : JobSet) (k t : ℕ) :
    Pending (js.withSchedNP (gschedNP js)) k t ↔ pend js (stNP js t).1 t k = true := by
  unfold Pending
  rw [svc_gschedNP]
  simp [pend, JobSet.withSchedNP]

/-- the scheduler either continues the job served in the previous slot or picks -/
theorem gschedNP_cases (js : JobSet) (t : ℕ) :
    (∃ t' j, t = t' + 1 ∧ gschedNP js t' = some j ∧ gschedNP js t = some j ∧
      1 ≤ (stNP js t).1 j ∧ (stNP js t).1 j < js.cost j) ∨
    gschedNP js t = pickUpTo (key js) (pend js (stNP js t).1 t) js.n := by
  cases t with
  | zero => right; rfl
  | succ t' =>
    unfold gschedNP
    rw [stNP_last]
    cases hg : gschedNP js t' with
    | none => right; rfl
    | some j =>
      simp only [chooseNP]
      by_cases hc : 1 ≤ (stNP js (t' + 1)).1 j ∧ (stNP js (t' + 1)).1 j < js.cost j
      · left
        refine ⟨t', j, rfl, hg, ?_, hc.1, hc.2⟩
        rw [if_pos hc]
      · right
        rw [if_neg hc]

theorem gschedNP_valid (js : JobSet) : ∀ t j, gschedNP js t = some j →
    j < js.n ∧ Pending (js.withSchedNP (gschedNP js)) j t := by
  intro t
  induction t with
  | zero =>
    intro j h
    have h' : pickUpTo (key js) (pend js (stNP js 0).1 0) js.n = some j := h
    rcases pick_spec (key js) (pend js (stNP js 0).1 0) js.n with ⟨hn, _⟩ | ⟨j', hj', hlt, hp, _⟩
    · rw [hn] at h'; cases h'
    · rw [hj'] at h'
      cases h'
      exact ⟨hlt, (pending_gschedNP js _ 0).2 hp⟩
  | succ t ih =>
    intro j h
    rcases gschedNP_cases js (t + 1) with ⟨t', j', ht', hprev, hcur, h1, h2⟩ | hpick
    · have e : t' = t := by omega
      subst e
      rw [hcur] at h
      cases h
      obtain ⟨hlt, hp⟩ := ih j hprev
      refine ⟨hlt, ?_⟩
      have ha : js.arr j ≤ t' := hp.1
      unfold Pending
      rw [svc_gschedNP]
      exact ⟨by show js.arr j ≤ t' + 1; omega, h2⟩
    · rw [hpick] at h
      rcases pick_spec (key js) (pend js (stNP js (t + 1)).1 (t + 1)) js.n with
        ⟨hn, _⟩ | ⟨j', hj', hlt, hp, _⟩
      · rw [hn] at h; cases h
      · rw [hj'] at h
        cases h
        exact ⟨hlt, (pending_gschedNP js _ (t + 1)).2 hp⟩


end TightExistsNPLemmas
open TightExistsNPLemmas TightExistsFPLemmas TightExistsLemmas TightFPLemmas TightLemmas
  FifoSoundLemmas FpSoundLemmas

/-- every job set has a legal fully non-preemptive fixed-priority schedule -/
theorem exists_fp_nonpreemptive_schedule (js : JobSet) (hpos : ∀ k, k < js.n → 1 ≤ js.cost k) :
    ∃ sched, JlfpLegal (js.withSchedNP sched) (hepFP (js.withSchedNP sched) id) := by
  have _ := hpos
  refine ⟨gschedNP js, ⟨⟨gschedNP_valid js, ?_⟩, ?_, ?_⟩⟩
  · rintro t ⟨k, hk, hpk⟩
    have hk' : k < js.n := hk
    rcases gschedNP_cases js t with ⟨t', j', _, _, hcur, _, _⟩ | hpick
    · exact ⟨j', hcur⟩
    · rcases pick_spec (key js) (pend js (stNP js t).1 t) js.n with ⟨_, hall⟩ | ⟨j', hj', _, _, _⟩
      · have := (pending_gschedNP js k t).1 hpk
        rw [hall k hk'] at this
        cases this
      · exact ⟨j', by show gschedNP js t = some j'; rw [hpick]; exact hj'⟩
  · intro t k hs hlt hnp
    have hs' : gschedNP js t = some k := hs
    rw [svc_gschedNP] at hnp hlt
    show gschedNP js (t + 1) = some k
    unfold gschedNP
    rw [stNP_last, hs']
    simp only [chooseNP]
    rw [if_pos ⟨hnp.1, hlt⟩]
  · intro t j h
    have h' : gschedNP js t = some j := h
    rcases gschedNP_cases js t with ⟨t', j', ht', hprev, hcur, h1, h2⟩ | hpick
    · left
      rw [hcur] at h'
      cases h'
      refine ⟨t', ht', hprev, ?_⟩
      show 1 ≤ svc (js.withSchedNP (gschedNP js)) j t ∧ svc (js.withSchedNP (gschedNP js)) j t < js.cost j
      rw [svc_gschedNP]
      exact ⟨h1, h2⟩
    · right
      intro k hk hpk
      have hk' : k < js.n := hk
      rw [hpick] at h'
      rcases pick_spec (key js) (pend js (stNP js t).1 t) js.n with ⟨hn, _⟩ | ⟨j', hj', hlt, _, hmin⟩
      · rw [hn] at h'; cases h'
      · rw [hj'] at h'
        cases h'
        exact key_le js j k hk' (hmin k hk' ((pending_gschedNP js k t).1 hpk))

namespace TightExistsNPLemmas
open TightExistsFPLemmas TightExistsLemmas TightFPLemmas TightLemmas FifoSoundLemmas FpSoundLemmas
  RTA.PruneCoreLemmas RTA.PruneFPLemmas

/-! ### job sets built from blocks, with release times -/

theorem mem_jobsFrom' (j : ℕ × ℕ × ℕ) : ∀ (bs : List (List ℕ × ℕ)) (i0 : ℕ), j ∈ jobsFrom i0 bs →
    ∃ k, ∃ h : k < bs.length, j.1 = i0 + k ∧ j.2.1 ∈ (bs[k]).1 ∧ j.2.2 = (bs[k]).2 := by
  intro bs
  induction bs with
  | nil => intro i0 h; simp [jobsFrom] at h
  | cons b bs ih =>
    intro i0 h
    rw [jobsFrom, List.mem_append] at h
    rcases h with h | h
    · obtain ⟨r, hr, rfl⟩ := List.mem_map.1 h
      exact ⟨0, by simp, rfl, by simpa using hr, rfl⟩
    · obtain ⟨k, hk, h1, h2, h3⟩ := ih (i0 + 1) h
      refine ⟨k + 1, by simpa using hk, by omega, ?_, ?_⟩
      · simpa using h2
      · simpa using h3

theorem jobsFrom_mem : ∀ (bs : List (List ℕ × ℕ)) (i0 k : ℕ) (h : k < bs.length) (r : ℕ),
    r ∈ (bs[k]).1 → (i0 + k, r, (bs[k]).2) ∈ jobsFrom i0 bs := by
  intro bs
  induction bs with
  | nil => intro i0 k h; simp at h
  | cons b bs ih =>
    intro i0 k h r hr
    rw [jobsFrom, List.mem_append]
    cases k with
    | zero =>
      left
      simp only [List.getElem_cons_zero] at hr ⊢
      exact List.mem_map.2 ⟨r, hr, rfl⟩
    | succ k =>
      right
      have h' : k < bs.length := by simpa using h
      simp only [List.getElem_cons_succ] at hr ⊢
      have := ih (i0 + 1) k h' r hr
      have e : i0 + (k + 1) = i0 + 1 + k := by omega
      rw [e]
      exact this

/-- the job set of a list of blocks -/
def jobSetB (bs : List (List ℕ × ℕ)) : JobSet := mkJobSet (jobsFrom 0 bs)

theorem job_infoB (bs : List (List ℕ × ℕ)) (k : ℕ) (hk : k < (jobSetB bs).n) :
    ∃ h : (jobSetB bs).task k < bs.length,
      (jobSetB bs).arr k ∈ (bs[(jobSetB bs).task k]).1 ∧
      (jobSetB bs).cost k = (bs[(jobSetB bs).task k]).2 := by
  have hk' : k < (jobsFrom 0 bs).length := hk
  have hmem : (jobsFrom 0 bs).getD k (0, 0, 0) ∈ jobsFrom 0 bs := by
    rw [getD_eq_getElem' _ _ _ hk']; exact List.getElem_mem hk'
  obtain ⟨i, hi, e1, e2, e3⟩ := mem_jobsFrom' _ _ _ hmem
  rw [Nat.zero_add] at e1
  have e1' : (jobSetB bs).task k = i := e1
  refine ⟨by rw [e1']; exact hi, ?_, ?_⟩
  · show ((jobsFrom 0 bs).getD k (0, 0, 0)).2.1 ∈ _
    simp only [e1']; exact e2
  · show ((jobsFrom 0 bs).getD k (0, 0, 0)).2.2 = _
    simp only [e1']; exact e3

theorem job_existsB (bs : List (List ℕ × ℕ)) (i : ℕ) (hi : i < bs.length) (r : ℕ)
    (hr : r ∈ (bs[i]).1) : ∃ k, k < (jobSetB bs).n ∧ (jobSetB bs).task k = i := by
  have h := jobsFrom_mem bs 0 i hi r hr
  obtain ⟨k, hk, e⟩ := List.getElem_of_mem h
  refine ⟨k, hk, ?_⟩
  show ((jobsFrom 0 bs).getD k (0, 0, 0)).1 = i
  rw [getD_eq_getElem' _ _ _ hk, e]
  simp

theorem relsB (bs : List (List ℕ × ℕ)) (sched : ℕ → Option ℕ) (i : ℕ) (hi : i < bs.length) :
    relsOf ((jobSetB bs).withSchedNP sched) i = (bs[i]).1 := by
  show relsOf ((mkJobSet (jobsFrom 0 bs)).withSched sched) i = _
  have := filter_jobsFrom bs 0 i hi
  rw [Nat.zero_add] at this
  rw [relsOf_mk, this, List.map_map]
  simp [Function.comp_def]

/-- the blocks of the critical-instant job set plus, if `B > 0`, one lower-priority job of
cost `B + 1` released at `t₀ - 1` -/
def bsNP (ts : List (ℕ × ℕ × ℕ)) (L t₀ B : ℕ) : List (List ℕ × ℕ) :=
  blocks ts L t₀ ++ (if B = 0 then [] else [([t₀ - 1], B + 1)])

theorem bsNP_lt (ts : List (ℕ × ℕ × ℕ)) (L t₀ B k : ℕ) (hk : k < ts.length) :
    ∃ h : k < (bsNP ts L t₀ B).length, (bsNP ts L t₀ B)[k]
      = (criticalInstantAt (ts[k]).1 (ts[k]).2.1 ((Arr.sporadic (ts[k]).1 (ts[k]).2.1).N L) t₀,
          (ts[k]).2.2) := by
  have hblen : (blocks ts L t₀).length = ts.length := by simp [blocks]
  refine ⟨by unfold bsNP; rw [List.length_append, hblen]; omega, ?_⟩
  unfold bsNP
  rw [List.getElem_append_left (by rw [hblen]; exact hk)]
  simp only [blocks, List.getElem_map]

theorem bsNP_ge (ts : List (ℕ × ℕ × ℕ)) (L t₀ B k : ℕ) (h : k < (bsNP ts L t₀ B).length)
    (hk : ts.length ≤ k) :
    B ≠ 0 ∧ k = ts.length ∧ (bsNP ts L t₀ B)[k] = ([t₀ - 1], B + 1) := by
  have hblen : (blocks ts L t₀).length = ts.length := by simp [blocks]
  by_cases hB : B = 0
  · exfalso
    unfold bsNP at h
    rw [if_pos hB, List.append_nil, hblen] at h
    omega
  · have hlen : (bsNP ts L t₀ B).length = ts.length + 1 := by
      unfold bsNP
      rw [if_neg hB, List.length_append, hblen]; rfl
    have hk' : k = ts.length := by omega
    refine ⟨hB, hk', ?_⟩
    subst hk'
    have e : bsNP ts L t₀ B = blocks ts L t₀ ++ [([t₀ - 1], B + 1)] := by
      unfold bsNP; rw [if_neg hB]
    have e2 : ∀ (l : List (List ℕ × ℕ)) (h' : ts.length < l.length),
        l = blocks ts L t₀ ++ [([t₀ - 1], B + 1)] → l[ts.length] = ([t₀ - 1], B + 1) := by
      intro l h' hl
      subst hl
      rw [List.getElem_append_right (Nat.le_of_eq hblen)]
      simp [hblen]
    exact e2 _ h e

theorem bsNP_len (ts : List (ℕ × ℕ × ℕ)) (L t₀ B : ℕ) (hB : B ≠ 0) :
    ∃ h : ts.length < (bsNP ts L t₀ B).length,
      (bsNP ts L t₀ B)[ts.length] = ([t₀ - 1], B + 1) := by
  have hblen : (blocks ts L t₀).length = ts.length := by simp [blocks]
  have hlen : ts.length < (bsNP ts L t₀ B).length := by
    unfold bsNP
    rw [if_neg hB, List.length_append, hblen]; simp
  exact ⟨hlen, (bsNP_ge ts L t₀ B ts.length hlen (le_refl _)).2.2⟩

/-- jobs of one task are numbered in release order (per task) -/
theorem ordered_of_sorted_task (s : Sys) (k : ℕ) (hs : (relsOf s k).Pairwise (· ≤ ·)) :
    ∀ a b, a < s.n → b < s.n → s.task a = k → s.task b = k → a ≤ b → s.arr a ≤ s.arr b := by
  intro a b ha hb hak hbk hle
  rcases Nat.eq_or_lt_of_le hle with rfl | hlt
  · exact le_refl _
  have h := hs
  unfold relsOf at h
  rw [List.pairwise_map] at h
  have h2 : ((List.range s.n).filter (fun j => decide (s.task j = k))).Pairwise (· < ·) :=
    List.Pairwise.filter _ List.pairwise_lt_range
  have h3 := List.Pairwise.and h2 h
  apply pairwise_lt_rel (fun x y => s.arr x ≤ s.arr y) _ h3 a _ b _ hlt
  · simp [ha, hak]
  · simp [hb, hbk]


/-- the statement for a task list whose LAST task is the analysed one -/
theorem coreNP (ts : List (ℕ × ℕ × ℕ)) (i : ℕ) (hlen : ts.length = i + 1) (B : ℕ)
    (hwf : ∀ p ∈ ts, 1 ≤ p.1 ∧ 1 ≤ p.2.2) (limit R : ℕ)
    (hR : fpNonpreemptive (.sporadic (ts.getD i default).1 (ts.getD i default).2.1)
      (ts.getD i default).2.2 B
      ((ts.take i).map fun p => RB.rbf (.sporadic p.1 p.2.1) (.scalar p.2.2)) limit = .ok R)
    (hRpos : 0 < R) :
    ∃ s : Sys, JlfpLegal s (hepFP s id) ∧
      (∀ l, l < s.n → ∀ x, 1 ≤ x → x < s.cost l → s.np l x) ∧
      (∀ k, k ≤ i → TaskCompliant s k (.sporadic (ts.getD k default).1 (ts.getD k default).2.1)
          (.scalar (ts.getD k default).2.2)) ∧
      (∀ l, l < s.n → i < s.task l → s.cost l ≤ B + 1) ∧
      ∃ j, j < s.n ∧ s.task j = i ∧ MeetsBound s j R ∧ ∀ R', R' < R → ¬ MeetsBound s j R' := by
  have hi : i < ts.length := by omega
  rw [getD_eq_getElem' ts i default hi] at hR
  have hmap : ((ts.take i).map fun p => RB.rbf (.sporadic p.1 p.2.1) (.scalar p.2.2))
      = ((ts.take i).map fun p => (Arr.sporadic p.1 p.2.1, p.2.2)).map
          fun p => RB.rbf p.1 (.scalar p.2) := by
    rw [List.map_map]; rfl
  rw [hmap] at hR
  have hhplen : ((ts.take i).map fun p => (Arr.sporadic p.1 p.2.1, p.2.2)).length = i := by
    rw [List.length_map, List.length_take]; omega
  have hhpget : ∀ k (hk : k < i), ((ts.take i).map fun p => (Arr.sporadic p.1 p.2.1, p.2.2)).getD k default
      = (Arr.sporadic (ts[k]'(Nat.lt_trans hk hi)).1 (ts[k]'(Nat.lt_trans hk hi)).2.1,
          (ts[k]'(Nat.lt_trans hk hi)).2.2) := by
    intro k hk
    rw [getD_eq_getElem' _ _ _ (by rw [hhplen]; exact hk)]
    simp
  have hwfo : ∀ p ∈ ((ts.take i).map fun p => (Arr.sporadic p.1 p.2.1, p.2.2)),
      p.1.WF ∧ p.1.Exact ∧ 1 ≤ p.2 := by
    intro p hp'
    obtain ⟨q, hq, rfl⟩ := List.mem_map.1 hp'
    have := hwf q (List.mem_of_mem_take hq)
    exact ⟨this.1, trivial, this.2⟩
  generalize ((ts.take i).map fun p => (Arr.sporadic p.1 p.2.1, p.2.2)) = hp
    at hR hhplen hhpget hwfo
  have hTi := (hwf _ (List.getElem_mem hi)).1
  have hCi := (hwf _ (List.getElem_mem hi)).2
  have hwf' : (RB.rbf (.sporadic (ts[i]).1 (ts[i]).2.1) (.scalar (ts[i]).2.2)).ArrWF := by
    simp only [RB.ArrWF]; exact hTi
  have hex' : (RB.rbf (.sporadic (ts[i]).1 (ts[i]).2.1) (.scalar (ts[i]).2.2)).Exact := by
    simp only [RB.Exact]; exact ⟨trivial, Cost.scalar_strictPos _ hCi⟩
  have ho : OthersOK (hp.map fun p => RB.rbf p.1 (.scalar p.2)) := by
    intro o hoo
    obtain ⟨q, hq, rfl⟩ := List.mem_map.1 hoo
    obtain ⟨h1, h2, h3⟩ := hwfo q hq
    constructor
    · simp only [RB.ArrWF]; exact h1
    · simp only [RB.Exact]; exact ⟨h2, Cost.scalar_strictPos _ h3⟩
  have hCn : ¬ (ts[i]).2.2 < 1 := by omega
  have hlim : 1 ≤ limit := by
    rcases Nat.eq_zero_or_pos limit with h0 | h
    · subst h0
      unfold fpNonpreemptive at hR
      rw [decide_eq_false hCn, fpCore_eq, search_limit_zero] at hR
      cases hR
    · exact h
  obtain ⟨L, hL⟩ : ∃ L, naiveSolve (fun x => B + sumNeed (hp.map fun p => RB.rbf p.1 (.scalar p.2)) x +
      (RB.rbf (.sporadic (ts[i]).1 (ts[i]).2.1) (.scalar (ts[i]).2.2)).need x) limit = .ok L := by
    rcases naiveSolve_cases (fun x => B + sumNeed (hp.map fun p => RB.rbf p.1 (.scalar p.2)) x +
      (RB.rbf (.sporadic (ts[i]).1 (ts[i]).2.1) (.scalar (ts[i]).2.2)).need x) limit with h | h
    · exact h
    · unfold fpNonpreemptive at hR
      rw [decide_eq_false hCn, fpCore_eq, search_dedicated_eq_naive _
        (outer_mono _ _ B hwf' hex' ho) limit hlim, h] at hR
      cases hR
  -- the job set
  obtain ⟨t₀, ht₀1, ht₀⟩ : ∃ t₀, 1 ≤ t₀ ∧ ∀ p ∈ ts, p.2.1 ≤ t₀ :=
    ⟨maxList (ts.map fun p => p.2.1) + 1, by omega, fun p hp => by
      have : p.2.1 ≤ maxList (ts.map fun p => p.2.1) :=
        mem_le_maxList _ _ (List.mem_map.2 ⟨p, hp, rfl⟩)
      omega⟩
  have hinfo : ∀ k, k < (jobSetB (bsNP ts L t₀ B)).n →
      (∃ h : (jobSetB (bsNP ts L t₀ B)).task k < ts.length,
        t₀ ≤ (jobSetB (bsNP ts L t₀ B)).arr k ∧
        (jobSetB (bsNP ts L t₀ B)).cost k = (ts[(jobSetB (bsNP ts L t₀ B)).task k]).2.2) ∨
      ((jobSetB (bsNP ts L t₀ B)).task k = ts.length ∧
        (jobSetB (bsNP ts L t₀ B)).arr k = t₀ - 1 ∧
        (jobSetB (bsNP ts L t₀ B)).cost k = B + 1 ∧ B ≠ 0) := by
    intro k hk
    obtain ⟨h1, h2, h3⟩ := job_infoB (bsNP ts L t₀ B) k hk
    generalize (jobSetB (bsNP ts L t₀ B)).task k = tk at h1 h2 h3
    generalize (jobSetB (bsNP ts L t₀ B)).arr k = ak at h2
    generalize (jobSetB (bsNP ts L t₀ B)).cost k = ck at h3
    rcases Nat.lt_or_ge tk ts.length with hlt | hge
    · left
      obtain ⟨_, e⟩ := bsNP_lt ts L t₀ B tk hlt
      rw [e] at h2 h3
      refine ⟨hlt, ?_, h3⟩
      exact (criticalInstantAt_realisesFrom _ _ _ L _ (hwf _ (List.getElem_mem hlt)).1
        (ht₀ _ (List.getElem_mem hlt)) (le_refl _)).1 ak h2
    · right
      obtain ⟨hB, e1, e2⟩ := bsNP_ge ts L t₀ B tk h1 hge
      rw [e2] at h2 h3
      exact ⟨e1, by simpa using h2, h3, hB⟩
  have hpos : ∀ k, k < (jobSetB (bsNP ts L t₀ B)).n → 1 ≤ (jobSetB (bsNP ts L t₀ B)).cost k := by
    intro k hk
    rcases hinfo k hk with ⟨h1, _, h2⟩ | ⟨_, _, h2, _⟩
    · rw [h2]; exact (hwf _ (List.getElem_mem h1)).2
    · rw [h2]; omega
  obtain ⟨sched, hl⟩ := exists_fp_nonpreemptive_schedule (jobSetB (bsNP ts L t₀ B)) hpos
  have hri : ∀ k (hk : k < ts.length), relsOf ((jobSetB (bsNP ts L t₀ B)).withSchedNP sched) k
      = criticalInstantAt (ts[k]).1 (ts[k]).2.1 ((Arr.sporadic (ts[k]).1 (ts[k]).2.1).N L) t₀ := by
    intro k hk
    obtain ⟨h, e⟩ := bsNP_lt ts L t₀ B k hk
    rw [relsB _ sched k h, e]
  have hexb : B ≠ 0 → ∃ b, b < ((jobSetB (bsNP ts L t₀ B)).withSchedNP sched).n ∧
      ((jobSetB (bsNP ts L t₀ B)).withSchedNP sched).task b = ts.length := by
    intro hB
    obtain ⟨h, e⟩ := bsNP_len ts L t₀ B hB
    exact job_existsB (bsNP ts L t₀ B) ts.length h (t₀ - 1) (by rw [e]; simp)
  have hinfo' : ∀ k, k < ((jobSetB (bsNP ts L t₀ B)).withSchedNP sched).n →
      (∃ h : ((jobSetB (bsNP ts L t₀ B)).withSchedNP sched).task k < ts.length,
        t₀ ≤ ((jobSetB (bsNP ts L t₀ B)).withSchedNP sched).arr k ∧
        ((jobSetB (bsNP ts L t₀ B)).withSchedNP sched).cost k
          = (ts[((jobSetB (bsNP ts L t₀ B)).withSchedNP sched).task k]).2.2) ∨
      (((jobSetB (bsNP ts L t₀ B)).withSchedNP sched).task k = ts.length ∧
        ((jobSetB (bsNP ts L t₀ B)).withSchedNP sched).arr k = t₀ - 1 ∧
        ((jobSetB (bsNP ts L t₀ B)).withSchedNP sched).cost k = B + 1 ∧ B ≠ 0) := hinfo
  have hpos' : ∀ k, k < ((jobSetB (bsNP ts L t₀ B)).withSchedNP sched).n →
      1 ≤ ((jobSetB (bsNP ts L t₀ B)).withSchedNP sched).cost k := hpos
  have hnpall : ∀ l, l < ((jobSetB (bsNP ts L t₀ B)).withSchedNP sched).n → ∀ x, 1 ≤ x →
      x < ((jobSetB (bsNP ts L t₀ B)).withSchedNP sched).cost l →
      ((jobSetB (bsNP ts L t₀ B)).withSchedNP sched).np l x := fun _ _ _ h1 h2 => ⟨h1, h2⟩
  have hnpdef : ∀ l x, ((jobSetB (bsNP ts L t₀ B)).withSchedNP sched).np l x →
      1 ≤ x ∧ x < ((jobSetB (bsNP ts L t₀ B)).withSchedNP sched).cost l := fun _ _ h => h
  clear hinfo hpos
  generalize (jobSetB (bsNP ts L t₀ B)).withSchedNP sched = s
    at hl hri hexb hinfo' hpos' hnpall hnpdef
  -- consequences
  have hci : ∀ k (hk : k < ts.length) j, j < s.n → s.task j = k → s.cost j = (ts[k]).2.2 := by
    intro k hk j hj hjk
    rcases hinfo' j hj with ⟨h1, _, h2⟩ | ⟨h1, _⟩
    · rw [h2]; simp only [hjk]
    · omega
  have hlow : ∀ j, j < s.n → i < s.task j →
      s.task j = i + 1 ∧ s.arr j = t₀ - 1 ∧ s.cost j = B + 1 ∧ B ≠ 0 := by
    intro j hj hjt
    rcases hinfo' j hj with ⟨h1, _⟩ | ⟨h1, h2, h3, h4⟩
    · omega
    · exact ⟨by omega, h2, h3, h4⟩
  have hrel : ∀ j, j < s.n → s.task j ≤ i → t₀ ≤ s.arr j := by
    intro j hj hjt
    rcases hinfo' j hj with ⟨_, h2, _⟩ | ⟨h1, _⟩
    · exact h2
    · omega
  have hreal : ∀ k (hk : k < ts.length),
      RealisesFrom (.sporadic (ts[k]).1 (ts[k]).2.1) (relsOf s k) t₀ L := by
    intro k hk
    rw [hri k hk]
    exact criticalInstantAt_realisesFrom _ _ _ _ _ (hwf _ (List.getElem_mem hk)).1
      (ht₀ _ (List.getElem_mem hk)) (le_refl _)
  have hTC : ∀ k (hk : k < ts.length), TaskCompliant s k (.sporadic (ts[k]).1 (ts[k]).2.1)
      (.scalar (ts[k]).2.2) := by
    intro k hk
    have hT := (hwf _ (List.getElem_mem hk)).1
    constructor
    · rw [hri k hk]; exact criticalInstantAt_sorted _ _ _ _
    · rw [hri k hk]; exact criticalInstantAt_admissible _ _ _ _ hT
    · intro st m
      apply runSum_le
      intro x hx
      unfold costsOf at hx
      obtain ⟨j, hj, rfl⟩ := List.mem_map.1 hx
      rw [List.mem_filter, List.mem_range] at hj
      rw [hci k hk j hj.1 (by simpa using hj.2)]
  have hordered : ∀ a b, a < s.n → b < s.n → s.task a = s.task b → a ≤ b → s.arr a ≤ s.arr b := by
    intro a b ha hb hab hle
    rcases Nat.lt_or_ge i (s.task b) with hgt | hle'
    · have h1 := hlow a ha (by omega)
      have h2 := hlow b hb hgt
      omega
    · exact ordered_of_sorted_task s (s.task b) (hTC (s.task b) (by omega)).sorted a b ha hb hab rfl hle
  have hwtask : ∀ k (hk : k < ts.length) t d, workOf s (fun x => x = k) t (t + d)
      ≤ (ts[k]).2.2 * (Arr.sporadic (ts[k]).1 (ts[k]).2.1).N d := by
    intro k hk t d
    have := task_work_le s k (Arr.sporadic (ts[k]).1 (ts[k]).2.1) (Cost.scalar (ts[k]).2.2)
      (hwf _ (List.getElem_mem hk)).1 trivial (hTC k hk) t d
    simpa only [Cost.ofJobs] using this
  have hwexact : ∀ k (hk : k < ts.length) Δ, Δ ≤ L → workOf s (fun x => x = k) t₀ (t₀ + Δ)
      = (ts[k]).2.2 * (Arr.sporadic (ts[k]).1 (ts[k]).2.1).N Δ := by
    intro k hk Δ hΔ
    rw [workOf_const s k (ts[k]).2.2 t₀ Δ (fun j hj hjk => hci k hk j hj hjk),
      (hreal k hk).2 Δ hΔ]
  have hS : FpSetting s id i (.rbf (.sporadic (ts[i]).1 (ts[i]).2.1) (.scalar (ts[i]).2.2))
      (hp.map fun p => RB.rbf p.1 (.scalar p.2)) B := by
    refine ⟨hl, fun a b h => h, hordered, ?_, ?_, ?_, hpos'⟩
    · intro t d
      have := hwtask i hi t d
      simpa only [RB.need, Cost.ofJobs] using this
    · intro t d
      show workOf s (fun x => x < i) t (t + d) ≤ _
      rw [workOf_lt_eq_sum, sumNeed_scalar, hhplen]
      apply Finset.sum_le_sum
      intro k hk
      have hk' := mem_range.1 hk
      rw [hhpget k hk']
      exact hwtask k (by omega) t d
    · intro l hl' hlt x len h
      have hlt' : i < s.task l := hlt
      obtain ⟨_, _, hc, _⟩ := hlow l hl' hlt'
      rcases Nat.eq_zero_or_pos len with h0 | h0
      · omega
      · have h1 := hnpdef _ _ (h 0 h0)
        have h2 := hnpdef _ _ (h (len - 1) (by omega))
        omega
  have hcompl : ∀ k, k ≤ i → TaskCompliant s k
      (.sporadic (ts.getD k default).1 (ts.getD k default).2.1)
      (.scalar (ts.getD k default).2.2) := by
    intro k hk
    have hk' : k < ts.length := by omega
    rw [getD_eq_getElem' ts k default hk']
    exact hTC k hk'
  refine ⟨s, hl, hnpall, hcompl, fun l hl' hlt => le_of_eq (hlow l hl' hlt).2.2.1, ?_⟩
  apply fp_nonpreemptive_bound_attained s i (.sporadic (ts[i]).1 (ts[i]).2.1) (ts[i]).2.2 B hp hS
    hnpall hTi trivial hCi hwfo limit R L t₀ hR hL ?_ ?_ ?_ ?_ ?_ hRpos
  · intro t d
    rw [cntOf_eq_cnt]
    exact Arr.bounds (.sporadic (ts[i]).1 (ts[i]).2.1) hTi _ (hTC i hi).adm t d
  · intro Δ hΔ
    rw [cntOf_eq_cnt]
    exact (hreal i hi).2 Δ hΔ
  · intro k hk hki
    exact hci i hi k hk hki
  · intro Δ hΔ
    rw [workOf_lt_eq_sum, sumNeed_scalar, hhplen]
    apply Finset.sum_congr rfl
    intro k hk
    have hk' := mem_range.1 hk
    rw [hhpget k hk']
    exact hwexact k (by omega) Δ hΔ
  · by_cases hB : B = 0
    · exact Or.inl hB
    · right
      obtain ⟨b₀, hb₀, hb₀t⟩ := hexb hB
      obtain ⟨_, hb₀a, hb₀c, _⟩ := hlow b₀ hb₀ (by omega)
      have hb₀s : svc s b₀ (t₀ - 1) = 0 := J.svc_zero_before hl b₀ (t₀ - 1) (by omega)
      obtain ⟨b, hb⟩ := hl.wc (t₀ - 1) ⟨b₀, hb₀, by unfold Pending; omega⟩
      obtain ⟨hbn, hbp⟩ := hl.valid _ _ hb
      have hbp1 : s.arr b ≤ t₀ - 1 := hbp.1
      have hbt : i < s.task b := by
        rcases Nat.lt_or_ge i (s.task b) with h | h
        · exact h
        · have := hrel b hbn h
          omega
      obtain ⟨_, hba, hbc, _⟩ := hlow b hbn hbt
      exact ⟨b, hbn, hbt, hbc, ht₀1, hb, J.svc_zero_before hl b (t₀ - 1) (by omega)⟩

end TightExistsNPLemmas

theorem fp_nonpreemptive_tight_sporadic (ts : List (ℕ × ℕ × ℕ)) (i : ℕ) (hi : i < ts.length) (B : ℕ)
    (hwf : ∀ p ∈ ts, 1 ≤ p.1 ∧ 1 ≤ p.2.2) (limit R : ℕ)
    (hR : fpNonpreemptive (.sporadic (ts.getD i default).1 (ts.getD i default).2.1) (ts.getD i default).2.2 B
      ((ts.take i).map fun p => RB.rbf (.sporadic p.1 p.2.1) (.scalar p.2.2)) limit = .ok R)
    (hRpos : 0 < R) :
    ∃ s : Sys, JlfpLegal s (hepFP s id) ∧
      (∀ l, l < s.n → ∀ x, 1 ≤ x → x < s.cost l → s.np l x) ∧
      -- the tasks 0 … i comply with their sporadic models, every job at its WCET
      (∀ k, k ≤ i → TaskCompliant s k (.sporadic (ts.getD k default).1 (ts.getD k default).2.1)
          (.scalar (ts.getD k default).2.2)) ∧
      -- every other job belongs to a lower-priority task and is at most `B + 1` long
      (∀ l, l < s.n → i < s.task l → s.cost l ≤ B + 1) ∧
      ∃ j, j < s.n ∧ s.task j = i ∧ MeetsBound s j R ∧ ∀ R', R' < R → ¬ MeetsBound s j R' := by
  have hlen : (ts.take (i + 1)).length = i + 1 := by rw [List.length_take]; omega
  have e1 : ∀ k, k ≤ i → (ts.take (i + 1)).getD k default = ts.getD k default := by
    intro k hk
    rw [getD_eq_getElem' _ _ _ (by omega), getD_eq_getElem' _ _ _ (by omega), List.getElem_take]
  have e2 : (ts.take (i + 1)).take i = ts.take i := by
    rw [List.take_take]; congr 1; omega
  obtain ⟨s, h1, h2, h3, h4, h5⟩ := coreNP (ts.take (i + 1)) i hlen B
    (fun p hp => hwf p (List.mem_of_mem_take hp)) limit R
    (by rw [e1 i (le_refl _), e2]; exact hR) hRpos
  refine ⟨s, h1, h2, ?_, h4, h5⟩
  intro k hk
  have := h3 k hk
  rw [e1 k hk] at this
  exact this

end RTA.Sched
