import RTA.Lemmas.TightExists
import RTA.Lemmas.TightFP
import RTA.Lemmas.TightNP
/-! C18, the existential form for fixed priority (priorities = task indices) and sporadic tasks
with release jitter: there IS a job set complying with the task models and a legal schedule of
it in which some job of the analysed task has a response time exactly equal to the bound. -/

open Finset

namespace RTA.Sched
open RTA RTA.Spec


namespace TightExistsFPLemmas
open TightExistsLemmas TightLemmas FifoSoundLemmas FpSoundLemmas RTA.PruneCoreLemmas RTA.PruneFPLemmas

/-- number of releases of one task in a window, as a count over its release list -/
theorem cntOf_eq_cnt (s : Sys) (i t d : ℕ) :
    cntOf s (fun x => x = i) t (t + d) = cnt (relsOf s i) t d := by
  classical
  have h := workOf_const { s with cost := fun _ => 1 } i 1 t d (fun _ _ _ => rfl)
  rw [Nat.one_mul] at h
  have e : relsOf { s with cost := fun _ => 1 } i = relsOf s i := rfl
  rw [e] at h
  rw [← h]
  unfold cntOf workOf
  refine sum_congr rfl (fun k _ => ?_)
  split_ifs <;> rfl

theorem pairwise_lt_rel (R : ℕ → ℕ → Prop) : ∀ l : List ℕ,
    l.Pairwise (fun x y => x < y ∧ R x y) → ∀ a ∈ l, ∀ b ∈ l, a < b → R a b := by
  intro l
  induction l with
  | nil => intro _ a ha; simp at ha
  | cons x xs ih =>
    intro hp a ha b hb hab
    rw [List.pairwise_cons] at hp
    rcases List.mem_cons.1 ha with rfl | ha' <;> rcases List.mem_cons.1 hb with rfl | hb'
    · omega
    · exact (hp.1 b hb').2
    · have := (hp.1 a ha').1; omega
    · exact ih hp.2 a ha' b hb' hab

/-- jobs of one task are numbered in release order -/
theorem ordered_of_sorted (s : Sys) (hs : ∀ i, (relsOf s i).Pairwise (· ≤ ·)) :
    ∀ a b, a < s.n → b < s.n → s.task a = s.task b → a ≤ b → s.arr a ≤ s.arr b := by
  intro a b ha hb hab hle
  rcases Nat.eq_or_lt_of_le hle with rfl | hlt
  · exact le_refl _
  have h := hs (s.task b)
  unfold relsOf at h
  rw [List.pairwise_map] at h
  have h2 : ((List.range s.n).filter (fun k => decide (s.task k = s.task b))).Pairwise (· < ·) :=
    List.Pairwise.filter _ List.pairwise_lt_range
  have h3 := List.Pairwise.and h2 h
  apply pairwise_lt_rel (fun x y => s.arr x ≤ s.arr y) _ h3 a _ b _ hlt
  · simp [ha, hab]
  · simp [hb]

/-- splitting the higher-priority workload by task -/
theorem workOf_lt_eq_sum (s : Sys) (i a b : ℕ) :
    workOf s (fun x => x < i) a b = ∑ k ∈ range i, workOf s (fun x => x = k) a b := by
  unfold workOf
  rw [Finset.sum_comm]
  apply Finset.sum_congr rfl
  intro k _
  by_cases hw : a ≤ s.arr k ∧ s.arr k < b
  · simp only [hw, and_true, and_self]
    rw [Finset.sum_ite_eq]
    simp
  · simp [hw]

theorem sumNeed_scalar (l : List (Arr × ℕ)) (d : ℕ) :
    sumNeed (l.map fun p => RB.rbf p.1 (.scalar p.2)) d
      = ∑ k ∈ range l.length, (l.getD k default).2 * (l.getD k default).1.N d := by
  have h := sum_range_getElem? l (fun p => p.2 * p.1.N d)
  have h2 : sumNeed (l.map fun p => RB.rbf p.1 (.scalar p.2)) d
      = sumList (l.map (fun p => p.2 * p.1.N d)) := by
    unfold sumNeed
    rw [List.map_map]
    congr 1
  rw [h2, ← h]
  apply Finset.sum_congr rfl
  intro k hk
  have hk' := mem_range.1 hk
  rw [List.getElem?_eq_getElem hk', getD_eq_getElem' _ _ _ hk']

/-- the critical-instant job set of the task list `ts` -/
def jobSetOf (ts : List (ℕ × ℕ × ℕ)) (L t₀ : ℕ) : JobSet := mkJobSet (jobsFrom 0 (blocks ts L t₀))

theorem job_info (ts : List (ℕ × ℕ × ℕ)) (L t₀ k : ℕ) (hk : k < (jobSetOf ts L t₀).n) :
    ∃ h : (jobSetOf ts L t₀).task k < ts.length,
      (jobSetOf ts L t₀).cost k = (ts[(jobSetOf ts L t₀).task k]).2.2 := by
  have hblen : (blocks ts L t₀).length = ts.length := by simp [blocks]
  have hk' : k < (jobsFrom 0 (blocks ts L t₀)).length := hk
  have hmem : (jobsFrom 0 (blocks ts L t₀)).getD k (0, 0, 0) ∈ jobsFrom 0 (blocks ts L t₀) := by
    rw [getD_eq_getElem' _ _ _ hk']; exact List.getElem_mem hk'
  obtain ⟨i, hi, e1, e2⟩ := mem_jobsFrom _ _ _ hmem
  rw [Nat.zero_add] at e1
  have hi' : i < ts.length := by rw [← hblen]; exact hi
  have e1' : (jobSetOf ts L t₀).task k = i := e1
  refine ⟨by rw [e1']; exact hi', ?_⟩
  show ((jobsFrom 0 (blocks ts L t₀)).getD k (0, 0, 0)).2.2 = _
  rw [e2]
  simp only [blocks, List.getElem_map, e1']

theorem rels_info (ts : List (ℕ × ℕ × ℕ)) (L t₀ : ℕ) (sched : ℕ → Option ℕ) (i : ℕ)
    (hi : i < ts.length) :
    relsOf ((jobSetOf ts L t₀).withSched sched) i
      = criticalInstantAt (ts[i]).1 (ts[i]).2.1 ((Arr.sporadic (ts[i]).1 (ts[i]).2.1).N L) t₀ := by
  have hblen : (blocks ts L t₀).length = ts.length := by simp [blocks]
  have hfil : (jobsFrom 0 (blocks ts L t₀)).filter (fun j => decide (j.1 = i))
      = (criticalInstantAt (ts[i]).1 (ts[i]).2.1 ((Arr.sporadic (ts[i]).1 (ts[i]).2.1).N L) t₀).map
          (fun r => (i, r, (ts[i]).2.2)) := by
    have := filter_jobsFrom (blocks ts L t₀) 0 i (by rw [hblen]; exact hi)
    rw [Nat.zero_add] at this
    rw [this]
    simp only [blocks, List.getElem_map]
  unfold jobSetOf
  rw [relsOf_mk, hfil, List.map_map]
  simp [Function.comp_def]

theorem cost_info (ts : List (ℕ × ℕ × ℕ)) (L t₀ : ℕ) (sched : ℕ → Option ℕ) (i : ℕ)
    (hi : i < ts.length) (k : ℕ) (hk : k < ((jobSetOf ts L t₀).withSched sched).n)
    (hki : ((jobSetOf ts L t₀).withSched sched).task k = i) :
    ((jobSetOf ts L t₀).withSched sched).cost k = (ts[i]).2.2 := by
  obtain ⟨h1, h2⟩ := job_info ts L t₀ k hk
  show (jobSetOf ts L t₀).cost k = _
  have hki' : (jobSetOf ts L t₀).task k = i := hki
  rw [h2]
  simp only [hki']

theorem compliant_info (ts : List (ℕ × ℕ × ℕ)) (hwf : ∀ p ∈ ts, 1 ≤ p.1 ∧ 1 ≤ p.2.2)
    (L t₀ : ℕ) (sched : ℕ → Option ℕ) :
    Compliant ((jobSetOf ts L t₀).withSched sched) (sporadicSet ts) := by
  have hlen : (sporadicSet ts).length = ts.length := by simp [sporadicSet]
  constructor
  · intro k hk
    rw [hlen]
    exact (job_info ts L t₀ k hk).1
  · intro i hi
    have hi' : i < ts.length := by rw [hlen] at hi; exact hi
    have hT := (hwf _ (List.getElem_mem hi')).1
    simp only [sporadicSet, List.getElem_map]
    constructor
    · rw [rels_info ts L t₀ sched i hi']; exact criticalInstantAt_sorted _ _ _ _
    · rw [rels_info ts L t₀ sched i hi']; exact criticalInstantAt_admissible _ _ _ _ hT
    · intro st m
      apply runSum_le
      intro x hx
      unfold costsOf at hx
      obtain ⟨k, hk, rfl⟩ := List.mem_map.1 hx
      rw [List.mem_filter, List.mem_range] at hk
      rw [cost_info ts L t₀ sched i hi' k hk.1 (by simpa using hk.2)]

/-- the statement for a task list whose LAST task is the analysed one -/
theorem core (ts : List (ℕ × ℕ × ℕ)) (i : ℕ) (hlen : ts.length = i + 1)
    (hwf : ∀ p ∈ ts, 1 ≤ p.1 ∧ 1 ≤ p.2.2) (limit R : ℕ)
    (hR : fpPreemptive (.rbf (.sporadic (ts.getD i default).1 (ts.getD i default).2.1) (.scalar (ts.getD i default).2.2))
      ((ts.take i).map fun p => RB.rbf (.sporadic p.1 p.2.1) (.scalar p.2.2)) limit = .ok R)
    (hRpos : 0 < R) :
    ∃ s : Sys, JlfpLegal s (hepFP s id) ∧ (∀ l x, ¬ s.np l x) ∧
      Compliant s (sporadicSet ts) ∧
      ∃ j, j < s.n ∧ s.task j = i ∧ MeetsBound s j R ∧ ∀ R', R' < R → ¬ MeetsBound s j R' := by
  have hi : i < ts.length := by omega
  rw [getD_eq_getElem' ts i default hi] at hR
  have hmap : ((ts.take i).map fun p => RB.rbf (.sporadic p.1 p.2.1) (.scalar p.2.2))
      = ((ts.take i).map fun p => (Arr.sporadic p.1 p.2.1, p.2.2)).map
          fun p => RB.rbf p.1 (.scalar p.2) := by
    rw [List.map_map]; rfl
  rw [hmap] at hR
  have hhplen : ((ts.take i).map fun p => (Arr.sporadic p.1 p.2.1, p.2.2)).length = i := by
    rw [List.length_map, List.length_take]; omega
  have hhpget : ∀ k (hk : k < i), ((ts.take i).map fun p => (Arr.sporadic p.1 p.2.1, p.2.2)).getD k default
      = (Arr.sporadic (ts[k]'(Nat.lt_trans hk hi)).1 (ts[k]'(Nat.lt_trans hk hi)).2.1,
          (ts[k]'(Nat.lt_trans hk hi)).2.2) := by
    intro k hk
    rw [getD_eq_getElem' _ _ _ (by rw [hhplen]; exact hk)]
    simp
  have hwfo : ∀ p ∈ ((ts.take i).map fun p => (Arr.sporadic p.1 p.2.1, p.2.2)),
      p.1.WF ∧ p.1.Exact ∧ 1 ≤ p.2 := by
    intro p hp'
    obtain ⟨q, hq, rfl⟩ := List.mem_map.1 hp'
    have := hwf q (List.mem_of_mem_take hq)
    exact ⟨this.1, trivial, this.2⟩
  generalize ((ts.take i).map fun p => (Arr.sporadic p.1 p.2.1, p.2.2)) = hp
    at hR hhplen hhpget hwfo
  have hTi := (hwf _ (List.getElem_mem hi)).1
  have hCi := (hwf _ (List.getElem_mem hi)).2
  have hwf' : (RB.rbf (.sporadic (ts[i]).1 (ts[i]).2.1) (.scalar (ts[i]).2.2)).ArrWF := by
    simp only [RB.ArrWF]; exact hTi
  have hex' : (RB.rbf (.sporadic (ts[i]).1 (ts[i]).2.1) (.scalar (ts[i]).2.2)).Exact := by
    simp only [RB.Exact]; exact ⟨trivial, Cost.scalar_strictPos _ hCi⟩
  have ho : OthersOK (hp.map fun p => RB.rbf p.1 (.scalar p.2)) := by
    intro o hoo
    obtain ⟨q, hq, rfl⟩ := List.mem_map.1 hoo
    obtain ⟨h1, h2, h3⟩ := hwfo q hq
    constructor
    · simp only [RB.ArrWF]; exact h1
    · simp only [RB.Exact]; exact ⟨h2, Cost.scalar_strictPos _ h3⟩
  have hlim : 1 ≤ limit := by
    rcases Nat.eq_zero_or_pos limit with h0 | h
    · subst h0
      unfold fpPreemptive at hR
      rw [fpCore_eq, search_limit_zero] at hR
      cases hR
    · exact h
  obtain ⟨L, hL⟩ : ∃ L, naiveSolve (fun x => 0 + sumNeed (hp.map fun p => RB.rbf p.1 (.scalar p.2)) x +
      (RB.rbf (.sporadic (ts[i]).1 (ts[i]).2.1) (.scalar (ts[i]).2.2)).need x) limit = .ok L := by
    rcases naiveSolve_cases (fun x => 0 + sumNeed (hp.map fun p => RB.rbf p.1 (.scalar p.2)) x +
      (RB.rbf (.sporadic (ts[i]).1 (ts[i]).2.1) (.scalar (ts[i]).2.2)).need x) limit with h | h
    · exact h
    · unfold fpPreemptive at hR
      rw [fpCore_eq, search_dedicated_eq_naive _
        (outer_mono _ _ 0 hwf' hex' ho) limit hlim, h] at hR
      cases hR
  -- the job set
  let t₀ := maxList (ts.map fun p => p.2.1)
  have ht₀ : ∀ p ∈ ts, p.2.1 ≤ t₀ := fun p hp =>
    mem_le_maxList _ _ (List.mem_map.2 ⟨p, hp, rfl⟩)
  have hpos : ∀ k, k < (jobSetOf ts L t₀).n → 1 ≤ (jobSetOf ts L t₀).cost k := by
    intro k hk
    obtain ⟨h1, h2⟩ := job_info ts L t₀ k hk
    rw [h2]; exact (hwf _ (List.getElem_mem h1)).2
  obtain ⟨sched, hl⟩ := exists_fp_preemptive_schedule (jobSetOf ts L t₀) hpos
  have hc := compliant_info ts hwf L t₀ sched
  have hri := rels_info ts L t₀ sched
  have hci := cost_info ts L t₀ sched
  have hji : ∀ k, k < ((jobSetOf ts L t₀).withSched sched).n →
      ((jobSetOf ts L t₀).withSched sched).task k < ts.length :=
    fun k hk => (job_info ts L t₀ k hk).1
  have hpos' : ∀ k, k < ((jobSetOf ts L t₀).withSched sched).n →
      1 ≤ ((jobSetOf ts L t₀).withSched sched).cost k := hpos
  have hnp : ∀ l x, ¬ ((jobSetOf ts L t₀).withSched sched).np l x := fun _ _ h => h
  generalize (jobSetOf ts L t₀).withSched sched = s at hl hc hri hci hji hpos' hnp
  have hreal : ∀ k (hk : k < ts.length),
      RealisesFrom (.sporadic (ts[k]).1 (ts[k]).2.1) (relsOf s k) t₀ L := by
    intro k hk
    rw [hri k hk]
    exact criticalInstantAt_realisesFrom _ _ _ _ _ (hwf _ (List.getElem_mem hk)).1
      (ht₀ _ (List.getElem_mem hk)) (le_refl _)
  have hsorted : ∀ k, (relsOf s k).Pairwise (· ≤ ·) := by
    intro k
    rcases Nat.lt_or_ge k ts.length with hk | hk
    · rw [hri k hk]; exact criticalInstantAt_sorted _ _ _ _
    · have : relsOf s k = [] := by
        unfold relsOf
        rw [List.map_eq_nil_iff, List.filter_eq_nil_iff]
        intro j hj h
        have := hji j (List.mem_range.1 hj)
        simp only [decide_eq_true_eq] at h
        omega
      rw [this]; exact List.Pairwise.nil
  have hwtask : ∀ k (hk : k < ts.length) t d, workOf s (fun x => x = k) t (t + d)
      ≤ (ts[k]).2.2 * (Arr.sporadic (ts[k]).1 (ts[k]).2.1).N d := by
    intro k hk t d
    have hk' : k < (sporadicSet ts).length := by simp only [sporadicSet, List.length_map]; exact hk
    have h1 : TaskCompliant s k (Arr.sporadic (ts[k]).1 (ts[k]).2.1) (Cost.scalar (ts[k]).2.2) := by
      have := hc.comp k hk'
      simpa only [sporadicSet, List.getElem_map] using this
    have := task_work_le s k (Arr.sporadic (ts[k]).1 (ts[k]).2.1) (Cost.scalar (ts[k]).2.2) (hwf _ (List.getElem_mem hk)).1 trivial h1 t d
    simpa only [Cost.ofJobs] using this
  have hwexact : ∀ k (hk : k < ts.length) Δ, Δ ≤ L → workOf s (fun x => x = k) t₀ (t₀ + Δ)
      = (ts[k]).2.2 * (Arr.sporadic (ts[k]).1 (ts[k]).2.1).N Δ := by
    intro k hk Δ hΔ
    rw [workOf_const s k (ts[k]).2.2 t₀ Δ (fun j hj hjk => hci k hk j hj hjk),
      (hreal k hk).2 Δ hΔ]
  have hS : FpSetting s id i (.rbf (.sporadic (ts[i]).1 (ts[i]).2.1) (.scalar (ts[i]).2.2))
      (hp.map fun p => RB.rbf p.1 (.scalar p.2)) 0 := by
    refine ⟨hl, fun a b h => h, ordered_of_sorted s hsorted, ?_, ?_, ?_, hpos'⟩
    · intro t d
      have := hwtask i hi t d
      simpa only [RB.need, Cost.ofJobs] using this
    · intro t d
      show workOf s (fun x => x < i) t (t + d) ≤ _
      rw [workOf_lt_eq_sum, sumNeed_scalar, hhplen]
      apply Finset.sum_le_sum
      intro k hk
      have hk' := mem_range.1 hk
      rw [hhpget k hk']
      exact hwtask k (by omega) t d
    · intro l _ _ x len h
      rcases Nat.eq_zero_or_pos len with h0 | h0
      · omega
      · exact (hnp _ _ (h 0 h0)).elim
  refine ⟨s, hl, hnp, hc, ?_⟩
  apply fp_preemptive_bound_attained s i (.sporadic (ts[i]).1 (ts[i]).2.1) (ts[i]).2.2 hp hS hnp
    hTi trivial hCi hwfo limit R L t₀ hR hL ?_ ?_ ?_ hRpos
  · intro Δ hΔ
    rw [cntOf_eq_cnt]
    exact (hreal i hi).2 Δ hΔ
  · intro k hk hki
    exact hci i hi k hk hki
  · intro Δ hΔ
    rw [workOf_lt_eq_sum, sumNeed_scalar, hhplen]
    apply Finset.sum_congr rfl
    intro k hk
    have hk' := mem_range.1 hk
    rw [hhpget k hk']
    exact hwexact k (by omega) Δ hΔ

end TightExistsFPLemmas
open TightExistsFPLemmas TightExistsLemmas TightLemmas FifoSoundLemmas FpSoundLemmas

/-- fully preemptive FP: the tasks `0 … i` (task `i` analysed, `0 … i-1` of higher priority) -/
theorem fp_preemptive_tight_sporadic (ts : List (ℕ × ℕ × ℕ)) (i : ℕ) (hi : i < ts.length)
    (hwf : ∀ p ∈ ts, 1 ≤ p.1 ∧ 1 ≤ p.2.2) (limit R : ℕ)
    (hR : fpPreemptive (.rbf (.sporadic (ts.getD i default).1 (ts.getD i default).2.1) (.scalar (ts.getD i default).2.2))
      ((ts.take i).map fun p => RB.rbf (.sporadic p.1 p.2.1) (.scalar p.2.2)) limit = .ok R)
    (hRpos : 0 < R) :
    ∃ s : Sys, JlfpLegal s (hepFP s id) ∧ (∀ l x, ¬ s.np l x) ∧
      Compliant s (sporadicSet (ts.take (i + 1))) ∧
      ∃ j, j < s.n ∧ s.task j = i ∧ MeetsBound s j R ∧ ∀ R', R' < R → ¬ MeetsBound s j R' := by
  have hlen : (ts.take (i + 1)).length = i + 1 := by rw [List.length_take]; omega
  apply core (ts.take (i + 1)) i hlen (fun p hp => hwf p (List.mem_of_mem_take hp)) limit R _ hRpos
  have e1 : (ts.take (i + 1)).getD i default = ts.getD i default := by
    rw [getD_eq_getElem' _ _ _ (by omega), getD_eq_getElem' _ _ _ hi, List.getElem_take]
  have e2 : (ts.take (i + 1)).take i = ts.take i := by
    rw [List.take_take]; congr 1; omega
  rw [e1, e2]
  exact hR

end RTA.Sched
