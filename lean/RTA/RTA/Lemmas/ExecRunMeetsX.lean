import RTA.Lemmas.ExecRefineX
import RTA.Lemmas.ExecRunMeets
/-! Link between the job system of a run of the executor with arbitrary execution times
(`ExecX.toSysX`) and the completions that the executable `ExecX.run` reports (adapted copy of
`Lemmas/ExecRunMeets.lean`): if every job of callback `i` has received its full service (= its
actual execution time) within `R` of its release, then every completion `(i, release, completion)`
reported by `ExecX.run` on any finite prefix of the supply process satisfies
`completion ≤ release + R`. -/

namespace RTA.ExecX
open RTA RTA.Sched RTA.Exec

namespace RunMeetsXLemmas
open RefineXLemmas
open RTA.Exec.RefineLemmas (cnt cnt_mono cnt_const job_iff job_inj job_exists job_some job_arr
  getD_set_len addReleases_length addReleases_getD bestOf_eq_none bestOf_mem bestOf_min
  mem_pendingTimers mem_pendingPolled nodup_pendingPolled)
open RTA.Exec.RunMeetsLemmas (finish_out addReleases_content IsRel)

variable (cbs : List Cb) (ex : ℕ → ℕ → ℕ) (sigma : ℕ → Bool) (rels : ℕ → List ℕ)

local notation "St" => stateAt cbs ex sigma rels
local notation "Rl" => relAt cbs ex sigma rels
local notation "sb" => startedBefore cbs ex sigma rels

/-! ### `Exec.run` visits the states `stateAt` -/

/-- the completion reported by slot `u` of the infinite run -/
def outAt (u : ℕ) : Option (ℕ × ℕ × ℕ) :=
  (step cbs ex (fun _ => none) u (sigma u) (rels u) (St u)).2

theorem go_mem (o : ℕ × ℕ × ℕ) : ∀ m t,
    o ∈ run.go cbs ex (fun _ => none) rels ((List.range' t m).map sigma) t (St t) →
    ∃ u, outAt cbs ex sigma rels u = some o := by
  intro m
  induction m with
  | zero => intro t h; simp [run.go] at h
  | succ m ih =>
    intro t h
    rw [List.range'_succ, List.map_cons] at h
    simp only [run.go] at h
    have e1 : (step cbs ex (fun _ => none) t (sigma t) (rels t) (St t)).1 = St (t + 1) := rfl
    cases hout : (step cbs ex (fun _ => none) t (sigma t) (rels t) (St t)).2 with
    | none =>
      rw [hout, e1] at h
      exact ih (t + 1) h
    | some o' =>
      rw [hout, e1] at h
      rcases List.mem_cons.1 h with e | h'
      · subst e; exact ⟨t, hout⟩
      · exact ih (t + 1) h'

/-- a reported completion: supplied slot, the instance running after the pick has `rem ≤ 1` -/
theorem outAt_some {u : ℕ} {o : ℕ × ℕ × ℕ} (h : outAt cbs ex sigma rels u = some o) :
    sigma u = true ∧ ∃ i rem r, (pickedAt cbs ex sigma rels u).running = some (i, rem, r) ∧
      rem ≤ 1 ∧ o = (i, r, u + 1) := by
  unfold outAt at h
  cases hs : sigma u with
  | false => simp [step, hs] at h
  | true =>
    refine ⟨rfl, ?_⟩
    simp only [step, pickedAt, hs] at h ⊢
    simp only [Bool.not_true, Bool.false_eq_true, if_false] at h ⊢
    exact finish_out u _ o h

/-! ### queue contents -/

/-- contents of the queues and of the running instance -/
structure InvQ (t : ℕ) : Prop where
  q : ∀ i, i < cbs.length → ∀ p x, ((St t).queue.getD i [])[p]? = some x →
    IsRel rels i (sb i t + p) x
  run : ∀ i rem r, (St t).running = some (i, rem, r) → IsRel rels i (sb i t - 1) r

theorem invq_zero : InvQ cbs ex sigma rels 0 where
  q := fun i hi p x h => by
    simp [stateAt, State.init, List.getD_eq_getElem?_getD, hi] at h
  run := fun i rem r h => by simp [stateAt, State.init] at h

variable {cbs ex sigma rels}

/-- contents of the queues after the releases of slot `t` -/
theorem invq_rel {t : ℕ} (h : InvQ cbs ex sigma rels t) : ∀ i, i < cbs.length → ∀ p x,
    ((Rl t).queue.getD i [])[p]? = some x → IsRel rels i (sb i t + p) x := by
  intro i hi p x hx
  have h1 := inv1 (cbs := cbs) (ex := ex) (sigma := sigma) (rels := rels) t
  have hc : (Rl t).queue.getD i [] =
      (St t).queue.getD i [] ++ List.replicate ((rels t).count i) t :=
    addReleases_content _ _ _ _ (by rw [h1.qlen]; exact hi)
  rw [hc, List.getElem?_append] at hx
  split at hx
  · exact h.q i hi p x hx
  · rename_i hp
    rcases List.getElem?_eq_some_iff.1 hx with ⟨hlt, hv⟩
    simp only [List.getElem_replicate] at hv
    simp only [List.length_replicate] at hlt
    subst hv
    have hq := h1.q i hi
    refine ⟨by omega, ?_⟩
    show _ < cnt rels i t + (rels t).count i
    omega

theorem invq_keep {t : ℕ} (h : InvQ cbs ex sigma rels t)
    (hst : ∀ c, startsCb cbs ex sigma rels t c = false)
    (hq : (St (t + 1)).queue = (Rl t).queue)
    (hrun : ∀ i rem r, (St (t + 1)).running = some (i, rem, r) →
      ∃ rem0, (St t).running = some (i, rem0, r)) :
    InvQ cbs ex sigma rels (t + 1) := by
  have hsb : ∀ i, sb i (t + 1) = sb i t := fun i => by rw [sb_succ, hst]; simp
  refine ⟨?_, ?_⟩
  · intro i hi p x hx
    rw [hq] at hx
    rw [hsb]
    exact invq_rel h i hi p x hx
  · intro i rem r hr
    obtain ⟨rem0, h0⟩ := hrun i rem r hr
    rw [hsb]
    exact h.run i rem0 r h0

theorem invq_pop {t : ℕ} (h : InvQ cbs ex sigma rels t) (i0 : ℕ)
    (hst : ∀ c, startsCb cbs ex sigma rels t c = true ↔ c = i0)
    (hi0 : i0 < cbs.length) (hq0 : 0 < ((Rl t).queue.getD i0 []).length)
    (ready' : List ℕ)
    (hnext : St (t + 1) =
      { queue := (Rl t).queue.set i0 (((Rl t).queue.getD i0 []).drop 1),
        ready := ready',
        running := if ex i0 t ≤ 1 then none else
          some (i0, ex i0 t - 1, ((Rl t).queue.getD i0 []).headD 0) }) :
    InvQ cbs ex sigma rels (t + 1) := by
  have h1 := inv1 (cbs := cbs) (ex := ex) (sigma := sigma) (rels := rels) t
  have hsb : ∀ i, sb i (t + 1) = sb i t + if i = i0 then 1 else 0 := fun i => by
    rw [sb_succ]
    by_cases e : i = i0
    · rw [if_pos ((hst i).2 e), if_pos e]
    · rw [if_neg (fun hh => e ((hst i).1 hh)), if_neg e]
  have hlen : (Rl t).queue.length = cbs.length := by rw [relAt_qlen, h1.qlen]
  refine ⟨?_, ?_⟩
  · intro i hi p x hx
    rw [hnext] at hx
    simp only at hx
    rw [getD_set_len _ _ _ _ (by rw [hlen]; exact hi)] at hx
    rw [hsb]
    by_cases e : i0 = i
    · subst e
      rw [if_pos rfl, List.getElem?_drop] at hx
      have := invq_rel h i0 hi (1 + p) x hx
      simp only [if_true]
      have e2 : sb i0 t + 1 + p = sb i0 t + (1 + p) := by omega
      rw [e2]; exact this
    · rw [if_neg e] at hx
      rw [if_neg (fun hh => e hh.symm), Nat.add_zero]
      exact invq_rel h i hi p x hx
  · intro i rem r hr
    rw [hnext] at hr
    simp only at hr
    split at hr
    · cases hr
    · cases hr
      rw [hsb]
      simp only [if_true]
      have hx : ((Rl t).queue.getD i0 [])[0]? = some (((Rl t).queue.getD i0 []).headD 0) := by
        cases hl : (Rl t).queue.getD i0 [] with
        | nil => rw [hl] at hq0; simp at hq0
        | cons a l => simp
      have := invq_rel h i0 hi0 0 _ hx
      have e2 : sb i0 t + 1 - 1 = sb i0 t + 0 := by omega
      rw [e2]; exact this

theorem invq_succ {t : ℕ} (h : InvQ cbs ex sigma rels t) : InvQ cbs ex sigma rels (t + 1) := by
  have h1 := inv1 (cbs := cbs) (ex := ex) (sigma := sigma) (rels := rels) t
  cases hs : sigma t with
  | false =>
    obtain ⟨_, hst, _, hnext⟩ := slotA (cbs := cbs) (ex := ex) (rels := rels) hs
    exact invq_keep h hst (by rw [hnext]) (fun i rem r hr => ⟨rem, by rw [hnext] at hr; exact hr⟩)
  | true =>
    rcases hr : (Rl t).running with _ | ⟨i, rem, r⟩
    · cases hb : bestOf cbs (pendingTimers cbs (Rl t).queue) with
      | some i =>
        obtain ⟨_, hst, _, hnext⟩ := slotC hs hr hb
        have hm := (mem_pendingTimers _ _ _).1 (bestOf_mem _ _ _ hb)
        exact invq_pop h i hst hm.1 hm.2.2 _ hnext
      | none =>
        cases hb2 : bestOf cbs (readyAt cbs ex sigma rels t) with
        | some i =>
          obtain ⟨_, hst, _, hnext⟩ := slotD hs hr hb hb2
          have hm := readyAt_mem h1 i (bestOf_mem _ _ _ hb2)
          exact invq_pop h i hst hm.1 hm.2.2 _ hnext
        | none =>
          obtain ⟨_, hst, _, hnext⟩ := slotE hs hr hb hb2
          refine invq_keep h hst (by rw [hnext]) ?_
          intro i rem r hr'
          rw [hnext] at hr'
          simp only at hr'
          rw [hr] at hr'; cases hr'
    · obtain ⟨_, hst, _, hnext⟩ := slotB hs hr
      refine invq_keep h hst (by rw [hnext]) ?_
      intro i' rem' r' hr'
      rw [hnext] at hr'
      simp only at hr'
      split at hr'
      · cases hr'
      · cases hr'
        exact ⟨rem, hr⟩

theorem invq : ∀ t, InvQ cbs ex sigma rels t
  | 0 => invq_zero cbs ex sigma rels
  | t + 1 => invq_succ (invq t)

/-! ### a reported completion belongs to an incomplete job released at the reported time -/

section final
variable {H : ℕ}

local notation "Sy" => toSysX cbs ex sigma rels H
local notation "job" => nthEventOf rels H

theorem arr_of_isRel (hfin : ∀ t, H ≤ t → rels t = []) {i m k x : ℕ} (hj : job i m = some k)
    (hx : IsRel rels i m x) : (Sy).arr k = x := by
  have h1 := job_arr rels H hfin hj x
  have h2 := job_arr rels H hfin hj (x + 1)
  have e : (Sy).arr k = ((events rels H).getD k (0, 0)).1 := rfl
  rw [e]
  obtain ⟨a, b⟩ := hx
  have := h2.2 b
  have : ¬ ((events rels H).getD k (0, 0)).1 < x := fun hh => by
    have := h1.1 hh; omega
  omega

theorem out_job (hidx : ∀ t, ∀ i ∈ rels t, i < cbs.length) (hfin : ∀ t, H ≤ t → rels t = [])
    (hex : ∀ k, k < cbs.length → ∀ t, 1 ≤ ex k t ∧ ex k t ≤ (cbs.getD k default).cost) {u i r c : ℕ}
    (h : outAt cbs ex sigma rels u = some (i, r, c)) :
    c = u + 1 ∧ ∃ k, k < (Sy).n ∧ (Sy).task k = i ∧ (Sy).arr k = r ∧ svc (Sy) k u < (Sy).cost k := by
  obtain ⟨hs, i', rem, r', hrun, hrem, e⟩ := outAt_some cbs ex sigma rels h
  cases e
  refine ⟨rfl, ?_⟩
  have h1 := inv1 (cbs := cbs) (ex := ex) (sigma := sigma) (rels := rels) u
  have hq := invq (cbs := cbs) (ex := ex) (sigma := sigma) (rels := rels) u
  rw [pickedAt_eq, if_pos hs] at hrun
  -- common conclusion from an index `m`
  have fin : ∀ m, i < cbs.length → IsRel rels i m r →
      (∀ k, job i m = some k → svc (Sy) k u < (Sy).cost k) →
      ∃ k, k < (Sy).n ∧ (Sy).task k = i ∧ (Sy).arr k = r ∧ svc (Sy) k u < (Sy).cost k := by
    intro m hi hx hsv
    obtain ⟨k, hj⟩ := job_some rels H i m
      (by have := cnt_le_H (rels := rels) hfin i (r + 1); have := hx.2; omega)
    have hjt := job_task (cbs := cbs) (ex := ex) (sigma := sigma) hj
    exact ⟨k, hjt.1, hjt.2, arr_of_isRel hfin hj hx, hsv k hj⟩
  rcases hr : (Rl u).running with _ | ⟨i0, rem0, r0⟩
  · rw [hr] at hrun
    simp only at hrun
    -- a pick
    have pop : ∀ i0, i0 < cbs.length → 0 < ((Rl u).queue.getD i0 []).length →
        (some (i0, ex i0 u, ((Rl u).queue.getD i0 []).headD 0) : Option (ℕ × ℕ × ℕ))
          = some (i, rem, r) →
        ∃ k, k < (Sy).n ∧ (Sy).task k = i ∧ (Sy).arr k = r ∧ svc (Sy) k u < (Sy).cost k := by
      intro i0 hi0 hq0 he
      cases he
      have hx : ((Rl u).queue.getD i [])[0]? = some (((Rl u).queue.getD i []).headD 0) := by
        cases hl : (Rl u).queue.getD i [] with
        | nil => rw [hl] at hq0; simp at hq0
        | cons a l => simp
      have hrel := invq_rel hq i hi0 0 _ hx
      refine fin (sb i u) hi0 (by simpa using hrel) ?_
      intro k hj
      rcases status (ex := ex) (sigma := sigma) hidx hex hj u with hh | hh | hh
      · rw [hh.2]
        exact (job_cost_bounds (sigma := sigma) hidx hex hj).1
      · omega
      · omega
    cases hb : bestOf cbs (pendingTimers cbs (Rl u).queue) with
    | some i0 =>
      rw [pick_timer cbs ex u _ i0 hb] at hrun
      have hm := (mem_pendingTimers _ _ _).1 (bestOf_mem _ _ _ hb)
      exact pop i0 hm.1 hm.2.2 hrun
    | none =>
      cases hb2 : bestOf cbs (readyAt cbs ex sigma rels u) with
      | some i0 =>
        rw [pick_polled cbs ex u _ i0 hb hb2] at hrun
        have hm := readyAt_mem h1 i0 (bestOf_mem _ _ _ hb2)
        exact pop i0 hm.1 hm.2.2 hrun
      | none =>
        rw [pick_none cbs ex u _ hb hb2] at hrun
        simp only at hrun
        rw [hr] at hrun; cases hrun
  · rw [hr] at hrun
    simp only at hrun
    rw [hr] at hrun
    cases hrun
    have hr' : (St u).running = some (i, rem, r) := hr
    obtain ⟨hi, hsb1, hrem1⟩ := h1.runOk i rem r hr'
    refine fin (sb i u - 1) hi (hq.run i rem r hr') ?_
    intro k hj
    rcases status (ex := ex) (sigma := sigma) hidx hex hj u with hh | hh | hh
    · omega
    · exact absurd hr' (hh.2.2.2 (by omega) rem r)
    · obtain ⟨_, rem', r'', hr2, h2, _, h3⟩ := hh
      omega

end final

end RunMeetsXLemmas

open RunMeetsXLemmas RefineXLemmas in
theorem run_meets_of_sys_x (cbs : List Cb) (ex : ℕ → ℕ → ℕ) (sigma : ℕ → Bool) (rels : ℕ → List ℕ) (H : ℕ)
    (hidx : ∀ t, ∀ i ∈ rels t, i < cbs.length)
    (hfin : ∀ t, H ≤ t → rels t = [])
    (hex : ∀ k, k < cbs.length → ∀ t, 1 ≤ ex k t ∧ ex k t ≤ (cbs.getD k default).cost)
    (i R : ℕ)
    (hmeets : ∀ j, j < (toSysX cbs ex sigma rels H).n → (toSysX cbs ex sigma rels H).task j = i →
      MeetsBound (toSysX cbs ex sigma rels H) j R)
    (n : ℕ) :
    ∀ o ∈ ExecX.run cbs ex (fun _ => none) ((List.range n).map sigma) rels, o.1 = i → o.2.2 ≤ o.2.1 + R := by
  intro o ho hoi
  have ho' : o ∈ run.go cbs ex (fun _ => none) rels ((List.range' 0 n).map sigma) 0
      (stateAt cbs ex sigma rels 0) := by
    rw [← List.range_eq_range']
    exact ho
  obtain ⟨u, hu⟩ := go_mem cbs ex sigma rels o n 0 ho'
  obtain ⟨i', r, c⟩ := o
  simp only at hoi
  subst hoi
  obtain ⟨hc, k, hk, hkt, hka, hsv⟩ := out_job (H := H) hidx hfin hex hu
  have hm : svc (toSysX cbs ex sigma rels H) k ((toSysX cbs ex sigma rels H).arr k + R) =
      (toSysX cbs ex sigma rels H).cost k := hmeets k hk hkt
  show c ≤ r + R
  rcases Nat.lt_or_ge u ((toSysX cbs ex sigma rels H).arr k + R) with hlt | hge
  · omega
  · have := svc_mono (s := toSysX cbs ex sigma rels H) k hge
    omega
