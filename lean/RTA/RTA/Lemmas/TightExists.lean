import RTA.Lemmas.Tight
/-! C18, the existential form of the statement for sporadic tasks with release jitter (and
periodic tasks, `J = 0`), FIFO: for every task set for which the analysis returns a positive
bound there IS a job set that complies with the task models (releases admissible for the
arrival curves, every job at its WCET) and a legal FIFO schedule of it in which some job has a
response time exactly equal to the bound. -/

open Finset

namespace RTA.Sched
open RTA RTA.Spec

/-- task parameters `(T, J, C)`: minimum inter-arrival time, release jitter, WCET -/
def sporadicSet (ts : List (ℕ × ℕ × ℕ)) : List (Arr × Cost) :=
  ts.map fun p => (Arr.sporadic p.1 p.2.1, Cost.scalar p.2.2)

namespace TightExistsLemmas
open TightLemmas FifoSoundLemmas

/-- the jobs of consecutive tasks `i0, i0 + 1, …`: block `(rels, C)` yields one job per
release, each of cost `C` -/
def jobsFrom : ℕ → List (List ℕ × ℕ) → List (ℕ × ℕ × ℕ)
  | _, [] => []
  | i0, b :: bs => b.1.map (fun r => (i0, r, b.2)) ++ jobsFrom (i0 + 1) bs

theorem filter_jobsFrom_lt (i : ℕ) : ∀ (bs : List (List ℕ × ℕ)) (i0 : ℕ), i < i0 →
    (jobsFrom i0 bs).filter (fun j => decide (j.1 = i)) = [] := by
  intro bs
  induction bs with
  | nil => intro i0 _; rfl
  | cons b bs ih =>
    intro i0 h
    rw [jobsFrom, List.filter_append, ih (i0 + 1) (by omega), List.append_nil,
      List.filter_eq_nil_iff]
    intro j hj
    obtain ⟨r, _, rfl⟩ := List.mem_map.1 hj
    simp only [decide_eq_true_eq]
    omega

theorem filter_jobsFrom (bs : List (List ℕ × ℕ)) : ∀ (i0 k : ℕ) (h : k < bs.length),
    (jobsFrom i0 bs).filter (fun j => decide (j.1 = i0 + k))
      = (bs[k]).1.map (fun r => (i0 + k, r, (bs[k]).2)) := by
  induction bs with
  | nil => intro i0 k h; simp at h
  | cons b bs ih =>
    intro i0 k h
    rw [jobsFrom, List.filter_append]
    cases k with
    | zero =>
      rw [filter_jobsFrom_lt (i0 + 0) bs (i0 + 1) (by omega), List.append_nil]
      simp only [List.getElem_cons_zero, Nat.add_zero]
      rw [List.filter_eq_self]
      intro j hj
      obtain ⟨r, _, rfl⟩ := List.mem_map.1 hj
      simp
    | succ k =>
      have h' : k < bs.length := by simpa using h
      have e : i0 + (k + 1) = i0 + 1 + k := by omega
      have hnil : (b.1.map (fun r => (i0, r, b.2))).filter (fun j => decide (j.1 = i0 + (k + 1)))
          = [] := by
        rw [List.filter_eq_nil_iff]
        intro j hj
        obtain ⟨r, _, rfl⟩ := List.mem_map.1 hj
        simp only [decide_eq_true_eq]
        omega
      rw [hnil, List.nil_append, List.getElem_cons_succ, e]
      exact ih (i0 + 1) k h'

theorem mem_jobsFrom (j : ℕ × ℕ × ℕ) : ∀ (bs : List (List ℕ × ℕ)) (i0 : ℕ), j ∈ jobsFrom i0 bs →
    ∃ k, ∃ h : k < bs.length, j.1 = i0 + k ∧ j.2.2 = (bs[k]).2 := by
  intro bs
  induction bs with
  | nil => intro i0 h; simp [jobsFrom] at h
  | cons b bs ih =>
    intro i0 h
    rw [jobsFrom, List.mem_append] at h
    rcases h with h | h
    · obtain ⟨r, _, rfl⟩ := List.mem_map.1 h
      exact ⟨0, by simp, rfl, rfl⟩
    · obtain ⟨k, hk, h1, h2⟩ := ih (i0 + 1) h
      refine ⟨k + 1, by simpa using hk, by omega, ?_⟩
      simpa using h2

theorem range_filter_map {α β : Type} (l : List α) (d : α) (p : α → Bool) (f : α → β) :
    ((List.range l.length).filter (fun k => p (l.getD k d))).map (fun k => f (l.getD k d))
      = (l.filter p).map f := by
  have h : (List.range l.length).map (fun k => l.getD k d) = l := by
    apply List.ext_getElem
    · simp
    · intro n h1 h2
      simp only [List.getElem_map, List.getElem_range]
      exact getD_eq_getElem' l n d h2
  conv_rhs => rw [← h]
  rw [List.filter_map, List.map_map]
  rfl

/-- the job set given by a list of `(task, release, cost)` triples -/
def mkJobSet (jobs : List (ℕ × ℕ × ℕ)) : JobSet :=
  ⟨jobs.length, fun k => (jobs.getD k (0, 0, 0)).1, fun k => (jobs.getD k (0, 0, 0)).2.1,
    fun k => (jobs.getD k (0, 0, 0)).2.2⟩

theorem relsOf_mk (jobs : List (ℕ × ℕ × ℕ)) (sched : ℕ → Option ℕ) (i : ℕ) :
    relsOf ((mkJobSet jobs).withSched sched) i
      = (jobs.filter (fun j => decide (j.1 = i))).map (fun j => j.2.1) :=
  range_filter_map jobs (0, 0, 0) (fun j => decide (j.1 = i)) (fun j => j.2.1)

theorem costsOf_mk (jobs : List (ℕ × ℕ × ℕ)) (sched : ℕ → Option ℕ) (i : ℕ) :
    costsOf ((mkJobSet jobs).withSched sched) i
      = (jobs.filter (fun j => decide (j.1 = i))).map (fun j => j.2.2) :=
  range_filter_map jobs (0, 0, 0) (fun j => decide (j.1 = i)) (fun j => j.2.2)

theorem sum_le_mul (C : ℕ) : ∀ l : List ℕ, (∀ x ∈ l, x ≤ C) → l.sum ≤ C * l.length
  | [], _ => by simp
  | x :: xs, h => by
    have h1 := h x (by simp)
    have h2 := sum_le_mul C xs (fun y hy => h y (by simp [hy]))
    simp only [List.sum_cons, List.length_cons, Nat.mul_add, Nat.mul_one]
    omega

theorem runSum_le (C : ℕ) (l : List ℕ) (h : ∀ x ∈ l, x ≤ C) (st m : ℕ) :
    runSum l st m ≤ C * m := by
  unfold runSum
  have h1 := sum_le_mul C ((l.drop st).take m)
    (fun x hx => h x (List.mem_of_mem_drop (List.mem_of_mem_take hx)))
  have h2 : ((l.drop st).take m).length ≤ m := by
    rw [List.length_take]; exact Nat.min_le_left _ _
  exact le_trans h1 (Nat.mul_le_mul_left C h2)

theorem criticalInstantAt_sorted (T J n t₀ : ℕ) :
    (criticalInstantAt T J n t₀).Pairwise (· ≤ ·) := by
  unfold criticalInstantAt criticalInstant
  rw [List.pairwise_map, List.pairwise_map]
  apply List.Pairwise.imp _ List.pairwise_lt_range
  intro a b hab
  have : a * T ≤ b * T := Nat.mul_le_mul_right T (Nat.le_of_lt hab)
  omega

/-- the task set as (arrival model, WCET) pairs -/
def arrSet (ts : List (ℕ × ℕ × ℕ)) : List (Arr × ℕ) :=
  ts.map fun p => (Arr.sporadic p.1 p.2.1, p.2.2)

theorem sporadicSet_eq (ts : List (ℕ × ℕ × ℕ)) :
    sporadicSet ts = (arrSet ts).map fun p => (p.1, Cost.scalar p.2) := by
  unfold sporadicSet arrSet
  rw [List.map_map]
  rfl

/-- the blocks of the critical-instant job set -/
def blocks (ts : List (ℕ × ℕ × ℕ)) (L t₀ : ℕ) : List (List ℕ × ℕ) :=
  ts.map fun p => (criticalInstantAt p.1 p.2.1 ((Arr.sporadic p.1 p.2.1).N L) t₀, p.2.2)

end TightExistsLemmas
open TightExistsLemmas TightLemmas FifoSoundLemmas

theorem fifo_tight_sporadic (ts : List (ℕ × ℕ × ℕ))
    (hwf : ∀ p ∈ ts, 1 ≤ p.1 ∧ 1 ≤ p.2.2) (limit R : ℕ)
    (hR : fifoRta (taskSetRB (sporadicSet ts)) limit = .ok R) (hRpos : 0 < R) :
    ∃ s : Sys, FifoLegal s ∧ Compliant s (sporadicSet ts) ∧
      ∃ j, j < s.n ∧ MeetsBound s j R ∧ ∀ R', R' < R → ¬ MeetsBound s j R' := by
  rw [sporadicSet_eq] at hR ⊢
  have hwf' : ∀ p ∈ arrSet ts, p.1.WF ∧ p.1.Exact ∧ 1 ≤ p.2 := by
    intro p hp
    obtain ⟨q, hq, rfl⟩ := List.mem_map.1 hp
    exact ⟨(hwf q hq).1, trivial, (hwf q hq).2⟩
  -- the busy-window length
  have h1 : (taskSetRB ((arrSet ts).map fun p => (p.1, Cost.scalar p.2))).ArrWF := by
    unfold taskSetRB; unfold RB.ArrWF
    apply arrWFList_map
    intro p hp
    obtain ⟨q, hq, rfl⟩ := List.mem_map.1 hp
    exact (hwf' q hq).1
  have h2 : (taskSetRB ((arrSet ts).map fun p => (p.1, Cost.scalar p.2))).Exact := by
    unfold taskSetRB; unfold RB.Exact
    apply exactList_map
    intro p hp
    obtain ⟨q, hq, rfl⟩ := List.mem_map.1 hp
    exact ⟨(hwf' q hq).2.1, Cost.scalar_strictPos _ (hwf' q hq).2.2⟩
  have hlim : 1 ≤ limit := by
    rcases Nat.eq_zero_or_pos limit with h0 | h
    · subst h0
      unfold fifoRta at hR
      rw [PruneFPLemmas.search_limit_zero] at hR
      simp at hR
    · exact h
  obtain ⟨L, hL⟩ : ∃ L, naiveSolve (fun x =>
      (taskSetRB ((arrSet ts).map fun p => (p.1, Cost.scalar p.2))).need x) limit = .ok L := by
    rcases naiveSolve_cases (fun x =>
      (taskSetRB ((arrSet ts).map fun p => (p.1, Cost.scalar p.2))).need x) limit with h | h
    · exact h
    · rw [fifo_eq_naive _ h1 h2 limit hlim] at hR
      unfold naiveFifo at hR
      rw [h] at hR
      simp at hR
  -- the job set
  let t₀ := maxList (ts.map fun p => p.2.1)
  have ht₀ : ∀ p ∈ ts, p.2.1 ≤ t₀ := fun p hp =>
    le_maxList_of_mem _ _ (List.mem_map.2 ⟨p, hp, rfl⟩)
  let jobs := jobsFrom 0 (blocks ts L t₀)
  have hblen : (blocks ts L t₀).length = ts.length := by simp [blocks]
  have halen : (arrSet ts).length = ts.length := by simp [arrSet]
  have hjob : ∀ k, k < jobs.length → (jobs.getD k (0, 0, 0)).1 < ts.length ∧
      ∀ h : (jobs.getD k (0, 0, 0)).1 < ts.length,
        (jobs.getD k (0, 0, 0)).2.2 = (ts[(jobs.getD k (0, 0, 0)).1]).2.2 := by
    intro k hk
    have hmem : jobs.getD k (0, 0, 0) ∈ jobs := by
      rw [getD_eq_getElem' _ _ _ hk]; exact List.getElem_mem hk
    obtain ⟨i, hi, e1, e2⟩ := mem_jobsFrom _ _ _ hmem
    rw [Nat.zero_add] at e1
    have hi' : i < ts.length := by rw [← hblen]; exact hi
    refine ⟨by rw [e1]; exact hi', ?_⟩
    intro h
    rw [e2]
    simp only [blocks, List.getElem_map, e1]
  have hpos : ∀ k, k < (mkJobSet jobs).n → 1 ≤ (mkJobSet jobs).cost k := by
    intro k hk
    obtain ⟨h1, h2⟩ := hjob k hk
    show 1 ≤ (jobs.getD k (0, 0, 0)).2.2
    rw [h2 h1]
    exact (hwf _ (List.getElem_mem h1)).2
  obtain ⟨sched, hl⟩ := exists_fifo_schedule (mkJobSet jobs) hpos
  have hfil : ∀ i (hi : i < ts.length), jobs.filter (fun j => decide (j.1 = i))
      = (criticalInstantAt (ts[i]).1 (ts[i]).2.1 ((Arr.sporadic (ts[i]).1 (ts[i]).2.1).N L) t₀).map
          (fun r => (i, r, (ts[i]).2.2)) := by
    intro i hi
    have := filter_jobsFrom (blocks ts L t₀) 0 i (by rw [hblen]; exact hi)
    rw [Nat.zero_add] at this
    rw [this]
    simp only [blocks, List.getElem_map]
  have hrels : ∀ i (hi : i < ts.length), relsOf ((mkJobSet jobs).withSched sched) i
      = criticalInstantAt (ts[i]).1 (ts[i]).2.1 ((Arr.sporadic (ts[i]).1 (ts[i]).2.1).N L) t₀ := by
    intro i hi
    rw [relsOf_mk, hfil i hi, List.map_map]
    simp [Function.comp_def]
  have hcosts : ∀ i (hi : i < ts.length),
      ∀ x ∈ costsOf ((mkJobSet jobs).withSched sched) i, x ≤ (ts[i]).2.2 := by
    intro i hi x hx
    rw [costsOf_mk, hfil i hi, List.map_map] at hx
    obtain ⟨r, _, rfl⟩ := List.mem_map.1 hx
    exact le_refl _
  have hc : Compliant ((mkJobSet jobs).withSched sched)
      ((arrSet ts).map fun p => (p.1, Cost.scalar p.2)) := by
    constructor
    · intro k hk
      rw [List.length_map, halen]
      exact (hjob k hk).1
    · intro i hi
      have hi' : i < ts.length := by rw [List.length_map, halen] at hi; exact hi
      have hT := (hwf _ (List.getElem_mem hi')).1
      simp only [arrSet, List.getElem_map]
      constructor
      · rw [hrels i hi']; exact criticalInstantAt_sorted _ _ _ _
      · rw [hrels i hi']; exact criticalInstantAt_admissible _ _ _ _ hT
      · intro st m
        exact runSum_le _ _ (hcosts i hi') st m
  refine ⟨(mkJobSet jobs).withSched sched, hl, hc, ?_⟩
  apply fifo_bound_attained_from _ hl (arrSet ts) hwf' hc _ limit R L t₀ hR hL _ hRpos
  · intro k hk
    obtain ⟨h1, h2⟩ := hjob k hk
    show (jobs.getD k (0, 0, 0)).2.2 = ((arrSet ts).getD (jobs.getD k (0, 0, 0)).1 default).2
    have aux : ∀ i (h : i < ts.length), (ts[i]).2.2 = ((arrSet ts).getD i default).2 := by
      intro i h
      rw [getD_eq_getElem' (arrSet ts) i default (by rw [halen]; exact h)]
      simp only [arrSet, List.getElem_map]
    rw [h2 h1]
    exact aux _ h1
  · intro i hi
    have hi' : i < ts.length := by rw [halen] at hi; exact hi
    rw [getD_eq_getElem' _ _ _ hi, hrels i hi']
    simp only [arrSet, List.getElem_map]
    exact criticalInstantAt_realisesFrom _ _ _ _ _ (hwf _ (List.getElem_mem hi')).1
      (ht₀ _ (List.getElem_mem hi')) (le_refl _)

end RTA.Sched
