import Mathlib.Algebra.BigOperators.Group.Finset.Basic
import Mathlib.Algebra.BigOperators.Group.Finset.Piecewise
import Mathlib.Algebra.Order.BigOperators.Group.Finset
import Mathlib.Tactic.Linarith
import RTA.Spec.Sched
/-! C03: FIFO busy-window soundness over a discrete-time schedule (schedule half):
from `0 < L`, `rbf L ≤ L`, `∀ A < L, rbf (A + 1) ≤ A + R` and workload compliance to
"every job completes within `R` of its release". -/

open Finset

namespace RTA.Sched

/-- service received up to `t` by the jobs released in `[a, b)` -/
def served (s : Sys) (a b t : ℕ) : ℕ := ∑ k ∈ range s.n, if a ≤ s.arr k ∧ s.arr k < b then svc s k t else 0

variable {s}

theorem svc_mono (j : ℕ) {a b : ℕ} (h : a ≤ b) : svc s j a ≤ svc s j b := by
  induction b, h using Nat.le_induction with
  | base => exact le_refl _
  | succ b _ ih => simp only [svc]; omega

theorem svc_le_cost (hl : FifoLegal s) (j t : ℕ) : svc s j t ≤ s.cost j ∨ svc s j t = 0 := by
  induction t with
  | zero => right; rfl
  | succ t ih =>
    simp only [svc]
    by_cases h : s.sched t = some j
    · have := (hl.valid t j h).2.2
      left; simp [h]; omega
    · simp [h]; exact ih

theorem svc_le_cost' (hl : FifoLegal s) (j t : ℕ) : svc s j t ≤ s.cost j := by
  rcases svc_le_cost hl j t with h | h <;> omega

theorem svc_zero_before (hl : FifoLegal s) (j t : ℕ) (h : t ≤ s.arr j) : svc s j t = 0 := by
  induction t with
  | zero => rfl
  | succ t ih =>
    simp only [svc]
    have : s.sched t ≠ some j := by
      intro hs
      have := (hl.valid t j hs).2.1
      omega
    simp [this]; exact ih (by omega)

theorem done_mono (hl : FifoLegal s) (j : ℕ) {a b : ℕ} (h : a ≤ b) (hd : svc s j a = s.cost j) :
    svc s j b = s.cost j := by
  have := svc_mono (s := s) j h
  have := svc_le_cost' hl j b
  omega

/-- if every slot of [a, a+len) serves a job arriving in [lo, hi), the service of that set grows by len -/
theorem served_busy (lo hi a : ℕ) :
    ∀ len, (∀ u, a ≤ u → u < a + len → ∃ j, s.sched u = some j ∧ j < s.n ∧ lo ≤ s.arr j ∧ s.arr j < hi) →
      served s lo hi (a + len) = served s lo hi a + len := by
  intro len
  induction len with
  | zero => intro _; simp
  | succ len ih =>
    intro h
    have ih' := ih (fun u h1 h2 => h u h1 (by omega))
    obtain ⟨j, hj, hjn, hjlo, hjhi⟩ := h (a + len) (by omega) (by omega)
    have : served s lo hi (a + (len + 1)) = served s lo hi (a + len) + 1 := by
      unfold served
      have e : a + (len + 1) = (a + len) + 1 := by omega
      rw [e]
      simp only [svc]
      have : ∀ k ∈ range s.n,
          (if lo ≤ s.arr k ∧ s.arr k < hi then svc s k (a+len) + (if s.sched (a+len) = some k then 1 else 0) else 0)
          = (if lo ≤ s.arr k ∧ s.arr k < hi then svc s k (a+len) else 0) + (if k = j then 1 else 0) := by
        intro k _
        by_cases hk : k = j
        · subst hk; simp [hj, hjlo, hjhi]
        · have : s.sched (a+len) ≠ some k := by rw [hj]; intro h; injection h with h; exact hk h.symm
          simp [this, hk]
      rw [sum_congr rfl this, sum_add_distrib]
      congr 1
      rw [sum_ite_eq']
      simp [hjn]
    rw [this, ih']; omega

theorem served_le_work (hl : FifoLegal s) (lo hi t : ℕ) : served s lo hi t ≤ work s lo hi := by
  unfold served work
  apply sum_le_sum
  intro k _
  split
  · exact svc_le_cost' hl k t
  · exact le_refl _

/-- if the set's service equals its work, every member is complete -/
theorem all_done_of_served_eq (hl : FifoLegal s) (lo hi t : ℕ) (h : served s lo hi t = work s lo hi)
    (k : ℕ) (hk : k < s.n) (h1 : lo ≤ s.arr k) (h2 : s.arr k < hi) : svc s k t = s.cost k := by
  unfold served work at h
  have hle : ∀ i ∈ range s.n, (if lo ≤ s.arr i ∧ s.arr i < hi then svc s i t else 0)
      ≤ (if lo ≤ s.arr i ∧ s.arr i < hi then s.cost i else 0) := by
    intro i _
    split
    · exact svc_le_cost' hl i t
    · exact le_refl _
  have := (sum_eq_sum_iff_of_le hle).1 h k (mem_range.2 hk)
  simpa [h1, h2] using this

def Quiet (s : Sys) (t : ℕ) : Prop := ∀ k < s.n, s.arr k < t → svc s k t = s.cost k

theorem served_zero_at_lo (hl : FifoLegal s) (lo hi : ℕ) : served s lo hi lo = 0 := by
  unfold served
  apply sum_eq_zero
  intro k _
  split
  · exact svc_zero_before hl k lo (by omega)
  · rfl

/-- Main theorem: FIFO response-time bound. -/
theorem fifo_sound (hl : FifoLegal s) (rbf : ℕ → ℕ)
    (hwork : ∀ t d, work s t (t + d) ≤ rbf d)
    (L R : ℕ) (hL : 0 < L) (hLfix : rbf L ≤ L)
    (hR : ∀ A, A < L → rbf (A + 1) ≤ A + R)
    (j : ℕ) (hj : j < s.n) : svc s j (s.arr j + R) = s.cost j := by
  classical
  -- the last quiet time before the arrival of j
  have hq0 : Quiet s 0 := by intro k _ h; omega
  let t0 := Nat.findGreatest (Quiet s) (s.arr j)
  have ht0q : Quiet s t0 := Nat.findGreatest_spec (P := Quiet s) (Nat.zero_le _) hq0
  have ht0le : t0 ≤ s.arr j := Nat.findGreatest_le _
  have ht0max : ∀ t, t0 < t → t ≤ s.arr j → ¬ Quiet s t := fun t h1 h2 => Nat.findGreatest_is_greatest h1 h2
  -- anything pending at u ≥ t0 arrived at or after t0
  have arr_ge : ∀ k u, k < s.n → t0 ≤ u → Pending s k u → t0 ≤ s.arr k := by
    intro k u hk hu hp
    by_contra hlt
    have := done_mono hl k hu (ht0q k hk (by omega))
    have := hp.2
    omega
  -- busy before arr j
  have busy1 : ∀ u, t0 ≤ u → u < s.arr j → ∃ j', s.sched u = some j' ∧ j' < s.n ∧ t0 ≤ s.arr j' ∧ s.arr j' ≤ u := by
    intro u hu1 hu2
    have hnq := ht0max (u+1) (by omega) (by omega)
    unfold Quiet at hnq
    push Not at hnq
    obtain ⟨k, hk, hka, hkn⟩ := hnq
    have hkp : Pending s k u := by
      refine ⟨by omega, ?_⟩
      have := svc_le_cost' hl k (u+1)
      have := svc_mono (s := s) k (show u ≤ u + 1 by omega)
      omega
    obtain ⟨j', hj'⟩ := hl.wc u ⟨k, hk, hkp⟩
    have hv := hl.valid u j' hj'
    have hf := hl.fifo u j' hj' k hk hkp
    exact ⟨j', hj', hv.1, arr_ge j' u hv.1 hu1 hv.2, by have := hkp.1; omega⟩
  -- (2) the offset is below L
  have hA : s.arr j - t0 < L := by
    by_contra hge
    have hge : t0 + L ≤ s.arr j := by omega
    have hb := served_busy (s := s) t0 (t0 + L) t0 L (by
      intro u h1 h2
      obtain ⟨j', a, b, c, d⟩ := busy1 u h1 (by omega)
      exact ⟨j', a, b, c, by omega⟩)
    rw [served_zero_at_lo hl] at hb
    have h1 := served_le_work hl t0 (t0+L) (t0+L)
    have h2 := hwork t0 L
    have heq : served s t0 (t0+L) (t0+L) = work s t0 (t0+L) := by omega
    apply ht0max (t0 + L) (by omega) hge
    intro k hk hka
    by_cases hlt : s.arr k < t0
    · exact done_mono hl k (by omega) (ht0q k hk hlt)
    · exact all_done_of_served_eq hl _ _ _ heq k hk (by omega) hka
  -- (3) j is done after W units
  set W := work s t0 (s.arr j + 1) with hW
  have hWle : W ≤ rbf (s.arr j - t0 + 1) := by
    have := hwork t0 (s.arr j - t0 + 1)
    have e : t0 + (s.arr j - t0 + 1) = s.arr j + 1 := by omega
    rw [e] at this; exact this
  have hdone : svc s j (t0 + W) = s.cost j := by
    by_contra hne
    have hlt : svc s j (t0 + W) < s.cost j := by
      have := svc_le_cost' hl j (t0 + W); omega
    have hb := served_busy (s := s) t0 (s.arr j + 1) t0 W (by
      intro u h1 h2
      by_cases hu : u < s.arr j
      · obtain ⟨j', a, b, c, d⟩ := busy1 u h1 hu
        exact ⟨j', a, b, c, by omega⟩
      · have hp : Pending s j u := by
          refine ⟨by omega, ?_⟩
          have := svc_mono (s := s) j (show u ≤ t0 + W by omega)
          omega
        obtain ⟨j', hj'⟩ := hl.wc u ⟨j, hj, hp⟩
        have hv := hl.valid u j' hj'
        have hf := hl.fifo u j' hj' j hj hp
        exact ⟨j', hj', hv.1, arr_ge j' u hv.1 h1 hv.2, by omega⟩)
    rw [served_zero_at_lo hl] at hb
    have heq : served s t0 (s.arr j + 1) (t0 + W) = work s t0 (s.arr j + 1) := by omega
    have := all_done_of_served_eq hl _ _ _ heq j hj ht0le (by omega)
    omega
  -- (4) arithmetic
  have := hR (s.arr j - t0) hA
  exact done_mono hl j (by omega) hdone


end RTA.Sched
