import RTA.Spec.Naive
import RTA.Props.C08
import RTA.Lemmas.RBSteps
/-! C06, shared part: the iterative search on a dedicated processor is the linear-scan
least solution; combining per-offset results over a pruned search space equals combining
them over every offset when the pruned space dominates. -/

namespace RTA
open RTA.Spec

/-- order on results: `ok a ≤ ok b` iff `a ≤ b`; every non-panic result is below a
divergence error -/
def Res.le : Res → Res → Prop
  | .ok a, .ok b => a ≤ b
  | .ok _, .div _ _ => True
  | .div o l, .div o' l' => o = o' ∧ l = l'
  | _, _ => False

/-- `scanLeast` finds the least element satisfying the predicate -/
theorem scanLeast_spec (P : Nat → Bool) (limit : Nat) :
    (∀ r, scanLeast P limit = some r ↔ (r ≤ limit ∧ P r = true ∧ ∀ r', r' < r → P r' = false)) ∧
    (scanLeast P limit = none ↔ ∀ r, r ≤ limit → P r = false) := by
  unfold scanLeast
  constructor
  · intro r
    rw [List.find?_range_eq_some]
    simp only [List.mem_range, Bool.not_eq_true']
    constructor
    · rintro ⟨a, b, c⟩; exact ⟨by omega, a, c⟩
    · rintro ⟨a, b, c⟩; exact ⟨b, by omega, c⟩
  · rw [List.find?_range_eq_none]
    simp only [Bool.not_eq_true']
    constructor
    · intro h r hr; exact h r (by omega)
    · intro h r hr; exact h r (by omega)

namespace PruneCoreLemmas

theorem naiveSolve_div_iff (w : Nat → Nat) (limit : Nat) :
    naiveSolve w limit = .div 0 limit ↔ ∀ r, r ≤ limit → ¬ w (max r 1) ≤ r := by
  have hs := scanLeast_spec (fun r => decide (w (max r 1) ≤ r)) limit
  unfold naiveSolve
  cases h : scanLeast (fun r => decide (w (max r 1) ≤ r)) limit with
  | none =>
    simp only [true_iff]
    intro r hr
    have := hs.2.1 h r hr
    simpa using this
  | some r0 =>
    have := (hs.1 r0).1 h
    simp only [reduceCtorEq, false_iff]
    intro hall
    have h2 := this.2.1
    simp only [decide_eq_true_eq] at h2
    exact hall r0 this.1 h2

theorem mem_le_maxList (l : List Nat) (x : Nat) (h : x ∈ l) : x ≤ maxList l := by
  induction l with
  | nil => cases h
  | cons a as ih =>
    simp only [maxList]
    rcases List.mem_cons.1 h with h | h
    · subst h; exact Nat.le_max_left _ _
    · exact Nat.le_trans (ih h) (Nat.le_max_right _ _)

theorem maxList_le_of_forall (l : List Nat) (b : Nat) (h : ∀ x ∈ l, x ≤ b) : maxList l ≤ b := by
  induction l with
  | nil => exact Nat.zero_le _
  | cons a as ih =>
    simp only [maxList]
    exact Nat.max_le.2 ⟨h a (by simp), ih (fun x hx => h x (by simp [hx]))⟩

theorem firstErr_div (o l : Nat) (rs : List Res)
    (hall : ∀ x ∈ rs, (∃ v, x = .ok v) ∨ x = .div o l) (hmem : Res.div o l ∈ rs) :
    firstErr rs = some (.div o l) := by
  induction rs with
  | nil => cases hmem
  | cons x xs ih =>
    rcases hall x (by simp) with ⟨v, hv⟩ | hx
    · subst hv
      simp only [firstErr]
      apply ih (fun y hy => hall y (by simp [hy]))
      rcases List.mem_cons.1 hmem with h | h
      · cases h
      · exact h
    · subst hx
      simp only [firstErr]

theorem pick_div (p : Res → Bool) (hp_ok : ∀ v, p (.ok v) = false)
    (hp_div : ∀ o l, p (.div o l) = true) (X : Res) (o l : Nat) (rs : List Res)
    (hall : ∀ x ∈ rs, (∃ v, x = .ok v) ∨ x = .div o l) (hmem : Res.div o l ∈ rs) :
    (if rs.any p then (rs.find? p).getD .panic else X) = .div o l := by
  have hany : rs.any p = true := by
    rw [List.any_eq_true]
    exact ⟨_, hmem, hp_div o l⟩
  rw [if_pos hany]
  cases hf : rs.find? p with
  | none =>
    rw [List.find?_eq_none] at hf
    exact absurd (hp_div o l) (hf _ hmem)
  | some x =>
    have hx := List.mem_of_find?_eq_some hf
    have hp := List.find?_some hf
    rcases hall x hx with ⟨v, hv⟩ | hx
    · subst hv; rw [hp_ok] at hp; cases hp
    · subst hx; rfl

theorem naiveMax_div (o l : Nat) (rs : List Res)
    (hall : ∀ x ∈ rs, (∃ v, x = .ok v) ∨ x = .div o l) (hmem : Res.div o l ∈ rs) :
    naiveMax rs = .div o l := by
  unfold naiveMax
  exact pick_div _ (fun _ => rfl) (fun _ _ => rfl) _ o l rs hall hmem

theorem firstErr_ok (g : Nat → Nat) (l : List Nat) :
    firstErr (l.map fun A => Res.ok (g A)) = none := by
  induction l with
  | nil => rfl
  | cons a as ih => simpa only [List.map_cons, firstErr] using ih

theorem maxOk_ok (g : Nat → Nat) (l : List Nat) :
    maxOk (l.map fun A => Res.ok (g A)) = maxList (l.map g) := by
  induction l with
  | nil => rfl
  | cons a as ih => simp only [List.map_cons, maxOk, maxList, ih]

theorem maxResponseTime_ok (g : Nat → Nat) (l : List Nat) :
    maxResponseTime (l.map fun A => Res.ok (g A)) = .ok (maxList (l.map g)) := by
  rw [RTA.C08.maxResponseTime_spec, firstErr_ok, maxOk_ok]
  intro x hx
  rcases List.mem_map.1 hx with ⟨a, _, rfl⟩
  intro h; cases h

theorem pick_ok (p : Res → Bool) (hp_ok : ∀ v, p (.ok v) = false) (Y Z : Res)
    (g : Nat → Nat) (l : List Nat) :
    (if (l.map fun A => Res.ok (g A)).any p then Y else Z) = Z := by
  have hany : (l.map fun A => Res.ok (g A)).any p = false := by
    rw [List.any_eq_false]
    intro x hx
    rcases List.mem_map.1 hx with ⟨a, _, rfl⟩
    rw [hp_ok]; exact Bool.false_ne_true
  rw [hany]
  rfl

theorem naiveMax_ok (g : Nat → Nat) (l : List Nat) :
    naiveMax (l.map fun A => Res.ok (g A)) = .ok (maxList (l.map g)) := by
  unfold naiveMax
  rw [pick_ok _ (fun _ => rfl), List.map_map]
  rfl

theorem res_le_div_left (o l : Nat) (x : Res) (h : Res.le (.div o l) x) : x = .div o l := by
  cases x with
  | ok v => exact h.elim
  | div o' l' => obtain ⟨rfl, rfl⟩ := h; rfl
  | panic => exact h.elim

end PruneCoreLemmas
open PruneCoreLemmas

/-- characterisation used by the analyses: `ok r` iff `r` is the least solution within the limit -/
theorem naiveSolve_ok_iff (w : Nat → Nat) (limit r : Nat) :
    naiveSolve w limit = .ok r ↔ (r ≤ limit ∧ w (max r 1) ≤ r ∧ ∀ r', r' < r → ¬ w (max r' 1) ≤ r') := by
  have hs := scanLeast_spec (fun r => decide (w (max r 1) ≤ r)) limit
  have hr := hs.1 r
  simp only [decide_eq_true_eq, decide_eq_false_iff_not] at hr
  rw [← hr]
  unfold naiveSolve
  cases h : scanLeast (fun r => decide (w (max r 1) ≤ r)) limit with
  | none => simp
  | some r0 => simp

theorem naiveSolve_cases (w : Nat → Nat) (limit : Nat) :
    (∃ r, naiveSolve w limit = .ok r) ∨ naiveSolve w limit = .div 0 limit := by
  unfold naiveSolve
  cases h : scanLeast (fun r => decide (w (max r 1) ≤ r)) limit with
  | none => right; rfl
  | some r0 => left; exact ⟨r0, rfl⟩

/-- on a dedicated processor the iterative fixed-point search returns exactly the
linear-scan least solution (for `limit ≥ 1`; with `limit = 0` the search always diverges) -/
theorem search_dedicated_eq_naive (w : Nat → Nat) (hw : Mono w) (limit : Nat) (hl : 1 ≤ limit) :
    search .dedicated limit w = naiveSolve w limit := by
  have hoff : InBusyWindow (Supply.stClosed .dedicated) w 0 := fun x _ => Nat.zero_le _
  have hsol : ∀ r, Sol (Supply.sbf .dedicated) w 0 r ↔ w (max r 1) ≤ r := by
    intro r
    unfold Sol
    simp only [Supply.sbf, Nat.zero_add]
  unfold search
  rcases naiveSolve_cases w limit with ⟨r, h⟩ | h
  · rw [h]
    rw [naiveSolve_ok_iff] at h
    rw [RTA.C08.search_ok_iff .dedicated trivial w hw 0 limit hoff]
    refine ⟨⟨h.1, (hsol r).2 h.2.1, ?_⟩, hl⟩
    intro r' hr'
    rcases Nat.lt_or_ge r' r with hlt | hge
    · exact absurd ((hsol r').1 hr') (h.2.2 r' hlt)
    · exact hge
  · rw [h]
    rw [naiveSolve_div_iff] at h
    rw [RTA.C08.search_div_iff .dedicated trivial w hw 0 limit hoff hl]
    intro r hr hs
    exact h r hr ((hsol r).1 hs)

/-- a pointwise smaller right-hand side has a smaller (or equal) least solution; a
divergence of the smaller one implies divergence of the larger one -/
theorem naiveSolve_mono (w w' : Nat → Nat) (limit : Nat) (h : ∀ x, w x ≤ w' x) :
    Res.le (naiveSolve w limit) (naiveSolve w' limit) := by
  rcases naiveSolve_cases w' limit with ⟨b, hb⟩ | hb
  · rw [hb]
    rw [naiveSolve_ok_iff] at hb
    rcases naiveSolve_cases w limit with ⟨a, ha⟩ | ha
    · rw [ha]
      rw [naiveSolve_ok_iff] at ha
      show a ≤ b
      rcases Nat.lt_or_ge b a with hlt | hge
      · exact absurd (Nat.le_trans (h _) hb.2.1) (ha.2.2 b hlt)
      · exact hge
    · rw [naiveSolve_div_iff] at ha
      exact absurd (Nat.le_trans (h _) hb.2.1) (ha b hb.1)
  · rw [hb]
    rcases naiveSolve_cases w limit with ⟨a, ha⟩ | ha
    · rw [ha]; exact trivial
    · rw [ha]; exact ⟨rfl, rfl⟩

/-- below the least solution `L` of a monotone `w` (with `w 1 > 0`), `w x > x` for `1 ≤ x < L` -/
theorem naiveSolve_below (w : Nat → Nat) (limit L : Nat) (h : naiveSolve w limit = .ok L) (x : Nat)
    (h1 : 1 ≤ x) (hx : x < L) : x < w x := by
  rw [naiveSolve_ok_iff] at h
  have := h.2.2 x hx
  have e : max x 1 = x := by omega
  rw [e] at this
  omega

/-- the same for plain maxima (FIFO) -/
theorem maxList_pruned (g : Nat → Nat) (L : Nat) (S : List Nat) (hS : ∀ A ∈ S, A < L)
    (hdom : ∀ A, A < L → ∃ A' ∈ S, g A ≤ g A') :
    maxList (S.map g) = maxList ((List.range L).map g) := by
  apply Nat.le_antisymm
  · apply maxList_le_of_forall
    intro x hx
    rcases List.mem_map.1 hx with ⟨A, hA, rfl⟩
    apply mem_le_maxList
    exact List.mem_map.2 ⟨A, List.mem_range.2 (hS A hA), rfl⟩
  · apply maxList_le_of_forall
    intro x hx
    rcases List.mem_map.1 hx with ⟨A, hA, rfl⟩
    obtain ⟨A', hA', hle⟩ := hdom A (List.mem_range.1 hA)
    exact Nat.le_trans hle (mem_le_maxList _ _ (List.mem_map.2 ⟨A', hA', rfl⟩))

/-- pruning lemma: if every per-offset result is `ok` or the one divergence error
`div 0 limit`, the pruned space `S ⊆ [0, L)` dominates every offset `A < L`, then
`max_response_time` over `S` equals the naive maximum over all of `[0, L)` -/
theorem maxResponseTime_pruned (f : Nat → Res) (L limit : Nat) (S : List Nat)
    (hS : ∀ A ∈ S, A < L)
    (hres : ∀ A, A < L → (∃ v, f A = .ok v) ∨ f A = .div 0 limit)
    (hdom : ∀ A, A < L → ∃ A' ∈ S, Res.le (f A) (f A')) :
    maxResponseTime (S.map f) = naiveMax ((List.range L).map f) := by
  by_cases hex : ∃ A, A < L ∧ f A = .div 0 limit
  · obtain ⟨A, hA, hfA⟩ := hex
    obtain ⟨A', hA', hle⟩ := hdom A hA
    rw [hfA] at hle
    have hfA' := res_le_div_left _ _ _ hle
    have hallS : ∀ x ∈ S.map f, (∃ v, x = Res.ok v) ∨ x = .div 0 limit := by
      intro x hx
      rcases List.mem_map.1 hx with ⟨a, ha, rfl⟩
      exact hres a (hS a ha)
    have hallR : ∀ x ∈ (List.range L).map f, (∃ v, x = Res.ok v) ∨ x = .div 0 limit := by
      intro x hx
      rcases List.mem_map.1 hx with ⟨a, ha, rfl⟩
      exact hres a (List.mem_range.1 ha)
    rw [naiveMax_div 0 limit _ hallR (List.mem_map.2 ⟨A, List.mem_range.2 hA, hfA⟩)]
    rw [RTA.C08.maxResponseTime_spec, firstErr_div 0 limit _ hallS (List.mem_map.2 ⟨A', hA', hfA'⟩)]
    intro x hx
    rcases hallS x hx with ⟨v, rfl⟩ | rfl <;> (intro h; cases h)
  · have hok : ∀ A, A < L → ∃ v, f A = .ok v := by
      intro A hA
      rcases hres A hA with h | h
      · exact h
      · exact absurd ⟨A, hA, h⟩ hex
    let g : Nat → Nat := fun A => match f A with | .ok v => v | _ => 0
    have hfg : ∀ A, A < L → f A = .ok (g A) := by
      intro A hA
      obtain ⟨v, hv⟩ := hok A hA
      show f A = .ok (match f A with | .ok v => v | _ => 0)
      rw [hv]
    have e1 : S.map f = S.map fun A => Res.ok (g A) :=
      List.map_congr_left (fun a ha => hfg a (hS a ha))
    have e2 : (List.range L).map f = (List.range L).map fun A => Res.ok (g A) :=
      List.map_congr_left (fun a ha => hfg a (List.mem_range.1 ha))
    rw [e1, e2, maxResponseTime_ok, naiveMax_ok]
    congr 1
    apply maxList_pruned g L S hS
    intro A hA
    obtain ⟨A', hA', hle⟩ := hdom A hA
    rw [hfg A hA, hfg A' (hS A' hA')] at hle
    exact ⟨A', hA', hle⟩

/-- between two consecutive increase points a monotone function is constant: if no
`δ ∈ (lo, hi]` is an increase point then `N hi = N lo` -/
theorem const_of_no_increase (N : Nat → Nat) (hm : MonoN N) (lo hi : Nat) (h : lo ≤ hi)
    (hno : ∀ δ, lo < δ → δ ≤ hi → ¬ N (δ - 1) < N δ) : N hi = N lo := by
  obtain ⟨k, rfl⟩ : ∃ k, hi = lo + k := ⟨hi - lo, by omega⟩
  clear h
  induction k with
  | zero => rfl
  | succ k ih =>
    have h1 := ih (fun δ a b => hno δ a (by omega))
    have h2 := hno (lo + (k + 1)) (by omega) (Nat.le_refl _)
    have e : lo + (k + 1) - 1 = lo + k := by omega
    rw [e] at h2
    have h3 := hm (lo + k) (lo + (k + 1)) (by omega)
    omega

/-- for a strictly increasing list `as` of offsets that contains `0`, every `A` has a
greatest member `A' ≤ A` -/
theorem exists_greatest_le (as : List Nat) (h0 : 0 ∈ as) (A : Nat) :
    ∃ A', A' ∈ as ∧ A' ≤ A ∧ ∀ B, B ∈ as → B ≤ A → B ≤ A' := by
  induction A with
  | zero => exact ⟨0, h0, Nat.le_refl _, fun B _ hB => hB⟩
  | succ A ih =>
    by_cases hmem : A + 1 ∈ as
    · exact ⟨A + 1, hmem, Nat.le_refl _, fun B _ hB => hB⟩
    · obtain ⟨A', h1, h2, h3⟩ := ih
      refine ⟨A', h1, by omega, ?_⟩
      intro B hB hle
      rcases Nat.eq_or_lt_of_le hle with e | hlt
      · subst e; exact absurd hB hmem
      · exact h3 B hB (by omega)

end RTA
