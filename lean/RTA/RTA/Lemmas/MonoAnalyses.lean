import RTA.Lemmas.PruneFP
import RTA.Lemmas.PruneEDF
import RTA.Lemmas.ArrAll
/-! C17: response-time bounds are monotone in workload (FP, EDF, FIFO).
Order on results: `Res.le` (`ok a ≤ ok b` iff `a ≤ b`; anything `≤` the divergence error;
never `div ≤ ok`), so "never decreases a bound and never turns an error into Ok". -/

namespace RTA
open RTA.Spec
open PruneCoreLemmas PruneFPLemmas PruneEDFLemmas

namespace MonoLemmas

/-! ### reading `naiveMax` -/

theorem pick_ok_inv (p : Res → Bool) (hp_ok : ∀ v, p (.ok v) = false)
    (hp_nok : ∀ x, (∀ v, x ≠ .ok v) → p x = true) (X : Res)
    (rs : List Res) (R : Nat)
    (h : (if rs.any p then (rs.find? p).getD .panic else X) = .ok R) :
    ∀ x ∈ rs, ∃ v, x = .ok v := by
  by_cases hany : rs.any p = true
  · rw [if_pos hany] at h
    exfalso
    cases hf : rs.find? p with
    | none =>
      rw [List.any_eq_true] at hany
      obtain ⟨x, hx, hpx⟩ := hany
      rw [List.find?_eq_none] at hf
      exact hf x hx hpx
    | some y =>
      rw [hf] at h
      have hp := List.find?_some hf
      simp only [Option.getD_some] at h
      rw [h, hp_ok] at hp
      cases hp
  · intro x hx
    cases x with
    | ok v => exact ⟨v, rfl⟩
    | div o l =>
      exfalso; apply hany
      rw [List.any_eq_true]
      exact ⟨_, hx, hp_nok _ (fun v h => by cases h)⟩
    | panic =>
      exfalso; apply hany
      rw [List.any_eq_true]
      exact ⟨_, hx, hp_nok _ (fun v h => by cases h)⟩

/-- an `ok` maximum: every element is `ok` -/
theorem naiveMax_ok_inv (rs : List Res) (R : Nat) (h : naiveMax rs = .ok R) :
    ∀ x ∈ rs, ∃ v, x = .ok v := by
  unfold naiveMax at h
  refine pick_ok_inv _ (fun _ => rfl) ?_ _ rs R h
  intro x hx
  cases x with
  | ok v => exact absurd rfl (hx v)
  | div o l => rfl
  | panic => rfl

/-- if every per-offset result is `ok` the maximum is the plain maximum of the values -/
theorem naiveMax_all_ok (f : Nat → Res) (l : List Nat) (h : ∀ A ∈ l, ∃ v, f A = .ok v) :
    ∃ g : Nat → Nat, (∀ A ∈ l, f A = .ok (g A)) ∧
      naiveMax (l.map f) = .ok (maxList (l.map g)) := by
  let g : Nat → Nat := fun A => match f A with | .ok v => v | _ => 0
  have hfg : ∀ A ∈ l, f A = .ok (g A) := by
    intro A hA
    obtain ⟨v, hv⟩ := h A hA
    show f A = .ok (match f A with | .ok v => v | _ => 0)
    rw [hv]
  refine ⟨g, hfg, ?_⟩
  have e : l.map f = l.map fun A => Res.ok (g A) := List.map_congr_left hfg
  rw [e, naiveMax_ok]

theorem naiveMax_cases (f : Nat → Res) (l : List Nat) (o lim : Nat)
    (hall : ∀ A ∈ l, (∃ v, f A = .ok v) ∨ f A = .div o lim) :
    (∃ v, naiveMax (l.map f) = .ok v) ∨ naiveMax (l.map f) = .div o lim := by
  by_cases hex : ∃ A ∈ l, f A = .div o lim
  · obtain ⟨A, hA, hfA⟩ := hex
    right
    apply naiveMax_div o lim
    · intro x hx
      rcases List.mem_map.1 hx with ⟨a, ha, rfl⟩
      exact hall a ha
    · exact List.mem_map.2 ⟨A, hA, hfA⟩
  · left
    have hok : ∀ A ∈ l, ∃ v, f A = .ok v := by
      intro A hA
      rcases hall A hA with h | h
      · exact h
      · exact absurd ⟨A, hA, h⟩ hex
    obtain ⟨g, _, hg⟩ := naiveMax_all_ok f l hok
    exact ⟨_, hg⟩

theorem res_le_div_of_cases (x : Res) (o lim : Nat)
    (h : (∃ v, x = .ok v) ∨ x = .div o lim) : Res.le x (.div o lim) := by
  rcases h with ⟨v, rfl⟩ | rfl
  · exact trivial
  · exact ⟨rfl, rfl⟩

/-- the general comparison of two all-offset maxima: a longer busy window, pointwise
larger per-offset results -/
theorem naiveMax_range_le (f f' : Nat → Res) (L L' limit : Nat) (hL : L ≤ L')
    (hres : ∀ A, (∃ v, f A = .ok v) ∨ f A = .div 0 limit)
    (hres' : ∀ A, (∃ v, f' A = .ok v) ∨ f' A = .div 0 limit)
    (hle : ∀ A, A < L → Res.le (f A) (f' A)) :
    Res.le (naiveMax ((List.range L).map f)) (naiveMax ((List.range L').map f')) := by
  by_cases hex' : ∃ A ∈ List.range L', f' A = .div 0 limit
  · obtain ⟨A, hA, hfA⟩ := hex'
    have e : naiveMax ((List.range L').map f') = .div 0 limit := by
      apply naiveMax_div 0 limit
      · intro x hx
        rcases List.mem_map.1 hx with ⟨a, _, rfl⟩
        exact hres' a
      · exact List.mem_map.2 ⟨A, hA, hfA⟩
    rw [e]
    exact res_le_div_of_cases _ 0 limit (naiveMax_cases f _ 0 limit (fun A _ => hres A))
  · have hok' : ∀ A ∈ List.range L', ∃ v, f' A = .ok v := by
      intro A hA
      rcases hres' A with h | h
      · exact h
      · exact absurd ⟨A, hA, h⟩ hex'
    have hok : ∀ A ∈ List.range L, ∃ v, f A = .ok v := by
      intro A hA
      have hAL := List.mem_range.1 hA
      obtain ⟨v', hv'⟩ := hok' A (List.mem_range.2 (by omega))
      have := hle A hAL
      rw [hv'] at this
      rcases hres A with h | h
      · exact h
      · rw [h] at this; exact this.elim
    obtain ⟨g, hg, e⟩ := naiveMax_all_ok f _ hok
    obtain ⟨g', hg', e'⟩ := naiveMax_all_ok f' _ hok'
    rw [e, e']
    show maxList _ ≤ maxList _
    apply maxList_le_of_forall
    intro x hx
    rcases List.mem_map.1 hx with ⟨A, hA, rfl⟩
    have hAL := List.mem_range.1 hA
    have hA' : A ∈ List.range L' := List.mem_range.2 (by omega)
    have := hle A hAL
    rw [hg A hA, hg' A hA'] at this
    exact Nat.le_trans this (mem_le_maxList _ _ (List.mem_map.2 ⟨A, hA', rfl⟩))

/-- the same for plain maxima (FIFO) -/
theorem maxList_range_le (g g' : Nat → Nat) (L L' : Nat) (hL : L ≤ L')
    (hle : ∀ A, A < L → g A ≤ g' A) :
    maxList ((List.range L).map g) ≤ maxList ((List.range L').map g') := by
  apply maxList_le_of_forall
  intro x hx
  rcases List.mem_map.1 hx with ⟨A, hA, rfl⟩
  have hAL := List.mem_range.1 hA
  exact Nat.le_trans (hle A hAL)
    (mem_le_maxList _ _ (List.mem_map.2 ⟨A, List.mem_range.2 (by omega), rfl⟩))

/-- the tail shared by the per-offset computations -/
def fin (A rem : Nat) : Res → Res
  | .ok AF => .ok (AF - A + rem)
  | e => e

theorem fin_le (A rem rem' : Nat) (r r' : Res) (hrem : rem ≤ rem') (h : Res.le r r') :
    Res.le (fin A rem r) (fin A rem' r') := by
  cases r <;> cases r' <;> simp only [Res.le, fin] at h ⊢ <;>
    first | omega | exact h | trivial

theorem fpF_eq_fin (tua : RB) (others : List RB) (B rem limit A : Nat) :
    fpF tua others B rem limit A =
      fin A rem (naiveSolve (fun AF => B + (tua.need (A + 1) - rem) + sumNeed others AF) limit) := by
  unfold fpF
  cases naiveSolve (fun AF => B + (tua.need (A + 1) - rem) + sumNeed others AF) limit <;> rfl

theorem edfPer_eq_fin (tua : RB) (D : Nat) (others : List EdfTask) (rem : Nat) (wb : Bool)
    (limit A : Nat) :
    edfPer tua D others rem wb limit A =
      fin A rem (naiveSolve (edfRhs tua D others rem wb A) limit) := by
  unfold edfPer
  cases naiveSolve (edfRhs tua D others rem wb A) limit <;> rfl

/-- `fin` of a solve that is stable under the limit -/
theorem fin_solve_stable (w : Nat → Nat) (A rem limit limit' v : Nat)
    (hst : ∀ r, naiveSolve w limit = .ok r → naiveSolve w limit' = .ok r)
    (h : fin A rem (naiveSolve w limit) = .ok v) :
    fin A rem (naiveSolve w limit') = fin A rem (naiveSolve w limit) := by
  rcases naiveSolve_cases w limit with ⟨r, hr⟩ | hd
  · rw [hst r hr, hr]
  · rw [hd] at h; cases h

/-! ### jitter -/

theorem prop_mono (a : Arr) (hwf : a.WF) (j j' d : Nat) (h : j ≤ j') :
    (Arr.prop j a).N d ≤ (Arr.prop j' a).N d := by
  simp only [Arr.N]
  split
  · exact Nat.le_refl _
  · exact Arr.N_mono a hwf _ _ (by omega)

theorem sporadic_jitter_mono (T : Nat) (hT : 1 ≤ T) (j j' d : Nat) (h : j ≤ j') :
    (Arr.sporadic T j).N d ≤ (Arr.sporadic T j').N d := by
  rw [sporadic_N_eq, sporadic_N_eq]
  split
  · exact Nat.le_refl _
  · exact ceilDiv_le_of_le T hT (by omega)

mutual
theorem withJitter_mono' : (a : Arr) → a.WF → ∀ j j' d, j ≤ j' →
    (a.withJitter j).N d ≤ (a.withJitter j').N d
  | .never, _, j, j', d, _ => by simp only [Arr.withJitter]; exact Nat.le_refl _
  | .periodic T, hwf, j, j', d, h => by
    simp only [Arr.WF] at hwf
    simp only [Arr.withJitter]
    exact sporadic_jitter_mono T hwf j j' d h
  | .sporadic T J, hwf, j, j', d, h => by
    simp only [Arr.WF] at hwf
    simp only [Arr.withJitter]
    exact sporadic_jitter_mono T hwf (J + j) (J + j') d (by omega)
  | .curve dm, hwf, j, j', d, h => by
    simp only [Arr.withJitter]
    exact prop_mono (.curve dm) hwf j j' d h
  | .xcurve dm, hwf, j, j', d, h => by
    simp only [Arr.withJitter]
    exact prop_mono (.xcurve dm) hwf j j' d h
  | .pfx hz st, hwf, j, j', d, h => by
    simp only [Arr.withJitter]
    exact prop_mono (.pfx hz st) hwf j j' d h
  | .prop J a, hwf, j, j', d, h => by
    simp only [Arr.WF] at hwf
    simp only [Arr.withJitter]
    exact prop_mono a hwf (J + j) (J + j') d (by omega)
  | .agg as, hwf, j, j', d, h => by
    simp only [Arr.WF] at hwf
    simp only [Arr.withJitter, Arr.N]
    exact withJitterList_mono' as hwf j j' d h
  | .sum a b, hwf, j, j', d, h => by
    simp only [Arr.WF] at hwf
    simp only [Arr.withJitter, Arr.N]
    exact Nat.add_le_add (withJitter_mono' a hwf.1 j j' d h) (withJitter_mono' b hwf.2 j j' d h)
theorem withJitterList_mono' : (as : List Arr) → Arr.WFlist as → ∀ j j' d, j ≤ j' →
    Arr.Nlist (Arr.withJitterList as j) d ≤ Arr.Nlist (Arr.withJitterList as j') d
  | [], _, j, j', d, _ => by simp only [Arr.withJitterList]; exact Nat.le_refl _
  | a :: as, hwf, j, j', d, h => by
    simp only [Arr.WFlist] at hwf
    simp only [Arr.withJitterList, Arr.Nlist]
    exact Nat.add_le_add (withJitter_mono' a hwf.1 j j' d h)
      (withJitterList_mono' as hwf.2 j j' d h)
end

theorem ceilDiv_param_le (a a' T T' : Nat) (hT' : 1 ≤ T') (hT : T' ≤ T) (ha : a ≤ a') :
    ceilDiv a T ≤ ceilDiv a' T' := by
  rw [ceilDiv_le_iff a T _ (by omega)]
  have h1 := le_ceilDiv_mul a' T' hT'
  have h2 : ceilDiv a' T' * T' ≤ ceilDiv a' T' * T := Nat.mul_le_mul_left _ hT
  omega

theorem sumNeed_cons (o : RB) (others : List RB) (d : Nat) :
    sumNeed (o :: others) d = o.need d + sumNeed others d := rfl

end MonoLemmas
open MonoLemmas

/-! ### the limit -/

/-- increasing the divergence limit never changes an `Ok` result -/
theorem naiveSolve_limit_stable (w : Nat → Nat) (limit limit' r : Nat) (h : naiveSolve w limit = .ok r)
    (hl : limit ≤ limit') : naiveSolve w limit' = .ok r := by
  rw [naiveSolve_ok_iff] at h ⊢
  exact ⟨by omega, h.2.1, h.2.2⟩

theorem naiveFifo_limit_stable (t : RB) (limit limit' R : Nat) (h : naiveFifo t limit = .ok R)
    (hl : limit ≤ limit') : naiveFifo t limit' = .ok R := by
  unfold naiveFifo at h ⊢
  rcases naiveSolve_cases (fun L => t.need L) limit with ⟨L, hL⟩ | hd
  · rw [naiveSolve_limit_stable _ limit limit' L hL hl]
    rw [hL] at h
    exact h
  · rw [hd] at h; cases h

theorem naiveFp_limit_stable (tua : RB) (others : List RB) (B rem limit limit' R : Nat)
    (h : naiveFp tua others B rem limit = .ok R) (hl : limit ≤ limit') :
    naiveFp tua others B rem limit' = .ok R := by
  rw [naiveFp_eq] at h ⊢
  rcases naiveSolve_cases (fun L => B + sumNeed others L + tua.need L) limit with ⟨L, hL⟩ | hd
  · rw [naiveSolve_limit_stable _ limit limit' L hL hl]
    rw [hL] at h
    have hok := naiveMax_ok_inv _ R h
    have e : (List.range L).map (fpF tua others B rem limit') =
        (List.range L).map (fpF tua others B rem limit) := by
      apply List.map_congr_left
      intro A hA
      obtain ⟨v, hv⟩ := hok _ (List.mem_map.2 ⟨A, hA, rfl⟩)
      rw [fpF_eq_fin] at hv
      rw [fpF_eq_fin, fpF_eq_fin]
      exact fin_solve_stable _ A rem limit limit' v
        (fun r hr => naiveSolve_limit_stable _ limit limit' r hr hl) hv
    show naiveMax ((List.range L).map (fpF tua others B rem limit')) = .ok R
    rw [e]
    exact h
  · rw [hd] at h; cases h

theorem naiveEdf_limit_stable (tua : RB) (D : Nat) (others : List EdfTask) (rem : Nat) (wb : Bool)
    (limit limit' R : Nat) (h : naiveEdf tua D others rem wb limit = .ok R) (hl : limit ≤ limit') :
    naiveEdf tua D others rem wb limit' = .ok R := by
  rw [naiveEdf_eq] at h ⊢
  rcases naiveSolve_cases (fun L => sumNeed (others.map (·.rb)) L + tua.need L) limit with
    ⟨L, hL⟩ | hd
  · rw [naiveSolve_limit_stable _ limit limit' L hL hl]
    rw [hL] at h
    have hok := naiveMax_ok_inv _ R h
    have e : (List.range L).map (edfPer tua D others rem wb limit') =
        (List.range L).map (edfPer tua D others rem wb limit) := by
      apply List.map_congr_left
      intro A hA
      obtain ⟨v, hv⟩ := hok _ (List.mem_map.2 ⟨A, hA, rfl⟩)
      rw [edfPer_eq_fin] at hv
      rw [edfPer_eq_fin, edfPer_eq_fin]
      exact fin_solve_stable _ A rem limit limit' v
        (fun r hr => naiveSolve_limit_stable _ limit limit' r hr hl) hv
    show naiveMax ((List.range L).map (edfPer tua D others rem wb limit')) = .ok R
    rw [e]
    exact h
  · rw [hd] at h; cases h

/-! ### the workload -/

theorem naiveFifo_mono (t t' : RB) (h : ∀ d, t.need d ≤ t'.need d) (limit : Nat) :
    Res.le (naiveFifo t limit) (naiveFifo t' limit) := by
  have hout := naiveSolve_mono (fun L => t.need L) (fun L => t'.need L) limit h
  unfold naiveFifo
  rcases naiveSolve_cases (fun L => t'.need L) limit with ⟨L', hL'⟩ | hd'
  · rw [hL'] at hout ⊢
    rcases naiveSolve_cases (fun L => t.need L) limit with ⟨L, hL⟩ | hd
    · rw [hL] at hout ⊢
      show maxList _ ≤ maxList _
      apply maxList_range_le _ _ L L' hout
      intro A _
      have := h (A + 1)
      show t.need (A + 1) - A ≤ t'.need (A + 1) - A
      omega
    · rw [hd] at hout; exact hout.elim
  · rw [hd']
    rcases naiveSolve_cases (fun L => t.need L) limit with ⟨L, hL⟩ | hd
    · rw [hL]; exact trivial
    · rw [hd]; exact ⟨rfl, rfl⟩

/-- harder system: more demand of the task under analysis (after subtracting the
run-to-completion remainder), more interfering demand, more blocking, a larger remainder -/
theorem naiveFp_mono (tua tua' : RB) (others others' : List RB) (B B' rem rem' limit : Nat)
    (htua : ∀ d, tua.need d ≤ tua'.need d)
    (hown : ∀ d, tua.need d - rem ≤ tua'.need d - rem')
    (hoth : ∀ d, sumNeed others d ≤ sumNeed others' d) (hB : B ≤ B') (hrem : rem ≤ rem') :
    Res.le (naiveFp tua others B rem limit) (naiveFp tua' others' B' rem' limit) := by
  have hout := naiveSolve_mono (fun L => B + sumNeed others L + tua.need L)
    (fun L => B' + sumNeed others' L + tua'.need L) limit (fun x => by
      show B + sumNeed others x + tua.need x ≤ B' + sumNeed others' x + tua'.need x
      have := hoth x; have := htua x; omega)
  rw [naiveFp_eq, naiveFp_eq]
  rcases naiveSolve_cases (fun L => B' + sumNeed others' L + tua'.need L) limit with ⟨L', hL'⟩ | hd'
  · rw [hL'] at hout ⊢
    rcases naiveSolve_cases (fun L => B + sumNeed others L + tua.need L) limit with ⟨L, hL⟩ | hd
    · rw [hL] at hout ⊢
      apply naiveMax_range_le _ _ L L' limit hout (fpF_cases tua others B rem limit)
        (fpF_cases tua' others' B' rem' limit)
      intro A _
      rw [fpF_eq_fin, fpF_eq_fin]
      apply fin_le A rem rem' _ _ hrem
      apply naiveSolve_mono
      intro x
      show B + (tua.need (A + 1) - rem) + sumNeed others x ≤
        B' + (tua'.need (A + 1) - rem') + sumNeed others' x
      have := hoth x; have := hown (A + 1); omega
    · rw [hd] at hout; exact hout.elim
  · rw [hd']
    rcases naiveSolve_cases (fun L => B + sumNeed others L + tua.need L) limit with ⟨L, hL⟩ | hd
    · rw [hL]
      exact res_le_div_of_cases _ 0 limit
        (naiveMax_cases _ _ 0 limit (fun A _ => fpF_cases tua others B rem limit A))
    · rw [hd]; exact ⟨rfl, rfl⟩

theorem naiveEdf_mono (tua tua' : RB) (D : Nat) (others others' : List EdfTask) (rem rem' : Nat)
    (wb : Bool) (limit : Nat)
    (htua : ∀ d, tua.need d ≤ tua'.need d)
    (hown : ∀ d, tua.need d - rem ≤ tua'.need d - rem')
    (htot : ∀ d, sumNeed (others.map (·.rb)) d ≤ sumNeed (others'.map (·.rb)) d)
    (hhep : ∀ A AF, edfHepWorkload others D A AF ≤ edfHepWorkload others' D A AF)
    (hblk : ∀ A, edfBlocking others D A ≤ edfBlocking others' D A) (hrem : rem ≤ rem') :
    Res.le (naiveEdf tua D others rem wb limit) (naiveEdf tua' D others' rem' wb limit) := by
  have hout := naiveSolve_mono (fun L => sumNeed (others.map (·.rb)) L + tua.need L)
    (fun L => sumNeed (others'.map (·.rb)) L + tua'.need L) limit (fun x => by
      show sumNeed (others.map (·.rb)) x + tua.need x ≤ sumNeed (others'.map (·.rb)) x + tua'.need x
      have := htot x; have := htua x; omega)
  rw [naiveEdf_eq, naiveEdf_eq]
  rcases naiveSolve_cases (fun L => sumNeed (others'.map (·.rb)) L + tua'.need L) limit with
    ⟨L', hL'⟩ | hd'
  · rw [hL'] at hout ⊢
    rcases naiveSolve_cases (fun L => sumNeed (others.map (·.rb)) L + tua.need L) limit with
      ⟨L, hL⟩ | hd
    · rw [hL] at hout ⊢
      apply naiveMax_range_le _ _ L L' limit hout (edfPer_cases tua D others rem wb limit)
        (edfPer_cases tua' D others' rem' wb limit)
      intro A _
      rw [edfPer_eq_fin, edfPer_eq_fin]
      apply fin_le A rem rem' _ _ hrem
      apply naiveSolve_mono
      intro x
      unfold edfRhs
      have := hhep A x; have := hown (A + 1); have := hblk A
      cases wb
      · simp only [Bool.false_eq_true, if_false]; omega
      · simp only [if_true]; omega
    · rw [hd] at hout; exact hout.elim
  · rw [hd']
    rcases naiveSolve_cases (fun L => sumNeed (others.map (·.rb)) L + tua.need L) limit with
      ⟨L, hL⟩ | hd
    · rw [hL]
      exact res_le_div_of_cases _ 0 limit
        (naiveMax_cases _ _ 0 limit (fun A _ => edfPer_cases tua D others rem wb limit A))
    · rw [hd]; exact ⟨rfl, rfl⟩

/-! ### single-parameter hardenings of the inputs -/

/-- more release jitter: more arrivals in every window -/
theorem Arr.withJitter_mono (a : Arr) (hwf : a.WF) (j j' d : Nat) (h : j ≤ j') :
    (a.withJitter j).N d ≤ (a.withJitter j').N d := by
  exact withJitter_mono' a hwf j j' d h

/-- a shorter period / more jitter of a sporadic task: more arrivals -/
theorem sporadic_param_mono (T T' J J' d : Nat) (hT' : 1 ≤ T') (hT : T' ≤ T) (hJ : J ≤ J') :
    (Arr.sporadic T J).N d ≤ (Arr.sporadic T' J').N d := by
  rw [sporadic_N_eq, sporadic_N_eq]
  split
  · exact Nat.le_refl _
  · exact ceilDiv_param_le _ _ T T' hT' hT (by omega)

theorem periodic_param_mono (T T' d : Nat) (hT' : 1 ≤ T') (hT : T' ≤ T) :
    (Arr.periodic T).N d ≤ (Arr.periodic T').N d := by
  rw [periodic_N_eq, periodic_N_eq]
  exact ceilDiv_param_le _ _ T T' hT' hT (Nat.le_refl _)

/-- a larger WCET: more demand, also after subtracting the NP remainder `C - 1` -/
theorem scalar_cost_mono (a : Arr) (C C' d : Nat) (h : C ≤ C') :
    (RB.rbf a (.scalar C)).need d ≤ (RB.rbf a (.scalar C')).need d ∧
    (RB.rbf a (.scalar C)).need d - (C - 1) ≤ (RB.rbf a (.scalar C')).need d - (C' - 1) := by
  simp only [RB.need, Cost.ofJobs]
  have h1 : C * a.N d ≤ C' * a.N d := Nat.mul_le_mul_right _ h
  refine ⟨h1, ?_⟩
  cases hn : a.N d with
  | zero => simp
  | succ m =>
    have h2 : C * m ≤ C' * m := Nat.mul_le_mul_right _ h
    rw [Nat.mul_succ, Nat.mul_succ]
    omega

/-- adding an interfering task -/
theorem sumNeed_cons_le (o : RB) (others : List RB) (d : Nat) : sumNeed others d ≤ sumNeed (o :: others) d := by
  rw [sumNeed_cons]; omega

theorem edf_add_task (o : EdfTask) (others : List EdfTask) (D : Nat) :
    (∀ d, sumNeed (others.map (·.rb)) d ≤ sumNeed ((o :: others).map (·.rb)) d) ∧
    (∀ A AF, edfHepWorkload others D A AF ≤ edfHepWorkload (o :: others) D A AF) ∧
    (∀ A, edfBlocking others D A ≤ edfBlocking (o :: others) D A) := by
  refine ⟨?_, ?_, ?_⟩
  · intro d
    rw [List.map_cons, sumNeed_cons]; omega
  · intro A AF
    unfold edfHepWorkload
    rw [List.map_cons]
    simp only [sumList]
    omega
  · intro A
    unfold edfBlocking
    apply maxList_subset
    intro x hx
    rw [List.mem_map] at hx ⊢
    obtain ⟨o', ho', rfl⟩ := hx
    refine ⟨o', ?_, rfl⟩
    rw [List.mem_filter] at ho' ⊢
    exact ⟨List.mem_cons_of_mem _ ho'.1, ho'.2⟩

/-- a longer non-preemptive segment of another task: more blocking, nothing else changes -/
theorem edfBlocking_seg_mono (pre post : List EdfTask) (o : EdfTask) (seg' : Nat) (h : o.seg ≤ seg')
    (D A : Nat) :
    edfBlocking (pre ++ o :: post) D A ≤ edfBlocking (pre ++ { o with seg := seg' } :: post) D A := by
  unfold edfBlocking
  apply maxList_le
  intro x hx
  rw [List.mem_map] at hx
  obtain ⟨o1, ho1, rfl⟩ := hx
  rw [List.mem_filter] at ho1
  obtain ⟨hmem, hp⟩ := ho1
  rw [List.mem_append, List.mem_cons] at hmem
  rcases hmem with hmem | rfl | hmem
  · apply le_maxList_of_mem
    rw [List.mem_map]
    refine ⟨o1, ?_, rfl⟩
    rw [List.mem_filter]
    exact ⟨List.mem_append_left _ hmem, hp⟩
  · have hin : (({ o1 with seg := seg' } : EdfTask).seg - 1) ∈
        ((pre ++ { o1 with seg := seg' } :: post).filter fun o =>
          decide (o.D > D + A) && decide (o.rb.need 1 > 0)).map fun o => o.seg - 1 := by
      rw [List.mem_map]
      refine ⟨{ o1 with seg := seg' }, ?_, rfl⟩
      rw [List.mem_filter]
      exact ⟨List.mem_append_right _ (List.mem_cons_self), hp⟩
    have := le_maxList_of_mem _ _ hin
    have e : ({ o1 with seg := seg' } : EdfTask).seg = seg' := rfl
    rw [e] at this
    omega
  · apply le_maxList_of_mem
    rw [List.mem_map]
    refine ⟨o1, ?_, rfl⟩
    rw [List.mem_filter]
    exact ⟨List.mem_append_right _ (List.mem_cons_of_mem _ hmem), hp⟩

/-! ### transfer to the analyses (through C06) -/

theorem fifo_mono (t t' : RB) (hwf : t.ArrWF) (hex : t.Exact) (hwf' : t'.ArrWF) (hex' : t'.Exact)
    (h : ∀ d, t.need d ≤ t'.need d) (limit : Nat) (hl : 1 ≤ limit) :
    Res.le (fifoRta t limit) (fifoRta t' limit) := by
  rw [fifo_eq_naive t hwf hex limit hl, fifo_eq_naive t' hwf' hex' limit hl]
  exact naiveFifo_mono t t' h limit

theorem fpCore_mono (tua tua' : RB) (others others' : List RB) (B B' rem rem' limit : Nat)
    (hwf : tua.ArrWF) (hex : tua.Exact) (ho : OthersOK others)
    (hwf' : tua'.ArrWF) (hex' : tua'.Exact) (ho' : OthersOK others') (hl : 1 ≤ limit)
    (hpos : 0 < tua.need 1)
    (hstep : ∀ A, tua.need A < tua.need (A + 1) → tua.need A + rem < tua.need (A + 1))
    (hstep' : ∀ A, tua'.need A < tua'.need (A + 1) → tua'.need A + rem' < tua'.need (A + 1))
    (htua : ∀ d, tua.need d ≤ tua'.need d)
    (hown : ∀ d, tua.need d - rem ≤ tua'.need d - rem')
    (hoth : ∀ d, sumNeed others d ≤ sumNeed others' d) (hB : B ≤ B') (hrem : rem ≤ rem') :
    Res.le (fpCore tua others B rem limit) (fpCore tua' others' B' rem' limit) := by
  have hpos' : 0 < tua'.need 1 := Nat.lt_of_lt_of_le hpos (htua 1)
  rw [fpCore_eq_naive tua others B rem limit hwf hex ho hl hpos hstep,
    fpCore_eq_naive tua' others' B' rem' limit hwf' hex' ho' hl hpos' hstep']
  exact naiveFp_mono tua tua' others others' B B' rem rem' limit htua hown hoth hB hrem

theorem edfCore_mono (tua tua' : RB) (D : Nat) (others others' : List EdfTask) (rem rem' : Nat)
    (wb : Bool) (limit : Nat)
    (hwf : tua.ArrWF) (hex : tua.Exact) (ho : EdfOthersOK others)
    (hwf' : tua'.ArrWF) (hex' : tua'.Exact) (ho' : EdfOthersOK others') (hl : 1 ≤ limit)
    (hpos : 0 < tua.need 1)
    (hstep : ∀ A, tua.need A < tua.need (A + 1) → tua.need A + rem < tua.need (A + 1))
    (hstep' : ∀ A, tua'.need A < tua'.need (A + 1) → tua'.need A + rem' < tua'.need (A + 1))
    (htua : ∀ d, tua.need d ≤ tua'.need d)
    (hown : ∀ d, tua.need d - rem ≤ tua'.need d - rem')
    (htot : ∀ d, sumNeed (others.map (·.rb)) d ≤ sumNeed (others'.map (·.rb)) d)
    (hhep : ∀ A AF, edfHepWorkload others D A AF ≤ edfHepWorkload others' D A AF)
    (hblk : ∀ A, edfBlocking others D A ≤ edfBlocking others' D A) (hrem : rem ≤ rem') :
    Res.le (edfCore tua D others rem wb limit) (edfCore tua' D others' rem' wb limit) := by
  have hpos' : 0 < tua'.need 1 := Nat.lt_of_lt_of_le hpos (htua 1)
  rw [edfCore_eq_naive tua D others rem wb limit hwf hex ho hl hpos hstep,
    edfCore_eq_naive tua' D others' rem' wb limit hwf' hex' ho' hl hpos' hstep']
  exact naiveEdf_mono tua tua' D others others' rem rem' wb limit htua hown htot hhep hblk hrem

/-- increasing the limit never changes an `Ok` result of the analyses -/
theorem fpCore_limit_stable (tua : RB) (others : List RB) (B rem limit limit' R : Nat)
    (hwf : tua.ArrWF) (hex : tua.Exact) (ho : OthersOK others)
    (hstep : ∀ A, tua.need A < tua.need (A + 1) → tua.need A + rem < tua.need (A + 1))
    (hpos : 0 < tua.need 1) (h : fpCore tua others B rem limit = .ok R) (hl : limit ≤ limit') :
    fpCore tua others B rem limit' = .ok R := by
  have hl1 : 1 ≤ limit := by
    rcases Nat.eq_zero_or_pos limit with h0 | h0
    · subst h0
      rw [fpCore_eq, search_limit_zero] at h
      cases h
    · exact h0
  rw [fpCore_eq_naive tua others B rem limit hwf hex ho hl1 hpos hstep] at h
  rw [fpCore_eq_naive tua others B rem limit' hwf hex ho (by omega) hpos hstep]
  exact naiveFp_limit_stable tua others B rem limit limit' R h hl

theorem edfCore_limit_stable (tua : RB) (D : Nat) (others : List EdfTask) (rem : Nat) (wb : Bool)
    (limit limit' R : Nat) (hwf : tua.ArrWF) (hex : tua.Exact) (ho : EdfOthersOK others)
    (hstep : ∀ A, tua.need A < tua.need (A + 1) → tua.need A + rem < tua.need (A + 1))
    (hpos : 0 < tua.need 1) (h : edfCore tua D others rem wb limit = .ok R) (hl : limit ≤ limit') :
    edfCore tua D others rem wb limit' = .ok R := by
  have hl1 : 1 ≤ limit := by
    rcases Nat.eq_zero_or_pos limit with h0 | h0
    · subst h0
      rw [edfCore_eq, search_limit_zero] at h
      cases h
    · exact h0
  rw [edfCore_eq_naive tua D others rem wb limit hwf hex ho hl1 hpos hstep] at h
  rw [edfCore_eq_naive tua D others rem wb limit' hwf hex ho (by omega) hpos hstep]
  exact naiveEdf_limit_stable tua D others rem wb limit limit' R h hl

theorem fifo_limit_stable (t : RB) (hwf : t.ArrWF) (hex : t.Exact) (limit limit' R : Nat)
    (h : fifoRta t limit = .ok R) (hl : limit ≤ limit') : fifoRta t limit' = .ok R := by
  have hl1 : 1 ≤ limit := by
    rcases Nat.eq_zero_or_pos limit with h0 | h0
    · subst h0
      unfold fifoRta at h
      rw [search_limit_zero] at h
      cases h
    · exact h0
  rw [fifo_eq_naive t hwf hex limit hl1] at h
  rw [fifo_eq_naive t hwf hex limit' (by omega)]
  exact naiveFifo_limit_stable t limit limit' R h hl

end RTA
