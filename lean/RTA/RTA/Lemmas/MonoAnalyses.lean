import RTA.Lemmas.PruneFP
import RTA.Lemmas.PruneEDF
import RTA.Lemmas.ArrAll
/-! C17: response-time bounds are monotone in workload (FP, EDF, FIFO).
Order on results: `Res.le` (`ok a ≤ ok b` iff `a ≤ b`; anything `≤` the divergence error;
never `div ≤ ok`), so "never decreases a bound and never turns an error into Ok". -/

namespace RTA
open RTA.Spec

/-! ### the limit -/

/-- increasing the divergence limit never changes an `Ok` result -/
theorem naiveSolve_limit_stable (w : Nat → Nat) (limit limit' r : Nat) (h : naiveSolve w limit = .ok r)
    (hl : limit ≤ limit') : naiveSolve w limit' = .ok r := by
  sorry

theorem naiveFifo_limit_stable (t : RB) (limit limit' R : Nat) (h : naiveFifo t limit = .ok R)
    (hl : limit ≤ limit') : naiveFifo t limit' = .ok R := by
  sorry

theorem naiveFp_limit_stable (tua : RB) (others : List RB) (B rem limit limit' R : Nat)
    (h : naiveFp tua others B rem limit = .ok R) (hl : limit ≤ limit') :
    naiveFp tua others B rem limit' = .ok R := by
  sorry

theorem naiveEdf_limit_stable (tua : RB) (D : Nat) (others : List EdfTask) (rem : Nat) (wb : Bool)
    (limit limit' R : Nat) (h : naiveEdf tua D others rem wb limit = .ok R) (hl : limit ≤ limit') :
    naiveEdf tua D others rem wb limit' = .ok R := by
  sorry

/-! ### the workload -/

theorem naiveFifo_mono (t t' : RB) (h : ∀ d, t.need d ≤ t'.need d) (limit : Nat) :
    Res.le (naiveFifo t limit) (naiveFifo t' limit) := by
  sorry

/-- harder system: more demand of the task under analysis (after subtracting the
run-to-completion remainder), more interfering demand, more blocking, a larger remainder -/
theorem naiveFp_mono (tua tua' : RB) (others others' : List RB) (B B' rem rem' limit : Nat)
    (htua : ∀ d, tua.need d ≤ tua'.need d)
    (hown : ∀ d, tua.need d - rem ≤ tua'.need d - rem')
    (hoth : ∀ d, sumNeed others d ≤ sumNeed others' d) (hB : B ≤ B') (hrem : rem ≤ rem') :
    Res.le (naiveFp tua others B rem limit) (naiveFp tua' others' B' rem' limit) := by
  sorry

theorem naiveEdf_mono (tua tua' : RB) (D : Nat) (others others' : List EdfTask) (rem rem' : Nat)
    (wb : Bool) (limit : Nat)
    (htua : ∀ d, tua.need d ≤ tua'.need d)
    (hown : ∀ d, tua.need d - rem ≤ tua'.need d - rem')
    (htot : ∀ d, sumNeed (others.map (·.rb)) d ≤ sumNeed (others'.map (·.rb)) d)
    (hhep : ∀ A AF, edfHepWorkload others D A AF ≤ edfHepWorkload others' D A AF)
    (hblk : ∀ A, edfBlocking others D A ≤ edfBlocking others' D A) (hrem : rem ≤ rem') :
    Res.le (naiveEdf tua D others rem wb limit) (naiveEdf tua' D others' rem' wb limit) := by
  sorry

/-! ### single-parameter hardenings of the inputs -/

/-- more release jitter: more arrivals in every window -/
theorem Arr.withJitter_mono (a : Arr) (hwf : a.WF) (j j' d : Nat) (h : j ≤ j') :
    (a.withJitter j).N d ≤ (a.withJitter j').N d := by
  sorry

/-- a shorter period / more jitter of a sporadic task: more arrivals -/
theorem sporadic_param_mono (T T' J J' d : Nat) (hT' : 1 ≤ T') (hT : T' ≤ T) (hJ : J ≤ J') :
    (Arr.sporadic T J).N d ≤ (Arr.sporadic T' J').N d := by
  sorry

theorem periodic_param_mono (T T' d : Nat) (hT' : 1 ≤ T') (hT : T' ≤ T) :
    (Arr.periodic T).N d ≤ (Arr.periodic T').N d := by
  sorry

/-- a larger WCET: more demand, also after subtracting the NP remainder `C - 1` -/
theorem scalar_cost_mono (a : Arr) (C C' d : Nat) (h : C ≤ C') :
    (RB.rbf a (.scalar C)).need d ≤ (RB.rbf a (.scalar C')).need d ∧
    (RB.rbf a (.scalar C)).need d - (C - 1) ≤ (RB.rbf a (.scalar C')).need d - (C' - 1) := by
  sorry

/-- adding an interfering task -/
theorem sumNeed_cons_le (o : RB) (others : List RB) (d : Nat) : sumNeed others d ≤ sumNeed (o :: others) d := by
  sorry

theorem edf_add_task (o : EdfTask) (others : List EdfTask) (D : Nat) :
    (∀ d, sumNeed (others.map (·.rb)) d ≤ sumNeed ((o :: others).map (·.rb)) d) ∧
    (∀ A AF, edfHepWorkload others D A AF ≤ edfHepWorkload (o :: others) D A AF) ∧
    (∀ A, edfBlocking others D A ≤ edfBlocking (o :: others) D A) := by
  sorry

/-- a longer non-preemptive segment of another task: more blocking, nothing else changes -/
theorem edfBlocking_seg_mono (pre post : List EdfTask) (o : EdfTask) (seg' : Nat) (h : o.seg ≤ seg')
    (D A : Nat) :
    edfBlocking (pre ++ o :: post) D A ≤ edfBlocking (pre ++ { o with seg := seg' } :: post) D A := by
  sorry

/-! ### transfer to the analyses (through C06) -/

theorem fifo_mono (t t' : RB) (hwf : t.ArrWF) (hex : t.Exact) (hwf' : t'.ArrWF) (hex' : t'.Exact)
    (h : ∀ d, t.need d ≤ t'.need d) (limit : Nat) (hl : 1 ≤ limit) :
    Res.le (fifoRta t limit) (fifoRta t' limit) := by
  sorry

theorem fpCore_mono (tua tua' : RB) (others others' : List RB) (B B' rem rem' limit : Nat)
    (hwf : tua.ArrWF) (hex : tua.Exact) (ho : OthersOK others)
    (hwf' : tua'.ArrWF) (hex' : tua'.Exact) (ho' : OthersOK others') (hl : 1 ≤ limit)
    (hpos : 0 < tua.need 1)
    (hstep : ∀ A, tua.need A < tua.need (A + 1) → tua.need A + rem < tua.need (A + 1))
    (hstep' : ∀ A, tua'.need A < tua'.need (A + 1) → tua'.need A + rem' < tua'.need (A + 1))
    (htua : ∀ d, tua.need d ≤ tua'.need d)
    (hown : ∀ d, tua.need d - rem ≤ tua'.need d - rem')
    (hoth : ∀ d, sumNeed others d ≤ sumNeed others' d) (hB : B ≤ B') (hrem : rem ≤ rem') :
    Res.le (fpCore tua others B rem limit) (fpCore tua' others' B' rem' limit) := by
  sorry

theorem edfCore_mono (tua tua' : RB) (D : Nat) (others others' : List EdfTask) (rem rem' : Nat)
    (wb : Bool) (limit : Nat)
    (hwf : tua.ArrWF) (hex : tua.Exact) (ho : EdfOthersOK others)
    (hwf' : tua'.ArrWF) (hex' : tua'.Exact) (ho' : EdfOthersOK others') (hl : 1 ≤ limit)
    (hpos : 0 < tua.need 1)
    (hstep : ∀ A, tua.need A < tua.need (A + 1) → tua.need A + rem < tua.need (A + 1))
    (hstep' : ∀ A, tua'.need A < tua'.need (A + 1) → tua'.need A + rem' < tua'.need (A + 1))
    (htua : ∀ d, tua.need d ≤ tua'.need d)
    (hown : ∀ d, tua.need d - rem ≤ tua'.need d - rem')
    (htot : ∀ d, sumNeed (others.map (·.rb)) d ≤ sumNeed (others'.map (·.rb)) d)
    (hhep : ∀ A AF, edfHepWorkload others D A AF ≤ edfHepWorkload others' D A AF)
    (hblk : ∀ A, edfBlocking others D A ≤ edfBlocking others' D A) (hrem : rem ≤ rem') :
    Res.le (edfCore tua D others rem wb limit) (edfCore tua' D others' rem' wb limit) := by
  sorry

/-- increasing the limit never changes an `Ok` result of the analyses -/
theorem fpCore_limit_stable (tua : RB) (others : List RB) (B rem limit limit' R : Nat)
    (hwf : tua.ArrWF) (hex : tua.Exact) (ho : OthersOK others)
    (hstep : ∀ A, tua.need A < tua.need (A + 1) → tua.need A + rem < tua.need (A + 1))
    (hpos : 0 < tua.need 1) (h : fpCore tua others B rem limit = .ok R) (hl : limit ≤ limit') :
    fpCore tua others B rem limit' = .ok R := by
  sorry

theorem edfCore_limit_stable (tua : RB) (D : Nat) (others : List EdfTask) (rem : Nat) (wb : Bool)
    (limit limit' R : Nat) (hwf : tua.ArrWF) (hex : tua.Exact) (ho : EdfOthersOK others)
    (hstep : ∀ A, tua.need A < tua.need (A + 1) → tua.need A + rem < tua.need (A + 1))
    (hpos : 0 < tua.need 1) (h : edfCore tua D others rem wb limit = .ok R) (hl : limit ≤ limit') :
    edfCore tua D others rem wb limit' = .ok R := by
  sorry

theorem fifo_limit_stable (t : RB) (hwf : t.ArrWF) (hex : t.Exact) (limit limit' R : Nat)
    (h : fifoRta t limit = .ok R) (hl : limit ≤ limit') : fifoRta t limit' = .ok R := by
  sorry

end RTA
