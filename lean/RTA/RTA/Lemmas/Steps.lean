import RTA.Model.Arrival
/-! Generic facts about step lists (C11): what it means for a list to be "exactly the
increase points of `N` up to `H`", and how merge / dedup / shift preserve it. -/

namespace RTA

/-- `l` is strictly increasing and contains exactly the `δ ∈ [1, H]` at which `N` increases -/
def StepsSpec (N : Nat → Nat) (H : Nat) (l : List Nat) : Prop :=
  l.Pairwise (· < ·) ∧ ∀ δ, δ ∈ l ↔ (1 ≤ δ ∧ δ ≤ H ∧ N (δ - 1) < N δ)

/-- same, but `l` may additionally contain `0` (the `ArrivalCurvePrefix` iterator yields it) -/
def StepsSpec0 (N : Nat → Nat) (H : Nat) (l : List Nat) : Prop :=
  l.Pairwise (· < ·) ∧ ∀ δ, 1 ≤ δ → (δ ∈ l ↔ (δ ≤ H ∧ N (δ - 1) < N δ))

def MonoN (N : Nat → Nat) : Prop := ∀ a b, a ≤ b → N a ≤ N b

theorem StepsSpec.toSpec0 {N : Nat → Nat} {H : Nat} {l : List Nat} (h : StepsSpec N H l) :
    StepsSpec0 N H l := by
  refine ⟨h.1, fun δ hδ => ?_⟩
  rw [h.2 δ]
  exact ⟨fun h => h.2, fun h => ⟨hδ, h⟩⟩

/-- membership in `merge` -/
theorem mem_merge (xs ys : List Nat) (x : Nat) : x ∈ merge xs ys ↔ x ∈ xs ∨ x ∈ ys := by
  fun_induction merge xs ys with
  | case1 ys => simp
  | case2 xs h => simp
  | case3 a xs b ys hab ih =>
    rw [List.mem_cons, ih]
    simp only [List.mem_cons]
    constructor
    · rintro (h | h | h | h) <;> simp [h]
    · rintro ((h | h) | h | h) <;> simp [h]
  | case4 a xs b ys hab ih =>
    rw [List.mem_cons, ih]
    simp only [List.mem_cons]
    constructor
    · rintro (h | (h | h) | h) <;> simp [h]
    · rintro ((h | h) | h | h) <;> simp [h]

/-- merging two sorted lists gives a sorted list -/
theorem merge_sorted (xs ys : List Nat) (hx : xs.Pairwise (· ≤ ·)) (hy : ys.Pairwise (· ≤ ·)) :
    (merge xs ys).Pairwise (· ≤ ·) := by
  fun_induction merge xs ys with
  | case1 ys => exact hy
  | case2 xs h => exact hx
  | case3 a xs b ys hab ih =>
    rw [List.pairwise_cons] at hx
    rw [List.pairwise_cons]
    refine ⟨fun z hz => ?_, ih hx.2 hy⟩
    rw [mem_merge] at hz
    rcases hz with hz | hz
    · exact hx.1 z hz
    · rw [List.mem_cons] at hz
      rcases hz with hz | hz
      · omega
      · have := (List.pairwise_cons.1 hy).1 z hz
        omega
  | case4 a xs b ys hab ih =>
    rw [List.pairwise_cons] at hy
    rw [List.pairwise_cons]
    refine ⟨fun z hz => ?_, ih hx hy.2⟩
    rw [mem_merge] at hz
    rcases hz with hz | hz
    · rw [List.mem_cons] at hz
      rcases hz with hz | hz
      · omega
      · have := (List.pairwise_cons.1 hx).1 z hz
        omega
    · exact hy.1 z hz

theorem mem_dedup (l : List Nat) (x : Nat) : x ∈ dedup l ↔ x ∈ l := by
  fun_induction dedup l with
  | case1 => simp
  | case2 a => simp
  | case3 a rest ih =>
    rw [ih]; simp
  | case4 a b rest hab ih =>
    rw [List.mem_cons, ih]; simp

/-- `dedup` of a sorted list is strictly increasing -/
theorem dedup_strict (l : List Nat) (h : l.Pairwise (· ≤ ·)) : (dedup l).Pairwise (· < ·) := by
  fun_induction dedup l with
  | case1 => simp
  | case2 a => simp
  | case3 a rest ih =>
    exact ih (List.pairwise_cons.1 h).2
  | case4 a b rest hab ih =>
    rw [List.pairwise_cons] at h
    rw [List.pairwise_cons]
    refine ⟨fun z hz => ?_, ih h.2⟩
    rw [mem_dedup] at hz
    have h1 := h.1 b (by simp)
    rw [List.mem_cons] at hz
    rcases hz with hz | hz
    · omega
    · have := (List.pairwise_cons.1 h.2).1 z hz
      omega

theorem strict_imp_sorted (l : List Nat) (h : l.Pairwise (· < ·)) : l.Pairwise (· ≤ ·) :=
  h.imp (fun hab => Nat.le_of_lt hab)

theorem sum_step_iff (N1 N2 : Nat → Nat) (m1 : MonoN N1) (m2 : MonoN N2) (δ : Nat) :
    N1 (δ - 1) + N2 (δ - 1) < N1 δ + N2 δ ↔ (N1 (δ - 1) < N1 δ ∨ N2 (δ - 1) < N2 δ) := by
  have a := m1 (δ - 1) δ (Nat.sub_le _ _)
  have b := m2 (δ - 1) δ (Nat.sub_le _ _)
  omega

/-- the steps of a sum of monotone functions are the union of the steps (`sum_of`) -/
theorem stepsSpec0_sum (N1 N2 : Nat → Nat) (H : Nat) (l1 l2 : List Nat)
    (m1 : MonoN N1) (m2 : MonoN N2)
    (h1 : StepsSpec0 N1 H l1) (h2 : StepsSpec0 N2 H l2) :
    StepsSpec0 (fun d => N1 d + N2 d) H (dedup (merge l1 l2)) := by
  refine ⟨dedup_strict _ (merge_sorted _ _ (strict_imp_sorted _ h1.1) (strict_imp_sorted _ h2.1)),
    fun δ hδ => ?_⟩
  rw [mem_dedup, mem_merge, h1.2 δ hδ, h2.2 δ hδ]
  show _ ↔ (δ ≤ H ∧ N1 (δ - 1) + N2 (δ - 1) < N1 δ + N2 δ)
  rw [sum_step_iff N1 N2 m1 m2]
  constructor
  · rintro (h | h)
    · exact ⟨h.1, Or.inl h.2⟩
    · exact ⟨h.1, Or.inr h.2⟩
  · rintro ⟨h, h' | h'⟩
    · exact Or.inl ⟨h, h'⟩
    · exact Or.inr ⟨h, h'⟩

theorem stepsSpec_sum (N1 N2 : Nat → Nat) (H : Nat) (l1 l2 : List Nat)
    (m1 : MonoN N1) (m2 : MonoN N2)
    (h1 : StepsSpec N1 H l1) (h2 : StepsSpec N2 H l2) :
    StepsSpec (fun d => N1 d + N2 d) H (dedup (merge l1 l2)) := by
  refine ⟨dedup_strict _ (merge_sorted _ _ (strict_imp_sorted _ h1.1) (strict_imp_sorted _ h2.1)),
    fun δ => ?_⟩
  rw [mem_dedup, mem_merge, h1.2 δ, h2.2 δ]
  show _ ↔ (1 ≤ δ ∧ δ ≤ H ∧ N1 (δ - 1) + N2 (δ - 1) < N1 δ + N2 δ)
  rw [sum_step_iff N1 N2 m1 m2]
  constructor
  · rintro (h | h)
    · exact ⟨h.1, h.2.1, Or.inl h.2.2⟩
    · exact ⟨h.1, h.2.1, Or.inr h.2.2⟩
  · rintro ⟨h0, h, h' | h'⟩
    · exact Or.inl ⟨h0, h, h'⟩
    · exact Or.inr ⟨h0, h, h'⟩

/-- the empty list is the step list of a constant function -/
theorem stepsSpec_const (c H : Nat) : StepsSpec (fun _ => c) H [] := by
  refine ⟨List.Pairwise.nil, fun δ => ?_⟩
  simp

/-- `Propagated::steps_iter`: if `l` are the steps of `N` up to `H + J` (possibly with a
leading 0), then `(if 0 < N (1 + J) then [1] else []) ++ (l.filter (· > J + 1)).map (· - J)`
are the steps of `δ ↦ if δ = 0 then 0 else N (δ + J)` up to `H` (for `1 ≤ H`): the step at
`δ = 1` is emitted iff something can arrive in a window of length `1 + J`. -/
theorem stepsSpec_prop (N : Nat → Nat) (H J : Nat) (l : List Nat) (hH : 1 ≤ H)
    (hm : MonoN N) (hl : StepsSpec0 N (H + J) l) :
    StepsSpec (fun d => if d = 0 then 0 else N (d + J)) H
      ((if 0 < N (1 + J) then [1] else []) ++
        ((l.filter (fun x => decide (x > J + 1))).map (· - J))) := by
  have _ := hm -- monotonicity is not needed for this direction-free characterisation
  -- the shifted tail: strictly increasing, all elements `> 1`
  have htail_gt : ∀ z ∈ (l.filter (fun x => decide (x > J + 1))).map (· - J), 1 < z := by
    intro z hz
    rw [List.mem_map] at hz
    obtain ⟨x, hx, rfl⟩ := hz
    rw [List.mem_filter] at hx
    have := of_decide_eq_true hx.2
    omega
  have htail_pw : ((l.filter (fun x => decide (x > J + 1))).map (· - J)).Pairwise (· < ·) := by
    rw [List.pairwise_map]
    have hf : (l.filter (fun x => decide (x > J + 1))).Pairwise (· < ·) := hl.1.filter _
    have hall : ∀ x ∈ l.filter (fun x => decide (x > J + 1)), x > J + 1 := by
      intro x hx
      rw [List.mem_filter] at hx
      exact of_decide_eq_true hx.2
    refine List.Pairwise.imp_of_mem ?_ hf
    intro a b ha hb hab
    have := hall a ha
    have := hall b hb
    omega
  -- the shifted tail contains exactly the steps `δ ≥ 2`
  have htail_mem : ∀ δ, δ ∈ (l.filter (fun x => decide (x > J + 1))).map (· - J) ↔
      (2 ≤ δ ∧ δ ≤ H ∧
        (if δ - 1 = 0 then 0 else N (δ - 1 + J)) < (if δ = 0 then 0 else N (δ + J))) := by
    intro δ
    rw [List.mem_map]
    constructor
    · rintro ⟨x, hx, rfl⟩
      rw [List.mem_filter] at hx
      have hgt : x > J + 1 := of_decide_eq_true hx.2
      have hx' := (hl.2 x (by omega)).1 hx.1
      refine ⟨by omega, by omega, ?_⟩
      rw [if_neg (by omega), if_neg (by omega)]
      have e1 : x - J - 1 + J = x - 1 := by omega
      have e2 : x - J + J = x := by omega
      rw [e1, e2]
      exact hx'.2
    · rintro ⟨h1, h2, h3⟩
      refine ⟨δ + J, ?_, by omega⟩
      rw [List.mem_filter]
      refine ⟨?_, decide_eq_true (by omega)⟩
      rw [hl.2 (δ + J) (by omega)]
      refine ⟨by omega, ?_⟩
      rw [if_neg (by omega), if_neg (by omega)] at h3
      have e1 : δ + J - 1 = δ - 1 + J := by omega
      rw [e1]
      exact h3
  -- whether `1` is a step of the propagated curve
  have hone : (if (1 - 1 : Nat) = 0 then 0 else N (1 - 1 + J)) <
      (if (1 : Nat) = 0 then 0 else N (1 + J)) ↔ 0 < N (1 + J) := by
    rw [if_pos (by omega), if_neg (by omega)]
  by_cases hpos : 0 < N (1 + J)
  · rw [if_pos hpos, List.cons_append, List.nil_append]
    constructor
    · rw [List.pairwise_cons]
      exact ⟨htail_gt, htail_pw⟩
    · intro δ
      rw [List.mem_cons, htail_mem]
      constructor
      · rintro (rfl | ⟨h1, h2, h3⟩)
        · exact ⟨Nat.le_refl _, hH, hone.2 hpos⟩
        · exact ⟨by omega, h2, h3⟩
      · rintro ⟨h1, h2, h3⟩
        by_cases hδ : δ = 1
        · exact Or.inl hδ
        · exact Or.inr ⟨by omega, h2, h3⟩
  · rw [if_neg hpos, List.nil_append]
    refine ⟨htail_pw, fun δ => ?_⟩
    rw [htail_mem]
    constructor
    · rintro ⟨h1, h2, h3⟩
      exact ⟨by omega, h2, h3⟩
    · rintro ⟨h1, h2, h3⟩
      by_cases hδ : δ = 1
      · subst hδ
        exact absurd (hone.1 h3) hpos
      · exact ⟨by omega, h2, h3⟩

/-- cutting at `H = 0` -/
theorem stepsSpec_zero (N : Nat → Nat) : StepsSpec N 0 [] := by
  refine ⟨List.Pairwise.nil, fun δ => ?_⟩
  simp only [List.not_mem_nil, false_iff]
  omega

end RTA
