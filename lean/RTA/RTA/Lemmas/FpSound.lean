import Mathlib.Algebra.BigOperators.Ring.Finset
import RTA.Lemmas.SchedJlfp
import RTA.Lemmas.PruneFP
/-! C01: from the result of the fixed-priority analyses to "every job of the task under
analysis completes within `R` of its release", for every legal schedule. -/

open Finset Classical

namespace RTA.Sched
open RTA RTA.Spec RTA.Sched.J

/-- job-level priority order of fixed-priority scheduling with distinct task priorities
(`pr`, smaller number = higher priority); jobs of one task in job (= release) order -/
def hepFP (s : Sys) (pr : ℕ → ℕ) (a b : ℕ) : Prop :=
  pr (s.task a) < pr (s.task b) ∨ (s.task a = s.task b ∧ a ≤ b)

/-- number of jobs of the tasks in `ts` released in `[a, b)` -/
noncomputable def cntOf (s : Sys) (ts : ℕ → Prop) (a b : ℕ) : ℕ :=
  ∑ k ∈ range s.n, if ts (s.task k) ∧ a ≤ s.arr k ∧ s.arr k < b then 1 else 0

/-- the setting of the fixed-priority analyses for task `i`: a legal schedule under the
fixed-priority policy with non-preemptive segments; the workload of task `i` is bounded by
`tua`, the workload of all higher-priority tasks by `others`; every run of consecutive
non-preemptable service levels of a lower-priority job is at most `B` long (blocking bound
= longest lower-priority non-preemptive segment minus one) -/
structure FpSetting (s : Sys) (pr : ℕ → ℕ) (i : ℕ) (tua : RB) (others : List RB) (B : ℕ) : Prop where
  legal : JlfpLegal s (hepFP s pr)
  inj : ∀ a b, pr a = pr b → a = b
  ordered : ∀ a b, a < s.n → b < s.n → s.task a = s.task b → a ≤ b → s.arr a ≤ s.arr b
  w_tua : ∀ t d, workOf s (fun x => x = i) t (t + d) ≤ tua.need d
  w_hp : ∀ t d, workOf s (fun x => pr x < pr i) t (t + d) ≤ sumNeed others d
  blocking : ∀ l, l < s.n → pr i < pr (s.task l) → ∀ x len, (∀ k, k < len → s.np l (x + k)) → len ≤ B
  cost_pos : ∀ k, k < s.n → 1 ≤ s.cost k

theorem hepFP_trans (s : Sys) (pr : ℕ → ℕ) (a b c : ℕ) (h1 : hepFP s pr a b) (h2 : hepFP s pr b c) :
    hepFP s pr a c := by
  unfold hepFP at *
  rcases h1 with h1 | ⟨h1, h1'⟩ <;> rcases h2 with h2 | ⟨h2, h2'⟩
  · left; omega
  · left; rw [← h2]; exact h1
  · left; rw [h1]; exact h2
  · right; exact ⟨h1.trans h2, by omega⟩

theorem hepFP_refl (s : Sys) (pr : ℕ → ℕ) (a : ℕ) : hepFP s pr a a := by
  right; exact ⟨rfl, le_refl _⟩

namespace FpSoundLemmas
open RTA.PruneCoreLemmas RTA.PruneFPLemmas

/-! ### sums over job sets -/

theorem workP_mono (s : Sys) (p q : ℕ → Prop) (h : ∀ k, k < s.n → p k → q k) :
    J.workP s p ≤ J.workP s q := by
  unfold J.workP
  apply sum_le_sum
  intro k hk
  have hk' := mem_range.1 hk
  by_cases hp : p k
  · rw [if_pos hp, if_pos (h k hk' hp)]
  · rw [if_neg hp]; exact Nat.zero_le _

theorem workP_or_le (s : Sys) (p q : ℕ → Prop) :
    J.workP s (fun k => p k ∨ q k) ≤ J.workP s p + J.workP s q := by
  unfold J.workP
  rw [← sum_add_distrib]
  apply sum_le_sum
  intro k _
  by_cases hp : p k <;> by_cases hq : q k <;> simp [hp, hq]

theorem workP_split (s : Sys) (p : ℕ → Prop) (j : ℕ) (hj : j < s.n) (hp : p j) :
    J.workP s (fun k => k ≠ j ∧ p k) + s.cost j = J.workP s p := by
  unfold J.workP
  have : ∀ k ∈ range s.n, (if p k then s.cost k else 0)
      = (if (k ≠ j ∧ p k) then s.cost k else 0) + (if k = j then s.cost j else 0) := by
    intro k _
    by_cases hk : k = j
    · subst hk; simp [hp]
    · simp [hk]
  rw [sum_congr rfl this, sum_add_distrib, sum_ite_eq']
  simp only [mem_range, hj, if_true]
  congr 1
  refine sum_congr rfl (fun k _ => ?_)
  split_ifs <;> rfl

theorem workOf_eq (s : Sys) (ts : ℕ → Prop) [DecidablePred ts] (a b : ℕ) :
    workOf s ts a b = J.workP s (fun k => ts (s.task k) ∧ a ≤ s.arr k ∧ s.arr k < b) := by
  unfold workOf J.workP
  refine sum_congr rfl (fun k _ => ?_)
  split_ifs <;> rfl

/-- number of the jobs satisfying `p` -/
noncomputable def cntP (s : Sys) (p : ℕ → Prop) : ℕ := ∑ k ∈ range s.n, if p k then 1 else 0

theorem cntOf_eq (s : Sys) (ts : ℕ → Prop) (a b : ℕ) :
    cntOf s ts a b = cntP s (fun k => ts (s.task k) ∧ a ≤ s.arr k ∧ s.arr k < b) := by
  unfold cntOf cntP
  refine sum_congr rfl (fun k _ => ?_)
  split_ifs <;> rfl

theorem cntP_split (s : Sys) (p : ℕ → Prop) (j : ℕ) (hj : j < s.n) (hp : p j) :
    cntP s (fun k => k ≠ j ∧ p k) + 1 = cntP s p := by
  unfold cntP
  have : ∀ k ∈ range s.n, (if p k then 1 else 0)
      = (if (k ≠ j ∧ p k) then 1 else 0) + (if k = j then 1 else 0) := by
    intro k _
    by_cases hk : k = j
    · subst hk; simp [hp]
    · simp [hk]
  rw [sum_congr rfl this, sum_add_distrib, sum_ite_eq']
  simp only [mem_range, hj, if_true]
  congr 1
  refine sum_congr rfl (fun k _ => ?_)
  split_ifs <;> rfl

theorem workP_le_mul_cntP (s : Sys) (p : ℕ → Prop) (C : ℕ)
    (h : ∀ k, k < s.n → p k → s.cost k ≤ C) : J.workP s p ≤ C * cntP s p := by
  unfold J.workP cntP
  rw [mul_sum]
  apply sum_le_sum
  intro k hk
  by_cases hp : p k
  · rw [if_pos hp, if_pos hp]; simpa using h k (mem_range.1 hk) hp
  · rw [if_neg hp]; exact Nat.zero_le _

/-! ### the last quiet time -/

theorem exists_t0 (s : Sys) (hep : ℕ → ℕ → Prop) (j : ℕ) :
    ∃ t0, Quiet s hep j t0 ∧ t0 ≤ s.arr j ∧
      ∀ t, t0 < t → t ≤ s.arr j → ¬ Quiet s hep j t := by
  have hq0 : Quiet s hep j 0 := by intro k _ _ h; omega
  refine ⟨Nat.findGreatest (Quiet s hep j) (s.arr j), ?_, ?_, ?_⟩
  · exact Nat.findGreatest_spec (P := Quiet s hep j) (Nat.zero_le _) hq0
  · exact Nat.findGreatest_le _
  · exact fun t h1 h2 => Nat.findGreatest_is_greatest h1 h2

/-- the blocking hypothesis of `blocked_bound` / `reach_rt` -/
theorem fp_Hb {s : Sys} {pr : ℕ → ℕ} {i : ℕ} {tua : RB} {others : List RB} {B : ℕ}
    (hS : FpSetting s pr i tua others B) (j : ℕ) (hj : j < s.n) (hji : s.task j = i)
    (t0 : ℕ) (ht0 : t0 ≤ s.arr j) :
    ∀ l < s.n, ¬ hepFP s pr l j → s.arr l < t0 → ∀ x len, (∀ i < len, s.np l (x + i)) → len ≤ B := by
  intro l hl hn harr x len h
  refine hS.blocking l hl ?_ x len h
  unfold hepFP at hn
  rw [hji] at hn
  by_contra hlt
  have h1 : ¬ pr (s.task l) < pr i := fun h => hn (Or.inl h)
  have h2 : pr (s.task l) = pr i := by omega
  have e := hS.inj _ _ h2
  have h3 : ¬ l ≤ j := fun h => hn (Or.inr ⟨e, h⟩)
  have := hS.ordered j l hj hl (by rw [hji, e]) (by omega)
  omega

/-! ### reading the result of the analysis -/

theorem pick_ok_inv (p : Res → Bool) (hp_ok : ∀ v, p (.ok v) = false)
    (hp_nok : ∀ x, (∀ v, x ≠ .ok v) → p x = true) (g : Res → ℕ) (hg : ∀ v, g (.ok v) = v)
    (rs : List Res) (R : ℕ)
    (h : (if rs.any p then (rs.find? p).getD .panic else .ok (maxList (rs.map g))) = .ok R) :
    ∀ x ∈ rs, ∃ v, x = .ok v ∧ v ≤ R := by
  by_cases hany : rs.any p = true
  · rw [if_pos hany] at h
    exfalso
    cases hf : rs.find? p with
    | none =>
      rw [List.any_eq_true] at hany
      obtain ⟨x, hx, hpx⟩ := hany
      rw [List.find?_eq_none] at hf
      exact hf x hx hpx
    | some y =>
      rw [hf] at h
      have hp := List.find?_some hf
      simp only [Option.getD_some] at h
      rw [h, hp_ok] at hp
      cases hp
  · rw [if_neg hany] at h
    injection h with h
    intro x hx
    cases x with
    | ok v =>
      refine ⟨v, rfl, ?_⟩
      rw [← h]
      exact mem_le_maxList _ _ (List.mem_map.2 ⟨.ok v, hx, hg v⟩)
    | div o l =>
      exfalso; apply hany
      rw [List.any_eq_true]
      exact ⟨_, hx, hp_nok _ (fun v h => by cases h)⟩
    | panic =>
      exfalso; apply hany
      rw [List.any_eq_true]
      exact ⟨_, hx, hp_nok _ (fun v h => by cases h)⟩

theorem naiveMax_ok_inv (rs : List Res) (R : ℕ) (h : naiveMax rs = .ok R) :
    ∀ x ∈ rs, ∃ v, x = .ok v ∧ v ≤ R := by
  unfold naiveMax at h
  refine pick_ok_inv _ (fun _ => rfl) ?_ _ (fun _ => rfl) rs R h
  intro x hx
  cases x with
  | ok v => exact absurd rfl (hx v)
  | div o l => rfl
  | panic => rfl

/-- what `Ok(R)` of the common core of the fixed-priority analyses means -/
theorem fpCore_extract (tua : RB) (others : List RB) (B rem limit R : ℕ)
    (hwf : tua.ArrWF) (hex : tua.Exact) (ho : OthersOK others) (hpos : 0 < tua.need 1)
    (hstep : ∀ A, tua.need A < tua.need (A + 1) → tua.need A + rem < tua.need (A + 1))
    (hR : fpCore tua others B rem limit = .ok R) :
    ∃ L, 0 < L ∧ B + sumNeed others L + tua.need L ≤ L ∧
      ∀ A, A < L → ∃ AF, B + (tua.need (A + 1) - rem) + sumNeed others (max AF 1) ≤ AF ∧
        AF - A + rem ≤ R := by
  have hl : 1 ≤ limit := by
    by_contra h0
    have : limit = 0 := by omega
    subst this
    rw [fpCore_eq, search_limit_zero] at hR
    cases hR
  rw [fpCore_eq_naive tua others B rem limit hwf hex ho hl hpos hstep, naiveFp_eq] at hR
  rcases naiveSolve_cases (fun L => B + sumNeed others L + tua.need L) limit with ⟨L, hL⟩ | hd
  · rw [hL] at hR
    simp only at hR
    have hLs : B + sumNeed others (max L 1) + tua.need (max L 1) ≤ L :=
      ((naiveSolve_ok_iff _ _ _).1 hL).2.1
    have hLpos : 0 < L := by
      by_contra h0
      have : L = 0 := by omega
      subst this
      have e : max 0 1 = 1 := rfl
      rw [e] at hLs
      omega
    have e : max L 1 = L := by omega
    rw [e] at hLs
    refine ⟨L, hLpos, hLs, ?_⟩
    intro A hA
    obtain ⟨v, hv, hvR⟩ := naiveMax_ok_inv _ R hR (fpF tua others B rem limit A)
      (List.mem_map.2 ⟨A, List.mem_range.2 hA, rfl⟩)
    unfold fpF at hv
    rcases naiveSolve_cases (fun AF => B + (tua.need (A + 1) - rem) + sumNeed others AF) limit with
      ⟨AF, h⟩ | h
    · rw [h] at hv
      injection hv with hv
      have hs : B + (tua.need (A + 1) - rem) + sumNeed others (max AF 1) ≤ AF :=
        ((naiveSolve_ok_iff _ _ _).1 h).2.1
      exact ⟨AF, hs, by omega⟩
    · rw [h] at hv
      cases hv
  · rw [hd] at hR
    cases hR

end FpSoundLemmas
open FpSoundLemmas

/-- the busy window of a job of task `i` is shorter than the busy-window bound `L`: if `t0`
is the last quiet time at or before the release of `j` then `arr j - t0 < L` whenever
`B + Σ_hp rbf(L) + rbf_tua(L) ≤ L` and `0 < L` -/
theorem fp_offset_lt_L (s : Sys) (pr : ℕ → ℕ) (i : ℕ) (tua : RB) (others : List RB) (B : ℕ)
    (hS : FpSetting s pr i tua others B) (L : ℕ) (hL : 0 < L)
    (hfix : B + sumNeed others L + tua.need L ≤ L)
    (j : ℕ) (hj : j < s.n) (hji : s.task j = i) (t0 : ℕ) (hq : Quiet s (hepFP s pr) j t0)
    (ht0 : t0 ≤ s.arr j) (hmax : ∀ t, t0 < t → t ≤ s.arr j → ¬ Quiet s (hepFP s pr) j t) :
    s.arr j - t0 < L := by
  by_contra hge
  have hge : t0 + L ≤ s.arr j := by omega
  have hl := hS.legal
  have hbusy : ∀ u, t0 ≤ u → u < t0 + L → ∃ k < s.n, hepFP s pr k j ∧ Pending s k u := by
    intro u h1 h2
    have hnq := hmax (u+1) (by omega) (by omega)
    unfold Quiet at hnq
    push Not at hnq
    obtain ⟨k, hk, hkh, hka, hkn⟩ := hnq
    refine ⟨k, hk, hkh, by omega, ?_⟩
    have := svc_le_cost hl k (u+1)
    have := svc_mono (s := s) k (show u ≤ u + 1 by omega)
    omega
  obtain ⟨e, he1, he2, hserve⟩ := blocked_bound hl (hepFP_trans s pr) j t0 (t0 + L) B hq hbusy
    (fp_Hb hS j hj hji t0 ht0)
  -- the work of the higher-or-equal-priority jobs released in the window
  have hwork : J.workP s (fun k => hepFP s pr k j ∧ t0 ≤ s.arr k ∧ s.arr k < t0 + L)
      ≤ tua.need L + sumNeed others L := by
    have h1 : J.workP s (fun k => hepFP s pr k j ∧ t0 ≤ s.arr k ∧ s.arr k < t0 + L)
        ≤ J.workP s (fun k => (s.task k = i ∧ t0 ≤ s.arr k ∧ s.arr k < t0 + L) ∨
            (pr (s.task k) < pr i ∧ t0 ≤ s.arr k ∧ s.arr k < t0 + L)) := by
      apply workP_mono
      rintro k _ ⟨hh, ha, hb⟩
      rcases hh with hh | ⟨hh, _⟩
      · right; rw [hji] at hh; exact ⟨hh, ha, hb⟩
      · left; exact ⟨by rw [hh, hji], ha, hb⟩
    have h3 := hS.w_tua t0 L
    have h4 := hS.w_hp t0 L
    rw [workOf_eq] at h3 h4
    exact le_trans h1 (le_trans (workP_or_le s _ _) (Nat.add_le_add h3 h4))
  have hserved : t0 + L - e ≤ servedP s (fun k => hepFP s pr k j ∧ t0 ≤ s.arr k ∧ s.arr k < t0 + L) (t0 + L) := by
    by_cases heX : t0 + L ≤ e
    · omega
    · have hb := servedP_busy (s := s) (fun k => hepFP s pr k j ∧ t0 ≤ s.arr k ∧ s.arr k < t0 + L)
        e (t0 + L - e) (by
          intro u h1 h2
          obtain ⟨j', a, b, c, d, f⟩ := hserve u h1 (by omega)
          exact ⟨j', a, b, c, d, by omega⟩)
      have e1 : e + (t0 + L - e) = t0 + L := by omega
      rw [e1] at hb
      omega
  have hle := servedP_le_workP hl (fun k => hepFP s pr k j ∧ t0 ≤ s.arr k ∧ s.arr k < t0 + L) (t0 + L)
  have heq : servedP s (fun k => hepFP s pr k j ∧ t0 ≤ s.arr k ∧ s.arr k < t0 + L) (t0 + L)
      = J.workP s (fun k => hepFP s pr k j ∧ t0 ≤ s.arr k ∧ s.arr k < t0 + L) := by omega
  apply hmax (t0 + L) (by omega) hge
  intro k hk hkh hka
  by_cases hlt : s.arr k < t0
  · exact done_mono hl k (by omega) (hq k hk hkh hlt)
  · exact all_done_of_served_eq hl _ _ heq k hk ⟨hkh, by omega, hka⟩

namespace FpSoundLemmas

/-- `reach_rt` for fixed-priority scheduling: `X` bounds the work of the other jobs of the
task released in the busy window up to the release of `j`, plus `rt` -/
theorem fp_reach {s : Sys} {pr : ℕ → ℕ} {i : ℕ} {tua : RB} {others : List RB} {B : ℕ}
    (hS : FpSetting s pr i tua others B) (j : ℕ) (hj : j < s.n) (hji : s.task j = i)
    (t0 : ℕ) (hq : Quiet s (hepFP s pr) j t0) (ht0 : t0 ≤ s.arr j)
    (hmax : ∀ t, t0 < t → t ≤ s.arr j → ¬ Quiet s (hepFP s pr) j t)
    (rt AF X : ℕ) (hrt : rt ≤ s.cost j)
    (hown : J.workP s (fun k => k ≠ j ∧ (s.task k = i ∧ t0 ≤ s.arr k ∧ s.arr k < s.arr j + 1))
      + rt ≤ X)
    (hAF : B + X + sumNeed others AF ≤ AF) : rt ≤ svc s j (t0 + AF) := by
  have hw : J.workP s (fun k => k ≠ j ∧ (hepFP s pr k j ∧ t0 ≤ s.arr k ∧ s.arr k < t0 + AF))
      ≤ (X - rt) + sumNeed others AF := by
    have h1 : J.workP s (fun k => k ≠ j ∧ (hepFP s pr k j ∧ t0 ≤ s.arr k ∧ s.arr k < t0 + AF))
        ≤ J.workP s (fun k =>
            (k ≠ j ∧ (s.task k = i ∧ t0 ≤ s.arr k ∧ s.arr k < s.arr j + 1)) ∨
            (pr (s.task k) < pr i ∧ t0 ≤ s.arr k ∧ s.arr k < t0 + AF)) := by
      apply workP_mono
      rintro k hk ⟨hkj, hh, ha, hb⟩
      rcases hh with hh | ⟨hh, hle⟩
      · right; rw [hji] at hh; exact ⟨hh, ha, hb⟩
      · left
        have := hS.ordered k j hk hj hh hle
        exact ⟨hkj, by rw [hh, hji], ha, by omega⟩
    have h4 := hS.w_hp t0 AF
    rw [workOf_eq] at h4
    exact le_trans h1 (le_trans (workP_or_le s _ _) (Nat.add_le_add (by omega) h4))
  exact reach_rt hS.legal (hepFP_trans s pr) (hepFP_refl s pr) j hj t0 hq ht0 hmax rt B _ AF hrt
    (fp_Hb hS j hj hji t0 ht0) hw (by omega)

/-- the common part of the soundness proofs: `j` reaches service level `rt` at a time `t`
with `t + rem ≤ arr j + R` -/
theorem fp_sound_core {s : Sys} {pr : ℕ → ℕ} {i : ℕ} {tua : RB} {others : List RB} {B : ℕ}
    (hS : FpSetting s pr i tua others B) (hwf : tua.ArrWF) (hex : tua.Exact) (ho : OthersOK others)
    (rem limit R : ℕ)
    (hstep : ∀ A, tua.need A < tua.need (A + 1) → tua.need A + rem < tua.need (A + 1))
    (hR : fpCore tua others B rem limit = .ok R)
    (j : ℕ) (hj : j < s.n) (hji : s.task j = i) (rt : ℕ) (hrt : rt ≤ s.cost j) (hrt0 : 0 < rt)
    (hown : ∀ t0, t0 ≤ s.arr j →
      J.workP s (fun k => k ≠ j ∧ (s.task k = i ∧ t0 ≤ s.arr k ∧ s.arr k < s.arr j + 1))
        + rt + rem ≤ tua.need (s.arr j - t0 + 1)) :
    ∃ t, rt ≤ svc s j t ∧ t + rem ≤ s.arr j + R := by
  have hpos : 0 < tua.need 1 := by
    have h1 := hS.w_tua (s.arr j) 1
    rw [workOf_eq] at h1
    have h2 := workP_split s (fun k => s.task k = i ∧ s.arr j ≤ s.arr k ∧ s.arr k < s.arr j + 1)
      j hj ⟨hji, le_refl _, by omega⟩
    have := hS.cost_pos j hj
    omega
  obtain ⟨L, hLpos, hfix, hall⟩ :=
    fpCore_extract tua others B rem limit R hwf hex ho hpos hstep hR
  obtain ⟨t0, hq, ht0, hmax⟩ := exists_t0 s (hepFP s pr) j
  have hA := fp_offset_lt_L s pr i tua others B hS L hLpos hfix j hj hji t0 hq ht0 hmax
  obtain ⟨AF, hAF, hAFR⟩ := hall (s.arr j - t0) hA
  have ho' := hown t0 ht0
  have hAF1 : 1 ≤ AF := by omega
  have e : max AF 1 = AF := by omega
  rw [e] at hAF
  have hr := fp_reach hS j hj hji t0 hq ht0 hmax rt AF (tua.need (s.arr j - t0 + 1) - rem) hrt
    (by omega) hAF
  exact ⟨t0 + AF, hr, by omega⟩

/-- with a failing parameter guard the analysis never returns `Ok` -/
theorem fpCore_guard_ne_ok (tua : RB) (others : List RB) (B rem limit R : ℕ) :
    fpCore tua others B rem limit true ≠ .ok R := by
  unfold fpCore
  cases search .dedicated limit (fun L => B + sumNeed others L + tua.need L) with
  | ok L => intro h; simp at h
  | div o l => intro h; cases h
  | panic => intro h; cases h

end FpSoundLemmas

/-- C01 for the analyses without a run-to-completion remainder (fully preemptive: `B = 0`
and no non-preemptable states; floating non-preemptive regions: arbitrary placement, runs
bounded by the segment bounds): `Ok(R)` bounds the response time of every job of the task -/
theorem fp_sound_rem0 (s : Sys) (pr : ℕ → ℕ) (i : ℕ) (tua : RB) (others : List RB) (B : ℕ)
    (hS : FpSetting s pr i tua others B) (hwf : tua.ArrWF) (hex : tua.Exact) (ho : OthersOK others)
    (limit R : ℕ) (hR : fpCore tua others B 0 limit = .ok R) :
    ∀ j, j < s.n → s.task j = i → MeetsBound s j R := by
  intro j hj hji
  have hl := hS.legal
  obtain ⟨t, ht, htR⟩ := fp_sound_core hS hwf hex ho 0 limit R (fun _ h => h) hR j hj hji
    (s.cost j) (le_refl _) (hS.cost_pos j hj) (by
      intro t0 ht0
      have h1 := hS.w_tua t0 (s.arr j - t0 + 1)
      rw [workOf_eq] at h1
      have e : t0 + (s.arr j - t0 + 1) = s.arr j + 1 := by omega
      rw [e] at h1
      have h2 := workP_split s (fun k => s.task k = i ∧ t0 ≤ s.arr k ∧ s.arr k < s.arr j + 1)
        j hj ⟨hji, ht0, by omega⟩
      omega)
  have := svc_le_cost hl j t
  exact done_mono hl j (show t ≤ s.arr j + R by omega) (by omega)

/-- C01 for the analyses with scalar WCET `C` and remainder `rem < C` (fully
non-preemptive: `rem = C - 1`; limited-preemptive with last segment `ℓ`: `rem = ℓ - 1`):
every job of the task costs at most `C`, is non-preemptable from service level
`max 1 (cost - rem)` on, and at most `a.N d` jobs of the task are released in any window of
length `d` -/
theorem fp_sound_scalar (s : Sys) (pr : ℕ → ℕ) (i : ℕ) (a : Arr) (C rem : ℕ) (others : List RB) (B : ℕ)
    (hS : FpSetting s pr i (.rbf a (.scalar C)) others B) (hwf : a.WF) (hex : a.Exact)
    (ho : OthersOK others) (hrem : rem < C)
    (hcnt : ∀ t d, cntOf s (fun x => x = i) t (t + d) ≤ a.N d)
    (hown : ∀ j, j < s.n → s.task j = i → s.cost j ≤ C ∧
      ∀ x, max 1 (s.cost j - rem) ≤ x → x < s.cost j → s.np j x)
    (limit R : ℕ) (hR : fpCore (.rbf a (.scalar C)) others B rem limit = .ok R) :
    ∀ j, j < s.n → s.task j = i → MeetsBound s j R := by
  intro j hj hji
  have hl := hS.legal
  have hC : 1 ≤ C := by omega
  have hwf' : (RB.rbf a (.scalar C)).ArrWF := by simp only [RB.ArrWF]; exact hwf
  have hex' : (RB.rbf a (.scalar C)).Exact := by
    simp only [RB.Exact]; exact ⟨hex, Cost.scalar_strictPos C hC⟩
  have hcj := hS.cost_pos j hj
  obtain ⟨hcC, hnp⟩ := hown j hj hji
  obtain ⟨t, ht, htR⟩ := fp_sound_core hS hwf' hex' ho rem limit R (scalar_hstep a C rem hrem) hR
    j hj hji (max 1 (s.cost j - rem)) (by omega) (by omega) (by
      intro t0 ht0
      have hneed : (RB.rbf a (.scalar C)).need (s.arr j - t0 + 1) = C * a.N (s.arr j - t0 + 1) := by
        simp only [RB.need, Cost.ofJobs]
      rw [hneed]
      have h1 := hcnt t0 (s.arr j - t0 + 1)
      rw [cntOf_eq] at h1
      have e : t0 + (s.arr j - t0 + 1) = s.arr j + 1 := by omega
      rw [e] at h1
      have h2 := cntP_split s (fun k => s.task k = i ∧ t0 ≤ s.arr k ∧ s.arr k < s.arr j + 1)
        j hj ⟨hji, ht0, by omega⟩
      have h3 := workP_le_mul_cntP s
        (fun k => k ≠ j ∧ (s.task k = i ∧ t0 ≤ s.arr k ∧ s.arr k < s.arr j + 1)) C
        (fun k hk hp => (hown k hk hp.2.1).1)
      have h4 : C * (cntP s (fun k => k ≠ j ∧ (s.task k = i ∧ t0 ≤ s.arr k ∧ s.arr k < s.arr j + 1)) + 1)
          ≤ C * a.N (s.arr j - t0 + 1) := Nat.mul_le_mul_left C (by omega)
      rw [Nat.mul_succ] at h4
      omega)
  have hrun := run_to_completion hl j (max 1 (s.cost j - rem)) hnp (by omega) t ht
  exact done_mono hl j (show t + (s.cost j - max 1 (s.cost j - rem)) ≤ s.arr j + R by omega) hrun

/-- the four analyses of the crate as instances -/
theorem fp_preemptive_sound (s : Sys) (pr : ℕ → ℕ) (i : ℕ) (tua : RB) (others : List RB)
    (hS : FpSetting s pr i tua others 0) (hwf : tua.ArrWF) (hex : tua.Exact) (ho : OthersOK others)
    (limit R : ℕ) (hR : fpPreemptive tua others limit = .ok R) :
    ∀ j, j < s.n → s.task j = i → MeetsBound s j R := by
  unfold fpPreemptive at hR
  exact fp_sound_rem0 s pr i tua others 0 hS hwf hex ho limit R hR

theorem fp_floating_sound (s : Sys) (pr : ℕ → ℕ) (i : ℕ) (tua : RB) (others : List RB) (B : ℕ)
    (hS : FpSetting s pr i tua others B) (hwf : tua.ArrWF) (hex : tua.Exact) (ho : OthersOK others)
    (limit R : ℕ) (hR : fpFloating tua B others limit = .ok R) :
    ∀ j, j < s.n → s.task j = i → MeetsBound s j R := by
  unfold fpFloating at hR
  exact fp_sound_rem0 s pr i tua others B hS hwf hex ho limit R hR

theorem fp_nonpreemptive_sound (s : Sys) (pr : ℕ → ℕ) (i : ℕ) (a : Arr) (C : ℕ) (others : List RB) (B : ℕ)
    (hS : FpSetting s pr i (.rbf a (.scalar C)) others B) (hwf : a.WF) (hex : a.Exact)
    (ho : OthersOK others)
    (hcnt : ∀ t d, cntOf s (fun x => x = i) t (t + d) ≤ a.N d)
    (hown : ∀ j, j < s.n → s.task j = i → s.cost j ≤ C ∧ ∀ x, 1 ≤ x → x < s.cost j → s.np j x)
    (limit R : ℕ) (hR : fpNonpreemptive a C B others limit = .ok R) :
    ∀ j, j < s.n → s.task j = i → MeetsBound s j R := by
  unfold fpNonpreemptive at hR
  by_cases hC : C < 1
  · rw [decide_eq_true hC] at hR
    exact absurd hR (fpCore_guard_ne_ok _ _ _ _ _ _)
  · rw [decide_eq_false hC] at hR
    refine fp_sound_scalar s pr i a C (C - 1) others B hS hwf hex ho (by omega) hcnt ?_ limit R hR
    intro j hj hji
    obtain ⟨h1, h2⟩ := hown j hj hji
    exact ⟨h1, fun x hx hx' => h2 x (by omega) hx'⟩

theorem fp_limited_sound (s : Sys) (pr : ℕ → ℕ) (i : ℕ) (a : Arr) (C last : ℕ) (others : List RB) (B : ℕ)
    (hS : FpSetting s pr i (.rbf a (.scalar C)) others B) (hwf : a.WF) (hex : a.Exact)
    (ho : OthersOK others) (hlast1 : 1 ≤ last) (hlastC : last ≤ C)
    (hcnt : ∀ t d, cntOf s (fun x => x = i) t (t + d) ≤ a.N d)
    (hown : ∀ j, j < s.n → s.task j = i → s.cost j ≤ C ∧
      ∀ x, max 1 (s.cost j - (last - 1)) ≤ x → x < s.cost j → s.np j x)
    (limit R : ℕ) (hR : fpLimited a C last B others limit = .ok R) :
    ∀ j, j < s.n → s.task j = i → MeetsBound s j R := by
  unfold fpLimited at hR
  rw [decide_eq_false (by omega : ¬ (last < 1 ∨ C < last - 1))] at hR
  have e : C - (C - (last - 1)) = last - 1 := by omega
  rw [e] at hR
  exact fp_sound_scalar s pr i a C (last - 1) others B hS hwf hex ho (by omega) hcnt hown limit R hR

end RTA.Sched
