import RTA.Lemmas.SchedFifo
import RTA.Lemmas.PruneFP
import RTA.Lemmas.ArrAll
import RTA.Lemmas.Cost
import Mathlib.Algebra.Order.BigOperators.Group.Finset
import Mathlib.Tactic.Linarith
/-! C03: from the result of the FIFO analysis to "every job of every task completes within
`R` of its release", for every FIFO schedule of every compliant job set. -/

open Finset

namespace RTA.Sched
open RTA RTA.Spec

/-- the request bound of a task set given as (arrival model, cost model) pairs -/
def taskSetRB (ts : List (Arr × Cost)) : RB := .agg (ts.map fun p => .rbf p.1 p.2)

/-- every job belongs to a task of the set and every task's jobs comply with its models -/
structure Compliant (s : Sys) (ts : List (Arr × Cost)) : Prop where
  task_lt : ∀ k, k < s.n → s.task k < ts.length
  comp : ∀ i, (h : i < ts.length) → TaskCompliant s i (ts[i]).1 (ts[i]).2

namespace FifoSoundLemmas

theorem single_le_work (s : Sys) (j : ℕ) (hj : j < s.n) :
    s.cost j ≤ work s (s.arr j) (s.arr j + 1) := by
  unfold work
  have h := Finset.single_le_sum (f := fun k => if s.arr j ≤ s.arr k ∧ s.arr k < s.arr j + 1 then s.cost k else 0)
    (s := range s.n) (fun i _ => Nat.zero_le _) (mem_range.2 hj)
  simpa using h

theorem arrWFList_map (ts : List (Arr × Cost)) (h : ∀ p ∈ ts, p.1.WF) :
    RB.ArrWFList (ts.map fun p => RB.rbf p.1 p.2) := by
  induction ts with
  | nil => simp [RB.ArrWFList]
  | cons p ps ih =>
    simp only [List.map_cons, RB.ArrWFList, RB.ArrWF]
    exact ⟨h p (by simp), ih (fun q hq => h q (by simp [hq]))⟩

theorem exactList_map (ts : List (Arr × Cost)) (h : ∀ p ∈ ts, p.1.Exact ∧ p.2.StrictPos) :
    RB.ExactList (ts.map fun p => RB.rbf p.1 p.2) := by
  induction ts with
  | nil => simp [RB.ExactList]
  | cons p ps ih =>
    simp only [List.map_cons, RB.ExactList, RB.Exact]
    exact ⟨h p (by simp), ih (fun q hq => h q (by simp [hq]))⟩

/-- a filtered sum over `range n` as a list sum -/
theorem sum_range_ite_eq_list (n : ℕ) (p : ℕ → Prop) [DecidablePred p] (f : ℕ → ℕ) :
    (∑ k ∈ range n, if p k then f k else 0)
      = (((List.range n).filter (fun k => decide (p k))).map f).sum := by
  induction n with
  | zero => simp
  | succ n ih =>
    rw [Finset.sum_range_succ, List.range_succ, List.filter_append, List.map_append,
      List.sum_append, ih]
    by_cases h : p n <;> simp [h]

/-- in a list sorted by `key` all of whose keys are `≥ t`, the elements of the window
`[t, b)` form a prefix -/
theorem filter_window_prefix {α : Type} (key : α → ℕ) (t b : ℕ) (q : α → Bool)
    (hq : ∀ x, q x = true ↔ (t ≤ key x ∧ key x < b)) :
    ∀ l : List α, l.Pairwise (fun x y => key x ≤ key y) → (∀ x ∈ l, t ≤ key x) →
      l.filter q = l.take (l.filter q).length := by
  intro l
  induction l with
  | nil => intro _ _; simp
  | cons x xs ih =>
    intro hp hge
    rw [List.pairwise_cons] at hp
    have hx : t ≤ key x := hge x (by simp)
    by_cases hb : key x < b
    · have hqx : q x = true := (hq x).2 ⟨hx, hb⟩
      rw [List.filter_cons_of_pos hqx, List.length_cons, List.take_succ_cons]
      congr 1
      exact ih hp.2 (fun y hy => hge y (by simp [hy]))
    · have hqx : ¬ q x = true := fun h => hb ((hq x).1 h).2
      rw [List.filter_cons_of_neg hqx]
      have hnil : xs.filter q = [] := by
        rw [List.filter_eq_nil_iff]
        intro y hy h
        have := hp.1 y hy
        have := ((hq y).1 h).2
        omega
      rw [hnil]; simp

/-- in a list sorted by `key` the elements of the window `[t, b)` form a contiguous block -/
theorem filter_window_block {α : Type} (key : α → ℕ) (t b : ℕ) (q : α → Bool)
    (hq : ∀ x, q x = true ↔ (t ≤ key x ∧ key x < b)) :
    ∀ l : List α, l.Pairwise (fun x y => key x ≤ key y) →
      ∃ st, l.filter q = (l.drop st).take (l.filter q).length := by
  intro l
  induction l with
  | nil => intro _; exact ⟨0, by simp⟩
  | cons x xs ih =>
    intro hp
    by_cases hx : t ≤ key x
    · refine ⟨0, ?_⟩
      rw [List.drop_zero]
      apply filter_window_prefix key t b q hq (x :: xs) hp
      intro y hy
      rcases List.mem_cons.1 hy with h | h
      · subst h; exact hx
      · have := (List.pairwise_cons.1 hp).1 y h
        omega
    · obtain ⟨st, hst⟩ := ih (List.pairwise_cons.1 hp).2
      refine ⟨st + 1, ?_⟩
      have hqx : ¬ q x = true := fun h => hx ((hq x).1 h).1
      rw [List.filter_cons_of_neg hqx, List.drop_succ_cons]
      exact hst

/-- the workload of one task in a window is the cost of a run of consecutive jobs of the
task, as many as there are releases in the window -/
theorem workOf_eq_runSum (s : Sys) (i : ℕ) (hs : (relsOf s i).Pairwise (· ≤ ·)) (t d : ℕ) :
    ∃ st m, cnt (relsOf s i) t d = m ∧
      workOf s (fun x => x = i) t (t + d) = runSum (costsOf s i) st m := by
  let K := (List.range s.n).filter (fun k => decide (s.task k = i))
  let q : ℕ → Bool := fun k => decide (t ≤ s.arr k) && decide (s.arr k < t + d)
  have hq : ∀ x, q x = true ↔ (t ≤ s.arr x ∧ s.arr x < t + d) := by intro x; simp [q]
  have h1 : workOf s (fun x => x = i) t (t + d) = ((K.filter q).map s.cost).sum := by
    unfold workOf
    rw [sum_range_ite_eq_list]
    congr 2
    show _ = List.filter q (List.filter _ _)
    rw [List.filter_filter]
    congr 1
    funext k
    simp only [q, Bool.decide_and, Bool.and_comm]
  have hsorted : K.Pairwise (fun x y => s.arr x ≤ s.arr y) := by
    have := hs
    unfold relsOf at this
    rw [List.pairwise_map] at this
    exact this
  have hcnt : cnt (relsOf s i) t d = (K.filter q).length := by
    unfold cnt relsOf
    rw [List.filter_map, List.length_map]
    rfl
  obtain ⟨st, hst⟩ := filter_window_block s.arr t (t + d) q hq K hsorted
  refine ⟨st, (K.filter q).length, hcnt, ?_⟩
  rw [h1]
  generalize (K.filter q).length = m at hst
  rw [hst, List.map_take, List.map_drop]
  rfl

/-- splitting the workload by task -/
theorem work_eq_sum_workOf (s : Sys) (n : ℕ) (hlt : ∀ k, k < s.n → s.task k < n) (a b : ℕ) :
    work s a b = ∑ i ∈ range n, workOf s (fun x => x = i) a b := by
  unfold work workOf
  rw [Finset.sum_comm]
  apply Finset.sum_congr rfl
  intro k hk
  have hk' := hlt k (mem_range.1 hk)
  by_cases hw : a ≤ s.arr k ∧ s.arr k < b
  · simp only [hw, and_true, and_self, if_true]
    rw [Finset.sum_ite_eq]
    simp [hk']
  · simp [hw]

theorem sumList_eq_sum (l : List ℕ) : sumList l = l.sum := by
  induction l with
  | nil => rfl
  | cons x xs ih => simp [sumList, ih]

theorem sum_range_getElem? {α : Type} (l : List α) (g : α → ℕ) :
    (∑ i ∈ range l.length, match l[i]? with | some p => g p | none => 0) = sumList (l.map g) := by
  induction l with
  | nil => simp [sumList]
  | cons x xs ih =>
    rw [List.length_cons, Finset.sum_range_succ']
    simp only [List.getElem?_cons_succ, List.getElem?_cons_zero, List.map_cons, sumList]
    rw [ih]; omega

theorem need_taskSetRB (ts : List (Arr × Cost)) (d : ℕ) :
    (taskSetRB ts).need d = sumList (ts.map fun p => p.2.ofJobs (p.1.N d)) := by
  unfold taskSetRB
  rw [RB.need_agg, List.map_map]
  congr 1

end FifoSoundLemmas
open FifoSoundLemmas

/-- workload of ONE task in any window is bounded by its request-bound function -/
theorem task_work_le (s : Sys) (i : ℕ) (a : Arr) (c : Cost) (hwf : a.WF) (hc : c.WF)
    (h : TaskCompliant s i a c) (t d : ℕ) :
    workOf s (fun x => x = i) t (t + d) ≤ c.ofJobs (a.N d) := by
  obtain ⟨st, m, hm, hw⟩ := workOf_eq_runSum s i h.sorted t d
  rw [hw]
  have h1 : m ≤ a.N d := by rw [← hm]; exact Arr.bounds a hwf _ h.adm t d
  exact Nat.le_trans (h.costs st m) (Cost.ofJobs_mono c hc _ _ h1)

/-- workload of the whole job set in any window is bounded by the aggregate request bound -/
theorem work_le_need (s : Sys) (ts : List (Arr × Cost)) (hwf : ∀ p ∈ ts, p.1.WF ∧ p.2.WF)
    (h : Compliant s ts) (t d : ℕ) : work s t (t + d) ≤ (taskSetRB ts).need d := by
  rw [work_eq_sum_workOf s ts.length h.task_lt, need_taskSetRB,
    ← sum_range_getElem? ts (fun p => p.2.ofJobs (p.1.N d))]
  apply Finset.sum_le_sum
  intro i hi
  have hi' : i < ts.length := mem_range.1 hi
  have hmem : ts[i] ∈ ts := List.getElem_mem hi'
  rw [List.getElem?_eq_getElem hi']
  exact task_work_le s i _ _ (hwf _ hmem).1 (hwf _ hmem).2 (h.comp i hi') t d

/-- C03 (schedule half + analysis half): if the FIFO analysis returns `Ok(R)` for a request
bound that bounds the workload of every window, then in every FIFO schedule every job
completes within `R` of its release -/
theorem fifo_rta_sound (s : Sys) (hl : FifoLegal s) (tasks : RB) (hwf : tasks.ArrWF) (hex : tasks.Exact)
    (hwork : ∀ t d, work s t (t + d) ≤ tasks.need d) (limit R : ℕ)
    (hR : fifoRta tasks limit = .ok R) : ∀ j, j < s.n → MeetsBound s j R := by
  intro j hj
  show svc s j (s.arr j + R) = s.cost j
  rcases Nat.eq_zero_or_pos limit with h0 | hpos
  · exfalso
    subst h0
    unfold fifoRta at hR
    rw [PruneFPLemmas.search_limit_zero] at hR
    simp at hR
  rw [fifo_eq_naive tasks hwf hex limit hpos] at hR
  unfold naiveFifo at hR
  rcases naiveSolve_cases (fun L => tasks.need L) limit with ⟨L, hL⟩ | hd
  · rw [hL] at hR
    simp only [Res.ok.injEq] at hR
    by_cases hc0 : s.cost j = 0
    · have := svc_le_cost' hl j (s.arr j + R)
      omega
    have hw1 : s.cost j ≤ work s (s.arr j) (s.arr j + 1) := single_le_work s j hj
    have hn1 : 1 ≤ tasks.need 1 := by
      have := hwork (s.arr j) 1
      omega
    obtain ⟨_, hfix, _⟩ := (naiveSolve_ok_iff _ _ _).1 hL
    have hLpos : 0 < L := by
      rcases Nat.eq_zero_or_pos L with h | h
      · subst h
        have : tasks.need 1 ≤ 0 := hfix
        omega
      · exact h
    have hmax : max L 1 = L := by omega
    rw [hmax] at hfix
    refine fifo_sound hl (fun d => tasks.need d) hwork L R hLpos hfix ?_ j hj
    intro A hA
    have : tasks.need (A + 1) - A ≤ R := by
      rw [← hR]
      apply PruneCoreLemmas.mem_le_maxList
      exact List.mem_map.2 ⟨A, List.mem_range.2 hA, rfl⟩
    show tasks.need (A + 1) ≤ A + R
    omega
  · rw [hd] at hR
    simp at hR

/-- C03 at full strength: task set with arbitrary (exact) arrival models and positive
costs; any compliant release sequences and execution times; any FIFO schedule with
arbitrary tie-breaking -/
theorem fifo_sound_taskset (s : Sys) (hl : FifoLegal s) (ts : List (Arr × Cost))
    (hwf : ∀ p ∈ ts, p.1.WF ∧ p.2.WF) (hex : ∀ p ∈ ts, p.1.Exact ∧ p.2.StrictPos)
    (hc : Compliant s ts) (limit R : ℕ) (hR : fifoRta (taskSetRB ts) limit = .ok R) :
    ∀ j, j < s.n → MeetsBound s j R := by
  have h1 : (taskSetRB ts).ArrWF := by
    unfold taskSetRB; unfold RB.ArrWF
    exact arrWFList_map ts (fun p hp => (hwf p hp).1)
  have h2 : (taskSetRB ts).Exact := by
    unfold taskSetRB; unfold RB.Exact
    exact exactList_map ts hex
  exact fifo_rta_sound s hl (taskSetRB ts) h1 h2 (fun t d => work_le_need s ts hwf hc t d) limit R hR

end RTA.Sched
