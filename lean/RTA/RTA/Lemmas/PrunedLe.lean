import RTA.Lemmas.MonoRos
import RTA.Lemmas.ChainSound
/-! C07 / finding K2, the direction that always holds: the timer, polling-point and chain
analyses examine only the step offsets of the analysed demand; their result is never LARGER
than the evaluation of the defining inequalities over every offset up to the busy-window bound,
and an error of the pruned analysis implies an error of the all-offset evaluation. -/

namespace RTA
open RTA.Spec RTA.Sched

namespace PrunedLeLemmas
open RosNaiveLemmas MonoRosLemmas

/-- the scheme over the step offsets of `own` is below the scheme over every offset -/
theorem onSteps_leD_all (s : Supply) (own : RB) (hwf : own.ArrWF) (hex : own.Exact)
    (bwRhs : Nat → Nat) (offRhs : Nat → Nat → Nat) (limit : Nat) :
    Res.leD (naiveRosBoundOn s bwRhs offRhs limit (rosOffsets own))
      (naiveRosBound s bwRhs offRhs limit) := by
  rw [naiveRosBound_eq_on]
  apply rosBoundOn_leD s s (fun _ => Nat.le_refl _) bwRhs bwRhs offRhs offRhs limit
  · intro x; exact Nat.le_refl _
  · intro A x; exact Nat.le_refl _
  · intro m m' hmm A hA
    have h := ((mem_rosOffsets own hwf hex m A).1 hA).1
    exact List.mem_range.2 (by omega)

end PrunedLeLemmas
open PrunedLeLemmas RosNaiveLemmas

theorem timer_le_all_offsets (s : Supply) (hs : s.WF) (a : Arr) (C : Nat) (interf : RB)
    (hwf : a.WF) (hex : a.Exact) (hC : 1 ≤ C) (hpos : 0 < a.N 1)
    (hwfi : interf.ArrWF) (hexi : interf.Exact) (B limit : Nat) (hl : 1 ≤ limit) :
    Res.leD (rosTimer s (.rbf a (.scalar C)) interf B limit)
      (naiveTimer s (.rbf a (.scalar C)) interf B limit) := by
  obtain ⟨h1, h2⟩ := scalar_rb_side a C hwf hex hC
  rw [timer_eq_naive_on_steps s hs a C interf hwf hex hC hpos hwfi hexi B limit hl]
  exact onSteps_leD_all s _ h1 h2 _ _ limit

theorem pollingPoint_le_all_offsets (s : Supply) (hs : s.WF) (a : Arr) (C : Nat) (interf : RB)
    (hwf : a.WF) (hex : a.Exact) (hC : 1 ≤ C) (hpos : 0 < a.N 1)
    (hwfi : interf.ArrWF) (hexi : interf.Exact) (limit : Nat) (hl : 1 ≤ limit) :
    Res.leD (rosPollingPoint s (.rbf a (.scalar C)) interf limit)
      (naivePollingPoint s (.rbf a (.scalar C)) interf limit) := by
  obtain ⟨h1, h2⟩ := scalar_rb_side a C hwf hex hC
  rw [pollingPoint_eq_naive_on_steps s hs a C interf hwf hex hC hpos hwfi hexi limit hl]
  exact onSteps_leD_all s _ h1 h2 _ _ limit

end RTA
