import RTA.Lemmas.MonoRos
import RTA.Lemmas.ChainSound
/-! C17 for the processing-chain analysis: harder interference (other chains, chain prefix)
and a weaker supply never decrease the bound (the chain's own arrival curve and the WCET of its
last callback fixed) — a corollary of `rosChain = rosPollingPoint` and `pollingPoint_mono`. -/

namespace RTA
open RTA.Spec RTA.Sched

theorem chain_mono (s s' : Supply) (hs : s.WF) (hs' : s'.WF) (hsup : s'.Weaker s)
    (a : Arr) (C P P' : Nat) (hwf : a.WF) (hex : a.Exact) (hC : 1 ≤ C) (hP : 1 ≤ P) (hPP : P ≤ P')
    (hpos : 0 < a.N 1)
    (others others' : RB) (hwfo : others.ArrWF) (hexo : others.Exact)
    (hwfo' : others'.ArrWF) (hexo' : others'.Exact)
    (h : ∀ d, others.need d ≤ others'.need d) (limit : Nat) (hl : 1 ≤ limit) :
    Res.leD
      (rosChain s (.rbf a (.scalar C)) (.rbf a (.scalar P)) (.rbf a (.scalar (C + P))) others limit)
      (rosChain s' (.rbf a (.scalar C)) (.rbf a (.scalar P')) (.rbf a (.scalar (C + P'))) others' limit) := by
  have hP' : 1 ≤ P' := Nat.le_trans hP hPP
  rw [rosChain_eq_pollingPoint _ _ _ _ hC, rosChain_eq_pollingPoint _ _ _ _ hC]
  exact pollingPoint_mono s s' hs hs' hsup a C hwf hex hC hpos
    (.agg [.rbf a (.scalar P), others]) (.agg [.rbf a (.scalar P'), others'])
    (by simp only [RB.ArrWF, RB.ArrWFList]; exact ⟨hwf, hwfo, trivial⟩)
    (by simp only [RB.Exact, RB.ExactList]; exact ⟨⟨hex, Cost.scalar_strictPos P hP⟩, hexo, trivial⟩)
    (by simp only [RB.ArrWF, RB.ArrWFList]; exact ⟨hwf, hwfo', trivial⟩)
    (by simp only [RB.Exact, RB.ExactList]; exact ⟨⟨hex, Cost.scalar_strictPos P' hP'⟩, hexo', trivial⟩)
    (fun d => by
      rw [ChainSoundLemmas.need_agg2, ChainSoundLemmas.need_agg2,
        ChainSoundLemmas.need_scalar, ChainSoundLemmas.need_scalar]
      exact Nat.add_le_add (Nat.mul_le_mul_right _ hPP) (h d))
    limit hl

end RTA
