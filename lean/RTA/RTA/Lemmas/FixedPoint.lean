import RTA.Model.FixedPoint
/-! Lemmas about the fixed-point search loop (core Lean, `omega` only). -/

namespace RTA

/-- `st` is the exact pseudo-inverse of the supply-bound function `sbf`. -/
def Galois (sbf st : Nat → Nat) : Prop := ∀ d t, st d ≤ t ↔ d ≤ sbf t

def Mono (f : Nat → Nat) : Prop := ∀ a b, a ≤ b → f a ≤ f b

/-- the predicate whose least solution the search computes: the service guaranteed
within `offset + r` covers `w (max r 1)` -/
def Sol (sbf w : Nat → Nat) (offset r : Nat) : Prop := w (max r 1) ≤ sbf (offset + r)

/-- the `distance_to` guard: the offset lies inside the busy window -/
def InBusyWindow (st w : Nat → Nat) (offset : Nat) : Prop := ∀ x, 1 ≤ x → offset ≤ st (w x)

theorem searchLoop_spec (sbf st w : Nat → Nat) (stf : Nat → Option Nat) (offset limit : Nat)
    (hst : ∀ d, stf d = some (st d))
    (hinv : Galois sbf st) (hw : Mono w)
    (hoff : InBusyWindow st w offset) :
    ∀ (n : Nat) (assumed : Nat), limit + 1 - assumed ≤ n → 1 ≤ assumed →
      (∀ r, Sol sbf w offset r → assumed ≤ max r 1) →
      (∃ r, searchLoop stf w offset limit n assumed = .ok r ∧
          Sol sbf w offset r ∧ (∀ r', Sol sbf w offset r' → r ≤ r') ∧ r ≤ limit) ∨
      (searchLoop stf w offset limit n assumed = .div offset limit ∧
          ∀ r, Sol sbf w offset r → limit < max r 1) := by
  intro n
  induction n with
  | zero =>
    intro assumed hn h1 hinvt
    unfold searchLoop
    right
    refine ⟨rfl, ?_⟩
    intro r hr
    have := hinvt r hr
    omega
  | succ n ih =>
    intro assumed hn h1 hinvt
    unfold searchLoop
    by_cases hle : assumed ≤ limit
    · simp only [hle, if_true, hst]
      have hoffa := hoff assumed h1
      have hng : ¬ st (w assumed) < offset := by omega
      simp only [hng, if_false]
      by_cases hconv : st (w assumed) - offset ≤ assumed
      · simp only [hconv, if_true]
        left
        refine ⟨_, rfl, ?_, ?_, by omega⟩
        · unfold Sol
          have h1' : w assumed ≤ sbf (st (w assumed)) := (hinv _ _).1 (Nat.le_refl _)
          have h2 : offset + (st (w assumed) - offset) = st (w assumed) := by omega
          rw [h2]
          exact Nat.le_trans (hw _ _ (by omega)) h1'
        · intro r' hr'
          have hge := hinvt r' hr'
          have : w assumed ≤ sbf (offset + r') := Nat.le_trans (hw _ _ hge) hr'
          have := (hinv _ _).2 this
          omega
      · simp only [hconv, if_false]
        apply ih
        · omega
        · omega
        · intro r hr
          have hge := hinvt r hr
          have : w assumed ≤ sbf (offset + r) := Nat.le_trans (hw _ _ hge) hr
          have := (hinv _ _).2 this
          omega
    · simp only [hle, if_false]
      right
      refine ⟨trivial, ?_⟩
      intro r hr
      have := hinvt r hr
      omega

theorem searchLoop_start (sbf st w : Nat → Nat) (stf : Nat → Option Nat) (offset limit : Nat)
    (hst : ∀ d, stf d = some (st d))
    (hinv : Galois sbf st) (hw : Mono w)
    (hoff : InBusyWindow st w offset) :
      (∃ r, searchLoop stf w offset limit (limit + 1) 1 = .ok r ∧
          Sol sbf w offset r ∧ (∀ r', Sol sbf w offset r' → r ≤ r') ∧ r ≤ limit) ∨
      (searchLoop stf w offset limit (limit + 1) 1 = .div offset limit ∧
          ∀ r, Sol sbf w offset r → limit < max r 1) :=
  searchLoop_spec sbf st w stf offset limit hst hinv hw hoff (limit + 1) 1 (by omega) (by omega)
    (by intro r _; omega)

end RTA

namespace RTA

/-! ### `max_response_time` -/

/-- first divergence error of a list of results -/
def firstErr : List Res → Option Res
  | [] => none
  | .div o l :: _ => some (.div o l)
  | _ :: rs => firstErr rs

/-- maximum of the `ok` values of a list of results (0 if there is none) -/
def maxOk : List Res → Nat
  | [] => 0
  | .ok a :: rs => max a (maxOk rs)
  | _ :: rs => maxOk rs

theorem foldl_combine_div (o l : Nat) (rs : List Res) (hnp : ∀ x ∈ rs, x ≠ .panic) :
    rs.foldl combineRes (.div o l) = .div o l := by
  induction rs with
  | nil => rfl
  | cons x xs ih =>
    simp only [List.foldl_cons]
    have hx : x ≠ .panic := hnp x (by simp)
    have : combineRes (.div o l) x = .div o l := by
      cases x <;> simp_all [combineRes]
    rw [this]
    exact ih (fun y hy => hnp y (by simp [hy]))

theorem foldl_combine_ok (a : Nat) (rs : List Res) (hnp : ∀ x ∈ rs, x ≠ .panic) :
    rs.foldl combineRes (.ok a) =
      match firstErr rs with
      | some e => e
      | none => .ok (max a (maxOk rs)) := by
  induction rs generalizing a with
  | nil => simp [firstErr, maxOk]
  | cons x xs ih =>
    have hxs : ∀ y ∈ xs, y ≠ .panic := fun y hy => hnp y (by simp [hy])
    simp only [List.foldl_cons]
    cases x with
    | panic => exact absurd rfl (hnp .panic (by simp))
    | div o l =>
      simp only [combineRes, firstErr]
      exact foldl_combine_div o l xs hxs
    | ok b =>
      simp only [combineRes, firstErr, maxOk]
      by_cases h : a > b
      · simp only [h, if_true]
        rw [ih a hxs]
        cases firstErr xs with
        | some e => rfl
        | none => simp only []; congr 1; omega
      · simp only [h, if_false]
        rw [ih b hxs]
        cases firstErr xs with
        | some e => rfl
        | none => simp only []; congr 1; omega

/-! ### the debug-only brute-force scan -/

theorem bruteLoop_spec (sbf w : Nat → Nat) (limit : Nat)
    (h0 : sbf 0 = 0) (hl : ∀ t, sbf t ≤ sbf (t + 1) ∧ sbf (t + 1) ≤ sbf t + 1)
    (hw : Mono w) (hw1 : 0 < w 1) :
    ∀ fuel r, r + fuel = limit + 1 → 1 ≤ r →
      (∀ r', 1 ≤ r' → r' < r → ¬ Sol sbf w 0 r') →
      (∀ r0, r ≤ r0 → r0 ≤ limit → Sol sbf w 0 r0 →
          (∀ r', 1 ≤ r' → r' < r0 → ¬ Sol sbf w 0 r') →
          bruteLoop sbf w 0 limit fuel r = .ok r0) ∧
      ((∀ r0, r ≤ r0 → r0 ≤ limit → ¬ Sol sbf w 0 r0) →
          bruteLoop sbf w 0 limit fuel r = .div 0 limit) := by
  intro fuel
  induction fuel with
  | zero =>
    intro r hr h1 _
    refine ⟨?_, fun _ => rfl⟩
    intro r0 h2 h3
    omega
  | succ fuel ih =>
    intro r hr h1 hprev
    have hwr : w r ≠ 0 := by
      have := hw 1 r h1
      omega
    -- sbf t ≤ t
    have hsbf_le : ∀ t, sbf t ≤ t := by
      intro t
      induction t with
      | zero => omega
      | succ t iht => have := (hl t).2; omega
    by_cases hsol : Sol sbf w 0 r
    · -- r is the least solution: equality holds
      have hsol' : w r ≤ sbf r := by
        unfold Sol at hsol
        have e : max r 1 = r := by omega
        rw [e, Nat.zero_add] at hsol
        exact hsol
      have heq : sbf r = w r := by
        rcases Nat.eq_or_lt_of_le h1 with h | h
        · -- r = 1
          subst h
          have := hsbf_le 1
          omega
        · have hp := hprev (r - 1) (by omega) (by omega)
          unfold Sol at hp
          have e : max (r - 1) 1 = r - 1 := by omega
          rw [e, Nat.zero_add] at hp
          have hstep := (hl (r - 1)).2
          have e2 : r - 1 + 1 = r := by omega
          rw [e2] at hstep
          have := hw (r - 1) r (by omega)
          omega
      refine ⟨?_, ?_⟩
      · intro r0 h2 h3 hs0 hleast
        have : r0 = r := by
          rcases Nat.eq_or_lt_of_le h2 with h | h
          · exact h.symm
          · exact absurd hsol (hleast r h1 h)
        subst this
        unfold bruteLoop
        simp [hwr, heq]
      · intro hnone
        exact absurd hsol (hnone r (Nat.le_refl _) (by omega))
    · have hne : sbf (0 + r) ≠ w r := by
        intro h
        apply hsol
        unfold Sol
        have e : max r 1 = r := by omega
        rw [e, h]
        exact Nat.le_refl _
      have hprev' : ∀ r', 1 ≤ r' → r' < r + 1 → ¬ Sol sbf w 0 r' := by
        intro r' a b
        rcases Nat.eq_or_lt_of_le (Nat.le_of_lt_succ b) with h | h
        · subst h; exact hsol
        · exact hprev r' a h
      have := ih (r + 1) (by omega) (by omega) hprev'
      refine ⟨?_, ?_⟩
      · intro r0 h2 h3 hs0 hleast
        have hr0 : r + 1 ≤ r0 := by
          rcases Nat.eq_or_lt_of_le h2 with h | h
          · subst h; exact absurd hs0 hsol
          · exact h
        unfold bruteLoop
        simp only [hwr, if_false, hne]
        exact this.1 r0 hr0 h3 hs0 hleast
      · intro hnone
        unfold bruteLoop
        simp only [hwr, if_false, hne]
        exact this.2 (fun r0 a b => hnone r0 (by omega) b)

end RTA
