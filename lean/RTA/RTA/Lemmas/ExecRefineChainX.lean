import RTA.Lemmas.ExecRefineChain
import RTA.Lemmas.ExecRefineX
/-! Refinement for processing chains over the executor transition system with ARBITRARY execution
times (`RTA/Spec/Ros2ExecX.lean`): every run with a linear chain satisfies the schedule-level Spec
used by `chain_sound`.  Adapted copy of the run-dependent part of `Lemmas/ExecRefineChain.lean`;
the jobs (`n`, `task`, `arr`) are exactly those of `Exec.toSysC`, the cost of a job is the
execution time that the instance actually gets (`ex i t0`, `t0` its start slot; the WCET if it
never starts).  Everything that does not depend on the run (structure of the chain, the state
invariant `Good`, the jobs `jobC`) is reused from `Exec.ChainRefineLemmas`. -/

open Finset

namespace RTA.ExecX
open RTA RTA.Sched RTA.Exec

variable (cbs : List Cb) (ex : ℕ → ℕ → ℕ) (ch : List ℕ) (sigma : ℕ → Bool) (rels : ℕ → List ℕ)

/-- the state at the beginning of slot `t` (with the chain, execution times `ex`) -/
def stateAtC : ℕ → State
  | 0 => State.init cbs.length
  | t + 1 => (step cbs ex (chainFn ch) t (sigma t) (rels t) (stateAtC t)).1

/-- state of slot `t` after recording the releases and picking -/
def pickedAtC (t : ℕ) : State :=
  let s1 := { stateAtC cbs ex ch sigma rels t with
    queue := addReleases (stateAtC cbs ex ch sigma rels t).queue (rels t) t }
  if !sigma t then s1 else
  match s1.running with
  | some _ => s1
  | none => pick cbs ex t s1

def servedCbC (t : ℕ) : Option ℕ :=
  if !sigma t then none else (pickedAtC cbs ex ch sigma rels t).running.map (·.1)

def startsCbC (t i : ℕ) : Bool :=
  sigma t && (({ stateAtC cbs ex ch sigma rels t with
      queue := addReleases (stateAtC cbs ex ch sigma rels t).queue (rels t) t } : State).running.isNone) &&
    (servedCbC cbs ex ch sigma rels t == some i)

def startedBeforeC (i : ℕ) : ℕ → ℕ
  | 0 => 0
  | t + 1 => startedBeforeC i t + (if startsCbC cbs ex ch sigma rels t i then 1 else 0)

/-- the callback of job `k` (as in `Exec.toSysC`) -/
def taskCX (H k : ℕ) : ℕ :=
  if k < (events rels H).length then ((events rels H).getD k (0, 0)).2
  else ch.getD ((k - (events rels H).length) / nSrc ch rels H + 1) 0

/-- the schedule of the run's job system (as in `Exec.toSysC`) -/
def schedCX (H t : ℕ) : Option ℕ :=
  match servedCbC cbs ex ch sigma rels t with
  | none => none
  | some i =>
    let m0 := startedBeforeC cbs ex ch sigma rels i t
    let m := if startsCbC cbs ex ch sigma rels t i then m0 else m0 - 1
    match ch.findIdx? (· = i) with
    | some (x + 1) => some ((events rels H).length + x * nSrc ch rels H + m)
    | _ => nthEventOf rels H i m

open Classical in
/-- the cost of job `k` = the execution time its instance actually gets: `ex i t0` where `t0` is
the first slot in which the job is served (its start slot); the WCET if it is never served -/
noncomputable def costCX (H k : ℕ) : ℕ :=
  if h : ∃ t, schedCX cbs ex ch sigma rels H t = some k ∧
      ∀ u, u < t → schedCX cbs ex ch sigma rels H u ≠ some k
  then ex (taskCX ch rels H k) (Classical.choose h)
  else (cbs.getD (taskCX ch rels H k) default).cost

/-- the job system of a run with a chain: jobs, callbacks and arrival times as in `Exec.toSysC`,
costs = actual execution times -/
noncomputable def toSysCX (H : ℕ) : Sys where
  n := (events rels H).length + (ch.length - 1) * nSrc ch rels H
  task := taskCX ch rels H
  arr := fun k =>
    if k < (events rels H).length then ((events rels H).getD k (0, 0)).1
    else
      match nthEventOf rels H (ch.headD 0) ((k - (events rels H).length) % nSrc ch rels H) with
      | some e => ((events rels H).getD e (0, 0)).1
      | none => 0
  cost := costCX cbs ex ch sigma rels H
  np := fun _ _ => False
  sched := schedCX cbs ex ch sigma rels H

namespace ChainRefineXLemmas
open RTA.Exec.RefineLemmas RTA.Exec.ChainRefineLemmas

/-! ### what happens in one slot -/

/-! ### what happens in one slot -/

section slot
variable (cbs : List Cb) (ex : ℕ → ℕ → ℕ) (ch : List ℕ) (sigma : ℕ → Bool) (rels : ℕ → List ℕ)

/-- the state in slot `t` after the releases of `t` have been recorded -/
def relAtC (t : ℕ) : State :=
  { stateAtC cbs ex ch sigma rels t with
    queue := addReleases (stateAtC cbs ex ch sigma rels t).queue (rels t) t }


theorem stateAtC_succ (t : ℕ) : stateAtC cbs ex ch sigma rels (t + 1) =
    if sigma t = true then fin ch t (pickedAtC cbs ex ch sigma rels t) else relAtC cbs ex ch sigma rels t := by
  cases hs : sigma t with
  | false => simp [stateAtC, step, hs, relAtC]
  | true =>
    simp only [stateAtC, step, pickedAtC, hs, relAtC]
    simp only [Bool.not_true, Bool.false_eq_true, if_false, if_true]
    exact fin_aux ch t _

theorem pickedAtC_eq (t : ℕ) : pickedAtC cbs ex ch sigma rels t =
    if sigma t = true then
      (match (relAtC cbs ex ch sigma rels t).running with
        | some _ => relAtC cbs ex ch sigma rels t
        | none => pick cbs ex t (relAtC cbs ex ch sigma rels t))
    else relAtC cbs ex ch sigma rels t := by
  cases hs : sigma t <;> simp [pickedAtC, hs, relAtC]

theorem startsCbC_eq (t c : ℕ) : startsCbC cbs ex ch sigma rels t c =
    (sigma t && (relAtC cbs ex ch sigma rels t).running.isNone &&
      (servedCbC cbs ex ch sigma rels t == some c)) := rfl

theorem servedCbC_eq (t : ℕ) : servedCbC cbs ex ch sigma rels t =
    if sigma t = true then (pickedAtC cbs ex ch sigma rels t).running.map (·.1) else none := by
  cases hs : sigma t <;> simp [servedCbC, hs]

end slot

section slot2
variable {cbs : List Cb} {ex : ℕ → ℕ → ℕ} {ch : List ℕ} {sigma : ℕ → Bool} {rels : ℕ → List ℕ}

local notation "St" => stateAtC cbs ex ch sigma rels
local notation "Rl" => relAtC cbs ex ch sigma rels
local notation "Pk" => pickedAtC cbs ex ch sigma rels
local notation "sb" => startedBeforeC cbs ex ch sigma rels
local notation "served" => servedCbC cbs ex ch sigma rels
local notation "starts" => startsCbC cbs ex ch sigma rels

variable (cbs ex ch sigma rels) in
/-- the ready set used by `pick` in slot `t` -/
def readyAtC (t : ℕ) : List ℕ :=
  if (Rl t).ready.isEmpty then pendingPolled cbs (Rl t).queue else (Rl t).ready

variable {t : ℕ}

theorem slotA (hs : sigma t = false) :
    served t = none ∧ (∀ c, starts t c = false) ∧ St (t + 1) = Rl t := by
  refine ⟨by simp [servedCbC_eq, hs], fun c => by simp [startsCbC_eq, hs],
    by simp [stateAtC_succ, hs]⟩

theorem slotB (hs : sigma t = true) {i rem r : ℕ} (hr : (Rl t).running = some (i, rem, r)) :
    served t = some i ∧ (∀ c, starts t c = false) ∧ Pk t = Rl t := by
  have hp : Pk t = Rl t := by rw [pickedAtC_eq]; simp [hs, hr]
  exact ⟨by simp [servedCbC_eq, hs, hp, hr], fun c => by simp [startsCbC_eq, hr], hp⟩

theorem slotC (hs : sigma t = true) (hr : (Rl t).running = none) {i : ℕ}
    (hb : bestOf cbs (pendingTimers cbs (Rl t).queue) = some i) :
    served t = some i ∧ (∀ c, starts t c = true ↔ c = i) ∧
    Pk t = { queue := (Rl t).queue.set i (((Rl t).queue.getD i []).drop 1),
             ready := (Rl t).ready,
             running := some (i, ex i t, ((Rl t).queue.getD i []).headD 0) } := by
  have hp0 : Pk t = pick cbs ex t (Rl t) := by
    rw [pickedAtC_eq, if_pos hs]; simp only [hr]
  have hp := hp0.trans (RefineXLemmas.pick_timer cbs ex t _ i hb)
  have hsv : served t = some i := by simp [servedCbC_eq, hs, hp]
  refine ⟨hsv, fun c => ?_, hp⟩
  rw [startsCbC_eq, hs, hr, hsv]
  simp only [Option.isNone_none, Bool.and_self, Bool.true_and, beq_iff_eq, Option.some.injEq]
  exact eq_comm

theorem slotD (hs : sigma t = true) (hr : (Rl t).running = none)
    (hb : bestOf cbs (pendingTimers cbs (Rl t).queue) = none) {i : ℕ}
    (hb2 : bestOf cbs (readyAtC cbs ex ch sigma rels t) = some i) :
    served t = some i ∧ (∀ c, starts t c = true ↔ c = i) ∧
    Pk t = { queue := (Rl t).queue.set i (((Rl t).queue.getD i []).drop 1),
             ready := (readyAtC cbs ex ch sigma rels t).erase i,
             running := some (i, ex i t, ((Rl t).queue.getD i []).headD 0) } := by
  have hp0 : Pk t = pick cbs ex t (Rl t) := by
    rw [pickedAtC_eq, if_pos hs]; simp only [hr]
  have hp := hp0.trans (RefineXLemmas.pick_polled cbs ex t _ i hb hb2)
  have hsv : served t = some i := by simp [servedCbC_eq, hs, hp]
  refine ⟨hsv, fun c => ?_, hp⟩
  rw [startsCbC_eq, hs, hr, hsv]
  simp only [Option.isNone_none, Bool.and_self, Bool.true_and, beq_iff_eq, Option.some.injEq]
  exact eq_comm

theorem slotE (hs : sigma t = true) (hr : (Rl t).running = none)
    (hb : bestOf cbs (pendingTimers cbs (Rl t).queue) = none)
    (hb2 : bestOf cbs (readyAtC cbs ex ch sigma rels t) = none) :
    served t = none ∧ (∀ c, starts t c = false) ∧
    Pk t = { Rl t with ready := readyAtC cbs ex ch sigma rels t } := by
  have hp0 : Pk t = pick cbs ex t (Rl t) := by
    rw [pickedAtC_eq, if_pos hs]; simp only [hr]
  have hp := hp0.trans (RefineXLemmas.pick_none cbs ex t _ hb hb2)
  have hsv : served t = none := by simp [servedCbC_eq, hs, hp, hr]
  exact ⟨hsv, fun c => by simp [startsCbC_eq, hsv], hp⟩

theorem sbC_succ (i t : ℕ) : sb i (t + 1) = sb i t + if starts t i = true then 1 else 0 := rfl

end slot2

section inv1
variable {cbs : List Cb} {ex : ℕ → ℕ → ℕ} {ch : List ℕ} {sigma : ℕ → Bool} {rels : ℕ → List ℕ}

local notation "St" => stateAtC cbs ex ch sigma rels
local notation "Rl" => relAtC cbs ex ch sigma rels
local notation "Pk" => pickedAtC cbs ex ch sigma rels
local notation "sb" => startedBeforeC cbs ex ch sigma rels
local notation "served" => servedCbC cbs ex ch sigma rels
local notation "starts" => startsCbC cbs ex ch sigma rels


variable (cbs ex ch sigma rels) in
/-- the bookkeeping invariant at the beginning of slot `t` -/
def Inv1C (t : ℕ) : Prop := Good cbs ch (St t) (fun i => sb i t) (fun i => cnt rels i t)


theorem inv1C_zero : Inv1C cbs ex ch sigma rels 0 := by
  refine ⟨by simp [stateAtC, State.init], ?_, ?_, ?_, by simp [stateAtC, State.init], ?_, ?_⟩
  · intro i hi _
    simp [stateAtC, State.init, startedBeforeC, cnt, List.getD_eq_getElem?_getD, getD_replicate_nil]
  · intro x hx
    simp [stateAtC, State.init, startedBeforeC, List.getD_eq_getElem?_getD, getD_replicate_nil]
  · intro i rem r h; simp [stateAtC, State.init] at h
  · intro c hc; simp [stateAtC, State.init] at hc
  · intro c hc; simp [stateAtC, State.init] at hc

variable (hnd : ch.Nodup) (hmem : ∀ i ∈ ch, i < cbs.length) (hext : ∀ t, ∀ i ∈ rels t, i ∉ ch.tail)
  (hexec : ∀ k, k < cbs.length → ∀ t, 1 ≤ ex k t ∧ ex k t ≤ (cbs.getD k default).cost)
variable {t : ℕ}
include hmem hext

theorem goodRl_of (h : Inv1C cbs ex ch sigma rels t) :
    Good cbs ch (Rl t) (fun i => sb i t) (fun i => cnt rels i (t + 1)) :=
  (good_rel hmem h (rels t) t (hext t)).congr (fun _ => rfl) (fun _ => rfl)

include hexec in
theorem goodPk_of (h : Inv1C cbs ex ch sigma rels t) (hs : sigma t = true) :
    Good cbs ch (Pk t) (fun i => sb i (t + 1)) (fun i => cnt rels i (t + 1)) := by
  have g := goodRl_of hmem hext h
  rcases hr : (Rl t).running with _ | ⟨i, rem, r⟩
  · cases hb : bestOf cbs (pendingTimers cbs (Rl t).queue) with
    | some i =>
      obtain ⟨_, hst, hp⟩ := slotC hs hr hb
      have hm := (mem_pendingTimers _ _ _).1 (bestOf_mem _ _ _ hb)
      rw [hp]
      refine (good_pop hmem g hr i hm.1 hm.2.2 _ _ _ ?_ g.rNodup ?_).congr ?_ (fun _ => rfl)
      · exact (hexec _ hm.1 t).1
      · intro c hc
        have h1 := g.rPolled c hc
        refine ⟨?_, h1.1, h1.2, g.rPend c hc⟩
        intro e; subst e; rw [h1.2] at hm; exact absurd hm.2.1 (by simp)
      · intro c
        rw [sbC_succ]
        by_cases e : c = i
        · rw [if_pos ((hst c).2 e), if_pos e]
        · rw [if_neg (fun hh => e ((hst c).1 hh)), if_neg e]
    | none =>
      cases hb2 : bestOf cbs (readyAtC cbs ex ch sigma rels t) with
      | some i =>
        obtain ⟨_, hst, hp⟩ := slotD hs hr hb hb2
        have hm := good_rdy_mem g i (bestOf_mem _ _ _ hb2)
        rw [hp]
        refine (good_pop hmem g hr i hm.1 hm.2.2 _ _ _ ?_ ((good_rdy_nodup g).erase i) ?_).congr ?_
          (fun _ => rfl)
        · exact (hexec _ hm.1 t).1
        · intro c hc
          rw [(good_rdy_nodup g).mem_erase_iff] at hc
          exact ⟨hc.1, good_rdy_mem g c hc.2⟩
        · intro c
          rw [sbC_succ]
          by_cases e : c = i
          · rw [if_pos ((hst c).2 e), if_pos e]
          · rw [if_neg (fun hh => e ((hst c).1 hh)), if_neg e]
      | none =>
        obtain ⟨_, hst, hp⟩ := slotE hs hr hb hb2
        rw [hp]
        refine (good_ready g _ (good_rdy_nodup g) (good_rdy_mem g)).congr ?_ (fun _ => rfl)
        intro c; rw [sbC_succ, hst]; simp
  · obtain ⟨_, hst, hp⟩ := slotB hs hr
    rw [hp]
    refine g.congr ?_ (fun _ => rfl)
    intro c; rw [sbC_succ, hst]; simp

include hnd hexec in
theorem inv1C_succ (h : Inv1C cbs ex ch sigma rels t) : Inv1C cbs ex ch sigma rels (t + 1) := by
  unfold Inv1C
  cases hs : sigma t with
  | false =>
    obtain ⟨_, hst, hnext⟩ := slotA (cbs := cbs) (ex := ex) (ch := ch) (rels := rels) hs
    rw [hnext]
    refine (goodRl_of hmem hext h).congr ?_ (fun _ => rfl)
    intro c; rw [sbC_succ, hst]; simp
  | true =>
    rw [stateAtC_succ, if_pos hs]
    exact good_fin hmem hnd (goodPk_of hmem hext hexec h hs) t

end inv1

/-! ### the shape of a slot -/

section shape
variable {cbs : List Cb} {ex : ℕ → ℕ → ℕ} {ch : List ℕ} {sigma : ℕ → Bool} {rels : ℕ → List ℕ}

local notation "St" => stateAtC cbs ex ch sigma rels
local notation "Rl" => relAtC cbs ex ch sigma rels
local notation "Pk" => pickedAtC cbs ex ch sigma rels
local notation "sb" => startedBeforeC cbs ex ch sigma rels
local notation "served" => servedCbC cbs ex ch sigma rels
local notation "starts" => startsCbC cbs ex ch sigma rels

variable (hnd : ch.Nodup) (hmem : ∀ i ∈ ch, i < cbs.length) (hext : ∀ t, ∀ i ∈ rels t, i ∉ ch.tail)
  (hexec : ∀ k, k < cbs.length → ∀ t, 1 ≤ ex k t ∧ ex k t ≤ (cbs.getD k default).cost)
include hnd hmem hext hexec

theorem inv1C : ∀ t, Inv1C cbs ex ch sigma rels t
  | 0 => inv1C_zero
  | t + 1 => inv1C_succ hnd hmem hext hexec (inv1C t)

theorem goodRl (t : ℕ) : Good cbs ch (Rl t) (fun i => sb i t) (fun i => cnt rels i (t + 1)) :=
  goodRl_of hmem hext (inv1C hnd hmem hext hexec t)

omit hnd hmem hext hexec in
theorem readyAtC_of_empty {t : ℕ} (h : (St t).ready = []) :
    readyAtC cbs ex ch sigma rels t = pendingPolled cbs (Rl t).queue := by
  unfold readyAtC
  have : (Rl t).ready = [] := h
  rw [this]; rfl

omit hnd hmem hext hexec in
theorem readyAtC_of_nonempty {t : ℕ} (h : (St t).ready ≠ []) :
    readyAtC cbs ex ch sigma rels t = (St t).ready := by
  unfold readyAtC
  have : (Rl t).ready.isEmpty = false := by
    show (St t).ready.isEmpty = false
    cases hh : (St t).ready with
    | nil => exact absurd hh h
    | cons a l => rfl
  rw [this]; rfl

theorem slot_casesC (t : ℕ) :
    (served t = none ∧ (∀ c, starts t c = false) ∧ (St (t + 1)).running = (St t).running ∧
      (sigma t = true → (St t).running = none ∧ pendingTimers cbs (Rl t).queue = [] ∧
        readyAtC cbs ex ch sigma rels t = [])) ∨
    (sigma t = true ∧ ∃ i rem r, (St t).running = some (i, rem, r) ∧
      served t = some i ∧ (∀ c, starts t c = false) ∧
      (St (t + 1)).running = if rem ≤ 1 then none else some (i, rem - 1, r)) ∨
    (sigma t = true ∧ (St t).running = none ∧ ∃ i r0, served t = some i ∧
      (∀ c, starts t c = true ↔ c = i) ∧ i < cbs.length ∧
      0 < ((Rl t).queue.getD i []).length ∧
      (St (t + 1)).running = if ex i t ≤ 1 then none
        else some (i, ex i t - 1, r0)) := by
  have g := goodRl hnd hmem hext hexec (sigma := sigma) t
  cases hs : sigma t with
  | false =>
    obtain ⟨hsv, hst, hnext⟩ := slotA (cbs := cbs) (ex := ex) (ch := ch) (rels := rels) hs
    exact Or.inl ⟨hsv, hst, by rw [hnext]; rfl, fun h => by cases h⟩
  | true =>
    have hnext : St (t + 1) = fin ch t (Pk t) := by rw [stateAtC_succ, if_pos hs]
    rcases hr : (Rl t).running with _ | ⟨i, rem, r⟩
    · cases hb : bestOf cbs (pendingTimers cbs (Rl t).queue) with
      | some i =>
        obtain ⟨hsv, hst, hp⟩ := slotC hs hr hb
        have hm := (mem_pendingTimers _ _ _).1 (bestOf_mem _ _ _ hb)
        refine Or.inr (Or.inr ⟨rfl, hr, i, ((Rl t).queue.getD i []).headD 0, hsv, hst, hm.1, hm.2.2, ?_⟩)
        rw [hnext, fin_running, hp]
      | none =>
        have hb' := (bestOf_eq_none _ _).1 hb
        cases hb2 : bestOf cbs (readyAtC cbs ex ch sigma rels t) with
        | some i =>
          obtain ⟨hsv, hst, hp⟩ := slotD hs hr hb hb2
          have hm := good_rdy_mem g i (bestOf_mem _ _ _ hb2)
          refine Or.inr (Or.inr ⟨rfl, hr, i, ((Rl t).queue.getD i []).headD 0, hsv, hst, hm.1, hm.2.2, ?_⟩)
          rw [hnext, fin_running, hp]
        | none =>
          obtain ⟨hsv, hst, hp⟩ := slotE hs hr hb hb2
          refine Or.inl ⟨hsv, hst, ?_, fun _ => ⟨hr, hb', (bestOf_eq_none _ _).1 hb2⟩⟩
          rw [hnext, fin_running, hp]
          have : (St t).running = none := hr
          simp only [hr, this]
    · obtain ⟨hsv, hst, hp⟩ := slotB hs hr
      refine Or.inr (Or.inl ⟨rfl, i, rem, r, hr, hsv, hst, ?_⟩)
      rw [hnext, fin_running, hp, hr]

end shape

/-! ### the jobs of `toSysCX` (those of `Exec.toSysC`); the cost of a job -/

section jobs
variable {cbs : List Cb} {ex : ℕ → ℕ → ℕ} {ch : List ℕ} {sigma : ℕ → Bool} {rels : ℕ → List ℕ} {H : ℕ}

local notation "Sy" => toSysCX cbs ex ch sigma rels H

theorem jobCX_facts (hnd : ch.Nodup) (hfin : ∀ t, H ≤ t → rels t = []) {i m k : ℕ}
    (hj : jobC ch rels H i m = some k) :
    k < (Sy).n ∧ (Sy).task k = i ∧ ∀ t, (Sy).arr k ≤ t ↔ m < cnt rels (src ch i) (t + 1) :=
  jobC_facts (cbs := cbs) (sigma := sigma) hnd hfin hj

theorem jobCX_exists (hnd : ch.Nodup) (hmem : ∀ i ∈ ch, i < cbs.length)
    (hidx : ∀ t, ∀ i ∈ rels t, i < cbs.length)
    (hext : ∀ t, ∀ i ∈ rels t, i ∉ ch.tail) {k : ℕ} (hk : k < (Sy).n) :
    ∃ i m, i < cbs.length ∧ jobC ch rels H i m = some k :=
  jobC_exists (cbs := cbs) (sigma := sigma) hnd hmem hidx hext hk

/-- the cost of a job is the execution time drawn in its first slot -/
theorem costCX_first {k t : ℕ} (h1 : schedCX cbs ex ch sigma rels H t = some k)
    (h2 : ∀ u, u < t → schedCX cbs ex ch sigma rels H u ≠ some k) :
    costCX cbs ex ch sigma rels H k = ex (taskCX ch rels H k) t := by
  unfold costCX
  have hE : ∃ t, schedCX cbs ex ch sigma rels H t = some k ∧
      ∀ u, u < t → schedCX cbs ex ch sigma rels H u ≠ some k := ⟨t, h1, h2⟩
  rw [dif_pos hE]
  have hs := Classical.choose_spec hE
  have : Classical.choose hE = t := by
    rcases Nat.lt_trichotomy (Classical.choose hE) t with h | h | h
    · exact absurd hs.1 (h2 _ h)
    · exact h
    · exact absurd h1 (hs.2 _ h)
  rw [this]

/-- every cost is an admissible execution time -/
theorem costCX_bounds (hexec : ∀ k, k < cbs.length → ∀ t, 1 ≤ ex k t ∧ ex k t ≤ (cbs.getD k default).cost)
    {k : ℕ} (hk : taskCX ch rels H k < cbs.length) :
    1 ≤ costCX cbs ex ch sigma rels H k ∧
      costCX cbs ex ch sigma rels H k ≤ (cbs.getD (taskCX ch rels H k) default).cost := by
  unfold costCX
  split
  · exact hexec _ hk _
  · have := hexec _ hk 0; omega

end jobs

/-! ### layer 2: service received by the jobs -/

/-- the hypotheses of `run_chain_legal_x` that the proof uses -/
structure HypX (cbs : List Cb) (ex : ℕ → ℕ → ℕ) (ch : List ℕ) (rels : ℕ → List ℕ) (H : ℕ) : Prop where
  hnd : ch.Nodup
  hmem : ∀ i ∈ ch, i < cbs.length
  hidx : ∀ t, ∀ i ∈ rels t, i < cbs.length
  hext : ∀ t, ∀ i ∈ rels t, i ∉ ch.tail
  hfin : ∀ t, H ≤ t → rels t = []
  hexec : ∀ k, k < cbs.length → ∀ t, 1 ≤ ex k t ∧ ex k t ≤ (cbs.getD k default).cost

section layer2
variable {cbs : List Cb} {ex : ℕ → ℕ → ℕ} {ch : List ℕ} {sigma : ℕ → Bool} {rels : ℕ → List ℕ} {H : ℕ}
variable (hy : HypX cbs ex ch rels H)

local notation "St" => stateAtC cbs ex ch sigma rels
local notation "Rl" => relAtC cbs ex ch sigma rels
local notation "sb" => startedBeforeC cbs ex ch sigma rels
local notation "served" => servedCbC cbs ex ch sigma rels
local notation "starts" => startsCbC cbs ex ch sigma rels
local notation "Sy" => toSysCX cbs ex ch sigma rels H
local notation "job" => jobC ch rels H

include hy

theorem inv1 (t : ℕ) : Good cbs ch (St t) (fun i => sb i t) (fun i => cnt rels i t) :=
  inv1C hy.hnd hy.hmem hy.hext hy.hexec t

theorem gRl (t : ℕ) : Good cbs ch (Rl t) (fun i => sb i t) (fun i => cnt rels i (t + 1)) :=
  goodRl hy.hnd hy.hmem hy.hext hy.hexec t

theorem slots (t : ℕ) :
    (served t = none ∧ (∀ c, starts t c = false) ∧ (St (t + 1)).running = (St t).running ∧
      (sigma t = true → (St t).running = none ∧ pendingTimers cbs (Rl t).queue = [] ∧
        readyAtC cbs ex ch sigma rels t = [])) ∨
    (sigma t = true ∧ ∃ i rem r, (St t).running = some (i, rem, r) ∧
      served t = some i ∧ (∀ c, starts t c = false) ∧
      (St (t + 1)).running = if rem ≤ 1 then none else some (i, rem - 1, r)) ∨
    (sigma t = true ∧ (St t).running = none ∧ ∃ i r0, served t = some i ∧
      (∀ c, starts t c = true ↔ c = i) ∧ i < cbs.length ∧
      0 < ((Rl t).queue.getD i []).length ∧
      (St (t + 1)).running = if ex i t ≤ 1 then none
        else some (i, ex i t - 1, r0)) :=
  slot_casesC hy.hnd hy.hmem hy.hext hy.hexec t

theorem served_lt {t i : ℕ} (h : served t = some i) :
    i < cbs.length ∧ (if starts t i = true then sb i t else sb i t - 1) < cnt rels (src ch i) (t + 1) := by
  have g := gRl (sigma := sigma) hy t
  rcases slots (sigma := sigma) hy t with
    ⟨hsv, _⟩ | ⟨_, i', rem, r, hr, hsv, hst, _⟩ | ⟨_, hr, i', r0, hsv, hst, hi, hq, _⟩
  · rw [hsv] at h; cases h
  · rw [hsv] at h; cases h
    obtain ⟨hi, h1, _⟩ := g.runOk i rem r hr
    have := sb_le_src hy.hnd hy.hmem g hi
    rw [hst]
    simp only [Bool.false_eq_true, if_false]
    exact ⟨hi, by omega⟩
  · rw [hsv] at h; cases h
    rw [if_pos ((hst i).2 rfl)]
    exact ⟨hi, sb_lt_src hy.hnd hy.hmem g hi hq⟩

theorem sched_eqC (t : ℕ) : (Sy).sched t =
    match served t with
    | none => none
    | some i => job i (if starts t i = true then sb i t else sb i t - 1) := by
  have h0 : (Sy).sched t = match served t with
    | none => none
    | some i =>
      (match ch.findIdx? (· = i) with
        | some (x + 1) => some ((events rels H).length + x * nSrc ch rels H +
            (if starts t i = true then sb i t else sb i t - 1))
        | _ => nthEventOf rels H i (if starts t i = true then sb i t else sb i t - 1)) := rfl
  rw [h0]
  cases hsv : served t with
  | none => rfl
  | some i =>
    simp only
    obtain ⟨_, hlt⟩ := served_lt hy hsv
    generalize (if starts t i = true then sb i t else sb i t - 1) = m at hlt ⊢
    unfold jobC
    split
    · rename_i x hx
      have hit : i ∈ ch.tail := mem_tail.2 ⟨x, (idx_some ch hx).1, (idx_some ch hx).2.symm⟩
      rw [src_of_tail hit] at hlt
      have := cnt_le_H (rels := rels) hy.hfin (cAt ch 0) (t + 1)
      rw [← nSrc_eq (H := H) (by have := (idx_some ch hx).1; omega)] at this
      simp only [hx]
      rw [if_pos (show m < nSrc ch rels H by omega)]
    · rename_i hne
      split
      · rename_i x hx; exact absurd hx (hne x)
      · rfl

theorem sched_iffC {i m k : ℕ} (hj : job i m = some k) (t : ℕ) :
    (Sy).sched t = some k ↔ (served t = some i ∧
      m = if starts t i = true then sb i t else sb i t - 1) := by
  rw [sched_eqC hy]
  cases hsv : served t with
  | none => simp
  | some i' =>
    simp only
    constructor
    · intro h
      obtain ⟨e1, e2⟩ := jobC_inj hy.hnd hy.hfin h hj
      subst e1
      exact ⟨rfl, e2.symm⟩
    · rintro ⟨e1, e2⟩
      cases e1
      rw [← e2]; exact hj

omit hy in
theorem svc_succC (k t : ℕ) :
    svc (Sy) k (t + 1) = svc (Sy) k t + if (Sy).sched t = some k then 1 else 0 := rfl

variable (cbs ex ch sigma rels H) in
structure Inv2C (t : ℕ) : Prop where
  done : ∀ i m k, job i m = some k → m + 1 ≤ sb i t →
    (m + 1 = sb i t → ∀ rem r, (St t).running ≠ some (i, rem, r)) → svc (Sy) k t = (Sy).cost k
  unst : ∀ i m k, job i m = some k → sb i t ≤ m → svc (Sy) k t = 0
  run : ∀ i rem r m k, (St t).running = some (i, rem, r) → job i m = some k → m + 1 = sb i t →
    svc (Sy) k t + rem = (Sy).cost k ∧ 1 ≤ svc (Sy) k t

omit hy in
theorem inv2C_zero : Inv2C cbs ex ch sigma rels H 0 where
  done := fun i m k _ h => by simp [startedBeforeC] at h
  unst := fun i m k _ _ => rfl
  run := fun i rem r m k h => by simp [stateAtC, State.init] at h

variable {t : ℕ}

theorem inv2C_keep (hsv : served t = none) (hst : ∀ c, starts t c = false)
    (hrun : (St (t + 1)).running = (St t).running) (h : Inv2C cbs ex ch sigma rels H t) :
    Inv2C cbs ex ch sigma rels H (t + 1) := by
  have hsb : ∀ i, sb i (t + 1) = sb i t := fun i => by rw [sbC_succ, hst]; simp
  have hsvc : ∀ k, svc (Sy) k (t + 1) = svc (Sy) k t := fun k => by
    rw [svc_succC, sched_eqC hy, hsv]; simp
  refine ⟨?_, ?_, ?_⟩
  · intro i m k hj; rw [hsb, hsvc, hrun]; exact h.done i m k hj
  · intro i m k hj; rw [hsb, hsvc]; exact h.unst i m k hj
  · intro i rem r m k; rw [hsb, hsvc, hrun]; exact h.run i rem r m k

theorem inv2C_cont {i0 rem0 r0 : ℕ} (hsv : served t = some i0) (hst : ∀ c, starts t c = false)
    (hr : (St t).running = some (i0, rem0, r0))
    (hnext : (St (t + 1)).running = if rem0 ≤ 1 then none else some (i0, rem0 - 1, r0))
    (h : Inv2C cbs ex ch sigma rels H t) : Inv2C cbs ex ch sigma rels H (t + 1) := by
  have hsb : ∀ i, sb i (t + 1) = sb i t := fun i => by rw [sbC_succ, hst]; simp
  obtain ⟨_, hsb0, hrem0⟩ := (inv1 (sigma := sigma) hy t).runOk i0 rem0 r0 hr
  have hsb0 : 1 ≤ sb i0 t := hsb0
  have hsched : ∀ i m k, job i m = some k →
      ((Sy).sched t = some k ↔ (i = i0 ∧ m + 1 = sb i0 t)) := by
    intro i m k hj
    rw [sched_iffC hy hj, hsv]
    constructor
    · rintro ⟨e1, e2⟩
      cases e1
      rw [hst] at e2
      simp at e2
      exact ⟨rfl, by omega⟩
    · rintro ⟨e1, e2⟩
      subst e1
      rw [hst]; simp; omega
  refine ⟨?_, ?_, ?_⟩
  · intro i m k hj hm hnr
    rw [hsb] at hm hnr
    rw [svc_succC]
    by_cases hk : (Sy).sched t = some k
    · obtain ⟨e1, e2⟩ := (hsched i m k hj).1 hk
      subst e1
      have := h.run i rem0 r0 m k hr hj e2
      have hh := hnr e2
      rw [hnext] at hh
      have : rem0 ≤ 1 := by
        rcases Nat.lt_or_ge 1 rem0 with h' | h'
        · rw [if_neg (by omega)] at hh; exact absurd rfl (hh _ _)
        · exact h'
      rw [if_pos hk]; omega
    · rw [if_neg hk, Nat.add_zero]
      apply h.done i m k hj hm
      intro e rem r hrr
      rw [hr] at hrr
      cases hrr
      exact hk ((hsched _ m k hj).2 ⟨rfl, e⟩)
  · intro i m k hj hm
    rw [hsb] at hm
    rw [svc_succC]
    have : ¬ (Sy).sched t = some k := by
      intro hk
      obtain ⟨e1, e2⟩ := (hsched i m k hj).1 hk
      subst e1; omega
    rw [if_neg this]; exact h.unst i m k hj hm
  · intro i rem r m k hrr hj hm
    rw [hsb] at hm
    rw [hnext] at hrr
    split at hrr
    · cases hrr
    · cases hrr
      have hk := (hsched _ m k hj).2 ⟨rfl, hm⟩
      have := h.run _ rem0 _ m k hr hj hm
      rw [svc_succC, if_pos hk]; omega

theorem inv2C_start {i0 r0 : ℕ} (hsv : served t = some i0)
    (hst : ∀ c, starts t c = true ↔ c = i0)
    (hr : (St t).running = none) (hc : 1 ≤ ex i0 t)
    (hnext : (St (t + 1)).running = if ex i0 t ≤ 1 then none else some (i0, ex i0 t - 1, r0))
    (h : Inv2C cbs ex ch sigma rels H t) : Inv2C cbs ex ch sigma rels H (t + 1) := by
  have hsb : ∀ i, sb i (t + 1) = sb i t + if i = i0 then 1 else 0 := fun i => by
    rw [sbC_succ]
    by_cases e : i = i0
    · rw [if_pos ((hst i).2 e), if_pos e]
    · rw [if_neg (fun hh => e ((hst i).1 hh)), if_neg e]
  have hsched : ∀ i m k, job i m = some k →
      ((Sy).sched t = some k ↔ (i = i0 ∧ m = sb i0 t)) := by
    intro i m k hj
    rw [sched_iffC hy hj, hsv]
    constructor
    · rintro ⟨e1, e2⟩
      cases e1
      rw [if_pos ((hst _).2 rfl)] at e2
      exact ⟨rfl, e2⟩
    · rintro ⟨e1, e2⟩
      subst e1
      rw [if_pos ((hst i).2 rfl)]; exact ⟨rfl, e2⟩
  -- the job started in this slot gets the execution time drawn in this slot
  have hcostk : ∀ m k, job i0 m = some k → m = sb i0 t → (Sy).cost k = ex i0 t := by
    intro m k hj hm
    have hk := (hsched i0 m k hj).2 ⟨rfl, hm⟩
    have h0 := h.unst i0 m k hj (by omega)
    have hc := costCX_first (cbs := cbs) (ex := ex) (ch := ch) (sigma := sigma) (rels := rels) (H := H) hk
      (RefineXLemmas.svc_zero_not_sched (Sy) k t h0)
    have ht : taskCX ch rels H k = i0 :=
      (jobCX_facts (cbs := cbs) (ex := ex) (sigma := sigma) hy.hnd hy.hfin hj).2.1
    rw [ht] at hc
    exact hc
  refine ⟨?_, ?_, ?_⟩
  · intro i m k hj hm hnr
    rw [hsb] at hm hnr
    rw [svc_succC]
    by_cases hk : (Sy).sched t = some k
    · obtain ⟨e1, e2⟩ := (hsched i m k hj).1 hk
      subst e1
      have h0 := h.unst i m k hj (by omega)
      have hck := hcostk m k hj e2
      have hh := hnr (by simp [e2])
      rw [hnext] at hh
      have : ex i t ≤ 1 := by
        rcases Nat.lt_or_ge 1 (ex i t) with h' | h'
        · rw [if_neg (by omega)] at hh; exact absurd rfl (hh _ _)
        · exact h'
      rw [if_pos hk]; omega
    · rw [if_neg hk, Nat.add_zero]
      apply h.done i m k hj
      · by_cases e : i = i0
        · subst e
          have : m ≠ sb i t := fun e' => hk ((hsched i m k hj).2 ⟨rfl, e'⟩)
          simp only [if_true] at hm; omega
        · simpa [e] using hm
      · intro _ rem r hrr; rw [hr] at hrr; cases hrr
  · intro i m k hj hm
    rw [hsb] at hm
    rw [svc_succC]
    have : ¬ (Sy).sched t = some k := by
      intro hk
      obtain ⟨e1, e2⟩ := (hsched i m k hj).1 hk
      subst e1; simp at hm; omega
    rw [if_neg this]; exact h.unst i m k hj (by omega)
  · intro i rem r m k hrr hj hm
    rw [hsb] at hm
    rw [hnext] at hrr
    split at hrr
    · cases hrr
    · cases hrr
      simp only [if_true] at hm
      have hk := (hsched _ m k hj).2 ⟨rfl, by omega⟩
      have h0 := h.unst _ m k hj (by omega)
      have hck := hcostk m k hj (by omega)
      rw [svc_succC, if_pos hk]; omega

theorem inv2C_succ (h : Inv2C cbs ex ch sigma rels H t) : Inv2C cbs ex ch sigma rels H (t + 1) := by
  rcases slots (sigma := sigma) hy t with
    ⟨hsv, hst, hrun, _⟩ | ⟨_, i, rem, r, hr, hsv, hst, hnext⟩ | ⟨_, hr, i, r0, hsv, hst, hi, _, hnext⟩
  · exact inv2C_keep hy hsv hst hrun h
  · exact inv2C_cont hy hsv hst hr hnext h
  · exact inv2C_start hy hsv hst hr (hy.hexec i hi t).1 hnext h

theorem inv2C : ∀ t, Inv2C cbs ex ch sigma rels H t
  | 0 => inv2C_zero
  | t + 1 => inv2C_succ hy (inv2C t)

end layer2

/-! ### the status of a job; the clauses of the Spec -/

section clauses
variable {cbs : List Cb} {ex : ℕ → ℕ → ℕ} {ch : List ℕ} {sigma : ℕ → Bool} {rels : ℕ → List ℕ} {H : ℕ}
variable (hy : HypX cbs ex ch rels H)

local notation "St" => stateAtC cbs ex ch sigma rels
local notation "Rl" => relAtC cbs ex ch sigma rels
local notation "sb" => startedBeforeC cbs ex ch sigma rels
local notation "served" => servedCbC cbs ex ch sigma rels
local notation "starts" => startsCbC cbs ex ch sigma rels
local notation "Sy" => toSysCX cbs ex ch sigma rels H
local notation "job" => jobC ch rels H

include hy

/-- the cost of a job is an admissible execution time of its callback -/
theorem job_cost_boundsC {i m k : ℕ} (hi : i < cbs.length) (hj : job i m = some k) :
    1 ≤ (Sy).cost k ∧ (Sy).cost k ≤ (cbs.getD i default).cost := by
  have ht : taskCX ch rels H k = i :=
    (jobCX_facts (cbs := cbs) (ex := ex) (sigma := sigma) hy.hnd hy.hfin hj).2.1
  have := costCX_bounds (cbs := cbs) (ex := ex) (ch := ch) (sigma := sigma) (rels := rels) (H := H)
    hy.hexec (k := k) (by rw [ht]; exact hi)
  rw [ht] at this
  exact this

/-- unstarted / complete / running -/
theorem statusC {i m k : ℕ} (hi : i < cbs.length) (hj : job i m = some k) (t : ℕ) :
    (sb i t ≤ m ∧ svc (Sy) k t = 0) ∨
    (m + 1 ≤ sb i t ∧ svc (Sy) k t = (Sy).cost k ∧ 1 ≤ svc (Sy) k t ∧
      (m + 1 = sb i t → ∀ rem r, (St t).running ≠ some (i, rem, r))) ∨
    (m + 1 = sb i t ∧ ∃ rem r, (St t).running = some (i, rem, r) ∧
      svc (Sy) k t + rem = (Sy).cost k ∧ 1 ≤ svc (Sy) k t ∧ 1 ≤ rem) := by
  have h2 := inv2C (sigma := sigma) hy t
  have h1 := inv1 (sigma := sigma) hy t
  have hc := (job_cost_boundsC (sigma := sigma) hy hi hj).1
  rcases Nat.lt_or_ge m (sb i t) with hm | hm
  · by_cases hrun : m + 1 = sb i t ∧ ∃ rem r, (St t).running = some (i, rem, r)
    · obtain ⟨e, rem, r, hr⟩ := hrun
      have := h2.run i rem r m k hr hj e
      exact Or.inr (Or.inr ⟨e, rem, r, hr, this.1, this.2, (h1.runOk i rem r hr).2.2⟩)
    · have hnr : m + 1 = sb i t → ∀ rem r, (St t).running ≠ some (i, rem, r) := by
        intro e rem r hr
        exact hrun ⟨e, rem, r, hr⟩
      have := h2.done i m k hj hm hnr
      exact Or.inr (Or.inl ⟨hm, this, by omega, hnr⟩)
  · exact Or.inl ⟨hm, h2.unst i m k hj hm⟩

theorem sched_shapeC (t : ℕ) :
    ((Sy).sched t = none ∧ (∀ c, starts t c = false) ∧
      (sigma t = true → (St t).running = none ∧ pendingTimers cbs (Rl t).queue = [] ∧
        readyAtC cbs ex ch sigma rels t = [])) ∨
    (sigma t = true ∧ ∃ i rem r j, (St t).running = some (i, rem, r) ∧
      (∀ c, starts t c = false) ∧ i < cbs.length ∧ 1 ≤ sb i t ∧
      sb i t ≤ cnt rels (src ch i) (t + 1) ∧
      job i (sb i t - 1) = some j ∧ (Sy).sched t = some j) ∨
    (sigma t = true ∧ (St t).running = none ∧ ∃ i j,
      (∀ c, starts t c = true ↔ c = i) ∧ i < cbs.length ∧
      0 < ((Rl t).queue.getD i []).length ∧ sb i t < cnt rels (src ch i) (t + 1) ∧
      job i (sb i t) = some j ∧ (Sy).sched t = some j) := by
  have g := gRl (sigma := sigma) hy t
  rcases slots (sigma := sigma) hy t with
    ⟨hsv, hst, _, hx⟩ | ⟨hs, i, rem, r, hr, hsv, hst, _⟩ | ⟨hs, hr, i, r0, hsv, hst, hi, hq, _⟩
  · refine Or.inl ⟨?_, hst, hx⟩
    rw [sched_eqC hy, hsv]
  · obtain ⟨hi, hsb, _⟩ := g.runOk i rem r hr
    have hsb : 1 ≤ sb i t := hsb
    have hle : sb i t ≤ cnt rels (src ch i) (t + 1) := sb_le_src hy.hnd hy.hmem g hi
    obtain ⟨j, hj⟩ := jobC_some (rels := rels) (H := H) hy.hnd (i := i) (m := sb i t - 1)
      (by have := cnt_le_H (rels := rels) hy.hfin (src ch i) (t + 1); omega)
    refine Or.inr (Or.inl ⟨hs, i, rem, r, j, hr, hst, hi, hsb, hle, hj, ?_⟩)
    rw [sched_eqC hy, hsv]
    simp only [hst i, Bool.false_eq_true, if_false]
    exact hj
  · have hlt : sb i t < cnt rels (src ch i) (t + 1) := sb_lt_src hy.hnd hy.hmem g hi hq
    obtain ⟨j, hj⟩ := jobC_some (rels := rels) (H := H) hy.hnd (i := i) (m := sb i t)
      (by have := cnt_le_H (rels := rels) hy.hfin (src ch i) (t + 1); omega)
    refine Or.inr (Or.inr ⟨hs, hr, i, j, hst, hi, hq, hlt, hj, ?_⟩)
    rw [sched_eqC hy, hsv]
    simp only [(hst i).2 rfl, if_true]
    exact hj

theorem c_validC (t j : ℕ) (hs : (Sy).sched t = some j) :
    j < (Sy).n ∧ Pending (Sy) j t ∧ sigma t = true := by
  rcases sched_shapeC (sigma := sigma) hy t with
    ⟨h0, _⟩ | ⟨hsg, i, rem, r, j', hr, hst, hi, hsb, hle, hj, hsch⟩ |
    ⟨hsg, hr, i, j', hst, hi, hq, hlt, hj, hsch⟩
  · rw [h0] at hs; cases hs
  · rw [hsch] at hs; cases hs
    obtain ⟨hn, _, harr⟩ := jobCX_facts (cbs := cbs) (ex := ex) (sigma := sigma) hy.hnd hy.hfin hj
    refine ⟨hn, ⟨(harr t).2 (by omega), ?_⟩, hsg⟩
    rcases statusC (sigma := sigma) hy hi hj t with h | h | h
    · omega
    · exact absurd hr (h.2.2.2 (by omega) rem r)
    · obtain ⟨_, rem', r', _, h1, h2, h3⟩ := h
      omega
  · rw [hsch] at hs; cases hs
    obtain ⟨hn, _, harr⟩ := jobCX_facts (cbs := cbs) (ex := ex) (sigma := sigma) hy.hnd hy.hfin hj
    refine ⟨hn, ⟨(harr t).2 hlt, ?_⟩, hsg⟩
    rcases statusC (sigma := sigma) hy hi hj t with h | h | h
    · rw [h.2]
      exact (job_cost_boundsC (sigma := sigma) hy hi hj).1
    · omega
    · omega

theorem c_nonpreC (t j : ℕ) (hs : (Sy).sched t = some j) (k : ℕ) (hk : k < (Sy).n) (hkj : k ≠ j) :
    svc (Sy) k t = 0 ∨ svc (Sy) k t = (Sy).cost k := by
  obtain ⟨i, m, hi, hj⟩ := jobCX_exists (cbs := cbs) (ex := ex) (sigma := sigma) hy.hnd hy.hmem hy.hidx hy.hext hk
  rcases statusC (sigma := sigma) hy hi hj t with h | h | h
  · exact Or.inl h.2
  · exact Or.inr h.2.1
  · exfalso
    obtain ⟨hm, rem', r', h1, _⟩ := h
    rcases sched_shapeC (sigma := sigma) hy t with
      ⟨h0, _⟩ | ⟨hsg, i', rem, r, j', hr, hst, hi', hsb, hle, hj', hsch⟩ |
      ⟨hsg, hr, i', j', hst, hi', hq, hlt, hj', hsch⟩
    · rw [h0] at hs; cases hs
    · rw [hsch] at hs; cases hs
      rw [hr] at h1; cases h1
      have e : sb i t - 1 = m := by omega
      rw [e, hj] at hj'
      cases hj'; exact hkj rfl
    · rw [hr] at h1; cases h1

theorem c_wcC (t : ℕ) (hsg : sigma t = true) (hp : ∃ k < (Sy).n, Pending (Sy) k t) :
    ∃ j, (Sy).sched t = some j := by
  obtain ⟨k, hk, hp⟩ := hp
  rcases sched_shapeC (sigma := sigma) hy t with
    ⟨_, _, hx⟩ | ⟨_, i, rem, r, j', _, _, _, _, _, _, hsch⟩ | ⟨_, _, i, j', _, _, _, _, _, hsch⟩
  · exfalso
    obtain ⟨hr, hpt, hra⟩ := hx hsg
    have g := gRl (sigma := sigma) hy t
    have hq : ∀ c, c < cbs.length → ((Rl t).queue.getD c []).length = 0 := by
      intro c hc
      rcases Nat.eq_zero_or_pos ((Rl t).queue.getD c []).length with h0 | hpos
      · exact h0
      · exfalso
        cases htm : (cbs.getD c default).isTimer with
        | true =>
          have : c ∈ pendingTimers cbs (Rl t).queue := (mem_pendingTimers _ _ _).2 ⟨hc, htm, hpos⟩
          rw [hpt] at this; cases this
        | false =>
          have hm : c ∈ pendingPolled cbs (Rl t).queue := (mem_pendingPolled _ _ _).2 ⟨hc, htm, hpos⟩
          by_cases he : (St t).ready = []
          · rw [readyAtC_of_empty he] at hra
            rw [hra] at hm; cases hm
          · rw [readyAtC_of_nonempty he] at hra
            exact he hra
    obtain ⟨i, m, hi, hj⟩ := jobCX_exists (cbs := cbs) (ex := ex) (sigma := sigma) hy.hnd hy.hmem hy.hidx hy.hext hk
    have heq : sb i t = cnt rels (src ch i) (t + 1) := sb_eq_src hy.hnd hy.hmem g hr hq hi
    obtain ⟨_, _, harr⟩ := jobCX_facts (cbs := cbs) (ex := ex) (sigma := sigma) hy.hnd hy.hfin hj
    have hm := (harr t).1 hp.1
    rcases statusC (sigma := sigma) hy hi hj t with h | h | h
    · omega
    · have := hp.2; omega
    · obtain ⟨_, rem', r', h1, _⟩ := h
      rw [hr] at h1; cases h1
  · exact ⟨j', hsch⟩
  · exact ⟨j', hsch⟩

theorem c_prioOwnC (t j : ℕ) (hs : (Sy).sched t = some j) (h0 : svc (Sy) j t = 0) (k : ℕ)
    (hk : k < (Sy).n) (hkt : (Sy).task k = (Sy).task j) (hp : Pending (Sy) k t) :
    (Sy).arr j ≤ (Sy).arr k := by
  rcases sched_shapeC (sigma := sigma) hy t with
    ⟨h0', _⟩ | ⟨hsg, i, rem, r, j', hr, hst, hi, hsb, hle, hj, hsch⟩ |
    ⟨hsg, hr, i, j', hst, hi, hq, hlt, hj, hsch⟩
  · rw [h0'] at hs; cases hs
  · rw [hsch] at hs; cases hs
    exfalso
    rcases statusC (sigma := sigma) hy hi hj t with h | h | h
    · omega
    · omega
    · obtain ⟨_, rem', r', _, h1, h2, h3⟩ := h
      omega
  · rw [hsch] at hs; cases hs
    obtain ⟨_, htj, harrj⟩ := jobCX_facts (cbs := cbs) (ex := ex) (sigma := sigma) hy.hnd hy.hfin hj
    obtain ⟨i', m', hi', hk'⟩ :=
      jobCX_exists (cbs := cbs) (ex := ex) (sigma := sigma) hy.hnd hy.hmem hy.hidx hy.hext hk
    obtain ⟨_, htk, harrk⟩ := jobCX_facts (cbs := cbs) (ex := ex) (sigma := sigma) hy.hnd hy.hfin hk'
    have e : i' = i := by rw [← htk, hkt, htj]
    subst e
    have hm : sb i' t ≤ m' := by
      rcases statusC (sigma := sigma) hy hi' hk' t with h | h | h
      · exact h.1
      · have := hp.2; omega
      · obtain ⟨_, rem', r', h1, _⟩ := h
        rw [hr] at h1; cases h1
    have h1 := (harrk ((Sy).arr k)).1 (Nat.le_refl _)
    exact (harrj ((Sy).arr k)).2 (by omega)

theorem chain_legal_x (l : ℕ) : SupplyTimerLegal (Sy) sigma l (fun k => k ≠ l) where
  valid := c_validC hy
  nonpre := c_nonpreC hy
  wc := fun t h ⟨k, hk, _, hp⟩ => c_wcC hy t h ⟨k, hk, hp⟩
  prioOther := by
    intro t j _ _ hnr
    exact absurd (show Rel (Sy) l (fun k => k ≠ l) j from Classical.em _) hnr
  prioOwn := by
    intro t j hs h0 hji k hk hki hp
    exact c_prioOwnC hy t j hs h0 k hk (by rw [hki, hji]) hp

end clauses



end ChainRefineXLemmas

/-- the cost of every job of the run's job system is at most the WCET of its callback … -/
theorem toSysCX_cost_le (H : ℕ) (hch : ch.Nodup) (hmem : ∀ i ∈ ch, i < cbs.length)
    (hidx : ∀ t, ∀ i ∈ rels t, i < cbs.length) (hext : ∀ t, ∀ i ∈ rels t, i ∉ ch.tail)
    (hfin : ∀ t, H ≤ t → rels t = [])
    (hexec : ∀ k, k < cbs.length → ∀ t, 1 ≤ ex k t ∧ ex k t ≤ (cbs.getD k default).cost)
    (k : ℕ) (hk : k < (toSysCX cbs ex ch sigma rels H).n) :
    (toSysCX cbs ex ch sigma rels H).cost k ≤
      (cbs.getD ((toSysCX cbs ex ch sigma rels H).task k) default).cost := by
  obtain ⟨i, m, hi, hj⟩ := ChainRefineXLemmas.jobCX_exists (cbs := cbs) (ex := ex) (sigma := sigma)
    hch hmem hidx hext hk
  have ht := (ChainRefineXLemmas.jobCX_facts (cbs := cbs) (ex := ex) (sigma := sigma) hch hfin hj).2.1
  rw [ht]
  exact (ChainRefineXLemmas.job_cost_boundsC (sigma := sigma) ⟨hch, hmem, hidx, hext, hfin, hexec⟩ hi hj).2

/-- … and at least 1 -/
theorem toSysCX_cost_pos (H : ℕ) (hch : ch.Nodup) (hmem : ∀ i ∈ ch, i < cbs.length)
    (hidx : ∀ t, ∀ i ∈ rels t, i < cbs.length) (hext : ∀ t, ∀ i ∈ rels t, i ∉ ch.tail)
    (hfin : ∀ t, H ≤ t → rels t = [])
    (hexec : ∀ k, k < cbs.length → ∀ t, 1 ≤ ex k t ∧ ex k t ≤ (cbs.getD k default).cost)
    (k : ℕ) (hk : k < (toSysCX cbs ex ch sigma rels H).n) :
    1 ≤ (toSysCX cbs ex ch sigma rels H).cost k := by
  obtain ⟨i, m, hi, hj⟩ := ChainRefineXLemmas.jobCX_exists (cbs := cbs) (ex := ex) (sigma := sigma)
    hch hmem hidx hext hk
  exact (ChainRefineXLemmas.job_cost_boundsC (sigma := sigma) ⟨hch, hmem, hidx, hext, hfin, hexec⟩ hi hj).1

/-- the cost of a job that is served at all is the execution time `ex` drawn in its first slot -/
theorem toSysCX_cost_eq (H k t : ℕ) (h1 : (toSysCX cbs ex ch sigma rels H).sched t = some k)
    (h2 : ∀ u, u < t → (toSysCX cbs ex ch sigma rels H).sched u ≠ some k) :
    (toSysCX cbs ex ch sigma rels H).cost k = ex ((toSysCX cbs ex ch sigma rels H).task k) t :=
  ChainRefineXLemmas.costCX_first h1 h2

/-- the jobs, their callbacks and their arrival times are those of `Exec.toSysC` -/
theorem toSysCX_n (sigma' : ℕ → Bool) (H : ℕ) :
    (toSysCX cbs ex ch sigma rels H).n = (toSysC cbs ch sigma' rels H).n := rfl

theorem toSysCX_task (sigma' : ℕ → Bool) (H k : ℕ) :
    (toSysCX cbs ex ch sigma rels H).task k = (toSysC cbs ch sigma' rels H).task k := rfl

theorem toSysCX_arr (sigma' : ℕ → Bool) (H k : ℕ) :
    (toSysCX cbs ex ch sigma rels H).arr k = (toSysC cbs ch sigma' rels H).arr k := rfl

/-- every run with a linear chain and arbitrary execution times satisfies the Spec of
`chain_sound` for the last callback -/
theorem run_chain_legal_x (H : ℕ) (l : ℕ)
    (hch : ch.Nodup) (hne : 2 ≤ ch.length) (hlast : ch.getLast? = some l)
    (hmem : ∀ i ∈ ch, i < cbs.length ∧ (cbs.getD i default).isTimer = false)
    (hidx : ∀ t, ∀ i ∈ rels t, i < cbs.length)
    (hext : ∀ t, ∀ i ∈ rels t, i ∉ ch.tail)
    (hfin : ∀ t, H ≤ t → rels t = [])
    (hexec : ∀ k, k < cbs.length → ∀ t, 1 ≤ ex k t ∧ ex k t ≤ (cbs.getD k default).cost) :
    SupplyTimerLegal (toSysCX cbs ex ch sigma rels H) sigma l (fun k => k ≠ l) := by
  have _ := hne
  have _ := hlast
  exact ChainRefineXLemmas.chain_legal_x
    ⟨hch, fun i hi => (hmem i hi).1, hidx, hext, hfin, hexec⟩ l

end RTA.ExecX
