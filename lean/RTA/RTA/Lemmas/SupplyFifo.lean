import RTA.Lemmas.SchedFifo
import RTA.Lemmas.RosNaive
import RTA.Lemmas.RBSteps
import RTA.Spec.SupplyProc
/-! C04, event source: FIFO processing on a processor whose time is delivered by a
reservation (supply process `σ`): the bound of `rta_event_source` is never exceeded, for
every budget placement allowed by the reservation. -/

open Finset

namespace RTA.Sched
open RTA RTA.Spec

/-- a FIFO schedule on a supply process `σ`: jobs are served only in slots where the
reservation delivers service; work conserving with respect to the delivered service;
earliest release first (ties arbitrary) -/
structure SupplyFifoLegal (s : Sys) (σ : ℕ → Bool) : Prop where
  valid : ∀ t j, s.sched t = some j → j < s.n ∧ Pending s j t ∧ σ t = true
  wc : ∀ t, σ t = true → (∃ k < s.n, Pending s k t) → ∃ j, s.sched t = some j
  fifo : ∀ t j, s.sched t = some j → ∀ k < s.n, Pending s k t → s.arr j ≤ s.arr k

namespace SupplyFifoLemmas

variable {s : Sys} {σ : ℕ → Bool}

theorem sup_svc_le_cost (hl : SupplyFifoLegal s σ) (j t : ℕ) : svc s j t ≤ s.cost j := by
  induction t with
  | zero => simp [svc]
  | succ t ih =>
    simp only [svc]
    by_cases h : s.sched t = some j
    · have := (hl.valid t j h).2.1.2
      simp [h]; omega
    · simp [h]; exact ih

theorem sup_svc_zero_before (hl : SupplyFifoLegal s σ) (j t : ℕ) (h : t ≤ s.arr j) : svc s j t = 0 := by
  induction t with
  | zero => rfl
  | succ t ih =>
    simp only [svc]
    have : s.sched t ≠ some j := by
      intro hs
      have := (hl.valid t j hs).2.1.1
      omega
    simp [this]; exact ih (by omega)

theorem sup_done_mono (hl : SupplyFifoLegal s σ) (j : ℕ) {a b : ℕ} (h : a ≤ b)
    (hd : svc s j a = s.cost j) : svc s j b = s.cost j := by
  have := svc_mono (s := s) j h
  have := sup_svc_le_cost hl j b
  omega

theorem served_mono (lo hi : ℕ) {a b : ℕ} (h : a ≤ b) : served s lo hi a ≤ served s lo hi b := by
  unfold served
  apply sum_le_sum
  intro k _
  split
  · exact svc_mono k h
  · exact le_refl _

/-- a slot serving a member of the set increases the set's service by one -/
theorem served_step (lo hi t j : ℕ) (hj : s.sched t = some j) (hjn : j < s.n)
    (hjlo : lo ≤ s.arr j) (hjhi : s.arr j < hi) :
    served s lo hi (t + 1) = served s lo hi t + 1 := by
  unfold served
  simp only [svc]
  have : ∀ k ∈ range s.n,
      (if lo ≤ s.arr k ∧ s.arr k < hi then svc s k t + (if s.sched t = some k then 1 else 0) else 0)
      = (if lo ≤ s.arr k ∧ s.arr k < hi then svc s k t else 0) + (if k = j then 1 else 0) := by
    intro k _
    by_cases hk : k = j
    · subst hk; simp [hj, hjlo, hjhi]
    · have : s.sched t ≠ some k := by rw [hj]; intro h; injection h with h; exact hk h.symm
      simp [this, hk]
  rw [sum_congr rfl this, sum_add_distrib]
  congr 1
  rw [sum_ite_eq']
  simp [hjn]

/-- if every supplied slot of `[a, a+len)` serves a job released in `[lo, hi)`, the service
of that set grows at least by the supply delivered in the window -/
theorem served_supply (lo hi a : ℕ) :
    ∀ len, (∀ u, a ≤ u → u < a + len → σ u = true →
        ∃ j, s.sched u = some j ∧ j < s.n ∧ lo ≤ s.arr j ∧ s.arr j < hi) →
      served s lo hi a + service σ a len ≤ served s lo hi (a + len) := by
  intro len
  induction len with
  | zero => intro _; simp [service]
  | succ len ih =>
    intro h
    have ih' := ih (fun u h1 h2 => h u h1 (by omega))
    have e : a + (len + 1) = (a + len) + 1 := by omega
    rw [e]
    show served s lo hi a + (service σ a len + (if σ (a + len) then 1 else 0)) ≤ _
    by_cases hσ : σ (a + len) = true
    · obtain ⟨j, hj, hjn, hjlo, hjhi⟩ := h (a + len) (by omega) (by omega) hσ
      rw [served_step lo hi (a + len) j hj hjn hjlo hjhi]
      simp [hσ]; omega
    · have := served_mono (s := s) lo hi (show a + len ≤ a + len + 1 by omega)
      simp [hσ]; omega

theorem sup_served_le_work (hl : SupplyFifoLegal s σ) (lo hi t : ℕ) :
    served s lo hi t ≤ work s lo hi := by
  unfold served work
  apply sum_le_sum
  intro k _
  split
  · exact sup_svc_le_cost hl k t
  · exact le_refl _

theorem sup_all_done_of_served_eq (hl : SupplyFifoLegal s σ) (lo hi t : ℕ)
    (h : served s lo hi t = work s lo hi)
    (k : ℕ) (hk : k < s.n) (h1 : lo ≤ s.arr k) (h2 : s.arr k < hi) : svc s k t = s.cost k := by
  unfold served work at h
  have hle : ∀ i ∈ range s.n, (if lo ≤ s.arr i ∧ s.arr i < hi then svc s i t else 0)
      ≤ (if lo ≤ s.arr i ∧ s.arr i < hi then s.cost i else 0) := by
    intro i _
    split
    · exact sup_svc_le_cost hl i t
    · exact le_refl _
  have := (sum_eq_sum_iff_of_le hle).1 h k (mem_range.2 hk)
  simpa [h1, h2] using this

theorem sup_served_zero_at_lo (hl : SupplyFifoLegal s σ) (lo hi : ℕ) : served s lo hi lo = 0 := by
  unfold served
  apply sum_eq_zero
  intro k _
  split
  · exact sup_svc_zero_before hl k lo (by omega)
  · rfl

theorem cost_le_work (s : Sys) (j : ℕ) (hj : j < s.n) :
    s.cost j ≤ work s (s.arr j) (s.arr j + 1) := by
  unfold work
  have h := single_le_sum (f := fun k => if s.arr j ≤ s.arr k ∧ s.arr k < s.arr j + 1 then s.cost k else 0)
    (fun _ _ => Nat.zero_le _) (mem_range.2 hj)
  simpa using h

theorem service_true (t d : ℕ) : service (fun _ => true) t d = d := by
  induction d with
  | zero => rfl
  | succ d ih => simp [service, ih]

theorem pick_ok_inv (p : Res → Bool) (hp_ok : ∀ v, p (.ok v) = false)
    (hp_nok : ∀ x, (∀ v, x ≠ .ok v) → p x = true) (g : Res → ℕ) (hg : ∀ v, g (.ok v) = v)
    (rs : List Res) (R : ℕ)
    (h : (if rs.any p then (rs.find? p).getD .panic else .ok (maxList (rs.map g))) = .ok R) :
    ∀ x ∈ rs, ∃ v, x = .ok v ∧ v ≤ R := by
  by_cases hany : rs.any p = true
  · rw [if_pos hany] at h
    exfalso
    cases hf : rs.find? p with
    | none =>
      rw [List.any_eq_true] at hany
      obtain ⟨x, hx, hpx⟩ := hany
      rw [List.find?_eq_none] at hf
      exact hf x hx hpx
    | some y =>
      rw [hf] at h
      have hp := List.find?_some hf
      simp only [Option.getD_some] at h
      rw [h, hp_ok] at hp
      cases hp
  · rw [if_neg hany] at h
    injection h with h
    intro x hx
    cases x with
    | ok v =>
      refine ⟨v, rfl, ?_⟩
      rw [← h]
      exact PruneCoreLemmas.mem_le_maxList _ _ (List.mem_map.2 ⟨.ok v, hx, hg v⟩)
    | div o l =>
      exfalso; apply hany
      rw [List.any_eq_true]
      exact ⟨_, hx, hp_nok _ (fun v h => by cases h)⟩
    | panic =>
      exfalso; apply hany
      rw [List.any_eq_true]
      exact ⟨_, hx, hp_nok _ (fun v h => by cases h)⟩

theorem naiveMax_ok_inv (rs : List Res) (R : ℕ) (h : naiveMax rs = .ok R) :
    ∀ x ∈ rs, ∃ v, x = .ok v ∧ v ≤ R := by
  unfold naiveMax at h
  refine pick_ok_inv _ (fun _ => rfl) ?_ _ (fun _ => rfl) rs R h
  intro x hx
  cases x with
  | ok v => exact absurd rfl (hx v)
  | div o l => rfl
  | panic => rfl

end SupplyFifoLemmas
open SupplyFifoLemmas

/-- schedule half: from `sbf` being a lower bound on the service of `σ` in every window,
`rbf L ≤ sbf L` (busy-window bound) and `rbf (A+1) ≤ sbf (A + R)` for every `A ≤ L`, every
job completes within `R` of its release -/
theorem supply_fifo_sound (s : Sys) (σ : ℕ → Bool) (hl : SupplyFifoLegal s σ) (sbf rbf : ℕ → ℕ)
    (hsbf : ∀ t d, sbf d ≤ service σ t d)
    (hwork : ∀ t d, work s t (t + d) ≤ rbf d)
    (L R : ℕ) (hLfix : rbf L ≤ sbf L) (hL : 0 < L)
    (hR : ∀ A, A ≤ L → rbf (A + 1) ≤ sbf (A + R))
    (j : ℕ) (hj : j < s.n) : svc s j (s.arr j + R) = s.cost j := by
  classical
  -- the last quiet time before the arrival of j
  have hq0 : Quiet s 0 := by intro k _ h; omega
  let t0 := Nat.findGreatest (Quiet s) (s.arr j)
  have ht0q : Quiet s t0 := Nat.findGreatest_spec (P := Quiet s) (Nat.zero_le _) hq0
  have ht0le : t0 ≤ s.arr j := Nat.findGreatest_le _
  have ht0max : ∀ t, t0 < t → t ≤ s.arr j → ¬ Quiet s t :=
    fun t h1 h2 => Nat.findGreatest_is_greatest h1 h2
  -- anything pending at u ≥ t0 arrived at or after t0
  have arr_ge : ∀ k u, k < s.n → t0 ≤ u → Pending s k u → t0 ≤ s.arr k := by
    intro k u hk hu hp
    by_contra hlt
    have := sup_done_mono hl k hu (ht0q k hk (by omega))
    have := hp.2
    omega
  -- every supplied slot before arr j serves a job released in [t0, u]
  have busy1 : ∀ u, t0 ≤ u → u < s.arr j → σ u = true →
      ∃ j', s.sched u = some j' ∧ j' < s.n ∧ t0 ≤ s.arr j' ∧ s.arr j' ≤ u := by
    intro u hu1 hu2 hσu
    have hnq := ht0max (u+1) (by omega) (by omega)
    unfold Quiet at hnq
    push Not at hnq
    obtain ⟨k, hk, hka, hkn⟩ := hnq
    have hkp : Pending s k u := by
      refine ⟨by omega, ?_⟩
      have := sup_svc_le_cost hl k (u+1)
      have := svc_mono (s := s) k (show u ≤ u + 1 by omega)
      omega
    obtain ⟨j', hj'⟩ := hl.wc u hσu ⟨k, hk, hkp⟩
    have hv := hl.valid u j' hj'
    have hf := hl.fifo u j' hj' k hk hkp
    exact ⟨j', hj', hv.1, arr_ge j' u hv.1 hu1 hv.2.1, by have := hkp.1; omega⟩
  -- the offset is below L
  have hA : s.arr j - t0 < L := by
    by_contra hge
    have hge : t0 + L ≤ s.arr j := by omega
    have hb := served_supply (s := s) (σ := σ) t0 (t0 + L) t0 L (by
      intro u h1 h2 h3
      obtain ⟨j', a, b, c, d⟩ := busy1 u h1 (by omega) h3
      exact ⟨j', a, b, c, by omega⟩)
    rw [sup_served_zero_at_lo hl] at hb
    have h1 := sup_served_le_work hl t0 (t0+L) (t0+L)
    have h2 := hwork t0 L
    have h3 := hsbf t0 L
    have heq : served s t0 (t0+L) (t0+L) = work s t0 (t0+L) := by omega
    apply ht0max (t0 + L) (by omega) hge
    intro k hk hka
    by_cases hlt : s.arr k < t0
    · exact sup_done_mono hl k (by omega) (ht0q k hk hlt)
    · exact sup_all_done_of_served_eq hl _ _ _ heq k hk (by omega) hka
  -- j is complete at arr j + R
  have hWle : work s t0 (s.arr j + 1) ≤ rbf (s.arr j - t0 + 1) := by
    have := hwork t0 (s.arr j - t0 + 1)
    have e : t0 + (s.arr j - t0 + 1) = s.arr j + 1 := by omega
    rw [e] at this; exact this
  have hRA := hR (s.arr j - t0) (by omega)
  have hsup := hsbf t0 (s.arr j - t0 + R)
  have eT : t0 + (s.arr j - t0 + R) = s.arr j + R := by omega
  by_contra hne
  have hlt : svc s j (s.arr j + R) < s.cost j := by
    have := sup_svc_le_cost hl j (s.arr j + R); omega
  have hb := served_supply (s := s) (σ := σ) t0 (s.arr j + 1) t0 (s.arr j - t0 + R) (by
    intro u h1 h2 h3
    by_cases hu : u < s.arr j
    · obtain ⟨j', a, b, c, d⟩ := busy1 u h1 hu h3
      exact ⟨j', a, b, c, by omega⟩
    · have hp : Pending s j u := by
        refine ⟨by omega, ?_⟩
        have := svc_mono (s := s) j (show u ≤ s.arr j + R by omega)
        omega
      obtain ⟨j', hj'⟩ := hl.wc u h3 ⟨j, hj, hp⟩
      have hv := hl.valid u j' hj'
      have hf := hl.fifo u j' hj' j hj hp
      exact ⟨j', hj', hv.1, arr_ge j' u hv.1 h1 hv.2.1, by omega⟩)
  rw [sup_served_zero_at_lo hl, eT] at hb
  have h1 := sup_served_le_work hl t0 (s.arr j + 1) (s.arr j + R)
  have heq : served s t0 (s.arr j + 1) (s.arr j + R) = work s t0 (s.arr j + 1) := by omega
  have := sup_all_done_of_served_eq hl _ _ _ heq j hj ht0le (by omega)
  omega

/-- what `rta_event_source = Ok(R)` means: a busy-window bound `L` and, for every offset
`A ≤ L`, coverage of `rbf(A+1)` by the supply within `A + R` -/
theorem eventSource_extract (sup : Supply) (hs : sup.WF) (demand : RB) (hwf : demand.ArrWF)
    (hex : demand.Exact) (limit R : ℕ) (hR : rosEventSource sup demand limit = .ok R)
    (hpos : 0 < demand.need 1) :
    ∃ L, 0 < L ∧ demand.need L ≤ sup.sbf L ∧ ∀ A, A ≤ L → demand.need (A + 1) ≤ sup.sbf (A + R) := by
  have hlim : 1 ≤ limit := by
    rcases Nat.eq_zero_or_pos limit with h0 | h
    · subst h0
      unfold rosEventSource rosBound search at hR
      rw [RTA.C08.limit_zero_diverges] at hR
      cases hR
    · exact h
  rw [eventSource_eq_naive sup hs demand hwf hex limit hlim] at hR
  unfold naiveEventSource naiveRosBound at hR
  rcases RosNaiveLemmas.nss_cases sup.sbf 0 (fun d => demand.need d) limit with ⟨L, h⟩ | h
  · rw [h] at hR
    simp only [] at hR
    have hL := (RosNaiveLemmas.nss_ok_iff _ _ _ _ _).1 h
    have hL2 : demand.need (max L 1) ≤ sup.sbf (0 + L) := hL.2.1
    rw [Nat.zero_add] at hL2
    have hLpos : 0 < L := by
      rcases Nat.eq_zero_or_pos L with h0 | h
      · subst h0
        rw [Supply.sbf_zero sup hs] at hL2
        have : max 0 1 = 1 := rfl
        rw [this] at hL2
        omega
      · exact h
    have hmax : max L 1 = L := by omega
    rw [hmax] at hL2
    refine ⟨L, hLpos, hL2, ?_⟩
    intro A hA
    obtain ⟨v, hv, hvR⟩ := naiveMax_ok_inv _ R hR
      (naiveSolveSup sup.sbf A (fun _ => demand.need (A + 1)) limit)
      (List.mem_map.2 ⟨A, List.mem_range.2 (by omega), rfl⟩)
    have hv2 : demand.need (A + 1) ≤ sup.sbf (A + v) := ((RosNaiveLemmas.nss_ok_iff _ _ _ _ _).1 hv).2.1
    exact Nat.le_trans hv2 (RosNaiveLemmas.sbf_mono sup hs _ _ (by omega))
  · rw [h] at hR
    cases hR

/-- C04 (event source): for a periodic or deadline-constrained reservation `(Q, D, P)`,
every compliant budget placement `σ`, every FIFO schedule on `σ` of a job set whose
workload is bounded by `demand`: `Ok(R)` from `rta_event_source` bounds every response time -/
theorem eventSource_sound (s : Sys) (Q D P : ℕ) (hQ : 1 ≤ Q) (hQD : Q ≤ D) (hDP : D ≤ P)
    (σ : ℕ → Bool) (hσ : Compliant Q D P σ) (hl : SupplyFifoLegal s σ)
    (demand : RB) (hwf : demand.ArrWF) (hex : demand.Exact)
    (hwork : ∀ t d, work s t (t + d) ≤ demand.need d) (limit R : ℕ)
    (hR : rosEventSource (.constrained Q D P) demand limit = .ok R) :
    ∀ j, j < s.n → MeetsBound s j R := by
  intro j hj
  show svc s j (s.arr j + R) = s.cost j
  rcases Nat.eq_zero_or_pos (s.cost j) with hc | hc
  · have := sup_svc_le_cost hl j (s.arr j + R)
    omega
  · have hpos : 0 < demand.need 1 := by
      have h1 := cost_le_work s j hj
      have h2 := hwork (s.arr j) 1
      omega
    obtain ⟨L, hLpos, hLfix, hA⟩ := eventSource_extract (.constrained Q D P) ⟨hQ, hQD, hDP⟩
      demand hwf hex limit R hR hpos
    exact supply_fifo_sound s σ hl (cSbf Q D P) demand.need
      (fun t d => cSbf_sound Q D P hQ hQD hDP σ hσ t d) hwork L R hLfix hLpos hA j hj

/-- the same on a dedicated processor (every slot delivers service) -/
theorem eventSource_sound_dedicated (s : Sys) (hl : SupplyFifoLegal s (fun _ => true))
    (demand : RB) (hwf : demand.ArrWF) (hex : demand.Exact)
    (hwork : ∀ t d, work s t (t + d) ≤ demand.need d) (limit R : ℕ)
    (hR : rosEventSource .dedicated demand limit = .ok R) :
    ∀ j, j < s.n → MeetsBound s j R := by
  intro j hj
  show svc s j (s.arr j + R) = s.cost j
  rcases Nat.eq_zero_or_pos (s.cost j) with hc | hc
  · have := sup_svc_le_cost hl j (s.arr j + R)
    omega
  · have hpos : 0 < demand.need 1 := by
      have h1 := cost_le_work s j hj
      have h2 := hwork (s.arr j) 1
      omega
    obtain ⟨L, hLpos, hLfix, hA⟩ := eventSource_extract .dedicated trivial
      demand hwf hex limit R hR hpos
    exact supply_fifo_sound s (fun _ => true) hl (fun d => d) demand.need
      (fun t d => by rw [service_true]) hwork L R hLfix hLpos hA j hj

end RTA.Sched
