import RTA.Lemmas.TimerSound
/-! C04, processing chains (`rta_processing_chain`, Lemma 8 of Casini et al.).

A chain instance is triggered by a source event; its callbacks run one after the other (the
completion of one releases the next); the response time of the chain instance is measured
from the source event to the completion of its LAST callback.

Modelling: every callback instance `k` carries as `s.arr k` the arrival time of the chain
instance (source event) it belongs to — not the (later) time at which the callback itself
becomes ready.  With that reading the executor facts needed are those of `SupplyTimerLegal`
for the last callback `l` with every other callback as interference: non-preemptive; no
idling in a supplied slot while an arrived chain instance is incomplete (one of its callbacks
is ready then); instances of the last callback start in the order of their chain instances.
The analysis is the polling-point analysis for the last callback with the chain prefix and
the other chains as interference. -/

open Finset

namespace RTA.Sched
open RTA RTA.Spec

namespace ChainSoundLemmas

theorem need_scalar (a : Arr) (c d : ℕ) : (RB.rbf a (.scalar c)).need d = c * a.N d := by
  simp [RB.need, Cost.ofJobs]

theorem need_agg2 (x y : RB) (d : ℕ) : (RB.agg [x, y]).need d = x.need d + y.need d := by
  simp [RB.need, RB.needList]

theorem steps_rbf (a : Arr) (c : Cost) (H : ℕ) : (RB.rbf a c).stepsUpTo H = a.stepsUpTo H := by
  simp [RB.stepsUpTo]

end ChainSoundLemmas

/-- the chain analysis is the polling-point analysis of the last callback, interference =
chain prefix + other chains (scalar WCETs `C` of the last callback and `P` of the prefix, one
arrival curve `a` for the chain) -/
theorem rosChain_eq_pollingPoint (sup : Supply) (a : Arr) (C P : ℕ) (hC : 1 ≤ C) (others : RB) (limit : ℕ) :
    rosChain sup (.rbf a (.scalar C)) (.rbf a (.scalar P)) (.rbf a (.scalar (C + P))) others limit =
      rosPollingPoint sup (.rbf a (.scalar C)) (.agg [.rbf a (.scalar P), others]) limit := by
  have _ := hC -- (not needed: the steps of an `rbf` do not depend on its cost)
  have hb : (fun d => (RB.rbf a (.scalar (C + P))).need d + others.need d) =
      (fun d => (RB.rbf a (.scalar C)).need d + (RB.agg [.rbf a (.scalar P), others]).need d) := by
    funext d
    rw [ChainSoundLemmas.need_agg2, ChainSoundLemmas.need_scalar, ChainSoundLemmas.need_scalar,
      ChainSoundLemmas.need_scalar, Nat.add_mul]
    omega
  have ho : (fun A r =>
      let iv := interferenceInterval (RB.rbf a (.scalar C)) A r
      (RB.rbf a (.scalar C)).need (A + 1) + (RB.rbf a (.scalar P)).need iv + others.need iv) =
      (fun A r => (RB.rbf a (.scalar C)).need (A + 1) +
        (RB.agg [.rbf a (.scalar P), others]).need (interferenceInterval (RB.rbf a (.scalar C)) A r)) := by
    funext A r
    simp only [ChainSoundLemmas.need_agg2]
    omega
  unfold rosChain rosPollingPoint rosBound
  rw [hb, ho]
  simp only [ChainSoundLemmas.steps_rbf]

/-- C04, processing chain: `Ok(R)` of `rta_processing_chain` is never exceeded by the time from
a source event to the completion of the last callback of the chain instance it triggers -/
theorem chain_sound (s : Sys) (σ : ℕ → Bool) (l : ℕ)
    (hl : SupplyTimerLegal s σ l (fun k => k ≠ l))
    (sup : Supply) (hs : sup.WF) (hsbf : ∀ t d, sup.sbf d ≤ service σ t d)
    (a : Arr) (C P : ℕ) (hwf : a.WF) (hex : a.Exact) (hC : 1 ≤ C) (hP : 1 ≤ P)
    (others : RB) (hwfo : others.ArrWF) (hexo : others.Exact)
    (hN : ∀ t d, countOf s l t (t + d) ≤ a.N d)
    (hcost : ∀ k < s.n, s.task k = l → s.cost k ≤ C)
    (hint : ∀ t d, workOf s (fun k => k ≠ l) t (t + d) ≤ (RB.rbf a (.scalar P)).need d + others.need d)
    (limit R : ℕ)
    (hR : rosChain sup (.rbf a (.scalar C)) (.rbf a (.scalar P)) (.rbf a (.scalar (C + P))) others limit = .ok R) :
    ∀ j, j < s.n → s.task j = l → MeetsBound s j R := by
  rw [rosChain_eq_pollingPoint _ _ _ _ hC] at hR
  exact pollingPoint_sound s σ l hl sup hs hsbf a C hwf hex hC (.agg [.rbf a (.scalar P), others])
    (by simp only [RB.ArrWF, RB.ArrWFList]; exact ⟨hwf, hwfo, trivial⟩)
    (by simp only [RB.Exact, RB.ExactList]; exact ⟨⟨hex, Cost.scalar_strictPos P hP⟩, hexo, trivial⟩)
    hN hcost (fun t d => by rw [ChainSoundLemmas.need_agg2]; exact hint t d) limit R hR

/-- instance: periodic / deadline-constrained reservation, every compliant budget placement -/
theorem chain_sound_reservation (s : Sys) (Q D Pd : ℕ) (hQ : 1 ≤ Q) (hQD : Q ≤ D) (hDP : D ≤ Pd)
    (σ : ℕ → Bool) (hσ : Compliant Q D Pd σ) (l : ℕ)
    (hl : SupplyTimerLegal s σ l (fun k => k ≠ l))
    (a : Arr) (C P : ℕ) (hwf : a.WF) (hex : a.Exact) (hC : 1 ≤ C) (hP : 1 ≤ P)
    (others : RB) (hwfo : others.ArrWF) (hexo : others.Exact)
    (hN : ∀ t d, countOf s l t (t + d) ≤ a.N d)
    (hcost : ∀ k < s.n, s.task k = l → s.cost k ≤ C)
    (hint : ∀ t d, workOf s (fun k => k ≠ l) t (t + d) ≤ (RB.rbf a (.scalar P)).need d + others.need d)
    (limit R : ℕ)
    (hR : rosChain (.constrained Q D Pd) (.rbf a (.scalar C)) (.rbf a (.scalar P)) (.rbf a (.scalar (C + P))) others limit = .ok R) :
    ∀ j, j < s.n → s.task j = l → MeetsBound s j R :=
  chain_sound s σ l hl (.constrained Q D Pd) ⟨hQ, hQD, hDP⟩
    (fun t d => cSbf_sound Q D Pd hQ hQD hDP σ hσ t d) a C P hwf hex hC hP others hwfo hexo
    hN hcost hint limit R hR

end RTA.Sched
