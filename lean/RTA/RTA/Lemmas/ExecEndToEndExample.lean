import RTA.Lemmas.ExecEndToEnd
/-! Non-vacuity of the end-to-end theorems (`rr_exec_sound`, `timer_exec_sound`): a concrete
callback table, supply process and release pattern that satisfy EVERY hypothesis, and on which
the executable `Exec.run` reports completions. -/

namespace RTA.Exec
open RTA RTA.Sched RTA.Spec

/-- a timer (cost 1, every 10 slots), a polled callback of priority 0 (cost 2, every 10 slots)
and one of priority 1 (cost 3, every 20 slots) -/
def exCbs : List Cb :=
  [{ isTimer := true, prio := 0, cost := 1 }, { isTimer := false, prio := 0, cost := 2 },
   { isTimer := false, prio := 1, cost := 3 }]

/-- dedicated processor -/
def exSigmaAll : ℕ → Bool := fun _ => true

/-- strictly periodic releases until slot 40 -/
def exRels : ℕ → List ℕ := fun t =>
  if t < 40 then
    (if t % 10 = 0 then [0, 1] else []) ++ (if t % 20 = 0 then [2] else [])
  else []

/-- the workload handed to the rr analysis: `rtb` are the assumed response-time bounds —
the vector (9, 9, 9) reproduces itself under the three singleton analyses -/
def exWl : List Callback :=
  [{ rtb := 9, arr := .periodic 10, cost := .scalar 1, kind := .timer },
   { rtb := 9, arr := .periodic 10, cost := .scalar 2, kind := .polled 0 },
   { rtb := 9, arr := .periodic 20, cost := .scalar 3, kind := .polled 1 }]

end RTA.Exec

namespace RTA.Exec.EndToEndExampleLemmas
open RTA RTA.Sched RTA.Spec RTA.Exec

theorem service_all (t : ℕ) : ∀ d, service exSigmaAll t d = d := by
  intro d
  induction d with
  | zero => rfl
  | succ d ih => simp [service, ih, exSigmaAll]

theorem relCount_succ (rels : ℕ → List ℕ) (k t d : ℕ) :
    relCount rels k t (d + 1) = relCount rels k t d + (rels (t + d)).count k := by
  unfold relCount
  rw [List.range_succ, List.map_append, List.sum_append]
  simp

theorem count0 (x : ℕ) : (exRels x).count 0 ≤ if x % 10 = 0 then 1 else 0 := by
  unfold exRels
  split_ifs <;> simp

theorem count1 (x : ℕ) : (exRels x).count 1 ≤ if x % 10 = 0 then 1 else 0 := by
  unfold exRels
  split_ifs <;> simp

theorem count2 (x : ℕ) : (exRels x).count 2 ≤ if x % 20 = 0 then 1 else 0 := by
  unfold exRels
  split_ifs <;> simp

theorem relCount0 (t : ℕ) : ∀ d, relCount exRels 0 t d ≤ (t + d + 9) / 10 - (t + 9) / 10 := by
  intro d
  induction d with
  | zero => simp [relCount]
  | succ d ih =>
    rw [relCount_succ]
    have := count0 (t + d)
    split_ifs at this <;> omega

theorem relCount1 (t : ℕ) : ∀ d, relCount exRels 1 t d ≤ (t + d + 9) / 10 - (t + 9) / 10 := by
  intro d
  induction d with
  | zero => simp [relCount]
  | succ d ih =>
    rw [relCount_succ]
    have := count1 (t + d)
    split_ifs at this <;> omega

theorem relCount2 (t : ℕ) : ∀ d, relCount exRels 2 t d ≤ (t + d + 19) / 20 - (t + 19) / 20 := by
  intro d
  induction d with
  | zero => simp [relCount]
  | succ d ih =>
    rw [relCount_succ]
    have := count2 (t + d)
    split_ifs at this <;> omega

theorem ceil10 (d : ℕ) : (Arr.periodic 10).N d = (d + 9) / 10 := by
  show ceilDiv d 10 = _
  unfold ceilDiv
  split_ifs <;> omega

theorem ceil20 (d : ℕ) : (Arr.periodic 20).N d = (d + 19) / 20 := by
  show ceilDiv d 20 = _
  unfold ceilDiv
  split_ifs <;> omega

theorem hidx : ∀ t, ∀ i ∈ exRels t, i < exCbs.length := by
  intro t i hi
  show i < 3
  unfold exRels at hi
  split_ifs at hi <;> simp at hi <;> omega

theorem hfin : ∀ t, 40 ≤ t → exRels t = [] := by
  intro t ht
  unfold exRels
  rw [if_neg (by omega)]

theorem hrel : ∀ k, k < exCbs.length → ∀ t d,
    relCount exRels k t d ≤ (exWl.getD k default).arr.N d := by
  intro k hk t d
  match k, hk with
  | 0, _ =>
    show _ ≤ (Arr.periodic 10).N d
    rw [ceil10]; have := relCount0 t d; omega
  | 1, _ =>
    show _ ≤ (Arr.periodic 10).N d
    rw [ceil10]; have := relCount1 t d; omega
  | 2, _ =>
    show _ ≤ (Arr.periodic 20).N d
    rw [ceil20]; have := relCount2 t d; omega
  | k + 3, h => exact absurd (show k + 3 < 3 from h) (by omega)

theorem hscalar : ∀ i, i < exWl.length →
    (exWl.getD i default).cost = .scalar (exCbs.getD i default).cost := by
  intro i hi
  match i, hi with
  | 0, _ => rfl
  | 1, _ => rfl
  | 2, _ => rfl
  | k + 3, h => exact absurd (show k + 3 < 3 from h) (by omega)

theorem hkinds : KindsAgree exWl (toInfo exCbs exSigmaAll exRels) := by
  intro i hi
  match i, hi with
  | 0, _ => rfl
  | 1, _ => exact ⟨rfl, rfl⟩
  | 2, _ => exact ⟨rfl, rfl⟩
  | k + 3, h => exact absurd (show k + 3 < 3 from h) (by omega)

theorem hprio : ∀ i, i < exCbs.length → ∀ j, j < exCbs.length →
    (exCbs.getD i default).isTimer = false →
    (exCbs.getD j default).isTimer = false →
    (exCbs.getD i default).prio = (exCbs.getD j default).prio → i = j := by
  decide

theorem hself : ∀ i, i < exWl.length →
    ∃ R, rrSubchain .dedicated exWl [i] 100 = .ok R ∧ R ≤ (exWl.getD i default).rtb := by
  intro i hi
  match i, hi with
  | 0, _ => exact ⟨9, by decide +kernel, by decide⟩
  | 1, _ => exact ⟨9, by decide +kernel, by decide⟩
  | 2, _ => exact ⟨9, by decide +kernel, by decide⟩
  | k + 3, h => exact absurd (show k + 3 < 3 from h) (by omega)

end RTA.Exec.EndToEndExampleLemmas

namespace RTA.Exec
open RTA RTA.Sched RTA.Spec
open EndToEndExampleLemmas

/-- every hypothesis of `rr_exec_sound` holds for the example, and the run reports completions -/
theorem rr_exec_sound_nonvacuous :
    (∀ t, ∀ i ∈ exRels t, i < exCbs.length) ∧ (∀ t, 40 ≤ t → exRels t = []) ∧
    (∀ c ∈ exCbs, 1 ≤ c.cost) ∧
    Supply.dedicated.WF ∧ (∀ t d, Supply.dedicated.sbf d ≤ service exSigmaAll t d) ∧
    exWl.length = exCbs.length ∧
    (∀ i, i < exWl.length → (exWl.getD i default).cost = .scalar (exCbs.getD i default).cost) ∧
    (∀ cb ∈ exWl, cb.arr.WF) ∧
    KindsAgree exWl (toInfo exCbs exSigmaAll exRels) ∧
    (∀ i j, i < exCbs.length → j < exCbs.length → (exCbs.getD i default).isTimer = false →
      (exCbs.getD j default).isTimer = false → (exCbs.getD i default).prio = (exCbs.getD j default).prio → i = j) ∧
    (∀ k, k < exCbs.length → ∀ t d, relCount exRels k t d ≤ (exWl.getD k default).arr.N d) ∧
    (∀ i, i < exWl.length → ∃ R, rrSubchain .dedicated exWl [i] 100 = .ok R ∧ R ≤ (exWl.getD i default).rtb) ∧
    8 ≤ (Exec.run exCbs (fun _ => none) ((List.range 60).map exSigmaAll) exRels).length := by
  refine ⟨hidx, hfin, by decide, trivial, ?_, rfl, hscalar, by decide, hkinds,
    fun i j hi hj => hprio i hi j hj, hrel, hself, by decide +kernel⟩
  intro t d
  rw [service_all]
  exact Nat.le_refl _

/-- hence, by `rr_exec_sound`: every completion the run reports is within the assumed bound -/
theorem rr_example_bounded :
    ∀ o ∈ Exec.run exCbs (fun _ => none) ((List.range 60).map exSigmaAll) exRels,
      o.2.2 ≤ o.2.1 + (exWl.getD o.1 default).rtb := by
  obtain ⟨h1, h2, h3, h4, h5, h6, h7, h8, h9, h10, h11, h12, _⟩ := rr_exec_sound_nonvacuous
  intro o ho
  exact rr_exec_sound exCbs exSigmaAll exRels 40 h1 h2 h3 .dedicated h4 h5 exWl h6 h7 h8 h9 h10 h11
    100 h12 60 o.1 o ho rfl

end RTA.Exec
