import RTA.Lemmas.PruneFP
import RTA.Lemmas.PruneEDF
import RTA.Lemmas.Supply
import RTA.Model.Ros
import RTA.Props.C09
/-! C19: analyses agree with each other on their common special cases. -/

namespace RTA
open RTA.Spec

namespace AgreeLemmas
open PruneCoreLemmas PruneFPLemmas PruneEDFLemmas

theorem maxList_zero (l : List Nat) (h : ∀ x ∈ l, x = 0) : maxList l = 0 := by
  have := maxList_le_of_forall l 0 (fun x hx => by rw [h x hx]; exact Nat.le_refl _)
  omega

/-- when there is no blocking the `withBlocking` flag of `edfCore` is irrelevant -/
theorem edfCore_wb_irrelevant (tua : RB) (D : Nat) (others : List EdfTask) (rem limit : Nat) (g : Bool)
    (h : ∀ A, edfBlocking others D A = 0) :
    edfCore tua D others rem true limit g = edfCore tua D others rem false limit g := by
  simp [edfCore, h]

/-- a constant workload `c ≥ A` is served on a dedicated processor `c - A` after offset `A` -/
theorem search_const_dedicated (A c limit : Nat) (hl : 1 ≤ limit) (hA : A ≤ c) (hc : c - A ≤ limit) :
    searchWithOffset .dedicated A limit (fun _ => c) = .ok (c - A) := by
  rw [RTA.C08.search_ok_iff .dedicated trivial (fun _ => c) (fun _ _ _ => Nat.le_refl _) A limit
    (fun x _ => hA)]
  refine ⟨⟨hc, ?_, ?_⟩, hl⟩
  · show c ≤ A + (c - A); omega
  · intro r' hr'
    have : c ≤ A + r' := hr'
    omega

/-- `naiveMax` of per-offset results that are all `ok` and bounded -/
theorem naiveMax_bounded (f : Nat → Res) (L R : Nat) (h : ∀ A, A < L → ∃ v, f A = .ok v ∧ v ≤ R) :
    ∃ Ri, naiveMax ((List.range L).map f) = .ok Ri ∧ Ri ≤ R ∧
      ∀ A, A < L → ∀ v, f A = .ok v → v ≤ Ri := by
  let g : Nat → Nat := fun A => match f A with | .ok v => v | _ => 0
  have hfg : ∀ A, A < L → f A = .ok (g A) := by
    intro A hA
    obtain ⟨v, hv, _⟩ := h A hA
    show f A = .ok (match f A with | .ok v => v | _ => 0)
    rw [hv]
  have e : (List.range L).map f = (List.range L).map fun A => Res.ok (g A) :=
    List.map_congr_left (fun a ha => hfg a (List.mem_range.1 ha))
  refine ⟨maxList ((List.range L).map g), ?_, ?_, ?_⟩
  · rw [e, naiveMax_ok]
  · apply maxList_le_of_forall
    intro x hx
    obtain ⟨A, hA, rfl⟩ := List.mem_map.1 hx
    obtain ⟨v, hv, hle⟩ := h A (List.mem_range.1 hA)
    have := hfg A (List.mem_range.1 hA)
    rw [hv] at this
    injection this with this
    omega
  · intro A hA v hv
    have := hfg A hA
    rw [hv] at this
    injection this with this
    rw [this]
    exact mem_le_maxList _ _ (List.mem_map.2 ⟨A, List.mem_range.2 hA, rfl⟩)

/-- the per-offset NP-EDF bound, when there is no blocking and all deadlines are equal,
never exceeds the FIFO term (or `rem`) -/
theorem edfPer_le_fifo (tua : RB) (D : Nat) (others : List EdfTask) (rem limit L R : Nat)
    (O : Nat → Nat) (hO : MonoN O) (hown : MonoN tua.need)
    (hB : ∀ A, edfBlocking others D A = 0)
    (hH : ∀ A AF, edfHepWorkload others D A AF = O (min AF (A + 1)))
    (hL : naiveSolve (fun x => O x + tua.need x) limit = .ok L)
    (hrem : rem < tua.need 1) (A : Nat) (hA : A < L)
    (hR1 : O (A + 1) + tua.need (A + 1) - A ≤ R) (hR2 : rem ≤ R) :
    ∃ v, edfPer tua D others rem true limit A = .ok v ∧ v ≤ R := by
  have hLs := (naiveSolve_ok_iff _ _ _).1 hL
  have h1 := hown 1 (A + 1) (by omega)
  have hT : O (A + 1) + tua.need (A + 1) ≤ L := by
    have a := hO (A + 1) (max L 1) (by omega)
    have b := hown (A + 1) (max L 1) (by omega)
    have c := hLs.2.1
    replace c : O (max L 1) + tua.need (max L 1) ≤ L := c
    omega
  have hrhs : ∀ x, edfRhs tua D others rem true A x ≤ O (A + 1) + tua.need (A + 1) - rem := by
    intro x
    unfold edfRhs
    rw [hH, if_pos rfl, hB]
    have := hO (min x (A + 1)) (A + 1) (Nat.min_le_right _ _)
    omega
  unfold edfPer
  rcases naiveSolve_cases (edfRhs tua D others rem true A) limit with ⟨AF, h⟩ | h
  · rw [h]
    refine ⟨_, rfl, ?_⟩
    have hs := (naiveSolve_ok_iff _ _ _).1 h
    -- `AF` is at most the trivial solution
    have hAF : AF ≤ O (A + 1) + tua.need (A + 1) - rem := by
      rcases Nat.lt_or_ge (O (A + 1) + tua.need (A + 1) - rem) AF with hlt | hge
      · exact absurd (Nat.le_trans (hrhs _) (by omega)) (hs.2.2 _ hlt)
      · exact hge
    omega
  · rw [naiveSolve_div_iff] at h
    exact absurd (Nat.le_trans (hrhs _) (Nat.le_refl _))
      (h (O (A + 1) + tua.need (A + 1) - rem) (by omega))

/-- at an increase offset of the task under analysis the per-offset NP-EDF bound is
exactly the FIFO term -/
theorem edfPer_eq_fifo (tua : RB) (D : Nat) (others : List EdfTask) (rem limit L : Nat)
    (O : Nat → Nat) (hO : MonoN O) (hown : MonoN tua.need)
    (hB : ∀ A, edfBlocking others D A = 0)
    (hH : ∀ A AF, edfHepWorkload others D A AF = O (min AF (A + 1)))
    (hL : naiveSolve (fun x => O x + tua.need x) limit = .ok L)
    (A : Nat) (hA : A < L) (hinc : tua.need A + rem < tua.need (A + 1))
    (hbig : A + rem < O (A + 1) + tua.need (A + 1)) :
    edfPer tua D others rem true limit A = .ok (O (A + 1) + tua.need (A + 1) - A) := by
  have hLs := (naiveSolve_ok_iff _ _ _).1 hL
  have hT : O (A + 1) + tua.need (A + 1) ≤ L := by
    have a := hO (A + 1) (max L 1) (by omega)
    have b := hown (A + 1) (max L 1) (by omega)
    have c := hLs.2.1
    replace c : O (max L 1) + tua.need (max L 1) ≤ L := c
    omega
  have hrhs : ∀ x, edfRhs tua D others rem true A x =
      (tua.need (A + 1) - rem) + O (min x (A + 1)) := by
    intro x
    unfold edfRhs
    rw [hH, if_pos rfl, hB]
    omega
  have hsol : naiveSolve (edfRhs tua D others rem true A) limit =
      .ok (O (A + 1) + tua.need (A + 1) - rem) := by
    rw [naiveSolve_ok_iff]
    refine ⟨by omega, ?_, ?_⟩
    · rw [hrhs, Nat.max_eq_left (by omega), Nat.min_eq_right (by omega)]
      omega
    · intro x hx
      rw [hrhs]
      rcases Nat.lt_or_ge A (max x 1) with h | h
      · rw [Nat.min_eq_right (by omega)]; omega
      · rw [Nat.min_eq_left (by omega)]
        have hb := naiveSolve_below _ limit L hL (max x 1) (by omega) (by omega)
        replace hb : max x 1 < O (max x 1) + tua.need (max x 1) := hb
        have := hown (max x 1) A h
        omega
  unfold edfPer
  rw [hsol]
  simp only []
  congr 1
  omega

/-- `maxList` of a non-empty list is attained -/
theorem maxList_attained (l : List Nat) (h : l ≠ []) : maxList l ∈ l := by
  induction l with
  | nil => exact absurd rfl h
  | cons a as ih =>
    simp only [maxList]
    rcases Nat.le_total (maxList as) a with h1 | h1
    · rw [Nat.max_eq_left h1]; simp
    · rw [Nat.max_eq_right h1]
      cases as with
      | nil =>
        simp only [maxList] at h1 ⊢
        have : a = 0 := by omega
        simp [this]
      | cons b bs => exact List.mem_cons_of_mem _ (ih (by simp))

end AgreeLemmas
open AgreeLemmas PruneCoreLemmas PruneFPLemmas

/-! ### fixed priority -/

/-- limited-preemptive FP with last segment 1 and no blocking = fully preemptive FP -/
theorem fpLimited_last1_eq_preemptive (a : Arr) (C : Nat) (others : List RB) (limit : Nat) :
    fpLimited a C 1 0 others limit = fpPreemptive (.rbf a (.scalar C)) others limit := by
  simp [fpLimited, fpPreemptive]

/-- limited-preemptive FP with last segment = WCET = fully non-preemptive FP -/
theorem fpLimited_lastC_eq_nonpreemptive (a : Arr) (C B : Nat) (others : List RB) (limit : Nat)
    (hC : 1 ≤ C) : fpLimited a C C B others limit = fpNonpreemptive a C B others limit := by
  have h1 : C - (C - (C - 1)) = C - 1 := by omega
  have h2 : decide (C < 1 ∨ C < C - 1) = decide (C < 1) := by
    apply decide_eq_decide.2; omega
  simp only [fpLimited, fpNonpreemptive, h1, h2]

/-- floating non-preemptive FP = limited-preemptive FP with last segment 1 -/
theorem fpFloating_eq_limited_last1 (a : Arr) (C B : Nat) (others : List RB) (limit : Nat) :
    fpFloating (.rbf a (.scalar C)) B others limit = fpLimited a C 1 B others limit := by
  simp [fpLimited, fpFloating]

/-! ### EDF -/

/-- no blocking when every segment is at most 1 long -/
theorem edfBlocking_zero (others : List EdfTask) (h : ∀ o ∈ others, o.seg ≤ 1) (D A : Nat) :
    edfBlocking others D A = 0 := by
  unfold edfBlocking
  apply maxList_zero
  intro x hx
  simp only [List.mem_map, List.mem_filter] at hx
  obtain ⟨o, ⟨ho, _⟩, rfl⟩ := hx
  have := h o ho; omega

/-- limited-preemptive EDF with all segments 1 = fully preemptive EDF -/
theorem edfLimited_seg1_eq_preemptive (a : Arr) (C D : Nat) (others : List EdfTask) (limit : Nat)
    (h : ∀ o ∈ others, o.seg ≤ 1) :
    edfLimited a C D 1 others limit = edfPreemptive (.rbf a (.scalar C)) D others limit := by
  unfold edfLimited edfPreemptive
  rw [edfCore_wb_irrelevant _ _ _ _ _ _ (edfBlocking_zero others h D)]
  simp

/-- limited-preemptive EDF with all segments equal to the WCETs = fully non-preemptive EDF
(the interfering tasks carry `seg` = their WCET in both) -/
theorem edfLimited_segC_eq_nonpreemptive (a : Arr) (C D : Nat) (others : List EdfTask) (limit : Nat)
    (hC : 1 ≤ C) : edfLimited a C D C others limit = edfNonpreemptive a C D others limit := by
  have h1 : C - (C - (C - 1)) = C - 1 := by omega
  have h2 : decide (C < 1 ∨ C < C - 1) = decide (C < 1) := by
    apply decide_eq_decide.2; omega
  simp only [edfLimited, edfNonpreemptive, h1, h2]

/-- floating non-preemptive EDF = limited-preemptive EDF with last segment 1 -/
theorem edfFloating_eq_limited_last1 (a : Arr) (C D : Nat) (others : List EdfTask) (limit : Nat) :
    edfFloating (.rbf a (.scalar C)) D others limit = edfLimited a C D 1 others limit := by
  simp [edfLimited, edfFloating]

/-! ### supplies -/

/-- two supplies with the same `provided_service` and the same `service_time` are
indistinguishable to the fixed-point search … -/
theorem search_congr (s1 s2 : Supply) (h : s1.st? = s2.st?) (off limit : Nat) (w : Nat → Nat) :
    searchWithOffset s1 off limit w = searchWithOffset s2 off limit w := by
  unfold searchWithOffset; rw [h]

/-- … and to every ROS 2 analysis -/
theorem ros_congr (s1 s2 : Supply) (hsbf : s1.sbf = s2.sbf) (hst : s1.st? = s2.st?) :
    (∀ demand limit, rosEventSource s1 demand limit = rosEventSource s2 demand limit) ∧
    (∀ own interf B limit, rosTimer s1 own interf B limit = rosTimer s2 own interf B limit) ∧
    (∀ own interf limit, rosPollingPoint s1 own interf limit = rosPollingPoint s2 own interf limit) ∧
    (∀ last pfx full others limit, rosChain s1 last pfx full others limit = rosChain s2 last pfx full others limit) ∧
    (∀ wl sub limit, rrSubchain s1 wl sub limit = rrSubchain s2 wl sub limit) ∧
    (∀ wl sub limit dbg, bwSubchain s1 wl sub limit dbg = bwSubchain s2 wl sub limit dbg) := by
  have hso : searchWithOffset s1 = searchWithOffset s2 := by
    funext off limit w; exact search_congr s1 s2 hst off limit w
  have hs' : search s1 = search s2 := by
    funext l w; exact search_congr s1 s2 hst 0 l w
  have hb : rosBound s1 = rosBound s2 := by
    funext d b o l; simp only [rosBound, hs', hso]
  refine ⟨?_, ?_, ?_, ?_, ?_, ?_⟩
  · intros; simp only [rosEventSource, hb]
  · intros; simp only [rosTimer, hb]
  · intros; simp only [rosPollingPoint, hb]
  · intros; simp only [rosChain, hb]
  · intros; simp only [rrSubchain, hs', hsbf, hst]
  · intros; simp only [bwSubchain, hs', hsbf, hst]

/-- a dedicated processor, a periodic reservation with budget = period and a constrained
reservation with budget = deadline = period are the same supply -/
theorem full_supplies_eq (P : Nat) (hP : 1 ≤ P) :
    (Supply.periodic P P).sbf = Supply.dedicated.sbf ∧ (Supply.periodic P P).st? = Supply.dedicated.st? ∧
    (Supply.constrained P P P).sbf = Supply.dedicated.sbf ∧
    (Supply.constrained P P P).st? = Supply.dedicated.st? := by
  refine ⟨funext fun x => ?_, funext fun x => ?_, funext fun x => ?_, funext fun x => ?_⟩
  · exact (RTA.C09.full_budget_eq_dedicated P hP x).1
  · exact (RTA.C09.full_budget_eq_dedicated P hP x).2.1
  · exact (RTA.C09.full_budget_eq_dedicated P hP x).2.2.1
  · exact (RTA.C09.full_budget_eq_dedicated P hP x).2.2.2

/-! ### event source vs FIFO -/

/-- the event-source analysis on a dedicated processor equals the FIFO analysis, provided
the demand does not jump right after the busy window by more than the bound (finding K3:
the event-source analysis also examines the offset `A = L`) -/
theorem eventSource_eq_fifo_partial (r : RB) (hwf : r.ArrWF) (hex : r.Exact) (limit L R : Nat)
    (hl : 1 ≤ limit) (hL : naiveSolve (fun x => r.need x) limit = .ok L) (hR : fifoRta r limit = .ok R)
    (hjump : r.need (L + 1) ≤ L + R) :
    rosEventSource .dedicated r limit = .ok R := by
  obtain ⟨S, hmS, hf⟩ := fifo_form r hwf hex limit hl L hL
  rw [hf] at hR
  injection hR with hR
  obtain ⟨S', hS', _, hmS'⟩ := RB.offsetsBelow_spec r hwf hex (L + 1)
  have hLs := (naiveSolve_ok_iff _ _ _).1 hL
  have hmono := RB.need_mono r hwf hex
  -- every FIFO term is at most `L`
  have hterm : ∀ A, A < L → r.need (A + 1) ≤ L := by
    intro A hA
    have := hmono (A + 1) (max L 1) (by omega)
    have := hLs.2.1
    omega
  have hRL : R ≤ L := by
    rw [← hR]
    apply maxList_le_of_forall
    intro x hx
    obtain ⟨A, hA, rfl⟩ := List.mem_map.1 hx
    have := hterm A ((hmS A).1 hA).1
    omega
  have hbusy : ∀ A, A ≤ L → A ≤ r.need (A + 1) := by
    intro A hA
    rcases Nat.eq_zero_or_pos A with h0 | hpos
    · omega
    · have h1 := hLs.2.2 (A - 1) (by omega)
      have h2 := hmono (max (A - 1) 1) (A + 1) (by omega)
      omega
  have hle : ∀ A, A ≤ L → r.need (A + 1) - A ≤ limit := by
    intro A hA
    rcases Nat.lt_or_ge A L with h | h
    · have := hterm A h; omega
    · have : A = L := by omega
      subst this; omega
  unfold rosEventSource rosBound
  rw [search_dedicated_eq_naive _ (need_Mono r hwf hex) limit hl, hL]
  simp only []
  have e : stepOffsetsBelow (r.stepsUpTo (L + 1)) (L + 1) = some S' := hS'
  rw [e]
  simp only [overOffsets]
  have e2 : S'.map (fun A => searchWithOffset .dedicated A limit (fun _ => r.need (A + 1))) =
      S'.map (fun A => Res.ok ((fun A => r.need (A + 1) - A) A)) := by
    apply List.map_congr_left
    intro A hA
    have hAL : A ≤ L := by have := ((hmS' A).1 hA).1; omega
    exact search_const_dedicated A _ limit hl (hbusy A hAL) (hle A hAL)
  rw [e2, maxResponseTime_ok]
  congr 1
  rw [← hR]
  apply Nat.le_antisymm
  · apply maxList_le_of_forall
    intro x hx
    obtain ⟨A, hA, rfl⟩ := List.mem_map.1 hx
    have hA' := (hmS' A).1 hA
    rcases Nat.lt_or_ge A L with h | h
    · exact mem_le_maxList _ _ (List.mem_map.2 ⟨A, (hmS A).2 ⟨h, hA'.2⟩, rfl⟩)
    · have : A = L := by omega
      subst this
      rw [hR]; show r.need (A + 1) - A ≤ R; omega
  · apply maxList_le_of_forall
    intro x hx
    obtain ⟨A, hA, rfl⟩ := List.mem_map.1 hx
    have hA' := (hmS A).1 hA
    exact mem_le_maxList _ _ (List.mem_map.2 ⟨A, (hmS' A).2 ⟨by omega, hA'.2⟩, rfl⟩)

/-- finding K3: without the side condition the two analyses differ (`Curve [4,4,9]`, cost 4) -/
theorem eventSource_ne_fifo_counterexample :
    rosEventSource .dedicated (.rbf (.curve [4, 4, 9]) (.scalar 4)) 100 ≠
      fifoRta (.rbf (.curve [4, 4, 9]) (.scalar 4)) 100 := by
  decide

/-! ### non-preemptive EDF with equal deadlines vs FIFO -/

/-- the other tasks of task `i` in a task set given as (arrival model, WCET) pairs with a
common relative deadline `D` -/
def npEdfOthers (ts : List (Arr × Nat)) (D i : Nat) : List EdfTask :=
  (ts.eraseIdx i).map fun p => { rb := .rbf p.1 (.scalar p.2), D := D, seg := p.2 }

def fifoOfTasks (ts : List (Arr × Nat)) : RB := .agg (ts.map fun p => .rbf p.1 (.scalar p.2))

namespace AgreeLemmas
open PruneEDFLemmas

/-- the request bound of a task given as an (arrival model, WCET) pair -/
def rbOf (p : Arr × Nat) : RB := .rbf p.1 (.scalar p.2)

theorem others_rb (ts : List (Arr × Nat)) (D i : Nat) :
    (npEdfOthers ts D i).map (·.rb) = (ts.eraseIdx i).map rbOf := by
  unfold npEdfOthers
  rw [List.map_map]
  rfl

theorem fifoOfTasks_cons (p : Arr × Nat) (ps : List (Arr × Nat)) (x : Nat) :
    (fifoOfTasks (p :: ps)).need x = (rbOf p).need x + (fifoOfTasks ps).need x := by
  simp only [fifoOfTasks, RB.need, RB.needList, List.map_cons, rbOf]

theorem sumNeed_cons (r : RB) (rs : List RB) (x : Nat) :
    sumNeed (r :: rs) x = r.need x + sumNeed rs x := by
  simp only [sumNeed, List.map_cons, sumList]

theorem fifoOfTasks_need (ts : List (Arr × Nat)) (x : Nat) :
    (fifoOfTasks ts).need x = sumNeed (ts.map rbOf) x := by
  induction ts with
  | nil => simp [fifoOfTasks, RB.need, RB.needList, sumNeed, sumList]
  | cons p ps ih => rw [fifoOfTasks_cons, ih, List.map_cons, sumNeed_cons]

/-- the total demand is the demand of task `i` plus that of the others -/
theorem total_split (ts : List (Arr × Nat)) (x : Nat) (i : Nat) (hi : i < ts.length) :
    (fifoOfTasks ts).need x =
      sumNeed ((ts.eraseIdx i).map rbOf) x + (rbOf (ts.getD i default)).need x := by
  induction ts generalizing i with
  | nil => simp at hi
  | cons p ps ih =>
    cases i with
    | zero =>
      rw [fifoOfTasks_cons, fifoOfTasks_need]
      simp only [List.eraseIdx_cons_zero, List.getD_cons_zero]
      omega
    | succ j =>
      rw [fifoOfTasks_cons, ih j (by simpa using hi)]
      simp only [List.eraseIdx_cons_succ, List.getD_cons_succ, List.map_cons, sumNeed_cons]
      omega

theorem getD_mem (ts : List (Arr × Nat)) (i : Nat) (hi : i < ts.length) :
    ts.getD i default ∈ ts := by
  induction ts generalizing i with
  | nil => simp at hi
  | cons p ps ih =>
    cases i with
    | zero => simp
    | succ j =>
      simp only [List.getD_cons_succ]
      exact List.mem_cons_of_mem _ (ih j (by simpa using hi))

/-- an increase of the total demand is an increase of the demand of some task -/
theorem exists_inc (ts : List (Arr × Nat)) (A : Nat)
    (h : (fifoOfTasks ts).need A < (fifoOfTasks ts).need (A + 1)) :
    ∃ i, i < ts.length ∧ (rbOf (ts.getD i default)).need A < (rbOf (ts.getD i default)).need (A + 1) := by
  induction ts with
  | nil => simp [fifoOfTasks, RB.need, RB.needList] at h
  | cons p ps ih =>
    rw [fifoOfTasks_cons, fifoOfTasks_cons] at h
    by_cases hp : (rbOf p).need A < (rbOf p).need (A + 1)
    · exact ⟨0, by simp, by simpa using hp⟩
    · obtain ⟨i, hi, hinc⟩ := ih (by omega)
      exact ⟨i + 1, by simpa using hi, by simpa using hinc⟩

theorem rbOf_ok (p : Arr × Nat) (h : p.1.WF ∧ p.1.Exact ∧ 1 ≤ p.2 ∧ 0 < p.1.N 1) :
    (rbOf p).ArrWF ∧ (rbOf p).Exact ∧ p.2 - 1 < (rbOf p).need 1 ∧
      ∀ A, (rbOf p).need A < (rbOf p).need (A + 1) →
        (rbOf p).need A + (p.2 - 1) < (rbOf p).need (A + 1) := by
  obtain ⟨h1, h2, h3, h4⟩ := scalar_facts p.1 p.2 (p.2 - 1) h.1 h.2.1 h.2.2.1 (by omega) h.2.2.2
  refine ⟨h1, h2, ?_, h4⟩
  have := h4 0 (by rw [RB.need_zero]; exact h3)
  rw [RB.need_zero] at this
  show p.2 - 1 < (RB.rbf p.1 (.scalar p.2)).need (0 + 1)
  omega

theorem fifoOfTasks_ok (ts : List (Arr × Nat))
    (hwf : ∀ p ∈ ts, p.1.WF ∧ p.1.Exact ∧ 1 ≤ p.2 ∧ 0 < p.1.N 1) :
    (fifoOfTasks ts).ArrWF ∧ (fifoOfTasks ts).Exact := by
  unfold fifoOfTasks
  simp only [RB.ArrWF, RB.Exact]
  induction ts with
  | nil => simp [RB.ArrWFList, RB.ExactList]
  | cons p ps ih =>
    obtain ⟨h1, h2, _, _⟩ := rbOf_ok p (hwf p (by simp))
    obtain ⟨i1, i2⟩ := ih (fun q hq => hwf q (by simp [hq]))
    simp only [List.map_cons, RB.ArrWFList, RB.ExactList]
    exact ⟨⟨h1, i1⟩, ⟨h2, i2⟩⟩

theorem mem_npEdfOthers (ts : List (Arr × Nat)) (D i : Nat) (o : EdfTask)
    (ho : o ∈ npEdfOthers ts D i) : ∃ p ∈ ts, o.rb = rbOf p ∧ o.D = D := by
  unfold npEdfOthers at ho
  obtain ⟨p, hp, rfl⟩ := List.mem_map.1 ho
  exact ⟨p, List.mem_of_mem_eraseIdx hp, rfl, rfl⟩

theorem others_ok (ts : List (Arr × Nat)) (D i : Nat)
    (hwf : ∀ p ∈ ts, p.1.WF ∧ p.1.Exact ∧ 1 ≤ p.2 ∧ 0 < p.1.N 1) :
    EdfOthersOK (npEdfOthers ts D i) := by
  intro o ho
  obtain ⟨p, hp, e, _⟩ := mem_npEdfOthers ts D i o ho
  rw [e]
  exact ⟨(rbOf_ok p (hwf p hp)).1, (rbOf_ok p (hwf p hp)).2.1⟩

theorem blocking0 (ts : List (Arr × Nat)) (D i A : Nat) :
    edfBlocking (npEdfOthers ts D i) D A = 0 := by
  unfold edfBlocking
  have : (npEdfOthers ts D i).filter
      (fun o => decide (o.D > D + A) && decide (o.rb.need 1 > 0)) = [] := by
    rw [List.filter_eq_nil_iff]
    intro o ho
    obtain ⟨p, _, _, e⟩ := mem_npEdfOthers ts D i o ho
    simp only [Bool.and_eq_true, decide_eq_true_eq]
    omega
  rw [this]
  rfl

theorem hep_eq (ts : List (Arr × Nat)) (D i A AF : Nat) :
    edfHepWorkload (npEdfOthers ts D i) D A AF =
      sumNeed ((npEdfOthers ts D i).map (·.rb)) (min AF (A + 1)) := by
  unfold edfHepWorkload sumNeed
  rw [List.map_map]
  congr 1
  apply List.map_congr_left
  intro o ho
  obtain ⟨p, _, _, e⟩ := mem_npEdfOthers ts D i o ho
  show o.rb.need (min AF (A + 1 + D - o.D)) = o.rb.need (min AF (A + 1))
  rw [e]
  congr 2
  omega

/-- everything about the NP-EDF analysis of task `i` in terms of the FIFO quantities -/
theorem npEdf_task (ts : List (Arr × Nat)) (D limit L R : Nat)
    (hwf : ∀ p ∈ ts, p.1.WF ∧ p.1.Exact ∧ 1 ≤ p.2 ∧ 0 < p.1.N 1) (hl : 1 ≤ limit)
    (hL : naiveSolve (fun x => (fifoOfTasks ts).need x) limit = .ok L)
    (hR : ∀ A, A < L → (fifoOfTasks ts).need (A + 1) - A ≤ R)
    (i : Nat) (hi : i < ts.length) :
    ∃ Ri, edfNonpreemptive (ts.getD i default).1 (ts.getD i default).2 D
        (npEdfOthers ts D i) limit = .ok Ri ∧ Ri ≤ R ∧
      ∀ A, A < L → (rbOf (ts.getD i default)).need A < (rbOf (ts.getD i default)).need (A + 1) →
        (fifoOfTasks ts).need (A + 1) - A ≤ Ri := by
  have hp := hwf _ (getD_mem ts i hi)
  obtain ⟨hwfi, hexi, hremi, hstepi⟩ := rbOf_ok _ hp
  have ho := others_ok ts D i hwf
  have hown := RB.need_mono _ hwfi hexi
  have hO : MonoN (sumNeed ((npEdfOthers ts D i).map (·.rb))) := by
    have := busy_mono (RB.rbf .never (.scalar 1)) (npEdfOthers ts D i)
      (by simp [RB.ArrWF, Arr.WF]) (by
        simp only [RB.Exact, Arr.Exact, true_and]
        exact Cost.scalar_strictPos 1 (by omega)) ho
    intro a b hab
    have h := this a b hab
    simp only [RB.need, Arr.N, Cost.ofJobs] at h
    omega
  have hsplit : ∀ x, (fifoOfTasks ts).need x =
      sumNeed ((npEdfOthers ts D i).map (·.rb)) x + (rbOf (ts.getD i default)).need x := by
    intro x; rw [others_rb]; exact total_split ts x i hi
  have hLi : naiveSolve (fun x => sumNeed ((npEdfOthers ts D i).map (·.rb)) x +
      (rbOf (ts.getD i default)).need x) limit = .ok L := by
    rw [← hL]; congr 1; funext x; exact (hsplit x).symm
  have hLs := (naiveSolve_ok_iff _ _ _).1 hL
  have hLpos : 0 < L := by
    rcases Nat.eq_zero_or_pos L with h0 | h
    · subst h0
      have c : (fifoOfTasks ts).need (max 0 1) ≤ 0 := hLs.2.1
      have : max 0 1 = 1 := rfl
      rw [this, hsplit 1] at c
      omega
    · exact h
  have hR2 : (ts.getD i default).2 - 1 ≤ R := by
    have := hR 0 hLpos
    rw [hsplit 1] at this
    omega
  have hper : ∀ A, A < L → ∃ v, edfPer (rbOf (ts.getD i default)) D (npEdfOthers ts D i)
      ((ts.getD i default).2 - 1) true limit A = .ok v ∧ v ≤ R := by
    intro A hA
    apply edfPer_le_fifo _ D _ _ limit L R _ hO hown (blocking0 ts D i) (hep_eq ts D i) hLi hremi A hA
      _ hR2
    rw [← hsplit]; exact hR A hA
  obtain ⟨Ri, hRi, hle, hge⟩ := naiveMax_bounded _ L R hper
  refine ⟨Ri, ?_, hle, ?_⟩
  · rw [edfNonpreemptive_eq_naive _ _ D _ limit hp.1 hp.2.1 hp.2.2.1 ho hl hp.2.2.2, naiveEdf_eq]
    show (match naiveSolve (fun x => sumNeed ((npEdfOthers ts D i).map (·.rb)) x +
      (rbOf (ts.getD i default)).need x) limit with
      | .ok L => naiveMax ((List.range L).map (edfPer (rbOf (ts.getD i default)) D
          (npEdfOthers ts D i) ((ts.getD i default).2 - 1) true limit))
      | e => e) = _
    rw [hLi]
    exact hRi
  · intro A hA hinc
    have hinc' := hstepi A hinc
    apply hge A hA
    rw [hsplit (A + 1)]
    apply edfPer_eq_fifo _ D _ _ limit L _ hO hown (blocking0 ts D i) (hep_eq ts D i) hLi A hA hinc'
    rcases Nat.eq_zero_or_pos A with h0 | hpos
    · subst h0
      omega
    · have hb := naiveSolve_below _ limit L hLi A hpos hA
      replace hb : A < sumNeed ((npEdfOthers ts D i).map (·.rb)) A +
        (rbOf (ts.getD i default)).need A := hb
      have := hO A (A + 1) (by omega)
      omega

end AgreeLemmas
open AgreeLemmas

/-- with equal relative deadlines the largest non-preemptive-EDF bound over all tasks
equals the FIFO bound (when the FIFO analysis converges) -/
theorem max_npEdf_eq_fifo (ts : List (Arr × Nat)) (D limit R : Nat)
    (hwf : ∀ p ∈ ts, p.1.WF ∧ p.1.Exact ∧ 1 ≤ p.2 ∧ 0 < p.1.N 1) (hl : 1 ≤ limit)
    (hR : fifoRta (fifoOfTasks ts) limit = .ok R) :
    (∀ i, i < ts.length → ∃ Ri, edfNonpreemptive (ts.getD i default).1 (ts.getD i default).2 D
        (npEdfOthers ts D i) limit = .ok Ri ∧ Ri ≤ R) ∧
    (ts ≠ [] → ∃ i, i < ts.length ∧ edfNonpreemptive (ts.getD i default).1 (ts.getD i default).2 D
        (npEdfOthers ts D i) limit = .ok R) := by
  obtain ⟨hwfT, hexT⟩ := fifoOfTasks_ok ts hwf
  have hRn := hR
  rw [fifo_eq_naive _ hwfT hexT limit hl] at hRn
  unfold naiveFifo at hRn
  rcases naiveSolve_cases (fun L => (fifoOfTasks ts).need L) limit with ⟨L, hL⟩ | hd
  · rw [hL] at hRn
    injection hRn with hRn
    have hRall : ∀ A, A < L → (fifoOfTasks ts).need (A + 1) - A ≤ R := by
      intro A hA
      rw [← hRn]
      exact mem_le_maxList _ _ (List.mem_map.2 ⟨A, List.mem_range.2 hA, rfl⟩)
    refine ⟨?_, ?_⟩
    · intro i hi
      obtain ⟨Ri, h1, h2, _⟩ := npEdf_task ts D limit L R hwf hl hL hRall i hi
      exact ⟨Ri, h1, h2⟩
    · intro hne
      obtain ⟨S, hmS, hf⟩ := fifo_form _ hwfT hexT limit hl L hL
      rw [hf] at hR
      injection hR with hR
      -- `0` is an increase offset below `L`
      have hlen : 0 < ts.length := by
        cases ts with
        | nil => exact absurd rfl hne
        | cons p ps => simp
      have hLs := (naiveSolve_ok_iff _ _ _).1 hL
      have hpos1 : 0 < (fifoOfTasks ts).need 1 := by
        have := (rbOf_ok _ (hwf _ (getD_mem ts 0 hlen))).2.2.1
        rw [total_split ts 1 0 hlen]
        omega
      have hLpos : 0 < L := by
        rcases Nat.eq_zero_or_pos L with h0 | h
        · subst h0
          have c : (fifoOfTasks ts).need (max 0 1) ≤ 0 := hLs.2.1
          have : max 0 1 = 1 := rfl
          rw [this] at c
          omega
        · exact h
      have h0S : 0 ∈ S := (hmS 0).2 ⟨hLpos, by rw [RB.need_zero]; exact hpos1⟩
      have hne' : S.map (fun A => (fifoOfTasks ts).need (A + 1) - A) ≠ [] := by
        intro h
        rw [List.map_eq_nil_iff] at h
        rw [h] at h0S
        cases h0S
      have hatt := maxList_attained _ hne'
      rw [hR] at hatt
      obtain ⟨A, hAS, hAR⟩ := List.mem_map.1 hatt
      have hA := (hmS A).1 hAS
      obtain ⟨i, hi, hinc⟩ := exists_inc ts A hA.2
      obtain ⟨Ri, h1, h2, h3⟩ := npEdf_task ts D limit L R hwf hl hL hRall i hi
      have := h3 A hA.1 hinc
      have : Ri = R := by omega
      subst this
      exact ⟨i, hi, h1⟩
  · rw [hd] at hRn
    cases hRn

end RTA
