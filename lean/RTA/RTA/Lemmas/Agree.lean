import RTA.Lemmas.PruneFP
import RTA.Lemmas.PruneEDF
import RTA.Lemmas.Supply
import RTA.Model.Ros
import RTA.Props.C09
/-! C19: analyses agree with each other on their common special cases. -/

namespace RTA
open RTA.Spec

namespace AgreeLemmas
open PruneCoreLemmas PruneFPLemmas

theorem maxList_zero (l : List Nat) (h : ∀ x ∈ l, x = 0) : maxList l = 0 := by
  have := maxList_le_of_forall l 0 (fun x hx => by rw [h x hx]; exact Nat.le_refl _)
  omega

/-- when there is no blocking the `withBlocking` flag of `edfCore` is irrelevant -/
theorem edfCore_wb_irrelevant (tua : RB) (D : Nat) (others : List EdfTask) (rem limit : Nat) (g : Bool)
    (h : ∀ A, edfBlocking others D A = 0) :
    edfCore tua D others rem true limit g = edfCore tua D others rem false limit g := by
  simp [edfCore, h]

/-- a constant workload `c ≥ A` is served on a dedicated processor `c - A` after offset `A` -/
theorem search_const_dedicated (A c limit : Nat) (hl : 1 ≤ limit) (hA : A ≤ c) (hc : c - A ≤ limit) :
    searchWithOffset .dedicated A limit (fun _ => c) = .ok (c - A) := by
  rw [RTA.C08.search_ok_iff .dedicated trivial (fun _ => c) (fun _ _ _ => Nat.le_refl _) A limit
    (fun x _ => hA)]
  refine ⟨⟨hc, ?_, ?_⟩, hl⟩
  · show c ≤ A + (c - A); omega
  · intro r' hr'
    have : c ≤ A + r' := hr'
    omega

end AgreeLemmas
open AgreeLemmas PruneCoreLemmas PruneFPLemmas

/-! ### fixed priority -/

/-- limited-preemptive FP with last segment 1 and no blocking = fully preemptive FP -/
theorem fpLimited_last1_eq_preemptive (a : Arr) (C : Nat) (others : List RB) (limit : Nat) :
    fpLimited a C 1 0 others limit = fpPreemptive (.rbf a (.scalar C)) others limit := by
  simp [fpLimited, fpPreemptive]

/-- limited-preemptive FP with last segment = WCET = fully non-preemptive FP -/
theorem fpLimited_lastC_eq_nonpreemptive (a : Arr) (C B : Nat) (others : List RB) (limit : Nat)
    (hC : 1 ≤ C) : fpLimited a C C B others limit = fpNonpreemptive a C B others limit := by
  have h1 : C - (C - (C - 1)) = C - 1 := by omega
  have h2 : decide (C < 1 ∨ C < C - 1) = decide (C < 1) := by
    apply decide_eq_decide.2; omega
  simp only [fpLimited, fpNonpreemptive, h1, h2]

/-- floating non-preemptive FP = limited-preemptive FP with last segment 1 -/
theorem fpFloating_eq_limited_last1 (a : Arr) (C B : Nat) (others : List RB) (limit : Nat) :
    fpFloating (.rbf a (.scalar C)) B others limit = fpLimited a C 1 B others limit := by
  simp [fpLimited, fpFloating]

/-! ### EDF -/

/-- no blocking when every segment is at most 1 long -/
theorem edfBlocking_zero (others : List EdfTask) (h : ∀ o ∈ others, o.seg ≤ 1) (D A : Nat) :
    edfBlocking others D A = 0 := by
  unfold edfBlocking
  apply maxList_zero
  intro x hx
  simp only [List.mem_map, List.mem_filter] at hx
  obtain ⟨o, ⟨ho, _⟩, rfl⟩ := hx
  have := h o ho; omega

/-- limited-preemptive EDF with all segments 1 = fully preemptive EDF -/
theorem edfLimited_seg1_eq_preemptive (a : Arr) (C D : Nat) (others : List EdfTask) (limit : Nat)
    (h : ∀ o ∈ others, o.seg ≤ 1) :
    edfLimited a C D 1 others limit = edfPreemptive (.rbf a (.scalar C)) D others limit := by
  unfold edfLimited edfPreemptive
  rw [edfCore_wb_irrelevant _ _ _ _ _ _ (edfBlocking_zero others h D)]
  simp

/-- limited-preemptive EDF with all segments equal to the WCETs = fully non-preemptive EDF
(the interfering tasks carry `seg` = their WCET in both) -/
theorem edfLimited_segC_eq_nonpreemptive (a : Arr) (C D : Nat) (others : List EdfTask) (limit : Nat)
    (hC : 1 ≤ C) : edfLimited a C D C others limit = edfNonpreemptive a C D others limit := by
  have h1 : C - (C - (C - 1)) = C - 1 := by omega
  have h2 : decide (C < 1 ∨ C < C - 1) = decide (C < 1) := by
    apply decide_eq_decide.2; omega
  simp only [edfLimited, edfNonpreemptive, h1, h2]

/-- floating non-preemptive EDF = limited-preemptive EDF with last segment 1 -/
theorem edfFloating_eq_limited_last1 (a : Arr) (C D : Nat) (others : List EdfTask) (limit : Nat) :
    edfFloating (.rbf a (.scalar C)) D others limit = edfLimited a C D 1 others limit := by
  simp [edfLimited, edfFloating]

/-! ### supplies -/

/-- two supplies with the same `provided_service` and the same `service_time` are
indistinguishable to the fixed-point search … -/
theorem search_congr (s1 s2 : Supply) (h : s1.st? = s2.st?) (off limit : Nat) (w : Nat → Nat) :
    searchWithOffset s1 off limit w = searchWithOffset s2 off limit w := by
  unfold searchWithOffset; rw [h]

/-- … and to every ROS 2 analysis -/
theorem ros_congr (s1 s2 : Supply) (hsbf : s1.sbf = s2.sbf) (hst : s1.st? = s2.st?) :
    (∀ demand limit, rosEventSource s1 demand limit = rosEventSource s2 demand limit) ∧
    (∀ own interf B limit, rosTimer s1 own interf B limit = rosTimer s2 own interf B limit) ∧
    (∀ own interf limit, rosPollingPoint s1 own interf limit = rosPollingPoint s2 own interf limit) ∧
    (∀ last pfx full others limit, rosChain s1 last pfx full others limit = rosChain s2 last pfx full others limit) ∧
    (∀ wl sub limit, rrSubchain s1 wl sub limit = rrSubchain s2 wl sub limit) ∧
    (∀ wl sub limit dbg, bwSubchain s1 wl sub limit dbg = bwSubchain s2 wl sub limit dbg) := by
  have hso : searchWithOffset s1 = searchWithOffset s2 := by
    funext off limit w; exact search_congr s1 s2 hst off limit w
  have hs' : search s1 = search s2 := by
    funext l w; exact search_congr s1 s2 hst 0 l w
  have hb : rosBound s1 = rosBound s2 := by
    funext d b o l; simp only [rosBound, hs', hso]
  refine ⟨?_, ?_, ?_, ?_, ?_, ?_⟩
  · intros; simp only [rosEventSource, hb]
  · intros; simp only [rosTimer, hb]
  · intros; simp only [rosPollingPoint, hb]
  · intros; simp only [rosChain, hb]
  · intros; simp only [rrSubchain, hs', hsbf, hst]
  · intros; simp only [bwSubchain, hs', hsbf, hst]

/-- a dedicated processor, a periodic reservation with budget = period and a constrained
reservation with budget = deadline = period are the same supply -/
theorem full_supplies_eq (P : Nat) (hP : 1 ≤ P) :
    (Supply.periodic P P).sbf = Supply.dedicated.sbf ∧ (Supply.periodic P P).st? = Supply.dedicated.st? ∧
    (Supply.constrained P P P).sbf = Supply.dedicated.sbf ∧
    (Supply.constrained P P P).st? = Supply.dedicated.st? := by
  refine ⟨funext fun x => ?_, funext fun x => ?_, funext fun x => ?_, funext fun x => ?_⟩
  · exact (RTA.C09.full_budget_eq_dedicated P hP x).1
  · exact (RTA.C09.full_budget_eq_dedicated P hP x).2.1
  · exact (RTA.C09.full_budget_eq_dedicated P hP x).2.2.1
  · exact (RTA.C09.full_budget_eq_dedicated P hP x).2.2.2

/-! ### event source vs FIFO -/

/-- the event-source analysis on a dedicated processor equals the FIFO analysis, provided
the demand does not jump right after the busy window by more than the bound (finding K3:
the event-source analysis also examines the offset `A = L`) -/
theorem eventSource_eq_fifo_partial (r : RB) (hwf : r.ArrWF) (hex : r.Exact) (limit L R : Nat)
    (hl : 1 ≤ limit) (hL : naiveSolve (fun x => r.need x) limit = .ok L) (hR : fifoRta r limit = .ok R)
    (hjump : r.need (L + 1) ≤ L + R) :
    rosEventSource .dedicated r limit = .ok R := by
  obtain ⟨S, hmS, hf⟩ := fifo_form r hwf hex limit hl L hL
  rw [hf] at hR
  injection hR with hR
  obtain ⟨S', hS', _, hmS'⟩ := RB.offsetsBelow_spec r hwf hex (L + 1)
  have hLs := (naiveSolve_ok_iff _ _ _).1 hL
  have hmono := RB.need_mono r hwf hex
  -- every FIFO term is at most `L`
  have hterm : ∀ A, A < L → r.need (A + 1) ≤ L := by
    intro A hA
    have := hmono (A + 1) (max L 1) (by omega)
    have := hLs.2.1
    omega
  have hRL : R ≤ L := by
    rw [← hR]
    apply maxList_le_of_forall
    intro x hx
    obtain ⟨A, hA, rfl⟩ := List.mem_map.1 hx
    have := hterm A ((hmS A).1 hA).1
    omega
  have hbusy : ∀ A, A ≤ L → A ≤ r.need (A + 1) := by
    intro A hA
    rcases Nat.eq_zero_or_pos A with h0 | hpos
    · omega
    · have h1 := hLs.2.2 (A - 1) (by omega)
      have h2 := hmono (max (A - 1) 1) (A + 1) (by omega)
      omega
  have hle : ∀ A, A ≤ L → r.need (A + 1) - A ≤ limit := by
    intro A hA
    rcases Nat.lt_or_ge A L with h | h
    · have := hterm A h; omega
    · have : A = L := by omega
      subst this; omega
  unfold rosEventSource rosBound
  rw [search_dedicated_eq_naive _ (need_Mono r hwf hex) limit hl, hL]
  simp only []
  have e : stepOffsetsBelow (r.stepsUpTo (L + 1)) (L + 1) = some S' := hS'
  rw [e]
  simp only [overOffsets]
  have e2 : S'.map (fun A => searchWithOffset .dedicated A limit (fun _ => r.need (A + 1))) =
      S'.map (fun A => Res.ok ((fun A => r.need (A + 1) - A) A)) := by
    apply List.map_congr_left
    intro A hA
    have hAL : A ≤ L := by have := ((hmS' A).1 hA).1; omega
    exact search_const_dedicated A _ limit hl (hbusy A hAL) (hle A hAL)
  rw [e2, maxResponseTime_ok]
  congr 1
  rw [← hR]
  apply Nat.le_antisymm
  · apply maxList_le_of_forall
    intro x hx
    obtain ⟨A, hA, rfl⟩ := List.mem_map.1 hx
    have hA' := (hmS' A).1 hA
    rcases Nat.lt_or_ge A L with h | h
    · exact mem_le_maxList _ _ (List.mem_map.2 ⟨A, (hmS A).2 ⟨h, hA'.2⟩, rfl⟩)
    · have : A = L := by omega
      subst this
      rw [hR]; show r.need (A + 1) - A ≤ R; omega
  · apply maxList_le_of_forall
    intro x hx
    obtain ⟨A, hA, rfl⟩ := List.mem_map.1 hx
    have hA' := (hmS A).1 hA
    exact mem_le_maxList _ _ (List.mem_map.2 ⟨A, (hmS' A).2 ⟨by omega, hA'.2⟩, rfl⟩)

/-- finding K3: without the side condition the two analyses differ (`Curve [4,4,9]`, cost 4) -/
theorem eventSource_ne_fifo_counterexample :
    rosEventSource .dedicated (.rbf (.curve [4, 4, 9]) (.scalar 4)) 100 ≠
      fifoRta (.rbf (.curve [4, 4, 9]) (.scalar 4)) 100 := by
  decide

/-! ### non-preemptive EDF with equal deadlines vs FIFO -/

/-- the other tasks of task `i` in a task set given as (arrival model, WCET) pairs with a
common relative deadline `D` -/
def npEdfOthers (ts : List (Arr × Nat)) (D i : Nat) : List EdfTask :=
  (ts.eraseIdx i).map fun p => { rb := .rbf p.1 (.scalar p.2), D := D, seg := p.2 }

def fifoOfTasks (ts : List (Arr × Nat)) : RB := .agg (ts.map fun p => .rbf p.1 (.scalar p.2))

/-- with equal relative deadlines the largest non-preemptive-EDF bound over all tasks
equals the FIFO bound (when the FIFO analysis converges) -/
theorem max_npEdf_eq_fifo (ts : List (Arr × Nat)) (D limit R : Nat)
    (hwf : ∀ p ∈ ts, p.1.WF ∧ p.1.Exact ∧ 1 ≤ p.2 ∧ 0 < p.1.N 1) (hl : 1 ≤ limit)
    (hR : fifoRta (fifoOfTasks ts) limit = .ok R) :
    (∀ i, i < ts.length → ∃ Ri, edfNonpreemptive (ts.getD i default).1 (ts.getD i default).2 D
        (npEdfOthers ts D i) limit = .ok Ri ∧ Ri ≤ R) ∧
    (ts ≠ [] → ∃ i, i < ts.length ∧ edfNonpreemptive (ts.getD i default).1 (ts.getD i default).2 D
        (npEdfOthers ts D i) limit = .ok R) := by
  sorry

end RTA
