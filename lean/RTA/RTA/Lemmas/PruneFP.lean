import RTA.Lemmas.PruneCore
/-! C06 for FIFO and the four fixed-priority analyses: the pruned, iterative algorithms
return exactly the naive all-offset linear-scan evaluation. -/

namespace RTA
open RTA.Spec

/-- the interfering request bounds are well-formed and exact (so their demand is monotone) -/
def OthersOK (others : List RB) : Prop := ∀ o ∈ others, o.ArrWF ∧ o.Exact

theorem sumNeed_mono (others : List RB) (h : OthersOK others) : MonoN (sumNeed others) := by
  induction others with
  | nil => intro a b _; simp [sumNeed, sumList]
  | cons o os ih =>
    intro a b hab
    have h1 := RB.need_mono o (h o (by simp)).1 (h o (by simp)).2 a b hab
    have h2 := ih (fun o' ho' => h o' (by simp [ho'])) a b hab
    simp only [sumNeed, List.map_cons, sumList] at h2 ⊢
    omega

namespace PruneFPLemmas

theorem search_ne_panic (w : Nat → Nat) (hw : Mono w) (limit : Nat) :
    search .dedicated limit w ≠ .panic :=
  RTA.C08.search_total .dedicated trivial w hw 0 limit (fun _ _ => Nat.zero_le _)

theorem search_limit_zero (w : Nat → Nat) : search .dedicated 0 w = .div 0 0 :=
  RTA.C08.limit_zero_diverges .dedicated w 0

theorem firstErr_ne_panic (rs : List Res) (e : Res) (h : firstErr rs = some e) : e ≠ .panic := by
  induction rs with
  | nil => simp [firstErr] at h
  | cons x xs ih =>
    cases x with
    | ok a => simp only [firstErr] at h; exact ih h
    | panic => simp only [firstErr] at h; exact ih h
    | div o l => simp only [firstErr] at h; injection h with h; subst h; intro h; cases h

theorem maxResponseTime_ne_panic (rs : List Res) (hnp : ∀ x ∈ rs, x ≠ .panic) :
    maxResponseTime rs ≠ .panic := by
  rw [RTA.C08.maxResponseTime_spec rs hnp]
  cases h : firstErr rs with
  | none => intro h; cases h
  | some e => exact firstErr_ne_panic rs e h

/-- the per-offset function of `naiveFp` -/
def fpF (tua : RB) (others : List RB) (B rem limit : Nat) (A : Nat) : Res :=
  match naiveSolve (fun AF => B + (tua.need (A + 1) - rem) + sumNeed others AF) limit with
  | .ok AF => .ok (AF - A + rem)
  | e => e

theorem naiveFp_eq (tua : RB) (others : List RB) (B rem limit : Nat) :
    naiveFp tua others B rem limit =
      match naiveSolve (fun L => B + sumNeed others L + tua.need L) limit with
      | .ok L => naiveMax ((List.range L).map (fpF tua others B rem limit))
      | e => e := rfl

theorem fpF_cases (tua : RB) (others : List RB) (B rem limit : Nat) (A : Nat) :
    (∃ v, fpF tua others B rem limit A = .ok v) ∨ fpF tua others B rem limit A = .div 0 limit := by
  unfold fpF
  rcases naiveSolve_cases (fun AF => B + (tua.need (A + 1) - rem) + sumNeed others AF) limit with
    ⟨r, h⟩ | h
  · rw [h]; exact Or.inl ⟨_, rfl⟩
  · rw [h]; exact Or.inr rfl


/-- the per-offset computation of the model -/
def fpG (tua : RB) (others : List RB) (B rem limit : Nat) (A : Nat) : Res :=
  if tua.need (A + 1) < rem then .panic
  else
    finishFP A rem
      (search .dedicated limit (fun AF => B + (tua.need (A + 1) - rem) + sumNeed others AF))

theorem fpCore_eq (tua : RB) (others : List RB) (B rem limit : Nat) :
    fpCore tua others B rem limit =
      match search .dedicated limit (fun L => B + sumNeed others L + tua.need L) with
      | .ok L => overOffsets (tua.offsetsBelow L) (fpG tua others B rem limit)
      | e => e := rfl

theorem inner_mono (others : List RB) (ho : OthersOK others) (c : Nat) :
    Mono (fun AF => c + sumNeed others AF) := by
  intro a b hab
  have := sumNeed_mono others ho a b hab
  show c + _ ≤ c + _
  omega

theorem outer_mono (tua : RB) (others : List RB) (B : Nat) (hwf : tua.ArrWF) (hex : tua.Exact)
    (ho : OthersOK others) : Mono (fun L => B + sumNeed others L + tua.need L) := by
  intro a b hab
  have := sumNeed_mono others ho a b hab
  have := RB.need_mono tua hwf hex a b hab
  show B + _ + _ ≤ B + _ + _
  omega

/-- step 3: at an increase point below the busy-window length, the model's per-offset
computation is the naive one (no guard fails) -/
theorem fpG_eq_fpF (tua : RB) (others : List RB) (B rem limit : Nat)
    (hwf : tua.ArrWF) (hex : tua.Exact) (ho : OthersOK others) (hl : 1 ≤ limit)
    (hstep : ∀ A, tua.need A < tua.need (A + 1) → tua.need A + rem < tua.need (A + 1))
    (L : Nat) (hL : naiveSolve (fun L => B + sumNeed others L + tua.need L) limit = .ok L)
    (A : Nat) (hA : A < L) (hinc : tua.need A < tua.need (A + 1)) :
    fpG tua others B rem limit A = fpF tua others B rem limit A := by
  have hs := hstep A hinc
  unfold fpG fpF
  rw [if_neg (by omega)]
  rw [search_dedicated_eq_naive _ (inner_mono others ho _) limit hl]
  rcases naiveSolve_cases (fun AF => B + (tua.need (A + 1) - rem) + sumNeed others AF) limit with
    ⟨AF, h⟩ | h
  · rw [h]
    have hle : ¬ AF < A := by
      intro hlt
      have hsol := ((naiveSolve_ok_iff _ _ _).1 h).2.1
      rcases Nat.eq_zero_or_pos AF with h0 | hpos
      · subst h0
        omega
      · have e : max AF 1 = AF := by omega
        rw [e] at hsol
        have hb := naiveSolve_below _ limit L hL AF hpos (by omega)
        have hm := RB.need_mono tua hwf hex AF A (by omega)
        omega
    simp only [finishFP, if_neg hle]
  · rw [h]; rfl


/-- steps 1-3: with a busy window of length `L` the model returns `max_response_time` of
the naive per-offset results over the increase points below `L` -/
theorem fpCore_form (tua : RB) (others : List RB) (B rem limit : Nat)
    (hwf : tua.ArrWF) (hex : tua.Exact) (ho : OthersOK others) (hl : 1 ≤ limit)
    (hstep : ∀ A, tua.need A < tua.need (A + 1) → tua.need A + rem < tua.need (A + 1))
    (L : Nat) (hL : naiveSolve (fun L => B + sumNeed others L + tua.need L) limit = .ok L) :
    ∃ S : List Nat, S.Pairwise (· < ·) ∧
      (∀ A, A ∈ S ↔ (A < L ∧ tua.need A < tua.need (A + 1))) ∧
      fpCore tua others B rem limit = maxResponseTime (S.map (fpF tua others B rem limit)) := by
  obtain ⟨S, hS, hp, hm⟩ := RB.offsetsBelow_spec tua hwf hex L
  refine ⟨S, hp, hm, ?_⟩
  rw [fpCore_eq, search_dedicated_eq_naive _ (outer_mono tua others B hwf hex ho) limit hl, hL]
  simp only [hS, overOffsets]
  congr 1
  apply List.map_congr_left
  intro A hA
  have := (hm A).1 hA
  exact fpG_eq_fpF tua others B rem limit hwf hex ho hl hstep L hL A this.1 this.2

/-- step 4: every offset is dominated by the greatest increase point below it -/
theorem need_succ_eq_of_greatest (r : RB) (hwf : r.ArrWF) (hex : r.Exact) (L : Nat)
    (S : List Nat) (hm : ∀ A, A ∈ S ↔ (A < L ∧ r.need A < r.need (A + 1)))
    (A A' : Nat) (hA : A < L) (hle : A' ≤ A)
    (hg : ∀ B, B ∈ S → B ≤ A → B ≤ A') : r.need (A + 1) = r.need (A' + 1) := by
  apply const_of_no_increase r.need (RB.need_mono r hwf hex) (A' + 1) (A + 1) (by omega)
  intro δ h1 h2 hinc
  have e : δ - 1 + 1 = δ := by omega
  have hmem : δ - 1 ∈ S := (hm (δ - 1)).2 ⟨by omega, by rw [e]; exact hinc⟩
  have := hg (δ - 1) hmem (by omega)
  omega

theorem fpF_dom (tua : RB) (others : List RB) (B rem limit : Nat) (A A' : Nat) (hle : A' ≤ A)
    (he : tua.need (A + 1) = tua.need (A' + 1)) :
    Res.le (fpF tua others B rem limit A) (fpF tua others B rem limit A') := by
  unfold fpF
  rw [he]
  rcases naiveSolve_cases (fun AF => B + (tua.need (A' + 1) - rem) + sumNeed others AF) limit with
    ⟨AF, h⟩ | h
  · rw [h]
    show AF - A + rem ≤ AF - A' + rem
    omega
  · rw [h]
    exact ⟨rfl, rfl⟩

theorem scalar_side (a : Arr) (C : Nat) (hwf : a.WF) (hex : a.Exact) (hC : 1 ≤ C)
    (hpos : 0 < a.N 1) :
    (RB.rbf a (.scalar C)).ArrWF ∧ (RB.rbf a (.scalar C)).Exact ∧
      0 < (RB.rbf a (.scalar C)).need 1 := by
  refine ⟨?_, ?_, ?_⟩
  · simp only [RB.ArrWF]; exact hwf
  · simp only [RB.Exact]; exact ⟨hex, Cost.scalar_strictPos C hC⟩
  · simp only [RB.need, Cost.ofJobs]; exact Nat.mul_pos hC hpos

theorem need_Mono (r : RB) (hwf : r.ArrWF) (hex : r.Exact) : Mono (fun L => r.need L) :=
  fun a b hab => RB.need_mono r hwf hex a b hab

/-- FIFO: with a busy window of length `L`, no guard fails and the model returns the
maximum over the increase points -/
theorem fifo_form (tasks : RB) (hwf : tasks.ArrWF) (hex : tasks.Exact) (limit : Nat)
    (hl : 1 ≤ limit) (L : Nat) (hL : naiveSolve (fun L => tasks.need L) limit = .ok L) :
    ∃ S : List Nat, (∀ A, A ∈ S ↔ (A < L ∧ tasks.need A < tasks.need (A + 1))) ∧
      fifoRta tasks limit = .ok (maxList (S.map fun A => tasks.need (A + 1) - A)) := by
  obtain ⟨S, hS, hp, hm⟩ := RB.offsetsBelow_spec tasks hwf hex L
  refine ⟨S, hm, ?_⟩
  unfold fifoRta
  rw [search_dedicated_eq_naive _ (need_Mono tasks hwf hex) limit hl, hL]
  simp only [hS]
  have hg : S.any (fun A => decide (tasks.need (A + 1) < A)) = false := by
    rw [List.any_eq_false]
    intro A hA
    have hAL := ((hm A).1 hA).1
    simp only [decide_eq_true_eq]
    rcases Nat.eq_zero_or_pos A with h0 | hpos
    · omega
    · have hb := naiveSolve_below _ limit L hL A hpos hAL
      have := RB.need_mono tasks hwf hex A (A + 1) (by omega)
      omega
  rw [hg]
  rfl

end PruneFPLemmas
open PruneFPLemmas

/-- C06, FIFO -/
theorem fifo_eq_naive (tasks : RB) (hwf : tasks.ArrWF) (hex : tasks.Exact) (limit : Nat)
    (hl : 1 ≤ limit) : fifoRta tasks limit = naiveFifo tasks limit := by
  unfold naiveFifo
  rcases naiveSolve_cases (fun L => tasks.need L) limit with ⟨L, hL⟩ | hd
  · obtain ⟨S, hm, he⟩ := fifo_form tasks hwf hex limit hl L hL
    rw [he, hL]
    simp only []
    congr 1
    apply maxList_pruned (fun A => tasks.need (A + 1) - A) L S
    · intro A hA; exact ((hm A).1 hA).1
    · intro A hA
      have hn0 := ((naiveSolve_ok_iff _ _ _).1 hL).2.2 0 (by omega)
      have h0 : 0 ∈ S := (hm 0).2 ⟨by omega, by
        rw [RB.need_zero]
        have : max 0 1 = 1 := rfl
        rw [this] at hn0
        show 0 < tasks.need 1
        omega⟩
      obtain ⟨A', hA'S, hA'le, hg⟩ := exists_greatest_le S h0 A
      refine ⟨A', hA'S, ?_⟩
      have := need_succ_eq_of_greatest tasks hwf hex L S hm A A' hA hA'le hg
      show tasks.need (A + 1) - A ≤ tasks.need (A' + 1) - A'
      omega
  · unfold fifoRta
    rw [search_dedicated_eq_naive _ (need_Mono tasks hwf hex) limit hl, hd]

/-- C06, the common core of the four fixed-priority analyses.  `hstep`: at every increase
point the demand of the task under analysis grows by more than `rem` (for scalar WCET `C`
and `rem < C` this always holds); `hpos`: the task releases something. -/
theorem fpCore_eq_naive (tua : RB) (others : List RB) (B rem limit : Nat)
    (hwf : tua.ArrWF) (hex : tua.Exact) (ho : OthersOK others) (hl : 1 ≤ limit)
    (hpos : 0 < tua.need 1)
    (hstep : ∀ A, tua.need A < tua.need (A + 1) → tua.need A + rem < tua.need (A + 1)) :
    fpCore tua others B rem limit = naiveFp tua others B rem limit := by
  rw [naiveFp_eq]
  rcases naiveSolve_cases (fun L => B + sumNeed others L + tua.need L) limit with ⟨L, hL⟩ | hd
  · obtain ⟨S, hp, hm, he⟩ := fpCore_form tua others B rem limit hwf hex ho hl hstep L hL
    rw [he, hL]
    apply maxResponseTime_pruned (fpF tua others B rem limit) L limit S
    · intro A hA; exact ((hm A).1 hA).1
    · intro A _; exact fpF_cases tua others B rem limit A
    · intro A hA
      have h0 : 0 ∈ S := (hm 0).2 ⟨by omega, by rw [RB.need_zero]; exact hpos⟩
      obtain ⟨A', hA'S, hA'le, hg⟩ := exists_greatest_le S h0 A
      refine ⟨A', hA'S, ?_⟩
      exact fpF_dom tua others B rem limit A A' hA'le
        (need_succ_eq_of_greatest tua hwf hex L S hm A A' hA hA'le hg)
  · rw [fpCore_eq, search_dedicated_eq_naive _ (outer_mono tua others B hwf hex ho) limit hl, hd]

/-- the step hypothesis for a scalar WCET -/
theorem scalar_hstep (a : Arr) (C rem : Nat) (hrem : rem < C) :
    ∀ A, (RB.rbf a (.scalar C)).need A < (RB.rbf a (.scalar C)).need (A + 1) →
      (RB.rbf a (.scalar C)).need A + rem < (RB.rbf a (.scalar C)).need (A + 1) := by
  intro A h
  simp only [RB.need, Cost.ofJobs] at h ⊢
  have hlt : a.N A < a.N (A + 1) := Nat.lt_of_mul_lt_mul_left h
  have h2 : C * (a.N A + 1) ≤ C * a.N (A + 1) := Nat.mul_le_mul_left C hlt
  rw [Nat.mul_succ] at h2
  omega

theorem fpPreemptive_eq_naive (tua : RB) (others : List RB) (limit : Nat)
    (hwf : tua.ArrWF) (hex : tua.Exact) (ho : OthersOK others) (hl : 1 ≤ limit)
    (hpos : 0 < tua.need 1) :
    fpPreemptive tua others limit = naiveFp tua others 0 0 limit :=
  fpCore_eq_naive tua others 0 0 limit hwf hex ho hl hpos (fun _ h => h)

theorem fpNonpreemptive_eq_naive (a : Arr) (C B : Nat) (others : List RB) (limit : Nat)
    (hwf : a.WF) (hex : a.Exact) (hC : 1 ≤ C) (ho : OthersOK others) (hl : 1 ≤ limit)
    (hpos : 0 < a.N 1) :
    fpNonpreemptive a C B others limit = naiveFp (.rbf a (.scalar C)) others B (C - 1) limit := by
  obtain ⟨h1, h2, h3⟩ := scalar_side a C hwf hex hC hpos
  unfold fpNonpreemptive
  rw [decide_eq_false (by omega : ¬ C < 1)]
  exact fpCore_eq_naive _ others B (C - 1) limit h1 h2 ho hl h3 (scalar_hstep a C (C - 1) (by omega))

theorem fpLimited_eq_naive (a : Arr) (C last B : Nat) (others : List RB) (limit : Nat)
    (hwf : a.WF) (hex : a.Exact) (hlast1 : 1 ≤ last) (hlastC : last ≤ C) (ho : OthersOK others)
    (hl : 1 ≤ limit) (hpos : 0 < a.N 1) :
    fpLimited a C last B others limit = naiveFp (.rbf a (.scalar C)) others B (last - 1) limit := by
  obtain ⟨h1, h2, h3⟩ := scalar_side a C hwf hex (by omega) hpos
  unfold fpLimited
  rw [decide_eq_false (by omega : ¬ (last < 1 ∨ C < last - 1))]
  have e : C - (C - (last - 1)) = last - 1 := by omega
  rw [e]
  exact fpCore_eq_naive _ others B (last - 1) limit h1 h2 ho hl h3
    (scalar_hstep a C (last - 1) (by omega))

theorem fpFloating_eq_naive (tua : RB) (B : Nat) (others : List RB) (limit : Nat)
    (hwf : tua.ArrWF) (hex : tua.Exact) (ho : OthersOK others) (hl : 1 ≤ limit)
    (hpos : 0 < tua.need 1) :
    fpFloating tua B others limit = naiveFp tua others B 0 limit :=
  fpCore_eq_naive tua others B 0 limit hwf hex ho hl hpos (fun _ h => h)

/-- no guard fails on well-formed input (used by C20): the analyses never panic -/
theorem fpCore_no_panic (tua : RB) (others : List RB) (B rem limit : Nat)
    (hwf : tua.ArrWF) (hex : tua.Exact) (ho : OthersOK others)
    (hstep : ∀ A, tua.need A < tua.need (A + 1) → tua.need A + rem < tua.need (A + 1)) :
    fpCore tua others B rem limit ≠ .panic := by
  rcases Nat.eq_zero_or_pos limit with h0 | hl
  · subst h0
    rw [fpCore_eq, search_limit_zero]
    intro h; cases h
  · rcases naiveSolve_cases (fun L => B + sumNeed others L + tua.need L) limit with ⟨L, hL⟩ | hd
    · obtain ⟨S, hp, hm, he⟩ := fpCore_form tua others B rem limit hwf hex ho hl hstep L hL
      rw [he]
      apply maxResponseTime_ne_panic
      intro x hx
      rw [List.mem_map] at hx
      obtain ⟨A, _, rfl⟩ := hx
      rcases fpF_cases tua others B rem limit A with ⟨v, h⟩ | h <;> rw [h] <;> intro h' <;> cases h'
    · rw [fpCore_eq, search_dedicated_eq_naive _ (outer_mono tua others B hwf hex ho) limit hl, hd]
      intro h; cases h


theorem fifo_no_panic (tasks : RB) (hwf : tasks.ArrWF) (hex : tasks.Exact) (limit : Nat) :
    fifoRta tasks limit ≠ .panic := by
  rcases Nat.eq_zero_or_pos limit with h0 | hl
  · subst h0
    unfold fifoRta
    rw [search_limit_zero]
    intro h; cases h
  · rw [fifo_eq_naive tasks hwf hex limit hl]
    unfold naiveFifo
    rcases naiveSolve_cases (fun L => tasks.need L) limit with ⟨L, hL⟩ | hd
    · rw [hL]; intro h; cases h
    · rw [hd]; intro h; cases h

end RTA
