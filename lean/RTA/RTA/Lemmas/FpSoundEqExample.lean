import RTA.Lemmas.FpSoundEq
/-! Non-vacuity of `fpe_preemptive_sound`: a concrete system with TWO DIFFERENT TASKS ON THE
SAME PRIORITY LEVEL (not expressible with `FpSetting`, whose field `inj` demands distinct
priorities), a schedule that is legal for the order with ties, and the analysis result. -/

open Finset Classical

namespace RTA.Sched.FpEqExample
open RTA RTA.Spec RTA.Sched RTA.Sched.J

/-- two jobs, one of task 0 and one of task 1, both released at time 0 with cost 1; the tie
is broken AGAINST task 0: job 1 runs in slot 0, job 0 in slot 1 -/
def eqSys : Sys :=
  { n := 2, task := fun k => k, arr := fun _ => 0, cost := fun _ => 1, np := fun _ _ => False,
    sched := fun t => if t = 0 then some 1 else if t = 1 then some 0 else none }

/-- both tasks share priority level 0 -/
def eqPr : ℕ → ℕ := fun _ => 0

/-- request bound of either task: periodic with period 10, WCET 1 -/
def tua : RB := .rbf (.periodic 10) (.scalar 1)

theorem eqSys_sched (t : ℕ) :
    eqSys.sched t = if t = 0 then some 1 else if t = 1 then some 0 else none := rfl

theorem eqSys_svc1 (t : ℕ) : svc eqSys 1 t = min t 1 := by
  induction t with
  | zero => rfl
  | succ t ih =>
    simp only [svc, ih, eqSys_sched]
    by_cases h0 : t = 0
    · subst h0; simp
    · by_cases h1 : t = 1
      · subst h1; simp
      · simp [h0, h1]; omega

theorem eqSys_svc0 (t : ℕ) : svc eqSys 0 t = min (t - 1) 1 := by
  induction t with
  | zero => rfl
  | succ t ih =>
    simp only [svc, ih, eqSys_sched]
    by_cases h0 : t = 0
    · subst h0; simp
    · by_cases h1 : t = 1
      · subst h1; simp
      · simp [h0, h1]; omega

theorem eqSys_legal : JlfpLegal eqSys (hepFPe eqSys eqPr) := by
  refine { valid := ?_, wc := ?_, cont := ?_, prio := ?_ }
  · intro t j h
    rw [eqSys_sched] at h
    split at h
    · injection h with h; subst h
      refine ⟨by simp [eqSys], ?_⟩
      simp only [Pending, eqSys_svc1]
      simp only [eqSys]; omega
    · split at h
      · injection h with h; subst h
        refine ⟨by simp [eqSys], ?_⟩
        simp only [Pending, eqSys_svc0]
        simp only [eqSys]; omega
      · cases h
  · rintro t ⟨k, hk, hp⟩
    have hk2 : k < 2 := hk
    rw [eqSys_sched]
    by_cases h0 : t = 0
    · exact ⟨1, by simp [h0]⟩
    · by_cases h1 : t = 1
      · exact ⟨0, by simp [h1]⟩
      · exfalso
        have hc : eqSys.cost k = 1 := rfl
        obtain ⟨_, hp⟩ := hp
        rw [hc] at hp
        have hk01 : k = 0 ∨ k = 1 := by omega
        rcases hk01 with rfl | rfl
        · rw [eqSys_svc0] at hp; omega
        · rw [eqSys_svc1] at hp; omega
  · intro t k _ _ hnp
    exact absurd hnp (by simp [eqSys])
  · intro t j _
    right
    intro k _ _
    right
    exact ⟨rfl, le_refl _⟩

theorem tua_need (d : ℕ) : tua.need d = ceilDiv d 10 := by
  simp [tua, RB.need, Cost.ofJobs, Arr.N]

theorem tua_need_pos (d : ℕ) (hd : 1 ≤ d) : 1 ≤ tua.need d := by
  rw [tua_need]
  unfold ceilDiv
  split <;> omega

theorem eqSys_setting : FpEqSetting eqSys eqPr 0 tua [tua] 0 := by
  refine { legal := eqSys_legal, w_tua := ?_, w_hep := ?_, blocking := ?_, cost_pos := ?_ }
  · intro t d
    have h1 : 1 ≤ d → 1 ≤ tua.need d := tua_need_pos d
    simp only [workOf, show eqSys.n = 2 from rfl, Finset.sum_range_succ, Finset.sum_range_zero,
      show ∀ k, eqSys.task k = k from fun _ => rfl, show ∀ k, eqSys.arr k = 0 from fun _ => rfl,
      show ∀ k, eqSys.cost k = 1 from fun _ => rfl]
    by_cases hd : 1 ≤ d
    · have := h1 hd
      split_ifs <;> simp_all
    · split_ifs <;> (simp_all; try omega)
  · intro t d
    have hs : sumNeed [tua] d = tua.need d := by simp [sumNeed, sumList]
    rw [hs]
    have h1 : 1 ≤ d → 1 ≤ tua.need d := tua_need_pos d
    simp only [workOf, show eqSys.n = 2 from rfl, Finset.sum_range_succ, Finset.sum_range_zero,
      show ∀ k, eqSys.task k = k from fun _ => rfl, show ∀ k, eqSys.arr k = 0 from fun _ => rfl,
      show ∀ k, eqSys.cost k = 1 from fun _ => rfl, eqPr]
    by_cases hd : 1 ≤ d
    · have := h1 hd
      split_ifs <;> simp_all
    · split_ifs <;> (simp_all; try omega)
  · intro l _ h
    simp [eqPr] at h
  · intro k _
    exact le_refl _

theorem tua_arrWF : tua.ArrWF := by
  simp [tua, RB.ArrWF, Arr.WF]

theorem tua_exact : tua.Exact := by
  simp only [tua, RB.Exact, Arr.Exact, true_and]
  exact Cost.scalar_strictPos 1 (le_refl _)

theorem others_ok : OthersOK [tua] := by
  intro o ho
  simp only [List.mem_singleton] at ho
  subst ho
  exact ⟨tua_arrWF, tua_exact⟩

/-- the analysis result for task 0: interference of one job of the equal-priority task 1 -/
theorem eqSys_result : fpPreemptive tua [tua] 100 = .ok 2 := by
  decide +kernel

/-- `fpe_preemptive_sound` applies: every job of task 0 completes within 2 of its release.
The bound is attained: job 0 is released at 0 and completes exactly at time 2
(`eqSys_attained`), because the tie with the simultaneously released equal-priority job 1
was broken against it. -/
theorem eqSys_meets : ∀ j, j < eqSys.n → eqSys.task j = 0 → MeetsBound eqSys j 2 :=
  fpe_preemptive_sound eqSys eqPr 0 tua [tua] eqSys_setting tua_arrWF tua_exact others_ok
    100 2 eqSys_result

/-- job 0 is not complete at time `release + 1`: the bound 2 is tight for this schedule -/
theorem eqSys_attained : ¬ MeetsBound eqSys 0 1 ∧ MeetsBound eqSys 0 2 := by
  unfold MeetsBound Completed
  rw [eqSys_svc0, eqSys_svc0]
  simp [eqSys]

end RTA.Sched.FpEqExample
