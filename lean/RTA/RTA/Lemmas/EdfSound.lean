import RTA.Lemmas.SchedJlfp
import RTA.Lemmas.SchedFifo
import RTA.Lemmas.PruneEDF
import RTA.Lemmas.FpSound
/-! C02: from the result of the EDF analyses to "every job of the task under analysis
completes within `R` of its release", for every legal EDF schedule. -/

open Finset Classical

namespace RTA.Sched
open RTA RTA.Spec RTA.Sched.J

/-- job-level priority order of EDF: earlier-or-equal absolute deadline (`Dl` = relative
deadline of a task); jobs with equal absolute deadlines are mutually `hep`, so ties may be
broken arbitrarily by the schedule -/
def hepEDF (s : Sys) (Dl : ℕ → ℕ) (a b : ℕ) : Prop :=
  s.arr a + Dl (s.task a) ≤ s.arr b + Dl (s.task b)

/-- the setting of the EDF analyses for task `i` with relative deadline `D`: `ids[m]` is the
task id of `others[m]`; every job belongs to task `i` or to one of the other tasks; per-task
workload bounds; every run of consecutive non-preemptable service levels of a job of
`others[m]` is at most `others[m].seg - 1` long -/
structure EdfSetting (s : Sys) (Dl : ℕ → ℕ) (i D : ℕ) (tua : RB) (others : List EdfTask)
    (ids : List ℕ) : Prop where
  legal : JlfpLegal s (hepEDF s Dl)
  ordered : ∀ a b, a < s.n → b < s.n → s.task a = s.task b → a ≤ b → s.arr a ≤ s.arr b
  ids_len : ids.length = others.length
  ids_ne : ∀ m, m < ids.length → ids.getD m 0 ≠ i
  ids_inj : ∀ m m', m < ids.length → m' < ids.length → ids.getD m 0 = ids.getD m' 0 → m = m'
  task_mem : ∀ k, k < s.n → s.task k = i ∨ ∃ m, m < ids.length ∧ s.task k = ids.getD m 0
  dl_tua : Dl i = D
  dl_other : ∀ m, m < ids.length → Dl (ids.getD m 0) = (others.getD m default).D
  w_tua : ∀ t d, workOf s (fun x => x = i) t (t + d) ≤ tua.need d
  w_other : ∀ m, m < ids.length → ∀ t d,
      workOf s (fun x => x = ids.getD m 0) t (t + d) ≤ (others.getD m default).rb.need d
  seg : ∀ m, m < ids.length → ∀ l, l < s.n → s.task l = ids.getD m 0 →
      ∀ x len, (∀ k, k < len → s.np l (x + k)) → len ≤ (others.getD m default).seg - 1
  cost_pos : ∀ k, k < s.n → 1 ≤ s.cost k

theorem hepEDF_trans (s : Sys) (Dl : ℕ → ℕ) (a b c : ℕ) (h1 : hepEDF s Dl a b) (h2 : hepEDF s Dl b c) :
    hepEDF s Dl a c := by
  sorry

theorem hepEDF_refl (s : Sys) (Dl : ℕ → ℕ) (a : ℕ) : hepEDF s Dl a a := by
  sorry

/-- the whole job set's workload in any window is bounded by the sum of all request bounds -/
theorem edf_total_work (s : Sys) (Dl : ℕ → ℕ) (i D : ℕ) (tua : RB) (others : List EdfTask) (ids : List ℕ)
    (hS : EdfSetting s Dl i D tua others ids) (t d : ℕ) :
    work s t (t + d) ≤ sumNeed (others.map (·.rb)) d + tua.need d := by
  sorry

/-- the offset of a job inside its (priority-level) busy window is smaller than the length
`L` of the longest busy window of the whole task set -/
theorem edf_offset_lt_L (s : Sys) (Dl : ℕ → ℕ) (i D : ℕ) (tua : RB) (others : List EdfTask) (ids : List ℕ)
    (hS : EdfSetting s Dl i D tua others ids) (L : ℕ) (hL : 0 < L)
    (hfix : sumNeed (others.map (·.rb)) L + tua.need L ≤ L)
    (j : ℕ) (hj : j < s.n) (t0 : ℕ) (hq : J.Quiet s (hepEDF s Dl) j t0)
    (ht0 : t0 ≤ s.arr j) (hmax : ∀ t, t0 < t → t ≤ s.arr j → ¬ J.Quiet s (hepEDF s Dl) j t) :
    s.arr j - t0 < L := by
  sorry

/-- C02 for the analyses without a run-to-completion remainder: fully preemptive EDF
(`wb = false`, no non-preemptable states at all) and EDF with floating non-preemptive
regions (`wb = true`) -/
theorem edf_sound_rem0 (s : Sys) (Dl : ℕ → ℕ) (i D : ℕ) (tua : RB) (others : List EdfTask) (ids : List ℕ)
    (hS : EdfSetting s Dl i D tua others ids) (hwf : tua.ArrWF) (hex : tua.Exact)
    (ho : EdfOthersOK others) (wb : Bool) (hnp : wb = false → ∀ l x, ¬ s.np l x)
    (limit R : ℕ) (hR : edfCore tua D others 0 wb limit = .ok R) :
    ∀ j, j < s.n → s.task j = i → MeetsBound s j R := by
  sorry

/-- C02 for the analyses with scalar WCET `C` and remainder `rem < C` (fully
non-preemptive EDF: `rem = C - 1`; limited-preemptive EDF: `rem = last - 1`) -/
theorem edf_sound_scalar (s : Sys) (Dl : ℕ → ℕ) (i D : ℕ) (a : Arr) (C rem : ℕ) (others : List EdfTask)
    (ids : List ℕ) (hS : EdfSetting s Dl i D (.rbf a (.scalar C)) others ids) (hwf : a.WF) (hex : a.Exact)
    (ho : EdfOthersOK others) (hrem : rem < C)
    (hcnt : ∀ t d, cntOf s (fun x => x = i) t (t + d) ≤ a.N d)
    (hown : ∀ j, j < s.n → s.task j = i → s.cost j ≤ C ∧
      ∀ x, max 1 (s.cost j - rem) ≤ x → x < s.cost j → s.np j x)
    (limit R : ℕ) (hR : edfCore (.rbf a (.scalar C)) D others rem true limit = .ok R) :
    ∀ j, j < s.n → s.task j = i → MeetsBound s j R := by
  sorry

/-- the four analyses of the crate as instances -/
theorem edf_preemptive_sound (s : Sys) (Dl : ℕ → ℕ) (i D : ℕ) (tua : RB) (others : List EdfTask) (ids : List ℕ)
    (hS : EdfSetting s Dl i D tua others ids) (hwf : tua.ArrWF) (hex : tua.Exact)
    (ho : EdfOthersOK others) (hnp : ∀ l x, ¬ s.np l x)
    (limit R : ℕ) (hR : edfPreemptive tua D others limit = .ok R) :
    ∀ j, j < s.n → s.task j = i → MeetsBound s j R := by
  sorry

theorem edf_floating_sound (s : Sys) (Dl : ℕ → ℕ) (i D : ℕ) (tua : RB) (others : List EdfTask) (ids : List ℕ)
    (hS : EdfSetting s Dl i D tua others ids) (hwf : tua.ArrWF) (hex : tua.Exact)
    (ho : EdfOthersOK others)
    (limit R : ℕ) (hR : edfFloating tua D others limit = .ok R) :
    ∀ j, j < s.n → s.task j = i → MeetsBound s j R := by
  sorry

theorem edf_nonpreemptive_sound (s : Sys) (Dl : ℕ → ℕ) (i D : ℕ) (a : Arr) (C : ℕ) (others : List EdfTask)
    (ids : List ℕ) (hS : EdfSetting s Dl i D (.rbf a (.scalar C)) others ids) (hwf : a.WF) (hex : a.Exact)
    (ho : EdfOthersOK others)
    (hcnt : ∀ t d, cntOf s (fun x => x = i) t (t + d) ≤ a.N d)
    (hown : ∀ j, j < s.n → s.task j = i → s.cost j ≤ C ∧ ∀ x, 1 ≤ x → x < s.cost j → s.np j x)
    (limit R : ℕ) (hR : edfNonpreemptive a C D others limit = .ok R) :
    ∀ j, j < s.n → s.task j = i → MeetsBound s j R := by
  sorry

theorem edf_limited_sound (s : Sys) (Dl : ℕ → ℕ) (i D : ℕ) (a : Arr) (C last : ℕ) (others : List EdfTask)
    (ids : List ℕ) (hS : EdfSetting s Dl i D (.rbf a (.scalar C)) others ids) (hwf : a.WF) (hex : a.Exact)
    (ho : EdfOthersOK others) (hlast1 : 1 ≤ last) (hlastC : last ≤ C)
    (hcnt : ∀ t d, cntOf s (fun x => x = i) t (t + d) ≤ a.N d)
    (hown : ∀ j, j < s.n → s.task j = i → s.cost j ≤ C ∧
      ∀ x, max 1 (s.cost j - (last - 1)) ≤ x → x < s.cost j → s.np j x)
    (limit R : ℕ) (hR : edfLimited a C D last others limit = .ok R) :
    ∀ j, j < s.n → s.task j = i → MeetsBound s j R := by
  sorry

end RTA.Sched
