import RTA.Lemmas.SchedJlfp
import RTA.Lemmas.SchedFifo
import RTA.Lemmas.PruneEDF
import RTA.Lemmas.FpSound
/-! C02: from the result of the EDF analyses to "every job of the task under analysis
completes within `R` of its release", for every legal EDF schedule. -/

open Finset Classical

namespace RTA.Sched
open RTA RTA.Spec RTA.Sched.J

/-- job-level priority order of EDF: earlier-or-equal absolute deadline (`Dl` = relative
deadline of a task); jobs with equal absolute deadlines are mutually `hep`, so ties may be
broken arbitrarily by the schedule -/
def hepEDF (s : Sys) (Dl : ℕ → ℕ) (a b : ℕ) : Prop :=
  s.arr a + Dl (s.task a) ≤ s.arr b + Dl (s.task b)

/-- the setting of the EDF analyses for task `i` with relative deadline `D`: `ids[m]` is the
task id of `others[m]`; every job belongs to task `i` or to one of the other tasks; per-task
workload bounds; every run of consecutive non-preemptable service levels of a job of
`others[m]` is at most `others[m].seg - 1` long -/
structure EdfSetting (s : Sys) (Dl : ℕ → ℕ) (i D : ℕ) (tua : RB) (others : List EdfTask)
    (ids : List ℕ) : Prop where
  legal : JlfpLegal s (hepEDF s Dl)
  ordered : ∀ a b, a < s.n → b < s.n → s.task a = s.task b → a ≤ b → s.arr a ≤ s.arr b
  ids_len : ids.length = others.length
  ids_ne : ∀ m, m < ids.length → ids.getD m 0 ≠ i
  ids_inj : ∀ m m', m < ids.length → m' < ids.length → ids.getD m 0 = ids.getD m' 0 → m = m'
  task_mem : ∀ k, k < s.n → s.task k = i ∨ ∃ m, m < ids.length ∧ s.task k = ids.getD m 0
  dl_tua : Dl i = D
  dl_other : ∀ m, m < ids.length → Dl (ids.getD m 0) = (others.getD m default).D
  w_tua : ∀ t d, workOf s (fun x => x = i) t (t + d) ≤ tua.need d
  w_other : ∀ m, m < ids.length → ∀ t d,
      workOf s (fun x => x = ids.getD m 0) t (t + d) ≤ (others.getD m default).rb.need d
  seg : ∀ m, m < ids.length → ∀ l, l < s.n → s.task l = ids.getD m 0 →
      ∀ x len, (∀ k, k < len → s.np l (x + k)) → len ≤ (others.getD m default).seg - 1
  cost_pos : ∀ k, k < s.n → 1 ≤ s.cost k

theorem hepEDF_trans (s : Sys) (Dl : ℕ → ℕ) (a b c : ℕ) (h1 : hepEDF s Dl a b) (h2 : hepEDF s Dl b c) :
    hepEDF s Dl a c := by
  unfold hepEDF at *
  omega

theorem hepEDF_refl (s : Sys) (Dl : ℕ → ℕ) (a : ℕ) : hepEDF s Dl a a := by
  unfold hepEDF
  omega

namespace EdfSoundLemmas
open RTA.PruneCoreLemmas RTA.PruneFPLemmas RTA.PruneEDFLemmas FpSoundLemmas

/-! ### sums over job sets and over the list of other tasks -/

theorem cost_le_workP (s : Sys) (p : ℕ → Prop) (j : ℕ) (hj : j < s.n) (hp : p j) :
    s.cost j ≤ J.workP s p := by
  have := workP_split s p j hj hp
  omega

theorem workP_exists_le (s : Sys) (P : ℕ → ℕ → Prop) (N : ℕ) :
    J.workP s (fun k => ∃ m, m < N ∧ P m k) ≤ ∑ m ∈ range N, J.workP s (P m) := by
  induction N with
  | zero =>
    have : J.workP s (fun k => ∃ m, m < 0 ∧ P m k) = 0 := by
      unfold J.workP
      apply sum_eq_zero
      intro k _
      rw [if_neg]
      rintro ⟨m, hm, _⟩
      omega
    rw [this]
    exact Nat.zero_le _
  | succ N ih =>
    rw [sum_range_succ]
    have h1 : J.workP s (fun k => ∃ m, m < N + 1 ∧ P m k)
        ≤ J.workP s (fun k => (∃ m, m < N ∧ P m k) ∨ P N k) := by
      apply workP_mono
      rintro k _ ⟨m, hm, hp⟩
      by_cases h : m = N
      · subst h; exact Or.inr hp
      · exact Or.inl ⟨m, by omega, hp⟩
    exact le_trans h1 (le_trans (workP_or_le s _ _) (Nat.add_le_add_right ih _))

theorem sum_le_sumList {α : Type} [Inhabited α] (l : List α) (g : α → ℕ) (W : ℕ → ℕ)
    (h : ∀ m, m < l.length → W m ≤ g (l.getD m default)) :
    ∑ m ∈ range l.length, W m ≤ sumList (l.map g) := by
  induction l generalizing W with
  | nil => simp [sumList]
  | cons x xs ih =>
    rw [List.length_cons, sum_range_succ']
    simp only [List.map_cons, sumList]
    have h0 := h 0 (by simp)
    have hs := ih (fun m => W (m + 1)) (fun m hm => by
      have := h (m + 1) (by simp only [List.length_cons]; omega)
      simpa using this)
    simp only [List.getD_cons_zero] at h0
    omega

/-- the work of the jobs of the other tasks released in per-task windows `[t, t + dd o)` -/
theorem workP_others_le {s : Sys} {Dl : ℕ → ℕ} {i D : ℕ} {tua : RB} {others : List EdfTask}
    {ids : List ℕ} (hS : EdfSetting s Dl i D tua others ids) (t : ℕ) (dd : EdfTask → ℕ) :
    J.workP s (fun k => ∃ m, m < ids.length ∧ (s.task k = ids.getD m 0 ∧ t ≤ s.arr k ∧
        s.arr k < t + dd (others.getD m default)))
      ≤ sumList (others.map fun o => o.rb.need (dd o)) := by
  refine le_trans (workP_exists_le s _ _) ?_
  rw [hS.ids_len]
  refine sum_le_sumList others (fun o => o.rb.need (dd o)) _ ?_
  intro m hm
  have h := hS.w_other m (by rw [hS.ids_len]; exact hm) t (dd (others.getD m default))
  rw [workOf_eq] at h
  exact h

theorem work_eq_workP (s : Sys) (a b : ℕ) :
    work s a b = J.workP s (fun k => a ≤ s.arr k ∧ s.arr k < b) := by
  unfold work J.workP
  refine sum_congr rfl (fun k _ => ?_)
  split_ifs <;> rfl

end EdfSoundLemmas
open EdfSoundLemmas FpSoundLemmas

/-- the whole job set's workload in any window is bounded by the sum of all request bounds -/
theorem edf_total_work (s : Sys) (Dl : ℕ → ℕ) (i D : ℕ) (tua : RB) (others : List EdfTask) (ids : List ℕ)
    (hS : EdfSetting s Dl i D tua others ids) (t d : ℕ) :
    work s t (t + d) ≤ sumNeed (others.map (·.rb)) d + tua.need d := by
  rw [work_eq_workP]
  have h1 : J.workP s (fun k => t ≤ s.arr k ∧ s.arr k < t + d)
      ≤ J.workP s (fun k => (s.task k = i ∧ t ≤ s.arr k ∧ s.arr k < t + d) ∨
          (∃ m, m < ids.length ∧ (s.task k = ids.getD m 0 ∧ t ≤ s.arr k ∧ s.arr k < t + d))) := by
    apply workP_mono
    rintro k hk ⟨ha, hb⟩
    rcases hS.task_mem k hk with h | ⟨m, hm, h⟩
    · exact Or.inl ⟨h, ha, hb⟩
    · exact Or.inr ⟨m, hm, h, ha, hb⟩
  have h2 := hS.w_tua t d
  rw [workOf_eq] at h2
  have h3 := workP_others_le hS t (fun _ => d)
  have h4 : sumNeed (others.map (·.rb)) d = sumList (others.map fun o => o.rb.need d) := by
    unfold sumNeed
    rw [List.map_map]
    rfl
  rw [h4]
  have := le_trans h1 (le_trans (workP_or_le s _ _) (Nat.add_le_add h2 h3))
  omega

namespace EdfSoundLemmas
open RTA.PruneCoreLemmas RTA.PruneFPLemmas RTA.PruneEDFLemmas FpSoundLemmas

theorem servedP_zero {s : Sys} {hep : ℕ → ℕ → Prop} (hl : JlfpLegal s hep) (p : ℕ → Prop) (t : ℕ)
    (h : ∀ k, p k → t ≤ s.arr k) : J.servedP s p t = 0 := by
  unfold J.servedP
  apply sum_eq_zero
  intro k _
  split
  · exact J.svc_zero_before hl k t (h k ‹_›)
  · rfl

/-- after a globally quiet time `g` there is another one within the next `L` slots whenever
the work released in `[g, g + L)` is at most `L` -/
theorem next_quiet {s : Sys} {hep : ℕ → ℕ → Prop} (hl : JlfpLegal s hep) (g L : ℕ) (hL : 0 < L)
    (hq : RTA.Sched.Quiet s g) (hw : work s g (g + L) ≤ L) :
    ∃ g', g < g' ∧ g' ≤ g + L ∧ RTA.Sched.Quiet s g' := by
  by_contra hno
  push Not at hno
  have hbusy : ∀ u, g ≤ u → u < g + L → ∃ j', s.sched u = some j' ∧ j' < s.n ∧
      (g ≤ s.arr j' ∧ s.arr j' < g + L) := by
    intro u h1 h2
    have hnq := hno (u + 1) (by omega) (by omega)
    unfold RTA.Sched.Quiet at hnq
    push Not at hnq
    obtain ⟨k, hk, hka, hkn⟩ := hnq
    have hkp : Pending s k u := by
      refine ⟨by omega, ?_⟩
      have := J.svc_le_cost hl k (u + 1)
      have := J.svc_mono (s := s) k (show u ≤ u + 1 by omega)
      omega
    obtain ⟨j', hj'⟩ := hl.wc u ⟨k, hk, hkp⟩
    have hv := hl.valid u j' hj'
    refine ⟨j', hj', hv.1, ?_, ?_⟩
    · by_contra hlt
      have := J.done_mono hl j' h1 (hq j' hv.1 (by omega))
      have := hv.2.2
      omega
    · have := hv.2.1
      omega
  have hb := J.servedP_busy (s := s) (fun k => g ≤ s.arr k ∧ s.arr k < g + L) g L hbusy
  rw [servedP_zero hl _ g (fun k hk => hk.1)] at hb
  have h1 := J.servedP_le_workP hl (fun k => g ≤ s.arr k ∧ s.arr k < g + L) (g + L)
  rw [work_eq_workP] at hw
  have heq : J.servedP s (fun k => g ≤ s.arr k ∧ s.arr k < g + L) (g + L)
      = J.workP s (fun k => g ≤ s.arr k ∧ s.arr k < g + L) := by omega
  apply hno (g + L) (by omega) (le_refl _)
  intro k hk hka
  by_cases hlt : s.arr k < g
  · exact J.done_mono hl k (by omega) (hq k hk hlt)
  · exact J.all_done_of_served_eq hl _ _ heq k hk ⟨by omega, hka⟩

end EdfSoundLemmas

/-- the offset of a job inside its (priority-level) busy window is smaller than the length
`L` of the longest busy window of the whole task set -/
theorem edf_offset_lt_L (s : Sys) (Dl : ℕ → ℕ) (i D : ℕ) (tua : RB) (others : List EdfTask) (ids : List ℕ)
    (hS : EdfSetting s Dl i D tua others ids) (L : ℕ) (hL : 0 < L)
    (hfix : sumNeed (others.map (·.rb)) L + tua.need L ≤ L)
    (j : ℕ) (hj : j < s.n) (t0 : ℕ) (hq : J.Quiet s (hepEDF s Dl) j t0)
    (ht0 : t0 ≤ s.arr j) (hmax : ∀ t, t0 < t → t ≤ s.arr j → ¬ J.Quiet s (hepEDF s Dl) j t) :
    s.arr j - t0 < L := by
  have hl := hS.legal
  have hq0 : RTA.Sched.Quiet s 0 := by intro k _ h; omega
  have hgq : RTA.Sched.Quiet s (Nat.findGreatest (RTA.Sched.Quiet s) t0) :=
    Nat.findGreatest_spec (P := RTA.Sched.Quiet s) (Nat.zero_le _) hq0
  have hgle : Nat.findGreatest (RTA.Sched.Quiet s) t0 ≤ t0 := Nat.findGreatest_le _
  have hgmax : ∀ t, Nat.findGreatest (RTA.Sched.Quiet s) t0 < t → t ≤ t0 → ¬ RTA.Sched.Quiet s t :=
    fun t h1 h2 => Nat.findGreatest_is_greatest h1 h2
  generalize Nat.findGreatest (RTA.Sched.Quiet s) t0 = g at hgq hgle hgmax
  have hw : work s g (g + L) ≤ L := le_trans (edf_total_work s Dl i D tua others ids hS g L) hfix
  obtain ⟨g', h1, h2, h3⟩ := next_quiet hl g L hL hgq hw
  have hJ : J.Quiet s (hepEDF s Dl) j g' := fun k hk _ ha => h3 k hk ha
  have h4 : t0 < g' := by
    by_contra h
    exact hgmax g' h1 (by omega) h3
  have h5 : s.arr j < g' := by
    by_contra h
    exact hmax g' h4 (by omega) hJ
  omega

namespace EdfSoundLemmas
open RTA.PruneCoreLemmas RTA.PruneFPLemmas RTA.PruneEDFLemmas FpSoundLemmas

/-! ### reading the result of the analysis -/

/-- what `Ok(R)` of the common core of the EDF analyses means -/
theorem edfCore_extract (tua : RB) (D : ℕ) (others : List EdfTask) (rem : ℕ) (wb : Bool)
    (limit R : ℕ) (hwf : tua.ArrWF) (hex : tua.Exact) (ho : EdfOthersOK others)
    (hpos : 0 < tua.need 1)
    (hstep : ∀ A, tua.need A < tua.need (A + 1) → tua.need A + rem < tua.need (A + 1))
    (hR : edfCore tua D others rem wb limit = .ok R) :
    ∃ L, 0 < L ∧ sumNeed (others.map (·.rb)) L + tua.need L ≤ L ∧
      ∀ A, A < L → ∃ AF, (if wb then edfBlocking others D A else 0) + (tua.need (A + 1) - rem) +
          edfHepWorkload others D A (max AF 1) ≤ AF ∧ AF - A + rem ≤ R := by
  have hl : 1 ≤ limit := by
    by_contra h0
    have : limit = 0 := by omega
    subst this
    rw [edfCore_eq, search_limit_zero] at hR
    cases hR
  rw [edfCore_eq_naive tua D others rem wb limit hwf hex ho hl hpos hstep, naiveEdf_eq] at hR
  rcases naiveSolve_cases (fun L => sumNeed (others.map (·.rb)) L + tua.need L) limit with
    ⟨L, hL⟩ | hd
  · rw [hL] at hR
    simp only at hR
    have hLs : sumNeed (others.map (·.rb)) (max L 1) + tua.need (max L 1) ≤ L :=
      ((naiveSolve_ok_iff _ _ _).1 hL).2.1
    have hLpos : 0 < L := by
      by_contra h0
      have : L = 0 := by omega
      subst this
      have e : max 0 1 = 1 := rfl
      rw [e] at hLs
      omega
    have e : max L 1 = L := by omega
    rw [e] at hLs
    refine ⟨L, hLpos, hLs, ?_⟩
    intro A hA
    obtain ⟨v, hv, hvR⟩ := naiveMax_ok_inv _ R hR (edfPer tua D others rem wb limit A)
      (List.mem_map.2 ⟨A, List.mem_range.2 hA, rfl⟩)
    unfold edfPer at hv
    rcases naiveSolve_cases (edfRhs tua D others rem wb A) limit with ⟨AF, h⟩ | h
    · rw [h] at hv
      injection hv with hv
      have hs : edfRhs tua D others rem wb A (max AF 1) ≤ AF :=
        ((naiveSolve_ok_iff _ _ _).1 h).2.1
      unfold edfRhs at hs
      exact ⟨AF, hs, by omega⟩
    · rw [h] at hv
      cases hv
  · rw [hd] at hR
    cases hR

/-- with a failing parameter guard the analysis never returns `Ok` -/
theorem edfCore_guard_ne_ok (tua : RB) (D : ℕ) (others : List EdfTask) (rem : ℕ) (wb : Bool)
    (limit R : ℕ) : edfCore tua D others rem wb limit true ≠ .ok R := by
  rw [edfCore_eq]
  cases search .dedicated limit (fun L => sumNeed (others.map (·.rb)) L + tua.need L) with
  | ok L => intro h; simp at h
  | div o l => intro h; cases h
  | panic => intro h; cases h

/-! ### the hypotheses of the abstract busy-window theorem -/

theorem getD_mem (others : List EdfTask) (m : ℕ) (hm : m < others.length) :
    others.getD m default ∈ others := by
  rw [← List.getElem_eq_getD (h := hm) default]
  exact List.getElem_mem hm

/-- the blocking hypothesis of `blocked_bound` / `reach_rt` -/
theorem edf_Hb {s : Sys} {Dl : ℕ → ℕ} {i D : ℕ} {tua : RB} {others : List EdfTask} {ids : List ℕ}
    (hS : EdfSetting s Dl i D tua others ids) (wb : Bool) (hnp : wb = false → ∀ l x, ¬ s.np l x)
    (j : ℕ) (hji : s.task j = i) (t0 : ℕ) (ht0 : t0 ≤ s.arr j) :
    ∀ l < s.n, ¬ hepEDF s Dl l j → s.arr l < t0 → ∀ x len, (∀ i < len, s.np l (x + i)) →
      len ≤ (if wb then edfBlocking others D (s.arr j - t0) else 0) := by
  intro l hl hn harr x len h
  cases wb with
  | false =>
    simp only [Bool.false_eq_true, if_false]
    by_contra hlen
    exact hnp rfl l (x + 0) (h 0 (by omega))
  | true =>
    simp only [if_true]
    unfold hepEDF at hn
    rw [hji, hS.dl_tua] at hn
    rcases hS.task_mem l hl with hi | ⟨m, hm, hlm⟩
    · rw [hi, hS.dl_tua] at hn
      omega
    · rw [hlm, hS.dl_other m hm] at hn
      have hm' : m < others.length := by rw [← hS.ids_len]; exact hm
      have hseg := hS.seg m hm l hl hlm x len h
      refine le_trans hseg ?_
      unfold edfBlocking
      apply le_maxList_of_mem
      rw [List.mem_map]
      refine ⟨others.getD m default, ?_, rfl⟩
      rw [List.mem_filter]
      refine ⟨getD_mem others m hm', ?_⟩
      simp only [Bool.and_eq_true, decide_eq_true_eq]
      refine ⟨by omega, ?_⟩
      have h1 := hS.w_other m hm (s.arr l) 1
      rw [workOf_eq] at h1
      have h2 := cost_le_workP s
        (fun k => s.task k = ids.getD m 0 ∧ s.arr l ≤ s.arr k ∧ s.arr k < s.arr l + 1) l hl
        ⟨hlm, le_refl _, by omega⟩
      have := hS.cost_pos l hl
      exact lt_of_lt_of_le (by omega) (le_trans h2 h1)

/-- `reach_rt` for EDF: `X` bounds the work of the other jobs of the task released in the
busy window up to the release of `j`, plus `rt` -/
theorem edf_reach {s : Sys} {Dl : ℕ → ℕ} {i D : ℕ} {tua : RB} {others : List EdfTask} {ids : List ℕ}
    (hS : EdfSetting s Dl i D tua others ids) (wb : Bool) (hnp : wb = false → ∀ l x, ¬ s.np l x)
    (j : ℕ) (hj : j < s.n) (hji : s.task j = i)
    (t0 : ℕ) (hq : J.Quiet s (hepEDF s Dl) j t0) (ht0 : t0 ≤ s.arr j)
    (hmax : ∀ t, t0 < t → t ≤ s.arr j → ¬ J.Quiet s (hepEDF s Dl) j t)
    (rt AF X : ℕ) (hrt : rt ≤ s.cost j)
    (hown : J.workP s (fun k => k ≠ j ∧ (s.task k = i ∧ t0 ≤ s.arr k ∧ s.arr k < s.arr j + 1))
      + rt ≤ X)
    (hAF : (if wb then edfBlocking others D (s.arr j - t0) else 0) + X +
      edfHepWorkload others D (s.arr j - t0) AF ≤ AF) : rt ≤ svc s j (t0 + AF) := by
  have hw : J.workP s (fun k => k ≠ j ∧ (hepEDF s Dl k j ∧ t0 ≤ s.arr k ∧ s.arr k < t0 + AF))
      ≤ (X - rt) + edfHepWorkload others D (s.arr j - t0) AF := by
    have h1 : J.workP s (fun k => k ≠ j ∧ (hepEDF s Dl k j ∧ t0 ≤ s.arr k ∧ s.arr k < t0 + AF))
        ≤ J.workP s (fun k =>
            (k ≠ j ∧ (s.task k = i ∧ t0 ≤ s.arr k ∧ s.arr k < s.arr j + 1)) ∨
            (∃ m, m < ids.length ∧ (s.task k = ids.getD m 0 ∧ t0 ≤ s.arr k ∧ s.arr k < t0 +
              (fun o : EdfTask => min AF ((s.arr j - t0 + 1 + D) - o.D)) (others.getD m default)))) := by
      apply workP_mono
      rintro k hk ⟨hkj, hh, ha, hb⟩
      unfold hepEDF at hh
      rw [hji, hS.dl_tua] at hh
      rcases hS.task_mem k hk with hi | ⟨m, hm, hkm⟩
      · left
        rw [hi, hS.dl_tua] at hh
        exact ⟨hkj, hi, ha, by omega⟩
      · right
        rw [hkm, hS.dl_other m hm] at hh
        refine ⟨m, hm, hkm, ha, ?_⟩
        show s.arr k < t0 + min AF ((s.arr j - t0 + 1 + D) - (others.getD m default).D)
        omega
    have h4 := workP_others_le hS t0
      (fun o : EdfTask => min AF ((s.arr j - t0 + 1 + D) - o.D))
    have h5 : sumList (others.map fun o => o.rb.need
        ((fun o : EdfTask => min AF ((s.arr j - t0 + 1 + D) - o.D)) o))
        = edfHepWorkload others D (s.arr j - t0) AF := rfl
    rw [h5] at h4
    exact le_trans h1 (le_trans (workP_or_le s _ _) (Nat.add_le_add (by omega) h4))
  exact reach_rt hS.legal (hepEDF_trans s Dl) (hepEDF_refl s Dl) j hj t0 hq ht0 hmax rt _ _ AF hrt
    (edf_Hb hS wb hnp j hji t0 ht0) hw (by omega)

/-- the common part of the soundness proofs: `j` reaches service level `rt` at a time `t`
with `t + rem ≤ arr j + R` -/
theorem edf_sound_core {s : Sys} {Dl : ℕ → ℕ} {i D : ℕ} {tua : RB} {others : List EdfTask}
    {ids : List ℕ} (hS : EdfSetting s Dl i D tua others ids) (hwf : tua.ArrWF) (hex : tua.Exact)
    (ho : EdfOthersOK others) (wb : Bool) (hnp : wb = false → ∀ l x, ¬ s.np l x)
    (rem limit R : ℕ)
    (hstep : ∀ A, tua.need A < tua.need (A + 1) → tua.need A + rem < tua.need (A + 1))
    (hR : edfCore tua D others rem wb limit = .ok R)
    (j : ℕ) (hj : j < s.n) (hji : s.task j = i) (rt : ℕ) (hrt : rt ≤ s.cost j) (hrt0 : 0 < rt)
    (hown : ∀ t0, t0 ≤ s.arr j →
      J.workP s (fun k => k ≠ j ∧ (s.task k = i ∧ t0 ≤ s.arr k ∧ s.arr k < s.arr j + 1))
        + rt + rem ≤ tua.need (s.arr j - t0 + 1)) :
    ∃ t, rt ≤ svc s j t ∧ t + rem ≤ s.arr j + R := by
  have hpos : 0 < tua.need 1 := by
    have h1 := hS.w_tua (s.arr j) 1
    rw [workOf_eq] at h1
    have h2 := cost_le_workP s (fun k => s.task k = i ∧ s.arr j ≤ s.arr k ∧ s.arr k < s.arr j + 1)
      j hj ⟨hji, le_refl _, by omega⟩
    have := hS.cost_pos j hj
    omega
  obtain ⟨L, hLpos, hfix, hall⟩ :=
    edfCore_extract tua D others rem wb limit R hwf hex ho hpos hstep hR
  obtain ⟨t0, hq, ht0, hmax⟩ := exists_t0 s (hepEDF s Dl) j
  have hA := edf_offset_lt_L s Dl i D tua others ids hS L hLpos hfix j hj t0 hq ht0 hmax
  obtain ⟨AF, hAF, hAFR⟩ := hall (s.arr j - t0) hA
  have ho' := hown t0 ht0
  have hAF1 : 1 ≤ AF := by omega
  have e : max AF 1 = AF := by omega
  rw [e] at hAF
  have hr := edf_reach hS wb hnp j hj hji t0 hq ht0 hmax rt AF
    (tua.need (s.arr j - t0 + 1) - rem) hrt (by omega) hAF
  exact ⟨t0 + AF, hr, by omega⟩

end EdfSoundLemmas

/-- C02 for the analyses without a run-to-completion remainder: fully preemptive EDF
(`wb = false`, no non-preemptable states at all) and EDF with floating non-preemptive
regions (`wb = true`) -/
theorem edf_sound_rem0 (s : Sys) (Dl : ℕ → ℕ) (i D : ℕ) (tua : RB) (others : List EdfTask) (ids : List ℕ)
    (hS : EdfSetting s Dl i D tua others ids) (hwf : tua.ArrWF) (hex : tua.Exact)
    (ho : EdfOthersOK others) (wb : Bool) (hnp : wb = false → ∀ l x, ¬ s.np l x)
    (limit R : ℕ) (hR : edfCore tua D others 0 wb limit = .ok R) :
    ∀ j, j < s.n → s.task j = i → MeetsBound s j R := by
  intro j hj hji
  have hl := hS.legal
  obtain ⟨t, ht, htR⟩ := edf_sound_core hS hwf hex ho wb hnp 0 limit R (fun _ h => h) hR j hj hji
    (s.cost j) (le_refl _) (hS.cost_pos j hj) (by
      intro t0 ht0
      have h1 := hS.w_tua t0 (s.arr j - t0 + 1)
      rw [workOf_eq] at h1
      have e : t0 + (s.arr j - t0 + 1) = s.arr j + 1 := by omega
      rw [e] at h1
      have h2 := workP_split s (fun k => s.task k = i ∧ t0 ≤ s.arr k ∧ s.arr k < s.arr j + 1)
        j hj ⟨hji, ht0, by omega⟩
      omega)
  have := J.svc_le_cost hl j t
  exact J.done_mono hl j (show t ≤ s.arr j + R by omega) (by omega)

/-- C02 for the analyses with scalar WCET `C` and remainder `rem < C` (fully
non-preemptive EDF: `rem = C - 1`; limited-preemptive EDF: `rem = last - 1`) -/
theorem edf_sound_scalar (s : Sys) (Dl : ℕ → ℕ) (i D : ℕ) (a : Arr) (C rem : ℕ) (others : List EdfTask)
    (ids : List ℕ) (hS : EdfSetting s Dl i D (.rbf a (.scalar C)) others ids) (hwf : a.WF) (hex : a.Exact)
    (ho : EdfOthersOK others) (hrem : rem < C)
    (hcnt : ∀ t d, cntOf s (fun x => x = i) t (t + d) ≤ a.N d)
    (hown : ∀ j, j < s.n → s.task j = i → s.cost j ≤ C ∧
      ∀ x, max 1 (s.cost j - rem) ≤ x → x < s.cost j → s.np j x)
    (limit R : ℕ) (hR : edfCore (.rbf a (.scalar C)) D others rem true limit = .ok R) :
    ∀ j, j < s.n → s.task j = i → MeetsBound s j R := by
  intro j hj hji
  have hl := hS.legal
  have hC : 1 ≤ C := by omega
  have hwf' : (RB.rbf a (.scalar C)).ArrWF := by simp only [RB.ArrWF]; exact hwf
  have hex' : (RB.rbf a (.scalar C)).Exact := by
    simp only [RB.Exact]; exact ⟨hex, Cost.scalar_strictPos C hC⟩
  have hcj := hS.cost_pos j hj
  obtain ⟨hcC, hnp⟩ := hown j hj hji
  obtain ⟨t, ht, htR⟩ := edf_sound_core hS hwf' hex' ho true (fun h => by cases h) rem limit R
    (scalar_hstep a C rem hrem) hR
    j hj hji (max 1 (s.cost j - rem)) (by omega) (by omega) (by
      intro t0 ht0
      have hneed : (RB.rbf a (.scalar C)).need (s.arr j - t0 + 1) = C * a.N (s.arr j - t0 + 1) := by
        simp only [RB.need, Cost.ofJobs]
      rw [hneed]
      have h1 := hcnt t0 (s.arr j - t0 + 1)
      rw [cntOf_eq] at h1
      have e : t0 + (s.arr j - t0 + 1) = s.arr j + 1 := by omega
      rw [e] at h1
      have h2 := cntP_split s (fun k => s.task k = i ∧ t0 ≤ s.arr k ∧ s.arr k < s.arr j + 1)
        j hj ⟨hji, ht0, by omega⟩
      have h3 := workP_le_mul_cntP s
        (fun k => k ≠ j ∧ (s.task k = i ∧ t0 ≤ s.arr k ∧ s.arr k < s.arr j + 1)) C
        (fun k hk hp => (hown k hk hp.2.1).1)
      have h4 : C * (cntP s (fun k => k ≠ j ∧ (s.task k = i ∧ t0 ≤ s.arr k ∧ s.arr k < s.arr j + 1)) + 1)
          ≤ C * a.N (s.arr j - t0 + 1) := Nat.mul_le_mul_left C (by omega)
      rw [Nat.mul_succ] at h4
      omega)
  have hrun := run_to_completion hl j (max 1 (s.cost j - rem)) hnp (by omega) t ht
  exact J.done_mono hl j (show t + (s.cost j - max 1 (s.cost j - rem)) ≤ s.arr j + R by omega) hrun

/-- the four analyses of the crate as instances -/
theorem edf_preemptive_sound (s : Sys) (Dl : ℕ → ℕ) (i D : ℕ) (tua : RB) (others : List EdfTask) (ids : List ℕ)
    (hS : EdfSetting s Dl i D tua others ids) (hwf : tua.ArrWF) (hex : tua.Exact)
    (ho : EdfOthersOK others) (hnp : ∀ l x, ¬ s.np l x)
    (limit R : ℕ) (hR : edfPreemptive tua D others limit = .ok R) :
    ∀ j, j < s.n → s.task j = i → MeetsBound s j R := by
  unfold edfPreemptive at hR
  exact edf_sound_rem0 s Dl i D tua others ids hS hwf hex ho false (fun _ => hnp) limit R hR

theorem edf_floating_sound (s : Sys) (Dl : ℕ → ℕ) (i D : ℕ) (tua : RB) (others : List EdfTask) (ids : List ℕ)
    (hS : EdfSetting s Dl i D tua others ids) (hwf : tua.ArrWF) (hex : tua.Exact)
    (ho : EdfOthersOK others)
    (limit R : ℕ) (hR : edfFloating tua D others limit = .ok R) :
    ∀ j, j < s.n → s.task j = i → MeetsBound s j R := by
  unfold edfFloating at hR
  exact edf_sound_rem0 s Dl i D tua others ids hS hwf hex ho true (fun h => by cases h) limit R hR

theorem edf_nonpreemptive_sound (s : Sys) (Dl : ℕ → ℕ) (i D : ℕ) (a : Arr) (C : ℕ) (others : List EdfTask)
    (ids : List ℕ) (hS : EdfSetting s Dl i D (.rbf a (.scalar C)) others ids) (hwf : a.WF) (hex : a.Exact)
    (ho : EdfOthersOK others)
    (hcnt : ∀ t d, cntOf s (fun x => x = i) t (t + d) ≤ a.N d)
    (hown : ∀ j, j < s.n → s.task j = i → s.cost j ≤ C ∧ ∀ x, 1 ≤ x → x < s.cost j → s.np j x)
    (limit R : ℕ) (hR : edfNonpreemptive a C D others limit = .ok R) :
    ∀ j, j < s.n → s.task j = i → MeetsBound s j R := by
  unfold edfNonpreemptive at hR
  by_cases hC : C < 1
  · rw [decide_eq_true hC] at hR
    exact absurd hR (edfCore_guard_ne_ok _ _ _ _ _ _ _)
  · rw [decide_eq_false hC] at hR
    refine edf_sound_scalar s Dl i D a C (C - 1) others ids hS hwf hex ho (by omega) hcnt ?_ limit R hR
    intro j hj hji
    obtain ⟨h1, h2⟩ := hown j hj hji
    exact ⟨h1, fun x hx hx' => h2 x (by omega) hx'⟩

theorem edf_limited_sound (s : Sys) (Dl : ℕ → ℕ) (i D : ℕ) (a : Arr) (C last : ℕ) (others : List EdfTask)
    (ids : List ℕ) (hS : EdfSetting s Dl i D (.rbf a (.scalar C)) others ids) (hwf : a.WF) (hex : a.Exact)
    (ho : EdfOthersOK others) (hlast1 : 1 ≤ last) (hlastC : last ≤ C)
    (hcnt : ∀ t d, cntOf s (fun x => x = i) t (t + d) ≤ a.N d)
    (hown : ∀ j, j < s.n → s.task j = i → s.cost j ≤ C ∧
      ∀ x, max 1 (s.cost j - (last - 1)) ≤ x → x < s.cost j → s.np j x)
    (limit R : ℕ) (hR : edfLimited a C D last others limit = .ok R) :
    ∀ j, j < s.n → s.task j = i → MeetsBound s j R := by
  unfold edfLimited at hR
  rw [decide_eq_false (by omega : ¬ (last < 1 ∨ C < last - 1))] at hR
  have e : C - (C - (last - 1)) = last - 1 := by omega
  rw [e] at hR
  exact edf_sound_scalar s Dl i D a C (last - 1) others ids hS hwf hex ho (by omega) hcnt hown limit R hR

end RTA.Sched
