import RTA.Lemmas.FpSound
/-! C01 with equal priorities allowed: the fixed-priority soundness theorems of `FpSound` for
task sets in which several tasks may share a priority level (ties among equal-priority jobs
broken by release time, simultaneous releases arbitrarily). -/

open Finset Classical

namespace RTA.Sched
open RTA RTA.Spec RTA.Sched.J

/-- job-level priority order of FP scheduling when several tasks may share a priority level:
strictly higher task priority (smaller `pr`), or equal priority level and earlier-or-equal release;
equal-priority jobs released simultaneously are mutually `hep`, so such ties may be broken
arbitrarily by the schedule -/
def hepFPe (s : Sys) (pr : ℕ → ℕ) (a b : ℕ) : Prop :=
  pr (s.task a) < pr (s.task b) ∨ (pr (s.task a) = pr (s.task b) ∧ s.arr a ≤ s.arr b)

/-- the setting of the fixed-priority analyses for task `i` when priorities need not be
distinct: as `FpSetting`, but `others` bounds the workload of all other tasks of higher or
equal priority -/
structure FpEqSetting (s : Sys) (pr : ℕ → ℕ) (i : ℕ) (tua : RB) (others : List RB) (B : ℕ) : Prop where
  legal : JlfpLegal s (hepFPe s pr)
  w_tua : ∀ t d, workOf s (fun x => x = i) t (t + d) ≤ tua.need d
  /-- `others` bounds the workload of ALL OTHER tasks of higher OR EQUAL priority -/
  w_hep : ∀ t d, workOf s (fun x => pr x ≤ pr i ∧ x ≠ i) t (t + d) ≤ sumNeed others d
  blocking : ∀ l, l < s.n → pr i < pr (s.task l) → ∀ x len, (∀ k, k < len → s.np l (x + k)) → len ≤ B
  cost_pos : ∀ k, k < s.n → 1 ≤ s.cost k

theorem hepFPe_trans (s : Sys) (pr : ℕ → ℕ) (a b c : ℕ) (h1 : hepFPe s pr a b) (h2 : hepFPe s pr b c) :
    hepFPe s pr a c := by
  unfold hepFPe at *
  omega

theorem hepFPe_refl (s : Sys) (pr : ℕ → ℕ) (a : ℕ) : hepFPe s pr a a := by
  right; exact ⟨rfl, le_refl _⟩

open FpSoundLemmas RTA.PruneCoreLemmas RTA.PruneFPLemmas

namespace FpSoundEqLemmas

/-- the blocking hypothesis of `blocked_bound` / `reach_rt` -/
theorem fpe_Hb {s : Sys} {pr : ℕ → ℕ} {i : ℕ} {tua : RB} {others : List RB} {B : ℕ}
    (hS : FpEqSetting s pr i tua others B) (j : ℕ) (_hj : j < s.n) (hji : s.task j = i)
    (t0 : ℕ) (ht0 : t0 ≤ s.arr j) :
    ∀ l < s.n, ¬ hepFPe s pr l j → s.arr l < t0 → ∀ x len, (∀ i < len, s.np l (x + i)) → len ≤ B := by
  intro l hl hn harr x len h
  refine hS.blocking l hl ?_ x len h
  unfold hepFPe at hn
  rw [hji] at hn
  omega

end FpSoundEqLemmas
open FpSoundEqLemmas

/-- the busy window of a job of task `i` is shorter than the busy-window bound `L`: if `t0`
is the last quiet time at or before the release of `j` then `arr j - t0 < L` whenever
`B + Σ_hp rbf(L) + rbf_tua(L) ≤ L` and `0 < L` -/
theorem fpe_offset_lt_L (s : Sys) (pr : ℕ → ℕ) (i : ℕ) (tua : RB) (others : List RB) (B : ℕ)
    (hS : FpEqSetting s pr i tua others B) (L : ℕ) (hL : 0 < L)
    (hfix : B + sumNeed others L + tua.need L ≤ L)
    (j : ℕ) (hj : j < s.n) (hji : s.task j = i) (t0 : ℕ) (hq : Quiet s (hepFPe s pr) j t0)
    (ht0 : t0 ≤ s.arr j) (hmax : ∀ t, t0 < t → t ≤ s.arr j → ¬ Quiet s (hepFPe s pr) j t) :
    s.arr j - t0 < L := by
  by_contra hge
  have hge : t0 + L ≤ s.arr j := by omega
  have hl := hS.legal
  have hbusy : ∀ u, t0 ≤ u → u < t0 + L → ∃ k < s.n, hepFPe s pr k j ∧ Pending s k u := by
    intro u h1 h2
    have hnq := hmax (u+1) (by omega) (by omega)
    unfold Quiet at hnq
    push Not at hnq
    obtain ⟨k, hk, hkh, hka, hkn⟩ := hnq
    refine ⟨k, hk, hkh, by omega, ?_⟩
    have := svc_le_cost hl k (u+1)
    have := svc_mono (s := s) k (show u ≤ u + 1 by omega)
    omega
  obtain ⟨e, he1, he2, hserve⟩ := blocked_bound hl (hepFPe_trans s pr) j t0 (t0 + L) B hq hbusy
    (fpe_Hb hS j hj hji t0 ht0)
  -- the work of the higher-or-equal-priority jobs released in the window
  have hwork : J.workP s (fun k => hepFPe s pr k j ∧ t0 ≤ s.arr k ∧ s.arr k < t0 + L)
      ≤ tua.need L + sumNeed others L := by
    have h1 : J.workP s (fun k => hepFPe s pr k j ∧ t0 ≤ s.arr k ∧ s.arr k < t0 + L)
        ≤ J.workP s (fun k => (s.task k = i ∧ t0 ≤ s.arr k ∧ s.arr k < t0 + L) ∨
            ((pr (s.task k) ≤ pr i ∧ s.task k ≠ i) ∧ t0 ≤ s.arr k ∧ s.arr k < t0 + L)) := by
      apply workP_mono
      rintro k _ ⟨hh, ha, hb⟩
      by_cases hki : s.task k = i
      · left; exact ⟨hki, ha, hb⟩
      · right
        unfold hepFPe at hh
        rw [hji] at hh
        exact ⟨⟨by omega, hki⟩, ha, hb⟩
    have h3 := hS.w_tua t0 L
    have h4 := hS.w_hep t0 L
    rw [workOf_eq] at h3 h4
    exact le_trans h1 (le_trans (workP_or_le s _ _) (Nat.add_le_add h3 h4))
  have hserved : t0 + L - e ≤ servedP s (fun k => hepFPe s pr k j ∧ t0 ≤ s.arr k ∧ s.arr k < t0 + L) (t0 + L) := by
    by_cases heX : t0 + L ≤ e
    · omega
    · have hb := servedP_busy (s := s) (fun k => hepFPe s pr k j ∧ t0 ≤ s.arr k ∧ s.arr k < t0 + L)
        e (t0 + L - e) (by
          intro u h1 h2
          obtain ⟨j', a, b, c, d, f⟩ := hserve u h1 (by omega)
          exact ⟨j', a, b, c, d, by omega⟩)
      have e1 : e + (t0 + L - e) = t0 + L := by omega
      rw [e1] at hb
      omega
  have hle := servedP_le_workP hl (fun k => hepFPe s pr k j ∧ t0 ≤ s.arr k ∧ s.arr k < t0 + L) (t0 + L)
  have heq : servedP s (fun k => hepFPe s pr k j ∧ t0 ≤ s.arr k ∧ s.arr k < t0 + L) (t0 + L)
      = J.workP s (fun k => hepFPe s pr k j ∧ t0 ≤ s.arr k ∧ s.arr k < t0 + L) := by omega
  apply hmax (t0 + L) (by omega) hge
  intro k hk hkh hka
  by_cases hlt : s.arr k < t0
  · exact done_mono hl k (by omega) (hq k hk hkh hlt)
  · exact all_done_of_served_eq hl _ _ heq k hk ⟨hkh, by omega, hka⟩

namespace FpSoundEqLemmas

/-- `reach_rt` for fixed-priority scheduling: `X` bounds the work of the other jobs of the
task released in the busy window up to the release of `j`, plus `rt` -/
theorem fpe_reach {s : Sys} {pr : ℕ → ℕ} {i : ℕ} {tua : RB} {others : List RB} {B : ℕ}
    (hS : FpEqSetting s pr i tua others B) (j : ℕ) (hj : j < s.n) (hji : s.task j = i)
    (t0 : ℕ) (hq : Quiet s (hepFPe s pr) j t0) (ht0 : t0 ≤ s.arr j)
    (hmax : ∀ t, t0 < t → t ≤ s.arr j → ¬ Quiet s (hepFPe s pr) j t)
    (rt AF X : ℕ) (hrt : rt ≤ s.cost j)
    (hown : J.workP s (fun k => k ≠ j ∧ (s.task k = i ∧ t0 ≤ s.arr k ∧ s.arr k < s.arr j + 1))
      + rt ≤ X)
    (hAF : B + X + sumNeed others AF ≤ AF) : rt ≤ svc s j (t0 + AF) := by
  have hw : J.workP s (fun k => k ≠ j ∧ (hepFPe s pr k j ∧ t0 ≤ s.arr k ∧ s.arr k < t0 + AF))
      ≤ (X - rt) + sumNeed others AF := by
    have h1 : J.workP s (fun k => k ≠ j ∧ (hepFPe s pr k j ∧ t0 ≤ s.arr k ∧ s.arr k < t0 + AF))
        ≤ J.workP s (fun k =>
            (k ≠ j ∧ (s.task k = i ∧ t0 ≤ s.arr k ∧ s.arr k < s.arr j + 1)) ∨
            ((pr (s.task k) ≤ pr i ∧ s.task k ≠ i) ∧ t0 ≤ s.arr k ∧ s.arr k < t0 + AF)) := by
      apply workP_mono
      rintro k hk ⟨hkj, hh, ha, hb⟩
      unfold hepFPe at hh
      rw [hji] at hh
      by_cases hki : s.task k = i
      · left
        rw [hki] at hh
        exact ⟨hkj, hki, ha, by omega⟩
      · right
        exact ⟨⟨by omega, hki⟩, ha, hb⟩
    have h4 := hS.w_hep t0 AF
    rw [workOf_eq] at h4
    exact le_trans h1 (le_trans (workP_or_le s _ _) (Nat.add_le_add (by omega) h4))
  exact reach_rt hS.legal (hepFPe_trans s pr) (hepFPe_refl s pr) j hj t0 hq ht0 hmax rt B _ AF hrt
    (fpe_Hb hS j hj hji t0 ht0) hw (by omega)

/-- the common part of the soundness proofs: `j` reaches service level `rt` at a time `t`
with `t + rem ≤ arr j + R` -/
theorem fpe_sound_core {s : Sys} {pr : ℕ → ℕ} {i : ℕ} {tua : RB} {others : List RB} {B : ℕ}
    (hS : FpEqSetting s pr i tua others B) (hwf : tua.ArrWF) (hex : tua.Exact) (ho : OthersOK others)
    (rem limit R : ℕ)
    (hstep : ∀ A, tua.need A < tua.need (A + 1) → tua.need A + rem < tua.need (A + 1))
    (hR : fpCore tua others B rem limit = .ok R)
    (j : ℕ) (hj : j < s.n) (hji : s.task j = i) (rt : ℕ) (hrt : rt ≤ s.cost j) (hrt0 : 0 < rt)
    (hown : ∀ t0, t0 ≤ s.arr j →
      J.workP s (fun k => k ≠ j ∧ (s.task k = i ∧ t0 ≤ s.arr k ∧ s.arr k < s.arr j + 1))
        + rt + rem ≤ tua.need (s.arr j - t0 + 1)) :
    ∃ t, rt ≤ svc s j t ∧ t + rem ≤ s.arr j + R := by
  have hpos : 0 < tua.need 1 := by
    have h1 := hS.w_tua (s.arr j) 1
    rw [workOf_eq] at h1
    have h2 := workP_split s (fun k => s.task k = i ∧ s.arr j ≤ s.arr k ∧ s.arr k < s.arr j + 1)
      j hj ⟨hji, le_refl _, by omega⟩
    have := hS.cost_pos j hj
    omega
  obtain ⟨L, hLpos, hfix, hall⟩ :=
    fpCore_extract tua others B rem limit R hwf hex ho hpos hstep hR
  obtain ⟨t0, hq, ht0, hmax⟩ := exists_t0 s (hepFPe s pr) j
  have hA := fpe_offset_lt_L s pr i tua others B hS L hLpos hfix j hj hji t0 hq ht0 hmax
  obtain ⟨AF, hAF, hAFR⟩ := hall (s.arr j - t0) hA
  have ho' := hown t0 ht0
  have hAF1 : 1 ≤ AF := by omega
  have e : max AF 1 = AF := by omega
  rw [e] at hAF
  have hr := fpe_reach hS j hj hji t0 hq ht0 hmax rt AF (tua.need (s.arr j - t0 + 1) - rem) hrt
    (by omega) hAF
  exact ⟨t0 + AF, hr, by omega⟩

end FpSoundEqLemmas

/-- C01 for the analyses without a run-to-completion remainder (fully preemptive: `B = 0`
and no non-preemptable states; floating non-preemptive regions: arbitrary placement, runs
bounded by the segment bounds): `Ok(R)` bounds the response time of every job of the task -/
theorem fpe_sound_rem0 (s : Sys) (pr : ℕ → ℕ) (i : ℕ) (tua : RB) (others : List RB) (B : ℕ)
    (hS : FpEqSetting s pr i tua others B) (hwf : tua.ArrWF) (hex : tua.Exact) (ho : OthersOK others)
    (limit R : ℕ) (hR : fpCore tua others B 0 limit = .ok R) :
    ∀ j, j < s.n → s.task j = i → MeetsBound s j R := by
  intro j hj hji
  have hl := hS.legal
  obtain ⟨t, ht, htR⟩ := fpe_sound_core hS hwf hex ho 0 limit R (fun _ h => h) hR j hj hji
    (s.cost j) (le_refl _) (hS.cost_pos j hj) (by
      intro t0 ht0
      have h1 := hS.w_tua t0 (s.arr j - t0 + 1)
      rw [workOf_eq] at h1
      have e : t0 + (s.arr j - t0 + 1) = s.arr j + 1 := by omega
      rw [e] at h1
      have h2 := workP_split s (fun k => s.task k = i ∧ t0 ≤ s.arr k ∧ s.arr k < s.arr j + 1)
        j hj ⟨hji, ht0, by omega⟩
      omega)
  have := svc_le_cost hl j t
  exact done_mono hl j (show t ≤ s.arr j + R by omega) (by omega)

/-- C01 for the analyses with scalar WCET `C` and remainder `rem < C` (fully
non-preemptive: `rem = C - 1`; limited-preemptive with last segment `ℓ`: `rem = ℓ - 1`):
every job of the task costs at most `C`, is non-preemptable from service level
`max 1 (cost - rem)` on, and at most `a.N d` jobs of the task are released in any window of
length `d` -/
theorem fpe_sound_scalar (s : Sys) (pr : ℕ → ℕ) (i : ℕ) (a : Arr) (C rem : ℕ) (others : List RB) (B : ℕ)
    (hS : FpEqSetting s pr i (.rbf a (.scalar C)) others B) (hwf : a.WF) (hex : a.Exact)
    (ho : OthersOK others) (hrem : rem < C)
    (hcnt : ∀ t d, cntOf s (fun x => x = i) t (t + d) ≤ a.N d)
    (hown : ∀ j, j < s.n → s.task j = i → s.cost j ≤ C ∧
      ∀ x, max 1 (s.cost j - rem) ≤ x → x < s.cost j → s.np j x)
    (limit R : ℕ) (hR : fpCore (.rbf a (.scalar C)) others B rem limit = .ok R) :
    ∀ j, j < s.n → s.task j = i → MeetsBound s j R := by
  intro j hj hji
  have hl := hS.legal
  have hC : 1 ≤ C := by omega
  have hwf' : (RB.rbf a (.scalar C)).ArrWF := by simp only [RB.ArrWF]; exact hwf
  have hex' : (RB.rbf a (.scalar C)).Exact := by
    simp only [RB.Exact]; exact ⟨hex, Cost.scalar_strictPos C hC⟩
  have hcj := hS.cost_pos j hj
  obtain ⟨hcC, hnp⟩ := hown j hj hji
  obtain ⟨t, ht, htR⟩ := fpe_sound_core hS hwf' hex' ho rem limit R (scalar_hstep a C rem hrem) hR
    j hj hji (max 1 (s.cost j - rem)) (by omega) (by omega) (by
      intro t0 ht0
      have hneed : (RB.rbf a (.scalar C)).need (s.arr j - t0 + 1) = C * a.N (s.arr j - t0 + 1) := by
        simp only [RB.need, Cost.ofJobs]
      rw [hneed]
      have h1 := hcnt t0 (s.arr j - t0 + 1)
      rw [cntOf_eq] at h1
      have e : t0 + (s.arr j - t0 + 1) = s.arr j + 1 := by omega
      rw [e] at h1
      have h2 := cntP_split s (fun k => s.task k = i ∧ t0 ≤ s.arr k ∧ s.arr k < s.arr j + 1)
        j hj ⟨hji, ht0, by omega⟩
      have h3 := workP_le_mul_cntP s
        (fun k => k ≠ j ∧ (s.task k = i ∧ t0 ≤ s.arr k ∧ s.arr k < s.arr j + 1)) C
        (fun k hk hp => (hown k hk hp.2.1).1)
      have h4 : C * (cntP s (fun k => k ≠ j ∧ (s.task k = i ∧ t0 ≤ s.arr k ∧ s.arr k < s.arr j + 1)) + 1)
          ≤ C * a.N (s.arr j - t0 + 1) := Nat.mul_le_mul_left C (by omega)
      rw [Nat.mul_succ] at h4
      omega)
  have hrun := run_to_completion hl j (max 1 (s.cost j - rem)) hnp (by omega) t ht
  exact done_mono hl j (show t + (s.cost j - max 1 (s.cost j - rem)) ≤ s.arr j + R by omega) hrun

/-- the four analyses of the crate as instances -/
theorem fpe_preemptive_sound (s : Sys) (pr : ℕ → ℕ) (i : ℕ) (tua : RB) (others : List RB)
    (hS : FpEqSetting s pr i tua others 0) (hwf : tua.ArrWF) (hex : tua.Exact) (ho : OthersOK others)
    (limit R : ℕ) (hR : fpPreemptive tua others limit = .ok R) :
    ∀ j, j < s.n → s.task j = i → MeetsBound s j R := by
  unfold fpPreemptive at hR
  exact fpe_sound_rem0 s pr i tua others 0 hS hwf hex ho limit R hR

theorem fpe_floating_sound (s : Sys) (pr : ℕ → ℕ) (i : ℕ) (tua : RB) (others : List RB) (B : ℕ)
    (hS : FpEqSetting s pr i tua others B) (hwf : tua.ArrWF) (hex : tua.Exact) (ho : OthersOK others)
    (limit R : ℕ) (hR : fpFloating tua B others limit = .ok R) :
    ∀ j, j < s.n → s.task j = i → MeetsBound s j R := by
  unfold fpFloating at hR
  exact fpe_sound_rem0 s pr i tua others B hS hwf hex ho limit R hR

theorem fpe_nonpreemptive_sound (s : Sys) (pr : ℕ → ℕ) (i : ℕ) (a : Arr) (C : ℕ) (others : List RB) (B : ℕ)
    (hS : FpEqSetting s pr i (.rbf a (.scalar C)) others B) (hwf : a.WF) (hex : a.Exact)
    (ho : OthersOK others)
    (hcnt : ∀ t d, cntOf s (fun x => x = i) t (t + d) ≤ a.N d)
    (hown : ∀ j, j < s.n → s.task j = i → s.cost j ≤ C ∧ ∀ x, 1 ≤ x → x < s.cost j → s.np j x)
    (limit R : ℕ) (hR : fpNonpreemptive a C B others limit = .ok R) :
    ∀ j, j < s.n → s.task j = i → MeetsBound s j R := by
  unfold fpNonpreemptive at hR
  by_cases hC : C < 1
  · rw [decide_eq_true hC] at hR
    exact absurd hR (fpCore_guard_ne_ok _ _ _ _ _ _)
  · rw [decide_eq_false hC] at hR
    refine fpe_sound_scalar s pr i a C (C - 1) others B hS hwf hex ho (by omega) hcnt ?_ limit R hR
    intro j hj hji
    obtain ⟨h1, h2⟩ := hown j hj hji
    exact ⟨h1, fun x hx hx' => h2 x (by omega) hx'⟩

theorem fpe_limited_sound (s : Sys) (pr : ℕ → ℕ) (i : ℕ) (a : Arr) (C last : ℕ) (others : List RB) (B : ℕ)
    (hS : FpEqSetting s pr i (.rbf a (.scalar C)) others B) (hwf : a.WF) (hex : a.Exact)
    (ho : OthersOK others) (hlast1 : 1 ≤ last) (hlastC : last ≤ C)
    (hcnt : ∀ t d, cntOf s (fun x => x = i) t (t + d) ≤ a.N d)
    (hown : ∀ j, j < s.n → s.task j = i → s.cost j ≤ C ∧
      ∀ x, max 1 (s.cost j - (last - 1)) ≤ x → x < s.cost j → s.np j x)
    (limit R : ℕ) (hR : fpLimited a C last B others limit = .ok R) :
    ∀ j, j < s.n → s.task j = i → MeetsBound s j R := by
  unfold fpLimited at hR
  rw [decide_eq_false (by omega : ¬ (last < 1 ∨ C < last - 1))] at hR
  have e : C - (C - (last - 1)) = last - 1 := by omega
  rw [e] at hR
  exact fpe_sound_scalar s pr i a C (last - 1) others B hS hwf hex ho (by omega) hcnt hown limit R hR


/-- a schedule that is legal for the distinct-priority order is legal for the order with ties -/
theorem FpSetting.toEq {s : Sys} {pr : ℕ → ℕ} {i : ℕ} {tua : RB} {others : List RB} {B : ℕ}
    (hS : FpSetting s pr i tua others B) : FpEqSetting s pr i tua others B where
  legal :=
    { toValid := hS.legal.toValid
      cont := hS.legal.cont
      prio := by
        intro t j hs
        rcases hS.legal.prio t j hs with h | h
        · left; exact h
        · right
          intro k hk hp
          have hj := (hS.legal.valid t j hs).1
          have hh := h k hk hp
          unfold hepFP at hh
          rcases hh with hh | ⟨h1, h2⟩
          · left; exact hh
          · right; exact ⟨by rw [h1], hS.ordered j k hj hk h1 h2⟩ }
  w_tua := hS.w_tua
  w_hep := by
    intro t d
    have h := hS.w_hp t d
    rw [workOf_eq] at h ⊢
    refine le_trans (workP_mono s _ _ ?_) h
    rintro k _ ⟨⟨h1, h2⟩, ha, hb⟩
    exact ⟨lt_of_le_of_ne h1 (fun e => h2 (hS.inj _ _ e)), ha, hb⟩
  blocking := hS.blocking
  cost_pos := hS.cost_pos

end RTA.Sched
