import RTA.Spec.PoissonReal
import RTA.Lemmas.PoissonLemmas
/-! # C15 — the approximated Poisson bound is the (1-ε) quantile

Theorems about the real-valued algorithm (`RTA/Spec/PoissonReal.lean`): it terminates for
every mean and every `ε ∈ (0, 1)`, returns the smallest `n` with `P[N ≤ n] ≥ 1 - ε`, is 0
at `Δ = 0` and non-decreasing in `Δ`; `pmf` is the Poisson probability mass function.
The `f64` implementation is NOT covered by these theorems: it is tied to an IEEE-double
model (`RTA/Model/Poisson.lean`) by bit-exact correspondence and compared with a
high-precision oracle by the falsifier (finding F4: for means in the hundreds the `f64`
code returns wrong, non-monotone values, and does not terminate when `exp(-mean)`
underflows). -/

open Finset

namespace RTA.C15
open RTA.PoissonReal

/-- `pmf` is non-negative and sums to 1 (it is the Poisson probability mass function) -/
theorem pmf_nonneg (m : ℝ) (hm : 0 ≤ m) (k : ℕ) : 0 ≤ pmf m k :=
  PoissonLemmas.pmf_nonneg m hm k

theorem pmf_hasSum (m : ℝ) : HasSum (pmf m) 1 :=
  PoissonLemmas.pmf_hasSum m

/-- the cumulative probability is non-decreasing in `n`, below 1, and tends to 1 -/
theorem cdf_mono (m : ℝ) (hm : 0 ≤ m) (n n' : ℕ) (h : n ≤ n') : cdf m n ≤ cdf m n' :=
  PoissonLemmas.cdf_mono m hm n n' h

theorem cdf_le_one (m : ℝ) (hm : 0 ≤ m) (n : ℕ) : cdf m n ≤ 1 :=
  PoissonLemmas.cdf_le_one m hm n

theorem cdf_eventually (m ε : ℝ) (hm : 0 ≤ m) (hε : 0 < ε) : ∃ n, 1 ≤ cdf m n + ε :=
  PoissonLemmas.cdf_eventually m ε hm hε

/-- the loop started at `(cum, njobs) = (cdf m (njobs - 1), njobs)` returns the least
`n ≥ njobs` with `cdf m n + ε ≥ 1`, given enough fuel -/
theorem loop_spec (m ε : ℝ) (n : ℕ) (hn : 1 ≤ cdf m n + ε) (hleast : ∀ k, k < n → cdf m k + ε < 1) :
    loop m ε (n + 1) 0 0 = some n :=
  PoissonLemmas.loop_spec m ε n hn hleast

/-- C15 (real-valued algorithm): for every rate `r ≥ 0`, every `ε > 0` and every interval
length the algorithm terminates and returns the smallest `n` whose cumulative Poisson
probability for mean `r * Δ` is at least `1 - ε` -/
theorem number_arrivals_is_quantile (r ε : ℝ) (hr : 0 ≤ r) (hε : 0 < ε) (delta : ℕ) (hd : 1 ≤ delta) :
    ∃ n fuel, numberArrivals r ε delta fuel = some n ∧
      1 - ε ≤ cdf ((delta : ℝ) * r) n ∧ ∀ k, k < n → cdf ((delta : ℝ) * r) k < 1 - ε :=
  PoissonLemmas.number_arrivals_is_quantile r ε hr hε delta hd

/-- it is 0 for `Δ = 0` -/
theorem number_arrivals_zero (r ε : ℝ) (fuel : ℕ) : numberArrivals r ε 0 fuel = some 0 :=
  PoissonLemmas.number_arrivals_zero r ε fuel

/-- the cumulative probability `P[N ≤ n]` is non-increasing in the mean -/
theorem cdf_antitone_mean (n : ℕ) (m m' : ℝ) (hm : 0 ≤ m) (h : m ≤ m') : cdf m' n ≤ cdf m n :=
  PoissonLemmas.cdf_antitone_mean n m m' hm h

/-- hence the quantile is non-decreasing in the interval length -/
theorem quantile_mono (r ε : ℝ) (hr : 0 ≤ r) (hε : 0 < ε) (d d' : ℕ) (h : d ≤ d') (n n' : ℕ)
    (hq : 1 - ε ≤ cdf ((d : ℝ) * r) n ∧ ∀ k, k < n → cdf ((d : ℝ) * r) k < 1 - ε)
    (hq' : 1 - ε ≤ cdf ((d' : ℝ) * r) n' ∧ ∀ k, k < n' → cdf ((d' : ℝ) * r) k < 1 - ε) :
    n ≤ n' :=
  PoissonLemmas.quantile_mono r ε hr hε d d' h n n' hq hq'

end RTA.C15
