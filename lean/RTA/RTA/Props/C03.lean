import RTA.Lemmas.FifoSound
/-! # C03 — the FIFO RTA is safe for every task and every legal schedule

Spec: `RTA/Spec/Sched.lean` (discrete-time schedule on a dedicated unit-speed processor,
`FifoLegal`: valid, work conserving, always serves a pending job with the earliest release,
ties arbitrary; `Compliant`: every task's release sequence is admissible for its arrival
model and every run of consecutive jobs respects its cost model).  Model: `fifoRta` =
`fifo::dedicated_uniproc_rta`. -/

namespace RTA.C03
open RTA RTA.Sched

/-- C03: if the FIFO analysis returns `Ok(R)` for the task set, then under FIFO scheduling
every job of every task completes within `R` of its release — for all compliant release
sequences (jitter, bursts), all execution times allowed by the cost models, all
tie-breaks among simultaneous releases, every divergence limit -/
theorem fifo_rta_safe (s : Sys) (hl : FifoLegal s) (ts : List (Arr × Cost))
    (hwf : ∀ p ∈ ts, p.1.WF ∧ p.2.WF) (hex : ∀ p ∈ ts, p.1.Exact ∧ p.2.StrictPos)
    (hc : Compliant s ts) (limit R : ℕ) (hR : fifoRta (taskSetRB ts) limit = .ok R) :
    ∀ j, j < s.n → MeetsBound s j R := fifo_sound_taskset s hl ts hwf hex hc limit R hR

/-- the same for any request bound that bounds the workload of every window (covers
user-defined demand models) -/
theorem fifo_rta_safe_of_workload_bound (s : Sys) (hl : FifoLegal s) (tasks : RB)
    (hwf : tasks.ArrWF) (hex : tasks.Exact)
    (hwork : ∀ t d, work s t (t + d) ≤ tasks.need d) (limit R : ℕ)
    (hR : fifoRta tasks limit = .ok R) : ∀ j, j < s.n → MeetsBound s j R :=
  fifo_rta_sound s hl tasks hwf hex hwork limit R hR

/-- curve compliance of the releases and cost compliance of the execution times imply the
workload bound used above -/
theorem compliant_workload_bound (s : Sys) (ts : List (Arr × Cost)) (hwf : ∀ p ∈ ts, p.1.WF ∧ p.2.WF)
    (h : Compliant s ts) (t d : ℕ) : work s t (t + d) ≤ (taskSetRB ts).need d :=
  work_le_need s ts hwf h t d

/-- non-vacuity: a concrete system with a legal FIFO schedule -/
def exSys : Sys :=
  { n := 1, task := fun _ => 0, arr := fun _ => 2, cost := fun _ => 3, np := fun _ _ => False,
    sched := fun t => if 2 ≤ t ∧ t < 5 then some 0 else none }

theorem exSys_svc (t : ℕ) : svc exSys 0 t = min (t - 2) 3 := by
  induction t with
  | zero => rfl
  | succ t ih =>
    have hs : exSys.sched t = if 2 ≤ t ∧ t < 5 then some 0 else none := rfl
    simp only [svc, ih, hs]
    by_cases h : 2 ≤ t ∧ t < 5
    · simp only [h, and_self, if_true]; omega
    · simp only [h, if_false]
      have : (if (none : Option ℕ) = some 0 then 1 else 0) = 0 := by simp
      rw [this]; omega

example : FifoLegal exSys := by
  refine { valid := ?_, wc := ?_, fifo := ?_ }
  · intro t j h
    simp only [exSys] at h
    split at h
    · injection h with h; subst h
      refine ⟨by simp [exSys], ?_⟩
      simp only [Pending, exSys_svc]
      simp only [exSys]; omega
    · cases h
  · rintro t ⟨k, hk, hp⟩
    have hk0 : k = 0 := by simp only [exSys] at hk; omega
    subst hk0
    simp only [Pending, exSys_svc] at hp
    simp only [exSys] at hp
    refine ⟨0, ?_⟩
    simp only [exSys]
    have : 2 ≤ t ∧ t < 5 := by omega
    simp [this]
  · intro t j _ k _ _
    simp [exSys]

end RTA.C03
