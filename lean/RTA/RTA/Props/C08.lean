import RTA.Lemmas.FixedPoint
import RTA.Lemmas.Supply
/-! # C08 — the fixed-point search returns the least solution or reports divergence

Property theorems only (helper lemmas live in `RTA/Lemmas`).  Model: `RTA/Model/FixedPoint.lean`
(`searchWithOffset`, `search`, `bruteForceSearch`, `maxResponseTime`) over the supplies of
`RTA/Model/Supply.lean`, which include `viaDefault` = a user-defined supply served by the
trait's default `service_time`. -/

namespace RTA.C08

open RTA

/-- `searchWithOffset` returns `ok r` exactly for the least `r` with
`w (max r 1) ≤ sbf (offset + r)`, provided that `r` does not exceed the limit. -/
theorem search_ok_iff (s : Supply) (hs : s.WF) (w : Nat → Nat) (hw : Mono w)
    (offset limit : Nat) (hoff : InBusyWindow s.stClosed w offset) (r : Nat) :
    searchWithOffset s offset limit w = .ok r ↔
      (r ≤ limit ∧ Sol s.sbf w offset r ∧ ∀ r', Sol s.sbf w offset r' → r ≤ r') ∧ 1 ≤ limit := by
  have hst := Supply.st?_eq s hs
  have hg := Supply.galois s hs
  unfold searchWithOffset
  rcases searchLoop_start s.sbf s.stClosed w s.st? offset limit hst hg hw hoff with
    ⟨r0, h0, hsol, hleast, hle⟩ | ⟨hdiv, hnone⟩
  · rw [h0]
    constructor
    · intro h
      injection h with h
      subst h
      refine ⟨⟨hle, hsol, hleast⟩, ?_⟩
      -- the loop body ran, so limit ≥ 1
      rcases Nat.eq_zero_or_pos limit with hl0 | hl
      · subst hl0
        unfold searchLoop at h0
        simp at h0
      · exact hl
    · rintro ⟨⟨_, hsol', hleast'⟩, _⟩
      have h1 := hleast r hsol'
      have h2 := hleast' r0 hsol
      have : r0 = r := by omega
      rw [this]
  · rw [hdiv]
    constructor
    · intro h; cases h
    · rintro ⟨⟨hle, hsol, _⟩, h1⟩
      have := hnone r hsol
      exfalso
      omega

/-- the divergence error (carrying the offset and the limit) is returned exactly when no
solution `r ≤ limit` exists (for `limit ≥ 1`; see `limit_zero_diverges` for the corner) -/
theorem search_div_iff (s : Supply) (hs : s.WF) (w : Nat → Nat) (hw : Mono w)
    (offset limit : Nat) (hoff : InBusyWindow s.stClosed w offset) (hl : 1 ≤ limit) :
    searchWithOffset s offset limit w = .div offset limit ↔
      ∀ r, r ≤ limit → ¬ Sol s.sbf w offset r := by
  have hst := Supply.st?_eq s hs
  have hg := Supply.galois s hs
  unfold searchWithOffset
  rcases searchLoop_start s.sbf s.stClosed w s.st? offset limit hst hg hw hoff with
    ⟨r0, h0, hsol, hleast, hle⟩ | ⟨hdiv, hnone⟩
  · rw [h0]
    constructor
    · intro h; cases h
    · intro h
      exact absurd hsol (h r0 hle)
  · rw [hdiv]
    constructor
    · intro _ r hr hsol
      have := hnone r hsol
      omega
    · intro _; rfl

/-- the search never fails a guard on well-formed input -/
theorem search_total (s : Supply) (hs : s.WF) (w : Nat → Nat) (hw : Mono w)
    (offset limit : Nat) (hoff : InBusyWindow s.stClosed w offset) :
    searchWithOffset s offset limit w ≠ .panic := by
  have hst := Supply.st?_eq s hs
  have hg := Supply.galois s hs
  unfold searchWithOffset
  rcases searchLoop_start s.sbf s.stClosed w s.st? offset limit hst hg hw hoff with
    ⟨r0, h0, _⟩ | ⟨hdiv, _⟩
  · rw [h0]; intro h; cases h
  · rw [hdiv]; intro h; cases h

/-- no demand: `Ok(0)` -/
theorem search_zero_demand (s : Supply) (hs : s.WF) (w : Nat → Nat) (hw : Mono w)
    (offset limit : Nat) (hoff : InBusyWindow s.stClosed w offset) (hl : 1 ≤ limit)
    (h0 : w 1 = 0) : searchWithOffset s offset limit w = .ok 0 := by
  rw [search_ok_iff s hs w hw offset limit hoff]
  refine ⟨⟨by omega, ?_, by intros; omega⟩, hl⟩
  unfold Sol
  simp [h0]

/-- an `Ok` result never changes when the limit is raised -/
theorem search_limit_stable (s : Supply) (hs : s.WF) (w : Nat → Nat) (hw : Mono w)
    (offset limit limit' : Nat) (hoff : InBusyWindow s.stClosed w offset)
    (hll : limit ≤ limit') (r : Nat)
    (h : searchWithOffset s offset limit w = .ok r) :
    searchWithOffset s offset limit' w = .ok r := by
  rw [search_ok_iff s hs w hw offset limit hoff] at h
  rw [search_ok_iff s hs w hw offset limit' hoff]
  obtain ⟨⟨h1, h2, h3⟩, h4⟩ := h
  exact ⟨⟨by omega, h2, h3⟩, by omega⟩

/-- Known finding K4 (the reason for `1 ≤ limit` above): with `limit = 0` the loop body
never runs and the search reports divergence even if `r = 0` is a solution. -/
theorem limit_zero_diverges (s : Supply) (w : Nat → Nat) (offset : Nat) :
    searchWithOffset s offset 0 w = .div offset 0 := by
  unfold searchWithOffset searchLoop
  simp

/-- `max_response_time`: zero for an empty sequence -/
theorem maxResponseTime_nil : maxResponseTime [] = .ok 0 := rfl

/-- `max_response_time` of results (without guard failures): the first error if there is
one, otherwise the maximum (`firstErr`, `maxOk`: the obvious recursive definitions in
`RTA/Lemmas/FixedPoint.lean`). -/
theorem maxResponseTime_spec (rs : List Res) (hnp : ∀ x ∈ rs, x ≠ .panic) :
    maxResponseTime rs =
      match firstErr rs with
      | some e => e
      | none => .ok (maxOk rs) := by
  cases rs with
  | nil => rfl
  | cons x xs =>
    have hxs : ∀ y ∈ xs, y ≠ .panic := fun y hy => hnp y (by simp [hy])
    unfold maxResponseTime
    cases x with
    | panic => exact absurd rfl (hnp .panic (by simp))
    | div o l => simp only [firstErr]; exact foldl_combine_div o l xs hxs
    | ok a => simp only [firstErr, maxOk]; exact foldl_combine_ok a xs hxs

/-- the trait's default `service_time` (jump-ahead loop) returns the exact inverse of
`provided_service` for every well-formed supply, and terminates -/
theorem defaultServiceTime_spec (s : Supply) (hs : s.WF) (d : Nat) :
    (Supply.viaDefault s).st? d = some (s.stClosed d) ∧
      ∀ t, s.stClosed d ≤ t ↔ d ≤ s.sbf t := by
  refine ⟨Supply.st?_eq (.viaDefault s) hs d, fun t => ?_⟩
  exact Supply.galois s hs d t

/-- the debug-only brute-force scan agrees with the search (so the `debug_assert_eq!` in
`fixed_point::search` cannot fire) -/
theorem bruteForce_eq_search (s : Supply) (hs : s.WF) (w : Nat → Nat) (hw : Mono w)
    (limit : Nat) (hoff : InBusyWindow s.stClosed w 0) :
    bruteForceSearch s 0 limit w = search s limit w := by
  have hst := Supply.st?_eq s hs
  have hg := Supply.galois s hs
  have h0 := Supply.sbf_zero s hs
  have hl := Supply.sbf_lipschitz s hs
  unfold search bruteForceSearch
  rcases Nat.eq_zero_or_pos limit with hl0 | hlim
  · subst hl0
    rw [limit_zero_diverges]
    rfl
  rcases Nat.eq_zero_or_pos (w 1) with hw1 | hw1
  · rw [search_zero_demand s hs w hw 0 limit hoff hlim hw1]
    obtain ⟨k, rfl⟩ : ∃ k, limit = k + 1 := ⟨limit - 1, by omega⟩
    unfold bruteLoop
    simp [hw1]
  · have hb := bruteLoop_spec s.sbf w limit h0 hl hw hw1 limit 1 (by omega) (by omega)
      (by intro r' a b; omega)
    unfold searchWithOffset
    rcases searchLoop_start s.sbf s.stClosed w s.st? 0 limit hst hg hw hoff with
      ⟨r0, hr0, hsol, hleast, hle⟩ | ⟨hdiv, hnone⟩
    · rw [hr0]
      have h1 : 1 ≤ r0 := by
        rcases Nat.eq_zero_or_pos r0 with h | h
        · subst h
          unfold Sol at hsol
          simp at hsol
          omega
        · exact h
      exact hb.1 r0 h1 hle hsol (fun r' _ hlt hs' => by have := hleast r' hs'; omega)
    · rw [hdiv]
      exact hb.2 (fun r0 a b hs' => by have := hnone r0 hs'; omega)

/-- non-vacuity: a concrete supply, workload and offset satisfying all hypotheses -/
example : (Supply.constrained 2 3 5).WF ∧ Mono (fun x => 3 + x / 4) ∧
    searchWithOffset (.constrained 2 3 5) 0 100 (fun x => 3 + x / 4) = .ok 21 := by
  refine ⟨by decide, ?_, by decide⟩
  intro a b h
  show 3 + a / 4 ≤ 3 + b / 4
  omega

end RTA.C08
