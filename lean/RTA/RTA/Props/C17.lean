import RTA.Lemmas.MonoAnalyses
import RTA.Lemmas.MonoRos
import RTA.Lemmas.MonoChain
import RTA.Lemmas.MonoRosOwn
import RTA.Lemmas.MonoChainOwn
/-! # C17 — response-time bounds are monotone in workload and supply

Order on results: `Res.le`: `ok a ≤ ok b` iff `a ≤ b`; every `ok`/`div` is below a divergence
error; a divergence error is never below an `ok` — so `Res.le base hardened` says exactly
"the bound does not decrease and an error does not turn into Ok".

The hardenings are expressed as pointwise orders on the request bounds (`need ≤ need'`),
on the blocking bound, and on the EDF interference/blocking terms; the single-parameter
hardenings of the statement (WCET, jitter, period, blocking, segment length, added task)
are shown to produce these orders. -/

namespace RTA.C17
open RTA RTA.Spec

/-- FIFO: more demand in every window never decreases the bound -/
theorem fifo_monotone (t t' : RB) (hwf : t.ArrWF) (hex : t.Exact) (hwf' : t'.ArrWF) (hex' : t'.Exact)
    (h : ∀ d, t.need d ≤ t'.need d) (limit : Nat) (hl : 1 ≤ limit) :
    Res.le (fifoRta t limit) (fifoRta t' limit) := fifo_mono t t' hwf hex hwf' hex' h limit hl

/-- the four fixed-priority analyses (common core): more own demand, more interfering
demand, more blocking, a larger run-to-completion remainder -/
theorem fp_monotone (tua tua' : RB) (others others' : List RB) (B B' rem rem' limit : Nat)
    (hwf : tua.ArrWF) (hex : tua.Exact) (ho : OthersOK others)
    (hwf' : tua'.ArrWF) (hex' : tua'.Exact) (ho' : OthersOK others') (hl : 1 ≤ limit)
    (hpos : 0 < tua.need 1)
    (hstep : ∀ A, tua.need A < tua.need (A + 1) → tua.need A + rem < tua.need (A + 1))
    (hstep' : ∀ A, tua'.need A < tua'.need (A + 1) → tua'.need A + rem' < tua'.need (A + 1))
    (htua : ∀ d, tua.need d ≤ tua'.need d)
    (hown : ∀ d, tua.need d - rem ≤ tua'.need d - rem')
    (hoth : ∀ d, sumNeed others d ≤ sumNeed others' d) (hB : B ≤ B') (hrem : rem ≤ rem') :
    Res.le (fpCore tua others B rem limit) (fpCore tua' others' B' rem' limit) :=
  fpCore_mono tua tua' others others' B B' rem rem' limit hwf hex ho hwf' hex' ho' hl hpos hstep hstep'
    htua hown hoth hB hrem

/-- the four EDF analyses (common core) -/
theorem edf_monotone (tua tua' : RB) (D : Nat) (others others' : List EdfTask) (rem rem' : Nat)
    (wb : Bool) (limit : Nat)
    (hwf : tua.ArrWF) (hex : tua.Exact) (ho : EdfOthersOK others)
    (hwf' : tua'.ArrWF) (hex' : tua'.Exact) (ho' : EdfOthersOK others') (hl : 1 ≤ limit)
    (hpos : 0 < tua.need 1)
    (hstep : ∀ A, tua.need A < tua.need (A + 1) → tua.need A + rem < tua.need (A + 1))
    (hstep' : ∀ A, tua'.need A < tua'.need (A + 1) → tua'.need A + rem' < tua'.need (A + 1))
    (htua : ∀ d, tua.need d ≤ tua'.need d)
    (hown : ∀ d, tua.need d - rem ≤ tua'.need d - rem')
    (htot : ∀ d, sumNeed (others.map (·.rb)) d ≤ sumNeed (others'.map (·.rb)) d)
    (hhep : ∀ A AF, edfHepWorkload others D A AF ≤ edfHepWorkload others' D A AF)
    (hblk : ∀ A, edfBlocking others D A ≤ edfBlocking others' D A) (hrem : rem ≤ rem') :
    Res.le (edfCore tua D others rem wb limit) (edfCore tua' D others' rem' wb limit) :=
  edfCore_mono tua tua' D others others' rem rem' wb limit hwf hex ho hwf' hex' ho' hl hpos hstep hstep'
    htua hown htot hhep hblk hrem

/-- increasing the divergence limit never changes an `Ok` result -/
theorem limit_stable (tua : RB) (others : List RB) (B rem limit limit' R : Nat)
    (hwf : tua.ArrWF) (hex : tua.Exact) (ho : OthersOK others)
    (hstep : ∀ A, tua.need A < tua.need (A + 1) → tua.need A + rem < tua.need (A + 1))
    (hpos : 0 < tua.need 1) (h : fpCore tua others B rem limit = .ok R) (hl : limit ≤ limit') :
    fpCore tua others B rem limit' = .ok R :=
  fpCore_limit_stable tua others B rem limit limit' R hwf hex ho hstep hpos h hl

theorem limit_stable_edf (tua : RB) (D : Nat) (others : List EdfTask) (rem : Nat) (wb : Bool)
    (limit limit' R : Nat) (hwf : tua.ArrWF) (hex : tua.Exact) (ho : EdfOthersOK others)
    (hstep : ∀ A, tua.need A < tua.need (A + 1) → tua.need A + rem < tua.need (A + 1))
    (hpos : 0 < tua.need 1) (h : edfCore tua D others rem wb limit = .ok R) (hl : limit ≤ limit') :
    edfCore tua D others rem wb limit' = .ok R :=
  edfCore_limit_stable tua D others rem wb limit limit' R hwf hex ho hstep hpos h hl

theorem limit_stable_fifo (t : RB) (hwf : t.ArrWF) (hex : t.Exact) (limit limit' R : Nat)
    (h : fifoRta t limit = .ok R) (hl : limit ≤ limit') : fifoRta t limit' = .ok R :=
  fifo_limit_stable t hwf hex limit limit' R h hl

/-- the single-parameter hardenings produce the pointwise orders used above -/
theorem hardenings :
    -- more release jitter
    (∀ (a : Arr), a.WF → ∀ j j' d, j ≤ j' → (a.withJitter j).N d ≤ (a.withJitter j').N d) ∧
    -- shorter period / more jitter of a sporadic task
    (∀ T T' J J' d, 1 ≤ T' → T' ≤ T → J ≤ J' → (Arr.sporadic T J).N d ≤ (Arr.sporadic T' J').N d) ∧
    -- larger WCET (also after subtracting the non-preemptive remainder)
    (∀ (a : Arr) C C' d, C ≤ C' →
      (RB.rbf a (.scalar C)).need d ≤ (RB.rbf a (.scalar C')).need d ∧
      (RB.rbf a (.scalar C)).need d - (C - 1) ≤ (RB.rbf a (.scalar C')).need d - (C' - 1)) ∧
    -- an added interfering task
    (∀ (o : RB) others d, sumNeed others d ≤ sumNeed (o :: others) d) ∧
    -- a longer non-preemptive segment of another task (EDF)
    (∀ (pre post : List EdfTask) (o : EdfTask) seg' D A, o.seg ≤ seg' →
      edfBlocking (pre ++ o :: post) D A ≤ edfBlocking (pre ++ { o with seg := seg' } :: post) D A) :=
  ⟨fun a hwf j j' d h => Arr.withJitter_mono a hwf j j' d h,
   fun T T' J J' d h1 h2 h3 => sporadic_param_mono T T' J J' d h1 h2 h3,
   fun a C C' d h => scalar_cost_mono a C C' d h,
   fun o others d => sumNeed_cons_le o others d,
   fun pre post o seg' D A h => edfBlocking_seg_mono pre post o seg' h D A⟩

/-! ### ROS 2 analyses (order `Res.leD`: `ok a ≤ ok b` iff `a ≤ b`; everything that is not a
panic is below a divergence error, whatever offset the error records) -/

/-- event source: more demand in every window, a weaker supply -/
theorem ros_event_source_monotone (s s' : Supply) (hs : s.WF) (hs' : s'.WF) (hsup : s'.Weaker s)
    (demand demand' : RB) (hwf : demand.ArrWF) (hex : demand.Exact)
    (hwf' : demand'.ArrWF) (hex' : demand'.Exact)
    (h : ∀ d, demand.need d ≤ demand'.need d) (limit : Nat) (hl : 1 ≤ limit) :
    Res.leD (rosEventSource s demand limit) (rosEventSource s' demand' limit) :=
  eventSource_mono s s' hs hs' hsup demand demand' hwf hex hwf' hex' h limit hl

/-- timer: more interference, more blocking, a weaker supply (partial: the analysed
callback's own model is kept fixed — the search space is pruned to its steps) -/
theorem ros_timer_monotone_partial (s s' : Supply) (hs : s.WF) (hs' : s'.WF) (hsup : s'.Weaker s)
    (a : Arr) (C : Nat) (hwf : a.WF) (hex : a.Exact) (hC : 1 ≤ C) (hpos : 0 < a.N 1)
    (interf interf' : RB) (hwfi : interf.ArrWF) (hexi : interf.Exact)
    (hwfi' : interf'.ArrWF) (hexi' : interf'.Exact)
    (h : ∀ d, interf.need d ≤ interf'.need d) (B B' : Nat) (hB : B ≤ B') (limit : Nat) (hl : 1 ≤ limit) :
    Res.leD (rosTimer s (.rbf a (.scalar C)) interf B limit)
      (rosTimer s' (.rbf a (.scalar C)) interf' B' limit) :=
  timer_mono s s' hs hs' hsup a C hwf hex hC hpos interf interf' hwfi hexi hwfi' hexi' h B B' hB limit hl

/-- polling-point callback: more interference, a weaker supply (partial as above) -/
theorem ros_polling_point_monotone_partial (s s' : Supply) (hs : s.WF) (hs' : s'.WF) (hsup : s'.Weaker s)
    (a : Arr) (C : Nat) (hwf : a.WF) (hex : a.Exact) (hC : 1 ≤ C) (hpos : 0 < a.N 1)
    (interf interf' : RB) (hwfi : interf.ArrWF) (hexi : interf.Exact)
    (hwfi' : interf'.ArrWF) (hexi' : interf'.Exact)
    (h : ∀ d, interf.need d ≤ interf'.need d) (limit : Nat) (hl : 1 ≤ limit) :
    Res.leD (rosPollingPoint s (.rbf a (.scalar C)) interf limit)
      (rosPollingPoint s' (.rbf a (.scalar C)) interf' limit) :=
  pollingPoint_mono s s' hs hs' hsup a C hwf hex hC hpos interf interf' hwfi hexi hwfi' hexi' h limit hl

/-- timer: EVERY single-parameter hardening — the analysed timer's own arrival curve (more
jitter, shorter period: `a ≤ a'` pointwise) and WCET, the interference, the blocking bound, the
supply (the search space of this analysis is pruned to the own steps, so this does not follow
from the naive evaluation; `Lemmas/MonoRosOwn.lean`) -/
theorem ros_timer_monotone (s s' : Supply) (hs : s.WF) (hs' : s'.WF) (hsup : s'.Weaker s)
    (a a' : Arr) (C C' : Nat) (hwf : a.WF) (hex : a.Exact) (hwf' : a'.WF) (hex' : a'.Exact)
    (hC : 1 ≤ C) (hCC : C ≤ C') (hpos : 0 < a.N 1) (hN : ∀ d, a.N d ≤ a'.N d)
    (interf interf' : RB) (hwfi : interf.ArrWF) (hexi : interf.Exact)
    (hwfi' : interf'.ArrWF) (hexi' : interf'.Exact)
    (h : ∀ d, interf.need d ≤ interf'.need d) (B B' : Nat) (hB : B ≤ B') (limit : Nat) (hl : 1 ≤ limit) :
    Res.leD (rosTimer s (.rbf a (.scalar C)) interf B limit)
      (rosTimer s' (.rbf a' (.scalar C')) interf' B' limit) :=
  timer_mono_all s s' hs hs' hsup a a' C C' hwf hex hwf' hex' hC hCC hpos hN interf interf' hwfi hexi hwfi' hexi'
    h B B' hB limit hl

/-- polling-point callback: a harder own model -/
theorem ros_polling_point_monotone_own (s : Supply) (hs : s.WF)
    (a a' : Arr) (C C' : Nat) (hwf : a.WF) (hex : a.Exact) (hwf' : a'.WF) (hex' : a'.Exact)
    (hC : 1 ≤ C) (hCC : C ≤ C') (hpos : 0 < a.N 1) (hN : ∀ d, a.N d ≤ a'.N d)
    (interf : RB) (hwfi : interf.ArrWF) (hexi : interf.Exact) (limit : Nat) (hl : 1 ≤ limit) :
    Res.leD (rosPollingPoint s (.rbf a (.scalar C)) interf limit)
      (rosPollingPoint s (.rbf a' (.scalar C')) interf limit) :=
  pollingPoint_mono_own s hs a a' C C' hwf hex hwf' hex' hC hCC hpos hN interf hwfi hexi limit hl

/-- processing chain: a longer chain prefix, more demand of the other chains, a weaker supply
(partial as above: the chain's own arrival curve and the WCET of its last callback fixed) -/
theorem ros_chain_monotone_partial (s s' : Supply) (hs : s.WF) (hs' : s'.WF) (hsup : s'.Weaker s)
    (a : Arr) (C P P' : Nat) (hwf : a.WF) (hex : a.Exact) (hC : 1 ≤ C) (hP : 1 ≤ P) (hPP : P ≤ P')
    (hpos : 0 < a.N 1)
    (others others' : RB) (hwfo : others.ArrWF) (hexo : others.Exact)
    (hwfo' : others'.ArrWF) (hexo' : others'.Exact)
    (h : ∀ d, others.need d ≤ others'.need d) (limit : Nat) (hl : 1 ≤ limit) :
    Res.leD
      (rosChain s (.rbf a (.scalar C)) (.rbf a (.scalar P)) (.rbf a (.scalar (C + P))) others limit)
      (rosChain s' (.rbf a (.scalar C)) (.rbf a (.scalar P')) (.rbf a (.scalar (C + P'))) others' limit) :=
  chain_mono s s' hs hs' hsup a C P P' hwf hex hC hP hPP hpos others others' hwfo hexo hwfo' hexo' h limit hl

/-- processing chain: EVERY single-parameter hardening, including the chain's own arrival curve
and the WCETs of its last callback and of its prefix -/
theorem ros_chain_monotone (s s' : Supply) (hs : s.WF) (hs' : s'.WF) (hsup : s'.Weaker s)
    (a a' : Arr) (C C' P P' : Nat) (hwf : a.WF) (hex : a.Exact) (hwf' : a'.WF) (hex' : a'.Exact)
    (hC : 1 ≤ C) (hCC : C ≤ C') (hP : 1 ≤ P) (hPP : P ≤ P')
    (hpos : 0 < a.N 1) (hN : ∀ d, a.N d ≤ a'.N d)
    (others others' : RB) (hwfo : others.ArrWF) (hexo : others.Exact)
    (hwfo' : others'.ArrWF) (hexo' : others'.Exact)
    (h : ∀ d, others.need d ≤ others'.need d) (limit : Nat) (hl : 1 ≤ limit) :
    Res.leD
      (rosChain s (.rbf a (.scalar C)) (.rbf a (.scalar P)) (.rbf a (.scalar (C + P))) others limit)
      (rosChain s' (.rbf a' (.scalar C')) (.rbf a' (.scalar P')) (.rbf a' (.scalar (C' + P'))) others' limit) :=
  chain_mono_all s s' hs hs' hsup a a' C C' P P' hwf hex hwf' hex' hC hCC hP hPP hpos hN others others'
    hwfo hexo hwfo' hexo' h limit hl

/-- rr subchain analysis: a pointwise harder workload (every callback: same kind, no smaller
assumed response-time bound, no fewer arrivals, no smaller costs; the end of the chain with a
marginal cost that does not shrink — any scalar WCET), a weaker supply -/
theorem ros_rr_monotone (s s' : Supply) (hs : s.WF) (hs' : s'.WF) (hsup : s'.Weaker s)
    (wl wl' : List Callback) (sub : List Nat) (limit : Nat) (hl : 1 ≤ limit)
    (hne : sub ≠ []) (hsub : ∀ i ∈ sub, i < wl.length)
    (hwf : ∀ cb ∈ wl, cb.arr.WF ∧ MonoN cb.cost.ofJobs)
    (hwf' : ∀ cb ∈ wl', cb.arr.WF ∧ MonoN cb.cost.ofJobs)
    (hle : WorkloadLe wl wl')
    (hω : ∀ e, sub.getLast? = some e → ∀ n n',
      (wl.getD e default).cost.ofJobs (n + 1) - (wl.getD e default).cost.ofJobs n ≤
      (wl'.getD e default).cost.ofJobs (n' + 1) - (wl'.getD e default).cost.ofJobs n') :
    Res.leD (rrSubchain s wl sub limit) (rrSubchain s' wl' sub limit) :=
  rr_mono s s' hs hs' hsup wl wl' sub limit hl hne hsub hwf hwf' hle hω

/-- bw subchain analysis: the same -/
theorem ros_bw_monotone (s s' : Supply) (hs : s.WF) (hs' : s'.WF) (hsup : s'.Weaker s)
    (wl wl' : List Callback) (sub : List Nat) (limit : Nat) (hl : 1 ≤ limit)
    (hne : sub ≠ []) (hsub : ∀ i ∈ sub, i < wl.length)
    (hwf : ∀ cb ∈ wl, cb.arr.WF ∧ cb.arr.Exact ∧ MonoN cb.cost.ofJobs)
    (hwf' : ∀ cb ∈ wl', cb.arr.WF ∧ cb.arr.Exact ∧ MonoN cb.cost.ofJobs)
    (hpos : ∀ e, sub.getLast? = some e → 0 < (wl.getD e default).arr.N 1)
    (hle : WorkloadLe wl wl')
    (hω : ∀ e, sub.getLast? = some e → ∀ n n',
      (wl.getD e default).cost.ofJobs (n + 1) - (wl.getD e default).cost.ofJobs n ≤
      (wl'.getD e default).cost.ofJobs (n' + 1) - (wl'.getD e default).cost.ofJobs n')
    (dbg : Bool) :
    Res.leD (bwSubchain s wl sub limit dbg) (bwSubchain s' wl' sub limit dbg) :=
  bw_mono s s' hs hs' hsup wl wl' sub limit hl hne hsub hwf hwf' hpos hle hω dbg

/-- the supply hardenings (smaller budget, later deadline, reservation instead of a dedicated
processor) and the callback hardenings (larger scalar WCET, more arrivals, a larger assumed
response-time bound) produce the orders used above -/
theorem ros_hardenings :
    ((∀ Q Q' P, 1 ≤ Q' → Q' ≤ Q → Q ≤ P → (Supply.periodic Q' P).Weaker (.periodic Q P)) ∧
     (∀ Q Q' D P, 1 ≤ Q' → Q' ≤ Q → Q ≤ D → D ≤ P → (Supply.constrained Q' D P).Weaker (.constrained Q D P)) ∧
     (∀ Q D D' P, 1 ≤ Q → Q ≤ D → D ≤ D' → D' ≤ P → (Supply.constrained Q D' P).Weaker (.constrained Q D P)) ∧
     (∀ Q P, 1 ≤ Q → Q ≤ P → (Supply.periodic Q P).Weaker .dedicated)) ∧
    (∀ (rtb rtb' : Nat) (a a' : Arr) (C C' : Nat) (k : CbKind), rtb ≤ rtb' → (∀ d, a.N d ≤ a'.N d) → C ≤ C' →
      Callback.Le ⟨rtb, a, .scalar C, k⟩ ⟨rtb', a', .scalar C', k⟩ ∧
      (∀ n n', (Cost.scalar C).ofJobs (n + 1) - (Cost.scalar C).ofJobs n ≤
        (Cost.scalar C').ofJobs (n' + 1) - (Cost.scalar C').ofJobs n')) :=
  ⟨weaker_supplies, fun rtb rtb' a a' C C' k hr ha hC => scalar_callback_le rtb rtb' a a' C C' k hr ha hC⟩

/-- the analysed task's OWN last non-preemptive segment is not a hardening: lengthening it
protects the job earlier and can shorten the bound (witness) -/
theorem own_last_segment_not_monotone :
    fpLimited (.sporadic 10 0) 4 1 0 [.rbf (.sporadic 5 0) (.scalar 2)] 100 = .ok 8 ∧
    fpLimited (.sporadic 10 0) 4 4 0 [.rbf (.sporadic 5 0) (.scalar 2)] 100 = .ok 6 := by
  decide

end RTA.C17
