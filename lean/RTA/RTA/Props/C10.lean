import RTA.Lemmas.ArrAll
/-! # C10 — arrival models never undercount the event processes they describe

Model: `RTA/Model/Arrival.lean` (`Arr`, `Arr.N` = `number_arrivals`, `Arr.withJitter` =
`clone_with_jitter`); Spec of admissible event sequences: `RTA/Spec/Events.lean`. -/

namespace RTA.C10
open RTA RTA.Spec

/-- `number_arrivals(0) = 0`, for every model and every composition -/
theorem number_arrivals_zero (a : Arr) : a.N 0 = 0 := Arr.N_zero a

/-- `number_arrivals` is non-decreasing -/
theorem number_arrivals_mono (a : Arr) (hwf : a.WF) (d1 d2 : Nat) (h : d1 ≤ d2) :
    a.N d1 ≤ a.N d2 := Arr.N_mono a hwf d1 d2 h

/-- no window of length `Δ` of any event sequence the model documents as admissible
contains more than `number_arrivals(Δ)` events — periodic, sporadic with jitter, delta-min
curves (plain and auto-extrapolating), arrival-curve prefixes, propagated models, vectors,
slices and `sum_of`, nested arbitrarily -/
theorem never_undercounts (a : Arr) (hwf : a.WF) (rels : List Nat) (hadm : Admissible a rels)
    (t Δ : Nat) : cnt rels t Δ ≤ a.N Δ := Arr.bounds a hwf rels hadm t Δ

/-- `clone_with_jitter(j)` bounds every sequence obtained by delaying each event of an
admissible sequence by at most `j` -/
theorem clone_with_jitter_bounds (a : Arr) (hwf : a.WF) (j : Nat) (base rels : List Nat)
    (hadm : Admissible a base) (hd : DelayedBy j base rels) (t Δ : Nat) :
    cnt rels t Δ ≤ (a.withJitter j).N Δ := Arr.withJitter_bounds a hwf j base rels hadm hd t Δ

/-- adding jitter `x` and then `y` is the same as adding `x + y` -/
theorem jitter_composes (a : Arr) (x y Δ : Nat) :
    ((a.withJitter x).withJitter y).N Δ = (a.withJitter (x + y)).N Δ :=
  Arr.withJitter_add a x y Δ

/-- the sporadic bound is attained: one admissible history (the critical instant) has
exactly `number_arrivals(Δ)` events in a window of length `Δ`, for every `Δ` at once -/
theorem sporadic_attained (T J Δ : Nat) (hT : 1 ≤ T) :
    ∃ rels t, Admissible (.sporadic T J) rels ∧ cnt rels t Δ = (Arr.sporadic T J).N Δ :=
  ⟨criticalInstant T J ((Arr.sporadic T J).N Δ), J,
    criticalInstant_admissible T J _ hT, RTA.sporadic_attained T J Δ _ hT (Nat.le_refl _)⟩

theorem periodic_attained (T Δ : Nat) (hT : 1 ≤ T) :
    ∃ rels t, Admissible (.periodic T) rels ∧ cnt rels t Δ = (Arr.periodic T).N Δ := by
  refine ⟨(List.range ((Arr.periodic T).N Δ)).map (· * T), 0, ?_,
    RTA.periodic_attained T Δ _ hT (Nat.le_refl _)⟩
  -- the synchronous periodic sequence has gaps exactly T
  unfold Admissible
  generalize (Arr.periodic T).N Δ = n
  have key : ∀ n s, GapsEq T ((List.range' s n).map (· * T)) := by
    intro n
    induction n with
    | zero => intro s; simp [GapsEq]
    | succ n ih =>
      intro s
      cases n with
      | zero => simp [List.range', GapsEq]
      | succ n =>
        have := ih (s + 1)
        simp only [List.range', List.map] at this ⊢
        refine ⟨?_, this⟩
        rw [Nat.add_mul]; omega
  rw [List.range_eq_range']
  exact key n 0

/-- … and sub-additive (periodic and sporadic) -/
theorem sporadic_subadditive (T J a b : Nat) (hT : 1 ≤ T) :
    (Arr.sporadic T J).N (a + b) ≤ (Arr.sporadic T J).N a + (Arr.sporadic T J).N b :=
  RTA.sporadic_subadditive T J a b hT

theorem periodic_subadditive (T a b : Nat) (hT : 1 ≤ T) :
    (Arr.periodic T).N (a + b) ≤ (Arr.periodic T).N a + (Arr.periodic T).N b :=
  RTA.periodic_subadditive T a b hT

/-- non-vacuity: a nested model, an admissible sequence for it, and the bound -/
example : (Arr.sum (.sporadic 5 2) (.prop 3 (.curve [2, 7]))).WF ∧
    Admissible (.sum (.sporadic 5 2) (.prop 3 (.curve [2, 7]))) [2, 7, 1, 4] := by
  refine ⟨by decide, ?_⟩
  unfold Admissible
  refine ⟨[2, 7], [1, 4], ?_, ?_, List.Perm.refl _⟩
  · unfold Admissible; exact ⟨[0, 5], by simp [GapsGe], by simp [DelayedBy]⟩
  · unfold Admissible
    refine ⟨[0, 2], ?_, by simp [DelayedBy]⟩
    unfold Admissible Respects
    refine ⟨by simp, ?_⟩
    intro i k hk hi
    simp at hi hk
    have : i = 0 ∧ k = 0 := by omega
    obtain ⟨rfl, rfl⟩ := this
    simp

end RTA.C10
