import RTA.Lemmas.Cost
import RTA.Lemmas.CostTrace
/-! # C14 — job-cost models bound every run of consecutive jobs

Model: `RTA/Model/Cost.lean` (`Cost.ofJobs` = `cost_of_jobs`, `Cost.items n` = first `n`
items of `job_cost_iter`, `Cost.least` = `least_wcet`), `RTA/Model/XCost.lean` (cache of
`wcet::ExtrapolatingCurve`).  `Cost.WF`: for the curve models the cumulative vector is
non-empty, non-decreasing and sub-additive (the constructor documents "garbage in ⇒
garbage out"). -/

namespace RTA.C14
open RTA

/-- `cost_of_jobs(0) = 0` -/
theorem cost_zero (c : Cost) : c.ofJobs 0 = 0 := Cost.ofJobs_zero c

/-- `cost_of_jobs` is non-decreasing in `n` -/
theorem cost_mono (c : Cost) (hwf : c.WF) (n m : Nat) (h : n ≤ m) : c.ofJobs n ≤ c.ofJobs m :=
  Cost.ofJobs_mono c hwf n m h

/-- `cost_of_jobs(n)` equals the sum of the first `n` items of `job_cost_iter` (and the
subtraction inside `job_cost_iter` never underflows) -/
theorem cost_eq_sum_of_items (c : Cost) (hwf : c.WF) (n : Nat) :
    sumList (c.items n) = c.ofJobs n ∧ c.itemsGuard n = true :=
  ⟨Cost.items_sum c hwf n, Cost.itemsGuard_of_wf c hwf n⟩

/-- `least_wcet(n)` is no larger than any of these items -/
theorem least_wcet_le_items (c : Cost) (hwf : c.WF) (n : Nat) : ∀ x ∈ c.items n, c.least n ≤ x :=
  Cost.least_le c hwf n

/-- extrapolation only appends (values in the recorded prefix unchanged) and keeps the
vector well-formed -/
theorem extrapolation_appends (w : List Nat) (n fuel : Nat) :
    (costExtrapolate w n fuel).take w.length = w := by
  obtain ⟨k, hk⟩ := costExtrapolate_is_iterExt w n fuel
  rw [hk]; exact costIterExt_take w k

/-- extrapolation never raises a bound (partial: inside the extrapolated range) -/
theorem extrapolation_never_raises_partial (w : List Nat) (hwf : costCurveWF w) (h3 : 3 ≤ w.length)
    (k n : Nat) (hn : n ≤ w.length + k) : costCurveOf (costIterExt w k) n ≤ costCurveOf w n :=
  costIterExt_le w hwf h3 k n hn

/-- the full claim "extrapolation never raises a bound" -/
def NeverRaisesEverywhere : Prop :=
  ∀ w, costCurveWF w → ∀ m n, costCurveOf (costExtrapolate w m m) n ≤ costCurveOf w n

/-- finding F7: beyond the extrapolated range the full claim is false (`[5,6,7]`
extrapolated to four entries claims 17 for five jobs, the original 13) -/
theorem counterexample_F7 : ¬ NeverRaisesEverywhere := by
  intro h
  have := h [5, 6, 7] (by decide) 5 5
  have h2 := cost_extrapolate_raises_beyond_range
  omega

/-- the auto-extrapolating model never claims more than the plain curve, for every `n` -/
theorem extrapolating_never_raises (w : List Nat) (hwf : costCurveWF w) (n : Nat) :
    xcostOf w n ≤ costCurveOf w n := xcostOf_le w hwf n

/-- the caching variant answers every query (`cost_of_jobs`, `least_wcet`, in any order,
any number of times) exactly like a fresh one -/
theorem cache_transparent (w0 : List Nat) (hwf : costCurveWF w0) (ops : List XCostOp) :
    xcostRun w0 ops = ops.map (xcostPure w0) := xcost_transparent w0 hwf ops

/-- a WCET curve inferred from a trace of job costs bounds the total cost of EVERY run of
`n` consecutive jobs of that trace, for every `n` (also beyond the recorded prefix) —
the code after the fix of finding F1 -/
theorem from_trace_bounds_every_run (tr : List Nat) (maxN : Nat) (hm : 1 ≤ maxN) (s n : Nat)
    (hrun : s + n ≤ tr.length) :
    runCost tr s n ≤ costCurveOf (costFromTrace tr maxN) n := costFromTrace_bounds tr maxN hm s n hrun

/-- … and each recorded entry is attained by some run (the curve is the exact maximum) -/
theorem from_trace_entries_are_maxima (tr : List Nat) (maxN : Nat) :
    (costFromTrace tr maxN).length = min maxN tr.length ∧
    ∀ i, i < (costFromTrace tr maxN).length →
      (∀ s, s + (i + 1) ≤ tr.length → runCost tr s (i + 1) ≤ (costFromTrace tr maxN).getD i 0) ∧
      (∃ s, s + (i + 1) ≤ tr.length ∧ runCost tr s (i + 1) = (costFromTrace tr maxN).getD i 0) :=
  costFromTrace_spec tr maxN

/-- extrapolation keeps dominating the trace -/
theorem extrapolation_dominates_trace (w tr : List Nat) (h3 : 3 ≤ w.length) (hb : BoundsRuns w tr)
    (k s n : Nat) (hrun : s + n ≤ tr.length) :
    runCost tr s n ≤ costCurveOf (costIterExt w k) n := by
  have hb' := costIterExt_boundsRuns w tr h3 hb k
  have hne : costIterExt w k ≠ [] := by
    intro h
    have hl := CostLemmas.costIterExt_length w k
    rw [h] at hl
    simp at hl
    omega
  exact costCurveOf_boundsRuns _ tr hne hb' s n hrun

example : (Cost.xcurve [5, 6, 7]).WF := by decide

end RTA.C14
