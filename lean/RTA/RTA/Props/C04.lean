import RTA.Lemmas.SupplyFifo
import RTA.Lemmas.TimerSound
import RTA.Lemmas.TimerSoundExample
import RTA.Lemmas.ChainSound
import RTA.Lemmas.ExecRefine
import RTA.Lemmas.ExecRefineChain
import RTA.Lemmas.ExecRunMeets
import RTA.Lemmas.ExecEndToEnd
import RTA.Lemmas.ExecChainEndToEnd
import RTA.Lemmas.ExecChainExample
import RTA.Lemmas.ExecEndToEndExample2
import RTA.Lemmas.ExecEndToEndX
import RTA.Lemmas.ExecChainEndToEndX
import RTA.Spec.Ros2Exec
/-! # C04 — the ECRTS'19 ROS 2 analyses are safe under reservation supply

Proved here, for all reservation parameters, all compliant budget placements (indeed every
supply process that delivers at least the supply-bound function in every window), all
compliant arrival sequences and all execution times up to the WCET:
* the **event-source** analysis (FIFO processing, all tie-breaks);
* the **timer** analysis and the **polling-point callback** analysis, over a schedule-level
  Spec of the executor (`SupplyTimerLegal`, `RTA/Lemmas/TimerSound.lean`): callbacks are
  non-preemptive and progress only in supplied slots; the executor does not idle while an
  instance of the analysed callback or of an interfering callback is pending; a callback
  that is neither is never started while such an instance is pending; instances of the
  analysed callback start in release order.  Everything else about the executor (polling
  points, ready set, order among the other callbacks) is arbitrary.
The executor itself is also specified as a labelled transition system
(`RTA/Spec/Ros2Exec.lean`); `executor_runs_are_timer_legal` (and `C05.executor_runs_are_legal`)
prove that EVERY run of it (without chains) satisfies the schedule-level Specs, so the timer and
polling-point theorems hold for the transition system itself (`timer_safe_lts`,
`polling_point_safe_lts`), and `executor_runs_are_chain_legal` does the same for runs with a
linear chain (`chain_safe_lts`).
* the **processing-chain** analysis (`chain_safe`): every callback instance is attributed the
  arrival time of its chain instance; the analysis is the polling-point analysis of the last
  callback with the chain prefix and the other chains as interference (scalar WCETs, one
  arrival curve per chain). -/

namespace RTA.C04
open RTA RTA.Sched RTA.Spec

/-- C04, event source: `Ok(R)` of `rta_event_source` is never exceeded -/
theorem event_source_safe (s : Sys) (Q D P : ℕ) (hQ : 1 ≤ Q) (hQD : Q ≤ D) (hDP : D ≤ P)
    (σ : ℕ → Bool) (hσ : Compliant Q D P σ) (hl : SupplyFifoLegal s σ)
    (demand : RB) (hwf : demand.ArrWF) (hex : demand.Exact)
    (hwork : ∀ t d, work s t (t + d) ≤ demand.need d) (limit R : ℕ)
    (hR : rosEventSource (.constrained Q D P) demand limit = .ok R) :
    ∀ j, j < s.n → MeetsBound s j R :=
  eventSource_sound s Q D P hQ hQD hDP σ hσ hl demand hwf hex hwork limit R hR

/-- the same for the periodic reservation (deadline = period) -/
theorem event_source_safe_periodic (s : Sys) (Q P : ℕ) (hQ : 1 ≤ Q) (hQP : Q ≤ P)
    (σ : ℕ → Bool) (hσ : Compliant Q P P σ) (hl : SupplyFifoLegal s σ)
    (demand : RB) (hwf : demand.ArrWF) (hex : demand.Exact)
    (hwork : ∀ t d, work s t (t + d) ≤ demand.need d) (limit R : ℕ)
    (hR : rosEventSource (.periodic Q P) demand limit = .ok R) :
    ∀ j, j < s.n → MeetsBound s j R := by
  have e : rosEventSource (.periodic Q P) demand limit = rosEventSource (.constrained Q P P) demand limit := by
    have h1 : (Supply.periodic Q P).sbf = (Supply.constrained Q P P).sbf := by
      funext x; exact (cSbf_eq_pSbf Q P hQ hQP x).symm
    have h2 : (Supply.periodic Q P).st? = (Supply.constrained Q P P).st? := by
      funext x; simp only [Supply.st?]; rw [cSt_eq_pSt Q P hQ hQP x]
    simp only [rosEventSource, rosBound, search, searchWithOffset, h2]
  rw [e] at hR
  exact eventSource_sound s Q P P hQ hQP (Nat.le_refl _) σ hσ hl demand hwf hex hwork limit R hR

/-- and on a dedicated processor -/
theorem event_source_safe_dedicated (s : Sys) (hl : SupplyFifoLegal s (fun _ => true))
    (demand : RB) (hwf : demand.ArrWF) (hex : demand.Exact)
    (hwork : ∀ t d, work s t (t + d) ≤ demand.need d) (limit R : ℕ)
    (hR : rosEventSource .dedicated demand limit = .ok R) :
    ∀ j, j < s.n → MeetsBound s j R :=
  eventSource_sound_dedicated s hl demand hwf hex hwork limit R hR

/-- the schedule half in isolation: any supply-bound function that lower-bounds the
delivered service works (covers user-defined supplies) -/
theorem fifo_on_supply (s : Sys) (σ : ℕ → Bool) (hl : SupplyFifoLegal s σ) (sbf rbf : ℕ → ℕ)
    (hsbf : ∀ t d, sbf d ≤ service σ t d) (hwork : ∀ t d, work s t (t + d) ≤ rbf d)
    (L R : ℕ) (hLfix : rbf L ≤ sbf L) (hL : 0 < L) (hR : ∀ A, A ≤ L → rbf (A + 1) ≤ sbf (A + R))
    (j : ℕ) (hj : j < s.n) : svc s j (s.arr j + R) = s.cost j :=
  supply_fifo_sound s σ hl sbf rbf hsbf hwork L R hLfix hL hR j hj

/-- C04, timer: `Ok(R)` of `rta_timer` is never exceeded by any instance of the analysed
timer `i` — every supply process that delivers at least the supply-bound function of `sup`,
every schedule satisfying the executor Spec `SupplyTimerLegal`, every release pattern within
the curves (`hN`, `hhp`), every execution time up to the WCET (`hcost`), blocking by any
other callback of cost at most `B + 1` -/
theorem timer_safe (s : Sys) (σ : ℕ → Bool) (i : ℕ) (hp : ℕ → Prop) [DecidablePred hp]
    (hl : SupplyTimerLegal s σ i hp) (hi : ¬ hp i)
    (sup : Supply) (hs : sup.WF) (hsbf : ∀ t d, sup.sbf d ≤ service σ t d)
    (a : Arr) (C : ℕ) (hwf : a.WF) (hex : a.Exact) (hC : 1 ≤ C)
    (interf : RB) (hwfi : interf.ArrWF) (hexi : interf.Exact) (B : ℕ)
    (hN : ∀ t d, countOf s i t (t + d) ≤ a.N d)
    (hcost : ∀ k < s.n, s.task k = i → s.cost k ≤ C)
    (hhp : ∀ t d, workOf s hp t (t + d) ≤ interf.need d)
    (hB : ∀ k < s.n, ¬ Rel s i hp k → s.cost k ≤ B + 1)
    (limit R : ℕ) (hR : rosTimer sup (.rbf a (.scalar C)) interf B limit = .ok R) :
    ∀ j, j < s.n → s.task j = i → MeetsBound s j R :=
  timer_sound s σ i hp hl hi sup hs hsbf a C hwf hex hC interf hwfi hexi B hN hcost hhp hB limit R hR

/-- the timer analysis on a periodic / deadline-constrained reservation: every compliant
budget placement -/
theorem timer_safe_reservation (s : Sys) (Q D P : ℕ) (hQ : 1 ≤ Q) (hQD : Q ≤ D) (hDP : D ≤ P)
    (σ : ℕ → Bool) (hσ : Compliant Q D P σ) (i : ℕ) (hp : ℕ → Prop) [DecidablePred hp]
    (hl : SupplyTimerLegal s σ i hp) (hi : ¬ hp i)
    (a : Arr) (C : ℕ) (hwf : a.WF) (hex : a.Exact) (hC : 1 ≤ C)
    (interf : RB) (hwfi : interf.ArrWF) (hexi : interf.Exact) (B : ℕ)
    (hN : ∀ t d, countOf s i t (t + d) ≤ a.N d)
    (hcost : ∀ k < s.n, s.task k = i → s.cost k ≤ C)
    (hhp : ∀ t d, workOf s hp t (t + d) ≤ interf.need d)
    (hB : ∀ k < s.n, ¬ Rel s i hp k → s.cost k ≤ B + 1)
    (limit R : ℕ) (hR : rosTimer (.constrained Q D P) (.rbf a (.scalar C)) interf B limit = .ok R) :
    ∀ j, j < s.n → s.task j = i → MeetsBound s j R :=
  timer_sound_reservation s Q D P hQ hQD hDP σ hσ i hp hl hi a C hwf hex hC interf hwfi hexi B
    hN hcost hhp hB limit R hR

/-- C04, polling-point callback: `Ok(R)` of `rta_polling_point_callback` (every other callback
counted as interference) is never exceeded by any instance of the analysed callback -/
theorem polling_point_safe (s : Sys) (σ : ℕ → Bool) (i : ℕ)
    (hl : SupplyTimerLegal s σ i (fun k => k ≠ i))
    (sup : Supply) (hs : sup.WF) (hsbf : ∀ t d, sup.sbf d ≤ service σ t d)
    (a : Arr) (C : ℕ) (hwf : a.WF) (hex : a.Exact) (hC : 1 ≤ C)
    (interf : RB) (hwfi : interf.ArrWF) (hexi : interf.Exact)
    (hN : ∀ t d, countOf s i t (t + d) ≤ a.N d)
    (hcost : ∀ k < s.n, s.task k = i → s.cost k ≤ C)
    (hint : ∀ t d, workOf s (fun k => k ≠ i) t (t + d) ≤ interf.need d)
    (limit R : ℕ) (hR : rosPollingPoint sup (.rbf a (.scalar C)) interf limit = .ok R) :
    ∀ j, j < s.n → s.task j = i → MeetsBound s j R :=
  pollingPoint_sound s σ i hl sup hs hsbf a C hwf hex hC interf hwfi hexi hN hcost hint limit R hR

theorem polling_point_safe_reservation (s : Sys) (Q D P : ℕ) (hQ : 1 ≤ Q) (hQD : Q ≤ D)
    (hDP : D ≤ P) (σ : ℕ → Bool) (hσ : Compliant Q D P σ) (i : ℕ)
    (hl : SupplyTimerLegal s σ i (fun k => k ≠ i))
    (a : Arr) (C : ℕ) (hwf : a.WF) (hex : a.Exact) (hC : 1 ≤ C)
    (interf : RB) (hwfi : interf.ArrWF) (hexi : interf.Exact)
    (hN : ∀ t d, countOf s i t (t + d) ≤ a.N d)
    (hcost : ∀ k < s.n, s.task k = i → s.cost k ≤ C)
    (hint : ∀ t d, workOf s (fun k => k ≠ i) t (t + d) ≤ interf.need d)
    (limit R : ℕ)
    (hR : rosPollingPoint (.constrained Q D P) (.rbf a (.scalar C)) interf limit = .ok R) :
    ∀ j, j < s.n → s.task j = i → MeetsBound s j R :=
  pollingPoint_sound_reservation s Q D P hQ hQD hDP σ hσ i hl a C hwf hex hC interf hwfi hexi
    hN hcost hint limit R hR

/-- C04, processing chain: `Ok(R)` of `rta_processing_chain` is never exceeded by the time from a
source event to the completion of the last callback of the chain instance it triggers.  Every
callback instance `k` carries as `s.arr k` the arrival time of its chain instance (source
event); `l` is the last callback of the analysed chain; the executor facts are
`SupplyTimerLegal` for `l` with every other callback as interference (non-preemptive; no idling
while an arrived chain instance is incomplete; instances of `l` start in the order of their
chain instances); `P` is the WCET of the chain prefix, `others` the demand of the other chains -/
theorem chain_safe (s : Sys) (σ : ℕ → Bool) (l : ℕ)
    (hl : SupplyTimerLegal s σ l (fun k => k ≠ l))
    (sup : Supply) (hs : sup.WF) (hsbf : ∀ t d, sup.sbf d ≤ service σ t d)
    (a : Arr) (C P : ℕ) (hwf : a.WF) (hex : a.Exact) (hC : 1 ≤ C) (hP : 1 ≤ P)
    (others : RB) (hwfo : others.ArrWF) (hexo : others.Exact)
    (hN : ∀ t d, countOf s l t (t + d) ≤ a.N d)
    (hcost : ∀ k < s.n, s.task k = l → s.cost k ≤ C)
    (hint : ∀ t d, workOf s (fun k => k ≠ l) t (t + d) ≤ (RB.rbf a (.scalar P)).need d + others.need d)
    (limit R : ℕ)
    (hR : rosChain sup (.rbf a (.scalar C)) (.rbf a (.scalar P)) (.rbf a (.scalar (C + P))) others limit = .ok R) :
    ∀ j, j < s.n → s.task j = l → MeetsBound s j R :=
  chain_sound s σ l hl sup hs hsbf a C P hwf hex hC hP others hwfo hexo hN hcost hint limit R hR

theorem chain_safe_reservation (s : Sys) (Q D Pd : ℕ) (hQ : 1 ≤ Q) (hQD : Q ≤ D) (hDP : D ≤ Pd)
    (σ : ℕ → Bool) (hσ : Compliant Q D Pd σ) (l : ℕ)
    (hl : SupplyTimerLegal s σ l (fun k => k ≠ l))
    (a : Arr) (C P : ℕ) (hwf : a.WF) (hex : a.Exact) (hC : 1 ≤ C) (hP : 1 ≤ P)
    (others : RB) (hwfo : others.ArrWF) (hexo : others.Exact)
    (hN : ∀ t d, countOf s l t (t + d) ≤ a.N d)
    (hcost : ∀ k < s.n, s.task k = l → s.cost k ≤ C)
    (hint : ∀ t d, workOf s (fun k => k ≠ l) t (t + d) ≤ (RB.rbf a (.scalar P)).need d + others.need d)
    (limit R : ℕ)
    (hR : rosChain (.constrained Q D Pd) (.rbf a (.scalar C)) (.rbf a (.scalar P)) (.rbf a (.scalar (C + P))) others limit = .ok R) :
    ∀ j, j < s.n → s.task j = l → MeetsBound s j R :=
  chain_sound_reservation s Q D Pd hQ hQD hDP σ hσ l hl a C P hwf hex hC hP others hwfo hexo hN hcost hint limit R hR

/-- the chain analysis is the polling-point analysis of the last callback with the chain prefix
and the other chains as interference -/
theorem chain_is_polling_point (sup : Supply) (a : Arr) (C P : ℕ) (hC : 1 ≤ C) (others : RB) (limit : ℕ) :
    rosChain sup (.rbf a (.scalar C)) (.rbf a (.scalar P)) (.rbf a (.scalar (C + P))) others limit =
      rosPollingPoint sup (.rbf a (.scalar C)) (.agg [.rbf a (.scalar P), others]) limit :=
  rosChain_eq_pollingPoint sup a C P hC others limit

/-- non-vacuity of `timer_safe_reservation`: a concrete executor schedule (a higher-priority
timer, the analysed timer, a polled callback) on a concrete (2, 4, 4) reservation with the budget
at the end of every period satisfies every hypothesis; the analysis returns 10; the analysed
instance completes after 7 (not within 6) -/
theorem timer_safe_nonvacuous :
    SupplyTimerLegal exSys exSigma 1 (fun k => k = 0) ∧ Compliant 2 4 4 exSigma ∧
    ∃ R, rosTimer (.constrained 2 4 4) (.rbf (.periodic 20) (.scalar 2))
          (.rbf (.periodic 20) (.scalar 1)) 1 100 = .ok R ∧
      (∀ t d, countOf exSys 1 t (t + d) ≤ (Arr.periodic 20).N d) ∧
      (∀ k, k < exSys.n → exSys.task k = 1 → exSys.cost k ≤ 2) ∧
      (∀ t d, workOf exSys (fun k => k = 0) t (t + d) ≤ (RB.rbf (.periodic 20) (.scalar 1)).need d) ∧
      (∀ k, k < exSys.n → ¬ Rel exSys 1 (fun k => k = 0) k → exSys.cost k ≤ 1 + 1) ∧
      MeetsBound exSys 0 R ∧ ¬ MeetsBound exSys 0 6 :=
  ⟨exSys_legal, exSigma_compliant, timer_sound_nonvacuous⟩

/-- refinement: every run of the executor transition system (no chains) satisfies the timer
Spec for every timer whose priority value is shared by no other timer -/
theorem executor_runs_are_timer_legal (cbs : List Exec.Cb) (sigma : ℕ → Bool) (rels : ℕ → List ℕ) (H i : ℕ)
    (hi : i < cbs.length) (hti : (cbs.getD i default).isTimer = true)
    (hidx : ∀ t, ∀ i ∈ rels t, i < cbs.length) (hfin : ∀ t, H ≤ t → rels t = [])
    (hcost : ∀ c ∈ cbs, 1 ≤ c.cost)
    (hdist : ∀ k, k < cbs.length → k ≠ i → (cbs.getD k default).isTimer = true →
      (cbs.getD k default).prio ≠ (cbs.getD i default).prio) :
    SupplyTimerLegal (Exec.toSys cbs sigma rels H) sigma i
      (fun k => (cbs.getD k default).isTimer = true ∧ (cbs.getD k default).prio < (cbs.getD i default).prio) :=
  Exec.run_timer_legal cbs sigma rels H i hi hti hidx hfin hcost hdist

/-- C04, timer, over the transition system itself: in every run, every instance of the analysed
timer has received its full service within `R` of its release -/
theorem timer_safe_lts (cbs : List Exec.Cb) (sigma : ℕ → Bool) (rels : ℕ → List ℕ) (H i : ℕ)
    (hi : i < cbs.length) (hti : (cbs.getD i default).isTimer = true)
    (hidx : ∀ t, ∀ i ∈ rels t, i < cbs.length) (hfin : ∀ t, H ≤ t → rels t = [])
    (hcb : ∀ c ∈ cbs, 1 ≤ c.cost)
    (hdist : ∀ k, k < cbs.length → k ≠ i → (cbs.getD k default).isTimer = true →
      (cbs.getD k default).prio ≠ (cbs.getD i default).prio)
    (sup : Supply) (hs : sup.WF) (hsbf : ∀ t d, sup.sbf d ≤ service sigma t d)
    (a : Arr) (C : ℕ) (hwf : a.WF) (hex : a.Exact) (hC : 1 ≤ C)
    (interf : RB) (hwfi : interf.ArrWF) (hexi : interf.Exact) (B : ℕ)
    (hN : ∀ t d, countOf (Exec.toSys cbs sigma rels H) i t (t + d) ≤ a.N d)
    (hcost : ∀ k < (Exec.toSys cbs sigma rels H).n, (Exec.toSys cbs sigma rels H).task k = i →
      (Exec.toSys cbs sigma rels H).cost k ≤ C)
    (hhp : ∀ t d, workOf (Exec.toSys cbs sigma rels H)
      (fun k => (cbs.getD k default).isTimer = true ∧ (cbs.getD k default).prio < (cbs.getD i default).prio)
      t (t + d) ≤ interf.need d)
    (hB : ∀ k < (Exec.toSys cbs sigma rels H).n,
      ¬ Rel (Exec.toSys cbs sigma rels H) i
        (fun k => (cbs.getD k default).isTimer = true ∧ (cbs.getD k default).prio < (cbs.getD i default).prio) k →
      (Exec.toSys cbs sigma rels H).cost k ≤ B + 1)
    (limit R : ℕ) (hR : rosTimer sup (.rbf a (.scalar C)) interf B limit = .ok R) :
    ∀ j, j < (Exec.toSys cbs sigma rels H).n → (Exec.toSys cbs sigma rels H).task j = i →
      MeetsBound (Exec.toSys cbs sigma rels H) j R :=
  timer_sound _ sigma i _ (Exec.run_timer_legal cbs sigma rels H i hi hti hidx hfin hcb hdist)
    (fun h => Nat.lt_irrefl _ h.2) sup hs hsbf a C hwf hex hC interf hwfi hexi B hN hcost hhp hB limit R hR

/-- C04, polling-point callback, over the transition system itself -/
theorem polling_point_safe_lts (cbs : List Exec.Cb) (sigma : ℕ → Bool) (rels : ℕ → List ℕ) (H i : ℕ)
    (hidx : ∀ t, ∀ i ∈ rels t, i < cbs.length) (hfin : ∀ t, H ≤ t → rels t = [])
    (hcb : ∀ c ∈ cbs, 1 ≤ c.cost)
    (sup : Supply) (hs : sup.WF) (hsbf : ∀ t d, sup.sbf d ≤ service sigma t d)
    (a : Arr) (C : ℕ) (hwf : a.WF) (hex : a.Exact) (hC : 1 ≤ C)
    (interf : RB) (hwfi : interf.ArrWF) (hexi : interf.Exact)
    (hN : ∀ t d, countOf (Exec.toSys cbs sigma rels H) i t (t + d) ≤ a.N d)
    (hcost : ∀ k < (Exec.toSys cbs sigma rels H).n, (Exec.toSys cbs sigma rels H).task k = i →
      (Exec.toSys cbs sigma rels H).cost k ≤ C)
    (hint : ∀ t d, workOf (Exec.toSys cbs sigma rels H) (fun k => k ≠ i) t (t + d) ≤ interf.need d)
    (limit R : ℕ) (hR : rosPollingPoint sup (.rbf a (.scalar C)) interf limit = .ok R) :
    ∀ j, j < (Exec.toSys cbs sigma rels H).n → (Exec.toSys cbs sigma rels H).task j = i →
      MeetsBound (Exec.toSys cbs sigma rels H) j R :=
  pollingPoint_sound _ sigma i
    (RrSoundLemmas.toTimer (Exec.run_polling_legal cbs sigma rels H hidx hfin hcb) i)
    sup hs hsbf a C hwf hex hC interf hwfi hexi hN hcost hint limit R hR

/-- refinement for chains: every run of the executor transition system WITH a linear chain
`ch = [c₀, …, c_k]` (only `c₀` released externally) satisfies the Spec of `chain_safe` for the
last callback, every callback instance of the chain carrying the arrival time of its source
event (`Exec.toSysC`) -/
theorem executor_runs_are_chain_legal (cbs : List Exec.Cb) (ch : List ℕ) (sigma : ℕ → Bool)
    (rels : ℕ → List ℕ) (H l : ℕ)
    (hch : ch.Nodup) (hne : 2 ≤ ch.length) (hlast : ch.getLast? = some l)
    (hmem : ∀ i ∈ ch, i < cbs.length ∧ (cbs.getD i default).isTimer = false)
    (hidx : ∀ t, ∀ i ∈ rels t, i < cbs.length)
    (hext : ∀ t, ∀ i ∈ rels t, i ∉ ch.tail)
    (hfin : ∀ t, H ≤ t → rels t = [])
    (hcost : ∀ c ∈ cbs, 1 ≤ c.cost) :
    SupplyTimerLegal (Exec.toSysC cbs ch sigma rels H) sigma l (fun k => k ≠ l) :=
  Exec.run_chain_legal cbs ch sigma rels H l hch hne hlast hmem hidx hext hfin hcost

/-- C04, processing chain, over the transition system itself: in every run, the last callback
of every chain instance has received its full service within `R` of the source event -/
theorem chain_safe_lts (cbs : List Exec.Cb) (ch : List ℕ) (sigma : ℕ → Bool)
    (rels : ℕ → List ℕ) (H l : ℕ)
    (hch : ch.Nodup) (hne : 2 ≤ ch.length) (hlast : ch.getLast? = some l)
    (hmem : ∀ i ∈ ch, i < cbs.length ∧ (cbs.getD i default).isTimer = false)
    (hidx : ∀ t, ∀ i ∈ rels t, i < cbs.length)
    (hext : ∀ t, ∀ i ∈ rels t, i ∉ ch.tail)
    (hfin : ∀ t, H ≤ t → rels t = [])
    (hcb : ∀ c ∈ cbs, 1 ≤ c.cost)
    (sup : Supply) (hs : sup.WF) (hsbf : ∀ t d, sup.sbf d ≤ service sigma t d)
    (a : Arr) (C P : ℕ) (hwf : a.WF) (hex : a.Exact) (hC : 1 ≤ C) (hP : 1 ≤ P)
    (others : RB) (hwfo : others.ArrWF) (hexo : others.Exact)
    (hN : ∀ t d, countOf (Exec.toSysC cbs ch sigma rels H) l t (t + d) ≤ a.N d)
    (hcost : ∀ k < (Exec.toSysC cbs ch sigma rels H).n, (Exec.toSysC cbs ch sigma rels H).task k = l →
      (Exec.toSysC cbs ch sigma rels H).cost k ≤ C)
    (hint : ∀ t d, workOf (Exec.toSysC cbs ch sigma rels H) (fun k => k ≠ l) t (t + d) ≤
      (RB.rbf a (.scalar P)).need d + others.need d)
    (limit R : ℕ)
    (hR : rosChain sup (.rbf a (.scalar C)) (.rbf a (.scalar P)) (.rbf a (.scalar (C + P))) others limit = .ok R) :
    ∀ j, j < (Exec.toSysC cbs ch sigma rels H).n → (Exec.toSysC cbs ch sigma rels H).task j = l →
      MeetsBound (Exec.toSysC cbs ch sigma rels H) j R :=
  chain_sound _ sigma l (Exec.run_chain_legal cbs ch sigma rels H l hch hne hlast hmem hidx hext hfin hcb)
    sup hs hsbf a C P hwf hex hC hP others hwfo hexo hN hcost hint limit R hR

/-- response times observed in a run of the executor model: every completed instance of
callback `i` finished within `R` of its release -/
def ExecMeets (cbs : List Exec.Cb) (chain : ℕ → Option ℕ) (sigma : List Bool) (rels : ℕ → List ℕ)
    (i R : ℕ) : Prop :=
  ∀ o ∈ Exec.run cbs chain sigma rels, o.1 = i → o.2.2 ≤ o.2.1 + R

/-- C04, timer, in terms of the completions that the executable `Exec.run` reports on ANY finite
prefix of the supply process: every reported completion `(i, release, completion)` of the
analysed timer satisfies `completion ≤ release + R` (`timer_safe_lts` + `Exec.run_meets_of_sys`) -/
theorem timer_safe_run (cbs : List Exec.Cb) (sigma : ℕ → Bool) (rels : ℕ → List ℕ) (H i : ℕ)
    (hi : i < cbs.length) (hti : (cbs.getD i default).isTimer = true)
    (hidx : ∀ t, ∀ i ∈ rels t, i < cbs.length) (hfin : ∀ t, H ≤ t → rels t = [])
    (hcb : ∀ c ∈ cbs, 1 ≤ c.cost)
    (hdist : ∀ k, k < cbs.length → k ≠ i → (cbs.getD k default).isTimer = true →
      (cbs.getD k default).prio ≠ (cbs.getD i default).prio)
    (sup : Supply) (hs : sup.WF) (hsbf : ∀ t d, sup.sbf d ≤ service sigma t d)
    (a : Arr) (C : ℕ) (hwf : a.WF) (hex : a.Exact) (hC : 1 ≤ C)
    (interf : RB) (hwfi : interf.ArrWF) (hexi : interf.Exact) (B : ℕ)
    (hN : ∀ t d, countOf (Exec.toSys cbs sigma rels H) i t (t + d) ≤ a.N d)
    (hcost : ∀ k < (Exec.toSys cbs sigma rels H).n, (Exec.toSys cbs sigma rels H).task k = i →
      (Exec.toSys cbs sigma rels H).cost k ≤ C)
    (hhp : ∀ t d, workOf (Exec.toSys cbs sigma rels H)
      (fun k => (cbs.getD k default).isTimer = true ∧ (cbs.getD k default).prio < (cbs.getD i default).prio)
      t (t + d) ≤ interf.need d)
    (hB : ∀ k < (Exec.toSys cbs sigma rels H).n,
      ¬ Rel (Exec.toSys cbs sigma rels H) i
        (fun k => (cbs.getD k default).isTimer = true ∧ (cbs.getD k default).prio < (cbs.getD i default).prio) k →
      (Exec.toSys cbs sigma rels H).cost k ≤ B + 1)
    (limit R : ℕ) (hR : rosTimer sup (.rbf a (.scalar C)) interf B limit = .ok R) (n : ℕ) :
    ExecMeets cbs (fun _ => none) ((List.range n).map sigma) rels i R :=
  Exec.run_meets_of_sys cbs sigma rels H hidx hfin hcb i R
    (timer_safe_lts cbs sigma rels H i hi hti hidx hfin hcb hdist sup hs hsbf a C hwf hex hC interf hwfi hexi B
      hN hcost hhp hB limit R hR) n

/-- C04, polling-point callback, in terms of the completions reported by `Exec.run` -/
theorem polling_point_safe_run (cbs : List Exec.Cb) (sigma : ℕ → Bool) (rels : ℕ → List ℕ) (H i : ℕ)
    (hidx : ∀ t, ∀ i ∈ rels t, i < cbs.length) (hfin : ∀ t, H ≤ t → rels t = [])
    (hcb : ∀ c ∈ cbs, 1 ≤ c.cost)
    (sup : Supply) (hs : sup.WF) (hsbf : ∀ t d, sup.sbf d ≤ service sigma t d)
    (a : Arr) (C : ℕ) (hwf : a.WF) (hex : a.Exact) (hC : 1 ≤ C)
    (interf : RB) (hwfi : interf.ArrWF) (hexi : interf.Exact)
    (hN : ∀ t d, countOf (Exec.toSys cbs sigma rels H) i t (t + d) ≤ a.N d)
    (hcost : ∀ k < (Exec.toSys cbs sigma rels H).n, (Exec.toSys cbs sigma rels H).task k = i →
      (Exec.toSys cbs sigma rels H).cost k ≤ C)
    (hint : ∀ t d, workOf (Exec.toSys cbs sigma rels H) (fun k => k ≠ i) t (t + d) ≤ interf.need d)
    (limit R : ℕ) (hR : rosPollingPoint sup (.rbf a (.scalar C)) interf limit = .ok R) (n : ℕ) :
    ExecMeets cbs (fun _ => none) ((List.range n).map sigma) rels i R :=
  Exec.run_meets_of_sys cbs sigma rels H hidx hfin hcb i R
    (polling_point_safe_lts cbs sigma rels H i hidx hfin hcb sup hs hsbf a C hwf hex hC interf hwfi hexi
      hN hcost hint limit R hR) n

/-- **C04, timer, end to end**: every hypothesis is on the INPUTS of the run (callback table,
supply process, release pattern `rels` with `Exec.relCount rels k t d` = releases of `k` in
`[t, t + d)` within the arrival curves), the conclusion on the completions reported by the
executable `Exec.run` — no reference to a derived job system.  The interference handed to
`rta_timer` is the aggregate of the higher-priority timers, the blocking bound `B` at least
the cost − 1 of every other callback. -/
theorem timer_safe_end_to_end (cbs : List Exec.Cb) (sigma : ℕ → Bool) (rels : ℕ → List ℕ) (H i : ℕ)
    (hi : i < cbs.length) (hti : (cbs.getD i default).isTimer = true)
    (hidx : ∀ t, ∀ i ∈ rels t, i < cbs.length) (hfin : ∀ t, H ≤ t → rels t = [])
    (hcb : ∀ c ∈ cbs, 1 ≤ c.cost)
    (hdist : ∀ k, k < cbs.length → k ≠ i → (cbs.getD k default).isTimer = true →
      (cbs.getD k default).prio ≠ (cbs.getD i default).prio)
    (sup : Supply) (hs : sup.WF) (hsbf : ∀ t d, sup.sbf d ≤ service sigma t d)
    (arrs : List Arr) (hlen : arrs.length = cbs.length) (hwf : ∀ a ∈ arrs, a.WF ∧ a.Exact)
    (hrel : ∀ k, k < cbs.length → ∀ t d, Exec.relCount rels k t d ≤ (arrs.getD k default).N d)
    (B : ℕ)
    (hB : ∀ k, k < cbs.length → k ≠ i →
      ¬ ((cbs.getD k default).isTimer = true ∧ (cbs.getD k default).prio < (cbs.getD i default).prio) →
      (cbs.getD k default).cost ≤ B + 1)
    (limit R : ℕ)
    (hR : rosTimer sup (.rbf (arrs.getD i default) (.scalar (cbs.getD i default).cost))
      (.agg (((List.range cbs.length).filter fun k =>
          (cbs.getD k default).isTimer && decide ((cbs.getD k default).prio < (cbs.getD i default).prio)).map
        fun k => .rbf (arrs.getD k default) (.scalar (cbs.getD k default).cost))) B limit = .ok R)
    (n : ℕ) :
    ∀ o ∈ Exec.run cbs (fun _ => none) ((List.range n).map sigma) rels, o.1 = i → o.2.2 ≤ o.2.1 + R :=
  Exec.timer_exec_sound cbs sigma rels H i hi hti hidx hfin hcb hdist sup hs hsbf arrs hlen hwf hrel B hB limit R hR n

/-- **C04, polling-point callback, end to end** (interference: all other callbacks) -/
theorem polling_point_safe_end_to_end (cbs : List Exec.Cb) (sigma : ℕ → Bool) (rels : ℕ → List ℕ) (H i : ℕ)
    (hi : i < cbs.length)
    (hidx : ∀ t, ∀ i ∈ rels t, i < cbs.length) (hfin : ∀ t, H ≤ t → rels t = [])
    (hcb : ∀ c ∈ cbs, 1 ≤ c.cost)
    (sup : Supply) (hs : sup.WF) (hsbf : ∀ t d, sup.sbf d ≤ service sigma t d)
    (arrs : List Arr) (hlen : arrs.length = cbs.length) (hwf : ∀ a ∈ arrs, a.WF ∧ a.Exact)
    (hrel : ∀ k, k < cbs.length → ∀ t d, Exec.relCount rels k t d ≤ (arrs.getD k default).N d)
    (limit R : ℕ)
    (hR : rosPollingPoint sup (.rbf (arrs.getD i default) (.scalar (cbs.getD i default).cost))
      (.agg (((List.range cbs.length).filter fun k => decide (k ≠ i)).map
        fun k => .rbf (arrs.getD k default) (.scalar (cbs.getD k default).cost))) limit = .ok R)
    (n : ℕ) :
    ∀ o ∈ Exec.run cbs (fun _ => none) ((List.range n).map sigma) rels, o.1 = i → o.2.2 ≤ o.2.1 + R :=
  Exec.pollingPoint_exec_sound cbs sigma rels H i hi hidx hfin hcb sup hs hsbf arrs hlen hwf hrel limit R hR n

/-- non-vacuity of `timer_safe_end_to_end`: for the timer of the example run (no higher-priority
timer, blocking bound 2) `rta_timer` returns `Ok(3)`, every hypothesis holds, and every completion
of the timer that `Exec.run` reports is within 3 of its release -/
theorem timer_safe_end_to_end_nonvacuous :
    rosTimer .dedicated (.rbf (Exec.exArrs.getD 0 default) (.scalar (Exec.exCbs.getD 0 default).cost))
      (.agg (((List.range Exec.exCbs.length).filter fun k =>
          (Exec.exCbs.getD k default).isTimer && decide ((Exec.exCbs.getD k default).prio < (Exec.exCbs.getD 0 default).prio)).map
        fun k => .rbf (Exec.exArrs.getD k default) (.scalar (Exec.exCbs.getD k default).cost))) 2 100 = .ok 3 ∧
    ∀ o ∈ Exec.run Exec.exCbs (fun _ => none) ((List.range 60).map Exec.exSigmaAll) Exec.exRels,
      o.1 = 0 → o.2.2 ≤ o.2.1 + 3 :=
  ⟨Exec.timer_example_bound, Exec.timer_example_bounded⟩

/-- **C04, processing chain, end to end**: every hypothesis is on the INPUTS of the run (callback
table, linear chain `ch = [c₀, …, c_k]` of polled callbacks of which only `c₀` is released
externally, supply process, release pattern within the curves: `a` for the chain's source,
`arrs` for the callbacks outside the chain), the conclusion on the completions reported by the
executable `Exec.run`: the `m`-th completion of the last callback is within `R` of the `m`-th
release of the source (`Exec.relTimes`, `Exec.completionsOf`).  `rta_processing_chain` is given
the last callback's WCET, the total WCET of the callbacks before it, and all callbacks outside
the chain as interference. -/
theorem chain_safe_end_to_end (cbs : List Exec.Cb) (ch : List ℕ) (sigma : ℕ → Bool) (rels : ℕ → List ℕ)
    (H l : ℕ)
    (hch : ch.Nodup) (hne : 2 ≤ ch.length) (hlast : ch.getLast? = some l)
    (hmem : ∀ i ∈ ch, i < cbs.length ∧ (cbs.getD i default).isTimer = false)
    (hidx : ∀ t, ∀ i ∈ rels t, i < cbs.length)
    (hext : ∀ t, ∀ i ∈ rels t, i ∉ ch.tail)
    (hfin : ∀ t, H ≤ t → rels t = [])
    (hcb : ∀ c ∈ cbs, 1 ≤ c.cost)
    (sup : Supply) (hs : sup.WF) (hsbf : ∀ t d, sup.sbf d ≤ service sigma t d)
    (a : Arr) (hwf : a.WF) (hex : a.Exact)
    (hsrc : ∀ t d, Exec.relCount rels (ch.headD 0) t d ≤ a.N d)
    (arrs : List Arr) (hlen : arrs.length = cbs.length) (hwfo : ∀ b ∈ arrs, b.WF ∧ b.Exact)
    (hrel : ∀ k, k < cbs.length → k ∉ ch → ∀ t d, Exec.relCount rels k t d ≤ (arrs.getD k default).N d)
    (limit R : ℕ)
    (hR : rosChain sup
      (.rbf a (.scalar (cbs.getD l default).cost))
      (.rbf a (.scalar ((ch.dropLast.map fun i => (cbs.getD i default).cost).sum)))
      (.rbf a (.scalar ((cbs.getD l default).cost + (ch.dropLast.map fun i => (cbs.getD i default).cost).sum)))
      (.agg (((List.range cbs.length).filter fun k => decide (k ∉ ch)).map
        fun k => .rbf (arrs.getD k default) (.scalar (cbs.getD k default).cost))) limit = .ok R)
    (n m : ℕ)
    (hm : m < (Exec.completionsOf (Exec.run cbs (Exec.chainFn ch) ((List.range n).map sigma) rels) l).length) :
    (Exec.completionsOf (Exec.run cbs (Exec.chainFn ch) ((List.range n).map sigma) rels) l).getD m 0 ≤
      (Exec.relTimes rels H (ch.headD 0)).getD m 0 + R :=
  Exec.chain_exec_sound cbs ch sigma rels H l hch hne hlast hmem hidx hext hfin hcb sup hs hsbf a hwf hex hsrc
    arrs hlen hwfo hrel limit R hR n m hm

/-- non-vacuity of `chain_safe_end_to_end`: a timer and a chain of two polled callbacks on a
dedicated processor, periodic releases: every hypothesis holds, `rta_processing_chain` returns
`Ok(6)`, the run reports the completions 6 and 26 of the chain for the source releases 0 and
20 — the bound is attained -/
theorem chain_safe_end_to_end_nonvacuous :
    Exec.completionsOf (Exec.run Exec.exCbsC (Exec.chainFn Exec.exChain) ((List.range 60).map Exec.exSigmaC) Exec.exRelsC) 2 = [6, 26] ∧
    Exec.relTimes Exec.exRelsC 40 (Exec.exChain.headD 0) = [0, 20] ∧
    ∀ m, m < (Exec.completionsOf (Exec.run Exec.exCbsC (Exec.chainFn Exec.exChain) ((List.range 60).map Exec.exSigmaC) Exec.exRelsC) 2).length →
      (Exec.completionsOf (Exec.run Exec.exCbsC (Exec.chainFn Exec.exChain) ((List.range 60).map Exec.exSigmaC) Exec.exRelsC) 2).getD m 0 ≤
        (Exec.relTimes Exec.exRelsC 40 (Exec.exChain.headD 0)).getD m 0 + 6 :=
  ⟨Exec.chain_exec_sound_nonvacuous.2.2.2.2.2.2.2.2.2.2.2.2.2.2.2.2.2.1,
   Exec.chain_exec_sound_nonvacuous.2.2.2.2.2.2.2.2.2.2.2.2.2.2.2.2.2.2,
   fun m hm => Exec.chain_example_bounded m hm⟩

/-- **C04, timer, end to end, ALL EXECUTION TIMES**: the executor transition system
`RTA/Spec/Ros2ExecX.lean` lets the instance of callback `k` that starts in slot `t` run for
`ex k t` slots, anywhere between 1 and the callback's WCET (`hex`); everything else as in
`timer_safe_end_to_end` -/
theorem timer_safe_all_execution_times (cbs : List Exec.Cb) (ex : ℕ → ℕ → ℕ) (sigma : ℕ → Bool) (rels : ℕ → List ℕ) (H i : ℕ)
    (hi : i < cbs.length) (hti : (cbs.getD i default).isTimer = true)
    (hidx : ∀ t, ∀ i ∈ rels t, i < cbs.length) (hfin : ∀ t, H ≤ t → rels t = [])
    (hex : ∀ k, k < cbs.length → ∀ t, 1 ≤ ex k t ∧ ex k t ≤ (cbs.getD k default).cost)
    (hdist : ∀ k, k < cbs.length → k ≠ i → (cbs.getD k default).isTimer = true →
      (cbs.getD k default).prio ≠ (cbs.getD i default).prio)
    (sup : Supply) (hs : sup.WF) (hsbf : ∀ t d, sup.sbf d ≤ service sigma t d)
    (arrs : List Arr) (hlen : arrs.length = cbs.length) (hwf : ∀ a ∈ arrs, a.WF ∧ a.Exact)
    (hrel : ∀ k, k < cbs.length → ∀ t d, Exec.relCount rels k t d ≤ (arrs.getD k default).N d)
    (B : ℕ)
    (hB : ∀ k, k < cbs.length → k ≠ i →
      ¬ ((cbs.getD k default).isTimer = true ∧ (cbs.getD k default).prio < (cbs.getD i default).prio) →
      (cbs.getD k default).cost ≤ B + 1)
    (limit R : ℕ)
    (hR : rosTimer sup (.rbf (arrs.getD i default) (.scalar (cbs.getD i default).cost))
      (.agg (((List.range cbs.length).filter fun k =>
          (cbs.getD k default).isTimer && decide ((cbs.getD k default).prio < (cbs.getD i default).prio)).map
        fun k => .rbf (arrs.getD k default) (.scalar (cbs.getD k default).cost))) B limit = .ok R)
    (n : ℕ) :
    ∀ o ∈ ExecX.run cbs ex (fun _ => none) ((List.range n).map sigma) rels, o.1 = i → o.2.2 ≤ o.2.1 + R :=
  ExecX.timer_exec_sound_x cbs ex sigma rels H i hi hti hidx hfin hex hdist sup hs hsbf arrs hlen hwf hrel B hB limit R hR n

/-- **C04, polling-point callback, end to end, all execution times** -/
theorem polling_point_safe_all_execution_times (cbs : List Exec.Cb) (ex : ℕ → ℕ → ℕ) (sigma : ℕ → Bool) (rels : ℕ → List ℕ) (H i : ℕ)
    (hi : i < cbs.length)
    (hidx : ∀ t, ∀ i ∈ rels t, i < cbs.length) (hfin : ∀ t, H ≤ t → rels t = [])
    (hex : ∀ k, k < cbs.length → ∀ t, 1 ≤ ex k t ∧ ex k t ≤ (cbs.getD k default).cost)
    (sup : Supply) (hs : sup.WF) (hsbf : ∀ t d, sup.sbf d ≤ service sigma t d)
    (arrs : List Arr) (hlen : arrs.length = cbs.length) (hwf : ∀ a ∈ arrs, a.WF ∧ a.Exact)
    (hrel : ∀ k, k < cbs.length → ∀ t d, Exec.relCount rels k t d ≤ (arrs.getD k default).N d)
    (limit R : ℕ)
    (hR : rosPollingPoint sup (.rbf (arrs.getD i default) (.scalar (cbs.getD i default).cost))
      (.agg (((List.range cbs.length).filter fun k => decide (k ≠ i)).map
        fun k => .rbf (arrs.getD k default) (.scalar (cbs.getD k default).cost))) limit = .ok R)
    (n : ℕ) :
    ∀ o ∈ ExecX.run cbs ex (fun _ => none) ((List.range n).map sigma) rels, o.1 = i → o.2.2 ≤ o.2.1 + R :=
  ExecX.pollingPoint_exec_sound_x cbs ex sigma rels H i hi hidx hfin hex sup hs hsbf arrs hlen hwf hrel limit R hR n

/-- **C04, processing chain, end to end, all execution times**: runs of the transition system
with a chain in which every instance runs for any time between 1 and its WCET -/
theorem chain_safe_all_execution_times (cbs : List Exec.Cb) (ex : ℕ → ℕ → ℕ) (ch : List ℕ) (sigma : ℕ → Bool) (rels : ℕ → List ℕ)
    (H l : ℕ)
    (hch : ch.Nodup) (hne : 2 ≤ ch.length) (hlast : ch.getLast? = some l)
    (hmem : ∀ i ∈ ch, i < cbs.length ∧ (cbs.getD i default).isTimer = false)
    (hidx : ∀ t, ∀ i ∈ rels t, i < cbs.length)
    (hext : ∀ t, ∀ i ∈ rels t, i ∉ ch.tail)
    (hfin : ∀ t, H ≤ t → rels t = [])
    (hexec : ∀ k, k < cbs.length → ∀ t, 1 ≤ ex k t ∧ ex k t ≤ (cbs.getD k default).cost)
    (sup : Supply) (hs : sup.WF) (hsbf : ∀ t d, sup.sbf d ≤ service sigma t d)
    (a : Arr) (hwf : a.WF) (hex : a.Exact)
    (hsrc : ∀ t d, Exec.relCount rels (ch.headD 0) t d ≤ a.N d)
    (arrs : List Arr) (hlen : arrs.length = cbs.length) (hwfo : ∀ b ∈ arrs, b.WF ∧ b.Exact)
    (hrel : ∀ k, k < cbs.length → k ∉ ch → ∀ t d, Exec.relCount rels k t d ≤ (arrs.getD k default).N d)
    (limit R : ℕ)
    (hR : rosChain sup
      (.rbf a (.scalar (cbs.getD l default).cost))
      (.rbf a (.scalar ((ch.dropLast.map fun i => (cbs.getD i default).cost).sum)))
      (.rbf a (.scalar ((cbs.getD l default).cost + (ch.dropLast.map fun i => (cbs.getD i default).cost).sum)))
      (.agg (((List.range cbs.length).filter fun k => decide (k ∉ ch)).map
        fun k => .rbf (arrs.getD k default) (.scalar (cbs.getD k default).cost))) limit = .ok R)
    (n m : ℕ)
    (hm : m < (Exec.completionsOf (ExecX.run cbs ex (Exec.chainFn ch) ((List.range n).map sigma) rels) l).length) :
    (Exec.completionsOf (ExecX.run cbs ex (Exec.chainFn ch) ((List.range n).map sigma) rels) l).getD m 0 ≤
      (Exec.relTimes rels H (ch.headD 0)).getD m 0 + R :=
  ExecX.chain_exec_sound_x cbs ex ch sigma rels H l hch hne hlast hmem hidx hext hfin hexec sup hs hsbf a hwf hex
    hsrc arrs hlen hwfo hrel limit R hR n m hm

/-- the transition system with every instance at its WCET is the special case -/
theorem wcet_runs_are_a_special_case (cbs : List Exec.Cb) (chain : ℕ → Option ℕ) (sigma : List Bool)
    (rels : ℕ → List ℕ) :
    ExecX.run cbs (fun i _ => (cbs.getD i default).cost) chain sigma rels = Exec.run cbs chain sigma rels :=
  ExecX.run_wcet cbs chain sigma rels

/-- the claim for the timer analysis phrased over the executor transition system itself
in terms of the completions reported by `Exec.run` (an earlier phrasing, kept for reference:
`timer_safe_lts` above proves the claim for every run, phrased over the job system `Exec.toSys`
of the run — service received by release + `R` — via the refinement
`executor_runs_are_timer_legal`): for every run of the executor on a compliant supply with releases
bounded by the arrival curves, `Ok(R)` of `rta_timer` bounds the response times of the
analysed timer -/
def TimerSafe : Prop :=
  ∀ (cbs : List Exec.Cb) (i : ℕ) (arrs : List Arr) (Q D P : ℕ) (sigma : List Bool) (rels : ℕ → List ℕ)
    (B limit R : ℕ),
    i < cbs.length → (cbs.getD i default).isTimer = true → arrs.length = cbs.length →
    1 ≤ Q → Q ≤ D → D ≤ P →
    (∃ σ, Compliant Q D P σ ∧ ∀ t, t < sigma.length → sigma.getD t false = σ t) →
    (∀ k, k < cbs.length → ∀ t d, ((List.range d).filter fun u => k ∈ rels (t + u)).length ≤ (arrs.getD k default).N d) →
    (∀ k, k < cbs.length → k ≠ i →
      ¬ ((cbs.getD k default).isTimer ∧ (cbs.getD k default).prio < (cbs.getD i default).prio) →
      (cbs.getD k default).cost ≤ B + 1) →
    rosTimer (.constrained Q D P) (.rbf (arrs.getD i default) (.scalar (cbs.getD i default).cost))
      (.agg (((List.range cbs.length).filter fun k =>
          (cbs.getD k default).isTimer && decide ((cbs.getD k default).prio < (cbs.getD i default).prio)).map
        fun k => .rbf (arrs.getD k default) (.scalar (cbs.getD k default).cost))) B limit = .ok R →
    ExecMeets cbs (fun _ => none) sigma rels i R

end RTA.C04
