import RTA.Lemmas.SupplyFifo
import RTA.Spec.Ros2Exec
/-! # C04 — the ECRTS'19 ROS 2 analyses are safe under reservation supply

Proved here (for all reservation parameters, all compliant budget placements, all compliant
arrival sequences and execution times, all FIFO tie-breaks): the **event-source** analysis.
The executor itself is specified as a labelled transition system (`RTA/Spec/Ros2Exec.lean`:
timers first in priority order, ready set refreshed only when empty, one instance per
callback per polling window, non-preemptive, progress only in supplied slots); the claims
for the **timer**, **polling-point callback** and **processing-chain** analyses are stated
over that model (`TimerSafe`, `PollingPointSafe`) and are explored — not proved — by the
falsifier, which executes the same model (`vlib/ros_sim.py`, cross-checked against the Lean
definition on every run) under random, late and adversarial budget placements. -/

namespace RTA.C04
open RTA RTA.Sched RTA.Spec

/-- C04, event source: `Ok(R)` of `rta_event_source` is never exceeded -/
theorem event_source_safe (s : Sys) (Q D P : ℕ) (hQ : 1 ≤ Q) (hQD : Q ≤ D) (hDP : D ≤ P)
    (σ : ℕ → Bool) (hσ : Compliant Q D P σ) (hl : SupplyFifoLegal s σ)
    (demand : RB) (hwf : demand.ArrWF) (hex : demand.Exact)
    (hwork : ∀ t d, work s t (t + d) ≤ demand.need d) (limit R : ℕ)
    (hR : rosEventSource (.constrained Q D P) demand limit = .ok R) :
    ∀ j, j < s.n → MeetsBound s j R :=
  eventSource_sound s Q D P hQ hQD hDP σ hσ hl demand hwf hex hwork limit R hR

/-- the same for the periodic reservation (deadline = period) -/
theorem event_source_safe_periodic (s : Sys) (Q P : ℕ) (hQ : 1 ≤ Q) (hQP : Q ≤ P)
    (σ : ℕ → Bool) (hσ : Compliant Q P P σ) (hl : SupplyFifoLegal s σ)
    (demand : RB) (hwf : demand.ArrWF) (hex : demand.Exact)
    (hwork : ∀ t d, work s t (t + d) ≤ demand.need d) (limit R : ℕ)
    (hR : rosEventSource (.periodic Q P) demand limit = .ok R) :
    ∀ j, j < s.n → MeetsBound s j R := by
  have e : rosEventSource (.periodic Q P) demand limit = rosEventSource (.constrained Q P P) demand limit := by
    have h1 : (Supply.periodic Q P).sbf = (Supply.constrained Q P P).sbf := by
      funext x; exact (cSbf_eq_pSbf Q P hQ hQP x).symm
    have h2 : (Supply.periodic Q P).st? = (Supply.constrained Q P P).st? := by
      funext x; simp only [Supply.st?]; rw [cSt_eq_pSt Q P hQ hQP x]
    simp only [rosEventSource, rosBound, search, searchWithOffset, h2]
  rw [e] at hR
  exact eventSource_sound s Q P P hQ hQP (Nat.le_refl _) σ hσ hl demand hwf hex hwork limit R hR

/-- and on a dedicated processor -/
theorem event_source_safe_dedicated (s : Sys) (hl : SupplyFifoLegal s (fun _ => true))
    (demand : RB) (hwf : demand.ArrWF) (hex : demand.Exact)
    (hwork : ∀ t d, work s t (t + d) ≤ demand.need d) (limit R : ℕ)
    (hR : rosEventSource .dedicated demand limit = .ok R) :
    ∀ j, j < s.n → MeetsBound s j R :=
  eventSource_sound_dedicated s hl demand hwf hex hwork limit R hR

/-- the schedule half in isolation: any supply-bound function that lower-bounds the
delivered service works (covers user-defined supplies) -/
theorem fifo_on_supply (s : Sys) (σ : ℕ → Bool) (hl : SupplyFifoLegal s σ) (sbf rbf : ℕ → ℕ)
    (hsbf : ∀ t d, sbf d ≤ service σ t d) (hwork : ∀ t d, work s t (t + d) ≤ rbf d)
    (L R : ℕ) (hLfix : rbf L ≤ sbf L) (hL : 0 < L) (hR : ∀ A, A ≤ L → rbf (A + 1) ≤ sbf (A + R))
    (j : ℕ) (hj : j < s.n) : svc s j (s.arr j + R) = s.cost j :=
  supply_fifo_sound s σ hl sbf rbf hsbf hwork L R hLfix hL hR j hj

/-- response times observed in a run of the executor model: every completed instance of
callback `i` finished within `R` of its release -/
def ExecMeets (cbs : List Exec.Cb) (chain : ℕ → Option ℕ) (sigma : List Bool) (rels : ℕ → List ℕ)
    (i R : ℕ) : Prop :=
  ∀ o ∈ Exec.run cbs chain sigma rels, o.1 = i → o.2.2 ≤ o.2.1 + R

/-- the full claim for the timer analysis over the executor model (stated; explored by the
falsifier; not proved): for every run of the executor on a compliant supply with releases
bounded by the arrival curves, `Ok(R)` of `rta_timer` bounds the response times of the
analysed timer -/
def TimerSafe : Prop :=
  ∀ (cbs : List Exec.Cb) (i : ℕ) (arrs : List Arr) (Q D P : ℕ) (sigma : List Bool) (rels : ℕ → List ℕ)
    (B limit R : ℕ),
    i < cbs.length → (cbs.getD i default).isTimer = true → arrs.length = cbs.length →
    1 ≤ Q → Q ≤ D → D ≤ P →
    (∃ σ, Compliant Q D P σ ∧ ∀ t, t < sigma.length → sigma.getD t false = σ t) →
    (∀ k, k < cbs.length → ∀ t d, ((List.range d).filter fun u => k ∈ rels (t + u)).length ≤ (arrs.getD k default).N d) →
    (∀ k, k < cbs.length → k ≠ i →
      ¬ ((cbs.getD k default).isTimer ∧ (cbs.getD k default).prio < (cbs.getD i default).prio) →
      (cbs.getD k default).cost ≤ B + 1) →
    rosTimer (.constrained Q D P) (.rbf (arrs.getD i default) (.scalar (cbs.getD i default).cost))
      (.agg (((List.range cbs.length).filter fun k =>
          (cbs.getD k default).isTimer && decide ((cbs.getD k default).prio < (cbs.getD i default).prio)).map
        fun k => .rbf (arrs.getD k default) (.scalar (cbs.getD k default).cost))) B limit = .ok R →
    ExecMeets cbs (fun _ => none) sigma rels i R

end RTA.C04
