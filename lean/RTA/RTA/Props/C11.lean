import RTA.Lemmas.ArrAll
import RTA.Lemmas.Demand
import RTA.Lemmas.RBSteps
/-! # C11 — `steps_iter` yields exactly the points where a bound increases

Model: `Arr.stepsUpTo a H` / `RB.stepsUpTo r H` = `steps_iter().take_while(|x| x ≤ H)`;
the theorems hold for every horizon `H`, i.e. over an arbitrarily long prefix of the
iterator.  `StepsSpec N H l`: `l` is strictly increasing and `δ ∈ l ↔ 1 ≤ δ ≤ H ∧ N (δ-1) < N δ`.

The full statement (for ALL well-formed arrival models) is FALSE for the code as it is:
a genuine defect was found by the failing proof obligations and is replayed on the real
crate by the falsifier (finding K1; counterexample theorem below).  Two further findings are
FIXED in the Rust code and the model follows the fixes:
F2 (`Propagated::steps_iter` yielded the step 1 even if nothing arrives within the jitter;
"fix: Propagated::steps_iter yields 1 only if the curve steps there"; the formerly failing
instance is now proved exact, `propagated_over_nothing_exact`) and
F3 (for delta-min vectors ending in a plateau `steps_iter` missed the increases of
`number_arrivals` at multiples of the largest distance; fixed in `Curve::number_arrivals`,
which now splits `delta` into whole periods plus a remainder in `1 ..= last`; the formerly
failing instance `[5, 10, 10]` and every well-formed delta-min vector are now proved exact,
`plateau_ended_curve_exact`, `curve_exact`).  The proved statement `steps_exact_partial`
carries the hypothesis `Arr.Exact` that excludes exactly the one remaining shape — K1
(`ArrivalCurvePrefix` yields 0, unless filtered by a `Propagated`); nothing else is
excluded. -/

namespace RTA.C11
open RTA

/-- the full claim of C11 for arrival bounds (false as it stands; see the counterexamples) -/
def StepsExactForAll : Prop :=
  ∀ (a : Arr), a.WF → ∀ H, StepsSpec a.N H (a.stepsUpTo H)

/-- C11 (partial: all arrival models except the shape of finding K1):
strictly increasing, every yielded `δ ≥ 1`, and `δ` is yielded iff the bound increases at `δ` -/
theorem steps_exact_partial (a : Arr) (hwf : a.WF) (hex : a.Exact) (H : Nat) :
    StepsSpec a.N H (a.stepsUpTo H) := Arr.steps_spec a hwf hex H

/-- never yields 0, starts with 1 whenever anything can arrive in a unit window -/
theorem steps_positive_partial (a : Arr) (hwf : a.WF) (hex : a.Exact) (H : Nat) :
    (∀ δ ∈ a.stepsUpTo H, 1 ≤ δ) ∧ (1 ≤ H → 0 < a.N 1 → (a.stepsUpTo H).head? = some 1) := by
  have hs := Arr.steps_spec a hwf hex H
  refine ⟨fun δ hδ => ((hs.2 δ).1 hδ).1, ?_⟩
  intro hH hN
  have h1 : 1 ∈ a.stepsUpTo H := (hs.2 1).2 ⟨Nat.le_refl _, hH, by simpa [Arr.N_zero] using hN⟩
  cases hl : a.stepsUpTo H with
  | nil => rw [hl] at h1; cases h1
  | cons x xs =>
    rw [hl] at h1 hs
    simp only [List.head?_cons]
    have hx : 1 ≤ x := ((hs.2 x).1 (by simp)).1
    rcases List.mem_cons.1 h1 with h | h
    · rw [← h]
    · have := (List.pairwise_cons.1 hs.1).1 1 h
      omega

/-- empty when nothing can arrive -/
theorem steps_empty_of_no_arrivals (a : Arr) (hwf : a.WF) (hex : a.Exact) (H : Nat)
    (hz : ∀ d, a.N d = 0) : a.stepsUpTo H = [] := by
  have hs := Arr.steps_spec a hwf hex H
  cases hl : a.stepsUpTo H with
  | nil => rfl
  | cons x xs =>
    have := (hs.2 x).1 (by rw [hl]; simp)
    rw [hz, hz] at this
    omega

/-- former finding F3 (fixed in the Rust code: `Curve::number_arrivals` takes the remainder
in `1 ..= last`): a delta-min vector ending in a plateau now satisfies the steps Spec -/
theorem plateau_ended_curve_exact :
    StepsSpec (Arr.curve [5, 10, 10]).N 20 ((Arr.curve [5, 10, 10]).stepsUpTo 20) :=
  Arr.steps_spec (.curve [5, 10, 10]) (by decide) (by simp only [Arr.Exact]) 20

/-- the general fact behind it: `Curve::steps_iter` is exact for EVERY well-formed delta-min
vector, plateau-ended or not (no `curveExact` side condition any more) -/
theorem curve_exact (d : List Nat) (hwf : curveWF d) (H : Nat) :
    StepsSpec (Arr.curve d).N H ((Arr.curve d).stepsUpTo H) :=
  Arr.steps_spec (.curve d) (by simpa only [Arr.WF] using hwf) (by simp only [Arr.Exact]) H

/-- former finding F2 (fixed in the Rust code: "fix: Propagated::steps_iter yields 1 only if
the curve steps there"): `Propagated` over a model under which nothing ever arrives is now
exact — no step is yielded -/
theorem propagated_over_nothing_exact :
    (Arr.prop 3 .never).stepsUpTo 10 = [] ∧
    StepsSpec (Arr.prop 3 .never).N 10 ((Arr.prop 3 .never).stepsUpTo 10) :=
  ⟨prop_never_steps, prop_never_steps_spec⟩

/-- the general fact behind it: `Propagated` over any exact inner model (up to the leading 0
of a prefix, which the jitter shift filters out) is exact, with no side condition on what
arrives within the jitter -/
theorem propagated_exact (J : Nat) (a : Arr) (hwf : a.WF) (hex : a.Exact0) (H : Nat) :
    StepsSpec (Arr.prop J a).N H ((Arr.prop J a).stepsUpTo H) :=
  Arr.steps_spec (.prop J a) (by simpa only [Arr.WF] using hwf)
    (by simpa only [Arr.Exact] using hex) H

/-- finding K1: `ArrivalCurvePrefix::steps_iter` yields 0 -/
theorem counterexample_K1 : ¬ StepsExactForAll := by
  intro h
  have hs := h (.pfx 10 [(1, 1), (4, 2)]) (by decide) 5
  have h0 : 0 ∈ (Arr.pfx 10 [(1, 1), (4, 2)]).stepsUpTo 5 := by
    simp only [Arr.stepsUpTo]
    exact prefix_steps_yield_zero _ _ _
  have := (hs.2 0).1 h0
  omega

/-- apart from the leading 0 an `ArrivalCurvePrefix` (and anything built from exact parts)
is exact -/
theorem steps_exact_upto_zero (a : Arr) (hwf : a.WF) (hex : a.Exact0) (H : Nat) :
    StepsSpec0 a.N H (a.stepsUpTo H) := Arr.steps_spec0 a hwf hex H

/-- C11 for request bounds (RBF, Aggregate, Slice, nested): presupposing that every job has
a positive cost, `steps_iter` yields exactly the increase points of `service_needed` -/
theorem rb_steps_exact_partial (r : RB) (hwf : r.ArrWF) (hex : r.Exact) (H : Nat) :
    StepsSpec r.need H (r.stepsUpTo H) := RB.steps_spec r hwf hex H

/-- `demand::step_offsets` (the analyses' search spaces) never underflows on exact request
bounds, yields exactly the offsets `A < L` at which the demand increases, and starts with
`A = 0` whenever there is demand in a unit interval -/
theorem step_offsets_exact_partial (r : RB) (hwf : r.ArrWF) (hex : r.Exact) (L : Nat) :
    (∃ as, r.offsetsBelow L = some as ∧ as.Pairwise (· < ·) ∧
      ∀ A, A ∈ as ↔ (A < L ∧ r.need A < r.need (A + 1))) ∧
    (1 ≤ L → 0 < r.need 1 → ∃ rest, r.offsetsBelow L = some (0 :: rest)) :=
  ⟨RB.offsetsBelow_spec r hwf hex L, fun hL h1 => RB.offsetsBelow_head r hwf hex L hL h1⟩

/-- the exactness hypothesis is satisfiable by a non-trivial nested model -/
example : (Arr.agg [.sporadic 7 9, .prop 4 (.curve [2, 5, 9]), .xcurve [0, 3]]).WF ∧
    (Arr.agg [.sporadic 7 9, .prop 4 (.curve [2, 5, 9]), .xcurve [0, 3]]).Exact := by
  refine ⟨by decide, ?_⟩
  simp only [Arr.Exact, Arr.ExactList, Arr.Exact0, and_true]

end RTA.C11
