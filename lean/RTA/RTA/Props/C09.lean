import RTA.Lemmas.Supply
/-! # C09 — supply-bound functions are exact and `service_time` is their exact inverse

Property theorems only.  Model: `RTA/Model/Supply.lean`; Spec of "placing the budget
inside each period (within the deadline)": `RTA/Spec/SupplyProc.lean`. -/

namespace RTA.C09

open RTA RTA.Spec

/-- zero at zero, non-decreasing, at most one per time unit — every well-formed supply
(dedicated, periodic, constrained, user-defined wrapper) -/
theorem sbf_laws (s : Supply) (hs : s.WF) :
    s.sbf 0 = 0 ∧ ∀ t, s.sbf t ≤ s.sbf (t + 1) ∧ s.sbf (t + 1) ≤ s.sbf t + 1 :=
  ⟨Supply.sbf_zero s hs, Supply.sbf_lipschitz s hs⟩

/-- `service_time d` is the smallest `t` with `provided_service t ≥ d`: for the
specialised implementations and for the trait's default implementation alike
(`st?` runs the default jump-ahead loop for `viaDefault`). -/
theorem service_time_least (s : Supply) (hs : s.WF) (d : Nat) :
    ∃ t, s.st? d = some t ∧ d ≤ s.sbf t ∧ ∀ t', d ≤ s.sbf t' → t ≤ t' := by
  refine ⟨s.stClosed d, Supply.st?_eq s hs d, ?_, ?_⟩
  · exact (Supply.galois s hs d _).1 (Nat.le_refl _)
  · intro t' h
    exact (Supply.galois s hs d t').2 h

/-- exactness, lower half: in every window of every compliant placement of the budget
the reservation delivers at least `provided_service Δ` -/
theorem provided_service_sound (Q D P : Nat) (hQ : 1 ≤ Q) (hQD : Q ≤ D) (hDP : D ≤ P)
    (σ : Nat → Bool) (hσ : Compliant Q D P σ) (s Δ : Nat) :
    (Supply.constrained Q D P).sbf Δ ≤ service σ s Δ :=
  cSbf_sound Q D P hQ hQD hDP σ hσ s Δ

/-- exactness, upper half: some compliant placement and window deliver exactly
`provided_service Δ` (so it is the minimum) -/
theorem provided_service_attained (Q D P : Nat) (hQ : 1 ≤ Q) (hQD : Q ≤ D) (hDP : D ≤ P)
    (Δ : Nat) :
    ∃ σ s, Compliant Q D P σ ∧ service σ s Δ = (Supply.constrained Q D P).sbf Δ :=
  ⟨worst Q D P, Q, worst_compliant Q D P hQ hQD hDP, cSbf_attained Q D P hQ hQD hDP Δ⟩

/-- the same two halves for the periodic reservation (deadline = period) -/
theorem periodic_exact (Q P : Nat) (hQ : 1 ≤ Q) (hQP : Q ≤ P) (Δ : Nat) :
    (∀ σ, Compliant Q P P σ → ∀ s, (Supply.periodic Q P).sbf Δ ≤ service σ s Δ) ∧
    (∃ σ s, Compliant Q P P σ ∧ service σ s Δ = (Supply.periodic Q P).sbf Δ) := by
  have e : (Supply.periodic Q P).sbf Δ = cSbf Q P P Δ := (cSbf_eq_pSbf Q P hQ hQP Δ).symm
  rw [e]
  exact ⟨fun σ hσ s => cSbf_sound Q P P hQ hQP (Nat.le_refl _) σ hσ s Δ,
    ⟨worst Q P P, Q, worst_compliant Q P P hQ hQP (Nat.le_refl _),
      cSbf_attained Q P P hQ hQP (Nat.le_refl _) Δ⟩⟩

/-- a constrained reservation with deadline = period equals the periodic one -/
theorem constrained_eq_periodic (Q P : Nat) (hQ : 1 ≤ Q) (hQP : Q ≤ P) (x : Nat) :
    (Supply.constrained Q P P).sbf x = (Supply.periodic Q P).sbf x ∧
    (Supply.constrained Q P P).st? x = (Supply.periodic Q P).st? x := by
  refine ⟨cSbf_eq_pSbf Q P hQ hQP x, ?_⟩
  simp only [Supply.st?]
  rw [cSt_eq_pSt Q P hQ hQP x]

/-- budget = period equals a dedicated processor -/
theorem full_budget_eq_dedicated (P : Nat) (hP : 1 ≤ P) (x : Nat) :
    (Supply.periodic P P).sbf x = Supply.dedicated.sbf x ∧
    (Supply.periodic P P).st? x = Supply.dedicated.st? x ∧
    (Supply.constrained P P P).sbf x = Supply.dedicated.sbf x ∧
    (Supply.constrained P P P).st? x = Supply.dedicated.st? x := by
  have h1 := pSbf_full P hP x
  have h2 := pSt_full P hP x
  have h3 := cSbf_eq_pSbf P P hP (Nat.le_refl _) x
  have h4 := cSt_eq_pSt P P hP (Nat.le_refl _) x
  simp only [Supply.sbf, Supply.st?]
  refine ⟨h1, by rw [h2], by rw [h3, h1], by rw [h4, h2]⟩

/-- non-vacuity: a compliant process exists for a non-trivial reservation, and the
bound is met with equality there -/
example : service (worst 2 3 5) 2 9 = (Supply.constrained 2 3 5).sbf 9 := by decide

end RTA.C09
