import RTA.Lemmas.Tight
import RTA.Lemmas.FpSound
/-! # C18 — fully preemptive FP, non-preemptive FP and FIFO bounds are attained

Proved here: the FIFO part, at full generality for task sets whose arrival curves are
realised by one release sequence per task (all tasks aligned at a common instant `t₀`):
in EVERY legal FIFO schedule of such a job set (all jobs executing for their WCET) some
job has a response time exactly equal to the bound, and a legal FIFO schedule exists for
every job set.  Sporadic tasks with release jitter (and periodic tasks, `J = 0`) have
such realising sequences (`criticalInstantAt`).

The fully preemptive and the fully non-preemptive fixed-priority parts are stated
(`FpPreemptiveTight`, `FpNonpreemptiveTight`) and explored by the falsifier (simulation of
the critical-instant schedule; a bound larger than the witnessed response time is reported
as a violation); they are not yet theorems. -/

namespace RTA.C18
open RTA RTA.Sched RTA.Spec

/-- every job set has a legal FIFO schedule -/
theorem legal_fifo_schedule_exists (js : JobSet) (hpos : ∀ k, k < js.n → 1 ≤ js.cost k) :
    ∃ sched, FifoLegal (js.withSched sched) := exists_fifo_schedule js hpos

/-- C18 for FIFO: the bound is attained -/
theorem fifo_bound_is_tight (s : Sys) (hl : FifoLegal s) (ts : List (Arr × ℕ))
    (hwf : ∀ p ∈ ts, p.1.WF ∧ p.1.Exact ∧ 1 ≤ p.2)
    (hc : Compliant s (ts.map fun p => (p.1, Cost.scalar p.2)))
    (hcost : ∀ k, k < s.n → s.cost k = (ts.getD (s.task k) default).2)
    (limit R L t₀ : ℕ)
    (hR : fifoRta (taskSetRB (ts.map fun p => (p.1, Cost.scalar p.2))) limit = .ok R)
    (hL : naiveSolve (fun x => (taskSetRB (ts.map fun p => (p.1, Cost.scalar p.2))).need x) limit = .ok L)
    (hreal : ∀ i, i < ts.length → RealisesFrom (ts.getD i default).1 (relsOf s i) t₀ L) (hRpos : 0 < R) :
    ∃ j, j < s.n ∧ MeetsBound s j R ∧ ∀ R', R' < R → ¬ MeetsBound s j R' :=
  fifo_bound_attained_from s hl ts hwf hc hcost limit R L t₀ hR hL hreal hRpos

/-- sporadic tasks with release jitter are realisable: the critical-instant sequence aligned
at any `t₀ ≥ J` is admissible and has exactly `number_arrivals(Δ)` releases in `[t₀, t₀ + Δ)` -/
theorem sporadic_realisable (T J n H t₀ : ℕ) (hT : 1 ≤ T) (hJ : J ≤ t₀)
    (hn : (Arr.sporadic T J).N H ≤ n) :
    Admissible (.sporadic T J) (criticalInstantAt T J n t₀) ∧
    RealisesFrom (.sporadic T J) (criticalInstantAt T J n t₀) t₀ H :=
  ⟨criticalInstantAt_admissible T J n t₀ hT, criticalInstantAt_realisesFrom T J n H t₀ hT hJ hn⟩

/-- lower bound valid in every legal FIFO schedule: some job released at `t₀ + A` cannot
complete before all work released in `[t₀, t₀ + A]` is done -/
theorem fifo_lower_bound (s : Sys) (hl : FifoLegal s) (t₀ A : ℕ)
    (hex : ∃ j, j < s.n ∧ s.arr j = t₀ + A) (hpos : ∀ k, k < s.n → 1 ≤ s.cost k) :
    ∃ j, j < s.n ∧ s.arr j = t₀ + A ∧ ∀ R, MeetsBound s j R → work s t₀ (t₀ + A + 1) ≤ A + R :=
  fifo_response_lower_bound_from s hl t₀ A hex hpos

/-- the full claims for fixed priority (stated, explored, not proved): there is a legal
schedule in which a job of the analysed task has response time exactly the bound -/
def FpPreemptiveTight : Prop :=
  ∀ (ts : List (ℕ × ℕ × ℕ)) (i : ℕ),  -- (period, jitter, WCET), index = priority
    i < ts.length → (∀ p ∈ ts, 1 ≤ p.1 ∧ 1 ≤ p.2.2) →
    ∀ limit R, fpPreemptive (.rbf (.sporadic (ts.getD i default).1 (ts.getD i default).2.1)
        (.scalar (ts.getD i default).2.2))
      ((ts.take i).map fun p => .rbf (.sporadic p.1 p.2.1) (.scalar p.2.2)) limit = .ok R →
    ∃ (s : Sys) (pr : ℕ → ℕ), JlfpLegal s (hepFP s pr) ∧ (∀ l x, ¬ s.np l x) ∧
      ∃ j, j < s.n ∧ s.task j = i ∧ MeetsBound s j R ∧ ∀ R', R' < R → ¬ MeetsBound s j R'

end RTA.C18
