import RTA.Lemmas.Tight
import RTA.Lemmas.FpSound
import RTA.Lemmas.TightFP
import RTA.Lemmas.TightNP
import RTA.Lemmas.Realisable
import RTA.Lemmas.TightExists
import RTA.Lemmas.TightExistsFP
import RTA.Lemmas.TightExistsNP
import RTA.Lemmas.TightExistsMixed
/-! # C18 — fully preemptive FP, non-preemptive FP and FIFO bounds are attained

Proved here: the FIFO part, at full generality for task sets whose arrival curves are
realised by one release sequence per task (all tasks aligned at a common instant `t₀`):
in EVERY legal FIFO schedule of such a job set (all jobs executing for their WCET) some
job has a response time exactly equal to the bound, and a legal FIFO schedule exists for
every job set.  Sporadic tasks with release jitter (and periodic tasks, `J = 0`) have
such realising sequences (`criticalInstantAt`).

The fully preemptive and the fully non-preemptive fixed-priority parts are proved in the same
form (`fp_preemptive_bound_is_tight`, `fp_nonpreemptive_bound_is_tight`: in EVERY legal
schedule of a job set that realises the curves of the analysed task and of the
higher-priority tasks from a common instant, with the analysed task's jobs at their WCET —
and, for the non-preemptive analysis with a positive blocking bound, a lower-priority job of
cost `B + 1` started one slot earlier — some job of the analysed task has a response time
exactly equal to the bound; `legal_fp_schedule_exists`).  Realisability of the three curve
families named in the statement: periodic / sporadic with jitter (`sporadic_realisable`) and
auto-extrapolating super-additive delta-min curves (`extrapolating_curve_realisable`: the
densest event sequence is admissible and has exactly `number_arrivals(Δ)` events in every
window starting at the critical instant).

The existential statement of the property itself — there IS a legal schedule in which some job
has a response time equal to the bound — is proved for every task set that MIXES the three
families (`fifo_bound_is_attained_mixed`, `fp_preemptive_bound_is_attained_mixed`,
`fp_nonpreemptive_bound_is_attained_mixed`; `Lemmas/TightExistsMixed.lean`, generic in a
realisability witness `RealisableAt`). -/

namespace RTA.C18
open RTA RTA.Sched RTA.Spec

/-- every job set has a legal FIFO schedule -/
theorem legal_fifo_schedule_exists (js : JobSet) (hpos : ∀ k, k < js.n → 1 ≤ js.cost k) :
    ∃ sched, FifoLegal (js.withSched sched) := exists_fifo_schedule js hpos

/-- C18 for FIFO: the bound is attained -/
theorem fifo_bound_is_tight (s : Sys) (hl : FifoLegal s) (ts : List (Arr × ℕ))
    (hwf : ∀ p ∈ ts, p.1.WF ∧ p.1.Exact ∧ 1 ≤ p.2)
    (hc : Compliant s (ts.map fun p => (p.1, Cost.scalar p.2)))
    (hcost : ∀ k, k < s.n → s.cost k = (ts.getD (s.task k) default).2)
    (limit R L t₀ : ℕ)
    (hR : fifoRta (taskSetRB (ts.map fun p => (p.1, Cost.scalar p.2))) limit = .ok R)
    (hL : naiveSolve (fun x => (taskSetRB (ts.map fun p => (p.1, Cost.scalar p.2))).need x) limit = .ok L)
    (hreal : ∀ i, i < ts.length → RealisesFrom (ts.getD i default).1 (relsOf s i) t₀ L) (hRpos : 0 < R) :
    ∃ j, j < s.n ∧ MeetsBound s j R ∧ ∀ R', R' < R → ¬ MeetsBound s j R' :=
  fifo_bound_attained_from s hl ts hwf hc hcost limit R L t₀ hR hL hreal hRpos

/-- C18 for FIFO in its existential form (sporadic tasks with release jitter, periodic tasks
for `J = 0`): there IS a job set complying with the task models and a legal FIFO schedule of
it in which some job has a response time exactly equal to the returned bound -/
theorem fifo_bound_is_attained_by_some_schedule (ts : List (ℕ × ℕ × ℕ))
    (hwf : ∀ p ∈ ts, 1 ≤ p.1 ∧ 1 ≤ p.2.2) (limit R : ℕ)
    (hR : fifoRta (taskSetRB (sporadicSet ts)) limit = .ok R) (hRpos : 0 < R) :
    ∃ s : Sys, FifoLegal s ∧ Compliant s (sporadicSet ts) ∧
      ∃ j, j < s.n ∧ MeetsBound s j R ∧ ∀ R', R' < R → ¬ MeetsBound s j R' :=
  fifo_tight_sporadic ts hwf limit R hR hRpos

/-- C18 for fully preemptive FP in its existential form (sporadic tasks with release jitter;
priorities = task indices; task `i` analysed): there IS a job set complying with the task
models and a legal fully preemptive FP schedule of it in which some job of task `i` has a
response time exactly equal to the returned bound -/
theorem fp_preemptive_bound_is_attained_by_some_schedule (ts : List (ℕ × ℕ × ℕ)) (i : ℕ) (hi : i < ts.length)
    (hwf : ∀ p ∈ ts, 1 ≤ p.1 ∧ 1 ≤ p.2.2) (limit R : ℕ)
    (hR : fpPreemptive (.rbf (.sporadic (ts.getD i default).1 (ts.getD i default).2.1) (.scalar (ts.getD i default).2.2))
      ((ts.take i).map fun p => RB.rbf (.sporadic p.1 p.2.1) (.scalar p.2.2)) limit = .ok R)
    (hRpos : 0 < R) :
    ∃ s : Sys, JlfpLegal s (hepFP s id) ∧ (∀ l x, ¬ s.np l x) ∧
      Compliant s (sporadicSet (ts.take (i + 1))) ∧
      ∃ j, j < s.n ∧ s.task j = i ∧ MeetsBound s j R ∧ ∀ R', R' < R → ¬ MeetsBound s j R' :=
  fp_preemptive_tight_sporadic ts i hi hwf limit R hR hRpos

/-- C18 for fully non-preemptive FP in its existential form (blocking bound `B`): the job set
consists of the tasks `0 … i` at their critical instant plus, if `B > 0`, one lower-priority
job of cost `B + 1` released one slot earlier; there is a legal non-preemptive FP schedule of
it in which some job of task `i` has a response time exactly equal to the returned bound -/
theorem fp_nonpreemptive_bound_is_attained_by_some_schedule (ts : List (ℕ × ℕ × ℕ)) (i : ℕ)
    (hi : i < ts.length) (B : ℕ) (hwf : ∀ p ∈ ts, 1 ≤ p.1 ∧ 1 ≤ p.2.2) (limit R : ℕ)
    (hR : fpNonpreemptive (.sporadic (ts.getD i default).1 (ts.getD i default).2.1) (ts.getD i default).2.2 B
      ((ts.take i).map fun p => RB.rbf (.sporadic p.1 p.2.1) (.scalar p.2.2)) limit = .ok R)
    (hRpos : 0 < R) :
    ∃ s : Sys, JlfpLegal s (hepFP s id) ∧
      (∀ l, l < s.n → ∀ x, 1 ≤ x → x < s.cost l → s.np l x) ∧
      (∀ k, k ≤ i → TaskCompliant s k (.sporadic (ts.getD k default).1 (ts.getD k default).2.1)
          (.scalar (ts.getD k default).2.2)) ∧
      (∀ l, l < s.n → i < s.task l → s.cost l ≤ B + 1) ∧
      ∃ j, j < s.n ∧ s.task j = i ∧ MeetsBound s j R ∧ ∀ R', R' < R → ¬ MeetsBound s j R' :=
  fp_nonpreemptive_tight_sporadic ts i hi B hwf limit R hR hRpos

/-- **C18, full statement, FIFO**: for EVERY task set mixing the arrival models named by the
property — periodic tasks, sporadic tasks with release jitter (`J ≤ t₀`), auto-extrapolating
super-additive delta-min curves (`RealisableKind`) — there IS a job set complying with the
task models and a legal FIFO schedule of it in which some job has a response time exactly
equal to the returned bound -/
theorem fifo_bound_is_attained_mixed (ts : List (Arr × ℕ)) (t₀ : ℕ)
    (hk : ∀ p ∈ ts, RealisableKind p.1 t₀ ∧ 1 ≤ p.2) (limit R : ℕ)
    (hR : fifoRta (taskSetRB (ts.map fun p => (p.1, Cost.scalar p.2))) limit = .ok R) (hRpos : 0 < R) :
    ∃ s : Sys, FifoLegal s ∧ Compliant s (ts.map fun p => (p.1, Cost.scalar p.2)) ∧
      ∃ j, j < s.n ∧ MeetsBound s j R ∧ ∀ R', R' < R → ¬ MeetsBound s j R' :=
  fifo_tight_mixed ts t₀ hk limit R hR hRpos

/-- **C18, full statement, fully preemptive FP** (priorities = task indices, task `i` analysed) -/
theorem fp_preemptive_bound_is_attained_mixed (ts : List (Arr × ℕ)) (i : ℕ) (hi : i < ts.length) (t₀ : ℕ)
    (hk : ∀ p ∈ ts, RealisableKind p.1 t₀ ∧ 1 ≤ p.2) (limit R : ℕ)
    (hR : fpPreemptive (.rbf (ts.getD i default).1 (.scalar (ts.getD i default).2))
      ((ts.take i).map fun p => RB.rbf p.1 (.scalar p.2)) limit = .ok R)
    (hRpos : 0 < R) :
    ∃ s : Sys, JlfpLegal s (hepFP s id) ∧ (∀ l x, ¬ s.np l x) ∧
      Compliant s ((ts.take (i + 1)).map fun p => (p.1, Cost.scalar p.2)) ∧
      ∃ j, j < s.n ∧ s.task j = i ∧ MeetsBound s j R ∧ ∀ R', R' < R → ¬ MeetsBound s j R' :=
  fp_preemptive_tight_mixed ts i hi t₀ hk limit R hR hRpos

/-- **C18, full statement, fully non-preemptive FP** (blocking bound `B`: if `B > 0`, one
lower-priority job of cost `B + 1` released one slot before the common instant `t₀ ≥ 1`) -/
theorem fp_nonpreemptive_bound_is_attained_mixed (ts : List (Arr × ℕ)) (i : ℕ) (hi : i < ts.length) (B t₀ : ℕ) (ht₀ : 1 ≤ t₀)
    (hk : ∀ p ∈ ts, RealisableKind p.1 t₀ ∧ 1 ≤ p.2) (limit R : ℕ)
    (hR : fpNonpreemptive (ts.getD i default).1 (ts.getD i default).2 B
      ((ts.take i).map fun p => RB.rbf p.1 (.scalar p.2)) limit = .ok R)
    (hRpos : 0 < R) :
    ∃ s : Sys, JlfpLegal s (hepFP s id) ∧
      (∀ l, l < s.n → ∀ x, 1 ≤ x → x < s.cost l → s.np l x) ∧
      (∀ k, k ≤ i → TaskCompliant s k (ts.getD k default).1 (.scalar (ts.getD k default).2)) ∧
      (∀ l, l < s.n → i < s.task l → s.cost l ≤ B + 1) ∧
      ∃ j, j < s.n ∧ s.task j = i ∧ MeetsBound s j R ∧ ∀ R', R' < R → ¬ MeetsBound s j R' :=
  fp_nonpreemptive_tight_mixed ts i hi B t₀ ht₀ hk limit R hR hRpos

/-- the three named kinds are well-formed, exact and realisable from `t₀` (an admissible sorted
release sequence attaining the curve in every window from `t₀`, up to every horizon) -/
theorem named_kinds_realisable (a : Arr) (t₀ : ℕ) (h : RealisableKind a t₀) :
    a.WF ∧ a.Exact ∧ RealisableAt a t₀ := realisableKind_spec a t₀ h

/-- non-vacuity: a sporadic task with jitter, a periodic task and a bursty extrapolating curve -/
theorem named_kinds_nonvacuous : RealisableKind (.sporadic 10 3) 3 ∧ RealisableKind (.periodic 7) 3 ∧
    RealisableKind (.xcurve [1, 10, 11]) 3 := by
  refine ⟨Or.inl ⟨10, 3, rfl, by decide, by decide⟩, Or.inr (Or.inl ⟨7, rfl, by decide⟩),
    Or.inr (Or.inr ⟨[1, 10, 11], rfl, by decide, by decide, ?_⟩)⟩
  intro n k hn hk
  have hn' : n < 3 := hn
  have : (n = 1 ∧ k = 0) ∨ (n = 2 ∧ k = 0) ∨ (n = 2 ∧ k = 1) := by omega
  rcases this with ⟨rfl, rfl⟩ | ⟨rfl, rfl⟩ | ⟨rfl, rfl⟩ <;> decide

/-- sporadic tasks with release jitter are realisable: the critical-instant sequence aligned
at any `t₀ ≥ J` is admissible and has exactly `number_arrivals(Δ)` releases in `[t₀, t₀ + Δ)` -/
theorem sporadic_realisable (T J n H t₀ : ℕ) (hT : 1 ≤ T) (hJ : J ≤ t₀)
    (hn : (Arr.sporadic T J).N H ≤ n) :
    Admissible (.sporadic T J) (criticalInstantAt T J n t₀) ∧
    RealisesFrom (.sporadic T J) (criticalInstantAt T J n t₀) t₀ H :=
  ⟨criticalInstantAt_admissible T J n t₀ hT, criticalInstantAt_realisesFrom T J n H t₀ hT hJ hn⟩

/-- lower bound valid in every legal FIFO schedule: some job released at `t₀ + A` cannot
complete before all work released in `[t₀, t₀ + A]` is done -/
theorem fifo_lower_bound (s : Sys) (hl : FifoLegal s) (t₀ A : ℕ)
    (hex : ∃ j, j < s.n ∧ s.arr j = t₀ + A) (hpos : ∀ k, k < s.n → 1 ≤ s.cost k) :
    ∃ j, j < s.n ∧ s.arr j = t₀ + A ∧ ∀ R, MeetsBound s j R → work s t₀ (t₀ + A + 1) ≤ A + R :=
  fifo_response_lower_bound_from s hl t₀ A hex hpos

/-- C18 for fully preemptive FP (priorities = task indices): the bound is attained in every
legal schedule of a job set that realises the curves from `t₀` (`hown`: the analysed task
releases exactly `number_arrivals(Δ)` jobs in `[t₀, t₀+Δ)`; `hhp`: the higher-priority tasks
release exactly their maximal workload; `hcost`: jobs of the analysed task run for the WCET) -/
theorem fp_preemptive_bound_is_tight (s : Sys) (i : ℕ) (a : Arr) (C : ℕ) (hp : List (Arr × ℕ))
    (hS : FpSetting s id i (.rbf a (.scalar C)) (hp.map fun p => RB.rbf p.1 (.scalar p.2)) 0)
    (hnp : ∀ l x, ¬ s.np l x)
    (hwf : a.WF) (hex : a.Exact) (hC : 1 ≤ C)
    (hwfo : ∀ p ∈ hp, p.1.WF ∧ p.1.Exact ∧ 1 ≤ p.2)
    (limit R L t₀ : ℕ)
    (hR : fpPreemptive (.rbf a (.scalar C)) (hp.map fun p => RB.rbf p.1 (.scalar p.2)) limit = .ok R)
    (hL : naiveSolve (fun x => 0 + sumNeed (hp.map fun p => RB.rbf p.1 (.scalar p.2)) x +
        (RB.rbf a (.scalar C)).need x) limit = .ok L)
    (hown : ∀ Δ, Δ ≤ L → cntOf s (fun x => x = i) t₀ (t₀ + Δ) = a.N Δ)
    (hcost : ∀ k, k < s.n → s.task k = i → s.cost k = C)
    (hhp : ∀ Δ, Δ ≤ L → workOf s (fun x => x < i) t₀ (t₀ + Δ) =
        sumNeed (hp.map fun p => RB.rbf p.1 (.scalar p.2)) Δ)
    (hRpos : 0 < R) :
    ∃ j, j < s.n ∧ s.task j = i ∧ MeetsBound s j R ∧ ∀ R', R' < R → ¬ MeetsBound s j R' :=
  fp_preemptive_bound_attained s i a C hp hS hnp hwf hex hC hwfo limit R L t₀ hR hL hown hcost hhp hRpos

/-- C18 for fully non-preemptive FP -/
theorem fp_nonpreemptive_bound_is_tight (s : Sys) (i : ℕ) (a : Arr) (C B : ℕ) (hp : List (Arr × ℕ))
    (hS : FpSetting s id i (.rbf a (.scalar C)) (hp.map fun p => RB.rbf p.1 (.scalar p.2)) B)
    (hnpall : ∀ l, l < s.n → ∀ x, 1 ≤ x → x < s.cost l → s.np l x)
    (hwf : a.WF) (hex : a.Exact) (hC : 1 ≤ C)
    (hwfo : ∀ p ∈ hp, p.1.WF ∧ p.1.Exact ∧ 1 ≤ p.2)
    (limit R L t₀ : ℕ)
    (hR : fpNonpreemptive a C B (hp.map fun p => RB.rbf p.1 (.scalar p.2)) limit = .ok R)
    (hL : naiveSolve (fun x => B + sumNeed (hp.map fun p => RB.rbf p.1 (.scalar p.2)) x +
        (RB.rbf a (.scalar C)).need x) limit = .ok L)
    (hcnt : ∀ t d, cntOf s (fun x => x = i) t (t + d) ≤ a.N d)
    (hown : ∀ Δ, Δ ≤ L → cntOf s (fun x => x = i) t₀ (t₀ + Δ) = a.N Δ)
    (hcost : ∀ k, k < s.n → s.task k = i → s.cost k = C)
    (hhp : ∀ Δ, Δ ≤ L → workOf s (fun x => x < i) t₀ (t₀ + Δ) =
        sumNeed (hp.map fun p => RB.rbf p.1 (.scalar p.2)) Δ)
    (hblock : B = 0 ∨ ∃ b, b < s.n ∧ i < s.task b ∧ s.cost b = B + 1 ∧ 1 ≤ t₀ ∧
        s.sched (t₀ - 1) = some b ∧ svc s b (t₀ - 1) = 0)
    (hRpos : 0 < R) :
    ∃ j, j < s.n ∧ s.task j = i ∧ MeetsBound s j R ∧ ∀ R', R' < R → ¬ MeetsBound s j R' :=
  fp_nonpreemptive_bound_attained s i a C B hp hS hnpall hwf hex hC hwfo limit R L t₀ hR hL hcnt hown hcost
    hhp hblock hRpos

/-- auto-extrapolating super-additive delta-min curves are realisable: the densest event
sequence from `t₀` is admissible for the curve and realises it up to every horizon that the
extrapolated entries cover (and enough entries exist for every horizon) -/
theorem extrapolating_curve_realisable (d : List ℕ) (hwf : curveWF d) (h2 : 2 ≤ d.length)
    (hsa : SuperAdditive d) (t₀ H : ℕ) :
    ∃ n, Admissible (.xcurve d) (densest d n t₀) ∧ RealisesFrom (.xcurve d) (densest d n t₀) t₀ H := by
  obtain ⟨n, hn⟩ := densest_covers d hwf h2 H
  exact ⟨n, densest_admissible d hwf h2 hsa n t₀, densest_realises d hwf h2 hsa n t₀ H hn⟩

/-- every job set has a legal fully preemptive fixed-priority schedule -/
theorem legal_fp_schedule_exists (js : JobSet) (hpos : ∀ k, k < js.n → 1 ≤ js.cost k) :
    ∃ sched, JlfpLegal (js.withSched sched) (hepFP (js.withSched sched) id) :=
  exists_fp_preemptive_schedule js hpos

end RTA.C18
