import RTA.Lemmas.Extrapolate
import RTA.Lemmas.XCurveLTS
/-! # C13 — curve extrapolation is conservative, only tightens, and is invisible as a cache

Model: `extrapolate`, `extrapolateSteps`, `extrapolateWithBound`, `xcurveN`/`xcurveSteps`
(the pure semantics of `ExtrapolatingCurve`) and the cache state machine
`RTA/Model/XCurve.lean`.  `iterExt d n` = the prefix `d` extended `n` times. -/

namespace RTA.C13
open RTA RTA.Spec

/-- `extrapolate` / `extrapolate_steps` only append: all values inside the original prefix
are unchanged -/
theorem prefix_unchanged (d : List Nat) (h fuel : Nat) :
    (extrapolate d h fuel).take d.length = d ∧ (extrapolateSteps d h fuel).take d.length = d := by
  obtain ⟨n, hn⟩ := extrapolate_is_iterExt d h fuel
  obtain ⟨m, hm⟩ := extrapolateSteps_is_iterExt d h fuel
  rw [hn, hm]
  exact ⟨iterExt_take d n, iterExt_take d m⟩

/-- `extrapolate_with_bound` appends at most one entry and leaves the prefix unchanged -/
theorem with_bound_prefix_unchanged (d : List Nat) (delta njobs : Nat) :
    (extrapolateWithBound d delta njobs).take d.length = d := by
  unfold extrapolateWithBound
  simp only []
  split
  · split <;> simp
  · simp

/-- conservative: every event sequence that respects the original prefix respects every
extrapolation of it, hence is still bounded by the extrapolated curve -/
theorem still_bounds (d : List Nat) (hwf : curveWF d) (h2 : 2 ≤ d.length) (h fuel : Nat)
    (rels : List Nat) (hr : Respects d rels) (t x : Nat) :
    cnt rels t x ≤ curveN (extrapolate d h fuel) x := by
  obtain ⟨n, hn⟩ := extrapolate_is_iterExt d h fuel
  rw [hn]
  exact curve_bounds _ (iterExt_wf d hwf n) rels (respects_iterExt d rels h2 hr n) t x

/-- only tightens (partial: window lengths below the largest extrapolated distance):
never more arrivals than the un-extrapolated curve claims -/
theorem only_tightens_partial (d : List Nat) (hwf : curveWF d) (h2 : 2 ≤ d.length) (h fuel x : Nat)
    (hx : x < (extrapolate d h fuel).getLastD 0) :
    curveN (extrapolate d h fuel) x ≤ curveN d x := by
  obtain ⟨n, hn⟩ := extrapolate_is_iterExt d h fuel
  rw [hn] at hx ⊢
  exact curveN_iterExt_le d hwf h2 n x hx

/-- the full claim "never yields more arrivals than the un-extrapolated curve" -/
def OnlyTightensEverywhere : Prop :=
  ∀ d, curveWF d → ∀ h x, curveN (extrapolate d h (extrapolateFuel d h)) x ≤ curveN d x

/-- finding F6: beyond the extrapolated horizon the full claim is false
(`Curve [1, 10]` extrapolated to horizon 11 claims 5 arrivals in a window of 13, the
original 4) -/
theorem counterexample_F6 : ¬ OnlyTightensEverywhere := by
  intro h
  have := h [1, 10] (by decide) 11 13
  have h2 := extrapolate_loosens_beyond_horizon
  omega

/-- extrapolation terminates: the model's fuel always suffices to reach the horizon -/
theorem extrapolate_terminates (d : List Nat) (hwf : curveWF d) (h2 : 2 ≤ d.length) (h : Nat) :
    h ≤ (extrapolate d h (extrapolateFuel d h)).getLastD 0 := extrapolate_reaches d hwf h2 h

/-- `ExtrapolatingCurve`: never more than the plain curve (for EVERY window length), still
a bound for every sequence respecting the original prefix, zero at zero, monotone -/
theorem extrapolating_curve_sound (d : List Nat) (hwf : curveWF d) :
    xcurveN d 0 = 0 ∧ MonoN (xcurveN d) ∧ (∀ x, xcurveN d x ≤ curveN d x) ∧
    (∀ rels, Respects d rels → ∀ t x, cnt rels t x ≤ xcurveN d x) :=
  ⟨xcurveN_zero d, xcurveN_mono d hwf, xcurveN_le_curveN d hwf,
    fun rels hr t x => xcurve_bounds d hwf rels hr t x⟩

/-- `number_arrivals` only depends on the entries below the query, so a longer cache gives
the same answers as a shorter one (the cache is invisible to `number_arrivals`) -/
theorem cache_invisible_to_number_arrivals (d : List Nat) (hwf : curveWF d) (h2 : 2 ≤ d.length)
    (x n m : Nat) (hx : 1 ≤ x) (hn : x < (iterExt d n).getLastD 0) (hm : x < (iterExt d m).getLastD 0) :
    curveN (iterExt d n) x = curveN (iterExt d m) x := by
  have e1 := xcurveN_eq d hwf h2 x n hx hn
  have e2 := xcurveN_eq d hwf h2 x m hx hm
  have w1 := iterExt_wf d hwf n
  have w2 := iterExt_wf d hwf m
  rw [curveN_small _ w1 x hx hn, curveN_small _ w2 x hx hm]
  have c1 := curveN_small _ w1 x hx hn
  have c2 := curveN_small _ w2 x hx hm
  omega

/-- invisible as a cache: ANY interleaving of `number_arrivals` and `steps_iter`/`next`
operations on ANY clones sharing the cache returns exactly what fresh objects return
(`xPure`: `number_arrivals` answers `xcurveN d0`, the `k`-th `next()` of an iterator answers
what the `k`-th `next()` of an iterator over a fresh curve answers) — independent of which
queries were issued before and in which order -/
theorem cache_invisible (d0 : List Nat) (hwf : curveWF d0) (ops : List XOp) :
    (XState.init d0).run ops = xPure d0 ops [] := xcurve_transparent d0 hwf ops

/-- a fresh iterator never ends, never fails, and enumerates the eagerly computed step
list (`xcurveSteps`, which by C11 is exactly the set of increase points) -/
theorem iterator_eq_eager_steps (d0 : List Nat) (hwf : curveWF d0) (k : Nat) :
    (freshNext d0 k).isSome = true ∧
    ∀ v H, freshNext d0 k = some v → v ≤ H → (xcurveSteps d0 H)[k]? = some v :=
  ⟨freshNext_isSome d0 hwf k, fun v H h hv => freshNext_eq_steps d0 hwf k v H h hv⟩

example : curveWF [0, 0, 5, 8] ∧ 2 ≤ [0, 0, 5, 8].length := by decide

end RTA.C13
