import RTA.Lemmas.FpSound
import RTA.Lemmas.FpSoundEq
import RTA.Lemmas.FpSoundEqExample
import RTA.Lemmas.FpSoundCompliant
import RTA.Lemmas.FpSoundCompliantExample
import RTA.Lemmas.FpSoundBlocking
/-! # C01 — the fixed-priority RTAs are safe for every legal schedule

Spec: `RTA/Spec/Sched.lean` — discrete-time schedules on a dedicated unit-speed processor;
`JlfpLegal s (hepFP s pr)`: valid, work conserving, a job in a non-preemptable state
continues, otherwise a pending job of the highest priority is served (jobs of one task in
release order); `FpSetting`: the workload of the task under analysis and of the
higher-priority tasks is bounded by the request bounds handed to the analysis (this follows
from curve-compliant releases and execution times up to the WCETs, theorem
`RTA.Sched.task_work_le` used in C03), and every run of consecutive non-preemptable service
levels of a lower-priority job is at most `B` long — the blocking bound is the longest
lower-priority non-preemptive segment minus one.  The placement of non-preemptive regions
(`Sys.np`) is an arbitrary predicate subject only to these constraints. -/

namespace RTA.C01
open RTA RTA.Sched

/-- fully preemptive FP (`fixed_priority::fully_preemptive`): no non-preemptable states
are needed for lower-priority jobs to be harmless; `B = 0` -/
theorem fully_preemptive_safe (s : Sys) (pr : ℕ → ℕ) (i : ℕ) (tua : RB) (others : List RB)
    (hS : FpSetting s pr i tua others 0) (hwf : tua.ArrWF) (hex : tua.Exact) (ho : OthersOK others)
    (limit R : ℕ) (hR : fpPreemptive tua others limit = .ok R) :
    ∀ j, j < s.n → s.task j = i → MeetsBound s j R :=
  fp_preemptive_sound s pr i tua others hS hwf hex ho limit R hR

/-- fully non-preemptive FP: every job of the task under analysis is non-preemptable once
started -/
theorem fully_nonpreemptive_safe (s : Sys) (pr : ℕ → ℕ) (i : ℕ) (a : Arr) (C : ℕ) (others : List RB) (B : ℕ)
    (hS : FpSetting s pr i (.rbf a (.scalar C)) others B) (hwf : a.WF) (hex : a.Exact)
    (ho : OthersOK others)
    (hcnt : ∀ t d, cntOf s (fun x => x = i) t (t + d) ≤ a.N d)
    (hown : ∀ j, j < s.n → s.task j = i → s.cost j ≤ C ∧ ∀ x, 1 ≤ x → x < s.cost j → s.np j x)
    (limit R : ℕ) (hR : fpNonpreemptive a C B others limit = .ok R) :
    ∀ j, j < s.n → s.task j = i → MeetsBound s j R :=
  fp_nonpreemptive_sound s pr i a C others B hS hwf hex ho hcnt hown limit R hR

/-- limited-preemptive FP: the final segment of every job of the task under analysis is
`last` long (a shorter job is one segment) -/
theorem limited_preemptive_safe (s : Sys) (pr : ℕ → ℕ) (i : ℕ) (a : Arr) (C last : ℕ) (others : List RB)
    (B : ℕ) (hS : FpSetting s pr i (.rbf a (.scalar C)) others B) (hwf : a.WF) (hex : a.Exact)
    (ho : OthersOK others) (hlast1 : 1 ≤ last) (hlastC : last ≤ C)
    (hcnt : ∀ t d, cntOf s (fun x => x = i) t (t + d) ≤ a.N d)
    (hown : ∀ j, j < s.n → s.task j = i → s.cost j ≤ C ∧
      ∀ x, max 1 (s.cost j - (last - 1)) ≤ x → x < s.cost j → s.np j x)
    (limit R : ℕ) (hR : fpLimited a C last B others limit = .ok R) :
    ∀ j, j < s.n → s.task j = i → MeetsBound s j R :=
  fp_limited_sound s pr i a C last others B hS hwf hex ho hlast1 hlastC hcnt hown limit R hR

/-- floating non-preemptive regions: nothing is known about where the task's own jobs are
non-preemptable -/
theorem floating_nonpreemptive_safe (s : Sys) (pr : ℕ → ℕ) (i : ℕ) (tua : RB) (others : List RB) (B : ℕ)
    (hS : FpSetting s pr i tua others B) (hwf : tua.ArrWF) (hex : tua.Exact) (ho : OthersOK others)
    (limit R : ℕ) (hR : fpFloating tua B others limit = .ok R) :
    ∀ j, j < s.n → s.task j = i → MeetsBound s j R :=
  fp_floating_sound s pr i tua others B hS hwf hex ho limit R hR

/-- the busy window of any job of the task is shorter than the analysis' `L` -/
theorem offset_below_busy_window_bound (s : Sys) (pr : ℕ → ℕ) (i : ℕ) (tua : RB) (others : List RB) (B : ℕ)
    (hS : FpSetting s pr i tua others B) (L : ℕ) (hL : 0 < L)
    (hfix : B + sumNeed others L + tua.need L ≤ L)
    (j : ℕ) (hj : j < s.n) (hji : s.task j = i) (t0 : ℕ) (hq : J.Quiet s (hepFP s pr) j t0)
    (ht0 : t0 ≤ s.arr j) (hmax : ∀ t, t0 < t → t ≤ s.arr j → ¬ J.Quiet s (hepFP s pr) j t) :
    s.arr j - t0 < L := fp_offset_lt_L s pr i tua others B hS L hL hfix j hj hji t0 hq ht0 hmax

/-! ## Several tasks on one priority level

The crate documents its `interference` parameter as the set of higher-**or-equal**-priority
tasks.  `FpEqSetting` (in `Lemmas/FpSoundEq.lean`) drops the assumption that task priorities
are distinct: the job-level order `hepFPe` is "strictly higher task priority, or the same
priority level and released no later"; equal-priority jobs released at the same instant are
mutually higher-or-equal, so the schedule may break such ties arbitrarily.  `others` bounds
the workload of all other tasks of higher or equal priority; blocking is due to strictly
lower-priority tasks only.  `distinct_priorities_are_a_special_case` shows that every
setting of the theorems above is one of these, so the four theorems below subsume them. -/

theorem fully_preemptive_safe_equal_priorities (s : Sys) (pr : ℕ → ℕ) (i : ℕ) (tua : RB)
    (others : List RB) (hS : FpEqSetting s pr i tua others 0) (hwf : tua.ArrWF) (hex : tua.Exact)
    (ho : OthersOK others) (limit R : ℕ) (hR : fpPreemptive tua others limit = .ok R) :
    ∀ j, j < s.n → s.task j = i → MeetsBound s j R :=
  fpe_preemptive_sound s pr i tua others hS hwf hex ho limit R hR

theorem fully_nonpreemptive_safe_equal_priorities (s : Sys) (pr : ℕ → ℕ) (i : ℕ) (a : Arr) (C : ℕ)
    (others : List RB) (B : ℕ)
    (hS : FpEqSetting s pr i (.rbf a (.scalar C)) others B) (hwf : a.WF) (hex : a.Exact)
    (ho : OthersOK others)
    (hcnt : ∀ t d, cntOf s (fun x => x = i) t (t + d) ≤ a.N d)
    (hown : ∀ j, j < s.n → s.task j = i → s.cost j ≤ C ∧ ∀ x, 1 ≤ x → x < s.cost j → s.np j x)
    (limit R : ℕ) (hR : fpNonpreemptive a C B others limit = .ok R) :
    ∀ j, j < s.n → s.task j = i → MeetsBound s j R :=
  fpe_nonpreemptive_sound s pr i a C others B hS hwf hex ho hcnt hown limit R hR

theorem limited_preemptive_safe_equal_priorities (s : Sys) (pr : ℕ → ℕ) (i : ℕ) (a : Arr)
    (C last : ℕ) (others : List RB)
    (B : ℕ) (hS : FpEqSetting s pr i (.rbf a (.scalar C)) others B) (hwf : a.WF) (hex : a.Exact)
    (ho : OthersOK others) (hlast1 : 1 ≤ last) (hlastC : last ≤ C)
    (hcnt : ∀ t d, cntOf s (fun x => x = i) t (t + d) ≤ a.N d)
    (hown : ∀ j, j < s.n → s.task j = i → s.cost j ≤ C ∧
      ∀ x, max 1 (s.cost j - (last - 1)) ≤ x → x < s.cost j → s.np j x)
    (limit R : ℕ) (hR : fpLimited a C last B others limit = .ok R) :
    ∀ j, j < s.n → s.task j = i → MeetsBound s j R :=
  fpe_limited_sound s pr i a C last others B hS hwf hex ho hlast1 hlastC hcnt hown limit R hR

theorem floating_nonpreemptive_safe_equal_priorities (s : Sys) (pr : ℕ → ℕ) (i : ℕ) (tua : RB)
    (others : List RB) (B : ℕ)
    (hS : FpEqSetting s pr i tua others B) (hwf : tua.ArrWF) (hex : tua.Exact) (ho : OthersOK others)
    (limit R : ℕ) (hR : fpFloating tua B others limit = .ok R) :
    ∀ j, j < s.n → s.task j = i → MeetsBound s j R :=
  fpe_floating_sound s pr i tua others B hS hwf hex ho limit R hR

/-- every distinct-priority setting (job order within a task = release order) is an
equal-priorities setting: the theorems of this section subsume the first four -/
theorem distinct_priorities_are_a_special_case (s : Sys) (pr : ℕ → ℕ) (i : ℕ) (tua : RB)
    (others : List RB) (B : ℕ) (hS : FpSetting s pr i tua others B) :
    FpEqSetting s pr i tua others B := hS.toEq

/-- the busy window of any job of the task is shorter than the analysis' `L`, also with
equal priorities -/
theorem offset_below_busy_window_bound_equal_priorities (s : Sys) (pr : ℕ → ℕ) (i : ℕ) (tua : RB)
    (others : List RB) (B : ℕ)
    (hS : FpEqSetting s pr i tua others B) (L : ℕ) (hL : 0 < L)
    (hfix : B + sumNeed others L + tua.need L ≤ L)
    (j : ℕ) (hj : j < s.n) (hji : s.task j = i) (t0 : ℕ) (hq : J.Quiet s (hepFPe s pr) j t0)
    (ht0 : t0 ≤ s.arr j) (hmax : ∀ t, t0 < t → t ≤ s.arr j → ¬ J.Quiet s (hepFPe s pr) j t) :
    s.arr j - t0 < L := fpe_offset_lt_L s pr i tua others B hS L hL hfix j hj hji t0 hq ht0 hmax

/-- non-vacuity of the equal-priorities theorems: two DIFFERENT tasks on one priority level
release a unit job each at time 0, the schedule serves the other task first (a tie broken
against the task under analysis); the setting is an `FpEqSetting`, the analysis returns
`Ok(2)`, every job of the task meets it — and the bound is attained (1 is exceeded) -/
theorem equal_priorities_nonvacuous :
    FpEqSetting FpEqExample.eqSys FpEqExample.eqPr 0 FpEqExample.tua [FpEqExample.tua] 0 ∧
    FpEqExample.eqPr 0 = FpEqExample.eqPr 1 ∧
    fpPreemptive FpEqExample.tua [FpEqExample.tua] 100 = .ok 2 ∧
    (∀ j, j < FpEqExample.eqSys.n → FpEqExample.eqSys.task j = 0 → MeetsBound FpEqExample.eqSys j 2) ∧
    ¬ MeetsBound FpEqExample.eqSys 0 1 :=
  ⟨FpEqExample.eqSys_setting, rfl, FpEqExample.eqSys_result, FpEqExample.eqSys_meets,
    FpEqExample.eqSys_attained.1⟩

/-! ## Task-set level: hypotheses on the inputs only

The settings above assume workload bounds (`w_tua`, `w_hep`).  Here they are DERIVED: `ts` is
the task set (arrival model and cost model per task), `Compliant s ts` says that the releases
of each task are admissible for its arrival model and that every run of `m` consecutive jobs
of a task costs at most `cost_of_jobs(m)`; the analysis is called exactly as the crate's
documentation prescribes — with the request bound of the task (`taskRB ts i`) and with the
request bounds of ALL OTHER tasks of higher or equal priority (`hepOthers ts pr i`).  What
remains are hypotheses on the schedule (legal for the policy) and on the placement of
non-preemptive regions. -/

theorem fully_preemptive_safe_task_set (s : Sys) (ts : List (Arr × Cost)) (pr : ℕ → ℕ) (i : ℕ)
    (hi : i < ts.length)
    (hwf : ∀ p ∈ ts, p.1.WF ∧ p.2.WF) (hex : ∀ x, x < ts.length → (taskRB ts x).Exact)
    (hc : Compliant s ts) (hl : JlfpLegal s (hepFPe s pr))
    (hnp : ∀ l x, ¬ s.np l x) (hpos : ∀ k, k < s.n → 1 ≤ s.cost k)
    (limit R : ℕ) (hR : fpPreemptive (taskRB ts i) (hepOthers ts pr i) limit = .ok R) :
    ∀ j, j < s.n → s.task j = i → MeetsBound s j R :=
  fp_preemptive_sound_of_compliant s ts pr i hi hwf hex hc hl hnp hpos limit R hR

theorem floating_nonpreemptive_safe_task_set (s : Sys) (ts : List (Arr × Cost)) (pr : ℕ → ℕ)
    (i : ℕ) (hi : i < ts.length)
    (hwf : ∀ p ∈ ts, p.1.WF ∧ p.2.WF) (hex : ∀ x, x < ts.length → (taskRB ts x).Exact)
    (hc : Compliant s ts) (hl : JlfpLegal s (hepFPe s pr)) (B : ℕ)
    (hblock : ∀ l, l < s.n → pr i < pr (s.task l) → ∀ x len,
      (∀ k, k < len → s.np l (x + k)) → len ≤ B)
    (hpos : ∀ k, k < s.n → 1 ≤ s.cost k)
    (limit R : ℕ) (hR : fpFloating (taskRB ts i) B (hepOthers ts pr i) limit = .ok R) :
    ∀ j, j < s.n → s.task j = i → MeetsBound s j R :=
  fp_floating_sound_of_compliant s ts pr i hi hwf hex hc hl B hblock hpos limit R hR

/-- the number of releases per window and `cost j ≤ C` are derived from compliance, not assumed -/
theorem fully_nonpreemptive_safe_task_set (s : Sys) (ts : List (Arr × Cost)) (pr : ℕ → ℕ)
    (i : ℕ) (hi : i < ts.length) (a : Arr) (C : ℕ) (hts : ts[i] = (a, .scalar C))
    (hwf : ∀ p ∈ ts, p.1.WF ∧ p.2.WF) (hexa : a.Exact)
    (hex : ∀ x, x < ts.length → pr x ≤ pr i → x ≠ i → (taskRB ts x).Exact)
    (hc : Compliant s ts) (hl : JlfpLegal s (hepFPe s pr)) (B : ℕ)
    (hblock : ∀ l, l < s.n → pr i < pr (s.task l) → ∀ x len,
      (∀ k, k < len → s.np l (x + k)) → len ≤ B)
    (hpos : ∀ k, k < s.n → 1 ≤ s.cost k)
    (hown : ∀ j, j < s.n → s.task j = i → ∀ x, 1 ≤ x → x < s.cost j → s.np j x)
    (limit R : ℕ) (hR : fpNonpreemptive a C B (hepOthers ts pr i) limit = .ok R) :
    ∀ j, j < s.n → s.task j = i → MeetsBound s j R :=
  fp_nonpreemptive_sound_of_compliant s ts pr i hi a C hts hwf hexa hex hc hl B hblock hpos hown
    limit R hR

theorem limited_preemptive_safe_task_set (s : Sys) (ts : List (Arr × Cost)) (pr : ℕ → ℕ)
    (i : ℕ) (hi : i < ts.length) (a : Arr) (C last : ℕ) (hts : ts[i] = (a, .scalar C))
    (hwf : ∀ p ∈ ts, p.1.WF ∧ p.2.WF) (hexa : a.Exact)
    (hex : ∀ x, x < ts.length → pr x ≤ pr i → x ≠ i → (taskRB ts x).Exact)
    (hc : Compliant s ts) (hl : JlfpLegal s (hepFPe s pr)) (B : ℕ)
    (hblock : ∀ l, l < s.n → pr i < pr (s.task l) → ∀ x len,
      (∀ k, k < len → s.np l (x + k)) → len ≤ B)
    (hpos : ∀ k, k < s.n → 1 ≤ s.cost k)
    (hlast1 : 1 ≤ last) (hlastC : last ≤ C)
    (hown : ∀ j, j < s.n → s.task j = i →
      ∀ x, max 1 (s.cost j - (last - 1)) ≤ x → x < s.cost j → s.np j x)
    (limit R : ℕ) (hR : fpLimited a C last B (hepOthers ts pr i) limit = .ok R) :
    ∀ j, j < s.n → s.task j = i → MeetsBound s j R :=
  fp_limited_sound_of_compliant s ts pr i hi a C last hts hwf hexa hex hc hl B hblock hpos
    hlast1 hlastC hown limit R hR

/-- non-vacuity of the task-set level theorems: the two-task system of
`equal_priorities_nonvacuous` complies with the task set `[(periodic 10, 1), (periodic 10, 1)]`,
`hepOthers` is the other (equal-priority) task, and `fully_preemptive_safe_task_set` applies -/
theorem task_set_nonvacuous :
    Compliant FpEqExample.eqSys FpEqExample.eqTs ∧
    hepOthers FpEqExample.eqTs FpEqExample.eqPr 0 = [FpEqExample.tua] ∧
    (∀ j, j < FpEqExample.eqSys.n → FpEqExample.eqSys.task j = 0 → MeetsBound FpEqExample.eqSys j 2) :=
  ⟨FpEqExample.eqSys_compliant, FpEqExample.eqSys_hepOthers, FpEqExample.eqSys_meets_task_set⟩

/-! ## "Blocking bound set to the longest lower-priority non-preemptive segment minus one"

The property's wording, made literal: `sg x` is the maximal non-preemptive segment length of
task `x` (`SegmentsBounded s sg`: every run of consecutive non-preemptable service levels of a
job of task `x` is at most `sg x - 1` long), and the analysis is called with
`lpBlocking ts.length pr sg i` = the maximum of `sg x - 1` over the tasks `x` of strictly lower
priority (0 if there is none).  No hypothesis mentions a blocking bound any more. -/

theorem floating_nonpreemptive_safe_task_set_segments (s : Sys) (ts : List (Arr × Cost))
    (pr : ℕ → ℕ) (i : ℕ) (hi : i < ts.length)
    (hwf : ∀ p ∈ ts, p.1.WF ∧ p.2.WF) (hex : ∀ x, x < ts.length → (taskRB ts x).Exact)
    (hc : Compliant s ts) (hl : JlfpLegal s (hepFPe s pr)) (sg : ℕ → ℕ)
    (hseg : SegmentsBounded s sg) (hpos : ∀ k, k < s.n → 1 ≤ s.cost k)
    (limit R : ℕ)
    (hR : fpFloating (taskRB ts i) (lpBlocking ts.length pr sg i) (hepOthers ts pr i) limit
      = .ok R) :
    ∀ j, j < s.n → s.task j = i → MeetsBound s j R :=
  fp_floating_sound_of_segments s ts pr i hi hwf hex hc hl sg hseg hpos limit R hR

theorem fully_nonpreemptive_safe_task_set_segments (s : Sys) (ts : List (Arr × Cost))
    (pr : ℕ → ℕ) (i : ℕ) (hi : i < ts.length) (a : Arr) (C : ℕ) (hts : ts[i] = (a, .scalar C))
    (hwf : ∀ p ∈ ts, p.1.WF ∧ p.2.WF) (hexa : a.Exact)
    (hex : ∀ x, x < ts.length → pr x ≤ pr i → x ≠ i → (taskRB ts x).Exact)
    (hc : Compliant s ts) (hl : JlfpLegal s (hepFPe s pr)) (sg : ℕ → ℕ)
    (hseg : SegmentsBounded s sg) (hpos : ∀ k, k < s.n → 1 ≤ s.cost k)
    (hown : ∀ j, j < s.n → s.task j = i → ∀ x, 1 ≤ x → x < s.cost j → s.np j x)
    (limit R : ℕ)
    (hR : fpNonpreemptive a C (lpBlocking ts.length pr sg i) (hepOthers ts pr i) limit = .ok R) :
    ∀ j, j < s.n → s.task j = i → MeetsBound s j R :=
  fp_nonpreemptive_sound_of_segments s ts pr i hi a C hts hwf hexa hex hc hl sg hseg hpos hown
    limit R hR

theorem limited_preemptive_safe_task_set_segments (s : Sys) (ts : List (Arr × Cost))
    (pr : ℕ → ℕ) (i : ℕ) (hi : i < ts.length) (a : Arr) (C last : ℕ)
    (hts : ts[i] = (a, .scalar C))
    (hwf : ∀ p ∈ ts, p.1.WF ∧ p.2.WF) (hexa : a.Exact)
    (hex : ∀ x, x < ts.length → pr x ≤ pr i → x ≠ i → (taskRB ts x).Exact)
    (hc : Compliant s ts) (hl : JlfpLegal s (hepFPe s pr)) (sg : ℕ → ℕ)
    (hseg : SegmentsBounded s sg) (hpos : ∀ k, k < s.n → 1 ≤ s.cost k)
    (hlast1 : 1 ≤ last) (hlastC : last ≤ C)
    (hown : ∀ j, j < s.n → s.task j = i →
      ∀ x, max 1 (s.cost j - (last - 1)) ≤ x → x < s.cost j → s.np j x)
    (limit R : ℕ)
    (hR : fpLimited a C last (lpBlocking ts.length pr sg i) (hepOthers ts pr i) limit = .ok R) :
    ∀ j, j < s.n → s.task j = i → MeetsBound s j R :=
  fp_limited_sound_of_segments s ts pr i hi a C last hts hwf hexa hex hc hl sg hseg hpos
    hlast1 hlastC hown limit R hR

/-- the prescribed blocking bound dominates `sg x - 1` of every lower-priority task -/
theorem blocking_bound_dominates (n : ℕ) (pr sg : ℕ → ℕ) (i x : ℕ) (hx : x < n)
    (hlp : pr i < pr x) : sg x - 1 ≤ lpBlocking n pr sg i := le_lpBlocking n pr sg i x hx hlp

end RTA.C01
