import RTA.Lemmas.EdfSound
import RTA.Lemmas.EdfSoundCompliant
import RTA.Lemmas.EdfSoundCompliantExample
/-! # C02 — the EDF RTAs are safe for every legal schedule

Spec: `RTA/Spec/Sched.lean`; `JlfpLegal s (hepEDF s Dl)`: valid, work conserving, a job in a
non-preemptable state continues, otherwise a pending job with the earliest absolute
deadline is served — jobs with EQUAL absolute deadlines are mutually higher-or-equal, so the
schedule may break such ties arbitrarily; relative deadlines `Dl` are arbitrary (also larger
than periods).  `EdfSetting`: per-task workload bounds (consequence of curve-compliant
releases and execution times up to the WCETs), and every run of consecutive non-preemptable
service levels of a job of `others[m]` is at most `others[m].seg - 1` long; the placement of
non-preemptive regions (`Sys.np`) is otherwise arbitrary. -/

namespace RTA.C02
open RTA RTA.Sched

theorem fully_preemptive_safe (s : Sys) (Dl : ℕ → ℕ) (i D : ℕ) (tua : RB) (others : List EdfTask) (ids : List ℕ)
    (hS : EdfSetting s Dl i D tua others ids) (hwf : tua.ArrWF) (hex : tua.Exact)
    (ho : EdfOthersOK others) (hnp : ∀ l x, ¬ s.np l x)
    (limit R : ℕ) (hR : edfPreemptive tua D others limit = .ok R) :
    ∀ j, j < s.n → s.task j = i → MeetsBound s j R :=
  edf_preemptive_sound s Dl i D tua others ids hS hwf hex ho hnp limit R hR

theorem fully_nonpreemptive_safe (s : Sys) (Dl : ℕ → ℕ) (i D : ℕ) (a : Arr) (C : ℕ) (others : List EdfTask)
    (ids : List ℕ) (hS : EdfSetting s Dl i D (.rbf a (.scalar C)) others ids) (hwf : a.WF) (hex : a.Exact)
    (ho : EdfOthersOK others)
    (hcnt : ∀ t d, cntOf s (fun x => x = i) t (t + d) ≤ a.N d)
    (hown : ∀ j, j < s.n → s.task j = i → s.cost j ≤ C ∧ ∀ x, 1 ≤ x → x < s.cost j → s.np j x)
    (limit R : ℕ) (hR : edfNonpreemptive a C D others limit = .ok R) :
    ∀ j, j < s.n → s.task j = i → MeetsBound s j R :=
  edf_nonpreemptive_sound s Dl i D a C others ids hS hwf hex ho hcnt hown limit R hR

theorem limited_preemptive_safe (s : Sys) (Dl : ℕ → ℕ) (i D : ℕ) (a : Arr) (C last : ℕ) (others : List EdfTask)
    (ids : List ℕ) (hS : EdfSetting s Dl i D (.rbf a (.scalar C)) others ids) (hwf : a.WF) (hex : a.Exact)
    (ho : EdfOthersOK others) (hlast1 : 1 ≤ last) (hlastC : last ≤ C)
    (hcnt : ∀ t d, cntOf s (fun x => x = i) t (t + d) ≤ a.N d)
    (hown : ∀ j, j < s.n → s.task j = i → s.cost j ≤ C ∧
      ∀ x, max 1 (s.cost j - (last - 1)) ≤ x → x < s.cost j → s.np j x)
    (limit R : ℕ) (hR : edfLimited a C D last others limit = .ok R) :
    ∀ j, j < s.n → s.task j = i → MeetsBound s j R :=
  edf_limited_sound s Dl i D a C last others ids hS hwf hex ho hlast1 hlastC hcnt hown limit R hR

theorem floating_nonpreemptive_safe (s : Sys) (Dl : ℕ → ℕ) (i D : ℕ) (tua : RB) (others : List EdfTask)
    (ids : List ℕ) (hS : EdfSetting s Dl i D tua others ids) (hwf : tua.ArrWF) (hex : tua.Exact)
    (ho : EdfOthersOK others)
    (limit R : ℕ) (hR : edfFloating tua D others limit = .ok R) :
    ∀ j, j < s.n → s.task j = i → MeetsBound s j R :=
  edf_floating_sound s Dl i D tua others ids hS hwf hex ho limit R hR

/-- the two mechanisms by which other tasks delay a job: only tasks with a sufficiently
early deadline interfere (`rbf_o(min(AF, A + 1 + D ∸ D_o))`), and only tasks with a
sufficiently late deadline block (`D_o > D + A`); the offset is below `L` -/
theorem offset_below_busy_window_bound (s : Sys) (Dl : ℕ → ℕ) (i D : ℕ) (tua : RB) (others : List EdfTask)
    (ids : List ℕ) (hS : EdfSetting s Dl i D tua others ids) (L : ℕ) (hL : 0 < L)
    (hfix : sumNeed (others.map (·.rb)) L + tua.need L ≤ L)
    (j : ℕ) (hj : j < s.n) (t0 : ℕ) (hq : J.Quiet s (hepEDF s Dl) j t0)
    (ht0 : t0 ≤ s.arr j) (hmax : ∀ t, t0 < t → t ≤ s.arr j → ¬ J.Quiet s (hepEDF s Dl) j t) :
    s.arr j - t0 < L := edf_offset_lt_L s Dl i D tua others ids hS L hL hfix j hj t0 hq ht0 hmax

/-! ## Task-set level: hypotheses on the inputs only

`EdfSetting` takes per-task workload bounds and bookkeeping about task ids as hypotheses.
Here they are DERIVED from the task set: `ts` gives the arrival and cost model of every task,
`Dl` the relative deadlines and `sg` the maximal non-preemptive segment lengths; `Compliant s ts`
says that the releases of each task are admissible for its arrival model and that every run of
`m` consecutive jobs of a task costs at most `cost_of_jobs(m)`.  The analysis is called with
the request bound of the task and with the records (request bound, deadline, segment) of ALL
other tasks (`edfOthersOf`).  What remains are hypotheses on the schedule (EDF-legal, arbitrary
tie-breaking) and on the placement of non-preemptive regions (`Lemmas/EdfSoundCompliant.lean`). -/

theorem fully_preemptive_safe_task_set (s : Sys) (ts : List (Arr × Cost)) (Dl sg : ℕ → ℕ)
    (i : ℕ) (hi : i < ts.length)
    (hwf : ∀ p ∈ ts, p.1.WF ∧ p.2.WF) (hex : ∀ x, x < ts.length → (taskRB ts x).Exact)
    (hc : Compliant s ts) (hl : JlfpLegal s (hepEDF s Dl))
    (hnp : ∀ l x, ¬ s.np l x) (hpos : ∀ k, k < s.n → 1 ≤ s.cost k)
    (limit R : ℕ)
    (hR : edfPreemptive (taskRB ts i) (Dl i) (edfOthersOf ts Dl sg i) limit = .ok R) :
    ∀ j, j < s.n → s.task j = i → MeetsBound s j R :=
  edf_preemptive_sound_of_compliant s ts Dl sg i hi hwf hex hc hl hnp hpos limit R hR

theorem floating_nonpreemptive_safe_task_set (s : Sys) (ts : List (Arr × Cost)) (Dl sg : ℕ → ℕ)
    (i : ℕ) (hi : i < ts.length)
    (hwf : ∀ p ∈ ts, p.1.WF ∧ p.2.WF) (hex : ∀ x, x < ts.length → (taskRB ts x).Exact)
    (hc : Compliant s ts) (hl : JlfpLegal s (hepEDF s Dl))
    (hseg : ∀ l, l < s.n → s.task l ≠ i → ∀ x len,
      (∀ k, k < len → s.np l (x + k)) → len ≤ sg (s.task l) - 1)
    (hpos : ∀ k, k < s.n → 1 ≤ s.cost k)
    (limit R : ℕ)
    (hR : edfFloating (taskRB ts i) (Dl i) (edfOthersOf ts Dl sg i) limit = .ok R) :
    ∀ j, j < s.n → s.task j = i → MeetsBound s j R :=
  edf_floating_sound_of_compliant s ts Dl sg i hi hwf hex hc hl hseg hpos limit R hR

theorem fully_nonpreemptive_safe_task_set (s : Sys) (ts : List (Arr × Cost)) (Dl sg : ℕ → ℕ)
    (i : ℕ) (hi : i < ts.length) (a : Arr) (C : ℕ) (hts : ts[i] = (a, .scalar C))
    (hwf : ∀ p ∈ ts, p.1.WF ∧ p.2.WF) (hexa : a.Exact)
    (hex : ∀ x, x < ts.length → x ≠ i → (taskRB ts x).Exact)
    (hc : Compliant s ts) (hl : JlfpLegal s (hepEDF s Dl))
    (hseg : ∀ l, l < s.n → s.task l ≠ i → ∀ x len,
      (∀ k, k < len → s.np l (x + k)) → len ≤ sg (s.task l) - 1)
    (hpos : ∀ k, k < s.n → 1 ≤ s.cost k)
    (hown : ∀ j, j < s.n → s.task j = i → ∀ x, 1 ≤ x → x < s.cost j → s.np j x)
    (limit R : ℕ)
    (hR : edfNonpreemptive a C (Dl i) (edfOthersOf ts Dl sg i) limit = .ok R) :
    ∀ j, j < s.n → s.task j = i → MeetsBound s j R :=
  edf_nonpreemptive_sound_of_compliant s ts Dl sg i hi a C hts hwf hexa hex hc hl hseg hpos hown
    limit R hR

theorem limited_preemptive_safe_task_set (s : Sys) (ts : List (Arr × Cost)) (Dl sg : ℕ → ℕ)
    (i : ℕ) (hi : i < ts.length) (a : Arr) (C last : ℕ) (hts : ts[i] = (a, .scalar C))
    (hwf : ∀ p ∈ ts, p.1.WF ∧ p.2.WF) (hexa : a.Exact)
    (hex : ∀ x, x < ts.length → x ≠ i → (taskRB ts x).Exact)
    (hc : Compliant s ts) (hl : JlfpLegal s (hepEDF s Dl))
    (hseg : ∀ l, l < s.n → s.task l ≠ i → ∀ x len,
      (∀ k, k < len → s.np l (x + k)) → len ≤ sg (s.task l) - 1)
    (hpos : ∀ k, k < s.n → 1 ≤ s.cost k)
    (hlast1 : 1 ≤ last) (hlastC : last ≤ C)
    (hown : ∀ j, j < s.n → s.task j = i →
      ∀ x, max 1 (s.cost j - (last - 1)) ≤ x → x < s.cost j → s.np j x)
    (limit R : ℕ)
    (hR : edfLimited a C (Dl i) last (edfOthersOf ts Dl sg i) limit = .ok R) :
    ∀ j, j < s.n → s.task j = i → MeetsBound s j R :=
  edf_limited_sound_of_compliant s ts Dl sg i hi a C last hts hwf hexa hex hc hl hseg hpos
    hlast1 hlastC hown limit R hR

/-- non-vacuity: two tasks with equal relative deadlines release a unit job each at time 0
(equal absolute deadlines, an EDF tie), the schedule serves the other task first; the schedule
is EDF-legal, the job set complies with the task set, the analysis returns `Ok(2)`, the
task-set theorem applies, and the bound is attained (1 is exceeded) -/
theorem task_set_nonvacuous :
    JlfpLegal FpEqExample.eqSys (hepEDF FpEqExample.eqSys FpEqExample.eqDl) ∧
    Compliant FpEqExample.eqSys FpEqExample.eqTs ∧
    edfPreemptive (taskRB FpEqExample.eqTs 0) (FpEqExample.eqDl 0)
      (edfOthersOf FpEqExample.eqTs FpEqExample.eqDl FpEqExample.eqSg 0) 100 = .ok 2 ∧
    (∀ j, j < FpEqExample.eqSys.n → FpEqExample.eqSys.task j = 0 → MeetsBound FpEqExample.eqSys j 2) ∧
    ¬ MeetsBound FpEqExample.eqSys 0 1 :=
  ⟨FpEqExample.eqSys_edf_legal, FpEqExample.eqSys_compliant, FpEqExample.eqSys_edf_result,
    FpEqExample.eqSys_edf_meets, FpEqExample.eqSys_edf_attained.1⟩

end RTA.C02
