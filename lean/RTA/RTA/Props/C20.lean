import RTA.Lemmas.PruneFP
import RTA.Lemmas.PruneEDF
import RTA.Lemmas.Demand
import RTA.Lemmas.Extrapolate
import RTA.Lemmas.XCurveLTS
import RTA.Props.C08
import RTA.Lemmas.RosTotal
/-! # C20 — analyses are total and independent of the build profile

In the model every operation whose Rust counterpart can fail in a build with debug
assertions and overflow checks — non-saturating `-`, `/`, `%`, indexing, `assert!`,
`debug_assert!`, `unwrap`, the debug-only cross-checks — is an explicit *guard*: the model
returns `Res.panic` (resp. the driver prints `panic`) when it fails, and loops are rendered
with fuel.  With all guards true the debug and the release semantics coincide by
construction (they differ only in the guarded operations and the cross-checks).  The
theorems below show that on well-formed input no guard fails and no fuel runs out.
Integer overflow of `+`/`*` on `u64` is outside the model (the generators stay far below
2^63; the overflow-checking build is a tripwire in the falsifier). -/

namespace RTA.C20
open RTA

/-- the fixed-point search never fails a guard (the `distance_to` assertion) … -/
theorem search_total (s : Supply) (hs : s.WF) (w : Nat → Nat) (hw : Mono w)
    (offset limit : Nat) (hoff : InBusyWindow s.stClosed w offset) :
    searchWithOffset s offset limit w ≠ .panic := RTA.C08.search_total s hs w hw offset limit hoff

/-- … and the debug-only brute-force cross-check inside `fixed_point::search` cannot fire -/
theorem brute_force_cross_check (s : Supply) (hs : s.WF) (w : Nat → Nat) (hw : Mono w)
    (limit : Nat) (hoff : InBusyWindow s.stClosed w 0) :
    bruteForceSearch s 0 limit w = search s limit w := RTA.C08.bruteForce_eq_search s hs w hw limit hoff

/-- the default `service_time` loop terminates (never runs away) for every well-formed supply -/
theorem default_service_time_terminates (s : Supply) (hs : s.WF) (d : Nat) :
    (Supply.viaDefault s).st? d = some (s.stClosed d) := Supply.st?_eq (.viaDefault s) hs d

/-- FIFO and the four fixed-priority analyses never panic: no `Duration - Duration`
underflow, no `step_offsets` underflow -/
theorem fifo_total (tasks : RB) (hwf : tasks.ArrWF) (hex : tasks.Exact) (limit : Nat) :
    fifoRta tasks limit ≠ .panic := fifo_no_panic tasks hwf hex limit

theorem fp_total (tua : RB) (others : List RB) (B rem limit : Nat)
    (hwf : tua.ArrWF) (hex : tua.Exact) (ho : OthersOK others)
    (hstep : ∀ A, tua.need A < tua.need (A + 1) → tua.need A + rem < tua.need (A + 1)) :
    fpCore tua others B rem limit ≠ .panic := fpCore_no_panic tua others B rem limit hwf hex ho hstep

/-- the four EDF analyses never panic.  (Until the `fix:` commit for finding F9 this needed
"the task under analysis releases something", `0 < tua.need 1`, and `hstep`, "`rem` is below
every own step", to exclude the underflow of `self_interference - rem_cost`.) -/
theorem edf_total (tua : RB) (D : Nat) (others : List EdfTask) (rem : Nat) (wb : Bool)
    (limit : Nat) (hwf : tua.ArrWF) (hex : tua.Exact) (ho : EdfOthersOK others) :
    edfCore tua D others rem wb limit ≠ .panic :=
  edfCore_no_panic' tua D others rem wb limit hwf hex ho

/-- finding F9 (repaired): without "the task under analysis releases something" the NP/LP EDF
analyses DID panic in a debug build (`self_interference - rem_cost` underflowed; the release
build returned something else).  The `fix:` commit replaced the subtraction by
`self_interference.saturating_sub(rem_cost)`; the former witness now yields `Ok(3)` in both
build profiles, in particular it is not a panic any more. -/
theorem never_arriving_task_total :
    edfNonpreemptive .never 3 5 [{ rb := .rbf (.periodic 4) (.scalar 1), D := 5, seg := 1 }] 50 ≠ .panic := by
  have h := edfCore_never_arriving_tua_total
  have e : edfNonpreemptive .never 3 5
      [{ rb := .rbf (.periodic 4) (.scalar 1), D := 5, seg := 1 }] 50 = .ok 3 := by
    simpa [edfNonpreemptive] using h
  rw [e]
  intro hc
  cases hc

/-- the request-bound queries never fail a guard on well-formed models -/
theorem demand_guards (r : RB) (hwf : r.WF) (d : Nat) :
    r.arrWF = true ∧ r.itemsGuard d = true ∧ r.leastGuard d = true := RB.guards_of_wf r hwf d

/-- `step_offsets` never underflows on exact request bounds -/
theorem step_offsets_total (r : RB) (hwf : r.ArrWF) (hex : r.Exact) (L : Nat) :
    ∃ as, r.offsetsBelow L = some as := by
  obtain ⟨as, h, _⟩ := RB.offsetsBelow_spec r hwf hex L
  exact ⟨as, h⟩

/-- curve extrapolation terminates (the fuel of the model suffices to reach any horizon) -/
theorem extrapolate_terminates (d : List Nat) (hwf : curveWF d) (h2 : 2 ≤ d.length) (h : Nat) :
    h ≤ (extrapolate d h (extrapolateFuel d h)).getLastD 0 := extrapolate_reaches d hwf h2 h

/-- the iterator of `ExtrapolatingCurve` never ends and never gets stuck -/
theorem extrapolating_iterator_total (d0 : List Nat) (hwf : curveWF d0) (k : Nat) :
    (freshNext d0 k).isSome = true := freshNext_isSome d0 hwf k

/-! ## The ROS 2 analyses

Every guard of the ROS 2 models (`unwrap` of the last callback of a subchain, pointer lookup
of subchain members in the workload, `Service - Service` on the marginal cost of the end of
the chain, `service_time` of the closed form, the `distance_to` assertion inside the
fixed-point search, `step_offsets`, and `bw`'s debug-only brute-force enumeration of the
relevant steps) holds on well-formed input: the analyses never return `panic`, for EVERY
divergence limit (`bw`: `1 ≤ limit`), and `bw`'s debug build returns what its release build
returns.  (Proof: case `limit = 0` directly; otherwise the equalities of C07 with the naive
evaluators, which have no failing branch on a non-empty subchain; `Lemmas/RosTotal.lean`.) -/

theorem ros_event_source_total (s : Supply) (hs : s.WF) (demand : RB) (hwf : demand.ArrWF)
    (hex : demand.Exact) (limit : Nat) : rosEventSource s demand limit ≠ .panic :=
  RosTotal.event_source_total s hs demand hwf hex limit

theorem ros_timer_total (s : Supply) (hs : s.WF) (a : Arr) (C : Nat) (interf : RB)
    (hwf : a.WF) (hex : a.Exact) (hC : 1 ≤ C) (hpos : 0 < a.N 1)
    (hwfi : interf.ArrWF) (hexi : interf.Exact) (B limit : Nat) :
    rosTimer s (.rbf a (.scalar C)) interf B limit ≠ .panic :=
  RosTotal.timer_total s hs a C interf hwf hex hC hpos hwfi hexi B limit

theorem ros_polling_point_total (s : Supply) (hs : s.WF) (a : Arr) (C : Nat) (interf : RB)
    (hwf : a.WF) (hex : a.Exact) (hC : 1 ≤ C) (hpos : 0 < a.N 1)
    (hwfi : interf.ArrWF) (hexi : interf.Exact) (limit : Nat) :
    rosPollingPoint s (.rbf a (.scalar C)) interf limit ≠ .panic :=
  RosTotal.polling_point_total s hs a C interf hwf hex hC hpos hwfi hexi limit

theorem ros_chain_total (s : Supply) (hs : s.WF) (a : Arr) (C P : Nat) (others : RB)
    (hwf : a.WF) (hex : a.Exact) (hC : 1 ≤ C) (hP : 1 ≤ P) (hpos : 0 < a.N 1)
    (hwfo : others.ArrWF) (hexo : others.Exact) (limit : Nat) :
    rosChain s (.rbf a (.scalar C)) (.rbf a (.scalar P)) (.rbf a (.scalar (C + P))) others limit
      ≠ .panic :=
  RosTotal.chain_total s hs a C P others hwf hex hC hP hpos hwfo hexo limit

/-- rr: all callback kinds, singleton and multi-callback subchains drawn from the workload -/
theorem ros_rr_total (s : Supply) (hs : s.WF) (wl : List Callback) (sub : List Nat) (limit : Nat)
    (hne : sub ≠ []) (hsub : ∀ i ∈ sub, i < wl.length)
    (hwf : ∀ cb ∈ wl, cb.arr.WF ∧ MonoN cb.cost.ofJobs) :
    rrSubchain s wl sub limit ≠ .panic := RosTotal.rr_total s hs wl sub limit hne hsub hwf

/-- bw, in the release build (`dbg = false`) and in the debug build with the brute-force
cross-check of the relevant steps (`dbg = true`) -/
theorem ros_bw_total (s : Supply) (hs : s.WF) (wl : List Callback) (sub : List Nat) (limit : Nat)
    (hl : 1 ≤ limit) (hne : sub ≠ []) (hsub : ∀ i ∈ sub, i < wl.length)
    (hwf : ∀ cb ∈ wl, cb.arr.WF ∧ cb.arr.Exact ∧ MonoN cb.cost.ofJobs)
    (hpos : ∀ e, sub.getLast? = some e → 0 < (wl.getD e default).arr.N 1) (dbg : Bool) :
    bwSubchain s wl sub limit dbg ≠ .panic :=
  RosTotal.bw_total s hs wl sub limit hl hne hsub hwf hpos dbg

/-- independence of the build profile where the two builds run different code -/
theorem ros_bw_profile_independent (s : Supply) (hs : s.WF) (wl : List Callback) (sub : List Nat)
    (limit : Nat) (hl : 1 ≤ limit) (hne : sub ≠ []) (hsub : ∀ i ∈ sub, i < wl.length)
    (hwf : ∀ cb ∈ wl, cb.arr.WF ∧ cb.arr.Exact ∧ MonoN cb.cost.ofJobs)
    (hpos : ∀ e, sub.getLast? = some e → 0 < (wl.getD e default).arr.N 1) :
    bwSubchain s wl sub limit true = bwSubchain s wl sub limit false :=
  RosTotal.bw_profile_independent s hs wl sub limit hl hne hsub hwf hpos

end RTA.C20
