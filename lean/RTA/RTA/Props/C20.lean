import RTA.Lemmas.PruneFP
import RTA.Lemmas.PruneEDF
import RTA.Lemmas.Demand
import RTA.Lemmas.Extrapolate
import RTA.Lemmas.XCurveLTS
import RTA.Props.C08
/-! # C20 — analyses are total and independent of the build profile

In the model every operation whose Rust counterpart can fail in a build with debug
assertions and overflow checks — non-saturating `-`, `/`, `%`, indexing, `assert!`,
`debug_assert!`, `unwrap`, the debug-only cross-checks — is an explicit *guard*: the model
returns `Res.panic` (resp. the driver prints `panic`) when it fails, and loops are rendered
with fuel.  With all guards true the debug and the release semantics coincide by
construction (they differ only in the guarded operations and the cross-checks).  The
theorems below show that on well-formed input no guard fails and no fuel runs out.
Integer overflow of `+`/`*` on `u64` is outside the model (the generators stay far below
2^63; the overflow-checking build is a tripwire in the falsifier). -/

namespace RTA.C20
open RTA

/-- the fixed-point search never fails a guard (the `distance_to` assertion) … -/
theorem search_total (s : Supply) (hs : s.WF) (w : Nat → Nat) (hw : Mono w)
    (offset limit : Nat) (hoff : InBusyWindow s.stClosed w offset) :
    searchWithOffset s offset limit w ≠ .panic := RTA.C08.search_total s hs w hw offset limit hoff

/-- … and the debug-only brute-force cross-check inside `fixed_point::search` cannot fire -/
theorem brute_force_cross_check (s : Supply) (hs : s.WF) (w : Nat → Nat) (hw : Mono w)
    (limit : Nat) (hoff : InBusyWindow s.stClosed w 0) :
    bruteForceSearch s 0 limit w = search s limit w := RTA.C08.bruteForce_eq_search s hs w hw limit hoff

/-- the default `service_time` loop terminates (never runs away) for every well-formed supply -/
theorem default_service_time_terminates (s : Supply) (hs : s.WF) (d : Nat) :
    (Supply.viaDefault s).st? d = some (s.stClosed d) := Supply.st?_eq (.viaDefault s) hs d

/-- FIFO and the four fixed-priority analyses never panic: no `Duration - Duration`
underflow, no `step_offsets` underflow -/
theorem fifo_total (tasks : RB) (hwf : tasks.ArrWF) (hex : tasks.Exact) (limit : Nat) :
    fifoRta tasks limit ≠ .panic := fifo_no_panic tasks hwf hex limit

theorem fp_total (tua : RB) (others : List RB) (B rem limit : Nat)
    (hwf : tua.ArrWF) (hex : tua.Exact) (ho : OthersOK others)
    (hstep : ∀ A, tua.need A < tua.need (A + 1) → tua.need A + rem < tua.need (A + 1)) :
    fpCore tua others B rem limit ≠ .panic := fpCore_no_panic tua others B rem limit hwf hex ho hstep

/-- the four EDF analyses never panic.  (Until the `fix:` commit for finding F9 this needed
"the task under analysis releases something", `0 < tua.need 1`, and `hstep`, "`rem` is below
every own step", to exclude the underflow of `self_interference - rem_cost`.) -/
theorem edf_total (tua : RB) (D : Nat) (others : List EdfTask) (rem : Nat) (wb : Bool)
    (limit : Nat) (hwf : tua.ArrWF) (hex : tua.Exact) (ho : EdfOthersOK others) :
    edfCore tua D others rem wb limit ≠ .panic :=
  edfCore_no_panic' tua D others rem wb limit hwf hex ho

/-- finding F9 (repaired): without "the task under analysis releases something" the NP/LP EDF
analyses DID panic in a debug build (`self_interference - rem_cost` underflowed; the release
build returned something else).  The `fix:` commit replaced the subtraction by
`self_interference.saturating_sub(rem_cost)`; the former witness now yields `Ok(3)` in both
build profiles, in particular it is not a panic any more. -/
theorem never_arriving_task_total :
    edfNonpreemptive .never 3 5 [{ rb := .rbf (.periodic 4) (.scalar 1), D := 5, seg := 1 }] 50 ≠ .panic := by
  have h := edfCore_never_arriving_tua_total
  have e : edfNonpreemptive .never 3 5
      [{ rb := .rbf (.periodic 4) (.scalar 1), D := 5, seg := 1 }] 50 = .ok 3 := by
    simpa [edfNonpreemptive] using h
  rw [e]
  intro hc
  cases hc

/-- the request-bound queries never fail a guard on well-formed models -/
theorem demand_guards (r : RB) (hwf : r.WF) (d : Nat) :
    r.arrWF = true ∧ r.itemsGuard d = true ∧ r.leastGuard d = true := RB.guards_of_wf r hwf d

/-- `step_offsets` never underflows on exact request bounds -/
theorem step_offsets_total (r : RB) (hwf : r.ArrWF) (hex : r.Exact) (L : Nat) :
    ∃ as, r.offsetsBelow L = some as := by
  obtain ⟨as, h, _⟩ := RB.offsetsBelow_spec r hwf hex L
  exact ⟨as, h⟩

/-- curve extrapolation terminates (the fuel of the model suffices to reach any horizon) -/
theorem extrapolate_terminates (d : List Nat) (hwf : curveWF d) (h2 : 2 ≤ d.length) (h : Nat) :
    h ≤ (extrapolate d h (extrapolateFuel d h)).getLastD 0 := extrapolate_reaches d hwf h2 h

/-- the iterator of `ExtrapolatingCurve` never ends and never gets stuck -/
theorem extrapolating_iterator_total (d0 : List Nat) (hwf : curveWF d0) (k : Nat) :
    (freshNext d0 k).isSome = true := freshNext_isSome d0 hwf k

end RTA.C20
