import RTA.Lemmas.Demand
/-! # C16 — request-bound functions compose arrival and cost models additively

Model: `RTA/Model/Demand.lean`: `RB.rbf a c` = `demand::RBF`, `RB.agg rs` =
`demand::Aggregate` / `demand::Slice`, nested arbitrarily (`Box`, `&`, `Rc` wrappers are
delegation). -/

namespace RTA.C16
open RTA

/-- an RBF's `service_needed(delta)` is the cost of `number_arrivals(delta)` jobs -/
theorem rbf_service_needed (a : Arr) (c : Cost) (d : Nat) :
    (RB.rbf a c).need d = c.ofJobs (a.N d) := RB.need_rbf a c d

/-- `job_cost_iter(delta)` sums to `service_needed(delta)` -/
theorem job_costs_sum (r : RB) (hwf : r.WF) (d : Nat) : sumList (r.jobCosts d) = r.need d :=
  RB.jobCosts_sum r hwf d

/-- for `Aggregate` and `Slice`, `service_needed` is the sum over the components -/
theorem aggregate_service_needed (rs : List RB) (d : Nat) :
    (RB.agg rs).need d = sumList (rs.map (·.need d)) := RB.need_agg rs d

/-- `least_wcet_in_interval` is no larger than the smallest job cost of any component in
the interval -/
theorem least_wcet_le_every_job (r : RB) (hwf : r.WF) (d : Nat) :
    ∀ x ∈ r.jobCosts d, r.leastWcet d ≤ x := RB.leastWcet_le_jobCost r hwf d

theorem aggregate_least_wcet_le_component (rs : List RB) (d : Nat) (r : RB) (hr : r ∈ rs) :
    (RB.agg rs).leastWcet d ≤ r.leastWcet d := RB.leastWcet_agg_le rs d r hr

/-- `service_needed_by_n_jobs` is non-decreasing in `n`, never exceeds `service_needed`,
equals it once `n` reaches the number of jobs -/
theorem by_n_jobs_laws (r : RB) (hwf : r.WF) (d : Nat) :
    (∀ n m, n ≤ m → r.needByN d n ≤ r.needByN d m) ∧
    (∀ n, r.needByN d n ≤ r.need d) ∧
    (∀ n, (r.jobCosts d).length ≤ n → r.needByN d n = r.need d) :=
  ⟨fun n m h => RB.needByN_mono r d n m h, fun n => RB.needByN_le_need r hwf d n,
    fun n h => RB.needByN_eq_need r hwf d n h⟩

/-- … and equals the sum of the `n` largest job costs -/
theorem by_n_jobs_is_n_largest (r : RB) (d n : Nat) :
    (∀ s : List Nat, s.Sublist (r.jobCosts d) → s.length ≤ n → sumList s ≤ r.needByN d n) ∧
    (∃ s : List Nat, s.Perm ((sortDesc (r.jobCosts d)).take n) ∧ s.length ≤ n ∧
        sumList s = r.needByN d n) := RB.needByN_largest r d n

/-- the per-component variant equals the sum of the components' restricted demands -/
theorem per_component (rs : List RB) (d n : Nat) :
    (RB.agg rs).needByNPerComponent d n = sumList (rs.map fun r => r.needByN d n) :=
  RB.needByNPerComponent_agg rs d n

example : (RB.agg [.rbf (.sporadic 5 2) (.multiframe [3, 1]), .agg [.rbf (.curve [2, 9]) (.scalar 4)]]).WF := by
  decide

end RTA.C16
