import RTA.Lemmas.RosNaive
import RTA.Lemmas.ChainSound
import RTA.Lemmas.PrunedLe
/-! # C07 — ROS 2 bounds equal exhaustive evaluation of their defining equations

Model: `RTA/Model/Ros.lean`; naive evaluation: `RTA/Spec/NaiveRos.lean` — every offset up to
the maximum busy-window / offset bound, linear-scan least fixed points (`naiveSolveSup`),
`service_time` by linear scan over the supply-bound function computed from the reservation
parameters alone (`naiveSt`); an error exactly when a required fixed point does not exist
within the limit. -/

namespace RTA.C07
open RTA RTA.Spec

/-- event source: equal to naive evaluation over EVERY offset `A ≤ max_bw`, all supplies -/
theorem event_source (s : Supply) (hs : s.WF) (demand : RB) (hwf : demand.ArrWF) (hex : demand.Exact)
    (limit : Nat) (hl : 1 ≤ limit) :
    rosEventSource s demand limit = naiveEventSource s demand limit :=
  eventSource_eq_naive s hs demand hwf hex limit hl

/-- rr subchain analysis (all callback kinds, singleton and multi-callback subchains) -/
theorem rr (s : Supply) (hs : s.WF) (wl : List Callback) (sub : List Nat) (limit : Nat)
    (hl : 1 ≤ limit) (hsub : ∀ i ∈ sub, i < wl.length) (hwf : ∀ cb ∈ wl, cb.arr.WF ∧ MonoN cb.cost.ofJobs) :
    rrSubchain s wl sub limit = naiveRr s wl sub limit := rr_eq_naive s hs wl sub limit hl hsub hwf

/-- bw subchain analysis: equal to naive evaluation over EVERY activation offset below the
maximum offset (the pruning to the relevant steps of Lemma 19 loses nothing), in the
release build and in the debug build with its brute-force cross-check alike -/
theorem bw (s : Supply) (hs : s.WF) (wl : List Callback) (sub : List Nat) (limit : Nat)
    (hl : 1 ≤ limit) (hne : sub ≠ []) (hsub : ∀ i ∈ sub, i < wl.length)
    (hwf : ∀ cb ∈ wl, cb.arr.WF ∧ cb.arr.Exact ∧ MonoN cb.cost.ofJobs)
    (hpos : ∀ e, sub.getLast? = some e → 0 < (wl.getD e default).arr.N 1) (dbg : Bool) :
    bwSubchain s wl sub limit dbg = naiveBw s wl sub limit :=
  bw_eq_naive s hs wl sub limit hl hne hsub hwf hpos dbg

/-- the relevant steps equal the brute-force enumeration (the debug cross-check cannot fire) -/
theorem bw_steps_eq_brute_force (wl : List Callback) (e H : Nat) (he : e < wl.length)
    (hwf : ∀ cb ∈ wl, cb.arr.WF ∧ cb.arr.Exact) :
    bwAllSteps wl e H = bwBruteSteps wl e H := bwAllSteps_eq_brute wl e H he hwf

/-- timer and polling-point callback (partial): equal to naive evaluation over the STEP
offsets of the callback's own demand -/
theorem timer_partial (s : Supply) (hs : s.WF) (a : Arr) (C : Nat) (interf : RB)
    (hwf : a.WF) (hex : a.Exact) (hC : 1 ≤ C) (hpos : 0 < a.N 1)
    (hwfi : interf.ArrWF) (hexi : interf.Exact) (B limit : Nat) (hl : 1 ≤ limit) :
    rosTimer s (.rbf a (.scalar C)) interf B limit =
      naiveRosBoundOn s (fun d => (RB.rbf a (.scalar C)).need d + B + interf.need d)
        (fun A r => (RB.rbf a (.scalar C)).need (A + 1) +
          interf.need (interferenceInterval (.rbf a (.scalar C)) A r) + B) limit
        (rosOffsets (.rbf a (.scalar C))) :=
  timer_eq_naive_on_steps s hs a C interf hwf hex hC hpos hwfi hexi B limit hl

theorem polling_point_partial (s : Supply) (hs : s.WF) (a : Arr) (C : Nat) (interf : RB)
    (hwf : a.WF) (hex : a.Exact) (hC : 1 ≤ C) (hpos : 0 < a.N 1)
    (hwfi : interf.ArrWF) (hexi : interf.Exact) (limit : Nat) (hl : 1 ≤ limit) :
    rosPollingPoint s (.rbf a (.scalar C)) interf limit =
      naiveRosBoundOn s (fun d => (RB.rbf a (.scalar C)).need d + interf.need d)
        (fun A r => (RB.rbf a (.scalar C)).need (A + 1) +
          interf.need (interferenceInterval (.rbf a (.scalar C)) A r)) limit
        (rosOffsets (.rbf a (.scalar C))) :=
  pollingPoint_eq_naive_on_steps s hs a C interf hwf hex hC hpos hwfi hexi limit hl

/-- processing chain (partial): the chain analysis is the polling-point analysis of the last
callback with the chain prefix and the other chains as interference, hence equal to naive
evaluation over the step offsets of the chain's arrival curve -/
theorem chain_partial (s : Supply) (hs : s.WF) (a : Arr) (C P : Nat) (others : RB)
    (hwf : a.WF) (hex : a.Exact) (hC : 1 ≤ C) (hP : 1 ≤ P) (hpos : 0 < a.N 1)
    (hwfo : others.ArrWF) (hexo : others.Exact) (limit : Nat) (hl : 1 ≤ limit) :
    rosChain s (.rbf a (.scalar C)) (.rbf a (.scalar P)) (.rbf a (.scalar (C + P))) others limit =
      naiveRosBoundOn s
        (fun d => (RB.rbf a (.scalar C)).need d + (RB.agg [.rbf a (.scalar P), others]).need d)
        (fun A r => (RB.rbf a (.scalar C)).need (A + 1) +
          (RB.agg [.rbf a (.scalar P), others]).need (interferenceInterval (.rbf a (.scalar C)) A r)) limit
        (rosOffsets (.rbf a (.scalar C))) := by
  rw [Sched.rosChain_eq_pollingPoint s a C P hC others limit]
  refine pollingPoint_eq_naive_on_steps s hs a C (.agg [.rbf a (.scalar P), others]) hwf hex hC hpos ?_ ?_ limit hl
  · simp only [RB.ArrWF, RB.ArrWFList]
    exact ⟨hwf, hwfo, trivial⟩
  · simp only [RB.Exact, RB.ExactList]
    exact ⟨⟨hex, Cost.scalar_strictPos P hP⟩, hexo, trivial⟩

/-- finding K2, the direction that always holds: the pruned timer / polling-point analyses never
return MORE than the all-offset evaluation (and an error of theirs is an error of it) -/
theorem timer_le_all_offsets (s : Supply) (hs : s.WF) (a : Arr) (C : Nat) (interf : RB)
    (hwf : a.WF) (hex : a.Exact) (hC : 1 ≤ C) (hpos : 0 < a.N 1)
    (hwfi : interf.ArrWF) (hexi : interf.Exact) (B limit : Nat) (hl : 1 ≤ limit) :
    Res.leD (rosTimer s (.rbf a (.scalar C)) interf B limit)
      (naiveTimer s (.rbf a (.scalar C)) interf B limit) ∧
    Res.leD (rosPollingPoint s (.rbf a (.scalar C)) interf limit)
      (naivePollingPoint s (.rbf a (.scalar C)) interf limit) :=
  ⟨RTA.timer_le_all_offsets s hs a C interf hwf hex hC hpos hwfi hexi B limit hl,
   RTA.pollingPoint_le_all_offsets s hs a C interf hwf hex hC hpos hwfi hexi limit hl⟩

/-- the full claim for the timer analysis (all-offset evaluation) -/
def TimerEqualsAllOffsets : Prop :=
  ∀ (s : Supply) (own interf : RB) (B limit : Nat), s.WF → own.ArrWF → own.Exact → interf.ArrWF →
    interf.Exact → 1 ≤ limit → rosTimer s own interf B limit = naiveTimer s own interf B limit

/-- finding K2: the full claim is false — for non-concave interference the pruning to the
own steps is lossy (9 vs 10) -/
theorem counterexample_K2 : ¬ TimerEqualsAllOffsets := by
  intro h
  have := h .dedicated (.rbf (.sporadic 35 10) (.scalar 3)) (.rbf (.curve [8, 9, 11, 17]) (.scalar 3)) 3 200
    (by decide) (by simp [RB.ArrWF, Arr.WF]) ⟨by simp [Arr.Exact], Cost.scalar_strictPos 3 (by omega)⟩
    (by simp [RB.ArrWF, Arr.WF]; decide) ⟨by simp [Arr.Exact], Cost.scalar_strictPos 3 (by omega)⟩ (by omega)
  rw [timer_pruning_lossy.1, timer_pruning_lossy.2] at this
  cases this

/-- `service_time` is the linear-scan inverse; the search is the linear-scan least solution -/
theorem building_blocks (s : Supply) (hs : s.WF) :
    (∀ d, s.st? d = some (naiveSt s d)) ∧
    (∀ (w : Nat → Nat), Mono w → ∀ off limit, 1 ≤ limit → InBusyWindow s.stClosed w off →
      searchWithOffset s off limit w = naiveSolveSup s.sbf off w limit) :=
  ⟨fun d => st_eq_naive s hs d, fun w hw off limit hl hoff => searchWithOffset_eq_naive s hs w hw off limit hl hoff⟩

end RTA.C07
