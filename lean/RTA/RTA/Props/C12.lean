import RTA.Lemmas.Derive
import RTA.Lemmas.DeriveIter
import RTA.Lemmas.DeriveReach
/-! # C12 — derived arrival curves dominate their source and are exact on the covered prefix

Model: `RTA/Model/Curve.lean` (`curveFromTrace`), `RTA/Model/Derive.lean` (`dminScan` /
`Arr.dminEntries` = `delta_min_iter`, `Arr.curveOfBound` = `Curve::from_arrival_bound`,
`Arr.prefixOfBoundUntil` = `ArrivalCurvePrefix::from_arrival_bound_until`,
`curveOfPeriodic`). -/

namespace RTA.C12
open RTA RTA.Spec

/-- a curve inferred from a trace bounds the number of trace events in EVERY window of
EVERY length (not only within the recorded prefix), whenever it is usable at all
(non-empty, some recorded span is positive) -/
theorem from_trace_bounds_all_windows (τ : List Nat) (hs : τ.Pairwise (· ≤ ·)) (p : Nat)
    (hne : curveFromTrace τ p ≠ []) (hlast : 1 ≤ (curveFromTrace τ p).getLastD 0) (t x : Nat) :
    cnt τ t x ≤ curveN (curveFromTrace τ p) x := curveFromTrace_bounds τ hs p hne hlast t x

/-- the recorded entries are exactly the minimum spans of `k + 2` consecutive trace events -/
theorem from_trace_entries (τ : List Nat) (hs : τ.Pairwise (· ≤ ·)) (p : Nat) :
    (curveFromTrace τ p).length = min p (τ.length - 1) ∧
    ∀ k, k < (curveFromTrace τ p).length →
      (∀ i, i + k + 1 < τ.length → (curveFromTrace τ p).getD k 0 + τ.getD i 0 ≤ τ.getD (i + k + 1) 0) ∧
      (∃ i, i + k + 1 < τ.length ∧ (curveFromTrace τ p).getD k 0 + τ.getD i 0 = τ.getD (i + k + 1) 0) :=
  curveFromTrace_spec τ hs p

/-- `delta_min_iter` is the exact dual of `number_arrivals`: for `n ≥ 2` it reports `(n, x)`
exactly when `n` events fit into some window of length `x + 1` but into no window of
length `x` (partial: arrival models outside the C11 findings) -/
theorem delta_min_iter_dual_partial (a : Arr) (hwf : a.WF) (hex : a.Exact) (H n x : Nat) :
    (n, x) ∈ a.dminEntries H ↔ (2 ≤ n ∧ x + 1 ≤ H ∧ a.N x < n ∧ n ≤ a.N (x + 1)) :=
  dminEntries_dual a hwf hex H n x

/-- a `Curve` derived from a monotone sub-additive arrival bound is never smaller than the
source at any interval length and coincides with it up to the covered prefix -/
theorem from_arrival_bound_dominates_partial (a : Arr) (hwf : a.WF) (hex : a.Exact) (upTo : Nat)
    (hreach : max upTo 3 + 1 ≤ a.N (Arr.horizonFor a (max upTo 3 + 1) 64 1))
    (hpos : 1 ≤ a.N 1) (hsub : SubAdditive a.N) (hlast : 1 ≤ (a.curveOfBound upTo).getLastD 0) :
    (∀ x, a.N x ≤ curveN (a.curveOfBound upTo) x) ∧
    (∀ x, x < (a.curveOfBound upTo).getLastD 0 → curveN (a.curveOfBound upTo) x = a.N x) :=
  curveOfBound_dominates a hwf hex upTo hreach hpos hsub hlast

/-- the same with a plain size condition in place of `hreach`: the source admits `up_to + 1`
arrivals within `2^65 - 1` time units (then the 64-step doubling search of the model finds its
horizon, `Arr.horizonFor_reaches`) — for a sporadic source: `(up_to + 1) · T ≤ 2^65 - 1` -/
theorem from_arrival_bound_dominates_of_size (a : Arr) (hwf : a.WF) (hex : a.Exact) (upTo : Nat)
    (hsize : max upTo 3 + 1 ≤ a.N (2 ^ 65 - 1))
    (hpos : 1 ≤ a.N 1) (hsub : SubAdditive a.N) (hlast : 1 ≤ (a.curveOfBound upTo).getLastD 0) :
    (∀ x, a.N x ≤ curveN (a.curveOfBound upTo) x) ∧
    (∀ x, x < (a.curveOfBound upTo).getLastD 0 → curveN (a.curveOfBound upTo) x = a.N x) :=
  curveOfBound_dominates_of_size a hwf hex upTo hsize hpos hsub hlast

/-- the same for `ArrivalCurvePrefix::from_arrival_bound_until` (equality up to the horizon
needs no sub-additivity) -/
theorem prefix_from_arrival_bound_partial (a : Arr) (hwf : a.WF) (hex : a.Exact) (h : Nat) (hh : 1 ≤ h)
    (hpos : 1 ≤ a.N 1) :
    ∃ steps, a.prefixOfBoundUntil h = some steps ∧ prefixWF h steps ∧
      (∀ x, x ≤ h → prefixN h steps x = a.N x) ∧
      (SubAdditive a.N → ∀ x, a.N x ≤ prefixN h steps x) :=
  prefixOfBoundUntil_spec a hwf hex h hh hpos

/-- `From<Periodic> for Curve` is exact everywhere -/
theorem from_periodic_exact (T : Nat) (hT : 1 ≤ T) (x : Nat) :
    curveN (curveOfPeriodic T) x = (Arr.periodic T).N x := curveOfPeriodic_eq T hT x

/-- the sub-additivity hypothesis is needed (finding F8): the curve derived from the
non-sub-additive source `Curve [10, 11, 12]` with `up_to = 3` is smaller than the source
at interval length 13 -/
theorem counterexample_F8 :
    curveN ((Arr.curve [10, 11, 12]).curveOfBound 3) 13 < (Arr.curve [10, 11, 12]).N 13 := by
  decide

/-- the library's periodic and sporadic models satisfy the hypotheses (non-vacuity) -/
example : SubAdditive (Arr.sporadic 7 3).N ∧ (Arr.sporadic 7 3).WF ∧ (Arr.sporadic 7 3).Exact ∧
    1 ≤ (Arr.sporadic 7 3).N 1 := by
  refine ⟨fun a b => sporadic_subadditive 7 3 a b (by decide), by decide, ?_, by decide⟩
  simp [Arr.Exact]

/-- the iterator-driven constructors (what the driver executes against the real code: the
horizon is found from what the `DeltaMinIterator` has emitted, which stays faithful when
`steps_iter` misses increases — former findings F2/F3, both fixed in the Rust code) coincide with the constructors the theorems
above speak about, for every well-formed model with exact steps (`from_arrival_bound_until`:
for horizons within the range of `u64` durations) -/
theorem iterator_driven_constructors_agree (a : Arr) (hwf : a.WF) (hex : a.Exact) :
    (∀ upTo, a.curveOfBoundIter upTo = a.curveOfBound upTo) ∧
    (∀ horizon, horizon + 2 ≤ 2 ^ 65 - 1 → a.curveOfBoundUntilIter horizon = a.curveOfBoundUntil horizon) ∧
    (∀ k, a.dminIterTakeIter k = a.dminIterTake k) :=
  ⟨fun u => curveOfBoundIter_eq a hwf hex u, fun h hh => curveOfBoundUntilIter_eq a hwf hex h hh,
   fun k => dminIterTakeIter_eq a hwf hex k⟩

/-- the fuel bound matters: beyond the range of the 64-step doubling search the two renderings
differ (a periodic model with period 2^66) -/
theorem iterator_driven_until_needs_range :
    (Arr.periodic (2 ^ 66)).curveOfBoundUntilIter (2 ^ 67) ≠ (Arr.periodic (2 ^ 66)).curveOfBoundUntil (2 ^ 67) := by
  decide

end RTA.C12
