import RTA.Lemmas.PruneFP
import RTA.Lemmas.PruneEDF
/-! # C06 — FP/EDF/FIFO bounds equal exhaustive evaluation of their defining equations

Model: `RTA/Model/Analyses.lean` (the nine `dedicated_uniproc_rta`); naive evaluation:
`RTA/Spec/Naive.lean` (`naiveFifo`, `naiveFp`, `naiveEdf`: linear-scan least solutions,
EVERY offset `A ∈ [0, L)`, maximum; error iff some least solution does not exist within
the limit).

Hypotheses of the theorems and why they are there:
* `ArrWF`, `Exact` (task under analysis and others): the arrival models are well-formed
  and outside the C11 findings (otherwise `steps_iter` misses offsets);
* `1 ≤ limit`: with `limit = 0` every search diverges (finding K4, `limit_zero`);
* `0 < tua.need 1`: the task under analysis releases something; for a task that never
  releases a job the analyses return `Ok(0)` whereas the all-offset evaluation returns the
  length of the interfering busy window (finding K5, `never_arriving_counterexample`);
* NP/LP: `1 ≤ C`, `1 ≤ last ≤ C`. -/

namespace RTA.C06
open RTA RTA.Spec

theorem fifo (tasks : RB) (hwf : tasks.ArrWF) (hex : tasks.Exact) (limit : Nat) (hl : 1 ≤ limit) :
    fifoRta tasks limit = naiveFifo tasks limit := fifo_eq_naive tasks hwf hex limit hl

theorem fp_fully_preemptive (tua : RB) (others : List RB) (limit : Nat)
    (hwf : tua.ArrWF) (hex : tua.Exact) (ho : OthersOK others) (hl : 1 ≤ limit) (hpos : 0 < tua.need 1) :
    fpPreemptive tua others limit = naiveFp tua others 0 0 limit :=
  fpPreemptive_eq_naive tua others limit hwf hex ho hl hpos

theorem fp_fully_nonpreemptive (a : Arr) (C B : Nat) (others : List RB) (limit : Nat)
    (hwf : a.WF) (hex : a.Exact) (hC : 1 ≤ C) (ho : OthersOK others) (hl : 1 ≤ limit) (hpos : 0 < a.N 1) :
    fpNonpreemptive a C B others limit = naiveFp (.rbf a (.scalar C)) others B (C - 1) limit :=
  fpNonpreemptive_eq_naive a C B others limit hwf hex hC ho hl hpos

theorem fp_limited_preemptive (a : Arr) (C last B : Nat) (others : List RB) (limit : Nat)
    (hwf : a.WF) (hex : a.Exact) (h1 : 1 ≤ last) (h2 : last ≤ C) (ho : OthersOK others)
    (hl : 1 ≤ limit) (hpos : 0 < a.N 1) :
    fpLimited a C last B others limit = naiveFp (.rbf a (.scalar C)) others B (last - 1) limit :=
  fpLimited_eq_naive a C last B others limit hwf hex h1 h2 ho hl hpos

theorem fp_floating_nonpreemptive (tua : RB) (B : Nat) (others : List RB) (limit : Nat)
    (hwf : tua.ArrWF) (hex : tua.Exact) (ho : OthersOK others) (hl : 1 ≤ limit) (hpos : 0 < tua.need 1) :
    fpFloating tua B others limit = naiveFp tua others B 0 limit :=
  fpFloating_eq_naive tua B others limit hwf hex ho hl hpos

theorem edf_fully_preemptive (tua : RB) (D : Nat) (others : List EdfTask) (limit : Nat)
    (hwf : tua.ArrWF) (hex : tua.Exact) (ho : EdfOthersOK others) (hl : 1 ≤ limit) (hpos : 0 < tua.need 1) :
    edfPreemptive tua D others limit = naiveEdf tua D others 0 false limit :=
  edfPreemptive_eq_naive tua D others limit hwf hex ho hl hpos

theorem edf_fully_nonpreemptive (a : Arr) (C D : Nat) (others : List EdfTask) (limit : Nat)
    (hwf : a.WF) (hex : a.Exact) (hC : 1 ≤ C) (ho : EdfOthersOK others) (hl : 1 ≤ limit) (hpos : 0 < a.N 1) :
    edfNonpreemptive a C D others limit = naiveEdf (.rbf a (.scalar C)) D others (C - 1) true limit :=
  edfNonpreemptive_eq_naive a C D others limit hwf hex hC ho hl hpos

theorem edf_limited_preemptive (a : Arr) (C D last : Nat) (others : List EdfTask) (limit : Nat)
    (hwf : a.WF) (hex : a.Exact) (h1 : 1 ≤ last) (h2 : last ≤ C) (ho : EdfOthersOK others)
    (hl : 1 ≤ limit) (hpos : 0 < a.N 1) :
    edfLimited a C D last others limit = naiveEdf (.rbf a (.scalar C)) D others (last - 1) true limit :=
  edfLimited_eq_naive a C D last others limit hwf hex h1 h2 ho hl hpos

theorem edf_floating_nonpreemptive (tua : RB) (D : Nat) (others : List EdfTask) (limit : Nat)
    (hwf : tua.ArrWF) (hex : tua.Exact) (ho : EdfOthersOK others) (hl : 1 ≤ limit) (hpos : 0 < tua.need 1) :
    edfFloating tua D others limit = naiveEdf tua D others 0 true limit :=
  edfFloating_eq_naive tua D others limit hwf hex ho hl hpos

/-- the iterative fixed point itself is the linear-scan least solution (C08 specialised) -/
theorem search_is_linear_scan (w : Nat → Nat) (hw : Mono w) (limit : Nat) (hl : 1 ≤ limit) :
    search .dedicated limit w = naiveSolve w limit := search_dedicated_eq_naive w hw limit hl

/-- finding K5 (degenerate): for a task under analysis that never releases a job the
pruned analysis returns `Ok(0)`, the all-offset evaluation the interfering busy window -/
theorem never_arriving_counterexample :
    fpPreemptive (.rbf .never (.scalar 2)) [.rbf (.periodic 4) (.scalar 1)] 50 = .ok 0 ∧
    naiveFp (.rbf .never (.scalar 2)) [.rbf (.periodic 4) (.scalar 1)] 0 0 50 = .ok 1 := by
  decide

/-- non-vacuity: a jittered, bursty system satisfying every hypothesis -/
example : (RB.rbf (.sporadic 9 13) (.scalar 2)).ArrWF ∧ (RB.rbf (.sporadic 9 13) (.scalar 2)).Exact ∧
    OthersOK [.rbf (.curve [0, 4, 20]) (.scalar 1)] ∧ 0 < (RB.rbf (.sporadic 9 13) (.scalar 2)).need 1 := by
  refine ⟨by simp [RB.ArrWF, Arr.WF], ⟨by simp [Arr.Exact], Cost.scalar_strictPos 2 (by omega)⟩, ?_, by decide⟩
  intro o ho
  simp at ho
  subst ho
  refine ⟨by simp [RB.ArrWF, Arr.WF]; decide, ⟨?_, Cost.scalar_strictPos 1 (by omega)⟩⟩
  simp [Arr.Exact]

end RTA.C06
