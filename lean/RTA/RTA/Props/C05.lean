import RTA.Lemmas.RosNaive
import RTA.Spec.Ros2Exec
/-! # C05 — the RTSS'21 round-robin-aware (rr) and busy-window-aware (bw) analyses are safe

The schedule-level claim (no instance of any callback exceeds its self-consistent bound in
any execution of the executor model) is STATED here over the executor transition system
(`RTA/Spec/Ros2Exec.lean`) and explored by the falsifier (iterating the real singleton
analyses from the WCETs to a fixed point, then executing the executor model under random /
late / adversarial budget placements); mechanising Theorems 2 and 3 of the paper is out of
reach of this effort (see DESIGN.md §9).  Proved here are the analysis-side facts the
paper's argument consumes: both analyses equal naive all-offset linear-scan evaluation of
their defining inequalities (so the pruned step enumeration of Lemma 19 and the iterative
fixed points lose nothing), and the relevant-step enumeration equals the brute-force one. -/

namespace RTA.C05
open RTA RTA.Spec

/-- the assumed-bound vector is self-consistent for the rr analysis: analysing every
callback as a singleton subchain reproduces exactly the assumed bounds -/
def SelfConsistentRr (s : Supply) (wl : List Callback) (limit : Nat) : Prop :=
  ∀ i, i < wl.length → rrSubchain s wl [i] limit = .ok (wl.getD i default).rtb

def SelfConsistentBw (s : Supply) (wl : List Callback) (limit : Nat) : Prop :=
  ∀ i, i < wl.length → bwSubchain s wl [i] limit = .ok (wl.getD i default).rtb

/-- the executor configuration of a workload: timers, then polled callbacks in priority order -/
def execCb (cb : Callback) : Exec.Cb :=
  { isTimer := cb.kind = .timer,
    prio := match cb.kind with | .polled p => p | _ => 0,
    cost := cb.cost.ofJobs 1 }

/-- the full claim of C05 for rr (stated; explored; not proved) -/
def RrSafe : Prop :=
  ∀ (s : Supply) (wl : List Callback) (limit : Nat) (sigma : List Bool) (rels : Nat → List Nat),
    s.WF → SelfConsistentRr s wl limit →
    (∀ t d, s.sbf d ≤ ((List.range d).filter fun u => sigma.getD (t + u) true).length) →
    (∀ k, k < wl.length → ∀ t d,
      ((List.range d).filter fun u => k ∈ rels (t + u)).length ≤ (wl.getD k default).arr.N d) →
    ∀ o ∈ Exec.run (wl.map execCb) (fun _ => none) sigma rels,
      o.2.2 ≤ o.2.1 + (wl.getD o.1 default).rtb

/-- analysis side: rr = naive linear-scan evaluation -/
theorem rr_is_naive (s : Supply) (hs : s.WF) (wl : List Callback) (sub : List Nat) (limit : Nat)
    (hl : 1 ≤ limit) (hsub : ∀ i ∈ sub, i < wl.length) (hwf : ∀ cb ∈ wl, cb.arr.WF ∧ MonoN cb.cost.ofJobs) :
    rrSubchain s wl sub limit = naiveRr s wl sub limit := rr_eq_naive s hs wl sub limit hl hsub hwf

/-- analysis side: bw = naive evaluation over every activation offset -/
theorem bw_is_naive (s : Supply) (hs : s.WF) (wl : List Callback) (sub : List Nat) (limit : Nat)
    (hl : 1 ≤ limit) (hne : sub ≠ []) (hsub : ∀ i ∈ sub, i < wl.length)
    (hwf : ∀ cb ∈ wl, cb.arr.WF ∧ cb.arr.Exact ∧ MonoN cb.cost.ofJobs)
    (hpos : ∀ e, sub.getLast? = some e → 0 < (wl.getD e default).arr.N 1) (dbg : Bool) :
    bwSubchain s wl sub limit dbg = naiveBw s wl sub limit :=
  bw_eq_naive s hs wl sub limit hl hne hsub hwf hpos dbg

/-- Lemma 19's step enumeration = brute force -/
theorem relevant_steps_exact (wl : List Callback) (e H : Nat) (he : e < wl.length)
    (hwf : ∀ cb ∈ wl, cb.arr.WF ∧ cb.arr.Exact) :
    bwAllSteps wl e H = bwBruteSteps wl e H := bwAllSteps_eq_brute wl e H he hwf

end RTA.C05
