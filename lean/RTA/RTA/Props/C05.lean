import RTA.Lemmas.RosNaive
import RTA.Lemmas.RrSound
import RTA.Lemmas.BwSound
import RTA.Lemmas.ExecRefine
import RTA.Lemmas.ExecRunMeets
import RTA.Lemmas.ExecEndToEnd
import RTA.Lemmas.ExecEndToEndExample
import RTA.Lemmas.ExecEndToEndExample2
import RTA.Lemmas.ExecEndToEndX
import RTA.Spec.Ros2Exec
/-! # C05 — the RTSS'21 round-robin-aware (rr) and busy-window-aware (bw) analyses are safe

Proved here, for the **rr** and the **bw** analysis with singleton subchains (every callback
analysed on its own, the setting of the property): if the vector of assumed response-time
bounds reproduces itself — every callback's analysis returns `Ok(R)` with `R` at most its
assumed bound — then EVERY instance of EVERY callback completes within its bound (`rr_safe`,
`bw_safe`): for every supply process that delivers at least the supply-bound function in
every window (every compliant budget placement of a reservation, `rr_safe_reservation`), every
release pattern within the arrival curves, every execution time up to the (scalar) WCET, mixed
timer / polled workloads, known and unknown priorities.

The executor is specified at the schedule level with polling points (`PollingExecLegal`,
`RTA/Lemmas/RrSound.lean`) and as an executable transition system (`RTA/Spec/Ros2Exec.lean`);
`executor_runs_are_legal` proves that EVERY run of the transition system satisfies the
schedule-level Spec, so the theorems hold for the transition system itself (`rr_safe_lts`,
`bw_safe_lts`).  The falsifier executes the Python twin of the transition system
(cross-checked against the Lean definition by the driver op `exec`) against the real analyses.

Outside the property (it speaks of singleton subchains of timers and polled callbacks) and
not proved: multi-callback subchains and workloads containing event-source callbacks; the model
of rr/bw covers them and the correspondence streams exercise them, no soundness theorem. -/

namespace RTA.C05
open RTA RTA.Spec

/-- the assumed-bound vector is self-consistent for the rr analysis: analysing every
callback as a singleton subchain reproduces exactly the assumed bounds -/
def SelfConsistentRr (s : Supply) (wl : List Callback) (limit : Nat) : Prop :=
  ∀ i, i < wl.length → rrSubchain s wl [i] limit = .ok (wl.getD i default).rtb

def SelfConsistentBw (s : Supply) (wl : List Callback) (limit : Nat) : Prop :=
  ∀ i, i < wl.length → bwSubchain s wl [i] limit = .ok (wl.getD i default).rtb

/-- the executor configuration of a workload: timers, then polled callbacks in priority order -/
def execCb (cb : Callback) : Exec.Cb :=
  { isTimer := cb.kind = .timer,
    prio := match cb.kind with | .polled p => p | _ => 0,
    cost := cb.cost.ofJobs 1 }

/-- the claim for rr in terms of the completions reported by `Exec.run` (an earlier phrasing,
kept for reference: `rr_safe_lts` proves the claim for every run, phrased over the job system
`Exec.toSys` of the run, via the refinement `executor_runs_are_legal`) -/
def RrSafe : Prop :=
  ∀ (s : Supply) (wl : List Callback) (limit : Nat) (sigma : List Bool) (rels : Nat → List Nat),
    s.WF → SelfConsistentRr s wl limit →
    (∀ t d, s.sbf d ≤ ((List.range d).filter fun u => sigma.getD (t + u) true).length) →
    (∀ k, k < wl.length → ∀ t d,
      ((List.range d).filter fun u => k ∈ rels (t + u)).length ≤ (wl.getD k default).arr.N d) →
    ∀ o ∈ Exec.run (wl.map execCb) (fun _ => none) sigma rels,
      o.2.2 ≤ o.2.1 + (wl.getD o.1 default).rtb

/-- C05, rr (singleton subchains): a self-reproducing vector of assumed bounds bounds every
response time of every callback -/
theorem rr_safe (s : Sched.Sys) (σ : Nat → Bool) (E : Sched.ExecInfo) (hl : Sched.PollingExecLegal s σ E)
    (sup : Supply) (hs : sup.WF) (hsbf : ∀ t d, sup.sbf d ≤ service σ t d)
    (wl : List Callback) (C : Nat → Nat)
    (hscalar : ∀ i, i < wl.length → (wl.getD i default).cost = .scalar (C i))
    (hwf : ∀ cb ∈ wl, cb.arr.WF)
    (htask : ∀ k, k < s.n → s.task k < wl.length)
    (hkinds : Sched.KindsAgree wl E)
    (hprio : ∀ i j, i < wl.length → j < wl.length → E.isTimer i = false → E.isTimer j = false →
      E.prio i = E.prio j → i = j)
    (hN : ∀ i t d, Sched.countOf s i t (t + d) ≤ (wl.getD i default).arr.N d)
    (hcost : ∀ k, k < s.n → 1 ≤ s.cost k ∧ s.cost k ≤ C (s.task k))
    (limit : Nat)
    (hself : ∀ i, i < wl.length → ∃ R, rrSubchain sup wl [i] limit = .ok R ∧ R ≤ (wl.getD i default).rtb) :
    ∀ j, j < s.n → Sched.MeetsBound s j (wl.getD (s.task j) default).rtb :=
  Sched.rr_singleton_sound s σ E hl sup hs hsbf wl C hscalar hwf htask hkinds hprio hN hcost limit hself

/-- the same on a periodic / deadline-constrained reservation, every compliant budget placement -/
theorem rr_safe_reservation (s : Sched.Sys) (Q D P : Nat) (hQ : 1 ≤ Q) (hQD : Q ≤ D) (hDP : D ≤ P)
    (σ : Nat → Bool) (hσ : Compliant Q D P σ) (E : Sched.ExecInfo) (hl : Sched.PollingExecLegal s σ E)
    (wl : List Callback) (C : Nat → Nat)
    (hscalar : ∀ i, i < wl.length → (wl.getD i default).cost = .scalar (C i))
    (hwf : ∀ cb ∈ wl, cb.arr.WF)
    (htask : ∀ k, k < s.n → s.task k < wl.length)
    (hkinds : Sched.KindsAgree wl E)
    (hprio : ∀ i j, i < wl.length → j < wl.length → E.isTimer i = false → E.isTimer j = false →
      E.prio i = E.prio j → i = j)
    (hN : ∀ i t d, Sched.countOf s i t (t + d) ≤ (wl.getD i default).arr.N d)
    (hcost : ∀ k, k < s.n → 1 ≤ s.cost k ∧ s.cost k ≤ C (s.task k))
    (limit : Nat)
    (hself : ∀ i, i < wl.length → ∃ R, rrSubchain (.constrained Q D P) wl [i] limit = .ok R ∧
      R ≤ (wl.getD i default).rtb) :
    ∀ j, j < s.n → Sched.MeetsBound s j (wl.getD (s.task j) default).rtb :=
  Sched.rr_singleton_sound s σ E hl (.constrained Q D P) ⟨hQ, hQD, hDP⟩
    (fun t d => cSbf_sound Q D P hQ hQD hDP σ hσ t d) wl C hscalar hwf htask hkinds hprio hN hcost limit hself

/-- C05, bw (singleton subchains): the same for the busy-window-aware analysis (arrival models
with exact steps) -/
theorem bw_safe (s : Sched.Sys) (σ : Nat → Bool) (E : Sched.ExecInfo) (hl : Sched.PollingExecLegal s σ E)
    (sup : Supply) (hs : sup.WF) (hsbf : ∀ t d, sup.sbf d ≤ service σ t d)
    (wl : List Callback) (C : Nat → Nat)
    (hscalar : ∀ i, i < wl.length → (wl.getD i default).cost = .scalar (C i))
    (hwf : ∀ cb ∈ wl, cb.arr.WF ∧ cb.arr.Exact)
    (htask : ∀ k, k < s.n → s.task k < wl.length)
    (hkinds : Sched.KindsAgree wl E)
    (hprio : ∀ i j, i < wl.length → j < wl.length → E.isTimer i = false → E.isTimer j = false →
      E.prio i = E.prio j → i = j)
    (hN : ∀ i t d, Sched.countOf s i t (t + d) ≤ (wl.getD i default).arr.N d)
    (hcost : ∀ k, k < s.n → 1 ≤ s.cost k ∧ s.cost k ≤ C (s.task k))
    (limit : Nat) (dbg : Bool)
    (hself : ∀ i, i < wl.length → ∃ R, bwSubchain sup wl [i] limit dbg = .ok R ∧ R ≤ (wl.getD i default).rtb) :
    ∀ j, j < s.n → Sched.MeetsBound s j (wl.getD (s.task j) default).rtb :=
  Sched.bw_singleton_sound s σ E hl sup hs hsbf wl C hscalar hwf htask hkinds hprio hN hcost limit dbg hself

/-- refinement: EVERY run of the executor transition system (`RTA/Spec/Ros2Exec.lean`; supply
process `sigma`, releases `rels`, nothing released from `H` on) satisfies the schedule-level
Spec — so `rr_safe` and `bw_safe` hold for the job system `Exec.toSys` of every run -/
theorem executor_runs_are_legal (cbs : List Exec.Cb) (sigma : Nat → Bool) (rels : Nat → List Nat) (H : Nat)
    (hidx : ∀ t, ∀ i ∈ rels t, i < cbs.length) (hfin : ∀ t, H ≤ t → rels t = [])
    (hcost : ∀ c ∈ cbs, 1 ≤ c.cost) :
    Sched.PollingExecLegal (Exec.toSys cbs sigma rels H) sigma (Exec.toInfo cbs sigma rels) :=
  Exec.run_polling_legal cbs sigma rels H hidx hfin hcost

/-- C05 for rr over the transition system itself: in every run, every release event has
received its full service within the assumed bound of its callback -/
theorem rr_safe_lts (cbs : List Exec.Cb) (sigma : Nat → Bool) (rels : Nat → List Nat) (H : Nat)
    (hidx : ∀ t, ∀ i ∈ rels t, i < cbs.length) (hfin : ∀ t, H ≤ t → rels t = [])
    (hcb : ∀ c ∈ cbs, 1 ≤ c.cost)
    (sup : Supply) (hs : sup.WF) (hsbf : ∀ t d, sup.sbf d ≤ service sigma t d)
    (wl : List Callback) (C : Nat → Nat)
    (hscalar : ∀ i, i < wl.length → (wl.getD i default).cost = .scalar (C i))
    (hwf : ∀ cb ∈ wl, cb.arr.WF)
    (htask : ∀ k, k < (Exec.toSys cbs sigma rels H).n → (Exec.toSys cbs sigma rels H).task k < wl.length)
    (hkinds : Sched.KindsAgree wl (Exec.toInfo cbs sigma rels))
    (hprio : ∀ i j, i < wl.length → j < wl.length → (Exec.toInfo cbs sigma rels).isTimer i = false →
      (Exec.toInfo cbs sigma rels).isTimer j = false →
      (Exec.toInfo cbs sigma rels).prio i = (Exec.toInfo cbs sigma rels).prio j → i = j)
    (hN : ∀ i t d, Sched.countOf (Exec.toSys cbs sigma rels H) i t (t + d) ≤ (wl.getD i default).arr.N d)
    (hcost : ∀ k, k < (Exec.toSys cbs sigma rels H).n →
      1 ≤ (Exec.toSys cbs sigma rels H).cost k ∧
      (Exec.toSys cbs sigma rels H).cost k ≤ C ((Exec.toSys cbs sigma rels H).task k))
    (limit : Nat)
    (hself : ∀ i, i < wl.length → ∃ R, rrSubchain sup wl [i] limit = .ok R ∧ R ≤ (wl.getD i default).rtb) :
    ∀ j, j < (Exec.toSys cbs sigma rels H).n →
      Sched.MeetsBound (Exec.toSys cbs sigma rels H) j (wl.getD ((Exec.toSys cbs sigma rels H).task j) default).rtb :=
  Sched.rr_singleton_sound _ sigma _ (Exec.run_polling_legal cbs sigma rels H hidx hfin hcb) sup hs hsbf wl C
    hscalar hwf htask hkinds hprio hN hcost limit hself

/-- and for bw -/
theorem bw_safe_lts (cbs : List Exec.Cb) (sigma : Nat → Bool) (rels : Nat → List Nat) (H : Nat)
    (hidx : ∀ t, ∀ i ∈ rels t, i < cbs.length) (hfin : ∀ t, H ≤ t → rels t = [])
    (hcb : ∀ c ∈ cbs, 1 ≤ c.cost)
    (sup : Supply) (hs : sup.WF) (hsbf : ∀ t d, sup.sbf d ≤ service sigma t d)
    (wl : List Callback) (C : Nat → Nat)
    (hscalar : ∀ i, i < wl.length → (wl.getD i default).cost = .scalar (C i))
    (hwf : ∀ cb ∈ wl, cb.arr.WF ∧ cb.arr.Exact)
    (htask : ∀ k, k < (Exec.toSys cbs sigma rels H).n → (Exec.toSys cbs sigma rels H).task k < wl.length)
    (hkinds : Sched.KindsAgree wl (Exec.toInfo cbs sigma rels))
    (hprio : ∀ i j, i < wl.length → j < wl.length → (Exec.toInfo cbs sigma rels).isTimer i = false →
      (Exec.toInfo cbs sigma rels).isTimer j = false →
      (Exec.toInfo cbs sigma rels).prio i = (Exec.toInfo cbs sigma rels).prio j → i = j)
    (hN : ∀ i t d, Sched.countOf (Exec.toSys cbs sigma rels H) i t (t + d) ≤ (wl.getD i default).arr.N d)
    (hcost : ∀ k, k < (Exec.toSys cbs sigma rels H).n →
      1 ≤ (Exec.toSys cbs sigma rels H).cost k ∧
      (Exec.toSys cbs sigma rels H).cost k ≤ C ((Exec.toSys cbs sigma rels H).task k))
    (limit : Nat) (dbg : Bool)
    (hself : ∀ i, i < wl.length → ∃ R, bwSubchain sup wl [i] limit dbg = .ok R ∧ R ≤ (wl.getD i default).rtb) :
    ∀ j, j < (Exec.toSys cbs sigma rels H).n →
      Sched.MeetsBound (Exec.toSys cbs sigma rels H) j (wl.getD ((Exec.toSys cbs sigma rels H).task j) default).rtb :=
  Sched.bw_singleton_sound _ sigma _ (Exec.run_polling_legal cbs sigma rels H hidx hfin hcb) sup hs hsbf wl C
    hscalar hwf htask hkinds hprio hN hcost limit dbg hself

/-- C05 for rr in terms of the completions that the executable `Exec.run` reports on ANY finite
prefix of the supply process: every reported completion `(i, release, completion)` satisfies
`completion ≤ release + rtb_i` (`rr_safe_lts` + `Exec.run_meets_of_sys`) -/
theorem rr_safe_run (cbs : List Exec.Cb) (sigma : Nat → Bool) (rels : Nat → List Nat) (H : Nat)
    (hidx : ∀ t, ∀ i ∈ rels t, i < cbs.length) (hfin : ∀ t, H ≤ t → rels t = [])
    (hcb : ∀ c ∈ cbs, 1 ≤ c.cost)
    (sup : Supply) (hs : sup.WF) (hsbf : ∀ t d, sup.sbf d ≤ service sigma t d)
    (wl : List Callback) (C : Nat → Nat)
    (hscalar : ∀ i, i < wl.length → (wl.getD i default).cost = .scalar (C i))
    (hwf : ∀ cb ∈ wl, cb.arr.WF)
    (htask : ∀ k, k < (Exec.toSys cbs sigma rels H).n → (Exec.toSys cbs sigma rels H).task k < wl.length)
    (hkinds : Sched.KindsAgree wl (Exec.toInfo cbs sigma rels))
    (hprio : ∀ i j, i < wl.length → j < wl.length → (Exec.toInfo cbs sigma rels).isTimer i = false →
      (Exec.toInfo cbs sigma rels).isTimer j = false →
      (Exec.toInfo cbs sigma rels).prio i = (Exec.toInfo cbs sigma rels).prio j → i = j)
    (hN : ∀ i t d, Sched.countOf (Exec.toSys cbs sigma rels H) i t (t + d) ≤ (wl.getD i default).arr.N d)
    (hcost : ∀ k, k < (Exec.toSys cbs sigma rels H).n →
      1 ≤ (Exec.toSys cbs sigma rels H).cost k ∧
      (Exec.toSys cbs sigma rels H).cost k ≤ C ((Exec.toSys cbs sigma rels H).task k))
    (limit : Nat)
    (hself : ∀ i, i < wl.length → ∃ R, rrSubchain sup wl [i] limit = .ok R ∧ R ≤ (wl.getD i default).rtb)
    (n i : Nat) :
    ∀ o ∈ Exec.run cbs (fun _ => none) ((List.range n).map sigma) rels, o.1 = i →
      o.2.2 ≤ o.2.1 + (wl.getD i default).rtb :=
  Exec.run_meets_of_sys cbs sigma rels H hidx hfin hcb i _
    (fun j hj hji => by
      have := rr_safe_lts cbs sigma rels H hidx hfin hcb sup hs hsbf wl C hscalar hwf htask hkinds hprio hN
        hcost limit hself j hj
      rwa [hji] at this) n

/-- and for bw -/
theorem bw_safe_run (cbs : List Exec.Cb) (sigma : Nat → Bool) (rels : Nat → List Nat) (H : Nat)
    (hidx : ∀ t, ∀ i ∈ rels t, i < cbs.length) (hfin : ∀ t, H ≤ t → rels t = [])
    (hcb : ∀ c ∈ cbs, 1 ≤ c.cost)
    (sup : Supply) (hs : sup.WF) (hsbf : ∀ t d, sup.sbf d ≤ service sigma t d)
    (wl : List Callback) (C : Nat → Nat)
    (hscalar : ∀ i, i < wl.length → (wl.getD i default).cost = .scalar (C i))
    (hwf : ∀ cb ∈ wl, cb.arr.WF ∧ cb.arr.Exact)
    (htask : ∀ k, k < (Exec.toSys cbs sigma rels H).n → (Exec.toSys cbs sigma rels H).task k < wl.length)
    (hkinds : Sched.KindsAgree wl (Exec.toInfo cbs sigma rels))
    (hprio : ∀ i j, i < wl.length → j < wl.length → (Exec.toInfo cbs sigma rels).isTimer i = false →
      (Exec.toInfo cbs sigma rels).isTimer j = false →
      (Exec.toInfo cbs sigma rels).prio i = (Exec.toInfo cbs sigma rels).prio j → i = j)
    (hN : ∀ i t d, Sched.countOf (Exec.toSys cbs sigma rels H) i t (t + d) ≤ (wl.getD i default).arr.N d)
    (hcost : ∀ k, k < (Exec.toSys cbs sigma rels H).n →
      1 ≤ (Exec.toSys cbs sigma rels H).cost k ∧
      (Exec.toSys cbs sigma rels H).cost k ≤ C ((Exec.toSys cbs sigma rels H).task k))
    (limit : Nat) (dbg : Bool)
    (hself : ∀ i, i < wl.length → ∃ R, bwSubchain sup wl [i] limit dbg = .ok R ∧ R ≤ (wl.getD i default).rtb)
    (n i : Nat) :
    ∀ o ∈ Exec.run cbs (fun _ => none) ((List.range n).map sigma) rels, o.1 = i →
      o.2.2 ≤ o.2.1 + (wl.getD i default).rtb :=
  Exec.run_meets_of_sys cbs sigma rels H hidx hfin hcb i _
    (fun j hj hji => by
      have := bw_safe_lts cbs sigma rels H hidx hfin hcb sup hs hsbf wl C hscalar hwf htask hkinds hprio hN
        hcost limit dbg hself j hj
      rwa [hji] at this) n

/-- **C05, rr, end to end**: every hypothesis is on the INPUTS of the run — the workload `wl`
describes the callback table (kinds, priorities, scalar costs), the releases
(`Exec.relCount rels k t d` = releases of `k` in `[t, t + d)`) are within the arrival curves,
the supply process delivers at least `sup.sbf` per window, the assumed bounds reproduce
themselves — and the conclusion on the completions reported by the executable `Exec.run`. -/
theorem rr_safe_end_to_end (cbs : List Exec.Cb) (sigma : Nat → Bool) (rels : Nat → List Nat) (H : Nat)
    (hidx : ∀ t, ∀ i ∈ rels t, i < cbs.length) (hfin : ∀ t, H ≤ t → rels t = [])
    (hcb : ∀ c ∈ cbs, 1 ≤ c.cost)
    (sup : Supply) (hs : sup.WF) (hsbf : ∀ t d, sup.sbf d ≤ service sigma t d)
    (wl : List Callback) (hlen : wl.length = cbs.length)
    (hscalar : ∀ i, i < wl.length → (wl.getD i default).cost = .scalar (cbs.getD i default).cost)
    (hwf : ∀ cb ∈ wl, cb.arr.WF)
    (hkinds : Sched.KindsAgree wl (Exec.toInfo cbs sigma rels))
    (hprio : ∀ i j, i < cbs.length → j < cbs.length → (cbs.getD i default).isTimer = false →
      (cbs.getD j default).isTimer = false → (cbs.getD i default).prio = (cbs.getD j default).prio → i = j)
    (hrel : ∀ k, k < cbs.length → ∀ t d, Exec.relCount rels k t d ≤ (wl.getD k default).arr.N d)
    (limit : Nat)
    (hself : ∀ i, i < wl.length → ∃ R, rrSubchain sup wl [i] limit = .ok R ∧ R ≤ (wl.getD i default).rtb)
    (n i : Nat) :
    ∀ o ∈ Exec.run cbs (fun _ => none) ((List.range n).map sigma) rels, o.1 = i →
      o.2.2 ≤ o.2.1 + (wl.getD i default).rtb :=
  Exec.rr_exec_sound cbs sigma rels H hidx hfin hcb sup hs hsbf wl hlen hscalar hwf hkinds hprio hrel limit hself n i

/-- **C05, bw, end to end** -/
theorem bw_safe_end_to_end (cbs : List Exec.Cb) (sigma : Nat → Bool) (rels : Nat → List Nat) (H : Nat)
    (hidx : ∀ t, ∀ i ∈ rels t, i < cbs.length) (hfin : ∀ t, H ≤ t → rels t = [])
    (hcb : ∀ c ∈ cbs, 1 ≤ c.cost)
    (sup : Supply) (hs : sup.WF) (hsbf : ∀ t d, sup.sbf d ≤ service sigma t d)
    (wl : List Callback) (hlen : wl.length = cbs.length)
    (hscalar : ∀ i, i < wl.length → (wl.getD i default).cost = .scalar (cbs.getD i default).cost)
    (hwf : ∀ cb ∈ wl, cb.arr.WF ∧ cb.arr.Exact)
    (hkinds : Sched.KindsAgree wl (Exec.toInfo cbs sigma rels))
    (hprio : ∀ i j, i < cbs.length → j < cbs.length → (cbs.getD i default).isTimer = false →
      (cbs.getD j default).isTimer = false → (cbs.getD i default).prio = (cbs.getD j default).prio → i = j)
    (hrel : ∀ k, k < cbs.length → ∀ t d, Exec.relCount rels k t d ≤ (wl.getD k default).arr.N d)
    (limit : Nat) (dbg : Bool)
    (hself : ∀ i, i < wl.length → ∃ R, bwSubchain sup wl [i] limit dbg = .ok R ∧ R ≤ (wl.getD i default).rtb)
    (n i : Nat) :
    ∀ o ∈ Exec.run cbs (fun _ => none) ((List.range n).map sigma) rels, o.1 = i →
      o.2.2 ≤ o.2.1 + (wl.getD i default).rtb :=
  Exec.bw_exec_sound cbs sigma rels H hidx hfin hcb sup hs hsbf wl hlen hscalar hwf hkinds hprio hrel limit dbg hself n i

/-- non-vacuity of `rr_safe_end_to_end`: a concrete callback table (a timer and two polled
callbacks), a dedicated processor and strictly periodic releases satisfy EVERY hypothesis with
the self-reproducing bound vector (9, 9, 9), and `Exec.run` reports completions — all of them
within the bounds -/
theorem rr_safe_end_to_end_nonvacuous :
    (∀ i, i < Exec.exWl.length →
      ∃ R, rrSubchain .dedicated Exec.exWl [i] 100 = .ok R ∧ R ≤ (Exec.exWl.getD i default).rtb) ∧
    8 ≤ (Exec.run Exec.exCbs (fun _ => none) ((List.range 60).map Exec.exSigmaAll) Exec.exRels).length ∧
    ∀ o ∈ Exec.run Exec.exCbs (fun _ => none) ((List.range 60).map Exec.exSigmaAll) Exec.exRels,
      o.2.2 ≤ o.2.1 + (Exec.exWl.getD o.1 default).rtb :=
  ⟨Exec.rr_exec_sound_nonvacuous.2.2.2.2.2.2.2.2.2.2.2.1, Exec.rr_exec_sound_nonvacuous.2.2.2.2.2.2.2.2.2.2.2.2,
    Exec.rr_example_bounded⟩

/-- **C05, rr, end to end, ALL EXECUTION TIMES**: in the executor transition system
`RTA/Spec/Ros2ExecX.lean` the instance of callback `k` that starts in slot `t` runs for `ex k t`
slots, anywhere between 1 and the callback's WCET (`hex`); everything else as in
`rr_safe_end_to_end` -/
theorem rr_safe_all_execution_times (cbs : List Exec.Cb) (ex : Nat → Nat → Nat) (sigma : Nat → Bool) (rels : Nat → List Nat) (H : Nat)
    (hidx : ∀ t, ∀ i ∈ rels t, i < cbs.length) (hfin : ∀ t, H ≤ t → rels t = [])
    (hex : ∀ k, k < cbs.length → ∀ t, 1 ≤ ex k t ∧ ex k t ≤ (cbs.getD k default).cost)
    (sup : Supply) (hs : sup.WF) (hsbf : ∀ t d, sup.sbf d ≤ service sigma t d)
    (wl : List Callback) (hlen : wl.length = cbs.length)
    (hscalar : ∀ i, i < wl.length → (wl.getD i default).cost = .scalar (cbs.getD i default).cost)
    (hwf : ∀ cb ∈ wl, cb.arr.WF)
    (hkinds : Sched.KindsAgree wl
      ⟨fun i => (cbs.getD i default).isTimer, fun i => (cbs.getD i default).prio, fun _ => false⟩)
    (hprio : ∀ i j, i < cbs.length → j < cbs.length → (cbs.getD i default).isTimer = false →
      (cbs.getD j default).isTimer = false → (cbs.getD i default).prio = (cbs.getD j default).prio → i = j)
    (hrel : ∀ k, k < cbs.length → ∀ t d, Exec.relCount rels k t d ≤ (wl.getD k default).arr.N d)
    (limit : Nat)
    (hself : ∀ i, i < wl.length → ∃ R, rrSubchain sup wl [i] limit = .ok R ∧ R ≤ (wl.getD i default).rtb)
    (n i : Nat) :
    ∀ o ∈ ExecX.run cbs ex (fun _ => none) ((List.range n).map sigma) rels, o.1 = i →
      o.2.2 ≤ o.2.1 + (wl.getD i default).rtb :=
  ExecX.rr_exec_sound_x cbs ex sigma rels H hidx hfin hex sup hs hsbf wl hlen hscalar hwf hkinds hprio hrel limit hself n i

/-- **C05, bw, end to end, all execution times** -/
theorem bw_safe_all_execution_times (cbs : List Exec.Cb) (ex : Nat → Nat → Nat) (sigma : Nat → Bool) (rels : Nat → List Nat) (H : Nat)
    (hidx : ∀ t, ∀ i ∈ rels t, i < cbs.length) (hfin : ∀ t, H ≤ t → rels t = [])
    (hex : ∀ k, k < cbs.length → ∀ t, 1 ≤ ex k t ∧ ex k t ≤ (cbs.getD k default).cost)
    (sup : Supply) (hs : sup.WF) (hsbf : ∀ t d, sup.sbf d ≤ service sigma t d)
    (wl : List Callback) (hlen : wl.length = cbs.length)
    (hscalar : ∀ i, i < wl.length → (wl.getD i default).cost = .scalar (cbs.getD i default).cost)
    (hwf : ∀ cb ∈ wl, cb.arr.WF ∧ cb.arr.Exact)
    (hkinds : Sched.KindsAgree wl
      ⟨fun i => (cbs.getD i default).isTimer, fun i => (cbs.getD i default).prio, fun _ => false⟩)
    (hprio : ∀ i j, i < cbs.length → j < cbs.length → (cbs.getD i default).isTimer = false →
      (cbs.getD j default).isTimer = false → (cbs.getD i default).prio = (cbs.getD j default).prio → i = j)
    (hrel : ∀ k, k < cbs.length → ∀ t d, Exec.relCount rels k t d ≤ (wl.getD k default).arr.N d)
    (limit : Nat) (dbg : Bool)
    (hself : ∀ i, i < wl.length → ∃ R, bwSubchain sup wl [i] limit dbg = .ok R ∧ R ≤ (wl.getD i default).rtb)
    (n i : Nat) :
    ∀ o ∈ ExecX.run cbs ex (fun _ => none) ((List.range n).map sigma) rels, o.1 = i →
      o.2.2 ≤ o.2.1 + (wl.getD i default).rtb :=
  ExecX.bw_exec_sound_x cbs ex sigma rels H hidx hfin hex sup hs hsbf wl hlen hscalar hwf hkinds hprio hrel limit dbg hself n i

/-- non-vacuity of `bw_safe_end_to_end` on the same run: the bw singleton analyses return `Ok(6)`
for every callback (≤ the assumed bound 9), and every completion that `Exec.run` reports is
within the bounds -/
theorem bw_safe_end_to_end_nonvacuous :
    (∀ i, i < Exec.exWl.length →
      ∃ R, bwSubchain .dedicated Exec.exWl [i] 100 false = .ok R ∧ R ≤ (Exec.exWl.getD i default).rtb) ∧
    ∀ o ∈ Exec.run Exec.exCbs (fun _ => none) ((List.range 60).map Exec.exSigmaAll) Exec.exRels,
      o.2.2 ≤ o.2.1 + (Exec.exWl.getD o.1 default).rtb :=
  ⟨Exec.bw_example_self_consistent, Exec.bw_example_bounded⟩

/-- analysis side: rr = naive linear-scan evaluation -/
theorem rr_is_naive (s : Supply) (hs : s.WF) (wl : List Callback) (sub : List Nat) (limit : Nat)
    (hl : 1 ≤ limit) (hsub : ∀ i ∈ sub, i < wl.length) (hwf : ∀ cb ∈ wl, cb.arr.WF ∧ MonoN cb.cost.ofJobs) :
    rrSubchain s wl sub limit = naiveRr s wl sub limit := rr_eq_naive s hs wl sub limit hl hsub hwf

/-- analysis side: bw = naive evaluation over every activation offset -/
theorem bw_is_naive (s : Supply) (hs : s.WF) (wl : List Callback) (sub : List Nat) (limit : Nat)
    (hl : 1 ≤ limit) (hne : sub ≠ []) (hsub : ∀ i ∈ sub, i < wl.length)
    (hwf : ∀ cb ∈ wl, cb.arr.WF ∧ cb.arr.Exact ∧ MonoN cb.cost.ofJobs)
    (hpos : ∀ e, sub.getLast? = some e → 0 < (wl.getD e default).arr.N 1) (dbg : Bool) :
    bwSubchain s wl sub limit dbg = naiveBw s wl sub limit :=
  bw_eq_naive s hs wl sub limit hl hne hsub hwf hpos dbg

/-- Lemma 19's step enumeration = brute force -/
theorem relevant_steps_exact (wl : List Callback) (e H : Nat) (he : e < wl.length)
    (hwf : ∀ cb ∈ wl, cb.arr.WF ∧ cb.arr.Exact) :
    bwAllSteps wl e H = bwBruteSteps wl e H := bwAllSteps_eq_brute wl e H he hwf

end RTA.C05
