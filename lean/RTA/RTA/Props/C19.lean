import RTA.Lemmas.Agree
import RTA.Lemmas.FifoLeEs
/-! # C19 — analyses agree with each other on their common special cases -/

namespace RTA.C19
open RTA RTA.Spec

theorem fp_limited_last1_noblocking_eq_preemptive (a : Arr) (C : Nat) (others : List RB) (limit : Nat) :
    fpLimited a C 1 0 others limit = fpPreemptive (.rbf a (.scalar C)) others limit :=
  fpLimited_last1_eq_preemptive a C others limit

theorem fp_limited_lastC_eq_nonpreemptive (a : Arr) (C B : Nat) (others : List RB) (limit : Nat) (hC : 1 ≤ C) :
    fpLimited a C C B others limit = fpNonpreemptive a C B others limit :=
  fpLimited_lastC_eq_nonpreemptive a C B others limit hC

theorem fp_floating_eq_limited_last1 (a : Arr) (C B : Nat) (others : List RB) (limit : Nat) :
    fpFloating (.rbf a (.scalar C)) B others limit = fpLimited a C 1 B others limit :=
  fpFloating_eq_limited_last1 a C B others limit

theorem edf_limited_seg1_eq_preemptive (a : Arr) (C D : Nat) (others : List EdfTask) (limit : Nat)
    (h : ∀ o ∈ others, o.seg ≤ 1) :
    edfLimited a C D 1 others limit = edfPreemptive (.rbf a (.scalar C)) D others limit :=
  edfLimited_seg1_eq_preemptive a C D others limit h

theorem edf_limited_segC_eq_nonpreemptive (a : Arr) (C D : Nat) (others : List EdfTask) (limit : Nat)
    (hC : 1 ≤ C) : edfLimited a C D C others limit = edfNonpreemptive a C D others limit :=
  edfLimited_segC_eq_nonpreemptive a C D others limit hC

theorem edf_floating_eq_limited_last1 (a : Arr) (C D : Nat) (others : List EdfTask) (limit : Nat) :
    edfFloating (.rbf a (.scalar C)) D others limit = edfLimited a C D 1 others limit :=
  edfFloating_eq_limited_last1 a C D others limit

/-- with equal relative deadlines the largest non-preemptive-EDF bound over all tasks
equals the FIFO bound -/
theorem max_np_edf_eq_fifo (ts : List (Arr × Nat)) (D limit R : Nat)
    (hwf : ∀ p ∈ ts, p.1.WF ∧ p.1.Exact ∧ 1 ≤ p.2 ∧ 0 < p.1.N 1) (hl : 1 ≤ limit)
    (hR : fifoRta (fifoOfTasks ts) limit = .ok R) :
    (∀ i, i < ts.length → ∃ Ri, edfNonpreemptive (ts.getD i default).1 (ts.getD i default).2 D
        (npEdfOthers ts D i) limit = .ok Ri ∧ Ri ≤ R) ∧
    (ts ≠ [] → ∃ i, i < ts.length ∧ edfNonpreemptive (ts.getD i default).1 (ts.getD i default).2 D
        (npEdfOthers ts D i) limit = .ok R) := max_npEdf_eq_fifo ts D limit R hwf hl hR

/-- every ROS 2 analysis gives the same result for a dedicated processor, a periodic
reservation with budget = period and a constrained reservation with budget = deadline =
period -/
theorem ros_full_supplies_agree (P : Nat) (hP : 1 ≤ P) :
    (∀ demand limit, rosEventSource (.periodic P P) demand limit = rosEventSource .dedicated demand limit ∧
      rosEventSource (.constrained P P P) demand limit = rosEventSource .dedicated demand limit) ∧
    (∀ own interf B limit, rosTimer (.periodic P P) own interf B limit = rosTimer .dedicated own interf B limit ∧
      rosTimer (.constrained P P P) own interf B limit = rosTimer .dedicated own interf B limit) ∧
    (∀ own interf limit, rosPollingPoint (.periodic P P) own interf limit = rosPollingPoint .dedicated own interf limit ∧
      rosPollingPoint (.constrained P P P) own interf limit = rosPollingPoint .dedicated own interf limit) ∧
    (∀ last pfx full others limit,
      rosChain (.periodic P P) last pfx full others limit = rosChain .dedicated last pfx full others limit ∧
      rosChain (.constrained P P P) last pfx full others limit = rosChain .dedicated last pfx full others limit) ∧
    (∀ wl sub limit, rrSubchain (.periodic P P) wl sub limit = rrSubchain .dedicated wl sub limit ∧
      rrSubchain (.constrained P P P) wl sub limit = rrSubchain .dedicated wl sub limit) ∧
    (∀ wl sub limit dbg, bwSubchain (.periodic P P) wl sub limit dbg = bwSubchain .dedicated wl sub limit dbg ∧
      bwSubchain (.constrained P P P) wl sub limit dbg = bwSubchain .dedicated wl sub limit dbg) := by
  obtain ⟨h1, h2, h3, h4⟩ := full_supplies_eq P hP
  have hp := ros_congr (.periodic P P) .dedicated h1 h2
  have hc := ros_congr (.constrained P P P) .dedicated h3 h4
  exact ⟨fun d l => ⟨hp.1 d l, hc.1 d l⟩, fun o i b l => ⟨hp.2.1 o i b l, hc.2.1 o i b l⟩,
    fun o i l => ⟨hp.2.2.1 o i l, hc.2.2.1 o i l⟩,
    fun a b c d l => ⟨hp.2.2.2.1 a b c d l, hc.2.2.2.1 a b c d l⟩,
    fun w s l => ⟨hp.2.2.2.2.1 w s l, hc.2.2.2.2.1 w s l⟩,
    fun w s l d => ⟨hp.2.2.2.2.2 w s l d, hc.2.2.2.2.2 w s l d⟩⟩

/-- the event-source analysis equals the FIFO analysis on a dedicated processor (partial:
when the demand does not jump by more than the bound right after the busy window) -/
theorem event_source_eq_fifo_partial (r : RB) (hwf : r.ArrWF) (hex : r.Exact) (limit L R : Nat)
    (hl : 1 ≤ limit) (hL : naiveSolve (fun x => r.need x) limit = .ok L) (hR : fifoRta r limit = .ok R)
    (hjump : r.need (L + 1) ≤ L + R) :
    rosEventSource .dedicated r limit = .ok R :=
  eventSource_eq_fifo_partial r hwf hex limit L R hl hL hR hjump

/-- finding K3, the direction that always holds: the event-source bound on a dedicated processor
is never smaller than the FIFO bound (it examines the additional offset `A = L`), and a FIFO
error is an event-source error -/
theorem fifo_le_event_source (r : RB) (hwf : r.ArrWF) (hex : r.Exact) (limit : Nat) (hl : 1 ≤ limit) :
    Res.leD (fifoRta r limit) (rosEventSource .dedicated r limit) :=
  RTA.fifo_le_event_source r hwf hex limit hl

/-- finding K3: without the side condition they differ (`Curve [4,4,9]`, WCET 4: 8 vs 4),
because `bound_response_time` also examines the offset `A = L` -/
theorem counterexample_K3 :
    rosEventSource .dedicated (.rbf (.curve [4, 4, 9]) (.scalar 4)) 100 ≠
      fifoRta (.rbf (.curve [4, 4, 9]) (.scalar 4)) 100 := eventSource_ne_fifo_counterexample

end RTA.C19
