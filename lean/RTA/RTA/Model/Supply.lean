import RTA.Model.Basic
/-! Model of `src/supply/*.rs`. -/

namespace RTA

/-- `supply::Periodic::provided_service` (Q = budget, P = period). -/
def pSbf (Q P : Nat) (delta : Nat) : Nat :=
  let slack := P - Q
  if slack > delta then 0 else
  let full := (delta - slack) / P
  let x := slack + slack + P * full
  let frac := if x < delta then delta - x else 0
  Q * full + frac

/-- `supply::Periodic::service_time`. -/
def pSt (Q P : Nat) (demand : Nat) : Nat :=
  if demand = 0 then 0 else
  let slack := P - Q
  let full := demand / Q
  let fullBudget := Q * full
  let frac := if fullBudget < demand then slack + demand - fullBudget else 0
  slack + P * full + frac

/-- `supply::Constrained::provided_service` (Q = budget, D = deadline, P = period). -/
def cSbf (Q D P : Nat) (delta : Nat) : Nat :=
  let shift := P - Q
  if shift > delta then 0 else
  let full := (delta - shift) / P
  let x := shift + P * full + D - Q
  let frac := if x < delta then min Q (delta - x) else 0
  Q * full + frac

/-- `supply::Constrained::service_time`. -/
def cSt (Q D P : Nat) (demand : Nat) : Nat :=
  if demand = 0 then 0 else
  let full := demand / Q
  let fullBudget := Q * full
  let frac := if fullBudget < demand then demand - fullBudget + P - Q else 0
  D - Q + P * full + frac

/-- The loop of the trait's default `SupplyBound::service_time`:
`t = demand; loop { s = sbf t; if s ≥ demand return t; t += demand - s }`.
`hi` is an a-priori bound used as the termination measure; `none` = the loop ran past
`hi` (never happens when `hi` is the true inverse, theorem `defaultLoop_spec`). -/
def defaultLoop (sbf : Nat → Nat) (demand hi : Nat) (t : Nat) : Option Nat :=
  if sbf t ≥ demand then some t
  else if t ≥ hi then none
  else defaultLoop sbf demand hi (t + (demand - sbf t))
termination_by hi - t
decreasing_by omega

/-- Supply models.  `viaDefault s` is the harness wrapper that forwards
`provided_service` to `s` and does *not* override `service_time`, so that the trait's
default implementation runs. -/
inductive Supply where
  | dedicated
  | periodic (Q P : Nat)
  | constrained (Q D P : Nat)
  | viaDefault (s : Supply)
deriving Repr, Inhabited

def Supply.sbf : Supply → Nat → Nat
  | .dedicated, d => d
  | .periodic Q P, d => pSbf Q P d
  | .constrained Q D P, d => cSbf Q D P d
  | .viaDefault s, d => s.sbf d

/-- closed-form inverse of the underlying supply (ignores `viaDefault`) -/
def Supply.stClosed : Supply → Nat → Nat
  | .dedicated, d => d
  | .periodic Q P, d => pSt Q P d
  | .constrained Q D P, d => cSt Q D P d
  | .viaDefault s, d => s.stClosed d

/-- `service_time`; for `viaDefault` the default loop, `none` when it would run away. -/
def Supply.st? : Supply → Nat → Option Nat
  | .dedicated, d => some d
  | .periodic Q P, d => some (pSt Q P d)
  | .constrained Q D P, d => some (cSt Q D P d)
  | .viaDefault s, d => defaultLoop s.sbf d (s.stClosed d) d

def Supply.st (s : Supply) (d : Nat) : Nat := (s.st? d).getD 0

/-- Constructor assertions and the implicit guards (division by the period / budget). -/
def Supply.WF : Supply → Prop
  | .dedicated => True
  | .periodic Q P => 1 ≤ Q ∧ Q ≤ P
  | .constrained Q D P => 1 ≤ Q ∧ Q ≤ D ∧ D ≤ P
  | .viaDefault s => s.WF

def Supply.decWF : (s : Supply) → Decidable s.WF
  | .dedicated => isTrue trivial
  | .periodic Q P => inferInstanceAs (Decidable (1 ≤ Q ∧ Q ≤ P))
  | .constrained Q D P => inferInstanceAs (Decidable (1 ≤ Q ∧ Q ≤ D ∧ D ≤ P))
  | .viaDefault s => Supply.decWF s

instance Supply.instDecWF (s : Supply) : Decidable s.WF := Supply.decWF s

end RTA
