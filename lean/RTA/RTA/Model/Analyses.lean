import RTA.Model.FixedPoint
import RTA.Model.Demand
/-! Model of the nine dedicated-uniprocessor analyses (`fifo`, `fixed_priority::*`,
`edf::*`).  Guards (`panic`) are those of a build with debug assertions and overflow
checks: non-saturating `Duration - Duration`, `Service - Service`, and
`Offset::closed_from_time_zero` (`delta - 1`). -/

namespace RTA

def sumNeed (rs : List RB) (d : Nat) : Nat := sumList (rs.map fun r => r.need d)

/-- `demand::step_offsets(rb).take_while(|A| A < L)`; `none` = a yielded step is 0 -/
def RB.offsetsBelow (r : RB) (L : Nat) : Option (List Nat) :=
  stepOffsetsBelow (r.stepsUpTo L) L

/-- run `f` on every offset of the search space and combine with `max_response_time`;
a missing search space (`none`) is a guard failure -/
def overOffsets (space : Option (List Nat)) (f : Nat → Res) : Res :=
  match space with
  | none => .panic
  | some as => maxResponseTime (as.map f)

/-- `AF - A` non-saturating, plus `rem`: the tail shared by the FP analyses -/
def finishFP (A rem : Nat) : Res → Res
  | .ok AF => if AF < A then .panic else .ok (AF - A + rem)
  | e => e

/-- `AF.saturating_sub(A)`, plus `rem`: the tail shared by the EDF analyses -/
def finishEDF (A rem : Nat) : Res → Res
  | .ok AF => .ok (AF - A + rem)
  | e => e

/-- `fifo::dedicated_uniproc_rta` -/
def fifoRta (tasks : RB) (limit : Nat) : Res :=
  match search .dedicated limit (fun L => tasks.need L) with
  | .ok L =>
    match tasks.offsetsBelow L with
    | none => .panic
    | some as =>
      if as.any (fun A => decide (tasks.need (A + 1) < A)) then .panic
      else .ok (maxList (as.map fun A => tasks.need (A + 1) - A))
  | e => e

/-- the common shape of the four fixed-priority analyses: blocking `B`, task under
analysis `tua`, run-to-completion remainder `rem` (`C - rtct`); `selfGuard` says whether
`rbf_tua(A+1) - rem` is evaluated (NP / LP) -/
def fpCore (tua : RB) (others : List RB) (B rem : Nat) (limit : Nat)
    (paramGuardFails : Bool := false) : Res :=
  match search .dedicated limit (fun L => B + sumNeed others L + tua.need L) with
  | .ok L =>
    -- `rtct` / `rem_cost` are computed after the busy-window search succeeded
    if paramGuardFails then .panic else
    overOffsets (tua.offsetsBelow L) fun A =>
      if tua.need (A + 1) < rem then .panic
      else
        finishFP A rem
          (search .dedicated limit (fun AF => B + (tua.need (A + 1) - rem) + sumNeed others AF))
  | e => e

/-- `fixed_priority::fully_preemptive::dedicated_uniproc_rta` -/
def fpPreemptive (tua : RB) (others : List RB) (limit : Nat) : Res :=
  fpCore tua others 0 0 limit

/-- `fixed_priority::fully_nonpreemptive::dedicated_uniproc_rta`
(`wcet - epsilon` underflows for `C = 0`) -/
def fpNonpreemptive (a : Arr) (C B : Nat) (others : List RB) (limit : Nat) : Res :=
  fpCore (.rbf a (.scalar C)) others B (C - 1) limit (decide (C < 1))

/-- `fixed_priority::limited_preemptive::dedicated_uniproc_rta`:
`rtct = C - (last - 1)`, `rem = C - rtct` -/
def fpLimited (a : Arr) (C last B : Nat) (others : List RB) (limit : Nat) : Res :=
  fpCore (.rbf a (.scalar C)) others B (C - (C - (last - 1))) limit
    (decide (last < 1 ∨ C < last - 1))

/-- `fixed_priority::floating_nonpreemptive::dedicated_uniproc_rta` -/
def fpFloating (tua : RB) (B : Nat) (others : List RB) (limit : Nat) : Res :=
  fpCore tua others B 0 limit

/-- an interfering task of the EDF analyses: request bound, relative deadline, maximum
non-preemptive segment (`C` for NP-EDF, unused for preemptive EDF) -/
structure EdfTask where
  rb : RB
  D : Nat
  seg : Nat
deriving Repr, Inhabited

/-- `Σ_o rbf_o(min(AF, (A + 1 + D) ∸ D_o))` -/
def edfHepWorkload (others : List EdfTask) (D A AF : Nat) : Nat :=
  sumList (others.map fun o => o.rb.need (min AF ((A + 1 + D) - o.D)))

/-- blocking by lower-priority (later-deadline) jobs: `max (seg_o ∸ 1)` over tasks with
`D_o > D + A` that release anything at all -/
def edfBlocking (others : List EdfTask) (D A : Nat) : Nat :=
  maxList ((others.filter fun o => decide (o.D > D + A) && decide (o.rb.need 1 > 0)).map
    fun o => o.seg - 1)

/-- the EDF search space: own step offsets below `L`, and every other task's step offsets
shifted by `D_o - D` (saturating), below `L`; merged, deduplicated -/
def edfSpace (tua : RB) (D : Nat) (others : List EdfTask) (L : Nat) : Option (List Nat) :=
  match tua.offsetsBelow L with
  | none => none
  | some own =>
    let rec go : List EdfTask → Option (List Nat)
      | [] => some []
      | o :: os =>
        let Ho := L + D - o.D
        match o.rb.offsetsBelow Ho, go os with
        | some offs, some rest =>
          some (merge ((offs.map fun off => off + o.D - D).filter (· < L)) rest)
        | _, _ => none
    match go others with
    | none => none
    | some oth => some (dedup (merge oth own))

/-- the common shape of the four EDF analyses; `withBlocking` = false for fully
preemptive EDF -/
def edfCore (tua : RB) (D : Nat) (others : List EdfTask) (rem : Nat) (withBlocking : Bool)
    (limit : Nat) (paramGuardFails : Bool := false) : Res :=
  match search .dedicated limit (fun L => sumNeed (others.map (·.rb)) L + tua.need L) with
  | .ok L =>
    if paramGuardFails then .panic else
    overOffsets (edfSpace tua D others L) fun A =>
      -- `self_interference.saturating_sub(rem_cost)` (a plain `-` until the `fix:` commit for
      -- finding F9: it underflowed for a task under analysis that never releases a job)
      let B := if withBlocking then edfBlocking others D A else 0
      finishEDF A rem
        (search .dedicated limit
          (fun AF => B + (tua.need (A + 1) - rem) + edfHepWorkload others D A AF))
  | e => e

/-- `edf::fully_preemptive::dedicated_uniproc_rta` -/
def edfPreemptive (tua : RB) (D : Nat) (others : List EdfTask) (limit : Nat) : Res :=
  edfCore tua D others 0 false limit

/-- `edf::fully_nonpreemptive::dedicated_uniproc_rta` (others: `seg` = their WCET) -/
def edfNonpreemptive (a : Arr) (C D : Nat) (others : List EdfTask) (limit : Nat) : Res :=
  edfCore (.rbf a (.scalar C)) D others (C - 1) true limit (decide (C < 1))

/-- `edf::limited_preemptive::dedicated_uniproc_rta` -/
def edfLimited (a : Arr) (C D last : Nat) (others : List EdfTask) (limit : Nat) : Res :=
  edfCore (.rbf a (.scalar C)) D others (C - (C - (last - 1))) true limit
    (decide (last < 1 ∨ C < last - 1))

/-- `edf::floating_nonpreemptive::dedicated_uniproc_rta` -/
def edfFloating (tua : RB) (D : Nat) (others : List EdfTask) (limit : Nat) : Res :=
  edfCore tua D others 0 true limit

end RTA
