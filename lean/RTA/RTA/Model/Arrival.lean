import RTA.Model.Curve
/-! Model of `src/arrival/*.rs`: deep-embedded arrival models, `number_arrivals`,
`steps_iter` (as the list of steps up to a horizon) and `clone_with_jitter`. -/

namespace RTA

/-- Arrival models.  `agg` stands for `Vec<T>` and `[T]` (identical code), `sum` for
`sum_of`; `&`, `Box`, `Rc` wrappers are pure delegation and are not represented.
`xcurve d` is an `ExtrapolatingCurve` wrapping `Curve d`; its cache is modelled
separately (`RTA/Model/XCurve.lean`), here it is the pure function the cache must be
indistinguishable from. -/
inductive Arr where
  | never
  | periodic (T : Nat)
  | sporadic (T J : Nat)
  | curve (d : List Nat)
  | xcurve (d : List Nat)
  | pfx (h : Nat) (steps : List (Nat × Nat))
  | prop (J : Nat) (a : Arr)
  | agg (as : List Arr)
  | sum (a b : Arr)
deriving Repr, Inhabited

/-- periodic steps `T*j + 1 ≤ H` -/
def periodicSteps (T H : Nat) : Nat → Nat → List Nat
  | 0, _ => []
  | fuel + 1, j => if T * j + 1 ≤ H then (T * j + 1) :: periodicSteps T H fuel (j + 1) else []

/-- the `(1..).filter(T*j > J).map(T*j + 1 - J)` part of `Sporadic::steps_iter`, cut at `H` -/
def sporadicTail (T J H : Nat) : Nat → Nat → List Nat
  | 0, _ => []
  | fuel + 1, j =>
    if T * j > J then
      (if T * j + 1 - J ≤ H then (T * j + 1 - J) :: sporadicTail T J H fuel (j + 1) else [])
    else sporadicTail T J H fuel (j + 1)

/-- `ExtrapolatingCurve::number_arrivals` as a pure function of the initial prefix -/
def xcurveN (d : List Nat) (delta : Nat) : Nat :=
  if delta = 0 then 0
  else curveN (extrapolate d (delta + 1) (extrapolateFuel d (delta + 1))) delta

/-- `ExtrapolatingCurve::steps_iter` cut at `H` as a pure function of the initial prefix:
`1`, then `1 + v` for the distinct positive values `v` of the (lazily) extrapolated
delta-min sequence; a one-entry prefix degenerates to the periodic process. -/
def xcurveSteps (d : List Nat) (H : Nat) : List Nat :=
  if d.length ≥ 2 then
    if 1 ≤ H then
      1 :: ((dedup (extrapolate d H (extrapolateFuel d H))).filter
              (fun v => decide (1 ≤ v) && decide (v + 1 ≤ H))).map (· + 1)
    else []
  else periodicSteps (d.headD 0) H (H + 1) 0

mutual
/-- `ArrivalBound::number_arrivals` -/
def Arr.N : Arr → Nat → Nat
  | .never, _ => 0
  | .periodic T, d => ceilDiv d T
  | .sporadic T J, d => if d = 0 then 0 else ceilDiv (d + J) T
  | .curve dm, d => curveN dm d
  | .xcurve dm, d => xcurveN dm d
  | .pfx h st, d => prefixN h st d
  | .prop J a, d => if d = 0 then 0 else a.N (d + J)
  | .agg as, d => Arr.Nlist as d
  | .sum a b, d => a.N d + b.N d
def Arr.Nlist : List Arr → Nat → Nat
  | [], _ => 0
  | a :: as, d => a.N d + Arr.Nlist as d
end

mutual
/-- `ArrivalBound::steps_iter().take_while(|x| x ≤ H)` -/
def Arr.stepsUpTo : Arr → Nat → List Nat
  | .never, _ => []
  | .periodic T, H => periodicSteps T H (H + 1) 0
  | .sporadic T J, H =>
    if 1 ≤ H then 1 :: sporadicTail T J H (H + J + 1) 1 else []
  | .curve dm, H => curveSteps dm H
  | .xcurve dm, H => xcurveSteps dm H
  | .pfx h st, H => prefixSteps h st H
  | .prop J a, H =>
    if 1 ≤ H then
      (if 0 < a.N (1 + J) then [1] else []) ++
        ((a.stepsUpTo (H + J)).filter (fun x => decide (x > J + 1))).map (· - J)
    else []
  | .agg as, H => dedup (Arr.stepsList as H)
  | .sum a b, H => dedup (merge (a.stepsUpTo H) (b.stepsUpTo H))
/-- k-way merge of the components' steps -/
def Arr.stepsList : List Arr → Nat → List Nat
  | [], _ => []
  | a :: as, H => merge (a.stepsUpTo H) (Arr.stepsList as H)
end

mutual
/-- `ArrivalBound::clone_with_jitter` -/
def Arr.withJitter : Arr → Nat → Arr
  | .never, _ => .never
  | .periodic T, j => .sporadic T j
  | .sporadic T J, j => .sporadic T (J + j)
  | .curve d, j => .prop j (.curve d)
  | .xcurve d, j => .prop j (.xcurve d)
  | .pfx h st, j => .prop j (.pfx h st)
  | .prop J a, j => .prop (J + j) a
  | .agg as, j => .agg (Arr.withJitterList as j)
  | .sum a b, j => .sum (a.withJitter j) (b.withJitter j)
def Arr.withJitterList : List Arr → Nat → List Arr
  | [], _ => []
  | a :: as, j => a.withJitter j :: Arr.withJitterList as j
end

mutual
/-- constructor assertions, implicit guards (division by a period / horizon / last
delta-min entry, neighbour subtraction in `steps_iter`) and realisability -/
def Arr.WF : Arr → Prop
  | .never => True
  | .periodic T => 1 ≤ T
  | .sporadic T _ => 1 ≤ T
  | .curve d => curveWF d
  | .xcurve d => curveWF d
  | .pfx h st => prefixWF h st
  | .prop _ a => a.WF
  | .agg as => Arr.WFlist as
  | .sum a b => a.WF ∧ b.WF
def Arr.WFlist : List Arr → Prop
  | [] => True
  | a :: as => a.WF ∧ Arr.WFlist as
end

mutual
def Arr.decWF : (a : Arr) → Decidable a.WF
  | .never => isTrue trivial
  | .periodic T => inferInstanceAs (Decidable (1 ≤ T))
  | .sporadic T _ => inferInstanceAs (Decidable (1 ≤ T))
  | .curve d => inferInstanceAs (Decidable (curveWF d))
  | .xcurve d => inferInstanceAs (Decidable (curveWF d))
  | .pfx h st => inferInstanceAs (Decidable (prefixWF h st))
  | .prop _ a => Arr.decWF a
  | .agg as => Arr.decWFlist as
  | .sum a b => @instDecidableAnd _ _ (Arr.decWF a) (Arr.decWF b)
def Arr.decWFlist : (as : List Arr) → Decidable (Arr.WFlist as)
  | [] => isTrue trivial
  | a :: as => @instDecidableAnd _ _ (Arr.decWF a) (Arr.decWFlist as)
end

instance Arr.instDecWF (a : Arr) : Decidable a.WF := Arr.decWF a

/-- `ArrivalBound::brute_force_steps_iter` cut at `H`: every `δ ∈ [1, H]` with
`N (δ-1) ≠ N δ` -/
def Arr.bruteSteps (a : Arr) (H : Nat) : List Nat :=
  ((List.range H).map (· + 1)).filter fun δ => a.N (δ - 1) ≠ a.N δ

end RTA
