/-! Basic definitions shared by the model of `response-time-analysis-rs`.

Import-free (core Lean only) so that the line-protocol driver links as a native
executable.  Every definition mirrors a piece of the Rust crate; see DESIGN.md §4. -/

namespace RTA

/-- Result of an analysis / of a fixed-point search (`fixed_point::SearchResult`).
`panic` is the model's rendering of a failed *guard* (non-saturating subtraction that
would underflow, `assert!`, out-of-range index, division by zero): what a build with
debug assertions and overflow checks does at that point. -/
inductive Res where
  | ok (r : Nat)
  | div (off lim : Nat)
  | panic
deriving DecidableEq, Repr, Inhabited

def Res.toStr : Res → String
  | .ok r => s!"ok {r}"
  | .div o l => s!"div {o} {l}"
  | .panic => "panic"

/-- `arrival::divide_with_ceil` -/
def ceilDiv (a b : Nat) : Nat := a / b + (if a % b > 0 then 1 else 0)

/-- sorted merge of two ascending lists (models `itertools::merge` / `kmerge` on
ascending inputs; ties: left first, irrelevant after `dedup`). -/
def merge : List Nat → List Nat → List Nat
  | [], ys => ys
  | xs, [] => xs
  | x :: xs, y :: ys =>
    if x ≤ y then x :: merge xs (y :: ys) else y :: merge (x :: xs) ys
termination_by xs ys => xs.length + ys.length

/-- `Itertools::dedup`: remove consecutive duplicates. -/
def dedup : List Nat → List Nat
  | [] => []
  | [x] => [x]
  | x :: y :: rest => if x = y then dedup (y :: rest) else x :: dedup (y :: rest)

/-- k-way merge of ascending lists. -/
def kmerge : List (List Nat) → List Nat
  | [] => []
  | l :: ls => merge l (kmerge ls)

def sumList : List Nat → Nat
  | [] => 0
  | x :: xs => x + sumList xs

/-- maximum of a list, 0 for the empty list -/
def maxList : List Nat → Nat
  | [] => 0
  | x :: xs => max x (maxList xs)

/-- minimum of a list, `none` for the empty list (Rust `Iterator::min`) -/
def minList? : List Nat → Option Nat
  | [] => none
  | x :: xs => match minList? xs with
    | none => some x
    | some m => some (min x m)

def listToStr (l : List Nat) : String :=
  "[" ++ ",".intercalate (l.map toString) ++ "]"

end RTA

namespace RTA

/-- insertion into a descending list -/
def insertDesc (x : Nat) : List Nat → List Nat
  | [] => [x]
  | y :: ys => if x ≥ y then x :: y :: ys else y :: insertDesc x ys

/-- descending sort (models `itertools::sorted(..).rev()`) -/
def sortDesc : List Nat → List Nat
  | [] => []
  | x :: xs => insertDesc x (sortDesc xs)

end RTA
