import RTA.Model.Arrival
import RTA.Model.Cost
/-! Model of `src/demand/*.rs` (request-bound functions). -/

namespace RTA

/-- Request bounds: `rbf a c` = `demand::RBF`, `agg rs` = `demand::Aggregate` and
`demand::Slice` (identical code). -/
inductive RB where
  | rbf (a : Arr) (c : Cost)
  | agg (rs : List RB)
deriving Repr, Inhabited

mutual
/-- `RequestBound::service_needed` -/
def RB.need : RB → Nat → Nat
  | .rbf a c, d => c.ofJobs (a.N d)
  | .agg rs, d => RB.needList rs d
def RB.needList : List RB → Nat → Nat
  | [], _ => 0
  | r :: rs, d => r.need d + RB.needList rs d
end

mutual
/-- `RequestBound::least_wcet_in_interval` -/
def RB.leastWcet : RB → Nat → Nat
  | .rbf a c, d => c.least (a.N d)
  | .agg rs, d => (minList? (RB.leastList rs d)).getD 0
def RB.leastList : List RB → Nat → List Nat
  | [], _ => []
  | r :: rs, d => r.leastWcet d :: RB.leastList rs d
end

mutual
/-- `RequestBound::steps_iter().take_while(|x| x ≤ H)` -/
def RB.stepsUpTo : RB → Nat → List Nat
  | .rbf a _, H => a.stepsUpTo H
  | .agg rs, H => dedup (RB.stepsList rs H)
def RB.stepsList : List RB → Nat → List Nat
  | [], _ => []
  | r :: rs, H => merge (r.stepsUpTo H) (RB.stepsList rs H)
end

mutual
/-- the items of `RequestBound::job_cost_iter(delta)` as a multiset (the order produced
by `kmerge` over unsorted inputs is not observable through the API's consumers, which
sum or sort it; the driver prints it sorted) -/
def RB.jobCosts : RB → Nat → List Nat
  | .rbf a c, d => c.items (a.N d)
  | .agg rs, d => RB.jobCostsList rs d
def RB.jobCostsList : List RB → Nat → List Nat
  | [], _ => []
  | r :: rs, d => r.jobCosts d ++ RB.jobCostsList rs d
end

/-- `RequestBound::service_needed_by_n_jobs`: sum of the `n` largest job costs -/
def RB.needByN (r : RB) (d n : Nat) : Nat :=
  sumList ((sortDesc (r.jobCosts d)).take n)

/-- `AggregateRequestBound::service_needed_by_n_jobs_per_component` -/
def RB.needByNPerComponent : RB → Nat → Nat → Nat
  | .rbf a c, d, n => (RB.rbf a c).needByN d n
  | .agg rs, d, n => sumList (rs.map fun r => r.needByN d n)

/-- `demand::step_offsets` cut at offsets `< L`; `none` when a yielded step is 0
(`Offset::closed_from_time_zero` computes `delta - 1`) -/
def stepOffsetsBelow (steps : List Nat) (L : Nat) : Option (List Nat) :=
  if steps.any (· = 0) then none else some ((steps.map (· - 1)).filter (· < L))

mutual
/-- all arrival models inside are well-formed (the only guards of `service_needed` and
`steps_iter`) -/
def RB.arrWF : RB → Bool
  | .rbf a _ => decide a.WF
  | .agg rs => RB.arrWFlist rs
def RB.arrWFlist : List RB → Bool
  | [] => true
  | r :: rs => r.arrWF && RB.arrWFlist rs
end

mutual
/-- guards of `job_cost_iter(delta)` -/
def RB.itemsGuard : RB → Nat → Bool
  | .rbf a c, d => c.itemsGuard (a.N d)
  | .agg rs, d => RB.itemsGuardList rs d
def RB.itemsGuardList : List RB → Nat → Bool
  | [], _ => true
  | r :: rs, d => r.itemsGuard d && RB.itemsGuardList rs d
end

mutual
/-- guards of `least_wcet_in_interval(delta)` -/
def RB.leastGuard : RB → Nat → Bool
  | .rbf a c, d => c.leastGuard (a.N d)
  | .agg rs, d => RB.leastGuardList rs d
def RB.leastGuardList : List RB → Nat → Bool
  | [], _ => true
  | r :: rs, d => r.leastGuard d && RB.leastGuardList rs d
end

mutual
def RB.WF : RB → Prop
  | .rbf a c => a.WF ∧ c.WF
  | .agg rs => RB.WFlist rs
def RB.WFlist : List RB → Prop
  | [] => True
  | r :: rs => r.WF ∧ RB.WFlist rs
end

mutual
def RB.decWF : (r : RB) → Decidable r.WF
  | .rbf a c => inferInstanceAs (Decidable (a.WF ∧ c.WF))
  | .agg rs => RB.decWFlist rs
def RB.decWFlist : (rs : List RB) → Decidable (RB.WFlist rs)
  | [] => isTrue trivial
  | r :: rs => @instDecidableAnd _ _ (RB.decWF r) (RB.decWFlist rs)
end

instance RB.instDecWF (r : RB) : Decidable r.WF := RB.decWF r

end RTA
