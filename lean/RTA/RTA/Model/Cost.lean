import RTA.Model.Basic
/-! Model of `src/wcet/*.rs` (job-cost models). -/

namespace RTA

/-- `wcet::Curve::cost_of_jobs` on the cumulative-cost vector `w` (`w[i]` = cost of
`i + 1` consecutive jobs) -/
def costCurveOf (w : List Nat) (n : Nat) : Nat :=
  if w ≠ [] ∧ n > 0 then
    let x := n / w.length
    let y := n % w.length
    (if x > 0 then w.getD (w.length - 1) 0 * x else 0) + (if y > 0 then w.getD (y - 1) 0 else 0)
  else 0

/-- `wcet::Curve::extrapolate_next`: `min_{k ∈ 0..=n/2} w[k] + w[n-k-1]` -/
def costExtrapolateNext (w : List Nat) : Nat :=
  let n := w.length
  ((minList? ((List.range (n / 2 + 1)).map fun k => w.getD k 0 + w.getD (n - k - 1) 0)).getD 0)

/-- `wcet::Curve::extrapolate(n)`: if there are at least three samples, push
`extrapolate_next` while `len + 1 < n` (equivalently `len < n - 1` in truncated subtraction;
the code used `n - 1` on `usize` until the `fix:` commit e6aaf1d, finding F5). -/
def costExtrapolate (w : List Nat) (n : Nat) : Nat → List Nat
  | 0 => w
  | fuel + 1 =>
    if w.length ≥ 3 ∧ w.length < n - 1 then costExtrapolate (w ++ [costExtrapolateNext w]) n fuel
    else w

/-- one observed cost `c` of `wcet::Curve::from_trace`: `window` = last `max_n` costs,
oldest first (already including `c`); running totals are taken from the most recent
observation backwards, so `total` after `i + 1` terms is the cost of the run of `i + 1`
consecutive jobs that ends at the current job. -/
def costTraceUpdate (costOf : List Nat) (window : List Nat) : List Nat :=
  go costOf window.reverse 0
where go : List Nat → List Nat → Nat → List Nat
  | cs, [], _ => cs
  | [], k :: ks, tot => (tot + k) :: go [] ks (tot + k)
  | c :: cs, k :: ks, tot => max c (tot + k) :: go cs ks (tot + k)

def costFromTraceAux (maxN : Nat) : List Nat → List Nat → List Nat → List Nat
  | [], costOf, _ => costOf
  | c :: cs, costOf, window =>
    let w1 := window ++ [c]
    let w2 := if w1.length > maxN then w1.drop 1 else w1
    costFromTraceAux maxN cs (costTraceUpdate costOf w2) w2

/-- `wcet::Curve::from_trace(job_costs, max_n)` -/
def costFromTrace (trace : List Nat) (maxN : Nat) : List Nat :=
  costFromTraceAux maxN trace [] []

inductive Cost where
  | scalar (c : Nat)
  | multiframe (cs : List Nat)
  | curve (w : List Nat)
  | xcurve (w : List Nat)
deriving Repr, Inhabited

/-- `ExtrapolatingCurve::cost_of_jobs` as a pure function of the initial vector -/
def xcostOf (w : List Nat) (n : Nat) : Nat :=
  costCurveOf (costExtrapolate w (n + 1) n) n

/-- first `n` items of the cycled multiframe vector -/
def cycleTake (cs : List Nat) : Nat → Nat → List Nat
  | 0, _ => []
  | n + 1, i => if cs = [] then [] else cs.getD (i % cs.length) 0 :: cycleTake cs n (i + 1)

/-- `JobCostModel::cost_of_jobs` -/
def Cost.ofJobs : Cost → Nat → Nat
  | .scalar c, n => c * n
  | .multiframe cs, n => sumList (cycleTake cs n 0)
  | .curve w, n => costCurveOf w n
  | .xcurve w, n => xcostOf w n

/-- the first `n` items of `JobCostModel::job_cost_iter` -/
def Cost.items : Cost → Nat → List Nat
  | .scalar c, n => List.replicate n c
  | .multiframe cs, n => cycleTake cs n 0
  | .curve w, n => (List.range n).map fun i => costCurveOf w (i + 1) - costCurveOf w i
  | .xcurve w, n => (List.range n).map fun i => xcostOf w (i + 1) - xcostOf w i

/-- `wcet::Curve::least_wcet` -/
def costCurveLeast (w : List Nat) (n : Nat) : Nat :=
  if n > 0 then
    ((List.range (min w.length n - 1)).foldl
      (fun least i => min least (w.getD (i + 1) 0 - w.getD i 0)) (w.headD 0))
  else 0

/-- `JobCostModel::least_wcet` -/
def Cost.least : Cost → Nat → Nat
  | .scalar c, n => if n > 0 then c else 0
  | .multiframe cs, n => (minList? (cs.take n)).getD 0
  | .curve w, n => costCurveLeast w n
  | .xcurve w, n => costCurveLeast w n

/-- guard of `job_cost_iter` for the curve models: `cost(i+1) - cost(i)` must not
underflow for the first `n` items -/
def costItemsGuard (f : Nat → Nat) (n : Nat) : Bool :=
  (List.range n).all fun i => decide (f i ≤ f (i + 1))

/-- guard of `JobCostModel::job_cost_iter().take(n)` -/
def Cost.itemsGuard : Cost → Nat → Bool
  | .scalar _, _ => true
  | .multiframe _, _ => true
  | .curve w, n => costItemsGuard (costCurveOf w) n
  | .xcurve w, n => costItemsGuard (xcostOf w) n

/-- guard of `wcet::Curve::least_wcet(n)`: `w[0]` exists and the neighbour differences
inspected do not underflow -/
def costLeastGuard (w : List Nat) (n : Nat) : Bool :=
  n = 0 || (w ≠ [] && (List.range (min w.length n - 1)).all fun i => decide (w.getD i 0 ≤ w.getD (i + 1) 0))

def Cost.leastGuard : Cost → Nat → Bool
  | .scalar _, _ => true
  | .multiframe _, _ => true
  | .curve w, n => costLeastGuard w n
  | .xcurve w, n => costLeastGuard w n

/-- cumulative-cost vector: non-empty, non-decreasing, sub-additive
(`w[i+j+1] ≤ w[i] + w[j]`: the cost of `i+j+2` jobs is at most that of `i+1` plus `j+1`) -/
def costCurveWF (w : List Nat) : Prop :=
  w ≠ [] ∧ w.Pairwise (· ≤ ·) ∧
  ∀ i j, i + j + 1 < w.length → w.getD (i + j + 1) 0 ≤ w.getD i 0 + w.getD j 0

instance (w : List Nat) : Decidable (costCurveWF w) := by
  unfold costCurveWF
  have : Decidable (∀ i j, i + j + 1 < w.length → w.getD (i + j + 1) 0 ≤ w.getD i 0 + w.getD j 0) :=
    decidable_of_iff (∀ i, i < w.length → ∀ j, j < w.length → i + j + 1 < w.length →
        w.getD (i + j + 1) 0 ≤ w.getD i 0 + w.getD j 0)
      ⟨fun h i j hij => h i (by omega) j (by omega) hij, fun h i _ j _ hij => h i j hij⟩
  infer_instance

def Cost.WF : Cost → Prop
  | .scalar _ => True
  | .multiframe _ => True
  | .curve w => costCurveWF w
  | .xcurve w => costCurveWF w

instance Cost.instDecWF (c : Cost) : Decidable c.WF := by
  cases c <;> unfold Cost.WF <;> infer_instance

end RTA
