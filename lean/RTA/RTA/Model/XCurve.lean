import RTA.Model.Arrival
/-! Model of the interior-mutable `arrival::ExtrapolatingCurve`: one shared delta-min
prefix (`Rc<RefCell<Curve>>`, shared by all clones) plus any number of live `StepsIter`s. -/

namespace RTA

/-- a live `StepsIter` (`ext`) or the degenerate periodic iterator of a one-entry prefix -/
inductive XIter where
  | ext (dist njobs : Nat)
  | per (period j : Nat)
deriving Repr, Inhabited

structure XState where
  pfx : List Nat
  iters : List XIter
deriving Repr, Inhabited

inductive XOp where
  /-- `number_arrivals(delta)` on any clone -/
  | na (delta : Nat)
  /-- `steps_iter()` on any clone: a new iterator (its index is the number of iterators so far) -/
  | newIter
  /-- `next()` on iterator `i` -/
  | next (i : Nat)
deriving Repr, Inhabited

def XState.init (d : List Nat) : XState := { pfx := d, iters := [] }

/-- `StepsIter::advance`: `while prefix.min_distance(njobs) <= dist { prefix.extrapolate_steps(njobs + 1); njobs += 1 }` -/
def xAdvance (dist : Nat) : Nat → List Nat → Nat → List Nat × Nat
  | 0, pfx, njobs => (pfx, njobs)
  | fuel + 1, pfx, njobs =>
    if minDistance pfx njobs ≤ dist then
      xAdvance dist fuel (extrapolateSteps pfx (njobs + 1) (njobs + 1)) (njobs + 1)
    else (pfx, njobs)

/-- fuel for `xAdvance`: the extrapolated distances pass `dist` after at most
`(dist + 2) * (len + 2)` further entries -/
def xAdvanceFuel (pfx : List Nat) (dist njobs : Nat) : Nat :=
  (dist + 2) * (pfx.length + 2) + njobs + 2

/-- one operation: new state and the value returned to the caller (`none` for `newIter`
and for `next` on an unknown iterator) -/
def XState.step (s : XState) : XOp → XState × Option Nat
  | .na delta =>
    if delta = 0 then (s, some 0)
    else
      let p := extrapolate s.pfx (delta + 1) (extrapolateFuel s.pfx (delta + 1))
      ({ s with pfx := p }, some (curveN p delta))
  | .newIter =>
    if s.pfx.length ≥ 2 then ({ s with iters := s.iters ++ [.ext 0 0] }, none)
    else ({ s with iters := s.iters ++ [.per (minDistance s.pfx 2) 0] }, none)
  | .next i =>
    match s.iters[i]? with
    | none => (s, none)
    | some (.per period j) =>
      ({ s with iters := s.iters.set i (.per period (j + 1)) }, some (period * j + 1))
    | some (.ext dist njobs) =>
      let (p, nj) := xAdvance dist (xAdvanceFuel s.pfx dist njobs) s.pfx njobs
      ({ pfx := p, iters := s.iters.set i (.ext (minDistance p nj) nj) }, some (1 + dist))

/-- run a history, collecting the returned values -/
def XState.run (s : XState) : List XOp → List (Option Nat)
  | [] => []
  | op :: ops => let (s', out) := s.step op; out :: XState.run s' ops

end RTA
