import RTA.Model.Basic
/-! Model of `arrival::Curve` (delta-min vectors) and `arrival::ArrivalCurvePrefix`
on plain lists.  `d[i]` = minimum length of an interval containing `i + 2` arrivals. -/

namespace RTA

/-- `Curve::lookup_arrivals`: first index `i` with `delta ≤ d[i]` gives `i + 1`
(`njobs - 1` with `njobs = i + 2`).  `none` = the `panic!()` after the loop. -/
def curveLookup : List Nat → Nat → Option Nat
  | [], _ => none
  | x :: xs, delta =>
    if delta ≤ x then some 1
    else (curveLookup xs delta).map (· + 1)

/-- `<Curve as ArrivalBound>::number_arrivals` -/
def curveN (d : List Nat) (delta : Nat) : Nat :=
  if delta = 0 then 0 else
  let last := d.getLastD 0
  -- `delta` = `pre` full multiples of the largest known distance + a remainder in `1 ..= last`
  let pre := (delta - 1) / last
  let prefixJobs := pre * d.length
  let tail := delta - last * pre
  if tail > d.headD 0 then prefixJobs + (curveLookup d tail).getD 0
  else prefixJobs + 1

/-- well-formed delta-min vector: non-empty, non-decreasing, last entry positive
(`Curve::new` asserts non-emptiness; `steps_iter` subtracts neighbours; `number_arrivals`
divides by the last entry) -/
def curveWF (d : List Nat) : Prop :=
  d ≠ [] ∧ d.Pairwise (· ≤ ·) ∧ 1 ≤ d.getLastD 0

instance (d : List Nat) : Decidable (curveWF d) := by unfold curveWF; infer_instance

/-- the non-zero differences `d[0] - 0, d[1] - d[0], …` (`step_sizes` in `steps_iter`) -/
def curveDiffs (d : List Nat) : List Nat :=
  (List.zipWith (fun a b => b - a) (0 :: d) d).filter (· ≠ 0)

/-- `StepsIter` of `Curve::steps_iter`: emit `sum`, add `diffs[idx]`, advance cyclically;
cut at `H` (models `take_while(|x| x ≤ H)`). -/
def curveStepsAux (diffs : List Nat) (H : Nat) : Nat → Nat → Nat → List Nat
  | 0, _, _ => []
  | fuel + 1, sum, idx =>
    if sum ≤ H then
      sum :: curveStepsAux diffs H fuel (sum + diffs.getD idx 0) ((idx + 1) % diffs.length)
    else []

def curveSteps (d : List Nat) (H : Nat) : List Nat :=
  curveStepsAux (curveDiffs d) H (H + 1) 1 0

/-- `Curve::extrapolate_next`: `max_{k ∈ 0..=n/2} d[k] + d[n-k-1]` -/
def extrapolateNext (d : List Nat) : Nat :=
  let n := d.length
  maxList ((List.range (n / 2 + 1)).map fun k => d.getD k 0 + d.getD (n - k - 1) 0)

/-- `Curve::extrapolate(horizon)`: push `extrapolate_next` while the last entry is below
the horizon (only if the vector has at least two entries).  `fuel` bounds the number of
pushes. -/
def extrapolate (d : List Nat) (horizon : Nat) : Nat → List Nat
  | 0 => d
  | fuel + 1 =>
    if d.length ≥ 2 ∧ d.getLastD 0 < horizon then
      extrapolate (d ++ [extrapolateNext d]) horizon fuel
    else d

/-- enough fuel for `extrapolate` on a well-formed vector: every `len + 1` pushes raise the
last entry (see `extrapolate_fuel_suffices`). -/
def extrapolateFuel (d : List Nat) (horizon : Nat) : Nat := (horizon + 1) * (d.length + 2)

/-- `Curve::extrapolate_steps(n)`: extend to at least `n` entries -/
def extrapolateSteps (d : List Nat) (n : Nat) : Nat → List Nat
  | 0 => d
  | fuel + 1 =>
    if d.length ≥ 2 ∧ d.length < n then extrapolateSteps (d ++ [extrapolateNext d]) n fuel
    else d

/-- `Curve::extrapolate_with_bound((delta, njobs))`; the `delta - 1` is a guard -/
def extrapolateWithBound (d : List Nat) (delta njobs : Nat) : List Nat :=
  let dmin := delta - 1
  if d.length + 2 = njobs then
    if d.length ≥ 2 then d ++ [max dmin (extrapolateNext d)] else d ++ [dmin]
  else d

/-- `Curve::min_distance(n)` -/
def minDistance (d : List Nat) (n : Nat) : Nat :=
  if n > 1 then d.getD (min (n - 2) (d.length - 1)) 0 else 0

/-- `FromIterator<Duration> for Curve`: running maximum -/
def curveFromIter : List Nat → List Nat
  | [] => []
  | x :: xs => go x xs
where go (m : Nat) : List Nat → List Nat
  | [] => [m]
  | y :: ys => m :: go (max m y) ys

/-- one arrival `t` of `Curve::from_trace`: update `d` against the sliding window
(most recent first). -/
def traceUpdate (d : List Nat) (windowRev : List Nat) (t : Nat) : List Nat :=
  go d windowRev
where go : List Nat → List Nat → List Nat
  | d, [] => d
  | [], v :: vs => (t - v) :: go [] vs
  | x :: xs, v :: vs => min x (t - v) :: go xs vs

/-- `Curve::from_trace(arrival_times, prefix_jobs)`; `windowRev` = sliding window, most
recent first, at most `p` entries. -/
def curveFromTraceAux (p : Nat) : List Nat → List Nat → List Nat → List Nat
  | [], d, _ => d
  | t :: ts, d, windowRev =>
    curveFromTraceAux p ts (traceUpdate d windowRev t) ((t :: windowRev).take p)

def curveFromTrace (trace : List Nat) (p : Nat) : List Nat :=
  curveFromTraceAux p trace [] []

/-! ### ArrivalCurvePrefix -/

/-- `ArrivalCurvePrefix::lookup` for `0 < delta`: the job count of the last step whose
delta is `≤ delta` (list order), `none` = index underflow (no such step). -/
def prefixLookup (steps : List (Nat × Nat)) (delta : Nat) : Option Nat :=
  go steps none
where go : List (Nat × Nat) → Option Nat → Option Nat
  | [], acc => acc
  | (dm, n) :: rest, acc => if dm ≤ delta then go rest (some n) else acc

/-- `<ArrivalCurvePrefix as ArrivalBound>::number_arrivals` -/
def prefixN (h : Nat) (steps : List (Nat × Nat)) (delta : Nat) : Nat :=
  let maxN := (steps.getLast?.map (·.2)).getD 0
  let part := delta % h
  maxN * (delta / h) + (if part = 0 then 0 else (prefixLookup steps part).getD 0)

/-- `ArrivalCurvePrefix::new` assertions plus realisability: first step at `delta = 1`,
deltas and job counts strictly increasing, everything inside the horizon. -/
def prefixWF (h : Nat) (steps : List (Nat × Nat)) : Prop :=
  1 ≤ h ∧ steps ≠ [] ∧ (steps.headD (0, 0)).1 = 1 ∧ 1 ≤ (steps.headD (0, 0)).2 ∧
  steps.Pairwise (fun a b => a.1 < b.1 ∧ a.2 < b.2) ∧ ∀ s ∈ steps, s.1 ≤ h

instance (h : Nat) (steps : List (Nat × Nat)) : Decidable (prefixWF h steps) := by
  unfold prefixWF; infer_instance

/-- `ArrivalCurvePrefix::steps_iter`, cut at `H`: `0` first (sic), then every step delta
shifted by whole horizons. -/
def prefixStepsAux (h : Nat) (steps : List (Nat × Nat)) (H : Nat) : Nat → Nat → List Nat
  | 0, _ => []
  | fuel + 1, cycle =>
    let cur := (steps.map fun s => s.1 + h * cycle).takeWhile (· ≤ H)
    if cur.length = steps.length then cur ++ prefixStepsAux h steps H fuel (cycle + 1) else cur

def prefixSteps (h : Nat) (steps : List (Nat × Nat)) (H : Nat) : List Nat :=
  0 :: prefixStepsAux h steps H (H + 1) 0

end RTA
