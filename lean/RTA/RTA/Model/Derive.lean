import RTA.Model.Arrival
/-! Model of `arrival/dmin.rs` and of the conversions between arrival models
(`Curve::from_arrival_bound*`, `ArrivalCurvePrefix::from_arrival_bound_until`, `From` impls). -/

namespace RTA

/-- `DeltaMinIterator`, driven by a finite list of steps: for every step `δ` (in order)
and every pending job count `n ≤ N δ`, emit `(n, δ - 1)`.  `next` = `next_count`. -/
def dminScan (N : Nat → Nat) : List Nat → Nat → List (Nat × Nat)
  | [], _ => []
  | δ :: rest, next =>
    let cnt := N δ
    if next ≤ cnt then
      ((List.range (cnt + 1 - next)).map fun i => (next + i, δ - 1)) ++ dminScan N rest (cnt + 1)
    else dminScan N rest next

/-- the entries of `nonzero_delta_min_iter(a)` whose step lies within `H` -/
def Arr.dminEntries (a : Arr) (H : Nat) : List (Nat × Nat) :=
  dminScan a.N (a.stepsUpTo H) 2

/-- a horizon by which `a` admits `n` arrivals (doubling search; `fuel` doublings) -/
def Arr.horizonFor (a : Arr) (n : Nat) : Nat → Nat → Nat
  | 0, H => H
  | fuel + 1, H => if a.N H ≥ n then H else Arr.horizonFor a n fuel (2 * H + 1)

/-- `Curve::from_arrival_bound(&a, up_to_njobs)`: delta-min entries for
`2 … max(up_to_njobs, 3)` jobs (at least two entries are always taken). -/
def Arr.curveOfBound (a : Arr) (upTo : Nat) : List Nat :=
  let m := max upTo 3
  let H := Arr.horizonFor a (m + 1) 64 1
  ((a.dminEntries H).filter fun e => e.1 ≤ m).map (·.2)

/-- `Curve::from_arrival_bound_until(&a, horizon)`: entries while the distance is within
the horizon, at least two entries. -/
def Arr.curveOfBoundUntil (a : Arr) (horizon : Nat) : List Nat :=
  let H0 := Arr.horizonFor a 4 64 1
  let H := max (horizon + 2) H0
  ((a.dminEntries H).filter fun e => e.2 ≤ horizon ∨ e.1 ≤ 3).map (·.2)

/-- `ArrivalCurvePrefix::from_arrival_bound_until(&a, horizon)`; `none` = an assertion of
`ArrivalCurvePrefix::new` fails (a step beyond the horizon, or job counts not strictly
increasing — which happens when `steps_iter` yields a point that is not an increase). -/
def Arr.prefixOfBoundUntil (a : Arr) (horizon : Nat) : Option (List (Nat × Nat)) :=
  let steps := (a.stepsUpTo (max horizon 1)).map fun δ => (δ, a.N δ)
  let rec ok : List (Nat × Nat) → Nat → Bool
    | [], _ => true
    | (δ, n) :: rest, last => decide (δ ≤ horizon) && decide (last < n) && ok rest n
  if ok steps 0 then some steps else none

/-- `From<Periodic> for Curve` -/
def curveOfPeriodic (T : Nat) : List Nat := [T]

/-- `From<Sporadic> for Curve` -/
def curveOfSporadic (T J : Nat) : List Nat :=
  let jitterJobs := ceilDiv J T
  (Arr.sporadic T J).curveOfBound (max 500 (jitterJobs * 10))

/-- `From<&ArrivalCurvePrefix> for Curve` -/
def curveOfPrefix (h : Nat) (steps : List (Nat × Nat)) : List Nat :=
  let njobs := (steps.getLast?.map (·.2)).getD 0
  let d := (Arr.pfx h steps).curveOfBound njobs
  extrapolateWithBound d (h + 1) (njobs + 1)

/-! ### the same constructors driven by the iterator's own progress

`horizonFor` looks for a horizon by which `number_arrivals` reaches a job count; that is the
right horizon when `steps_iter` is exact.  For a model whose `steps_iter` misses increases
(findings F2/F3) the real `DeltaMinIterator` only advances on the steps it is given, so the
faithful horizon is the one by which the *iterator* has emitted enough.  The definitions below
are what the driver runs; `Lemmas/DeriveIter.lean` proves that they coincide with the
definitions above for well-formed exact models. -/

/-- a horizon by which the iterator has emitted an entry satisfying `p` (doubling search) -/
def Arr.horizonForEntry (a : Arr) (p : Nat × Nat → Bool) : Nat → Nat → Nat
  | 0, H => H
  | fuel + 1, H => if (a.dminEntries H).any p then H else Arr.horizonForEntry a p fuel (2 * H + 1)

/-- `Curve::from_arrival_bound`: `take_while(njobs ≤ up_to ∨ count < 2)` — complete once an
entry for more than `max up_to 3` jobs has been emitted -/
def Arr.curveOfBoundIter (a : Arr) (upTo : Nat) : List Nat :=
  let m := max upTo 3
  let H := Arr.horizonForEntry a (fun e => decide (m < e.1)) 64 1
  ((a.dminEntries H).filter fun e => e.1 ≤ m).map (·.2)

/-- `Curve::from_arrival_bound_until`: `take_while(delta ≤ horizon ∨ count < 2)` — complete
once an entry for at least 4 jobs with a distance beyond the horizon has been emitted -/
def Arr.curveOfBoundUntilIter (a : Arr) (horizon : Nat) : List Nat :=
  let H := Arr.horizonForEntry a (fun e => decide (horizon < e.2) && decide (4 ≤ e.1)) 64 1
  ((a.dminEntries H).filter fun e => e.2 ≤ horizon ∨ e.1 ≤ 3).map (·.2)

/-- first `k` items of `delta_min_iter(a)` — complete once the iterator has emitted an entry
for at least `k - 1` jobs (entry `i ≥ 2` of the sequence is the one for `i` jobs) -/
def Arr.dminIterTakeIter (a : Arr) (k : Nat) : List (Nat × Nat) :=
  let H := Arr.horizonForEntry a (fun e => decide (k ≤ e.1 + 1)) 64 1
  ([(0, 0), (1, 0)] ++ a.dminEntries H).take k

/-- `From<Sporadic> for Curve` -/
def curveOfSporadicIter (T J : Nat) : List Nat :=
  let jitterJobs := ceilDiv J T
  (Arr.sporadic T J).curveOfBoundIter (max 500 (jitterJobs * 10))

/-- `From<&ArrivalCurvePrefix> for Curve` -/
def curveOfPrefixIter (h : Nat) (steps : List (Nat × Nat)) : List Nat :=
  let njobs := (steps.getLast?.map (·.2)).getD 0
  let d := (Arr.pfx h steps).curveOfBoundIter njobs
  extrapolateWithBound d (h + 1) (njobs + 1)

/-- first `k` items of `delta_min_iter(a)` -/
def Arr.dminIterTake (a : Arr) (k : Nat) : List (Nat × Nat) :=
  let H := Arr.horizonFor a (k + 1) 64 1
  ([(0, 0), (1, 0)] ++ a.dminEntries H).take k

end RTA
