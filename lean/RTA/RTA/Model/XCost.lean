import RTA.Model.Cost
/-! Model of the interior-mutable `wcet::ExtrapolatingCurve`: one shared cumulative-cost
vector (`Rc<RefCell<Curve>>`). -/

namespace RTA

inductive XCostOp where
  /-- `cost_of_jobs(n)`: extrapolates the shared vector to `n` entries, then looks up -/
  | coj (n : Nat)
  /-- `least_wcet(n)`: reads the CURRENT shared vector without extrapolating -/
  | least (n : Nat)
deriving Repr, Inhabited

/-- one operation on the shared vector: new vector and returned value -/
def xcostStep (w : List Nat) : XCostOp → List Nat × Nat
  | .coj n =>
    let w' := costExtrapolate w (n + 1) n
    (w', costCurveOf w' n)
  | .least n => (w, costCurveLeast w n)

def xcostRun (w : List Nat) : List XCostOp → List Nat
  | [] => []
  | op :: ops => let (w', out) := xcostStep w op; out :: xcostRun w' ops

/-- what a fresh `ExtrapolatingCurve` over the initial vector answers -/
def xcostPure (w0 : List Nat) : XCostOp → Nat
  | .coj n => xcostOf w0 n
  | .least n => costCurveLeast w0 n

end RTA
