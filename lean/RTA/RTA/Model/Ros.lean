import RTA.Model.Analyses
/-! Model of `src/ros2/{ecrts19,rr,bw}.rs`. -/

namespace RTA

/-! ### ECRTS'19 -/

/-- `ecrts19::bound_response_time`: `steps` are the steps of the demand that defines the
search space (`demand.steps_iter()`), cut at `max_bw + 1` -/
def rosBound (s : Supply) (demand : RB) (bwRhs : Nat → Nat) (offRhs : Nat → Nat → Nat)
    (limit : Nat) : Res :=
  match search s limit bwRhs with
  | .ok maxBw =>
    -- offsets `A = δ - 1 ≤ max_bw`
    overOffsets (stepOffsetsBelow (demand.stepsUpTo (maxBw + 1)) (maxBw + 1)) fun A =>
      searchWithOffset s A limit (offRhs A)
  | e => e

/-- `rta_event_source` -/
def rosEventSource (s : Supply) (demand : RB) (limit : Nat) : Res :=
  rosBound s demand (fun d => demand.need d) (fun A _ => demand.need (A + 1)) limit

/-- the interval during which other callbacks can delay the callback under analysis -/
def interferenceInterval (own : RB) (A r : Nat) : Nat :=
  let ownWcet := own.leastWcet (A + r)
  if r > ownWcet then A + r - ownWcet + 1 else A + 1

/-- `rta_timer` -/
def rosTimer (s : Supply) (own interf : RB) (B limit : Nat) : Res :=
  rosBound s own (fun d => own.need d + B + interf.need d)
    (fun A r => own.need (A + 1) + interf.need (interferenceInterval own A r) + B) limit

/-- `rta_polling_point_callback` -/
def rosPollingPoint (s : Supply) (own interf : RB) (limit : Nat) : Res :=
  rosBound s own (fun d => own.need d + interf.need d)
    (fun A r => own.need (A + 1) + interf.need (interferenceInterval own A r)) limit

/-- `rta_processing_chain` (the `debug_assert_eq!` on the consistency of the three chain
demands is a caller obligation, checked by the driver) -/
def rosChain (s : Supply) (last pfx full others : RB) (limit : Nat) : Res :=
  rosBound s full (fun d => full.need d + others.need d)
    (fun A r =>
      let iv := interferenceInterval last A r
      last.need (A + 1) + pfx.need iv + others.need iv) limit

/-! ### RTSS'21: round-robin-aware (rr) and busy-window-aware (bw) -/

inductive CbKind where
  | timer
  | eventSource
  | polledUnknown
  | polled (prio : Nat)
deriving Repr, Inhabited, DecidableEq

def CbKind.isPP : CbKind → Bool
  | .polledUnknown => true
  | .polled _ => true
  | _ => false

structure Callback where
  rtb : Nat
  arr : Arr
  cost : Cost
  kind : CbKind
deriving Repr, Inhabited

/-- the cap on the number of interfering instances of a polled callback -/
def cappedJobs (kind interfered : CbKind) (arrived cap : Nat) : Nat :=
  match kind with
  | .timer => arrived
  | .eventSource => arrived
  | .polledUnknown => min arrived (cap + 1)
  | .polled p =>
    match interfered with
    | .polled q => min arrived (cap + (if p < q then 1 else 0))
    | _ => min arrived (cap + 1)

/-- `rr::Callback::direct_rbf` -/
def Callback.directRbf (cb : Callback) (interfered : CbKind) (delta npp : Nat) : Nat :=
  let arrived := cb.arr.N (delta + cb.rtb - 1)
  cb.cost.ofJobs (cappedJobs cb.kind interfered arrived npp)

/-- `rr::Callback::max_self_interfering_instances` -/
def Callback.rrSelfInstances (cb : Callback) (delta : Nat) : Nat :=
  cb.arr.N (delta + cb.rtb - 1) - 1

/-- `Callback::polling_point_bound` -/
def Callback.ppBound (cb : Callback) : Nat := cb.arr.N cb.rtb

def sumPPBound (wl : List Callback) (sub : List Nat) : Nat :=
  sumList (sub.map fun i => (wl.getD i default).ppBound)

/-- `rr::rta_subchain`; the subchain is a list of indices into the workload (pointer
identity in the Rust code) -/
def rrSubchain (s : Supply) (wl : List Callback) (sub : List Nat) (limit : Nat) : Res :=
  match sub.getLast? with
  | none => .panic
  | some e =>
    if ¬ sub.all (· < wl.length) then .panic else
    let eoc := wl.getD e default
    let npp := sumPPBound wl sub
    let rhs := fun sStar =>
      1 + sumList ((List.range wl.length).map fun i =>
            if i = e then 0 else (wl.getD i default).directRbf eoc.kind sStar npp)
        + eoc.cost.ofJobs (eoc.rrSelfInstances sStar)
    match search s limit rhs with
    | .ok sStar =>
      let n := eoc.rrSelfInstances sStar
      if eoc.cost.ofJobs (n + 1) < eoc.cost.ofJobs n then .panic else
      let omega := eoc.cost.ofJobs (n + 1) - eoc.cost.ofJobs n
      match s.st? ((s.sbf sStar - 1) + omega) with
      | some r => .ok r
      | none => .panic
    | e => e

/-- `bw::Callback::busy_window_rbf` -/
def Callback.bwRbf (cb : Callback) (interfered : CbKind) (delta act npp : Nat) : Nat :=
  let arrived := cb.arr.N delta
  let arrivedBw := cb.arr.N act + npp
  cb.cost.ofJobs (cappedJobs cb.kind interfered arrived arrivedBw)

/-- `bw::Callback::max_self_interfering_instances` -/
def Callback.bwSelfInstances (cb : Callback) (act : Nat) : Nat := cb.arr.N (act + 1) - 1

def bwInterference (wl : List Callback) (e : Nat) (eocKind : CbKind) (npp delta act : Nat) : Nat :=
  sumList ((List.range wl.length).map fun i =>
    if i = e then 0 else (wl.getD i default).bwRbf eocKind delta act npp)

/-- the relevant steps of `bw::rta_subchain` (Lemma 19) up to horizon `H`: for the end of
the chain the steps shifted by one (saturating), for polled callbacks the steps as they
are; merged and deduplicated -/
def bwAllSteps (wl : List Callback) (e : Nat) (H : Nat) : List Nat :=
  let rec go : List Callback → Nat → List Nat
    | [], _ => []
    | cb :: rest, i =>
      if i = e then merge ((cb.arr.stepsUpTo (H + 1)).map (· - 1)) (go rest (i + 1))
      else if cb.kind.isPP then merge (cb.arr.stepsUpTo H) (go rest (i + 1))
      else go rest (i + 1)
  dedup (go wl 0)

/-- the debug-only brute-force enumeration of the same steps -/
def bwBruteSteps (wl : List Callback) (e : Nat) (H : Nat) : List Nat :=
  (List.range (H + 1)).filter fun ta =>
    (List.range wl.length).any fun i =>
      let cb := wl.getD i default
      if i = e then cb.arr.N ta != cb.arr.N (ta + 1)
      else cb.kind.isPP && decide (ta > 0) && (cb.arr.N (ta - 1) != cb.arr.N ta)

/-- horizon that contains the first relevant step at or beyond `maxOff` (doubling search) -/
def bwCoverHorizon (wl : List Callback) (e : Nat) (maxOff : Nat) : Nat → Nat → Nat
  | 0, H => H
  | fuel + 1, H =>
    if (bwAllSteps wl e H).any (· ≥ maxOff) then H else bwCoverHorizon wl e maxOff fuel (2 * H + 1)

/-- keep the elements below `b` and the first one at or beyond it (what `take_while` pulls
from the checked iterator) -/
def pulled (l : List Nat) (b : Nat) : List Nat :=
  match l.span (· < b) with
  | (lo, hi) => lo ++ hi.take 1

/-- `bw::rta_subchain` -/
def bwSubchain (s : Supply) (wl : List Callback) (sub : List Nat) (limit : Nat)
    (debugChecks : Bool := true) : Res :=
  match sub.getLast? with
  | none => .panic
  | some e =>
    if ¬ sub.all (· < wl.length) then .panic else
    let eoc := wl.getD e default
    let npp := sumPPBound wl sub
    let singleton := sub.length = 1
    let rhsMax := fun ta =>
      1 + bwInterference wl e eoc.kind npp ta ta + eoc.cost.ofJobs (eoc.arr.N ta)
    match search s limit rhsMax with
    | .ok maxOff =>
      let H := bwCoverHorizon wl e maxOff 24 maxOff
      let steps := bwAllSteps wl e H
      let pulledSteps := pulled steps maxOff
      -- the debug build compares every pulled element with the brute-force enumeration
      let upTo := pulledSteps.getLastD maxOff
      if debugChecks ∧ pulledSteps ≠ (pulled (bwBruteSteps wl e (max upTo maxOff)) maxOff).take pulledSteps.length then .panic else
      overOffsets (some (steps.filter (· < maxOff))) fun act =>
        let n := eoc.bwSelfInstances act
        let si := eoc.cost.ofJobs n
        match search s limit (fun sStar => 1 + bwInterference wl e eoc.kind npp sStar act + si) with
        | .ok sStar =>
          if eoc.cost.ofJobs (n + 1) < eoc.cost.ofJobs n then .panic else
          let omega := eoc.cost.ofJobs (n + 1) - eoc.cost.ofJobs n
          match s.st? ((s.sbf sStar - 1) + omega) with
          | some f => .ok (if singleton then f - act else f)
          | none => .panic
        | e => e
    | e => e

end RTA

namespace RTA

/-- the debug build of `bw::rta_subchain` first evaluates `brute_force_steps.peek()` on the
infinite brute-force enumeration `(0..).filter(..)`: when NO offset is a relevant step
(the end of the chain never releases anything and no polled callback has a step) this never
returns (finding F11).  The model detects it as "no brute-force step within a generous
horizon once the maximum offset has been found". -/
def bwDebugHangs (s : Supply) (wl : List Callback) (sub : List Nat) (limit : Nat) : Bool :=
  match sub.getLast? with
  | none => false
  | some e =>
    if ¬ sub.all (· < wl.length) then false else
    let eoc := wl.getD e default
    let npp := sumPPBound wl sub
    let rhsMax := fun ta =>
      1 + bwInterference wl e eoc.kind npp ta ta + eoc.cost.ofJobs (eoc.arr.N ta)
    match search s limit rhsMax with
    | .ok maxOff => (bwBruteSteps wl e (4 * (maxOff + 64))).isEmpty
    | _ => false

end RTA
