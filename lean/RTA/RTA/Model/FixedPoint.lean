import RTA.Model.Supply
/-! Model of `src/fixed_point.rs`. -/

namespace RTA

/-- The `while` loop of `fixed_point::search_with_offset`.
`st` is the supply's `service_time` (`none` = the default implementation ran away).
The `dm < offset` test is the `debug_assert!` inside `Offset::distance_to`.
The loop is rendered with structural recursion on `fuel`; `assumed` strictly increases
in every continuing iteration and the loop stops once it exceeds `limit`, so
`fuel = limit + 1` is never exhausted before the loop condition fails (and exhaustion
returns what the failed loop condition returns). -/
def searchLoop (st : Nat → Option Nat) (w : Nat → Nat) (offset limit : Nat) : Nat → Nat → Res
  | 0, _ => .div offset limit
  | fuel + 1, assumed =>
    if assumed ≤ limit then
      match st (w assumed) with
      | none => .panic
      | some dm =>
        if dm < offset then .panic
        else if dm - offset ≤ assumed then .ok (dm - offset)
        else searchLoop st w offset limit fuel (dm - offset)
    else .div offset limit

/-- `fixed_point::search_with_offset` -/
def searchWithOffset (s : Supply) (offset limit : Nat) (w : Nat → Nat) : Res :=
  searchLoop s.st? w offset limit (limit + 1) 1

/-- `fixed_point::search` (release semantics; the debug build additionally asserts
`bruteForceSearch = search` when `limit ≤ 100000`, see `bruteForce_eq_search`). -/
def search (s : Supply) (limit : Nat) (w : Nat → Nat) : Res :=
  searchWithOffset s 0 limit w

/-- the `for r in 1..=limit` loop of the debug-only `brute_force_search_with_offset`,
counting upwards from `r` with `fuel` iterations left. -/
def bruteLoop (sbf : Nat → Nat) (w : Nat → Nat) (offset limit : Nat) : Nat → Nat → Res
  | 0, _ => .div offset limit
  | fuel + 1, r =>
    if w r = 0 then .ok 0
    else if sbf (offset + r) = w r then .ok r
    else bruteLoop sbf w offset limit fuel (r + 1)

/-- `fixed_point::brute_force_search_with_offset` -/
def bruteForceSearch (s : Supply) (offset limit : Nat) (w : Nat → Nat) : Res :=
  bruteLoop s.sbf w offset limit limit 1

/-- The fold performed by `Iterator::max_by` with the comparator of
`max_response_time`: keep the first error, otherwise the maximum.  A panic while an
element is computed aborts the whole call, so it dominates. -/
def combineRes (x y : Res) : Res :=
  match x, y with
  | .panic, _ => .panic
  | _, .panic => .panic
  | .div o l, _ => .div o l
  | .ok _, .div o l => .div o l
  | .ok a, .ok b => if a > b then .ok a else .ok b

/-- `fixed_point::max_response_time` -/
def maxResponseTime : List Res → Res
  | [] => .ok 0
  | r :: rs => rs.foldl combineRes r

end RTA
