/-! Model of `src/arrival/poisson.rs` in IEEE double arithmetic (Lean's `Float`, opaque to
the kernel: used only by the driver for the correspondence check; the theorems of C15 are
about the real-valued algorithm in `RTA/Spec/PoissonReal.lean`). -/

namespace RTA

/-- `f64::powi` (compiler-builtins `__powidf2`): square-and-multiply -/
def powi (a : Float) (b : Nat) : Float := Id.run do
  let mut a := a
  let mut pow := b
  let mut mul : Float := 1.0
  for _ in [0:64] do
    if pow % 2 == 1 then mul := mul * a
    pow := pow / 2
    if pow == 0 then break
    a := a * a
  return mul

/-- `Poisson::arrival_probability(delta, njobs)` -/
def poissonPmfF (rate : Float) (delta njobs : Nat) : Float :=
  let denominator := (List.range njobs).foldl (fun d x => d * (x + 1).toFloat) 1.0
  let mean := delta.toFloat * rate
  let numerator := Float.exp (-mean) * powi mean njobs
  numerator / denominator

/-- the loop of `ApproximatedPoisson::number_arrivals`; `none` = did not terminate within
`fuel` iterations (the real code then never terminates) -/
def poissonNaLoop (rate eps : Float) (delta : Nat) : Nat → Float → Nat → Option Nat
  | 0, _, _ => none
  | fuel + 1, cum, njobs =>
    let cum' := cum + poissonPmfF rate delta njobs
    if cum' + eps >= 1.0 then some njobs else poissonNaLoop rate eps delta fuel cum' (njobs + 1)

def poissonNaF (rate eps : Float) (delta : Nat) (fuel : Nat := 20000) : Option Nat :=
  if delta = 0 then some 0 else poissonNaLoop rate eps delta fuel 0.0 0

end RTA
