import RTA.Model.Basic
import RTA.Model.Supply
import RTA.Model.FixedPoint
import RTA.Spec.SupplyProc
import RTA.Lemmas.FixedPoint
import RTA.Lemmas.Supply
import RTA.Props.C08
import RTA.Props.C09
