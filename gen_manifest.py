#!/usr/bin/env python3
"""Regenerates MANIFEST.json from the registry in vlib/props.py (run after changing it)."""
import json, os, sys
sys.path.insert(0, os.path.dirname(os.path.abspath(__file__)))
from vlib import props

ALL = [f"C{i:02d}" for i in range(1, 21)]
checks = []
for pid in ALL:
    if pid not in props.PROPS:
        continue
    P = props.PROPS[pid]
    checks.append({
        "property_id": pid,
        "quick_cmd": f"./check {pid} --tier quick",
        "thorough_cmd": f"./check {pid} --tier thorough",
        "evidence_file": f"/verif/evidence/{pid}.json",
        "replay_cmd_template": f"./check {pid} --replay {{path}}",
        "engine": "lean4-model+correspondence",
        "level_claimed": {"category": P["level"], "text": P.get("explanation", ""), "design_ref": P.get("design_ref", f"DESIGN.md section 5, {pid}")},
        "level_note": P.get("level_note", "Trusted: Lean kernel + axioms propext/Classical.choice/Quot.sound; the hand-written model is tied to the code by differential execution (correspondence streams) only; Spec definitions; harness, driver and differ. " + ("Partial: " + "; ".join(P["partial"]) if P.get("partial") else "")),
        "technique": P.get("technique", "Lean 4 theorems about a hand-written executable model + model/implementation correspondence check + falsifier search on the real code"),
    })
na = [{"property_id": pid, "reason": "check not built yet in this round (planned, see DESIGN.md section 8); not a claim that the technique cannot apply"} for pid in ALL if pid not in props.PROPS]
m = {
    "version": 1,
    "setup_cmd": "./setup.sh",
    "hooks": {
        "guard": "rta_verif",
        "enable": "none needed: every observation goes through the crate's public API (the harness is a separate crate with a path dependency on /repo)",
        "baseline_off_cmd": "cd /repo && cargo test --workspace --no-fail-fast --offline",
        "source_commits": [],
        "add_only": True,
    },
    "engines": [{
        "name": "lean4-model+correspondence",
        "path": "/verif/check",
        "serves_properties": [c["property_id"] for c in checks],
        "kind_free_text": "Lean 4 proofs over a hand-written executable model (lean/RTA), differential correspondence check against the real crate (harness/ + Driver), falsifiers with naive oracles (vlib/), known-findings protocol",
    }],
    "checks": checks,
    "not_applicable": na,
    "notes": "See DESIGN.md. Every check rebuilds the harness from /repo's working tree (cargo path dependency) and the Lean development (incremental).",
}
json.dump(m, open(os.path.join(os.path.dirname(os.path.abspath(__file__)), "MANIFEST.json"), "w"), indent=1)
print("claimed:", [c["property_id"] for c in checks])
